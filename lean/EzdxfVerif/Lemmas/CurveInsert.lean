/-
Helper lemmas for C13 (not counted): list plumbing between `Model/Curve.lean` (`insertKnot`, `curveSum`,
`nondecreasing`) and the knot-function form of Boehm's identity in `Lemmas/CurveBoehm.lean`.
-/
import EzdxfVerif.Lemmas.CurveBoehm

namespace EzdxfVerif.Lemmas.Curve
open EzdxfVerif.Curve

theorem v3ext {a b : V3} (hx : a.x = b.x) (hy : a.y = b.y) (hz : a.z = b.z) : a = b := by
  cases a; cases b; simp_all

@[simp] theorem kget_cons_zero (a : Rat) (r : List Rat) : kget (a :: r) 0 = a := rfl
@[simp] theorem kget_cons_succ (a : Rat) (r : List Rat) (i : Nat) : kget (a :: r) (i + 1) = kget r i := rfl

theorem kget_eq (l : List Rat) (i : Nat) : kget l i = l[i]?.getD 0 := by
  simp [kget, List.getD_eq_getElem?_getD]

/-! ## nondecreasing lists -/

theorem nd_head_le : ∀ (r : List Rat) (a : Rat), nondecreasing (a :: r) = true → ∀ j, j < r.length → a ≤ kget r j
  | [], _, _, j, hj => by simp at hj
  | b :: r, a, h, j, hj => by
    simp only [nondecreasing, Bool.and_eq_true, decide_eq_true_eq] at h
    cases j with
    | zero => simpa using h.1
    | succ j =>
      have := nd_head_le r b h.2 j (by simpa using hj)
      simp only [kget_cons_succ]; exact le_trans h.1 this

theorem nd_mono : ∀ (l : List Rat), nondecreasing l = true → ∀ i j, i ≤ j → j < l.length → kget l i ≤ kget l j
  | [], _, i, j, _, hj => by simp at hj
  | a :: r, h, i, j, hij, hj => by
    cases i with
    | zero =>
      cases j with
      | zero => simp
      | succ j => simpa using nd_head_le r a h j (by simpa using hj)
    | succ i =>
      cases j with
      | zero => omega
      | succ j =>
        have ht : nondecreasing r = true := by
          cases r with
          | nil => rfl
          | cons b r => simp only [nondecreasing, Bool.and_eq_true] at h; exact h.2
        simpa using nd_mono r ht i j (by omega) (by simpa using hj)

theorem nd_of_step : ∀ (l : List Rat), (∀ i, i + 1 < l.length → kget l i ≤ kget l (i + 1)) → nondecreasing l = true
  | [], _ => rfl
  | [_], _ => rfl
  | a :: b :: r, h => by
    simp only [nondecreasing, Bool.and_eq_true, decide_eq_true_eq]
    refine ⟨by simpa using h 0 (by simp), nd_of_step (b :: r) ?_⟩
    intro i hi
    have := h (i + 1) (by simpa using hi)
    simpa using this

/-! ## the knot list after `knots.insert(k + 1, t)` -/

theorem kget_insert (U : List Rat) (k : Nat) (t : Rat) (hk : k + 1 ≤ U.length) (j : Nat) :
    kget (U.take (k + 1) ++ t :: U.drop (k + 1)) j = insK (kget U) k t j := by
  rw [kget_eq, List.getElem?_append]
  have hlen : (U.take (k + 1)).length = k + 1 := by simp; omega
  rw [hlen]
  by_cases h1 : j ≤ k
  · rw [if_pos (by omega), insK_le _ _ _ h1, List.getElem?_take, if_pos (by omega), kget_eq]
  · rw [if_neg (by omega)]
    by_cases h2 : j = k + 1
    · subst h2; rw [insK_eq]; simp
    · rw [insK_gt _ _ _ (by omega : k + 2 ≤ j)]
      have : j - (k + 1) = (j - (k + 2)) + 1 := by omega
      rw [this, List.getElem?_cons_succ, List.getElem?_drop, kget_eq]
      congr 2; omega

theorem length_insert (U : List Rat) (k : Nat) (t : Rat) (hk : k + 1 ≤ U.length) :
    (U.take (k + 1) ++ t :: U.drop (k + 1)).length = U.length + 1 := by
  simp; omega

/-! ## finite sums -/

/-- `Σ_{j<n} g j` -/
def wsum : Nat → (Nat → Rat) → Rat
  | 0, _ => 0
  | n + 1, g => wsum n g + g n

theorem wsum_congr : ∀ (n : Nat) (g h : Nat → Rat), (∀ j, j < n → g j = h j) → wsum n g = wsum n h
  | 0, _, _, _ => rfl
  | n + 1, g, h, e => by
    simp only [wsum, wsum_congr n g h (fun j hj => e j (by omega)), e n (by omega)]

theorem wsum_shift : ∀ (n : Nat) (g : Nat → Rat), wsum (n + 1) g = g 0 + wsum n (fun j => g (j + 1))
  | 0, g => by simp [wsum]
  | n + 1, g => by
    have ih := wsum_shift n g
    simp only [wsum] at ih ⊢
    rw [ih]; ring

/-- coordinates of `curveSum` as plain sums (`π` = any of the three coordinate projections) -/
theorem curveSum_proj (π : V3 → Rat) (hz : π V3.zero = 0) (ha : ∀ a b, π (a.add b) = π a + π b)
    (hs : ∀ a s, π (a.scale s) = π a * s) (f : Nat → Rat) :
    ∀ (l : List V3) (i : Nat), π (curveSum f i l) = wsum l.length (fun j => π (l.getD j V3.zero) * f (i + j))
  | [], i => by simp [curveSum, wsum, hz]
  | p :: ps, i => by
    simp only [curveSum, ha, hs, List.length_cons]
    rw [wsum_shift, curveSum_proj π hz ha hs f ps (i + 1)]
    simp only [List.getD_cons_zero, Nat.add_zero, List.getD_cons_succ]
    congr 1
    apply wsum_congr
    intro j _
    congr 2; omega

/-- summation by parts behind knot insertion -/
theorem wsum_abel (P a g : Nat → Rat) : ∀ n : Nat,
    wsum (n + 1) (fun j => (P (j - 1) * (1 - a j) + P j * a j) * g j)
      = wsum n (fun i => P i * (a i * g i + (1 - a (i + 1)) * g (i + 1)))
        + P (0 - 1) * (1 - a 0) * g 0 + P n * a n * g n
  | 0 => by simp [wsum]; ring
  | n + 1 => by
    have ih := wsum_abel P a g n
    rw [wsum, ih]
    simp only [wsum, Nat.add_sub_cancel]
    ring

/-- `Σ_j f'_j Q_j = Σ_i f_i P_i` when `Q_j = (1 − a_j) P_{j−1} + a_j P_j`, `f_i = a_i f'_i + (1 − a_{i+1}) f'_{i+1}`,
    `a_0 = 1`, `a_n = 0` -/
theorem curveSum_insert (f f' a : Nat → Rat) (P Q : List V3) (n : Nat) (hP : P.length = n) (hQ : Q.length = n + 1)
    (hf : ∀ i, i < n → f i = a i * f' i + (1 - a (i + 1)) * f' (i + 1)) (ha0 : a 0 = 1) (han : a n = 0)
    (hQv : ∀ j, j ≤ n → Q.getD j V3.zero
      = ((P.getD (j - 1) V3.zero).scale (1 - a j)).add ((P.getD j V3.zero).scale (a j))) :
    curveSum f' 0 Q = curveSum f 0 P := by
  have key : ∀ (π : V3 → Rat), π V3.zero = 0 → (∀ a b, π (a.add b) = π a + π b) → (∀ a s, π (a.scale s) = π a * s) →
      π (curveSum f' 0 Q) = π (curveSum f 0 P) := by
    intro π hz ha hs
    rw [curveSum_proj π hz ha hs, curveSum_proj π hz ha hs, hQ, hP]
    rw [wsum_congr (n + 1) _ (fun j => ((fun i => π (P.getD i V3.zero)) (j - 1) * (1 - a j)
        + (fun i => π (P.getD i V3.zero)) j * a j) * f' j)]
    · refine Eq.trans (wsum_abel (fun i => π (P.getD i V3.zero)) a f' n) ?_
      rw [ha0, han]
      simp only [sub_self, mul_zero, zero_mul, add_zero]
      apply wsum_congr
      intro i hi
      rw [Nat.zero_add, hf i hi]
    · intro j hj
      rw [hQv j (by omega), ha, hs, hs, Nat.zero_add]
  apply v3ext
  · exact key V3.x rfl (fun _ _ => rfl) (fun _ _ => rfl)
  · exact key V3.y rfl (fun _ _ => rfl) (fun _ _ => rfl)
  · exact key V3.z rfl (fun _ _ => rfl) (fun _ _ => rfl)

/-! ## the control points after `cpoints[k - p + 1 : k] = [new_point(i) …]` -/

theorem mapM_some {α β : Type} (f : α → Option β) : ∀ (l : List α) (qs : List β), l.mapM f = some qs →
    qs.length = l.length ∧ ∀ r, r < l.length → (l[r]?).bind f = qs[r]?
  | [], qs, h => by
    simp at h; subst h; simp
  | a :: l, qs, h => by
    simp only [List.mapM_cons, Option.bind_eq_bind, Option.pure_def, Option.bind_eq_some_iff, Option.some.injEq] at h
    obtain ⟨x, hx, r, hr, rfl⟩ := h
    obtain ⟨h1, h2⟩ := mapM_some f l r hr
    refine ⟨by simp [h1], ?_⟩
    intro i hi
    cases i with
    | zero => simp [hx]
    | succ i => simpa using h2 i (by simpa using hi)

theorem insert_cps_getD (knots : List Rat) (cps : List V3) (p : Nat) (t : Rat) (k : Nat) (qs : List V3)
    (hk : k < cps.length) (hpk : p ≤ k)
    (hq : (List.range' (k + 1 - p) p).mapM (insNewPoint knots cps p t) = some qs) :
    (cps.take (k + 1 - p) ++ qs ++ cps.drop k).length = cps.length + 1 ∧
    ∀ j, j ≤ cps.length → (cps.take (k + 1 - p) ++ qs ++ cps.drop k).getD j V3.zero
      = ((cps.getD (j - 1) V3.zero).scale (1 - alpha (kget knots) k t j p)).add
          ((cps.getD j V3.zero).scale (alpha (kget knots) k t j p)) := by
  obtain ⟨hql, hqv⟩ := mapM_some _ _ _ hq
  simp only [List.length_range'] at hql hqv
  have hlt : (cps.take (k + 1 - p)).length = k + 1 - p := by simp; omega
  refine ⟨by simp [hql]; omega, ?_⟩
  intro j hj
  rw [List.getD_eq_getElem?_getD, List.getElem?_append, List.length_append, hlt, hql]
  by_cases h1 : j < k + 1 - p
  · rw [if_pos (by omega), List.getElem?_append, hlt, if_pos h1, List.getElem?_take, if_pos h1,
      alpha_one _ _ _ (by omega : j + p ≤ k), ← List.getD_eq_getElem?_getD]
    apply v3ext <;> simp [V3.add, V3.scale]
  · by_cases h2 : j ≤ k
    · rw [if_pos (by omega), List.getElem?_append, hlt, if_neg h1]
      have hr := hqv (j - (k + 1 - p)) (by omega)
      rw [List.getElem?_range' (by omega)] at hr
      have e : k + 1 - p + 1 * (j - (k + 1 - p)) = j := by omega
      have hlen : j - (k + 1 - p) < qs.length := by omega
      rw [e, List.getElem?_eq_getElem hlen] at hr
      simp only [Option.bind_some, insNewPoint] at hr
      rw [List.getElem?_eq_getElem hlen, Option.getD_some, alpha_mid _ _ _ (by omega : k < j + p) h2]
      split at hr
      · exact absurd hr (by simp)
      · exact (Option.some.inj hr).symm
    · rw [if_neg (by omega), List.getElem?_drop, alpha_zero _ _ _ (by omega : k < j)]
      have e : k + (j - (k + 1 - p + p)) = j - 1 := by omega
      rw [e, ← List.getD_eq_getElem?_getD]
      apply v3ext <;> simp [V3.add, V3.scale]

end EzdxfVerif.Lemmas.Curve

/-
Lemmas/PolygonEar.lean — what the ear test of earcut (`is_ear`, `point_in_triangle`) guarantees.  Helper lemmas for `Props/C19.lean`.
-/
import EzdxfVerif.Model.Polygon
import Mathlib.Tactic.Ring
import Mathlib.Tactic.Linarith
import Mathlib.Tactic.FieldSimp
import Mathlib.Algebra.Order.Field.Basic

namespace EzdxfVerif.Lemmas.Ear
open EzdxfVerif.Polygon EzdxfVerif.Gen

/-- `point_in_triangle(a, b, c, p)`: `p` is on the inner side of (or on) each directed edge of the triangle, in the sign
convention of the code's own `area` (negative = counter-clockwise) -/
theorem pointInTriangle_iff (a b c p : Node) :
    PolygonKernels.pointInTriangle a.x a.y b.x b.y c.x c.y p.x p.y = true ↔
      area a b p ≤ 0 ∧ area b c p ≤ 0 ∧ area c a p ≤ 0 := by
  simp only [PolygonKernels.pointInTriangle, Bool.and_eq_true, decide_eq_true_eq, area, PolygonKernels.area]
  constructor
  · rintro ⟨⟨h1, h2⟩, h3⟩
    exact ⟨by linarith, by linarith, by linarith⟩
  · rintro ⟨h1, h2, h3⟩
    exact ⟨⟨by linarith, by linarith⟩, by linarith⟩

/-- the three sub-triangles add up to the triangle -/
theorem area_split (a b c p : Node) : area a b p + area b c p + area c a p = area a b c := by
  simp only [area, PolygonKernels.area]; ring

/-- for a counter-clockwise triangle the test is exact membership in the closed triangle: `p` is a convex combination of the
corners (and conversely) -/
theorem pointInTriangle_iff_convex (a b c p : Node) (hccw : area a b c < 0) :
    PolygonKernels.pointInTriangle a.x a.y b.x b.y c.x c.y p.x p.y = true ↔
      ∃ α β γ : Rat, 0 ≤ α ∧ 0 ≤ β ∧ 0 ≤ γ ∧ α + β + γ = 1 ∧
        p.x = α * a.x + β * b.x + γ * c.x ∧ p.y = α * a.y + β * b.y + γ * c.y := by
  rw [pointInTriangle_iff]
  have hs := area_split a b c p
  have hne : area a b c ≠ 0 := ne_of_lt hccw
  constructor
  · rintro ⟨h1, h2, h3⟩
    refine ⟨area b c p / area a b c, area c a p / area a b c, area a b p / area a b c,
      div_nonneg_of_nonpos h2 hccw.le, div_nonneg_of_nonpos h3 hccw.le, div_nonneg_of_nonpos h1 hccw.le, ?_, ?_, ?_⟩
    · rw [← add_div, ← add_div]
      rw [show area b c p + area c a p + area a b p = area a b c by linarith]
      exact div_self hne
    · have hx : area b c p * a.x + area c a p * b.x + area a b p * c.x = p.x * area a b c := by
        simp only [area, PolygonKernels.area]; ring
      rw [div_mul_eq_mul_div, div_mul_eq_mul_div, div_mul_eq_mul_div, ← add_div, ← add_div, hx, mul_div_assoc, div_self hne,
        mul_one]
    · have hy : area b c p * a.y + area c a p * b.y + area a b p * c.y = p.y * area a b c := by
        simp only [area, PolygonKernels.area]; ring
      rw [div_mul_eq_mul_div, div_mul_eq_mul_div, div_mul_eq_mul_div, ← add_div, ← add_div, hy, mul_div_assoc, div_self hne,
        mul_one]
  · rintro ⟨α, β, γ, h1, h2, h3, hsum, hx, hy⟩
    have hα : α = 1 - β - γ := by linarith
    subst hα
    have e1 : area a b p = γ * area a b c := by
      simp only [area, PolygonKernels.area, hx, hy]; ring
    have e2 : area b c p = (1 - β - γ) * area a b c := by
      simp only [area, PolygonKernels.area, hx, hy]; ring
    have e3 : area c a p = β * area a b c := by
      simp only [area, PolygonKernels.area, hx, hy]; ring
    rw [e1, e2, e3]
    exact ⟨mul_nonpos_of_nonneg_of_nonpos h3 hccw.le, mul_nonpos_of_nonneg_of_nonpos h1 hccw.le,
      mul_nonpos_of_nonneg_of_nonpos h2 hccw.le⟩

theorem rmin_le_left (a b : Rat) : PolygonKernels.rmin a b ≤ a := by
  unfold PolygonKernels.rmin; split_ifs with h <;> linarith
theorem rmin_le_right (a b : Rat) : PolygonKernels.rmin a b ≤ b := by
  unfold PolygonKernels.rmin; split_ifs with h <;> linarith
theorem le_rmax_left (a b : Rat) : a ≤ PolygonKernels.rmax a b := by
  unfold PolygonKernels.rmax; split_ifs with h <;> linarith
theorem le_rmax_right (a b : Rat) : b ≤ PolygonKernels.rmax a b := by
  unfold PolygonKernels.rmax; split_ifs with h <;> linarith

private theorem comb_ge (α β γ u v w m : Rat) (h1 : 0 ≤ α) (h2 : 0 ≤ β) (h3 : 0 ≤ γ) (hs : α + β + γ = 1)
    (hu : m ≤ u) (hv : m ≤ v) (hw : m ≤ w) : m ≤ α * u + β * v + γ * w := by
  have := mul_le_mul_of_nonneg_left hu h1
  have := mul_le_mul_of_nonneg_left hv h2
  have := mul_le_mul_of_nonneg_left hw h3
  have : m = α * m + β * m + γ * m := by rw [← add_mul, ← add_mul, hs, one_mul]
  linarith
private theorem comb_le (α β γ u v w m : Rat) (h1 : 0 ≤ α) (h2 : 0 ≤ β) (h3 : 0 ≤ γ) (hs : α + β + γ = 1)
    (hu : u ≤ m) (hv : v ≤ m) (hw : w ≤ m) : α * u + β * v + γ * w ≤ m := by
  have := comb_ge α β γ (-u) (-v) (-w) (-m) h1 h2 h3 hs (by linarith) (by linarith) (by linarith)
  linarith

/-- the bounding box pre-test of `is_ear` never changes the answer (the triangle is counter-clockwise at that point) -/
theorem isEarBlocked_iff (a b c pp p pn : Node) (hccw : area a b c < 0) :
    PolygonKernels.isEarBlocked a.x a.y b.x b.y c.x c.y pp.x pp.y p.x p.y pn.x pn.y = true ↔
      PolygonKernels.pointInTriangle a.x a.y b.x b.y c.x c.y p.x p.y = true ∧ 0 ≤ area pp p pn := by
  simp only [PolygonKernels.isEarBlocked, Bool.and_eq_true, decide_eq_true_eq, ge_iff_le]
  constructor
  · rintro ⟨⟨_, h2⟩, h3⟩
    exact ⟨h2, h3⟩
  · rintro ⟨h2, h3⟩
    refine ⟨⟨?_, h2⟩, h3⟩
    obtain ⟨α, β, γ, k1, k2, k3, ks, hx, hy⟩ := (pointInTriangle_iff_convex a b c p hccw).mp h2
    have m1 : PolygonKernels.rmin (PolygonKernels.rmin a.x b.x) c.x ≤ a.x := le_trans (rmin_le_left _ _) (rmin_le_left _ _)
    have m2 : PolygonKernels.rmin (PolygonKernels.rmin a.x b.x) c.x ≤ b.x := le_trans (rmin_le_left _ _) (rmin_le_right _ _)
    have m3 : PolygonKernels.rmin (PolygonKernels.rmin a.x b.x) c.x ≤ c.x := rmin_le_right _ _
    have n1 : PolygonKernels.rmin (PolygonKernels.rmin a.y b.y) c.y ≤ a.y := le_trans (rmin_le_left _ _) (rmin_le_left _ _)
    have n2 : PolygonKernels.rmin (PolygonKernels.rmin a.y b.y) c.y ≤ b.y := le_trans (rmin_le_left _ _) (rmin_le_right _ _)
    have n3 : PolygonKernels.rmin (PolygonKernels.rmin a.y b.y) c.y ≤ c.y := rmin_le_right _ _
    have M1 : a.x ≤ PolygonKernels.rmax (PolygonKernels.rmax a.x b.x) c.x := le_trans (le_rmax_left _ _) (le_rmax_left _ _)
    have M2 : b.x ≤ PolygonKernels.rmax (PolygonKernels.rmax a.x b.x) c.x := le_trans (le_rmax_right _ _) (le_rmax_left _ _)
    have M3 : c.x ≤ PolygonKernels.rmax (PolygonKernels.rmax a.x b.x) c.x := le_rmax_right _ _
    have N1 : a.y ≤ PolygonKernels.rmax (PolygonKernels.rmax a.y b.y) c.y := le_trans (le_rmax_left _ _) (le_rmax_left _ _)
    have N2 : b.y ≤ PolygonKernels.rmax (PolygonKernels.rmax a.y b.y) c.y := le_trans (le_rmax_right _ _) (le_rmax_left _ _)
    have N3 : c.y ≤ PolygonKernels.rmax (PolygonKernels.rmax a.y b.y) c.y := le_rmax_right _ _
    rw [hx, hy]
    exact ⟨⟨comb_ge α β γ _ _ _ _ k1 k2 k3 ks m1 m2 m3, comb_le α β γ _ _ _ _ k1 k2 k3 ks M1 M2 M3⟩,
      comb_ge α β γ _ _ _ _ k1 k2 k3 ks n1 n2 n3, comb_le α β γ _ _ _ _ k1 k2 k3 ks N1 N2 N3⟩

end EzdxfVerif.Lemmas.Ear

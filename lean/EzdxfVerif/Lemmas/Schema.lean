/-
Helper lemmas for Props/C01.lean (ordinary public theorems; the counted obligations are in Props/C01.lean).
-/
import EzdxfVerif.Model.Schema

namespace EzdxfVerif.Schema

/-! ### equality up to the sign of zero -/

/-- bit patterns equal, or both are a zero -/
def bitsSim (a b : Nat) : Prop := a = b ∨ (isZero a = true ∧ isZero b = true)

/-- values equal up to the sign of floating point zeros -/
def Val.sim : Val → Val → Prop
  | .dbl a, .dbl b => bitsSim a b
  | .pt a b c, .pt x y z => bitsSim a x ∧ bitsSim b y ∧ bitsSim c z
  | u, v => u = v

def simO : Option Val → Option Val → Prop
  | some u, some v => Val.sim u v
  | none, none => True
  | _, _ => False

theorem bitsSim_refl (a : Nat) : bitsSim a a := Or.inl rfl

theorem Val.sim_refl (v : Val) : Val.sim v v := by
  cases v <;> simp [Val.sim, bitsSim_refl]

theorem simO_refl (o : Option Val) : simO o o := by
  cases o <;> simp [simO, Val.sim_refl]

theorem dblEq_bitsSim {a b : Nat} (h : dblEq a b = true) : bitsSim a b := by
  unfold dblEq at h
  simp only [Bool.or_eq_true, Bool.and_eq_true, beq_iff_eq] at h
  rcases h with ⟨h, _⟩ | ⟨h1, h2⟩
  · exact Or.inl h
  · exact Or.inr ⟨h1, h2⟩

theorem pyEq_sim {u v : Val} (h : pyEq u v = true) : Val.sim u v := by
  cases u <;> cases v <;> simp [pyEq] at h <;> simp [Val.sim]
  · exact h
  · exact dblEq_bitsSim h
  · exact h
  · exact ⟨dblEq_bitsSim h.1.1, dblEq_bitsSim h.1.2, dblEq_bitsSim h.2⟩
  · exact h

/-! ### `written`, `expected`, `observe` -/

/-- the value found in the namespace after reload -/
def expected (ver : Nat) (force : Bool) (a : Attr) (stored : Option Val) : Option Val :=
  (written ver force a stored).map loadCast

theorem alwaysWritten_written {ver : Nat} {a : Attr} (h : alwaysWritten ver a = true) (force : Bool)
    (stored : Option Val) : (written ver force a stored).isSome = true := by
  unfold alwaysWritten at h
  simp only [Bool.and_eq_true, Bool.not_eq_true', decide_eq_true_eq] at h
  obtain ⟨⟨hopt, hdef⟩, hver⟩ := h
  have hnv : ¬ ver < a.minVer := by omega
  cases hd : a.default with
  | none => simp [hd] at hdef
  | some d =>
    cases stored with
    | none => simp [written, exportValue, hopt, hd, suppressed, hnv]
    | some v => simp [written, exportValue, hopt, suppressed, hnv]

theorem inClass_not_pt2 {c : Int} {x y : Nat} : inClass c (.pt2 x y) = false := by
  unfold inClass
  split
  · rfl
  · split <;> simp_all

theorem loadCast_of_inClass {c : Int} {v : Val} (h : inClass c v = true) : loadCast v = v := by
  cases v <;> simp [loadCast]
  simp [inClass_not_pt2] at h

/-- what one save/load cycle does to the observable value of one attribute -/
theorem valOK_point2d {a : Attr} {v : Val} (h : valOK a v = true) (hx : a.xtype = .point2d) :
    ∃ x y z, v = .pt x y z ∧ isZero z = true := by
  unfold valOK at h
  simp only [Bool.and_eq_true, hx, bne_self_eq_false, Bool.false_or] at h
  cases v with
  | pt x y z => exact ⟨x, y, z, rfl, by simpa using h.2.2⟩
  | _ => simp at h

theorem valOK_inClass {a : Attr} {v : Val} (h : valOK a v = true) : inClass a.code v = true := by
  unfold valOK at h
  simp only [Bool.and_eq_true] at h
  exact h.1

theorem sim_trunc {a : Attr} {v : Val} (h : valOK a v = true) :
    Val.sim (loadCast (if a.xtype == .point2d then trunc2 v else v)) v := by
  by_cases hx : a.xtype = .point2d
  · obtain ⟨x, y, z, rfl, hz⟩ := valOK_point2d h hx
    simp only [hx, beq_self_eq_true, if_true, trunc2, loadCast, Val.sim]
    refine ⟨bitsSim_refl _, bitsSim_refl _, ?_⟩
    by_cases h0 : z = 0
    · exact Or.inl h0.symm
    · exact Or.inr ⟨by decide, hz⟩
  · have : (a.xtype == XType.point2d) = false := by simpa using hx
    simp only [this, Bool.false_eq_true, if_false]
    rw [loadCast_of_inClass (valOK_inClass h)]
    exact Val.sim_refl v

/-- `observe` after the cycle agrees (up to the sign of zero) with `observe` before -/
theorem observe_cycle (ver : Nat) (force : Bool) (a : Attr) (stored : Option Val)
    (hver : a.minVer ≤ ver)
    (hst : ∀ v, stored = some v → valOK a v = true)
    (hdef : ∀ d, a.default = some d → valOK a d = true) :
    simO (obsOf a (expected ver force a stored)) (obsOf a stored) := by
  unfold obsOf
  have hnv : ¬ ver < a.minVer := by omega
  cases stored with
  | some v =>
    have hv := hst v rfl
    by_cases hs : suppressed force a v = true
    · -- suppressed: the default is observed, and it compares equal to the value
      simp only [expected, written, exportValue, hs, if_true, Option.map_none]
      unfold suppressed at hs
      simp only [Bool.and_eq_true] at hs
      cases hd : a.default with
      | none => simp [hd] at hs
      | some d =>
        simp only [hd] at hs
        simp only [simO]
        exact pyEq_sim hs.2
    · simp only [expected, written, exportValue, hs, hnv, if_false, Option.map_some, Bool.false_eq_true]
      simp only [simO]
      exact sim_trunc hv
  | none =>
    by_cases ho : a.optional = true
    · simp only [expected, written, exportValue, ho, if_true, Option.map_none]
      exact simO_refl _
    · have ho' : a.optional = false := by simpa using ho
      cases hd : a.default with
      | none => simp [expected, written, exportValue, ho', hd, simO]
      | some d =>
        have hs : suppressed force a d = false := by simp [suppressed, ho']
        simp only [expected, written, exportValue, ho', hd, hs, hnv, if_false, Option.map_some,
          Bool.false_eq_true]
        simp only [simO]
        exact sim_trunc (hdef d hd)

theorem dblEq_zero_right {c z : Nat} (hz : isZero z = true) : dblEq c z = dblEq c 0 := by
  have h0 : isZero 0 = true := by decide
  unfold dblEq
  simp only [hz, h0, Bool.and_true]
  by_cases hc : isZero c = true
  · simp [hc]
  · have hc' : isZero c = false := by simpa using hc
    simp only [hc', Bool.or_false]
    have h1 : (c == z) = false := by
      apply beq_false_of_ne
      intro h; subst h; simp [hz] at hc'
    have h2 : (c == 0) = false := by
      apply beq_false_of_ne
      intro h; subst h; simp [h0] at hc'
    simp [h1, h2]

/-- `pyEq d ·` does not see what the cycle changes in a value -/
theorem pyEq_cycle {a : Attr} {v : Val} (d : Val) (h : valOK a v = true) :
    pyEq d (loadCast (if a.xtype == .point2d then trunc2 v else v)) = pyEq d v := by
  by_cases hx : a.xtype = .point2d
  · obtain ⟨x, y, z, rfl, hz⟩ := valOK_point2d h hx
    simp only [hx, beq_self_eq_true, if_true, trunc2, loadCast]
    cases d <;> simp [pyEq]
    rename_i p q r
    rw [dblEq_zero_right hz]
  · have : (a.xtype == XType.point2d) = false := by simpa using hx
    simp only [this, Bool.false_eq_true, if_false]
    rw [loadCast_of_inClass (valOK_inClass h)]

theorem trunc_cycle {a : Attr} {v : Val} (h : valOK a v = true) :
    (if a.xtype == .point2d then trunc2 (loadCast (if a.xtype == .point2d then trunc2 v else v))
     else loadCast (if a.xtype == .point2d then trunc2 v else v)) =
    (if a.xtype == .point2d then trunc2 v else v) := by
  by_cases hx : a.xtype = .point2d
  · obtain ⟨x, y, z, rfl, _⟩ := valOK_point2d h hx
    simp [hx, trunc2, loadCast]
  · have : (a.xtype == XType.point2d) = false := by simpa using hx
    simp only [this, Bool.false_eq_true, if_false]
    rw [loadCast_of_inClass (valOK_inClass h)]

/-- exporting what was reloaded writes the same tag value again -/
theorem written_cycle (ver : Nat) (force : Bool) (a : Attr) (stored : Option Val)
    (hst : ∀ v, stored = some v → valOK a v = true)
    (hdef : ∀ d, a.default = some d → valOK a d = true) :
    written ver force a (expected ver force a stored) = written ver force a stored := by
  -- normal form of `written` on a present value
  have key : ∀ v, valOK a v = true → suppressed force a v = false → ¬ ver < a.minVer →
      written ver force a (some (loadCast (if a.xtype == .point2d then trunc2 v else v))) =
      some (if a.xtype == .point2d then trunc2 v else v) := by
    intro v hv hs hnv
    have hs' : suppressed force a (loadCast (if a.xtype == .point2d then trunc2 v else v)) = false := by
      unfold suppressed at hs ⊢
      cases hd : a.default with
      | none => simp
      | some d => simp only [hd] at hs ⊢; rw [pyEq_cycle d hv]; exact hs
    simp only [written, exportValue, hs', hnv, if_false, Bool.false_eq_true]
    rw [trunc_cycle hv]
  cases stored with
  | some v =>
    have hv := hst v rfl
    by_cases hs : suppressed force a v = true
    · -- suppressed: nothing stored after reload; optional, so nothing is written again
      have ho : a.optional = true := by
        unfold suppressed at hs; simp only [Bool.and_eq_true] at hs; exact hs.1.1
      simp [expected, written, exportValue, hs, ho]
    · have hs' : suppressed force a v = false := by simpa using hs
      by_cases hnv : ver < a.minVer
      · -- version gate: nothing stored after reload, gate still closed
        simp only [expected, written, exportValue, hs', hnv, if_true, if_false, Option.map_none,
          Bool.false_eq_true]
        cases ho : a.optional <;> simp
        cases hd : a.default <;> simp [hnv]
      · have he : expected ver force a (some v) =
            some (loadCast (if a.xtype == .point2d then trunc2 v else v)) := by
          simp [expected, written, exportValue, hs', hnv]
        have hw : written ver force a (some v) = some (if a.xtype == .point2d then trunc2 v else v) := by
          simp [written, exportValue, hs', hnv]
        rw [he, hw]
        exact key v hv hs' hnv
  | none =>
    by_cases ho : a.optional = true
    · simp [expected, written, exportValue, ho]
    · have ho' : a.optional = false := by simpa using ho
      cases hd : a.default with
      | none => simp [expected, written, exportValue, ho', hd]
      | some d =>
        have hs : suppressed force a d = false := by simp [suppressed, ho']
        by_cases hnv : ver < a.minVer
        · simp [expected, written, exportValue, ho', hd, hs, hnv]
        · have he : expected ver force a none =
              some (loadCast (if a.xtype == .point2d then trunc2 d else d)) := by
            simp [expected, written, exportValue, ho', hd, hs, hnv]
          have hw : written ver force a none = some (if a.xtype == .point2d then trunc2 d else d) := by
            simp [written, exportValue, ho', hd, hs, hnv]
          rw [he, hw]
          exact key d (hdef d hd) hs hnv

/-! ### name resolution only looks at the processed-flags of the names of its own entry -/

theorem firstUnprocessed_congr {P1 P2 : List Name} {xs : List MName}
    (h : ∀ x ∈ xs, (x.id ∈ P1 ↔ x.id ∈ P2)) : firstUnprocessed P1 xs = firstUnprocessed P2 xs := by
  induction xs with
  | nil => rfl
  | cons x xs ih =>
    have hx := h x (List.mem_cons_self ..)
    have ih' := ih (fun y hy => h y (List.mem_cons_of_mem _ hy))
    simp only [firstUnprocessed, List.contains_iff_mem]
    by_cases h1 : x.id ∈ P1
    · simp [h1, hx.mp h1, ih']
    · have h2 : x.id ∉ P2 := fun h2 => h1 (hx.mpr h2)
      simp [h1, h2]

theorem resolve_congr {m : Mapping} {P1 P2 : List Name} {c : Int}
    (h : ∀ y ∈ entryNames m c, (y ∈ P1 ↔ y ∈ P2)) : resolve m P1 c = resolve m P2 c := by
  unfold resolve
  unfold entryNames at h
  cases hl : List.lookup c m with
  | none => rfl
  | some e =>
    cases e with
    | one x => rfl
    | many xs =>
      simp only [hl] at h
      have : firstUnprocessed P1 xs = firstUnprocessed P2 xs :=
        firstUnprocessed_congr (fun x hx => h x.id (List.mem_map_of_mem hx))
      simp [this]

theorem mem_markP {P : List Name} {r : Option (MName × Bool)} {y : Name} :
    y ∈ markP P r ↔ (y ∈ P ∨ ∃ x, r = some (x, true) ∧ y = x.id) := by
  cases r with
  | none => simp [markP]
  | some p =>
    obtain ⟨x, fl⟩ := p
    cases fl <;> simp [markP]
    constructor
    · rintro (h | h)
      · exact Or.inr h
      · exact Or.inl h
    · rintro (h | h)
      · exact Or.inr h
      · exact Or.inl h

/-! ### the invariant of the loaders -/

/-- the value the namespace must hold for name `n` after reload -/
def Wn (S : Schema) (ver : Nat) (force : Bool) (ns0 : NS) (n : Name) : Option Val :=
  match S.find n with
  | some a => expected ver force a (ns0.get n)
  | none => none

/-- every exported name is unset or already correct; the names in `C` are correct when a tag exists -/
def Good (S : Schema) (ver : Nat) (force : Bool) (ns0 : NS) (exp : List Name) (ns : NS) (C : List Name) : Prop :=
  (∀ n ∈ exp, ns.get n = none ∨ ns.get n = Wn S ver force ns0 n) ∧
  (∀ n ∈ C, n ∈ exp → Wn S ver force ns0 n ≠ none → ns.get n = Wn S ver force ns0 n)

theorem Good.mono {S ver force ns0 exp ns} {C1 C2 : List Name} (h : ∀ n, n ∈ C1 → n ∈ C2)
    (g : Good S ver force ns0 exp ns C2) : Good S ver force ns0 exp ns C1 :=
  ⟨g.1, fun n hn => g.2 n (h n hn)⟩

theorem NS.get_cons (n x : Name) (v : Val) (ns : NS) :
    NS.get ((x, v) :: ns) n = if n = x then some v else NS.get ns n := by
  unfold NS.get
  rw [List.lookup_cons]
  by_cases h : n = x
  · simp [h]
  · have : (n == x) = false := by simpa using h
    simp [this, h]

/-- storing a value under a name that is not exported, or the right value under an exported name -/
theorem Good.set {S ver force ns0 exp ns C} (g : Good S ver force ns0 exp ns C) (x : Name) (w : Val)
    (h : x ∉ exp ∨ Wn S ver force ns0 x = some w) :
    Good S ver force ns0 exp ((x, w) :: ns) C := by
  constructor
  · intro n hn
    rw [NS.get_cons]
    by_cases hx : n = x
    · subst hx
      rcases h with h | h
      · exact absurd hn h
      · simp [h]
    · simp only [hx, if_false]; exact g.1 n hn
  · intro n hn hne hw
    rw [NS.get_cons]
    by_cases hx : n = x
    · subst hx
      rcases h with h | h
      · exact absurd hne h
      · simp [h]
    · simp only [hx, if_false]; exact g.2 n hn hne hw

theorem Good.set_cover {S ver force ns0 exp ns C} (g : Good S ver force ns0 exp ns C) (x : Name) (w : Val)
    (h : Wn S ver force ns0 x = some w) :
    Good S ver force ns0 exp ((x, w) :: ns) (x :: C) := by
  have g' := g.set x w (Or.inr h)
  refine ⟨g'.1, ?_⟩
  intro n hn hne hw
  rcases List.mem_cons.mp hn with rfl | hn
  · rw [NS.get_cons]; simp [h]
  · exact g'.2 n hn hne hw

/-- a name whose attribute wrote no tag may be added to the covered set -/
theorem Good.cover_none {S ver force ns0 exp ns C} (g : Good S ver force ns0 exp ns C) (x : Name)
    (h : Wn S ver force ns0 x = none) : Good S ver force ns0 exp ns (x :: C) := by
  refine ⟨g.1, ?_⟩
  intro n hn hne hw
  rcases List.mem_cons.mp hn with rfl | hn
  · exact absurd h hw
  · exact g.2 n hn hne hw

/-! ### symbolic tags that come from a schema -/

/-- attribute tags carry the declared attribute and its code, markers carry code 100 -/
def WS (S : Schema) (ss : List STag) : Prop :=
  ∀ s ∈ ss, (∀ a, s.src = .attr a → S.find a.name = some a ∧ s.code = a.code) ∧
            (∀ n, s.src = .marker n → s.code = 100)

theorem Schema.find_name {S : Schema} {n : Name} {a : Attr} (h : S.find n = some a) : a.name = n := by
  unfold Schema.find at h
  have := List.find?_some h
  simpa using this

theorem symEvs_WS (S : Schema) : ∀ (evs : List Ev) (i : Nat) (ss : List STag),
    symEvs S i evs = some ss → WS S ss := by
  intro evs
  induction evs with
  | nil => intro i ss h; simp [symEvs] at h; subst h; intro s hs; simp at hs
  | cons e rest ih =>
    intro i ss h
    cases e with
    | attr n =>
      simp only [symEvs] at h
      cases hf : S.find n with
      | none => simp [hf] at h
      | some a =>
        simp only [hf] at h
        cases hr : symEvs S (i + 1) rest with
        | none => simp [hr] at h
        | some r =>
          simp only [hr, Option.map_some, Option.some.injEq] at h
          subst h
          intro s hs
          rcases List.mem_cons.mp hs with rfl | hs
          · refine ⟨?_, ?_⟩
            · intro a' ha'
              simp only [Src.attr.injEq] at ha'
              subst ha'
              have hn := Schema.find_name hf
              exact ⟨by rw [hn]; exact hf, rfl⟩
            · intro n' hn'; simp at hn'
          · exact ih (i + 1) r hr s hs
    | raw c =>
      simp only [symEvs] at h
      cases hr : symEvs S (i + 1) rest with
      | none => simp [hr] at h
      | some r =>
        simp only [hr, Option.map_some, Option.some.injEq] at h
        subst h
        intro s hs
        rcases List.mem_cons.mp hs with rfl | hs
        · exact ⟨by intro a ha; simp at ha, by intro n hn; simp at hn⟩
        · exact ih (i + 1) r hr s hs

theorem symSeg_WS {S : Schema} {seg : Seg} {ss : List STag} (h : symSeg S seg = some ss) : WS S ss := by
  unfold symSeg at h
  cases hr : symEvs S 1 seg.evs with
  | none => simp [hr] at h
  | some r =>
    have hw := symEvs_WS S seg.evs 1 r hr
    simp only [hr] at h
    cases hm : seg.marker with
    | none => simp only [hm, Option.some.injEq] at h; subst h; exact hw
    | some n =>
      simp only [hm, Option.some.injEq] at h
      subst h
      intro s hs
      rcases List.mem_cons.mp hs with rfl | hs
      · exact ⟨by intro a ha; simp at ha, by intro n' _; rfl⟩
      · exact hw s hs

theorem symSegs_WS {S : Schema} : ∀ {segs : List Seg} {sss : List (List STag)},
    symSegs S segs = some sss → ∀ ss ∈ sss, WS S ss := by
  intro segs
  induction segs with
  | nil => intro sss h; simp [symSegs] at h; subst h; intro ss hs; simp at hs
  | cons seg rest ih =>
    intro sss h
    simp only [symSegs] at h
    cases h1 : symSeg S seg with
    | none => simp [h1] at h
    | some a =>
      cases h2 : symSegs S rest with
      | none => simp [h1, h2] at h
      | some b =>
        simp only [h1, h2, Option.some.injEq] at h
        subst h
        intro ss hs
        rcases List.mem_cons.mp hs with rfl | hs
        · exact symSeg_WS h1
        · exact ih h2 ss hs

/-! ### soundness of the symbolic run of `fast_load_dxfattribs` -/

theorem contains_false_iff {α : Type} [BEq α] [LawfulBEq α] {l : List α} {a : α} :
    l.contains a = false ↔ a ∉ l := by
  rw [← Bool.not_eq_true, List.contains_iff_mem]

theorem written_none_of_lt {ver : Nat} {a : Attr} (h : ver < a.minVer) (force : Bool) (st : Option Val) :
    written ver force a st = none := by
  unfold written
  cases exportValue a st with
  | none => rfl
  | some v => by_cases hs : suppressed force a v = true <;> simp [hs, h]

theorem conc_none_of_neverWritten {ver : Nat} {s : STag} (h : neverWritten ver s = true) (force : Bool)
    (ns : NS) (rv : Nat → Val) : conc ver force ns rv s = none := by
  unfold neverWritten at h
  unfold conc
  cases hs : s.src with
  | marker n => simp [hs] at h
  | raw => simp [hs] at h
  | attr a =>
    simp only [hs, decide_eq_true_eq] at h
    simp [written_none_of_lt h]

theorem conc_code {S : Schema} {ver : Nat} {force : Bool} {ns : NS} {rv : Nat → Val} {s : STag} {lt : LTag}
    (hw : (∀ a, s.src = .attr a → S.find a.name = some a ∧ s.code = a.code) ∧
          (∀ n, s.src = .marker n → s.code = 100))
    (h : conc ver force ns rv s = some lt) : lt.tag.code = s.code ∧ lt.lab = s.lab := by
  unfold conc at h
  cases hs : s.src with
  | marker n =>
    simp only [hs, Option.some.injEq] at h; subst h
    exact ⟨(hw.2 n hs).symm, rfl⟩
  | raw => simp only [hs, Option.some.injEq] at h; subst h; exact ⟨rfl, rfl⟩
  | attr a =>
    simp only [hs] at h
    cases hwv : written ver force a (ns.get a.name) with
    | none => simp [hwv] at h
    | some v =>
      simp only [hwv, Option.map_some, Option.some.injEq] at h; subst h
      exact ⟨((hw.1 a hs).2).symm, rfl⟩

theorem concSeg_cons (ver : Nat) (force : Bool) (ns : NS) (rv : Nat → Val) (s : STag) (rest : List STag) :
    concSeg ver force ns rv (s :: rest) =
      (match conc ver force ns rv s with | some lt => [lt] | none => []) ++ concSeg ver force ns rv rest := by
  unfold concSeg
  rw [List.filterMap_cons]
  cases conc ver force ns rv s <;> simp

/-- main simulation lemma: the real loop over the written tags keeps the invariant -/
theorem simFast_sound (S : Schema) (ver : Nat) (force : Bool) (ns0 : NS) (rv : Nat → Val)
    (m : Mapping) (exp : List Name) (rc : List Int) :
    ∀ (ss : List STag) (Ps Pd : List Name) (ns : NS) (U : List Tag) (C0 C : List Name),
      WS S ss →
      simFast m ver exp rc Ps ss = some C →
      (∀ s ∈ ss, ∀ y ∈ entryNames m s.code, (y ∈ Pd ↔ y ∈ Ps)) →
      Good S ver force ns0 exp ns C0 →
      (∀ t ∈ U, rc.contains t.code = false) →
      Good S ver force ns0 exp
        ((untag (concSeg ver force ns0 rv ss)).foldl (fastStep m) ⟨ns, Pd, U⟩).ns (C ++ C0) ∧
      (∀ t ∈ ((untag (concSeg ver force ns0 rv ss)).foldl (fastStep m) ⟨ns, Pd, U⟩).unp,
        rc.contains t.code = false) := by
  intro ss
  induction ss with
  | nil =>
    intro Ps Pd ns U C0 C _ hsim _ hg hU
    simp only [simFast, Option.some.injEq] at hsim
    subst hsim
    exact ⟨by simpa [concSeg, untag] using hg, by simpa [concSeg, untag] using hU⟩
  | cons s rest ih =>
    intro Ps Pd ns U C0 C hws hsim hP hg hU
    have hws' : WS S rest := fun t ht => hws t (List.mem_cons_of_mem _ ht)
    have hP' : ∀ t ∈ rest, ∀ y ∈ entryNames m t.code, (y ∈ Pd ↔ y ∈ Ps) :=
      fun t ht => hP t (List.mem_cons_of_mem _ ht)
    have hs := hws s (List.mem_cons_self ..)
    rw [concSeg_cons]
    unfold simFast at hsim
    by_cases hnw : neverWritten ver s = true
    · -- the version gate is closed: no tag, no constraint
      simp only [hnw, if_true] at hsim
      rw [conc_none_of_neverWritten hnw]
      simpa using ih Ps Pd ns U C0 C hws' hsim hP' hg hU
    · simp only [hnw, Bool.false_eq_true, if_false] at hsim
      generalize hr : resolve m Ps s.code = r at hsim
      have hok : (okHere exp rc s r && okSkip m ver s r rest) = true := by
        cases hokb : (okHere exp rc s r && okSkip m ver s r rest) with
        | false => simp [hokb] at hsim
        | true => rfl
      simp only [hok, if_true] at hsim
      simp only [Bool.and_eq_true] at hok
      obtain ⟨hokHere, hokSkip⟩ := hok
      cases hrec : simFast m ver exp rc (markP Ps r) rest with
      | none => simp [hrec] at hsim
      | some C' =>
        simp only [hrec, Option.map_some, Option.some.injEq] at hsim
        subst hsim
        have hdyn : resolve m Pd s.code = r := by
          rw [← hr]; exact resolve_congr (hP s (List.mem_cons_self ..))
        cases hc : conc ver force ns0 rv s with
        | none =>
          -- nothing written: only an attribute can do that
          simp only [List.nil_append]
          cases hsrc : s.src with
          | marker n => simp [conc, hsrc] at hc
          | raw => simp [conc, hsrc] at hc
          | attr a =>
            have hfa := (hs.1 a hsrc).1
            have hwn : written ver force a (ns0.get a.name) = none := by
              simpa [conc, hsrc] using hc
            have hW : Wn S ver force ns0 a.name = none := by
              simp [Wn, hfa, expected, hwn]
            -- processed sets still agree on everything the rest looks at
            have hP'' : ∀ t ∈ rest, ∀ y ∈ entryNames m t.code, (y ∈ Pd ↔ y ∈ markP Ps r) := by
              intro t ht y hy
              rw [mem_markP]
              constructor
              · intro h; exact Or.inl ((hP' t ht y hy).mp h)
              · rintro (h | ⟨x, hx, hyx⟩)
                · exact (hP' t ht y hy).mpr h
                · exfalso
                  subst hx
                  simp only [okSkip, hsrc, Bool.or_eq_true, List.all_eq_true] at hokSkip
                  rcases hokSkip with haw | hall
                  · have := alwaysWritten_written haw force (ns0.get a.name)
                    simp [hwn] at this
                  · have := hall t ht
                    simp only [Bool.not_eq_true'] at this
                    exact (contains_false_iff.mp this) (hyx ▸ hy)
            have hres := ih (markP Ps r) Pd ns U C0 C' hws' hrec hP'' hg hU
            refine ⟨?_, hres.2⟩
            have hCsub : ∀ n, n ∈ (coverOf s r ++ C') ++ C0 → n ∈ a.name :: (C' ++ C0) := by
              intro n hn
              simp only [coverOf, hsrc] at hn
              cases r with
              | none => simp only [List.nil_append] at hn; exact List.mem_cons_of_mem _ hn
              | some p =>
                obtain ⟨x, fl⟩ := p
                simp only at hn
                split at hn
                · simpa using hn
                · simp only [List.nil_append] at hn; exact List.mem_cons_of_mem _ hn
            exact (hres.1.cover_none a.name hW).mono hCsub
        | some lt =>
          have hcl := conc_code (S := S) hs hc
          simp only [List.cons_append, List.nil_append, untag, List.map_cons, List.foldl_cons]
          have hcode : lt.tag.code = s.code := hcl.1
          -- both processed sets are updated alike
          have hP'' : ∀ t ∈ rest, ∀ y ∈ entryNames m t.code, (y ∈ markP Pd r ↔ y ∈ markP Ps r) := by
            intro t ht y hy
            rw [mem_markP, mem_markP, hP' t ht y hy]
          -- one real step
          cases r with
          | none =>
            have hstep : fastStep m ⟨ns, Pd, U⟩ lt.tag = ⟨ns, Pd, U ++ [lt.tag]⟩ := by
              simp [fastStep, hcode, hdyn]
            rw [hstep]
            have hU' : ∀ t ∈ U ++ [lt.tag], rc.contains t.code = false := by
              intro t ht
              rcases List.mem_append.mp ht with h | h
              · exact hU t h
              · simp only [List.mem_singleton] at h; subst h
                rw [hcode]; simpa [okHere] using hokHere
            have hres := ih Ps Pd ns (U ++ [lt.tag]) C0 C' hws' (by simpa [markP] using hrec)
              (by simpa [markP] using hP'') hg hU'
            have hC : coverOf s none = [] := by
              simp only [coverOf]; cases s.src <;> rfl
            rw [hC]
            simpa [untag] using hres
          | some p =>
            obtain ⟨x, fl⟩ := p
            by_cases hstar : x.star = true
            · have hstep : fastStep m ⟨ns, Pd, U⟩ lt.tag = ⟨ns, markP Pd (some (x, fl)), U⟩ := by
                simp [fastStep, hcode, hdyn, hstar]
              rw [hstep]
              have hres := ih (markP Ps (some (x, fl))) (markP Pd (some (x, fl))) ns U C0 C' hws' hrec hP'' hg hU
              have hC : coverOf s (some (x, fl)) = [] := by
                simp only [coverOf]; cases s.src <;> simp [hstar]
              rw [hC]
              simpa [untag] using hres
            · have hstar' : x.star = false := by simpa using hstar
              have hstep : fastStep m ⟨ns, Pd, U⟩ lt.tag =
                  ⟨(x.id, loadCast lt.tag.val) :: ns, markP Pd (some (x, fl)), U⟩ := by
                simp [fastStep, hcode, hdyn, hstar']
              rw [hstep]
              simp only [okHere, hstar', Bool.false_or] at hokHere
              cases hsrc : s.src with
              | attr a =>
                simp only [hsrc, beq_iff_eq] at hokHere
                have hfa := (hs.1 a hsrc).1
                -- the tag value is the written value
                have hval : ∃ v, written ver force a (ns0.get a.name) = some v ∧ lt.tag.val = v := by
                  simp only [conc, hsrc] at hc
                  cases hwv : written ver force a (ns0.get a.name) with
                  | none => simp [hwv] at hc
                  | some v => simp only [hwv, Option.map_some, Option.some.injEq] at hc; subst hc; exact ⟨v, rfl, rfl⟩
                obtain ⟨v, hwv, hv⟩ := hval
                have hW : Wn S ver force ns0 x.id = some (loadCast lt.tag.val) := by
                  rw [hokHere]; simp [Wn, hfa, expected, hwv, hv]
                have hg' := hg.set_cover x.id (loadCast lt.tag.val) hW
                have hres := ih (markP Ps (some (x, fl))) (markP Pd (some (x, fl)))
                  ((x.id, loadCast lt.tag.val) :: ns) U (x.id :: C0) C' hws' hrec hP'' hg' hU
                simp only [untag] at hres
                refine ⟨?_, hres.2⟩
                have hC : coverOf s (some (x, fl)) = [a.name] := by
                  simp [coverOf, hsrc, hstar', hokHere]
                rw [hC]
                refine hres.1.mono ?_
                intro n hn
                rw [hokHere]
                simp only [List.cons_append, List.nil_append, List.mem_cons, List.mem_append] at hn ⊢
                rcases hn with h | h | h
                · exact Or.inr (Or.inl h)
                · exact Or.inl h
                · exact Or.inr (Or.inr h)
              | marker n =>
                simp only [hsrc, Bool.not_eq_true'] at hokHere
                have hg' := hg.set x.id (loadCast lt.tag.val) (Or.inl (contains_false_iff.mp hokHere))
                have hres := ih (markP Ps (some (x, fl))) (markP Pd (some (x, fl)))
                  ((x.id, loadCast lt.tag.val) :: ns) U C0 C' hws' hrec hP'' hg' hU
                have hC : coverOf s (some (x, fl)) = [] := by simp [coverOf, hsrc]
                rw [hC]
                simpa [untag] using hres
              | raw =>
                simp only [hsrc, Bool.not_eq_true'] at hokHere
                have hg' := hg.set x.id (loadCast lt.tag.val) (Or.inl (contains_false_iff.mp hokHere))
                have hres := ih (markP Ps (some (x, fl))) (markP Pd (some (x, fl)))
                  ((x.id, loadCast lt.tag.val) :: ns) U C0 C' hws' hrec hP'' hg' hU
                have hC : coverOf s (some (x, fl)) = [] := by simp [coverOf, hsrc]
                rw [hC]
                simpa [untag] using hres

/-! ### `recover_graphic_attributes` does nothing when no unprocessed tag carries one of its codes -/

theorem lookup_none_of_not_mem {α β : Type} [BEq α] [LawfulBEq α] {k : α} :
    ∀ {l : List (α × β)}, k ∉ l.map (·.1) → List.lookup k l = none := by
  intro l
  induction l with
  | nil => intro _; rfl
  | cons p rest ih =>
    intro h
    obtain ⟨a, b⟩ := p
    simp only [List.map_cons, List.mem_cons, not_or] at h
    rw [List.lookup_cons]
    have : (k == a) = false := by simpa using h.1
    simp [this, ih h.2]

theorem recoverLoad_noop (tbl : List (Int × Name)) :
    ∀ (unp : List Tag) (ns : NS) (acc : List Tag),
      (∀ t ∈ unp, (recCodes tbl).contains t.code = false) →
      unp.foldl (recoverStep tbl) (ns, acc) = (ns, acc ++ unp) := by
  intro unp
  induction unp with
  | nil => intro ns acc _; simp
  | cons t rest ih =>
    intro ns acc h
    have ht := h t (List.mem_cons_self ..)
    have hl : List.lookup t.code tbl = none :=
      lookup_none_of_not_mem (contains_false_iff.mp (by simpa [recCodes] using ht))
    simp only [List.foldl_cons, recoverStep, hl]
    rw [ih ns (acc ++ [t]) (fun u hu => h u (List.mem_cons_of_mem _ hu))]
    simp

/-! ### concrete tags of symbolic tags -/

theorem conc_lab {ver : Nat} {force : Bool} {ns : NS} {rv : Nat → Val} {s : STag} {lt : LTag}
    (h : conc ver force ns rv s = some lt) : lt.lab = s.lab := by
  unfold conc at h
  cases hs : s.src with
  | marker n => simp only [hs, Option.some.injEq] at h; subst h; rfl
  | raw => simp only [hs, Option.some.injEq] at h; subst h; rfl
  | attr a =>
    simp only [hs] at h
    cases hwv : written ver force a (ns.get a.name) with
    | none => simp [hwv] at h
    | some v => simp only [hwv, Option.map_some, Option.some.injEq] at h; subst h; rfl

theorem concSeg_filter (ver : Nat) (force : Bool) (ns : NS) (rv : Nat → Val) (drop : List Nat) :
    ∀ ss : List STag,
      (concSeg ver force ns rv ss).filter (fun t => !drop.contains t.lab) =
      concSeg ver force ns rv (ss.filter (fun s => !drop.contains s.lab)) := by
  intro ss
  induction ss with
  | nil => rfl
  | cons s rest ih =>
    rw [concSeg_cons, List.filter_append, ih]
    cases hd : drop.contains s.lab with
    | true =>
      have hm : s.lab ∈ drop := List.contains_iff_mem.mp hd
      have hf : (s :: rest).filter (fun s => !drop.contains s.lab) = rest.filter (fun s => !drop.contains s.lab) := by
        simp [hm]
      rw [hf]
      cases hc : conc ver force ns rv s with
      | none => simp
      | some lt =>
        have hl := conc_lab hc
        simp [hl, hm]
    | false =>
      have hm : s.lab ∉ drop := contains_false_iff.mp hd
      have hf : (s :: rest).filter (fun s => !drop.contains s.lab) =
          s :: rest.filter (fun s => !drop.contains s.lab) := by
        simp [hm]
      rw [hf, concSeg_cons]
      cases hc : conc ver force ns rv s with
      | none => simp
      | some lt =>
        have hl := conc_lab hc
        simp [hl, hm]

theorem concSeg_mem_code {S : Schema} {ver : Nat} {force : Bool} {ns : NS} {rv : Nat → Val} :
    ∀ {ss : List STag}, WS S ss → ∀ lt ∈ concSeg ver force ns rv ss, ∃ s ∈ ss, lt.tag.code = s.code := by
  intro ss
  induction ss with
  | nil => intro _ lt h; simp [concSeg] at h
  | cons s rest ih =>
    intro hws lt h
    rw [concSeg_cons] at h
    rcases List.mem_append.mp h with h | h
    · cases hc : conc ver force ns rv s with
      | none => simp [hc] at h
      | some l =>
        simp only [hc, List.mem_singleton] at h
        subst h
        exact ⟨s, List.mem_cons_self .., (conc_code (S := S) (hws s (List.mem_cons_self ..)) hc).1⟩
    · obtain ⟨t, ht, hcode⟩ := ih (fun t ht => hws t (List.mem_cons_of_mem _ ht)) lt h
      exact ⟨t, List.mem_cons_of_mem _ ht, hcode⟩

theorem skipStart_of_no_start {ts : List Tag} (h : ∀ t ∈ ts, (t.code == 0 || t.code == 100) = false) :
    skipStart ts = ts := by
  cases ts with
  | nil => rfl
  | cons t rest => simp [skipStart, h t (List.mem_cons_self ..)]

/-- the `start` rule on the written tags is the symbolic `start` rule -/
theorem skipStart_conc {S : Schema} {ver : Nat} {force : Bool} {ns : NS} {rv : Nat → Val}
    {ss ss' : List STag} (hws : WS S ss) (h : symStart ss = some ss') :
    skipStart (untag (concSeg ver force ns rv ss)) = untag (concSeg ver force ns rv ss') := by
  cases ss with
  | nil => simp only [symStart, Option.some.injEq] at h; subst h; rfl
  | cons s rest =>
    simp only [symStart] at h
    cases hsrc : s.src with
    | attr a =>
      simp only [hsrc] at h
      split at h
      · rename_i hall
        simp only [Option.some.injEq] at h; subst h
        apply skipStart_of_no_start
        intro t ht
        simp only [untag, List.mem_map] at ht
        obtain ⟨lt, hlt, rfl⟩ := ht
        obtain ⟨u, hu, hcode⟩ := concSeg_mem_code hws lt hlt
        rw [hcode]
        have := (List.all_eq_true.mp hall) u hu
        simpa using this
      · exact absurd h (by simp)
    | marker n =>
      simp only [hsrc, Option.some.injEq] at h
      have hc : conc ver force ns rv s = some ⟨s.lab, ⟨100, .str [n]⟩⟩ := by simp [conc, hsrc]
      have hcode := (hws s (List.mem_cons_self ..)).2 n hsrc
      rw [concSeg_cons, hc]
      simp only [List.cons_append, List.nil_append, untag, List.map_cons, skipStart]
      subst h
      simp [hcode]
    | raw =>
      simp only [hsrc, Option.some.injEq] at h
      have hc : conc ver force ns rv s = some ⟨s.lab, ⟨s.code, rv s.lab⟩⟩ := by simp [conc, hsrc]
      rw [concSeg_cons, hc]
      simp only [List.cons_append, List.nil_append, untag, List.map_cons, skipStart]
      subst h
      by_cases hz : (s.code == 0 || s.code == 100) = true
      · simp [hz]
      · simp only [hz, Bool.false_eq_true, if_false]
        rw [concSeg_cons, hc]; rfl

theorem concSegs_length (ver : Nat) (force : Bool) (ns : NS) (rv : Nat → Nat → Val) :
    ∀ (sss : List (List STag)) (k : Nat), (concSegs ver force ns rv k sss).length = sss.length := by
  intro sss
  induction sss with
  | nil => intro k; rfl
  | cons ss rest ih => intro k; simp [concSegs, ih]

theorem concSegs_getElem? (ver : Nat) (force : Bool) (ns : NS) (rv : Nat → Nat → Val) :
    ∀ (sss : List (List STag)) (k i : Nat),
      (concSegs ver force ns rv k sss)[i]? = (sss[i]?).map (fun ss => concSeg ver force ns (rv (k + i)) ss) := by
  intro sss
  induction sss with
  | nil => intro k i; simp [concSegs]
  | cons ss rest ih =>
    intro k i
    cases i with
    | zero => simp [concSegs]
    | succ j =>
      simp only [concSegs, List.getElem?_cons_succ]
      rw [ih (k + 1) j]
      have : k + 1 + j = k + (j + 1) := by omega
      rw [this]

/-! ### the relation "written tags of symbolic tags" with payload values chosen per tag -/

inductive ConcRel (ver : Nat) (force : Bool) (ns : NS) : List STag → List LTag → Prop
  | nil : ConcRel ver force ns [] []
  | some {s : STag} {ss : List STag} {lt : LTag} {lts : List LTag} (rv : Nat → Val) :
      conc ver force ns rv s = some lt → ConcRel ver force ns ss lts → ConcRel ver force ns (s :: ss) (lt :: lts)
  | none {s : STag} {ss : List STag} {lts : List LTag} (rv : Nat → Val) :
      conc ver force ns rv s = none → ConcRel ver force ns ss lts → ConcRel ver force ns (s :: ss) lts

theorem concSeg_rel (ver : Nat) (force : Bool) (ns : NS) (rv : Nat → Val) :
    ∀ ss : List STag, ConcRel ver force ns ss (concSeg ver force ns rv ss) := by
  intro ss
  induction ss with
  | nil => exact .nil
  | cons s rest ih =>
    rw [concSeg_cons]
    cases hc : conc ver force ns rv s with
    | none => exact .none rv hc ih
    | some lt => exact .some rv hc ih

theorem ConcRel.append {ver : Nat} {force : Bool} {ns : NS} {a b : List STag} {x y : List LTag}
    (h1 : ConcRel ver force ns a x) (h2 : ConcRel ver force ns b y) : ConcRel ver force ns (a ++ b) (x ++ y) := by
  induction h1 with
  | nil => exact h2
  | some rv hc _ ih => exact .some rv hc ih
  | none rv hc _ ih => exact .none rv hc ih

theorem concSegs_rel (ver : Nat) (force : Bool) (ns : NS) (rv : Nat → Nat → Val) :
    ∀ (sss : List (List STag)) (k : Nat),
      ConcRel ver force ns sss.flatten (concSegs ver force ns rv k sss).flatten := by
  intro sss
  induction sss with
  | nil => intro k; exact .nil
  | cons ss rest ih =>
    intro k
    simp only [concSegs, List.flatten_cons]
    exact (concSeg_rel ver force ns (rv k) ss).append (ih (k + 1))

/-! ### soundness of the symbolic run of `simple_dxfattribs_loader` -/

theorem simSimple_sound (S : Schema) (ver : Nat) (force : Bool) (ns0 : NS) (m : Mapping) (exp : List Name) :
    ∀ (ss : List STag) (lts : List LTag), ConcRel ver force ns0 ss lts →
      ∀ (ns : NS) (C0 C : List Name), WS S ss → simSimple m ver exp ss = some C →
        Good S ver force ns0 exp ns C0 →
        Good S ver force ns0 exp ((untag lts).foldl (simpleStep m) ns) (C ++ C0) := by
  intro ss lts hrel
  induction hrel with
  | nil =>
    intro ns C0 C _ hsim hg
    simp only [simSimple, Option.some.injEq] at hsim
    subst hsim
    simpa [untag] using hg
  | @some s rest lt lts' rv hc _ ih =>
    intro ns C0 C hws hsim hg
    have hws' : WS S rest := fun t ht => hws t (List.mem_cons_of_mem _ ht)
    have hs := hws s (List.mem_cons_self ..)
    have hcode : lt.tag.code = s.code := (conc_code (S := S) hs hc).1
    simp only [simSimple] at hsim
    cases hrec : simSimple m ver exp rest with
    | none => simp [hrec] at hsim
    | some C' =>
      simp only [hrec] at hsim
      have hnw : neverWritten ver s = false := by
        cases hb : neverWritten ver s with
        | false => rfl
        | true => rw [conc_none_of_neverWritten hb] at hc; exact absurd hc (by simp)
      simp only [hnw, Bool.false_eq_true, if_false] at hsim
      simp only [untag, List.map_cons, List.foldl_cons]
      -- one real step, then the induction hypothesis on the new namespace
      cases hl : List.lookup s.code m with
      | none =>
        simp only [hl, Option.some.injEq] at hsim; subst hsim
        have hstep : simpleStep m ns lt.tag = ns := by simp [simpleStep, hcode, hl]
        rw [hstep]
        exact ih ns C0 C' hws' hrec hg
      | some e =>
        cases e with
        | many xs =>
          simp only [hl, Option.some.injEq] at hsim; subst hsim
          have hstep : simpleStep m ns lt.tag = ns := by simp [simpleStep, hcode, hl]
          rw [hstep]
          exact ih ns C0 C' hws' hrec hg
        | one x =>
          simp only [hl] at hsim
          by_cases hstar : x.star = true
          · simp only [hstar, if_true, Option.some.injEq] at hsim; subst hsim
            have hstep : simpleStep m ns lt.tag = ns := by simp [simpleStep, hcode, hl, hstar]
            rw [hstep]
            exact ih ns C0 C' hws' hrec hg
          · have hstar' : x.star = false := by simpa using hstar
            simp only [hstar', Bool.false_eq_true, if_false] at hsim
            have hstep : simpleStep m ns lt.tag = (x.id, loadCast lt.tag.val) :: ns := by
              simp [simpleStep, hcode, hl, hstar']
            rw [hstep]
            cases hsrc : s.src with
            | attr a =>
              simp only [hsrc] at hsim
              split at hsim
              rotate_left
              · exact absurd hsim (by simp)
              rename_i hxa
              simp only [beq_iff_eq] at hxa
              simp only [Option.some.injEq] at hsim; subst hsim
              have hfa := (hs.1 a hsrc).1
              have hval : ∃ v, written ver force a (ns0.get a.name) = some v ∧ lt.tag.val = v := by
                simp only [conc, hsrc] at hc
                cases hwv : written ver force a (ns0.get a.name) with
                | none => simp [hwv] at hc
                | some v => simp only [hwv, Option.map_some, Option.some.injEq] at hc; subst hc; exact ⟨v, rfl, rfl⟩
              obtain ⟨v, hwv, hv⟩ := hval
              have hW : Wn S ver force ns0 x.id = some (loadCast lt.tag.val) := by
                rw [hxa]; simp [Wn, hfa, expected, hwv, hv]
              have hg' := hg.set_cover x.id (loadCast lt.tag.val) hW
              have hres := ih ((x.id, loadCast lt.tag.val) :: ns) (x.id :: C0) C' hws' hrec hg'
              refine hres.mono ?_
              intro n hn
              rw [hxa]
              simp only [List.cons_append, List.mem_cons, List.mem_append] at hn ⊢
              rcases hn with h | h | h
              · exact Or.inr (Or.inl h)
              · exact Or.inl h
              · exact Or.inr (Or.inr h)
            | marker n =>
              simp only [hsrc] at hsim
              split at hsim
              · exact absurd hsim (by simp)
              rename_i hne
              simp only [Option.some.injEq] at hsim; subst hsim
              have hg' := hg.set x.id (loadCast lt.tag.val)
                (Or.inl (contains_false_iff.mp (by simpa using hne)))
              exact ih _ C0 C' hws' hrec hg'
            | raw =>
              simp only [hsrc] at hsim
              split at hsim
              · exact absurd hsim (by simp)
              rename_i hne
              simp only [Option.some.injEq] at hsim; subst hsim
              have hg' := hg.set x.id (loadCast lt.tag.val)
                (Or.inl (contains_false_iff.mp (by simpa using hne)))
              exact ih _ C0 C' hws' hrec hg'
  | @none s rest lts' rv hc _ ih =>
    intro ns C0 C hws hsim hg
    have hws' : WS S rest := fun t ht => hws t (List.mem_cons_of_mem _ ht)
    have hs := hws s (List.mem_cons_self ..)
    simp only [simSimple] at hsim
    cases hrec : simSimple m ver exp rest with
    | none => simp [hrec] at hsim
    | some C' =>
      simp only [hrec] at hsim
      have hres := ih ns C0 C' hws' hrec hg
      -- nothing was written: the source is an attribute without a tag
      cases hsrc : s.src with
      | marker n => simp [conc, hsrc] at hc
      | raw => simp [conc, hsrc] at hc
      | attr a =>
        have hfa := (hs.1 a hsrc).1
        have hwn : written ver force a (ns0.get a.name) = none := by simpa [conc, hsrc] using hc
        have hW : Wn S ver force ns0 a.name = none := by simp [Wn, hfa, expected, hwn]
        have hsub : ∀ n, n ∈ C ++ C0 → n ∈ a.name :: (C' ++ C0) := by
          intro n hn
          split at hsim
          · simp only [Option.some.injEq] at hsim; subst hsim; exact List.mem_cons_of_mem _ hn
          · split at hsim
            · rename_i x _
              split at hsim
              · simp only [Option.some.injEq] at hsim; subst hsim; exact List.mem_cons_of_mem _ hn
              · simp only [hsrc] at hsim
                split at hsim
                · simp only [Option.some.injEq] at hsim; subst hsim; simpa using hn
                · exact absurd hsim (by simp)
            · simp only [Option.some.injEq] at hsim; subst hsim; exact List.mem_cons_of_mem _ hn
        exact (hres.cover_none a.name hW).mono hsub

/-! ### one loader call, all loader calls -/

theorem fastLoad_nil (m : Mapping) (ns : NS) : fastLoad m [] ns = (ns, []) := rfl

theorem recoverLoad_nil (tbl : List (Int × Name)) (ns : NS) : recoverLoad tbl [] ns = (ns, []) := rfl

/-- the early return of `loadStep` on an empty tag list is the general formula -/
theorem loadStep_fast_eq (tbl : List (Int × Name)) (m : Mapping) (tags : List Tag) (ns : NS) (b : Bool) :
    (if tags.isEmpty = true then ns
     else if b = true then (recoverLoad tbl (fastLoad m tags ns).2 (fastLoad m tags ns).1).1 else (fastLoad m tags ns).1) =
    (if b = true then (recoverLoad tbl (fastLoad m tags ns).2 (fastLoad m tags ns).1).1 else (fastLoad m tags ns).1) := by
  cases tags with
  | nil => cases b <;> simp [fastLoad_nil, recoverLoad_nil]
  | cons t rest => simp

theorem simStep_sound (tbl : List (Int × Name)) (S : Schema) (ver : Nat) (force : Bool) (ns0 : NS)
    (rv : Nat → Nat → Val) (exp : List Name) (sss : List (List STag)) (hws : ∀ ss ∈ sss, WS S ss)
    (st : LoadStep) (ns : NS) (C0 C : List Name)
    (hsim : simStep tbl ver exp sss st = some C)
    (hg : Good S ver force ns0 exp ns C0) :
    Good S ver force ns0 exp (loadStep tbl ver (concSegs ver force ns0 rv 0 sss) ns st) (C ++ C0) := by
  cases st with
  | simple m =>
    simp only [simStep] at hsim
    simp only [loadStep]
    have hwsf : WS S sss.flatten := by
      intro s hs
      obtain ⟨ss, hss, hs'⟩ := List.mem_flatten.mp hs
      exact hws ss hss s hs'
    exact simSimple_sound S ver force ns0 m exp _ _ (concSegs_rel ver force ns0 rv sss 0) ns C0 C hwsf hsim hg
  | fast m sub recover drop =>
    simp only [simStep] at hsim
    simp only [loadStep, concSegs_length]
    generalize hr12 : (ver == 1009 || sss.length == 1) = r12 at hsim ⊢
    -- the selected subclass, symbolic and concrete
    have hsel : (if r12 = true then (concSegs ver force ns0 rv 0 sss)[0]? else (concSegs ver force ns0 rv 0 sss)[sub]?) =
        ((if r12 = true then sss[0]? else sss[sub]?)).map
          (fun ss => concSeg ver force ns0 (rv (if r12 = true then 0 else sub)) ss) := by
      cases r12 <;> simp [concSegs_getElem?]
    rw [hsel]
    cases hss : (if r12 = true then sss[0]? else sss[sub]?) with
    | none =>
      simp only [hss, Option.some.injEq] at hsim; subst hsim
      simpa using hg
    | some ss =>
      simp only [hss] at hsim
      simp only [Option.map_some]
      have hssmem : ss ∈ sss := by
        cases r12
        · simp only [Bool.false_eq_true, if_false] at hss; exact List.mem_of_getElem? hss
        · simp only [if_true] at hss; exact List.mem_of_getElem? hss
      have hwss : WS S ss := hws ss hssmem
      split at hsim
      rotate_left
      · exact absurd hsim (by simp)
      -- the tags handed to the loop
      generalize hss' : (if r12 = true then ss else ss.filter (fun s => !drop.contains s.lab)) = ss' at hsim
      have hwss' : WS S ss' := by
        subst hss'
        cases r12
        · simp only [Bool.false_eq_true, if_false]
          exact fun s hs => hwss s (List.mem_filter.mp hs).1
        · simpa using hwss
      have htags : untag (if r12 = true then concSeg ver force ns0 (rv (if r12 = true then 0 else sub)) ss
            else (concSeg ver force ns0 (rv (if r12 = true then 0 else sub)) ss).filter (fun t => !drop.contains t.lab)) =
          untag (concSeg ver force ns0 (rv (if r12 = true then 0 else sub)) ss') := by
        subst hss'
        cases r12
        · simp only [Bool.false_eq_true, if_false]; rw [concSeg_filter]
        · simp
      rw [htags, loadStep_fast_eq]
      cases hst : symStart ss' with
      | none => simp [hst] at hsim
      | some ss'' =>
        simp only [hst] at hsim
        have hwss'' : WS S ss'' := by
          intro s hs
          cases ss' with
          | nil => simp only [symStart, Option.some.injEq] at hst; subst hst; simp at hs
          | cons s0 rest =>
            simp only [symStart] at hst
            split at hst
            · split at hst
              · simp only [Option.some.injEq] at hst; subst hst; exact hwss' s hs
              · exact absurd hst (by simp)
            · simp only [Option.some.injEq] at hst; subst hst
              split at hs
              · exact hwss' s (List.mem_cons_of_mem _ hs)
              · exact hwss' s hs
        have hskip := skipStart_conc (ver := ver) (force := force) (ns := ns0)
          (rv := rv (if r12 = true then 0 else sub)) hwss' hst
        have hsound := simFast_sound S ver force ns0 (rv (if r12 = true then 0 else sub)) m exp
          (if (recover && !r12) = true then recCodes tbl else []) ss'' [] [] ns [] C0 C hwss'' hsim
          (fun _ _ _ _ => Iff.rfl) hg (by simp)
        unfold fastLoad
        simp only [hskip]
        cases hrec : (recover && !r12) with
        | false => simpa [hrec] using hsound.1
        | true =>
          simp only [hrec, if_true] at hsound ⊢
          have hnoop := recoverLoad_noop tbl _ ((untag (concSeg ver force ns0 (rv (if r12 = true then 0 else sub)) ss'')).foldl
            (fastStep m) ⟨ns, [], []⟩).ns [] hsound.2
          unfold recoverLoad
          rw [hnoop]
          exact hsound.1

theorem simSteps_sound (tbl : List (Int × Name)) (S : Schema) (ver : Nat) (force : Bool) (ns0 : NS)
    (rv : Nat → Nat → Val) (exp : List Name) (sss : List (List STag)) (hws : ∀ ss ∈ sss, WS S ss) :
    ∀ (loads : List LoadStep) (ns : NS) (C0 C : List Name),
      simSteps tbl ver exp sss loads = some C →
      Good S ver force ns0 exp ns C0 →
      Good S ver force ns0 exp (loads.foldl (loadStep tbl ver (concSegs ver force ns0 rv 0 sss)) ns) (C ++ C0) := by
  intro loads
  induction loads with
  | nil =>
    intro ns C0 C h hg
    simp only [simSteps, Option.some.injEq] at h; subst h
    simpa using hg
  | cons st rest ih =>
    intro ns C0 C h hg
    simp only [simSteps] at h
    cases h1 : simStep tbl ver exp sss st with
    | none => simp [h1] at h
    | some A =>
      cases h2 : simSteps tbl ver exp sss rest with
      | none => simp [h1, h2] at h
      | some B =>
        simp only [h1, h2, Option.some.injEq] at h; subst h
        have g1 := simStep_sound tbl S ver force ns0 rv exp sss hws st ns C0 A h1 hg
        have g2 := ih _ (A ++ C0) B h2 g1
        simp only [List.foldl_cons]
        refine g2.mono ?_
        intro n hn
        simp only [List.mem_append] at hn ⊢
        rcases hn with (h | h) | h
        · exact Or.inr (Or.inl h)
        · exact Or.inl h
        · exact Or.inr (Or.inr h)

/-- what `wfPlan` says -/
theorem wfPlan_unfold {tbl : List (Int × Name)} {S : Schema} {p : Plan} (h : wfPlan tbl S p = true) :
    ∃ sss C, symSegs S p.segs = some sss ∧ simSteps tbl p.ver (expNames S p) sss p.loads = some C ∧
      (∀ n ∈ expNames S p, n ∈ C) ∧ namesOK S (planNames p) = true ∧ rawsOK p = true ∧ shapeOK p = true := by
  unfold wfPlan at h
  cases h1 : symSegs S p.segs with
  | none => simp [h1] at h
  | some sss =>
    simp only [h1, Bool.and_eq_true] at h
    obtain ⟨⟨⟨hn, hr⟩, hsh⟩, hc⟩ := h
    cases h2 : simSteps tbl p.ver (expNames S p) sss p.loads with
    | none => simp [h2] at hc
    | some C =>
      simp only [h2, List.all_eq_true] at hc
      exact ⟨sss, C, rfl, h2, fun n hn' => List.contains_iff_mem.mp (hc n hn'), hn, hr, hsh⟩

/-- the key fact: after reload the namespace holds, for every exported name, exactly the written value -/
theorem loadEntity_get (tbl : List (Int × Name)) (S : Schema) (p : Plan) (hwf : wfPlan tbl S p = true)
    (force : Bool) (ns0 : NS) (rv : Nat → Nat → Val) (subs : List (List LTag))
    (hexp : exportEntity S p force ns0 rv = some subs) (n : Name) (hn : n ∈ expNames S p) :
    (loadEntity tbl p subs).get n = Wn S p.ver force ns0 n := by
  obtain ⟨sss, C, h1, h2, hcov, _, _, _⟩ := wfPlan_unfold hwf
  simp only [exportEntity, h1, Option.map_some, Option.some.injEq] at hexp
  subst hexp
  have hws := symSegs_WS h1
  have g0 : Good S p.ver force ns0 (expNames S p) [] [] :=
    ⟨fun _ _ => Or.inl rfl, fun _ h => by simp at h⟩
  have g := simSteps_sound tbl S p.ver force ns0 rv (expNames S p) sss hws p.loads [] [] C h2 g0
  unfold loadEntity
  by_cases hW : Wn S p.ver force ns0 n = none
  · rcases g.1 n hn with h | h
    · rw [h, hW]
    · exact h
  · exact g.2 n (by simpa using hcov n hn) hn hW

end EzdxfVerif.Schema

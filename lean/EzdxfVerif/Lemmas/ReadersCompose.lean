/-
C08  final round: the composition "locally well-formed parts → every reader returns the written entities" for ANY file of the
shape `fileOf pre es post` (Drawing.write, r12export, r12writer and the iterdxf exporter are instances).
-/
import EzdxfVerif.Lemmas.ReadersWrite

namespace EzdxfVerif.Readers

/-- the local conditions of `fileOf_wf`, bundled -/
structure PartsOK (cfg : Cfg) (m : Nat) (pre post : List Section) (es : List Ent) : Prop where
  cfgok : cfgOK cfg = true
  secs : SecsOK cfg m (pre ++ post)
  closed : EntsClosed cfg es
  groups : entGroupsOK es = true
  tags : ∀ t ∈ flatEnts es, wTagOK cfg m t = true
  psp : ∀ g ∈ es.flatMap Ent.groups, cfg.pspS g = cfg.psp g
  objects : "AC1009" < verFold (verFold "AC1009" pre) post → ∃ s ∈ pre ++ post, s.name = "OBJECTS"

theorem parts_wf (cfg : Cfg) (m : Nat) (pre post : List Section) (es : List Ent) (h : PartsOK cfg m pre post es) :
    FileWF' cfg m (fileOf pre es post) = true :=
  fileOf_wf cfg m pre post es h.cfgok h.secs h.closed h.groups h.tags h.psp h.objects

/-- the Spec's modelspace of such a file is the entity list, filtered -/
theorem spec_fileOf (cfg : Cfg) (m : Nat) (pre post : List Section) (es : List Ent) (h : PartsOK cfg m pre post es) :
    Spec.ofFile cfg (fileOf pre es post) = es.filter (fun e => cfg.req (dxftype e.main) && !cfg.psp e.main) := by
  have hpre_ne : ∀ s ∈ pre, s.name ≠ "ENTITIES" := by
    intro s hs
    have := h.secs.sec s (by simp [hs])
    simp only [secOK, Bool.and_eq_true, bne_iff_ne] at this
    exact this.1.1
  have hgok := groupOK_of_entGroupsOK _ h.groups
  have hp2 : parseFile (fileOf pre es post) = some (pre ++ ⟨"ENTITIES", flatEnts es⟩ :: post) := by
    unfold fileOf
    apply parseFile_render
    intro s hs
    simp only [List.mem_append, List.mem_cons] at hs
    rcases hs with hs | rfl | hs
    · exact h.secs.body s (by simp [hs])
    · exact bodyOK_flatEnts _ h.groups
    · exact h.secs.body s (by simp [hs])
  simp only [Spec.ofFile, hp2, Spec.modelspace, Spec.entities, specBody_fileOf pre post _ hpre_ne]
  unfold flatEnts
  rw [groupTags_flatten _ hgok, link_flatten cfg _ (EntsWF_of_closed cfg _ h.closed)]

/-- entities that satisfy the writer's local predicate one by one give the entity part of `PartsOK` -/
theorem parts_of_wEnts (cfg : Cfg) (m : Nat) (es : List Ent) (h : ∀ e ∈ es, wEntOK cfg m e = true) :
    EntsClosed cfg es ∧ entGroupsOK es = true ∧ (∀ t ∈ flatEnts es, wTagOK cfg m t = true) ∧
    (∀ g ∈ es.flatMap Ent.groups, cfg.pspS g = cfg.psp g) ∧ (∀ e ∈ es, e.exportable = true) := by
  refine ⟨fun e he => ⟨(wEnt_facts cfg m e (h e he)).1, (wEnt_facts cfg m e (h e he)).2.1⟩, ?_, ?_, ?_,
    fun e he => (wEnt_facts cfg m e (h e he)).2.2.1⟩
  · rw [entGroupsOK_iff]
    intro g hg
    obtain ⟨e, he, hge⟩ := List.mem_flatMap.mp hg
    exact ((wEnt_facts cfg m e (h e he)).2.2.2 g hge).1
  · intro t ht
    simp only [flatEnts, List.mem_flatten, List.mem_flatMap] at ht
    obtain ⟨g, ⟨e, he, hge⟩, htg⟩ := ht
    exact ((wEnt_facts cfg m e (h e he)).2.2.2 g hge).2.1 t htg
  · intro g hg
    obtain ⟨e, he, hge⟩ := List.mem_flatMap.mp hg
    exact ((wEnt_facts cfg m e (h e he)).2.2.2 g hge).2.2

end EzdxfVerif.Readers

/-
`plain_mtext(.., split=True)`: the token machinery computes the paragraph list `splitNone (slowItems ..)`
(lemmas for Props/C20; the proofs mirror Lemmas/TextSpec.lean).
-/
import EzdxfVerif.Lemmas.TextSpec
namespace EzdxfVerif.Text

private theorem map_ok3 {α β : Type} (f : α → β) (x : Except PyErr α) (a : α) (h : x = .ok a) :
    f <$> x = .ok (f a) := by subst h; rfl

theorem items_append (a b : List Token) : itemsOfTokens (a ++ b) = itemsOfTokens a ++ itemsOfTokens b := by
  induction a with
  | nil => rfl
  | cons t ts ih => cases t <;> simp [itemsOfTokens, ih]

theorem items_wordAnd_space (w : Str) : itemsOfTokens (wordAnd w .space) = w.map some ++ [some ' '] := by
  unfold wordAnd; split
  · rename_i h; simp at h; subst h; simp [itemsOfTokens]
  · simp [itemsOfTokens]

theorem items_wordAnd_np (w : Str) : itemsOfTokens (wordAnd w .newParagraph) = w.map some ++ [none] := by
  unfold wordAnd; split
  · rename_i h; simp at h; subst h; simp [itemsOfTokens]
  · simp [itemsOfTokens]

theorem items_wordAnd_tab (w : Str) :
    itemsOfTokens (wordAnd w .tab) = w.map some ++ [some ' ', some ' ', some ' ', some ' '] := by
  unfold wordAnd; split
  · rename_i h; simp at h; subst h; simp [itemsOfTokens]
  · simp [itemsOfTokens]

/-! ### one-step unfoldings of `slowItems` -/

theorem slowItems_nil (sp : Special) : slowItems sp [] = [] := by rw [slowItems.eq_def]

theorem slowItems_bs_end (sp : Special) : slowItems sp ['\\'] = [some ' '] := by rw [slowItems.eq_def]; simp

theorem slowItems_esc (sp : Special) (d : Char) (r2 : Str) (hd : d = '\\' ∨ d = '{' ∨ d = '}') :
    slowItems sp ('\\' :: d :: r2) = some d :: slowItems sp r2 := by
  conv => lhs; rw [slowItems.eq_def]
  simp only [↓reduceIte, hd]

theorem slowItems_nbsp (sp : Special) (r2 : Str) : slowItems sp ('\\' :: '~' :: r2) = some ' ' :: slowItems sp r2 := by
  conv => lhs; rw [slowItems.eq_def]
  simp

theorem slowItems_P (sp : Special) (r2 : Str) : slowItems sp ('\\' :: 'P' :: r2) = none :: slowItems sp r2 := by
  conv => lhs; rw [slowItems.eq_def]
  simp

theorem slowItems_N (sp : Special) (r2 : Str) : slowItems sp ('\\' :: 'N' :: r2) = none :: slowItems sp r2 := by
  conv => lhs; rw [slowItems.eq_def]
  simp

theorem slowItems_X (sp : Special) (r2 : Str) : slowItems sp ('\\' :: 'X' :: r2) = slowItems sp r2 := by
  conv => lhs; rw [slowItems.eq_def]
  simp

theorem slowItems_S (sp : Special) (r2 expr r3 : Str) (he : extractExpr true r2 = (expr, r3)) :
    slowItems sp ('\\' :: 'S' :: r2) = (stackText (parseStacking expr)).map some ++ slowItems sp r3 := by
  conv => lhs; rw [slowItems.eq_def]
  simp only [show ¬(('S' : Char) = '\\' ∨ ('S' : Char) = '{' ∨ ('S' : Char) = '}') by decide,
    show ('S' : Char) ≠ '~' by decide, show ¬(('S' : Char) = 'P' ∨ ('S' : Char) = 'N') by decide,
    show ('S' : Char) ≠ 'X' by decide, ↓reduceIte]
  rw [he]

theorem slowItems_cmd (sp : Special) (d : Char) (r2 r3 : Str)
    (hd : ¬(d = '\\' ∨ d = '{' ∨ d = '}')) (h1 : d ≠ '~') (h2 : d ≠ 'P') (h3 : d ≠ 'N') (h4 : d ≠ 'X') (h5 : d ≠ 'S')
    (hp : parseProperties d r2 = some (.ok r3)) :
    slowItems sp ('\\' :: d :: r2) = slowItems sp r3 := by
  conv => lhs; rw [slowItems.eq_def]
  simp only [↓reduceIte, hd, h1, h2, h3, h4, h5, or_self]
  split
  · rename_i r h; rw [hp] at h; cases h; rfl
  · rename_i h; exact absurd hp (h r3)

theorem slowItems_unknown (sp : Special) (d : Char) (r2 : Str)
    (hd : ¬(d = '\\' ∨ d = '{' ∨ d = '}')) (h1 : d ≠ '~') (h2 : d ≠ 'P') (h3 : d ≠ 'N') (h4 : d ≠ 'X') (h5 : d ≠ 'S')
    (hp : parseProperties d r2 = none) :
    slowItems sp ('\\' :: d :: r2) = some '\\' :: some d :: slowItems sp r2 := by
  conv => lhs; rw [slowItems.eq_def]
  simp only [↓reduceIte, hd, h1, h2, h3, h4, h5, or_self]
  split
  · rename_i r h; rw [hp] at h; cases h
  · rfl

theorem slowItems_tab (sp : Special) (r : Str) : slowItems sp ('\t' :: r) = some ' ' :: some ' ' :: some ' ' :: some ' ' :: slowItems sp r := by
  conv => lhs; rw [slowItems.eq_def]
  simp

theorem slowItems_lf (sp : Special) (r : Str) : slowItems sp ('\n' :: r) = none :: slowItems sp r := by
  conv => lhs; rw [slowItems.eq_def]
  simp

theorem slowItems_ctl (sp : Special) (c : Char) (r : Str) (h0 : c ≠ '\\') (h1 : c ≠ '\t') (h2 : c ≠ '\n') (h3 : c.toNat < 32) :
    slowItems sp (c :: r) = some ' ' :: slowItems sp r := by
  conv => lhs; rw [slowItems.eq_def]
  simp only [↓reduceIte, h0, h1, h2, h3]

theorem slowItems_special (sp : Special) (c l : Char) (r r3 : Str)
    (h0 : c ≠ '\\') (h1 : c ≠ '\t') (h2 : c ≠ '\n') (h3 : ¬ c.toNat < 32) (hs : specialAt sp c r = some (l, r3)) :
    slowItems sp (c :: r) = some l :: slowItems sp r3 := by
  conv => lhs; rw [slowItems.eq_def]
  simp only [↓reduceIte, h0, h1, h2, h3]
  split
  · rename_i l' r3' h; rw [hs] at h; cases h; rfl
  · rename_i h; rw [hs] at h; cases h

theorem slowItems_brace (sp : Special) (c : Char) (r : Str) (h : c = '{' ∨ c = '}') :
    slowItems sp (c :: r) = slowItems sp r := by
  conv => lhs; rw [slowItems.eq_def]
  have h0 : c ≠ '\\' := by rcases h with h | h <;> subst h <;> decide
  have h1 : c ≠ '\t' := by rcases h with h | h <;> subst h <;> decide
  have h2 : c ≠ '\n' := by rcases h with h | h <;> subst h <;> decide
  have h3 : ¬ c.toNat < 32 := by rcases h with h | h <;> subst h <;> decide
  have hs : specialAt sp c r = none := by
    have : c ≠ '%' := by rcases h with h | h <;> subst h <;> decide
    simp [specialAt, this]
  simp only [↓reduceIte, h0, h1, h2, h3]
  split
  · rename_i h'; rw [hs] at h'; cases h'
  · simp only [h, ↓reduceIte]

theorem slowItems_char (sp : Special) (c : Char) (r : Str)
    (h0 : c ≠ '\\') (h1 : c ≠ '\t') (h2 : c ≠ '\n') (h3 : ¬ c.toNat < 32) (hs : specialAt sp c r = none)
    (hb : ¬(c = '{' ∨ c = '}')) :
    slowItems sp (c :: r) = some c :: slowItems sp r := by
  conv => lhs; rw [slowItems.eq_def]
  simp only [↓reduceIte, h0, h1, h2, h3]
  split
  · rename_i h'; rw [hs] at h'; cases h'
  · simp only [hb, ↓reduceIte]

theorem items_stack_cons (expr : Str) (ts : List Token) :
    itemsOfTokens (parseStacking expr :: ts) = (stackText (parseStacking expr)).map some ++ itemsOfTokens ts := by
  unfold parseStacking
  simp [itemsOfTokens, stackText]

/-- every string: the token stream as characters and breaks is the word under construction followed by `slowItems` -/
theorem scan_items (sp : Special) (rest word : Str) :
    ∃ ts, scan sp rest word = .ok ts ∧ itemsOfTokens ts = word.map some ++ slowItems sp rest := by
  fun_induction scan sp rest word
  case case1 word =>
    refine ⟨_, rfl, ?_⟩
    rw [slowItems_nil]
    by_cases hw : word = []
    · subst hw; simp [itemsOfTokens]
    · have : word.isEmpty = false := by cases word <;> simp_all
      simp [this, itemsOfTokens]
  case case2 word =>
    refine ⟨_, rfl, ?_⟩
    rw [items_wordAnd_space, slowItems_bs_end]
  case case3 word d r2 hd ih =>
    obtain ⟨ts, h1, h2⟩ := ih
    refine ⟨ts, h1, ?_⟩
    rw [h2, slowItems_esc sp d r2 hd]; simp
  case case4 word d r2 hd hw _ ih =>
    obtain ⟨ts, h1, h2⟩ := ih
    refine ⟨_, map_ok3 _ _ _ h1, ?_⟩
    simp [itemsOfTokens, h2]
  case case5 word r2 hw _ ih =>
    simp only [ne_eq, Decidable.not_not] at hw; subst hw
    obtain ⟨ts, h1, h2⟩ := ih
    refine ⟨_, map_ok3 _ _ _ h1, ?_⟩
    rw [slowItems_nbsp]; simp [itemsOfTokens, h2]
  case case6 word r2 hw _ _ ih =>
    simp only [ne_eq, Decidable.not_not] at hw; subst hw
    obtain ⟨ts, h1, h2⟩ := ih
    refine ⟨_, map_ok3 _ _ _ h1, ?_⟩
    rw [slowItems_P]; simp [itemsOfTokens, h2]
  case case7 word r2 hw _ _ _ ih =>
    simp only [ne_eq, Decidable.not_not] at hw; subst hw
    obtain ⟨ts, h1, h2⟩ := ih
    refine ⟨_, map_ok3 _ _ _ h1, ?_⟩
    rw [slowItems_N]; simp [itemsOfTokens, h2]
  case case8 word r2 hw _ _ _ _ ih =>
    simp only [ne_eq, Decidable.not_not] at hw; subst hw
    obtain ⟨ts, h1, h2⟩ := ih
    refine ⟨_, map_ok3 _ _ _ h1, ?_⟩
    rw [slowItems_X]; simp [itemsOfTokens, h2]
  case case9 word r2 hw expr r3 he _ _ _ _ _ _ ih =>
    simp only [ne_eq, Decidable.not_not] at hw; subst hw
    obtain ⟨ts, h1, h2⟩ := ih
    refine ⟨_, map_ok3 _ _ _ h1, ?_⟩
    rw [slowItems_S sp r2 expr r3 he, items_stack_cons, h2]
    simp
  case case10 word d r2 hd hw h1 h2 h3 h4 h5 hp ih =>
    obtain ⟨ts, t1, t2⟩ := ih
    refine ⟨ts, t1, ?_⟩
    rw [t2, slowItems_unknown sp d r2 hd h1 h2 h3 h4 h5 hp]; simp
  case case11 word d r2 hd hw h1 h2 h3 h4 h5 e hp =>
    exact absurd hp (parseProperties_no_error _ _ _)
  case case12 word d r2 hd hw h1 h2 h3 h4 h5 r3 hp _ ih =>
    obtain ⟨ts, t1, t2⟩ := ih
    refine ⟨ts, t1, ?_⟩
    rw [t2, slowItems_cmd sp d r2 r3 hd h1 h2 h3 h4 h5 hp]
  case case13 word tail _ ih =>
    obtain ⟨ts, h1, h2⟩ := ih
    refine ⟨_, map_ok3 _ _ _ h1, ?_⟩
    rw [items_append, items_wordAnd_tab, h2, slowItems_tab]; simp
  case case14 word tail _ _ ih =>
    obtain ⟨ts, h1, h2⟩ := ih
    refine ⟨_, map_ok3 _ _ _ h1, ?_⟩
    rw [items_append, items_wordAnd_np, h2, slowItems_lf]; simp
  case case15 word head tail hb ht hn h32 ih =>
    obtain ⟨ts, h1, h2⟩ := ih
    refine ⟨_, map_ok3 _ _ _ h1, ?_⟩
    rw [items_append, items_wordAnd_space, h2, slowItems_ctl sp head tail hb ht hn h32]; simp
  case case16 word head tail hb ht hn h32 l r3 hs _ ih =>
    obtain ⟨ts, h1, h2⟩ := ih
    refine ⟨ts, h1, ?_⟩
    rw [h2, slowItems_special sp head l tail r3 hb ht hn h32 hs]; simp
  case case17 word tail _ _ _ _ hs ih =>
    obtain ⟨ts, h1, h2⟩ := ih
    refine ⟨_, map_ok3 _ _ _ h1, ?_⟩
    rw [items_append, items_wordAnd_space, h2,
      slowItems_char sp ' ' tail (by decide) (by decide) (by decide) (by decide) hs (by decide)]
    simp
  case case18 word head tail hb ht hn h32 hs hsp hbr hw _ ih =>
    obtain ⟨ts, h1, h2⟩ := ih
    refine ⟨_, map_ok3 _ _ _ h1, ?_⟩
    simp [itemsOfTokens, h2]
  case case19 word head tail hb ht hn h32 hs hsp hbr hw ih =>
    simp only [ne_eq, Decidable.not_not] at hw; subst hw
    obtain ⟨ts, h1, h2⟩ := ih
    refine ⟨ts, h1, ?_⟩
    rw [h2, slowItems_brace sp head tail hbr]
  case case20 word head tail hb ht hn h32 hs hsp hbr ih =>
    obtain ⟨ts, h1, h2⟩ := ih
    refine ⟨ts, h1, ?_⟩
    rw [h2, slowItems_char sp head tail hb ht hn h32 hs hbr]; simp


/-! ### paragraphs = the pieces between the breaks -/

def consPara (para : Str) : List Str → List Str
  | [] => [para]
  | p :: r => (para ++ p) :: r

theorem splitNone_ne_nil (l : List (Option Char)) : splitNone l ≠ [] := by
  induction l with
  | nil => simp [splitNone]
  | cons a t ih =>
    cases a with
    | none => simp [splitNone]
    | some c =>
      simp only [splitNone]
      cases h : splitNone t <;> simp

theorem splitNone_some (c : Char) (l : List (Option Char)) : splitNone (some c :: l) = consPara [c] (splitNone l) := by
  simp only [splitNone]
  cases h : splitNone l with
  | nil => exact absurd h (splitNone_ne_nil l)
  | cons p r => rfl

theorem consPara_append (a b : Str) (l : List Str) (h : l ≠ []) : consPara a (consPara b l) = consPara (a ++ b) l := by
  cases l with
  | nil => exact absurd rfl h
  | cons p r => simp [consPara]

theorem consPara_nil (l : List Str) (h : l ≠ []) : consPara [] l = l := by
  cases l with
  | nil => exact absurd rfl h
  | cons p r => simp [consPara]

theorem splitNone_word (w : Str) (l : List (Option Char)) : splitNone (w.map some ++ l) = consPara w (splitNone l) := by
  induction w with
  | nil => simp [consPara_nil _ (splitNone_ne_nil l)]
  | cons c t ih =>
    simp only [List.map_cons, List.cons_append, splitNone_some, ih]
    rw [consPara_append _ _ _ (splitNone_ne_nil l)]; rfl

/-- `plain_mtext(.., split=True)` from the tokens = the pieces of the token characters between the breaks -/
theorem plainOfTokens_items (ts : List Token) (para : Str) :
    plainOfTokens ts para = consPara para (splitNone (itemsOfTokens ts)) := by
  induction ts generalizing para with
  | nil => simp [plainOfTokens, itemsOfTokens, splitNone, consPara]
  | cons t ts ih =>
    have hne := splitNone_ne_nil (itemsOfTokens ts)
    cases t with
    | word w =>
      simp only [plainOfTokens, itemsOfTokens, ih, splitNone_word]
      rw [consPara_append _ _ _ hne]
    | stack u l d =>
      simp only [plainOfTokens, itemsOfTokens, ih, splitNone_word]
      rw [consPara_append _ _ _ hne]; simp
    | space =>
      simp only [plainOfTokens, itemsOfTokens, ih, splitNone_some]
      rw [consPara_append _ _ _ hne]
    | nbsp =>
      simp only [plainOfTokens, itemsOfTokens, ih, splitNone_some]
      rw [consPara_append _ _ _ hne]
    | tab =>
      simp only [plainOfTokens, itemsOfTokens, ih, splitNone_some]
      rw [consPara_append _ _ _ hne, consPara_append _ _ _ hne, consPara_append _ _ _ hne, consPara_append _ _ _ hne]
      have : "    ".toList = [' ', ' ', ' ', ' '] := by decide
      rw [this]; simp
    | newParagraph =>
      simp only [plainOfTokens, itemsOfTokens, ih, splitNone]
      rw [consPara_nil _ hne]; simp [consPara]
    | newColumn =>
      simp only [plainOfTokens, itemsOfTokens, ih, splitNone]
      rw [consPara_nil _ hne]; simp [consPara]
    | wrapAtDimline => simp only [plainOfTokens, itemsOfTokens, ih]
    | props c => simp only [plainOfTokens, itemsOfTokens, ih]

theorem items_getD_flat (ts : List Token) : (itemsOfTokens ts).map (·.getD '\n') = flat ts := by
  induction ts with
  | nil => rfl
  | cons t ts ih =>
    have h4 : "    ".toList = [' ', ' ', ' ', ' '] := by decide
    cases t <;> simp [itemsOfTokens, flat, ih, Function.comp_def, h4]

/-- the joined form of the list-level spec is the string-level spec -/
theorem slowItems_getD (sp : Special) (d : Str) : (slowItems sp d).map (·.getD '\n') = slowLoop sp d := by
  obtain ⟨ts, h1, h2⟩ := scan_items sp d []
  obtain ⟨ts', h1', h2'⟩ := scan_flat sp d []
  rw [h1] at h1'; cases h1'
  have := items_getD_flat ts
  rw [h2] at this
  simpa [h2'] using this

/-- splitting the joined text at LF gives the pieces, when no LF is a character of a word -/
theorem splitNL_getD (l : List (Option Char)) (h : ∀ x ∈ l, x ≠ some '\n') :
    splitNL (l.map (·.getD '\n')) = splitNone l := by
  induction l with
  | nil => rfl
  | cons a t ih =>
    have ht := ih (fun x hx => h x (by simp [hx]))
    cases a with
    | none => simp [splitNL, splitNone, ht]
    | some c =>
      have hc : c ≠ '\n' := by intro hh; exact h (some c) (by simp) (by rw [hh])
      simp only [List.map_cons, Option.getD_some, splitNL, hc, ↓reduceIte, ht, splitNone]

end EzdxfVerif.Text

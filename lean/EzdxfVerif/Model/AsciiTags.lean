/-
Text layer of the DXF tag codecs (C03, session 3):
  * `TagWriter.write_tag` = `DXFTag/DXFVertex/DXFBinaryTag.dxfstr` (`"%3d\n%s\n"`),
  * `stream.readline()` line framing, universal-newline translation of text files (`\r\n`, `\r` -> `\n`),
  * `ascii_tags_loader` (code line / value line, `rstrip("\n")`, comments 999, stop at (0, EOF)),
  * value typing of `tag_compiler` (`TYPE_TABLE.get(code, str)(value)`, `strip()` of code-0 values,
    `DXFBinaryTag.from_string`),
  * `recover.bytes_loader` (`rstrip(b"\r\n")`) and the value typing of `recover.byte_tag_compiler`
    (`strip().upper()` of code-0 values) on ASCII content,
  * `packedtags.VertexArray / TagArray / TagList` export and `from_tags`.
Core Lean only.  Strings are lists of code points.  The text form of a double is a parameter:
`fmt : Nat → List Nat` (`repr(float)` of the double with that bit pattern) and
`parse : List Nat → Option Nat` (`float(text)`, `none` = ValueError).
-/
import EzdxfVerif.Model.Codec

namespace EzdxfVerif.AsciiTags
open EzdxfVerif.Codec

inductive TErr where
  | structure      -- DXFStructureError
  | value          -- ValueError (not converted by the caller)
  | decode         -- json.JSONDecodeError
  | unsupported    -- outside the modelled subset (value of a Python type the group code does not prescribe, …)
  deriving Repr, DecidableEq

/-- the Python object a low-level loader delivers as tag value -/
inductive Raw where
  | str (s : List Nat)
  | int (v : Int)
  | flt (txt : List Nat)        -- a float, carried as the text it was parsed from (JSON number token)
  | nums (xs : List Raw)        -- a list value (JSON compact vertex at a non-point code)
  deriving Repr

/-! ### Python `str.isspace`, `strip`, `upper` (ASCII) -/

/-- all code points with `chr(c).isspace()`; tied to the interpreter by `Gen/TagTables.pySpaceL` -/
def pySpace : List Nat :=
  [9, 10, 11, 12, 13, 28, 29, 30, 31, 32, 133, 160, 5760, 8192, 8193, 8194, 8195, 8196, 8197, 8198, 8199,
   8200, 8201, 8202, 8232, 8233, 8239, 8287, 12288]

def isSpace (c : Nat) : Bool := pySpace.contains c

/-- `bytes.isspace` / `Py_ISSPACE` -/
def isSpaceB (c : Nat) : Bool := c == 32 || (9 ≤ c && c ≤ 13)

def rstripP (p : Nat → Bool) (s : List Nat) : List Nat := (s.reverse.dropWhile p).reverse
def stripP (p : Nat → Bool) (s : List Nat) : List Nat := rstripP p (s.dropWhile p)

/-- `str.strip()` -/
def strip (s : List Nat) : List Nat := stripP isSpace s
/-- `bytes.strip()` -/
def stripB (s : List Nat) : List Nat := stripP isSpaceB s
/-- `bytes.upper()` -/
def upperB (s : List Nat) : List Nat := s.map fun c => if 97 ≤ c && c ≤ 122 then c - 32 else c

/-- what `int(str)` / `float(str)` strip: ASCII `Py_ISSPACE` plus the non-ASCII Unicode spaces (the
    ASCII separators 0x1C..0x1F are `isspace` for `strip()` but not for the number parsers) -/
def isSpaceNum (c : Nat) : Bool := isSpaceB c || (c ≥ 128 && isSpace c)

/-- `int(text)` for text with outer white space (`int()` strips it): `Codec.parseInt` handles leading
    blanks, here the outer white space (line ends) is removed first -/
def pyIntWs (s : List Nat) : Option Int := parseInt ((rstripP isSpaceNum s).dropWhile isSpaceNum)

/-- the text `float()` looks at -/
def stripNum (s : List Nat) : List Nat := stripP isSpaceNum s

/-- `int(bytes)`: only `Py_ISSPACE` characters are stripped -/
def pyIntWsB (s : List Nat) : Option Int := parseInt ((rstripP isSpaceB s).dropWhile isSpaceB)

/-! ### writer: `dxfstr` -/

/-- `"%s" % value` -/
def valText (fmt : Nat → List Nat) : Val → List Nat
  | .str s => s
  | .int v => showInt v
  | .dbl b => fmt b
  | .bin d => hexlify d

/-- `TAG_STRING_FORMAT % (code, value)` -/
def renderTag (fmt : Nat → List Nat) (c : Nat) (v : Val) : List Nat :=
  showCode c ++ [10] ++ valText fmt v ++ [10]

/-- `DXFVertex.dxftags()` zips the values with the three codes (c, c+10, c+20): coordinates beyond the
    third are never written, by any writer -/
def trunc3 {α : Type} : CTag α → CTag α
  | .single c v => .single c v
  | .point c xs => .point c (xs.take 3)

/-- the component tags the writers see -/
def flattenW {α : Type} (ts : List (CTag α)) : List (Nat × α) := flatten (ts.map trunc3)

/-- `TagWriter.write_tag` for every tag (a vertex is written as its component tags) -/
def render (fmt : Nat → List Nat) (ts : List (CTag Val)) : List Nat :=
  (flattenW ts).flatMap fun p => renderTag fmt p.1 p.2

/-! ### line framing -/

/-- successive `readline()` results of a text stream: every line keeps its LF, the last one may lack it;
    no empty line is ever returned before EOF -/
def readLinesAux : List Nat → List Nat → List (List Nat)
  | acc, [] => if acc = [] then [] else [acc.reverse]
  | acc, c :: r => if c = 10 then (10 :: acc).reverse :: readLinesAux [] r else readLinesAux (c :: acc) r

def readLines (s : List Nat) : List (List Nat) := readLinesAux [] s

/-- universal-newline translation of a text file opened with `newline=None`: `\r\n` and `\r` become `\n` -/
def univNL : List Nat → List Nat
  | [] => []
  | [c] => if c = 13 then [10] else [c]
  | c :: d :: r =>
    if c = 13 then (if d = 10 then 10 :: univNL r else 10 :: univNL (d :: r))
    else c :: univNL (d :: r)

/-- a text written with `\r\n` line ends (Windows / CAD applications) -/
def toCRLF : List Nat → List Nat
  | [] => []
  | c :: r => if c = 10 then 13 :: 10 :: toCRLF r else c :: toCRLF r

/-- `value.rstrip("\n")` -/
def rstripLF (s : List Nat) : List Nat := rstripP (· == 10) s
/-- `value.rstrip(b"\r\n")` -/
def rstripCRLF (s : List Nat) : List Nat := rstripP (fun c => c == 13 || c == 10) s

def sEOF : List Nat := [69, 79, 70]

/-- `ascii_tags_loader(stream, skip_comments=True)` on the lines of the stream -/
def asciiLoader : List (List Nat) → Except TErr (List (Nat × Raw))
  | [] => .ok []
  | [c] => match pyIntWs c with
    | none => .error .structure
    | some _ => .ok []                       -- value line missing: `return`
  | c :: v :: r =>
    match pyIntWs c with
    | none => .error .structure
    | some code =>
      if code < 0 then .error .unsupported else
      let value := rstripLF v
      if code = 0 ∧ value = sEOF then .ok [(0, .str value)]        -- eof = True
      else if code = 999 then asciiLoader r
      else (fun ts => (code.toNat, Raw.str value) :: ts) <$> asciiLoader r

def isDigitB (c : Nat) : Bool := 48 ≤ c && c ≤ 57

/-- `_search_int` is only reached when `int(code)` fails; on lines `int()` accepts both agree, the model
    of `bytes_loader` is restricted to those (a line without any digit: DXFStructureError, another line
    with a digit: `_search_int` finds some integer, `unsupported`) -/
def bytesLoader : List (List Nat) → Except TErr (List (Nat × Raw))
  | [] => .ok []
  | [c] => match pyIntWsB c with
    | none => if c.any isDigitB then .error .unsupported else .error .structure
    | some _ => .ok []
  | c :: v :: r =>
    match pyIntWsB c with
    | none => if c.any isDigitB then .error .unsupported else .error .structure
    | some code =>
      if code < 0 then .error .unsupported else
      let value := rstripCRLF v
      if code = 0 ∧ value = sEOF then .ok [(0, .str value)]
      else if code = 999 then bytesLoader r
      else (fun ts => (code.toNat, Raw.str value) :: ts) <$> bytesLoader r

/-! ### value typing of `tag_compiler` -/

def isIntCode (c : Nat) : Bool := isBytes c || isInt16 c || isInt32 c || isInt64 c

/-- `float(x.value)` -/
def toFloat (parse : List Nat → Option Nat) : Raw → Except TErr Val
  | .str s => match parse (stripNum s) with | some b => .ok (.dbl b) | none => .error .structure  -- float() strips white space
  | .flt t => match parse t with | some b => .ok (.dbl b) | none => .error .structure
  | .int v => match parse (showInt v) with   -- `float(int)` and `float(str(int))` are both correctly rounded
    | some b => .ok (.dbl b) | none => .error .unsupported
  | _ => .error .unsupported

/-- a single tag: `DXFBinaryTag.from_string` for binary codes, else `TYPE_TABLE.get(code, str)(value)`
    with `value.strip()` for code 0 -/
def typeSingle (parse : List Nat → Option Nat) (c : Nat) (r : Raw) : Except TErr Val :=
  if isBinary c then
    match r with
    | .str s => (match unhexlify s with | some d => .ok (.bin d) | none => .error .structure)
    | _ => .error .unsupported
  else if isDouble c then toFloat parse r
  else if isIntCode c then
    match r with
    | .str s =>
      (match pyIntWs s with
       | some v => .ok (.int v)
       | none =>                       -- ProE path `int(float(x.value))`: the truncation is not modelled
         match parse (stripNum s) with | some _ => .error .unsupported | none => .error .structure)
    | .int v => .ok (.int v)
    | _ => .error .unsupported
  else
    match r with
    | .str s => .ok (.str (if c = 0 then strip s else s))
    | .int v => if c = 0 then .error .unsupported else .ok (.str (showInt v))
    | _ => .error .unsupported

def typePoint (parse : List Nat → Option Nat) : List Raw → Except TErr (List Val)
  | [] => .ok []
  | x :: r => do
    let v ← toFloat parse x
    let vs ← typePoint parse r
    .ok (v :: vs)

def typeTag (parse : List Nat → Option Nat) : CTag Raw → Except TErr (CTag Val)
  | .single c r => (fun v => CTag.single c v) <$> typeSingle parse c r
  | .point c xs => (fun vs => CTag.point c vs) <$> typePoint parse xs

def typeAll (parse : List Nat → Option Nat) : List (CTag Raw) → Except TErr (List (CTag Val))
  | [] => .ok []
  | t :: r => do
    let v ← typeTag parse t
    let vs ← typeAll parse r
    .ok (v :: vs)

/-- `tag_compiler`: point logic (`Codec.compile`) and value typing.  On success the result does not
    depend on the interleaving of the two in the real generator. -/
def tagCompile (parse : List Nat → Option Nat) (raws : List (Nat × Raw)) : Except TErr (List (CTag Val)) :=
  match compile isPoint raws with
  | .error _ => .error .structure
  | .ok ts => typeAll parse ts

/-- `tag_compiler(ascii_tags_loader(stream))` on the text of the stream -/
def asciiLoad (parse : List Nat → Option Nat) (txt : List Nat) : Except TErr (List (CTag Val)) := do
  let raws ← asciiLoader (readLines txt)
  tagCompile parse raws

/-! ### `internal_tag_compiler` (Tags.from_text, ExtendedTags.from_text, TagCollector.write_str,
    JSONTagWriter.write_str, basic_tags_from_text): trusted source, no comment skipping, no EOF stop, no
    `strip()`, the y group code of a point is not even looked at, every failure is a ValueError/IndexError -/

def toFloatI (parse : List Nat → Option Nat) (s : List Nat) : Except TErr Val :=
  match parse (stripNum s) with | some b => .ok (.dbl b) | none => .error .value

def typeSingleI (parse : List Nat → Option Nat) (c : Nat) (s : List Nat) : Except TErr Val :=
  if isBinary c then (match unhexlify s with | some d => .ok (.bin d) | none => .error .value)
  else if isDouble c then toFloatI parse s
  else if isIntCode c then (match pyIntWs s with | some v => .ok (.int v) | none => .error .value)
  else .ok (.str s)

def pointI (parse : List Nat → Option Nat) (c : Nat) (vs : List (List Nat)) (rest : Except TErr (List (CTag Val))) :
    Except TErr (List (CTag Val)) :=
  match vs.mapM (toFloatI parse) with
  | .error e => .error e
  | .ok xs => (fun ts => CTag.point c xs :: ts) <$> rest

/-- the loop over `lines` (already split at LF) -/
def internalGo (parse : List Nat → Option Nat) : List (List Nat) → Except TErr (List (CTag Val))
  | [] => .ok []
  | [_] => .error .value                               -- int(code) or IndexError of lines[pos + 1]
  | cl :: v :: r =>
    match pyIntWs cl with
    | none => .error .value
    | some ci =>
      if ci < 0 then .error .unsupported else
      let c := ci.toNat
      if isPoint c then
        match r with
        | _ :: y :: r2 =>                                -- the y group code line is skipped unseen
          (match r2 with
           | [] => pointI parse c [v, y] (.ok [])
           | [_] => .error .value
           | zc :: z :: r3 =>
             match pyIntWs zc with
             | none => .error .value
             | some zi =>
               if zi = (c : Int) + 20 then pointI parse c [v, y, z] (internalGo parse r3)
               else pointI parse c [v, y] (internalGo parse (zc :: z :: r3)))
        | _ => .error .value                             -- IndexError
      else
        match typeSingleI parse c v with
        | .error e => .error e
        | .ok val => (fun ts => CTag.single c val :: ts) <$> internalGo parse r
termination_by l => l.length
decreasing_by all_goals simp_wf <;> omega

/-- `list(internal_tag_compiler(text))` -/
def internalLoad (parse : List Nat → Option Nat) (txt : List Nat) : Except TErr (List (CTag Val)) :=
  internalGo parse (internalLines txt)

/-! ### value typing of `recover.byte_tag_compiler` (ASCII content: `decode` is the identity) -/

def containsSeq (pat : List Nat) : List Nat → Bool
  | [] => pat.isEmpty
  | c :: r => (pat.isPrefixOf (c :: r)) || containsSeq pat r

/-- `has_dxf_unicode` / `has_mif_encoding` trigger: the value contains `\U+` or `\M+` -/
def hasEscape (s : List Nat) : Bool := containsSeq [92, 85, 43] s || containsSeq [92, 77, 43] s

/-- `float(bytes)`; when it fails `recover_float` searches a number: without any digit there is none
    (DXFStructureError), the repaired values are not modelled -/
def toFloatB (parse : List Nat → Option Nat) : Raw → Except TErr Val
  | .str s => match parse (stripP isSpaceB s) with
    | some b => .ok (.dbl b)
    | none => if s.any isDigitB then .error .unsupported else .error .structure
  | _ => .error .unsupported

def typePointB (parse : List Nat → Option Nat) : List Raw → Except TErr (List Val)
  | [] => .ok []
  | x :: r => do
    let v ← toFloatB parse x
    let vs ← typePointB parse r
    .ok (v :: vs)

def typeSingleB (parse : List Nat → Option Nat) (c : Nat) (r : Raw) : Except TErr Val :=
  if isBinary c then
    match r with
    | .str s => (match unhexlify s with | some d => .ok (.bin d) | none => .error .structure)
    | _ => .error .unsupported
  else if isDouble c then toFloatB parse r
  else if isIntCode c then
    match r with
    | .str s =>
      (match pyIntWsB s with
       | some v => .ok (.int v)
       | none => if s.any isDigitB then .error .unsupported else .error .structure)   -- `recover_int`
    | _ => .error .unsupported
  else
    match r with
    | .str s =>
      if c = 0 then .ok (.str (upperB (stripB s)))
      else if hasEscape s then .error .unsupported      -- `\U+XXXX` / `\M+cXXXX` are decoded (C09's subject)
      else .ok (.str s)
    | _ => .error .unsupported

def typeTagB (parse : List Nat → Option Nat) : CTag Raw → Except TErr (CTag Val)
  | .single c r => (fun v => CTag.single c v) <$> typeSingleB parse c r
  | .point c xs => (fun vs => CTag.point c vs) <$> typePointB parse xs

def typeAllB (parse : List Nat → Option Nat) : List (CTag Raw) → Except TErr (List (CTag Val))
  | [] => .ok []
  | t :: r => do
    let v ← typeTagB parse t
    let vs ← typeAllB parse r
    .ok (v :: vs)

/-- `byte_tag_compiler(bytes_loader(stream))` (after the fix of the trailing 2D point: same point logic
    as `tag_compiler`) -/
def recoverLoad (parse : List Nat → Option Nat) (txt : List Nat) : Except TErr (List (CTag Val)) := do
  let raws ← bytesLoader (readLines txt)
  match compile isPoint raws with
  | .error _ => .error .structure
  | .ok ts => typeAllB parse ts

/-! ### `packedtags`: VertexArray / TagArray / TagList -/

/-- `VertexArray.export_dxf(tagwriter, code)`: x, y and (if present) z of every vertex as single tags -/
def vaExport {α : Type} (code : Nat) : List (List α) → List (Nat × α)
  | [] => []
  | v :: r => flattenPt code (v.take 3) 0 ++ vaExport code r

/-- the value of a vertex tag with group code `code` -/
def ptVal {α : Type} (code : Nat) : CTag α → Option (List α)
  | .point c xs => if c = code then some xs else none
  | .single _ _ => none

/-- `VertexArray.from_tags(tags, code)`: the values of all vertex tags with that code; `none` = the
    TypeError / ValueError of the constructor for a vertex of the wrong size -/
def vaFromTags {α : Type} (size code : Nat) (ts : List (CTag α)) : Option (List (List α)) :=
  if (ts.filterMap (ptVal code)).all (fun v => v.length == size) then some (ts.filterMap (ptVal code)) else none

/-- `TagList.from_tags(tags, code)` / `TagArray`: the values of all tags with that code -/
def tlFromTags {α : Type} (code : Nat) (ts : List (Nat × α)) : List α :=
  (ts.filter fun t => t.1 == code).map (·.2)

/-- export of a `TagList`/`TagArray` as the subclasses do it: one tag per value -/
def tlExport {α : Type} (code : Nat) (vs : List α) : List (Nat × α) := vs.map fun v => (code, v)

/-! ### `tags.group_tags(tags, splitcode)` -/

/-- the loop of `group_tags`: `cur` = the group being collected (`None` before the first split tag: tags
    in front of it are skipped) -/
def groupGo {α : Type} (isSplit : α → Bool) : Option (List α) → List α → List (List α)
  | none, [] => []
  | some g, [] => [g]
  | cur, t :: r =>
    if isSplit t then (match cur with | some g => [g] | none => []) ++ groupGo isSplit (some [t]) r
    else groupGo isSplit (cur.map (· ++ [t])) r

def groupTags {α : Type} (isSplit : α → Bool) (ts : List α) : List (List α) := groupGo isSplit none ts

/-! ### `float(text)`: correctly rounded decimal -> binary64 conversion (round half to even), as an executable
    model; `repr(float)` itself (shortest round-tripping digits) is NOT modelled -/

def pow2 (n : Nat) : Nat := 2 ^ n

/-- round-half-even quotient of `a / b` (`b > 0`) -/
def divRoundEven (a b : Nat) : Nat :=
  let q := a / b
  let r := a % b
  if 2 * r < b then q else if 2 * r > b then q + 1 else if q % 2 = 0 then q else q + 1

/-- bit pattern (without sign) of the double nearest to `num / den`, `num > 0`, `den > 0`; 0x7FF0… = inf -/
def ratToBits (num den : Nat) : Nat :=
  -- k = floor(log2 (num / den))
  let k0 : Int := (num.log2 : Int) - (den.log2 : Int)
  let ge (k : Int) : Bool := if k ≥ 0 then num ≥ den * pow2 k.toNat else num * pow2 (-k).toNat ≥ den
  let k : Int := if ge k0 then (if ge (k0 + 1) then k0 + 1 else k0) else k0 - 1
  -- scale so that the quotient has 53 bits (normal) or is a multiple of 2^-1074 (denormal)
  let e : Int := if k - 52 < -1074 then -1074 else k - 52
  let q := if e ≥ 0 then divRoundEven num (den * pow2 e.toNat) else divRoundEven (num * pow2 (-e).toNat) den
  let (q, e) := if q = pow2 53 then (pow2 52, e + 1) else (q, e)
  let field : Int := e + 1075            -- biased exponent of a normal number, 1 for denormals
  if field ≥ 2047 then 2047 * pow2 52
  else ((field - 1).toNat) * pow2 52 + q

def lower (c : Nat) : Nat := if 65 ≤ c && c ≤ 90 then c + 32 else c

/-- digits (ASCII) of a run and the rest -/
def spanDigits (l : List Nat) : List Nat × List Nat := (l.takeWhile isDigitB, l.dropWhile isDigitB)

def digitsNat (ds : List Nat) : Nat := ds.foldl (fun a d => a * 10 + (d - 48)) 0

/-- `float(text)` for text without outer white space: `[+-]? (digits [. digits?] | . digits) ([eE] [+-]? digits)?`,
    `inf` / `infinity` / `nan` (any case); `none` = ValueError.  Underscores are not modelled. -/
def parseFloat (t : List Nat) : Option Nat :=
  let (neg, r) := match t with
    | c :: r => if c = 45 then (true, r) else if c = 43 then (false, r) else (false, t)
    | [] => (false, [])
  let sign := if neg then pow2 63 else 0
  let low := r.map lower
  if low = [105, 110, 102] || low = [105, 110, 102, 105, 110, 105, 116, 121] then some (sign + 2047 * pow2 52)
  else if low = [110, 97, 110] then some (sign + 2047 * pow2 52 + pow2 51)
  else
    let (ip, r1) := spanDigits r
    let (fp, r2, dot) := match r1 with
      | c :: r' => if c = 46 then let (f, r'') := spanDigits r'; (f, r'', true) else ([], r1, false)
      | [] => ([], [], false)
    if ip.isEmpty && fp.isEmpty then none else
    let expo : Option (Int × List Nat) := match r2 with
      | c :: r' =>
        if c = 101 || c = 69 then
          let (eneg, r'') := match r' with
            | s :: q => if s = 45 then (true, q) else if s = 43 then (false, q) else (false, r')
            | [] => (false, [])
          let (ed, r3) := spanDigits r''
          if ed.isEmpty then none else some ((if eneg then -(digitsNat ed : Int) else (digitsNat ed : Int)), r3)
        else some (0, r2)
      | [] => some (0, [])
    let _ := dot
    match expo with
    | none => none
    | some (e10, rest) =>
      if !rest.isEmpty then none else
      let m := digitsNat (ip ++ fp)
      let e : Int := e10 - (fp.length : Int)
      if m = 0 then some sign
      else
        let nd : Int := ((ip ++ fp).dropWhile (· == 48)).length
        if nd + e > 400 then some (sign + 2047 * pow2 52)
        else if nd + e < -400 then some sign
        else if e ≥ 0 then some (sign + ratToBits (m * 10 ^ e.toNat) 1)
        else some (sign + ratToBits m (10 ^ (-e).toNat))

/-- the decidable per-literal check behind the float text assumption: `float(t)` is the double with bit
    pattern `b`, and `t` consists of printable non-blank ASCII characters other than `"` and `\` -/
def floatLitOK (b : Nat) (t : List Nat) : Bool :=
  parseFloat t == some b && t.all (fun c => 33 ≤ c && c < 127 && c != 34 && c != 92) && !t.isEmpty

/-! ### whole binary files at the level of compiled tags: `BinaryTagWriter.write_tag` for every tag and
    `tag_compiler(binary_tags_loader(data))`.  `enc`/`dec` = the text codec of string values (C09's subject) -/

def encV (enc : List Nat → List Nat) : Val → Val
  | .str s => .str (enc s)
  | v => v

def decV (dec : List Nat → List Nat) : Val → Val
  | .str bs => .str (dec bs)
  | v => v

/-- `write_tag(tag)` for every tag: a vertex is written as its component tags (`write_tag2(code + 10 i, x)`) -/
def binWrite (r12 : Bool) (enc : List Nat → List Nat) (ts : List (CTag Val)) : Except PyErr (List Nat) :=
  encAll r12 ((flattenW ts).map fun p => ⟨p.1, encV enc p.2⟩)

/-- `tag_compiler` on an already typed value (the binary loader delivers int/float/str/bytes objects):
    `float(float)`, `int(int)`, `str(str)` are identities, code-0 strings are stripped -/
def typeSingleV (c : Nat) (v : Val) : Except TErr Val :=
  if isBinary c then (match v with | .bin d => .ok (.bin d) | _ => .error .unsupported)
  else if isDouble c then (match v with | .dbl b => .ok (.dbl b) | _ => .error .unsupported)
  else if isIntCode c then (match v with | .int i => .ok (.int i) | _ => .error .unsupported)
  else match v with
    | .str s => .ok (.str (if c = 0 then strip s else s))
    | _ => .error .unsupported

def typePointV : List Val → Except TErr (List Val)
  | [] => .ok []
  | .dbl b :: r => (fun vs => Val.dbl b :: vs) <$> typePointV r
  | _ :: _ => .error .unsupported

def typeTagV : CTag Val → Except TErr (CTag Val)
  | .single c v => (fun w => CTag.single c w) <$> typeSingleV c v
  | .point c xs => (fun vs => CTag.point c vs) <$> typePointV xs

def typeAllV : List (CTag Val) → Except TErr (List (CTag Val))
  | [] => .ok []
  | t :: r => do
    let v ← typeTagV t
    let vs ← typeAllV r
    .ok (v :: vs)

/-- `tag_compiler(binary_tags_loader(data))` on the tag bytes after signature and header scan -/
def binLoad (r12 : Bool) (dec : List Nat → List Nat) (bytes : List Nat) : Except TErr (List (CTag Val)) :=
  match decAll r12 (bytes.length + 1) bytes with
  | .error _ => .error .structure
  | .ok bts =>
    match compile isPoint (bts.map fun t => (t.code, decV dec t.val)) with
    | .error _ => .error .structure
    | .ok cs => typeAllV cs

end EzdxfVerif.AsciiTags

/-
Structural part of `Auditor.run` on the document state machine (Model/Doc.lean), for C06:
  1. `BlocksSection.audit`: a live entity listed in an entity space whose `dxf.owner` is not that
     block record is removed from the space (not destroyed: it may belong to another block);
  2. `audit_all_database_entities`: `check_owner_exist` (owner handle not in the entity database,
     `None` for unlinked entities included) and `Insert.audit` (undefined block) put the entity
     into the trashcan;
  3. `empty_trashcan`: trashed entities are destroyed and removed from the database.
Damaged states are ordinary `State`s (owners may dangle, entities may be listed twice, ...).
Core Lean only.
-/
import EzdxfVerif.Model.Doc

namespace EzdxfVerif.Doc

-- `ownerOf`, `keepInSpace`, `auditSpaces`, `spaceFixes`, `ownerExists`, `blockDefined`, `trashed`, `auditEntities`,
-- `entityFixes`, `auditGroups`, `groupFixes` and `audit` live in Model/Doc.lean (audit is also a history step).

/-! ### in-memory damage used by the correspondence (what a loader can produce from a damaged file) -/

/-- overwrite `dxf.owner` only -/
def dmgOwner (s : State) (e : Nat) (o : Option Nat) : State :=
  { s with ents := setEnt s.ents e (fun x => { x with owner := o }) }

/-- list an entity in a further entity space without touching its owner -/
def dmgAppend (s : State) (k e : Nat) : State :=
  { s with spaces := setSpace s.spaces k (· ++ [e]) }

/-- what "valid" means for the no-false-positive clause: every live database entity is linked to an
    existing block record and is listed there, block references are defined, every group is non-empty with
    live members that lie on one (model/paper space) layout, no `*Paper_Space…` block record is without a layout, and an active paperspace layout exists if any paperspace layout does -/
def AuditClean (s : State) : Prop :=
  (∀ p ∈ s.spaces, ∀ h ∈ p.2, keepInSpace s p.1 h = true) ∧ (∀ e ∈ s.ents, trashed s e = false) ∧
  (∀ g ∈ s.groups, g.2.2.all (validMember s) = true ∧ sameLayout s g.2.2 = true ∧ g.2.2.isEmpty = false) ∧
  orphanBlocks s = [] ∧ needRestore s = false

instance (s : State) : Decidable (AuditClean s) := by
  unfold AuditClean; exact inferInstance

end EzdxfVerif.Doc

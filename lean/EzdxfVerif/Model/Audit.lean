/-
Structural part of `Auditor.run` on the document state machine (Model/Doc.lean), for C06:
  1. `BlocksSection.audit`: a live entity listed in an entity space whose `dxf.owner` is not that
     block record is removed from the space (not destroyed: it may belong to another block);
  2. `audit_all_database_entities`: `check_owner_exist` (owner handle not in the entity database,
     `None` for unlinked entities included) and `Insert.audit` (undefined block) put the entity
     into the trashcan;
  3. `empty_trashcan`: trashed entities are destroyed and removed from the database.
Damaged states are ordinary `State`s (owners may dangle, entities may be listed twice, ...).
Core Lean only.
-/
import EzdxfVerif.Model.Doc

namespace EzdxfVerif.Doc

def ownerOf (s : State) (h : Nat) : Option Nat :=
  match findEnt s h with | some e => e.owner | none => none

/-- step 1 on one space: keep dead entries (they are skipped), keep live entries owned by `k` -/
def keepInSpace (s : State) (k h : Nat) : Bool := !isAlive s h || ownerOf s h == some k

def auditSpaces (s : State) : State :=
  { s with spaces := s.spaces.map (fun p => (p.1, p.2.filter (keepInSpace s p.1))) }

def spaceFixes (s : State) : Nat :=
  (s.spaces.map (fun p => (p.2.filter (fun h => !keepInSpace s p.1 h)).length)).sum

/-- the block record `k` is in the entity database: it is a block record of the table -/
def ownerExists (s : State) (o : Option Nat) : Bool :=
  match o with | some k => (spaceOf s k).isSome | none => false

def blockDefined (s : State) (r : Option Str) : Bool :=
  match r with | some n => (blockBr s (lower n)).isSome | none => true

/-- step 2: which database entities are trashed -/
def trashed (s : State) (e : Ent) : Bool :=
  e.alive && e.indb && (!ownerExists s e.owner || !blockDefined s e.ref)

def auditEntities (s : State) : State :=
  { s with ents := s.ents.map (fun e => if trashed s e then { e with alive := false, indb := false } else e) }

/-- both checks report their own fix for the same entity (`check_owner_exist`, then `Insert.audit`) -/
def entityFixes (s : State) : Nat :=
  (s.ents.filter (fun e => e.alive && e.indb && !ownerExists s e.owner)).length +
  (s.ents.filter (fun e => e.alive && e.indb && !blockDefined s e.ref)).length

/-- the modelled part of `doc.audit()`: (new state, number of applied fixes) -/
def audit (s : State) : State × Nat :=
  let s1 := auditSpaces s
  (auditEntities s1, spaceFixes s + entityFixes s1)

/-! ### in-memory damage used by the correspondence (what a loader can produce from a damaged file) -/

/-- overwrite `dxf.owner` only -/
def dmgOwner (s : State) (e : Nat) (o : Option Nat) : State :=
  { s with ents := setEnt s.ents e (fun x => { x with owner := o }) }

/-- list an entity in a further entity space without touching its owner -/
def dmgAppend (s : State) (k e : Nat) : State :=
  { s with spaces := setSpace s.spaces k (· ++ [e]) }

/-- what "valid" means for the no-false-positive clause: every live database entity is linked to an
    existing block record and is listed there, and block references are defined -/
def AuditClean (s : State) : Prop :=
  (∀ p ∈ s.spaces, ∀ h ∈ p.2, keepInSpace s p.1 h = true) ∧ (∀ e ∈ s.ents, trashed s e = false)

instance (s : State) : Decidable (AuditClean s) := by
  unfold AuditClean; exact inferInstance

end EzdxfVerif.Doc

/-
Model of the DXF tag codecs: `lldxf/types.py` (group-code classes, DXFTag/DXFVertex/DXFBinaryTag.dxfstr),
`lldxf/tagwriter.py` (BinaryTagWriter.write_tag2 / _write_binary_chunks), `lldxf/tagger.py`
(binary_tags_loader, ascii_tags_loader value typing, tag_compiler point handling).
Core Lean only.  Bytes and code points are `Nat`; doubles are opaque 64-bit patterns (`Nat < 2^64`).
-/
namespace EzdxfVerif.Codec

inductive PyErr where
  | overflowError | indexError | valueError | structError | dxfStructureError
  deriving Repr, DecidableEq

/-! ### group-code classes (mirror of the sets in types.py; tied to the source by Gen/TagTables) -/

inductive Cls where
  | bytes | int16 | int32 | int64 | double | binary | str
  deriving Repr, DecidableEq

def Cls.toNat : Cls → Nat
  | .bytes => 0 | .int16 => 1 | .int32 => 2 | .int64 => 3 | .double => 4 | .binary => 5 | .str => 6

def inR (c lo hi : Nat) : Bool := lo ≤ c && c < hi

def isBinary (c : Nat) : Bool := inR c 310 320 || c == 1004
def isBytes (c : Nat) : Bool := inR c 290 300
def isInt16 (c : Nat) : Bool :=
  inR c 60 80 || inR c 170 180 || inR c 270 290 || inR c 370 390 || inR c 400 410 || inR c 1060 1071
def isInt32 (c : Nat) : Bool := inR c 90 100 || inR c 420 430 || inR c 440 460 || c == 1071
def isInt64 (c : Nat) : Bool := inR c 160 170
def isDouble (c : Nat) : Bool :=
  inR c 10 60 || inR c 110 150 || inR c 210 240 || inR c 460 470 || inR c 1010 1060
def isPoint (c : Nat) : Bool :=
  inR c 10 19 || inR c 110 113 || inR c 210 214 || inR c 1010 1014

/-- the class chosen by `BinaryTagWriter.write_tag2`: BINARY_DATA first, then BYTES, INT16, INT32,
    INT64, DOUBLE, else string -/
def writerCls (c : Nat) : Cls :=
  if isBinary c then .binary else if isBytes c then .bytes else if isInt16 c then .int16
  else if isInt32 c then .int32 else if isInt64 c then .int64 else if isDouble c then .double else .str

/-- the class chosen by `binary_tags_loader`: BINARY_DATA, INT16, DOUBLE, INT32, INT64, BYTES, else string -/
def loaderCls (c : Nat) : Cls :=
  if isBinary c then .binary else if isInt16 c then .int16 else if isDouble c then .double
  else if isInt32 c then .int32 else if isInt64 c then .int64 else if isBytes c then .bytes else .str

/-! ### little-endian integers -/

def leBytes : Nat → Nat → List Nat
  | 0, _ => []
  | w + 1, n => (n % 256) :: leBytes w (n / 256)

def leVal : List Nat → Nat
  | [] => 0
  | b :: bs => b + 256 * leVal bs

/-- `int(v).to_bytes(w, "little", signed=True)` -/
def encSigned (w : Nat) (v : Int) : Except PyErr (List Nat) :=
  if -(2 : Int) ^ (8 * w - 1) ≤ v ∧ v < (2 : Int) ^ (8 * w - 1) then
    .ok (leBytes w (v % (2 : Int) ^ (8 * w)).toNat)
  else .error .overflowError

/-- `struct.unpack("<h"|"<i"|"<q")` on exactly `w` bytes -/
def decSigned (w : Nat) (bs : List Nat) : Int :=
  let u : Int := leVal bs
  if u ≥ (2 : Int) ^ (8 * w - 1) then u - (2 : Int) ^ (8 * w) else u

/-- `int(v).to_bytes(1, "little")` (unsigned) -/
def encByte (v : Int) : Except PyErr (List Nat) :=
  if 0 ≤ v ∧ v < 256 then .ok [v.toNat] else .error .overflowError

/-! ### binary chunks (`_write_binary_chunks`, CHUNK_SIZE = 127) -/

def chunks (n : Nat) (h : 0 < n) (d : List Nat) : List (List Nat) :=
  if hd : d = [] then [] else d.take n :: chunks n h (d.drop n)
termination_by d.length
decreasing_by
  have : 0 < d.length := List.length_pos_iff.mpr hd
  simp only [List.length_drop]; omega

/-- the chunks `_write_binary_chunks` writes: an empty payload is ONE chunk of size 0 (after the fix of
    the vanishing empty binary tag, F17), otherwise `chunks 127` -/
def binChunks (d : List Nat) : List (List Nat) :=
  if d = [] then [[]] else chunks 127 (by decide) d

/-! ### group code framing -/

/-- group code bytes of `write_tag2` (non-binary tags).  R12: one byte for codes < 255, the marker 0xFF and a
    2-byte code for every other code (after the fix of F7; before it the marker was written for codes
    >= 1000 only, see `encCodeLegacy`) -/
def encCode (r12 : Bool) (code : Nat) : Except PyErr (List Nat) :=
  if r12 then
    if code ≥ 255 then
      if code < 65536 then .ok (255 :: leBytes 2 code) else .error .overflowError
    else .ok [code]
  else if code < 65536 then .ok (leBytes 2 code) else .error .overflowError

/-- the group code bytes before the fix of F7 (kept to document the defect) -/
def encCodeLegacy (r12 : Bool) (code : Nat) : Except PyErr (List Nat) :=
  if r12 then
    if code ≥ 1000 then
      if code < 65536 then .ok (255 :: leBytes 2 code) else .error .overflowError
    else if code < 256 then .ok [code] else .error .overflowError
  else if code < 65536 then .ok (leBytes 2 code) else .error .overflowError

/-- group code decoding of `binary_tags_loader`: (code, rest) -/
def decCode (r12 : Bool) (bs : List Nat) : Except PyErr (Nat × List Nat) :=
  match bs with
  | [] => .error .indexError
  | c :: r =>
    if r12 then
      if c = 255 then
        match r with
        | lo :: hi :: r2 => .ok (hi * 256 + lo, r2)
        | _ => .error .indexError
      else .ok (c, r)
    else
      match r with
      | hi :: r2 => .ok (hi * 256 + c, r2)
      | [] => .error .indexError

/-! ### one binary tag -/

inductive Val where
  | str (bs : List Nat)      -- the *encoded* bytes of a string value (the text codec is C09's model)
  | int (v : Int)
  | dbl (bits : Nat)         -- IEEE-754 pattern, `struct.pack("<d")` is taken as the identity on patterns
  | bin (data : List Nat)
  deriving Repr, DecidableEq

structure BTag where
  code : Nat
  val : Val
  deriving Repr, DecidableEq

/-- `write_tag2(code, value)` for a value of the class the code prescribes -/
def encTag (r12 : Bool) (t : BTag) : Except PyErr (List Nat) :=
  match writerCls t.code, t.val with
  | .binary, .bin data =>
    -- _write_binary_chunks: marker for R12 (codes >= 255, i.e. every binary data code), always 2-byte code
    if t.code < 65536 then
      .ok ((binChunks data).flatMap fun ch =>
        (if r12 ∧ t.code ≥ 255 then [255] else []) ++ leBytes 2 t.code ++ [ch.length] ++ ch)
    else .error .overflowError
  | .bytes, .int v => do let c ← encCode r12 t.code; let b ← encByte v; .ok (c ++ b)
  | .int16, .int v => do let c ← encCode r12 t.code; let b ← encSigned 2 v; .ok (c ++ b)
  | .int32, .int v => do let c ← encCode r12 t.code; let b ← encSigned 4 v; .ok (c ++ b)
  | .int64, .int v => do let c ← encCode r12 t.code; let b ← encSigned 8 v; .ok (c ++ b)
  | .double, .dbl bits => do let c ← encCode r12 t.code; .ok (c ++ leBytes 8 bits)
  | .str, .str bs => do let c ← encCode r12 t.code; .ok (c ++ bs ++ [0])
  | _, _ => .error .valueError                     -- value of the wrong Python type

/-- `data.index(b"\x00", start)`: (string bytes, rest after the NUL) -/
def cstr : List Nat → Except PyErr (List Nat × List Nat)
  | [] => .error .valueError
  | b :: r => if b = 0 then .ok ([], r) else do let (s, r') ← cstr r; .ok (b :: s, r')

def takeN (n : Nat) (bs : List Nat) : Except PyErr (List Nat × List Nat) :=
  if n ≤ bs.length then .ok (bs.take n, bs.drop n) else .error .structError

/-- one iteration of the `while index < data_length` loop: (tag, rest) -/
def decTag (r12 : Bool) (bs : List Nat) : Except PyErr (BTag × List Nat) := do
  let (code, r) ← decCode r12 bs
  match loaderCls code with
  | .binary =>
    match r with
    | [] => .error .indexError
    | len :: r2 => .ok (⟨code, .bin (r2.take len)⟩, r2.drop len)    -- slicing never raises
  | .int16 => do let (b, r2) ← takeN 2 r; .ok (⟨code, .int (decSigned 2 b)⟩, r2)
  | .double => do let (b, r2) ← takeN 8 r; .ok (⟨code, .dbl (leVal b)⟩, r2)
  | .int32 => do let (b, r2) ← takeN 4 r; .ok (⟨code, .int (decSigned 4 b)⟩, r2)
  | .int64 => do let (b, r2) ← takeN 8 r; .ok (⟨code, .int (decSigned 8 b)⟩, r2)
  | .bytes =>
    match r with
    | [] => .error .indexError
    | b :: r2 => .ok (⟨code, .int b⟩, r2)
  | .str => do let (s, r2) ← cstr r; .ok (⟨code, .str s⟩, r2)

/-- the `while index < data_length` loop of `binary_tags_loader` (one tag per unit of fuel) -/
def decAll (r12 : Bool) : Nat → List Nat → Except PyErr (List BTag)
  | 0, _ => .ok []
  | fuel + 1, bs =>
    if bs.isEmpty then .ok [] else do
      let (t, r) ← decTag r12 bs
      let ts ← decAll r12 fuel r
      .ok (t :: ts)

/-- `write_tag2` for every tag of a list, concatenated -/
def encAll (r12 : Bool) : List BTag → Except PyErr (List Nat)
  | [] => .ok []
  | t :: r => do
    let a ← encTag r12 t
    let b ← encAll r12 r
    .ok (a ++ b)

/-! ### `binary_tags_loader.scan_params`: which group-code width (and text encoding) the loader uses -/

/-- position of the first occurrence of `pat` (`bytes.index` without bounds); `none` = ValueError -/
def findSub (pat : List Nat) : List Nat → Option Nat
  | [] => if pat.isEmpty then some 0 else none
  | c :: r => if pat.isPrefixOf (c :: r) then some 0 else (findSub pat r).map (· + 1)

def sigBytes : List Nat :=
  [65, 117, 116, 111, 67, 65, 68, 32, 66, 105, 110, 97, 114, 121, 32, 68, 88, 70, 13, 10, 26, 0]
def bACADVER : List Nat := [36, 65, 67, 65, 68, 86, 69, 82]
def bAC1009 : List Nat := [65, 67, 49, 48, 48, 57]
def bSECTION : List Nat := [83, 69, 67, 84, 73, 79, 78]
def bHEADER : List Nat := [72, 69, 65, 68, 69, 82]

/-- the DXF version `scan_params` finds: `data.index(b"$ACADVER", 22, 1024) + 10`, one more if that byte is
    not 'A' (2-byte group code), then 6 bytes; "AC1009" when the variable is not found -/
def scanVersion (data : List Nat) : List Nat :=
  match findSub bACADVER ((data.take 1024).drop 22) with
  | none => bAC1009
  | some i =>
    let start := i + 22 + 10
    let start := if data.getD start 0 ≠ 65 then start + 1 else start
    (data.drop start).take 6

/-- lexicographic `a <= b` of byte/code point strings (Python str comparison) -/
def strLe : List Nat → List Nat → Bool
  | [], _ => true
  | _ :: _, [] => false
  | a :: r, b :: q => if a < b then true else if a = b then strLe r q else false

/-- `r12 = dxfversion <= "AC1009"` as the LOADER decides it -/
def loaderR12 (data : List Nat) : Bool := strLe (scanVersion data) bAC1009
/-- `self._r12 = self.dxfversion <= "AC1009"` as the WRITER decides it -/
def writerR12 (version : List Nat) : Bool := strLe version bAC1009

/-- the first tags of every binary DXF file ezdxf writes: (0, SECTION) (2, HEADER) (9, $ACADVER) (1, version) -/
def headTags (version : List Nat) : List BTag :=
  [⟨0, .str bSECTION⟩, ⟨2, .str bHEADER⟩, ⟨9, .str bACADVER⟩, ⟨1, .str version⟩]

/-! ### decimal text of integers (`"%3d" % code`, `"%s" % int`, `int(text)`) and hex text -/

def digitChar (d : Nat) : Nat := 48 + d

def natDigits (n : Nat) : List Nat :=
  if h : n < 10 then [digitChar n] else natDigits (n / 10) ++ [digitChar (n % 10)]
termination_by n
decreasing_by omega

/-- `str(int)` as code points -/
def showInt (v : Int) : List Nat :=
  if v < 0 then 45 :: natDigits v.natAbs else natDigits v.natAbs

/-- `"%3d" % code` -/
def showCode (c : Nat) : List Nat :=
  let d := natDigits c
  List.replicate (3 - d.length) 32 ++ d

def digitsVal : List Nat → Nat → Option Nat
  | [], acc => some acc
  | c :: r, acc => if 48 ≤ c ∧ c ≤ 57 then digitsVal r (acc * 10 + (c - 48)) else none

/-- `int(text)` restricted to `[blank]* [+-]? digit+` (what a writer can produce); none = ValueError -/
def parseInt (s : List Nat) : Option Int :=
  let s := s.dropWhile (· = 32)
  match s with
  | [] => none
  | c :: r =>
    if c = 45 then (match r with | [] => none | _ => (digitsVal r 0).map (fun n => -(n : Int)))
    else if c = 43 then (match r with | [] => none | _ => (digitsVal r 0).map (fun n => (n : Int)))
    else (digitsVal s 0).map (fun n => (n : Int))

def hexDigit (n : Nat) : Nat := if n < 10 then 48 + n else 55 + n        -- upper case A-F

/-- `hexlify(data).upper()` -/
def hexlify : List Nat → List Nat
  | [] => []
  | b :: r => hexDigit (b / 16) :: hexDigit (b % 16) :: hexlify r

def unhexDigit (c : Nat) : Option Nat :=
  if 48 ≤ c ∧ c ≤ 57 then some (c - 48)
  else if 65 ≤ c ∧ c ≤ 70 then some (c - 55)
  else if 97 ≤ c ∧ c ≤ 102 then some (c - 87)
  else none

/-- `unhexlify(text)`; none = ValueError (odd length / non-hex digit) -/
def unhexlify : List Nat → Option (List Nat)
  | [] => some []
  | [_] => none
  | a :: b :: r => do
    let x ← unhexDigit a
    let y ← unhexDigit b
    let t ← unhexlify r
    some ((x * 16 + y) :: t)

/-! ### points: `DXFVertex.dxftags` (flatten) and `tag_compiler` (compile) -/

/-- compiled tag over uninterpreted values `α` -/
inductive CTag (α : Type) where
  | single (code : Nat) (v : α)
  | point (code : Nat) (xs : List α)
  deriving Repr, DecidableEq

def flattenPt {α : Type} (code : Nat) : List α → Nat → List (Nat × α)
  | [], _ => []
  | x :: xs, i => (code + i * 10, x) :: flattenPt code xs (i + 1)

def flatten {α : Type} : List (CTag α) → List (Nat × α)
  | [] => []
  | .single c v :: r => (c, v) :: flatten r
  | .point c xs :: r => flattenPt c xs 0 ++ flatten r

/-- `tag_compiler` restricted to the point logic (value typing is separate); `isPt` = POINT_CODES.
    After the fix of the trailing-2D-point defect `z = next(tags, None)`. -/
def compile {α : Type} (isPt : Nat → Bool) : List (Nat × α) → Except PyErr (List (CTag α))
  | [] => .ok []
  | (c, x) :: r =>
    if isPt c then
      match r with
      | [] => .ok []                                   -- `y = next(tags)`: StopIteration, x is dropped
      | (cy, y) :: r2 =>
        if cy ≠ c + 10 then .error .dxfStructureError
        else
          match r2 with
          | [] => .ok [.point c [x, y]]
          | (cz, z) :: r3 =>
            if cz = c + 20 then (fun ts => CTag.point c [x, y, z] :: ts) <$> compile isPt r3
            else (fun ts => CTag.point c [x, y] :: ts) <$> compile isPt ((cz, z) :: r3)   -- undo_tag
    else (fun ts => CTag.single c x :: ts) <$> compile isPt r
termination_by l => l.length
decreasing_by all_goals simp_wf <;> omega


/-! ### `internal_tag_compiler`: split the text at LF only (`str.split("\n")`, NOT `splitlines()`),
    drop the empty item after a trailing LF, pair up (code line, value line) -/

/-- `s.split("\n")` -/
def splitLF : List Nat → List (List Nat)
  | [] => [[]]
  | c :: r =>
    if c = 10 then [] :: splitLF r
    else match splitLF r with
      | [] => [[c]]                       -- unreachable: splitLF never returns []
      | l :: ls => (c :: l) :: ls

/-- lines as `internal_tag_compiler` sees them -/
def internalLines (s : List Nat) : List (List Nat) :=
  let ls := splitLF s
  if s.getLast? = some 10 then ls.dropLast else ls

/-- pair up lines: `none` = ValueError of `int(code line)` / IndexError of a missing value line -/
def pairLines : List (List Nat) → Option (List (Nat × List Nat))
  | [] => some []
  | [_] => none
  | c :: v :: r => do
    let code ← parseInt c
    if code < 0 then none else
    let rest ← pairLines r
    some ((code.toNat, v) :: rest)

/-- `"\n".join(lines)` -/
def joinLF : List (List Nat) → List Nat
  | [] => []
  | [l] => l
  | l :: r => l ++ 10 :: joinLF r

end EzdxfVerif.Codec

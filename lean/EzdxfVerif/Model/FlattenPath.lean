/-
FlattenPath: executable model of `ezdxf.path.Path` (path/path.py), of the curve adders of path/tools.py
(`add_bezier4p`, `add_bezier3p`, the curve assembly of `add_2d_polyline.bulge_to`) and of
`converter.from_vertices` (DESIGN.md section 7, C14, session 3).  Core Lean only.

Representation.  The code keeps three parallel lists (`_vertices`, `_commands`, `_start_index`) and the
flag `_has_sub_paths`.  The model keeps the start point and the list of path elements (what
`Path.__getitem__` / `Path.commands()` return) and DERIVES the three lists (`vertices`, `commands`,
`startIndex`): the correspondence stream X5 compares the derived lists with the private fields of the real
object after every operation of generated histories, so the element view is tied to the flat storage.

What is copied, branch for branch:
* `line_to`, `curve3_to`, `curve4_to`, `move_to` (first command: resets the start point; a `MOVE_TO`
  directly after a `MOVE_TO` replaces it), `close`, `close_sub_path`, `_start_of_last_sub_path`,
  `append_path_element`, `append_path`, `extend_multi_path`, `sub_paths`, `reversed`, `is_closed`, `end`;
* `Path._approximate` with the two curve callbacks of `Path.flattening` (`distance == 0.0` raises
  `ValueError` when the first curve is reached, `next(pts)` skips the first vertex of every curve);
* `tools.add_bezier4p` / `add_bezier3p` (reverse the whole chain when `path.end.isclose(last end)`,
  bridge with `LINE_TO` when a curve does not start at the path end, store a straight curve as `LINE_TO`),
  the assembly order of `bulge_to`, `converter.from_vertices`, `tools.to_multi_path`;
* the loop assembly of `converter.from_hatch_edge_path` (`edgeStep`, `edgeLoops`, `edgePath`).
-/
import EzdxfVerif.Model.Flatten
namespace EzdxfVerif.FlattenPath
open EzdxfVerif.Flatten

/-! ## path elements and the flat storage derived from them -/

/-- `LineTo(end)`, `Curve3To(end, ctrl)`, `Curve4To(end, ctrl1, ctrl2)`, `MoveTo(end)` of path/commands.py -/
inductive Elem (V : Type) where
  | lineTo (e : V)
  | curve3To (e ctrl : V)
  | curve4To (e c1 c2 : V)
  | moveTo (e : V)
deriving DecidableEq, Repr

namespace Elem
variable {V : Type}

/-- `.end` of the named tuples -/
def fin : Elem V → V
  | lineTo e => e
  | curve3To e _ => e
  | curve4To e _ _ => e
  | moveTo e => e

/-- `Command` enum value -/
def code : Elem V → Nat
  | lineTo _ => 1
  | curve3To _ _ => 2
  | curve4To _ _ _ => 3
  | moveTo _ => 4

def isMove : Elem V → Bool
  | moveTo _ => true
  | _ => false

/-- the vertices the adding method appends to `_vertices` (control points first, end point last) -/
def verts : Elem V → List V
  | lineTo e => [e]
  | curve3To e c => [c, e]
  | curve4To e c1 c2 => [c1, c2, e]
  | moveTo e => [e]

end Elem

/-- `CMD_SIZE` of path/path.py, by command code (0 for a value outside the enum) -/
def cmdSize (code : Nat) : Nat :=
  if code = 1 then 1 else if code = 2 then 2 else if code = 3 then 3 else if code = 4 then 1 else 0

/-- `make_vertex_index(command_codes)` of path/path.py -/
def makeVertexIndexFrom (start : Nat) : List Nat → List Nat
  | [] => []
  | c :: cs => start :: makeVertexIndexFrom (start + cmdSize c) cs

def makeVertexIndex (codes : List Nat) : List Nat := makeVertexIndexFrom 1 codes

structure Path (V : Type) where
  /-- `_vertices[0]` -/
  start : V
  /-- the path elements in order -/
  elems : List (Elem V)
  /-- the stored flag `_has_sub_paths` -/
  hasSub : Bool
deriving Repr

namespace Path
variable {V : Type}

/-- `Path(start)` -/
def new (start : V) : Path V := ⟨start, [], false⟩

/-- `_vertices` -/
def vertices (p : Path V) : List V := p.start :: p.elems.flatMap Elem.verts

/-- `_commands` -/
def commands (p : Path V) : List Nat := p.elems.map Elem.code

/-- `_start_index` as the adding methods fill it: `len(self._vertices)` at the time of the call -/
def startIndexFrom (n : Nat) : List (Elem V) → List Nat
  | [] => []
  | e :: es => n :: startIndexFrom (n + e.verts.length) es

def startIndex (p : Path V) : List Nat := startIndexFrom 1 p.elems

/-- `Path.end`: `_vertices[-1]` -/
def fin (p : Path V) : V := (p.elems.getLast?.map Elem.fin).getD p.start

/-- `len(path)` -/
def len (p : Path V) : Nat := p.elems.length

def lineTo (p : Path V) (v : V) : Path V := { p with elems := p.elems ++ [.lineTo v] }
def curve3To (p : Path V) (e ctrl : V) : Path V := { p with elems := p.elems ++ [.curve3To e ctrl] }
def curve4To (p : Path V) (e c1 c2 : V) : Path V := { p with elems := p.elems ++ [.curve4To e c1 c2] }

/-- `Path.move_to`: first command → only the start point moves (and the path stays a single path);
    otherwise a directly preceding `MOVE_TO` is replaced -/
def moveTo (p : Path V) (v : V) : Path V :=
  match p.elems.getLast? with
  | none => { p with start := v }
  | some (.moveTo _) => ⟨p.start, p.elems.dropLast ++ [.moveTo v], true⟩
  | some _ => ⟨p.start, p.elems ++ [.moveTo v], true⟩

/-- `Path.append_path_element` -/
def appendElem (p : Path V) : Elem V → Path V
  | .lineTo e => p.lineTo e
  | .moveTo e => p.moveTo e
  | .curve3To e c => p.curve3To e c
  | .curve4To e c1 c2 => p.curve4To e c1 c2

/-- `Path.is_closed` (`close` is `Vec3.isclose` with its defaults) -/
def isClosed (close : V → V → Bool) (p : Path V) : Bool :=
  match p.elems with
  | [] => false
  | _ => close p.start p.fin

/-- `Path.close` -/
def closeP (close : V → V → Bool) (p : Path V) : Path V :=
  if p.isClosed close then p else p.lineTo p.start

/-- `Path._start_of_last_sub_path`: the last `MOVE_TO` at a command index > 0 -/
def startOfLastSubPath (p : Path V) : Option V :=
  match p.elems with
  | [] => none
  | _ :: rest => (rest.reverse.find? Elem.isMove).map Elem.fin

/-- `Path.close_sub_path`; `none` is the `AssertionError` (flag set but no `MOVE_TO` found) -/
def closeSubPath (close : V → V → Bool) (p : Path V) : Option (Path V) :=
  if p.hasSub then
    match p.startOfLastSubPath with
    | none => none
    | some sp => some (if close p.fin sp then p else p.lineTo sp)
  else some (p.closeP close)

/-- `Path.sub_paths`: state = (finished sub-paths, current sub-path) -/
def subPathsGo : List (Path V) → Path V → List (Elem V) → List (Path V)
  | done, cur, [] => done ++ [cur]
  | done, cur, .moveTo e :: r => subPathsGo (done ++ [cur]) (new e) r
  | done, cur, el :: r => subPathsGo done (cur.appendElem el) r

def subPaths (p : Path V) : List (Path V) := subPathsGo [] (new p.start) p.elems

/-- `Path.extend_multi_path` -/
def extendMultiPath (p q : Path V) : Path V :=
  match q.elems with
  | [] => p
  | _ => q.elems.foldl appendElem (p.moveTo q.start)

/-- `Path.append_path` -/
def appendPath (close : V → V → Bool) (p q : Path V) : Path V :=
  match q.elems with
  | [] => p
  | _ =>
    let p1 := match p.elems with
      | [] => { p with start := q.start }
      | _ => if close p.fin q.start then p else p.lineTo q.start
    q.elems.foldl appendElem p1

/-- `tools.to_multi_path` -/
def toMultiPath (zero : V) (ps : List (Path V)) : Path V := ps.foldl extendMultiPath (new zero)

/-- the segments of a path: every element with the point it starts from -/
def segmentsFrom : V → List (Elem V) → List (V × Elem V)
  | _, [] => []
  | s, e :: es => (s, e) :: segmentsFrom e.fin es

/-- one reversed segment: same command, control points in reverse order, ends at the old start -/
def revSeg : V × Elem V → Elem V
  | (s, .lineTo _) => .lineTo s
  | (s, .moveTo _) => .moveTo s
  | (s, .curve3To _ c) => .curve3To s c
  | (s, .curve4To _ c1 c2) => .curve4To s c2 c1

/-- `Path.reversed`, element view: drop a trailing `MOVE_TO` (it would become a leading one, which only
    moves the start), then walk the segments backwards.  (The code reverses `_vertices` and `_commands`;
    `reversed_flat` in Lemmas/FlattenPath.lean proves that this is the same path.) -/
def reversed (p : Path V) : Path V :=
  match p.elems.getLast? with
  | none => p
  | some (.moveTo _) =>
    let es := p.elems.dropLast
    ⟨(es.getLast?.map Elem.fin).getD p.start, ((segmentsFrom p.start es).reverse.map revSeg), es.any Elem.isMove⟩
  | some _ => ⟨p.fin, ((segmentsFrom p.start p.elems).reverse.map revSeg), p.hasSub⟩

end Path

/-! ## `Path._approximate` / `Path.flattening` -/

inductive PErr where
  | curve (e : Err)   -- exception escaping from `Bezier3P/4P.flattening`
  | stopIteration     -- `next(pts)` on an exhausted iterator (RuntimeError inside a generator)
  | valueError        -- `distance == 0.0`
  | indexError        -- NumpyPath2d: `vertices[index]` / unpacking `vertices[index : index + k]` beyond the array
  | invalidCommand    -- NumpyPath2d: `raise ValueError(f"Invalid command: {cmd}")`
deriving DecidableEq, Repr

/-- what one pass through the loop body of `_approximate` yields for the element `el` that starts at `s`:
    the end point for `LINE_TO` / `MOVE_TO`, the vertices of the curve callback without the first one
    (`next(pts)  # skip first vertex`) for a curve -/
def elemPiece {V : Type} (curve3 : V → V → V → Except PErr (List V))
    (curve4 : V → V → V → V → Except PErr (List V)) (s : V) : Elem V → Except PErr (List V)
  | .lineTo e => .ok [e]
  | .moveTo e => .ok [e]
  | .curve3To e c =>
    match curve3 s c e with
    | .error x => .error x
    | .ok [] => .error .stopIteration
    | .ok (_ :: pts) => .ok pts
  | .curve4To e c1 c2 =>
    match curve4 s c1 c2 e with
    | .error x => .error x
    | .ok [] => .error .stopIteration
    | .ok (_ :: pts) => .ok pts

/-- the loop of `_approximate` after `yield start`; `curve3` / `curve4` are the callbacks; `start = end_location`
    at the end of the body -/
def approxElems {V : Type} (curve3 : V → V → V → Except PErr (List V))
    (curve4 : V → V → V → V → Except PErr (List V)) : V → List (Elem V) → Except PErr (List V)
  | _, [] => .ok []
  | s, el :: r =>
    match elemPiece curve3 curve4 s el with
    | .error x => .error x
    | .ok p =>
      match approxElems curve3 curve4 el.fin r with
      | .ok l => .ok (p ++ l)
      | .error x => .error x

/-- `Path._approximate`: nothing for a path without commands, else the start point and the loop -/
def approximate {V : Type} (curve3 : V → V → V → Except PErr (List V))
    (curve4 : V → V → V → V → Except PErr (List V)) (p : Path V) : Except PErr (List V) :=
  match p.elems with
  | [] => .ok []
  | _ =>
    match approxElems curve3 curve4 p.start p.elems with
    | .ok l => .ok (p.start :: l)
    | .error x => .error x

/-- how `Path.flattening` flattens ONE Bezier curve: which inner subdivision (`stackSub C fuel` for the
    pure Python twin, `recSub C (limit + 1)` for the Cython twin), the `isclose` tolerances of that twin,
    the outer fuel -/
structure FlatCfg where
  sub : (C : Curve V3) → Rat → V3 → Rat → V3 → Except Err (List (TV V3))
  relTol : Rat
  absTol : Rat
  fuel : Nat

/-- `Bezier4P((p0, p1, p2, p3)).flattening(distance, segments)` with parameters attached -/
def flatCurve4TV (cfg : FlatCfg) (d : Rat) (segments : Nat) (p0 p1 p2 p3 : V3) : Except Err (List (TV V3)) :=
  let C : Curve V3 := ⟨bez4Point p0 p1 p2 p3, midTest d⟩
  bezierFlat C (cfg.sub C) cfg.relTol cfg.absTol p0 p3 segments cfg.fuel

def flatCurve3TV (cfg : FlatCfg) (d : Rat) (segments : Nat) (p0 p1 p2 : V3) : Except Err (List (TV V3)) :=
  let C : Curve V3 := ⟨bez3Point p0 p1 p2, midTest d⟩
  bezierFlat C (cfg.sub C) cfg.relTol cfg.absTol p0 p2 segments cfg.fuel

/-- the callback `curve4` of `Path.flattening` -/
def flatCurve4 (cfg : FlatCfg) (d : Rat) (segments : Nat) (p0 p1 p2 p3 : V3) : Except PErr (List V3) :=
  if d = 0 then .error .valueError else
  match flatCurve4TV cfg d segments p0 p1 p2 p3 with
  | .ok tv => .ok (tv.map Prod.snd)
  | .error x => .error (.curve x)

def flatCurve3 (cfg : FlatCfg) (d : Rat) (segments : Nat) (p0 p1 p2 : V3) : Except PErr (List V3) :=
  if d = 0 then .error .valueError else
  match flatCurve3TV cfg d segments p0 p1 p2 with
  | .ok tv => .ok (tv.map Prod.snd)
  | .error x => .error (.curve x)

/-- `Path.flattening(distance, segments)` -/
def pathFlat (cfg : FlatCfg) (d : Rat) (segments : Nat) (p : Path V3) : Except PErr (List V3) :=
  approximate (flatCurve3 cfg d segments) (flatCurve4 cfg d segments) p

/-! ## path/tools.py: adding Bezier curves -/

/-- a cubic Bezier curve as its four control points (`Bezier4P.control_points`) -/
structure Cubic (V : Type) where
  p0 : V
  p1 : V
  p2 : V
  p3 : V
deriving DecidableEq, Repr

/-- `Bezier4P.reverse()` -/
def Cubic.rev {V : Type} (c : Cubic V) : Cubic V := ⟨c.p3, c.p2, c.p1, c.p0⟩

/-- `reverse_bezier_curves(curves)`: reversed list of reversed curves -/
def reverseCurves {V : Type} (cs : List (Cubic V)) : List (Cubic V) := (cs.map Cubic.rev).reverse

/-- the two comparisons `add_bezier4p` uses: `close` = `Vec3.isclose` with the default tolerances
    (connection tests), `exact` = `isclose(rel_tol=1e-15, abs_tol=0)` (straight line rule) -/
structure Tol (V : Type) where
  close : V → V → Bool
  exact : V → V → Bool

/-- loop body of `add_bezier4p` -/
def addCubic {V : Type} (tol : Tol V) (p : Path V) (c : Cubic V) : Path V :=
  let p1 := if tol.close c.p0 p.fin then p else p.lineTo c.p0
  if tol.exact c.p0 c.p1 && tol.exact c.p3 c.p2 then p1.lineTo c.p3 else p1.curve4To c.p3 c.p1 c.p2

/-- `tools.add_bezier4p(path, curves)` -/
def addBezier4p {V : Type} (tol : Tol V) (p : Path V) (cs : List (Cubic V)) : Path V :=
  match cs.getLast? with
  | none => p
  | some last =>
    let cs' := if tol.close p.fin last.p3 then reverseCurves cs else cs
    cs'.foldl (addCubic tol) p

structure Quad (V : Type) where
  p0 : V
  p1 : V
  p2 : V
deriving DecidableEq, Repr

def Quad.rev {V : Type} (c : Quad V) : Quad V := ⟨c.p2, c.p1, c.p0⟩
def reverseQuads {V : Type} (cs : List (Quad V)) : List (Quad V) := (cs.map Quad.rev).reverse

/-- loop body of `add_bezier3p` (its connection test uses the exact tolerances as well) -/
def addQuad {V : Type} (tol : Tol V) (p : Path V) (c : Quad V) : Path V :=
  let p1 := if tol.exact c.p0 p.fin then p else p.lineTo c.p0
  if tol.exact c.p0 c.p1 || tol.exact c.p2 c.p1 then p1.lineTo c.p2 else p1.curve3To c.p2 c.p1

/-- `tools.add_bezier3p(path, curves)` -/
def addBezier3p {V : Type} (tol : Tol V) (p : Path V) (cs : List (Quad V)) : Path V :=
  match cs.getLast? with
  | none => p
  | some last =>
    let cs' := if tol.close p.fin last.p2 then reverseQuads cs else cs
    cs'.foldl (addQuad tol) p

/-- `bulge_to` of `add_2d_polyline` after the trigonometry: `arcs` are the curve lists of the `num_bez`
    counter-clockwise sub-arcs in the order of increasing angle (`cubic_bezier_from_ellipse`); they are
    concatenated, the WHOLE chain is reversed when it starts at `p2`
    (`isclose(rel_tol=IS_CLOSE_TOL, abs_tol=0)` with `IS_CLOSE_TOL = 1e-10`: `closeRel`), then added -/
def bulgeTo {V : Type} (tol : Tol V) (closeRel : V → V → Bool) (p : Path V) (p2 : V)
    (arcs : List (List (Cubic V))) : Path V :=
  let curves := arcs.flatten
  match curves with
  | [] => p      -- `curves[0]` of an empty list: IndexError, not reachable (every sub-arc has ≥ 1 curve)
  | c0 :: _ =>
    let curves' := if closeRel c0.p0 p2 then reverseCurves curves else curves
    addBezier4p tol p curves'

/-- `converter.from_vertices(vertices, close)` -/
def fromVertices {V : Type} (close : V → V → Bool) (zero : V) (vs : List V) (closeFlag : Bool) : Path V :=
  match vs with
  | [] => Path.new zero
  | [_] => Path.new zero
  | v0 :: rest =>
    let p := rest.foldl (fun (p : Path V) v => if close p.fin v then p else p.lineTo v) (Path.new v0)
    if closeFlag then p.closeP close else p

/-- `tools.add_2d_polyline` for points WITHOUT bulges (what `to_lwpolylines`, `to_polylines2d` and polyline hatch
    boundaries of flattened paths contain), before the final `to_wcs`: the first point becomes the start, every
    further point a `LINE_TO` (no de-duplication), a closed polyline gets the closing line unless the end is
    already at the start (`isclose(rel_tol=IS_CLOSE_TOL, abs_tol=0)` = `closeRel`) -/
def polyline2dLines {V : Type} (closeRel : V → V → Bool) (zero : V) (pts : List V) (closeFlag : Bool) : Path V :=
  match pts with
  | [] => Path.new zero
  | p0 :: rest =>
    let p := rest.foldl (fun (p : Path V) v => p.lineTo v) (Path.new p0)
    if closeFlag && !(closeRel p.start p.fin) then p.lineTo p.start else p

/-! ## converter.from_hatch_edge_path: joining the edges of a HATCH / MPOLYGON edge path into loops -/

/-- loop state of `from_hatch_edge_path`: the finished loops (the code has already passed them to
    `path.extend_multi_path`, which is the only way `path` is ever changed) and the loop under construction -/
structure EdgeSt (V : Type) where
  done : List (Path V)
  loop : Option (Path V)

/-- one pass through the `for edge in edges` loop with the segment path of the edge (`None` segments are skipped by
    the caller): connect end-start, end-end (reversed segment), start-end (segment in front), start-start (reversed
    loop); otherwise a closed loop is finished and a new one starts, an open loop bridges the gap (issue #706) -/
def edgeStep {V : Type} (close : V → V → Bool) (st : EdgeSt V) (seg : Path V) : EdgeSt V :=
  match st.loop with
  | none => { st with loop := some seg }
  | some loop =>
    if close loop.fin seg.start then { st with loop := some (loop.appendPath close seg) }
    else if close loop.fin seg.fin then { st with loop := some (loop.appendPath close seg.reversed) }
    else if close loop.start seg.fin then { st with loop := some (seg.appendPath close loop) }
    else if close loop.start seg.start then { st with loop := some (loop.reversed.appendPath close seg) }
    else if loop.isClosed close then ⟨st.done ++ [loop], some seg⟩
    else { st with loop := some (loop.appendPath close seg) }

/-- all loops of an edge path: the last one is closed by `loop.close()` -/
def edgeLoops {V : Type} (close : V → V → Bool) (segs : List (Path V)) : List (Path V) :=
  let st := segs.foldl (edgeStep close) ⟨[], none⟩
  match st.loop with
  | none => st.done
  | some loop => st.done ++ [loop.closeP close]

/-- `from_hatch_edge_path` after the per-edge conversion: the multi-path of all loops -/
def edgePath {V : Type} (close : V → V → Bool) (zero : V) (segs : List (Path V)) : Path V :=
  Path.toMultiPath zero (edgeLoops close segs)

/-! ## `Path.transform(m)` / `Path.to_wcs`: a map applied to every control vertex -/

/-- an affine map `v ↦ M v + b`, rows `r1 r2 r3` of `M` -/
structure Affine where
  r1 : V3
  r2 : V3
  r3 : V3
  b : V3

def Affine.app (f : Affine) (v : V3) : V3 :=
  ⟨V3.dot f.r1 v + f.b.x, V3.dot f.r2 v + f.b.y, V3.dot f.r3 v + f.b.z⟩

/-- `MᵀM = 1`: the columns of `M` are orthonormal (rotations, reflections - every OCS - plus any translation) -/
structure Affine.IsIso (f : Affine) : Prop where
  c11 : f.r1.x * f.r1.x + f.r2.x * f.r2.x + f.r3.x * f.r3.x = 1
  c22 : f.r1.y * f.r1.y + f.r2.y * f.r2.y + f.r3.y * f.r3.y = 1
  c33 : f.r1.z * f.r1.z + f.r2.z * f.r2.z + f.r3.z * f.r3.z = 1
  c12 : f.r1.x * f.r1.y + f.r2.x * f.r2.y + f.r3.x * f.r3.y = 0
  c13 : f.r1.x * f.r1.z + f.r2.x * f.r2.z + f.r3.x * f.r3.z = 0
  c23 : f.r1.y * f.r1.z + f.r2.y * f.r2.z + f.r3.y * f.r3.z = 0

/-- `Path.transform(m)` / `Path.to_wcs`: the map applied to every control vertex -/
def Elem.mapV (g : V3 → V3) : Elem V3 → Elem V3
  | .lineTo e => .lineTo (g e)
  | .moveTo e => .moveTo (g e)
  | .curve3To e c => .curve3To (g e) (g c)
  | .curve4To e c1 c2 => .curve4To (g e) (g c1) (g c2)

def Path.mapV (g : V3 → V3) (p : Path V3) : Path V3 :=
  ⟨g p.start, p.elems.map (Elem.mapV g), p.hasSub⟩

/-! ## npshapes.NumpyPath2d: the second implementation of `Path` (same command stream, numpy storage)

The class stores `_vertices` (an n×2 array: start point and all control vertices) and `_commands` (int8 codes) and
walks both with a running `index`.  The model keeps the two arrays as lists; the running index is modelled by the
list of the rows that are still unread (`vertices[index:]`), so `vertices[index]` is its head and
`vertices[index : index + k]` its first `k` rows (an `IndexError` / unpacking `ValueError` when fewer are left). -/

structure NpPath (V : Type) where
  /-- rows of `_vertices` -/
  vertices : List V
  /-- `_commands` -/
  commands : List Nat
deriving Repr

/-- `NumpyPath2d(path)`: `control_vertices()` (or the start point alone for a path without commands) and
    `command_codes()`; `proj` is the projection `(v.x, v.y)` -/
def NpPath.ofPath {V : Type} (proj : V → V) (p : Path V) : NpPath V := ⟨p.vertices.map proj, p.commands⟩

/-- the `for cmd in self._commands` loop of `NumpyPath2d.flattening`: `start`, the unread rows, the unread commands.
    `LINE_TO` and `MOVE_TO` share one branch: `end_location = vertices[index]; index += 1; yield end_location`;
    every branch ends with `start = end_location`. -/
def npLoop {V : Type} (curve3 : V → V → V → Except PErr (List V))
    (curve4 : V → V → V → V → Except PErr (List V)) : V → List V → List Nat → Except PErr (List V)
  | _, _, [] => .ok []
  | start, vs, cmd :: cs =>
    if cmd = 1 ∨ cmd = 4 then
      match vs with
      | [] => .error .indexError
      | e :: vs' =>
        match npLoop curve3 curve4 e vs' cs with
        | .ok l => .ok (e :: l)
        | .error x => .error x
    else if cmd = 2 then
      match vs with
      | c :: e :: vs' =>
        match curve3 start c e with
        | .error x => .error x
        | .ok [] => .error .stopIteration
        | .ok (_ :: pts) =>
          match npLoop curve3 curve4 e vs' cs with
          | .ok l => .ok (pts ++ l)
          | .error x => .error x
      | _ => .error .indexError
    else if cmd = 3 then
      match vs with
      | c1 :: c2 :: e :: vs' =>
        match curve4 start c1 c2 e with
        | .error x => .error x
        | .ok [] => .error .stopIteration
        | .ok (_ :: pts) =>
          match npLoop curve3 curve4 e vs' cs with
          | .ok l => .ok (pts ++ l)
          | .error x => .error x
      | _ => .error .indexError
    else .error .invalidCommand

/-- `NumpyPath2d.flattening` with abstract curve callbacks: nothing without commands, else `vertices[0]` and the loop -/
def npApprox {V : Type} (curve3 : V → V → V → Except PErr (List V))
    (curve4 : V → V → V → V → Except PErr (List V)) (np : NpPath V) : Except PErr (List V) :=
  match np.commands with
  | [] => .ok []
  | _ =>
    match np.vertices with
    | [] => .error .indexError
    | s :: vs =>
      match npLoop curve3 curve4 s vs np.commands with
      | .ok l => .ok (s :: l)
      | .error x => .error x

/-- `Vec2(v)`: the projection to the xy-plane -/
def proj2 (v : V3) : V3 := ⟨v.x, v.y, 0⟩

/-- the curve callbacks of `NumpyPath2d.flattening`: `Vec2.generate(Bezier4P((start, ctrl1, ctrl2, end)).flattening(…))`
    - no `distance == 0.0` guard here, unlike `Path.flattening` -/
def npCurve4 (cfg : FlatCfg) (d : Rat) (segments : Nat) (p0 p1 p2 p3 : V3) : Except PErr (List V3) :=
  match flatCurve4TV cfg d segments p0 p1 p2 p3 with
  | .ok tv => .ok (tv.map (fun p => proj2 p.2))
  | .error x => .error (.curve x)

def npCurve3 (cfg : FlatCfg) (d : Rat) (segments : Nat) (p0 p1 p2 : V3) : Except PErr (List V3) :=
  match flatCurve3TV cfg d segments p0 p1 p2 with
  | .ok tv => .ok (tv.map (fun p => proj2 p.2))
  | .error x => .error (.curve x)

/-- `NumpyPath2d.flattening(distance, segments)` -/
def npFlat (cfg : FlatCfg) (d : Rat) (segments : Nat) (np : NpPath V3) : Except PErr (List V3) :=
  npApprox (npCurve3 cfg d segments) (npCurve4 cfg d segments) np

/-- `l[a:b]` -/
def slice {α : Type} (a b : Nat) (l : List α) : List α := (l.drop a).take (b - a)

/-- state of the loop of `NumpyPath2d.sub_paths`: `vtx_start_index, vtx_index, cmd_start_index, cmd_index`, result -/
structure NpSubSt (V : Type) where
  vtxStart : Nat
  vtx : Nat
  cmdStart : Nat
  cmd : Nat
  out : List (NpPath V)

/-- `append_sub_path()`: `vertices[vtx_start_index : vtx_index + 1]`, `commands[cmd_start_index : cmd_index]` -/
def npAppendSub {V : Type} (np : NpPath V) (st : NpSubSt V) : NpSubSt V :=
  { st with out := st.out ++ [⟨slice st.vtxStart (st.vtx + 1) np.vertices, slice st.cmdStart st.cmd np.commands⟩] }

def npSubStep {V : Type} (np : NpPath V) (st : NpSubSt V) (cmd : Nat) : NpSubSt V :=
  let st1 :=
    if cmd = 1 then { st with vtx := st.vtx + 1 }
    else if cmd = 2 then { st with vtx := st.vtx + 2 }
    else if cmd = 3 then { st with vtx := st.vtx + 3 }
    else if cmd = 4 then
      let s := npAppendSub np st
      { s with vtx := s.vtx + 1, vtxStart := s.vtx + 1, cmdStart := s.cmd + 1 }
    else st
  { st1 with cmd := st1.cmd + 1 }

/-- `NumpyPath2d.sub_paths()`: `[]` without commands, `[self]` without a `MOVE_TO`, else the index walk; the last
    sub-path is appended unless the path ends with a `MOVE_TO` -/
def npSubPaths {V : Type} (np : NpPath V) : List (NpPath V) :=
  match np.commands with
  | [] => []
  | _ =>
    if np.commands.contains 4 then
      let st := np.commands.foldl (npSubStep np) ⟨0, 0, 0, 0, []⟩
      if np.commands.getLast? = some 4 then st.out else (npAppendSub np st).out
    else [np]

/-- `NumpyPath2d.reverse()` (in place): `np.flip` of both arrays, a trailing `MOVE_TO` and its vertex dropped first -/
def npReverse {V : Type} (np : NpPath V) : NpPath V :=
  match np.commands.getLast? with
  | none => np
  | some c =>
    if c = 4 then ⟨np.vertices.dropLast.reverse, np.commands.dropLast.reverse⟩
    else ⟨np.vertices.reverse, np.commands.reverse⟩

/-- `NumpyPath2d.has_sub_paths`: `CMD_MOVE_TO in self._commands` (computed, not stored) -/
def NpPath.hasSub {V : Type} (np : NpPath V) : Bool := np.commands.contains 4

/-- `NumpyPath2d.extend(paths)` / `concatenate`: sequential paths are joined directly when the end point is `isclose`
    to the next start point, else by a `MOVE_TO`; paths without commands are skipped -/
def npExtendGo {V : Type} (close : V → V → Bool) : V → List V → List Nat → List (NpPath V) → NpPath V
  | _, vs, cs, [] => ⟨vs, cs⟩
  | fin, vs, cs, q :: r =>
    match q.commands, q.vertices with
    | [], _ => npExtendGo close fin vs cs r
    | _, [] => npExtendGo close fin vs cs r   -- not reachable: a path with commands has vertices
    | _, q0 :: qrest =>
      let qfin := (q.vertices.getLast?).getD q0
      if close fin q0 then npExtendGo close qfin (vs ++ qrest) (cs ++ q.commands) r
      else npExtendGo close qfin (vs ++ q.vertices) (cs ++ 4 :: q.commands) r

def npExtend {V : Type} (close : V → V → Bool) (self : NpPath V) (paths : List (NpPath V)) : NpPath V :=
  match paths with
  | [] => self
  | p0 :: rest =>
    let first := match self.commands with | [] => p0 | _ => self
    let others := match self.commands with | [] => rest | _ => paths
    match first.vertices with
    | [] => first   -- `first.end` of an empty array: IndexError, not reachable through the constructor
    | f0 :: _ => npExtendGo close ((first.vertices.getLast?).getD f0) first.vertices first.commands others

end EzdxfVerif.FlattenPath

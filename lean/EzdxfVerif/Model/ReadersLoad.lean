/-
C08  final round: `Drawing.load(tag_loader)` as the common back end of `Drawing.read` (= load ∘ ascii_tags_loader) and
`load_json_tags` (= load ∘ json_tag_loader): document.py `Drawing.read`, `Drawing.load`, `load_json_tags`.  Core Lean only.
-/
import EzdxfVerif.Model.Readers

namespace EzdxfVerif.Readers

/-- `Drawing.load(tag_loader)`: tag_compiler, load_dxf_structure, `_load_section_dict`; modelspace of the result -/
def loadModelspace (cfg : Cfg) (ts : List Tag) : Except Err (List Ent) :=
  match loadStructure (compile cfg ts) with
  | .ok d => dictModelspace cfg d
  | .error e => .error e

/-- `load_json_tags(data)` = `Drawing.load(json_tag_loader(data))` -/
def jsonModelspace (cfg : Cfg) (isPt : Nat → Bool) (j : List JTag) : Except Err (List Ent) :=
  loadModelspace cfg (jsonLoad isPt j)

/-! ## the generic export path of an entity: entities/dxfentity.py `DXFEntity.export_dxf` -/

/-- what `export_dxf` writes for one entity: `(0, DXFTYPE)`, then the tags of `export_base_class` (handle, app data,
    extension dictionary, reactors, owner), of `export_entity` (subclass markers and attributes) and of `export_xdata` -/
structure GenericRecord where
  type : String
  base : List Tag
  body : List Tag
  xdata : List Tag
  deriving Repr

def GenericRecord.group (g : GenericRecord) : Group := ⟨0, g.type⟩ :: (g.base ++ g.body ++ g.xdata)

/-- per-tag condition on what the three parts may contain: never a structure tag, a group code fileindex accepts, no
    comment -/
def attrTagOK (m : Nat) (t : Tag) : Bool := t.code != 0 && decide (t.code ≤ m) && t.code != 999

/-- per-record condition: the DXF type is a proper, unpadded upper-case type name and every tag is an attribute tag -/
def genericOK (cfg : Cfg) (m : Nat) (g : GenericRecord) : Bool :=
  g.type != "SECTION" && g.type != "ENDSEC" && g.type != "EOF"
    && cfg.strip g.type == g.type && cfg.upper (cfg.stripB g.type) == g.type
    && (g.base ++ g.body ++ g.xdata).all (attrTagOK m)
    && cfg.pspS g.group == cfg.psp g.group

end EzdxfVerif.Readers

/-
Model of the FRONT END of `ezdxf.recover.read()`:  bytes → lines → raw tags → repaired tags → compiled tags →
sections → section dict  (`recover.py`: bytes_loader, detect_encoding, safe_tag_loader, byte_tag_compiler,
Recover.rebuild_sections / load_section_dict / rebuild_tables / recover_rootdict / check_entities;
`lldxf/repair.py`: tag_reorder_layer, fix_coordinate_order, filter_invalid_point_codes, filter_invalid_handles;
`lldxf/validator.py`: entity_structure_validator; `lldxf/tags.py`: group_tags; `lldxf/encoding.py`:
has_dxf_unicode / decode_dxf_unicode).  Core Lean only.  Bytes are `List Nat`, strings are lists of code points.

Every Python operation of that path which can raise is a branch returning `Except PyErr`.  Four of them raised
something else than DXFStructureError before the fix commits 8e9a904c3, ebbd13340, c6ed255c5, 3fc8e70de; `Cfg`
selects, per defect, the behaviour before (`false`) or after (`true`) the fix.  `Cfg.tree` is the configuration
that `regenerate` probes from the current source: the theorems about the current code are stated for it, the
correspondence compares the model in it, and the pre-fix behaviour survives as counterexample theorems.

Python generators are lazy: an exception of `bytes_loader` is raised when the consumer reaches that position.
`RStream` = the tags delivered before + the terminal exception; the consumers below take it into account
(detect_encoding reads first, then byte_tag_compiler reads through the repair filters).

All recursion is structural on the input list (no fuel, no well-founded recursion).

Not modelled (see manifest): values of numbers / points / binary data (only whether their conversion raises),
MIF `\M+nXXXX` decoding, Unicode decimal digits in numbers, code pages other than cp1252 / utf8, the lists of
audit messages, everything behind `Drawing._load_section_dict`.
-/
import EzdxfVerif.Gen.RecoverTables
namespace EzdxfVerif.Recover
open EzdxfVerif.Gen.RecoverTables

abbrev Bytes := List Nat
abbrev Str := List Nat

inductive PyErr where
  | dxfStructureError | indexError | unicodeDecodeError | valueError | overflowError
  deriving DecidableEq, Repr

structure Cfg where
  fixSection : Bool    -- C07-1: load_section_dict guards `section[1]`
  fixErrMsg : Bool     -- C07-2: byte_tag_compiler.error_msg decodes with errors="replace"
  fixDetect : Bool     -- C07-3: detect_encoding decodes with errors="replace"
  fixUnicode : Bool    -- C07-4: encoding._decode only converts parts that match the pattern
  deriving DecidableEq, Repr

def Cfg.fixed : Cfg := ⟨true, true, true, true⟩
def Cfg.unfixed : Cfg := ⟨false, false, false, false⟩
/-- the configuration of the tree under test, probed from the current source by `regenerate` (Gen/RecoverTables) -/
def Cfg.tree : Cfg := ⟨treeFixSection, treeFixErrMsg, treeFixDetect, treeFixUnicode⟩

/-! ### string constants (code points) -/
def sSection : Str := [83, 69, 67, 84, 73, 79, 78]
def sEndsec : Str := [69, 78, 68, 83, 69, 67]
def sEof : Str := [69, 79, 70]
def sHeader : Str := [72, 69, 65, 68, 69, 82]
def sTables : Str := [84, 65, 66, 76, 69, 83]
def sBlocks : Str := [66, 76, 79, 67, 75, 83]
def sObjects : Str := [79, 66, 74, 69, 67, 84, 83]
def sEntities : Str := [69, 78, 84, 73, 84, 73, 69, 83]
def sClasses : Str := [67, 76, 65, 83, 83, 69, 83]
def sAcdsdata : Str := [65, 67, 68, 83, 68, 65, 84, 65]
def sTable : Str := [84, 65, 66, 76, 69]
def sEndtab : Str := [69, 78, 68, 84, 65, 66]
def sBlockRecord : Str := [66, 76, 79, 67, 75, 95, 82, 69, 67, 79, 82, 68]
def sDictionary : Str := [68, 73, 67, 84, 73, 79, 78, 65, 82, 89]
def sAcadGroup : Str := [65, 67, 65, 68, 95, 71, 82, 79, 85, 80]
def sVAcadver : Str := [36, 65, 67, 65, 68, 86, 69, 82]
def sVDwgcodepage : Str := [36, 68, 87, 71, 67, 79, 68, 69, 80, 65, 71, 69]
def sAc1009 : Str := [65, 67, 49, 48, 48, 57]
def sAc1021 : Str := [65, 67, 49, 48, 50, 49]
def sLine : Str := [76, 73, 78, 69]
def sDimstyle : Str := [68, 73, 77, 83, 84, 89, 76, 69]
def sXrecord : Str := [88, 82, 69, 67, 79, 82, 68]
def sEmbeddedObject : Str := [69, 109, 98, 101, 100, 100, 101, 100, 32, 79, 98, 106, 101, 99, 116]
def sInf : Str := [105, 110, 102]
def sInfinity : Str := [105, 110, 102, 105, 110, 105, 116, 121]
def sNan : Str := [110, 97, 110]

/-! ### character classes, `int()`, `float()` as total parsers -/
def isDigit (b : Nat) : Bool := 48 ≤ b && b ≤ 57
/-- `Py_ISSPACE` / `bytes.isspace` -/
def isSpaceB (b : Nat) : Bool := b == 32 || (9 ≤ b && b ≤ 13)
def isHexDigit (b : Nat) : Bool := isDigit b || (65 ≤ b && b ≤ 70) || (97 ≤ b && b ≤ 102)
def lowerA (b : Nat) : Nat := if 65 ≤ b && b ≤ 90 then b + 32 else b
def upperA (b : Nat) : Nat := if 97 ≤ b && b ≤ 122 then b - 32 else b

def rstripWith (p : Nat → Bool) (s : List Nat) : List Nat := (s.reverse.dropWhile p).reverse
def stripWith (p : Nat → Bool) (s : List Nat) : List Nat := rstripWith p (s.dropWhile p)
/-- `bytes.strip()` -/
def stripB (s : Bytes) : Bytes := stripWith isSpaceB s
/-- `str.strip()` -/
def stripS (s : Str) : Str := stripWith (fun c => strSpace.contains c) s

/-- what `int(str)` / `float(str)` strip: ASCII `Py_ISSPACE` plus the non-ASCII Unicode spaces (which
    `_PyUnicode_TransformDecimalAndSpaceToASCII` turns into blanks); U+001C..U+001F are NOT stripped -/
def stripNum (s : Str) : Str := stripWith (fun c => isSpaceB c || (c ≥ 128 && strSpace.contains c)) s

/-- digits with single underscores between digits (PEP 515), the whole input must be consumed;
    returns the digit characters.  `prev` = the previous character was a digit. -/
def digitsU (isD : Nat → Bool) : Bool → List Nat → Option (List Nat)
  | prev, [] => if prev then some [] else none
  | prev, b :: r =>
    if isD b then (digitsU isD true r).map (b :: ·)
    else if b == 95 && prev then
      match r with
      | d :: _ => if isD d then digitsU isD false r else none
      | [] => none
    else none

def splitSign : List Nat → Bool × List Nat
  | 45 :: r => (true, r)
  | 43 :: r => (false, r)
  | s => (false, s)

def decValue (ds : List Nat) : Nat := ds.foldl (fun a d => 10 * a + (d - 48)) 0
def hexDigitValue (d : Nat) : Nat := if isDigit d then d - 48 else if d ≥ 97 then d - 87 else d - 55
def hexValue (ds : List Nat) : Nat := ds.foldl (fun a d => 16 * a + hexDigitValue d) 0
def signed (neg : Bool) (n : Nat) : Int := if neg then -(n : Int) else (n : Int)

/-- sys.get_int_max_str_digits() -/
def maxStrDigits : Nat := 4300

/-- `int(s)` for an ASCII byte string / the ASCII part of a str (base 10); `none` = ValueError -/
def pyInt (s : List Nat) : Option Int :=
  let (neg, r) := splitSign (stripB s)
  match digitsU isDigit false r with
  | some ds => if ds.length > maxStrDigits then none else some (signed neg (decValue ds))
  | none => none

/-- `int(s, 16)`: optional sign, optional `0x` prefix followed by at most one underscore, no digit limit -/
def pyIntHex (s : List Nat) : Option Int :=
  let (neg, r) := splitSign (stripB s)
  let r := match r with
    | 48 :: x :: t => if x == 120 || x == 88 then (match t with | 95 :: t' => t' | _ => t) else r
    | _ => r
  (digitsU isHexDigit false r).map (fun ds => signed neg (hexValue ds))

/-- leftmost match of `[+-]?\d+` : (negative, digit run, text after the run) -/
def searchIntAt : List Nat → Option (Bool × List Nat × List Nat)
  | [] => none
  | b :: r =>
    if isDigit b then some (false, (b :: r).takeWhile isDigit, (b :: r).dropWhile isDigit)
    else if (b == 43 || b == 45) && (match r with | d :: _ => isDigit d | [] => false) then
      some (b == 45, r.takeWhile isDigit, r.dropWhile isDigit)
    else searchIntAt r

/-- `_search_int(s)`: `int(match)` or, without a match, `int(s)` (which then fails: no digit in `s`) -/
def searchInt (s : List Nat) : Option Int :=
  match searchIntAt s with
  | some (neg, ds, _) => if ds.length > maxStrDigits then none else some (signed neg (decValue ds))
  | none => pyInt s

/-- remove underscores the way `_Py_string_to_number_with_underscores` does: each one must stand between digits -/
def dropUnderscores : Nat → List Nat → Option (List Nat)
  | prev, [] => if prev == 95 then none else some []
  | prev, b :: r =>
    if b == 95 then (if isDigit prev then dropUnderscores b r else none)
    else if prev == 95 && !isDigit b then none
    else (dropUnderscores b r).map (b :: ·)

/-- `[eE][+-]?\d+` then end of input -/
def expOk : List Nat → Bool
  | [] => true
  | e :: r =>
    (e == 101 || e == 69) &&
      (let r := (splitSign r).2
       !r.isEmpty && r.all isDigit)

/-- the float grammar of `PyOS_string_to_double` (whole input): inf/infinity/nan or a decimal literal -/
def floatLit (s : List Nat) : Bool :=
  let r := (splitSign s).2
  let low := r.map lowerA
  if low == sInf || low == sInfinity || low == sNan then true
  else
    let d1 := r.takeWhile isDigit
    let r1 := r.dropWhile isDigit
    match r1 with
    | 46 :: r2 =>
      let d2 := r2.takeWhile isDigit
      (!d1.isEmpty || !d2.isEmpty) && expOk (r2.dropWhile isDigit)
    | _ => !d1.isEmpty && expOk r1

/-- `float(b)` succeeds -/
def pyFloatOk (s : List Nat) : Bool :=
  let t := stripB s
  if t.contains 95 then
    match dropUnderscores 0 t with
    | some t' => floatLit t'
    | none => false
  else floatLit t

/-! ### UTF-8 (decode with an error handler) and cp1252 -/
/-- lead byte: (continuation bytes needed, payload, allowed range of the next byte) -/
def u8Lead (b : Nat) : Option (Nat × Nat × Nat × Nat) :=
  if 194 ≤ b && b ≤ 223 then some (1, b - 192, 128, 191)
  else if 224 ≤ b && b ≤ 239 then some (2, b - 224, if b == 224 then 160 else 128, if b == 237 then 159 else 191)
  else if 240 ≤ b && b ≤ 244 then some (3, b - 240, if b == 240 then 144 else 128, if b == 244 then 143 else 191)
  else none

inductive U8 where
  | idle
  | pend (need acc lo hi : Nat) (raw : List Nat)

/-- byte-wise UTF-8 decoder; `f` renders the bytes of an undecodable range (errors=ignore: nothing,
    errors=surrogateescape: U+DC00+b each) -/
def utf8Go (f : List Nat → Str) : U8 → Bytes → Str
  | .idle, [] => []
  | .pend _ _ _ _ raw, [] => f raw.reverse
  | st, b :: r =>
    let (flush, cont) : Str × Bool := match st with
      | .idle => ([], false)
      | .pend _ _ lo hi raw => if lo ≤ b && b ≤ hi then ([], true) else (f raw.reverse, false)
    if cont then
      match st with
      | .pend need acc _ _ raw =>
        if need ≤ 1 then (acc * 64 + (b - 128)) :: utf8Go f .idle r
        else utf8Go f (.pend (need - 1) (acc * 64 + (b - 128)) 128 191 (b :: raw)) r
      | .idle => utf8Go f .idle r
    else if b < 128 then flush ++ b :: utf8Go f .idle r
    else match u8Lead b with
      | some (n, a, lo, hi) => flush ++ utf8Go f (.pend n a lo hi [b]) r
      | none => flush ++ f [b] ++ utf8Go f .idle r

def escBytes (raw : List Nat) : Str := raw.map (fun b => 0xDC00 + b)
/-- `b.decode("utf8", errors="ignore")` -/
def utf8Ignore (s : Bytes) : Str := utf8Go (fun _ => []) .idle s
/-- `b.decode("utf8", errors="surrogateescape")` -/
def utf8Esc (s : Bytes) : Str := utf8Go escBytes .idle s
/-- `b.decode("cp1252", errors="surrogateescape")` -/
def cp1252Esc (s : Bytes) : Str := s.map (fun b => cp1252Table.getD b (0xDC00 + b))
def isEscaped (c : Nat) : Bool := 0xDC80 ≤ c && c ≤ 0xDCFF

inductive Enc where
  | cp1252 | utf8 | other
  deriving DecidableEq, Repr

/-- `value.decode(encoding, errors="surrogateescape")`; code pages other than cp1252 are not modelled -/
def decodeEsc : Enc → Bytes → Str
  | .utf8, s => utf8Esc s
  | _, s => cp1252Esc s

/-- `value.decode(encoding)` (strict) does not raise -/
def strictOk (enc : Enc) (s : Bytes) : Bool := (decodeEsc enc s).all (fun c => !isEscaped c)

/-! ### `_search_float`, recover_int / recover_float -/
/-- after the digit run: would `float(match)` succeed, i.e. did the optional groups consume a colon?
    `colon` = the pattern still has the `(:?` typo -/
def floatTailOk (colon : Bool) (r : List Nat) : Bool :=
  -- group 1  (:?\.\d*)?
  let (bad1, r1) : Bool × List Nat := match r with
    | 58 :: 46 :: t => if colon then (true, t.dropWhile isDigit) else (false, r)
    | 46 :: t => (false, t.dropWhile isDigit)
    | _ => (false, r)
  -- group 2  (:?[eE][+-]?\d+)?
  let expAt (t : List Nat) : Bool := match t with
    | e :: u => (e == 101 || e == 69) && (match (splitSign u).2 with | d :: _ => isDigit d | [] => false)
    | [] => false
  let bad2 : Bool := match r1 with
    | 58 :: t => colon && expAt t
    | _ => false
  !bad1 && !bad2

def isWs6 (c : Nat) : Bool := c == 32 || (9 ≤ c && c ≤ 13)

/-- `recover_float(b)` does not raise ValueError -/
def recoverFloatOk (s : Bytes) : Bool :=
  let t := (utf8Ignore s).filter (fun c => !isWs6 c)
  match searchIntAt t with
  | some (_, _, rest) => floatTailOk floatPatternColon rest
  | none => floatLit (stripNum t)

/-- `recover_int(b)` does not raise ValueError -/
def recoverIntOk (s : Bytes) : Bool := (searchInt (utf8Ignore s)).isSome

/-- `unhexlify(b)` does not raise -/
def unhexOk (s : Bytes) : Bool := s.length % 2 == 0 && s.all isHexDigit

/-! ### lines and `bytes_loader` -/
def splitLinesAux : Bytes → Bytes → List Bytes
  | cur, [] => if cur.isEmpty then [] else [cur.reverse]
  | cur, b :: r => if b == 10 then (b :: cur).reverse :: splitLinesAux [] r else splitLinesAux (b :: cur) r

/-- successive `stream.readline()` results of a BytesIO (each line keeps its LF) -/
def splitLines (s : Bytes) : List Bytes := splitLinesAux [] s

structure RawTag where
  code : Int
  val : Bytes
  deriving DecidableEq, Repr

/-- tags delivered by a generator before it stops, and the exception that stopped it (if any) -/
structure RStream where
  tags : List RawTag
  err : Option PyErr
  deriving Repr

/-- group code line: `int(code)`, else `_search_int(code)`, else DXFStructureError -/
def parseCode (line : Bytes) : Option Int :=
  match pyInt line with
  | some c => some c
  | none => searchInt line

def rstripCRLF (s : Bytes) : Bytes := rstripWith (fun b => b == 13 || b == 10) s

def bytesLoader : List Bytes → RStream
  | [] => ⟨[], none⟩
  | [c] => match parseCode c with
    | none => ⟨[], some .dxfStructureError⟩
    | some _ => ⟨[], none⟩
  | c :: v :: rest =>
    match parseCode c with
    | none => ⟨[], some .dxfStructureError⟩
    | some code =>
      let value := rstripCRLF v
      let tl : RStream := if code == 0 && value == sEof then ⟨[], none⟩ else bytesLoader rest
      if code != 999 then ⟨⟨code, value⟩ :: tl.tags, tl.err⟩ else tl

/-! ### `detect_encoding` -/
def endsWith (s suf : List Nat) : Bool := suf.length ≤ s.length && s.drop (s.length - suf.length) == suf

/-- `toencoding`: 0 = cp1252, 1 = another code page -/
def toEncoding (s : Str) : Nat :=
  match codepageSuffixes.find? (fun p => endsWith s p.1) with
  | some p => p.2
  | none => 0

/-- lexicographic `a >= b` of str -/
def strGe : Str → Str → Bool
  | _, [] => true
  | [], _ :: _ => false
  | a :: x, b :: y => if a == b then strGe x y else a > b

def strLe (a b : Str) : Bool := strGe b a

/-- `value.decode("cp1252")`, after C07-3 with errors="replace" -/
def decodeDetect (cfg : Cfg) (v : Bytes) : Except PyErr Str :=
  if strictOk .cp1252 v then .ok (cp1252Esc v)
  else if cfg.fixDetect then .ok ((cp1252Esc v).map (fun c => if isEscaped c then 0xFFFD else c))
  else .error .unicodeDecodeError

/-- one loop iteration of `detect_encoding`.  `next`: 0 = None, 1 = $DWGCODEPAGE, 2 = $ACADVER;
    `enc` = result of toencoding once seen; `ver` = dxfversion -/
def detectUpd (cfg : Cfg) (enc : Option Nat) (ver : Option Str) (next : Nat) (t : RawTag) :
    Except PyErr (Option Nat × Option Str × Nat) :=
  if t.code == 9 then
    .ok (enc, ver, if t.val == sVDwgcodepage then 1 else if t.val == sVAcadver then 2 else next)
  else if t.code == 3 && next == 1 then
    match decodeDetect cfg t.val with
    | .error e => .error e
    | .ok s => .ok (some (toEncoding s), ver, 0)
  else if t.code == 1 && next == 2 then
    match decodeDetect cfg t.val with
    | .error e => .error e
    | .ok s => .ok (enc, some s, 0)
  else .ok (enc, ver, next)

/-- `if encoding and dxfversion: return ...` -/
def detectDone (enc : Option Nat) (ver : Option Str) : Option Enc :=
  match enc, ver with
  | some e, some v => if v.isEmpty then none else some (if strGe v sAc1021 then .utf8 else if e == 0 then .cp1252 else .other)
  | _, _ => none

/-- `term` = the exception that ends the tag stream (raised when the loop reaches the end) -/
def detectGo (cfg : Cfg) (term : Option PyErr) : Option Nat → Option Str → Nat → List RawTag → Except PyErr Enc
  | _, _, _, [] => match term with
    | some e => .error e
    | none => .ok .cp1252
  | enc, ver, next, t :: r =>
    match detectUpd cfg enc ver next t with
    | .error e => .error e
    | .ok (enc', ver', next') =>
      match detectDone enc' ver' with
      | some result => .ok result
      | none => detectGo cfg term enc' ver' next' r

def detectEncoding (cfg : Cfg) (s : RStream) : Except PyErr Enc := detectGo cfg s.err none none 0 s.tags

/-! ### repair filters (lldxf/repair.py) -/
/-- `_s(b)`: ascii decode, errors="ignore" -/
def s7 (b : Bytes) : Str := b.filter (· < 128)

def isCoordCode (c : Int) : Bool := c == 10 || c == 20 || c == 30 || c == 11 || c == 21 || c == 31

/-- `fix_coordinate_order(tags, codes=(10, 11))` -/
def fixCoordinateOrder (tags : List RawTag) : List RawTag :=
  let coords := tags.filter (fun t => isCoordCode t.code)
  if coords.isEmpty then tags
  else
    let remaining := tags.filter (fun t => !isCoordCode t.code)
    let insertPos := (tags.takeWhile (fun t => !isCoordCode t.code)).length
    let pick (c : Int) : List RawTag := ((coords.reverse.find? (fun t => t.code == c)).map (fun t => [t])).getD []
    let ordered := pick 10 ++ pick 20 ++ pick 30 ++ pick 11 ++ pick 21 ++ pick 31
    remaining.take insertPos ++ ordered ++ remaining.drop insertPos

/-- `tag_reorder_layer`; the collector (reversed) is not flushed at the end of the stream -/
def tagReorder : Option (List RawTag) → List RawTag → List RawTag
  | _, [] => []
  | col, t :: r =>
    if t.code == 0 then
      let flushed := match col with
        | some c => fixCoordinateOrder c.reverse
        | none => []
      if s7 t.val == sLine then flushed ++ tagReorder (some [t]) r
      else flushed ++ t :: tagReorder none r
    else match col with
      | some c => tagReorder (some (t :: c)) r
      | none => t :: tagReorder none r

def isPointCode (c : Int) : Bool := c ≥ 0 && pointCodes.contains c.toNat
def isInvalidCode (c : Int) : Bool := c ≥ 0 && invalidCodes.contains c.toNat
def isBinaryCode (c : Int) : Bool := c ≥ 0 && binaryCodes.contains c.toNat
def isIntCode (c : Int) : Bool := c ≥ 0 && intCodes.contains c.toNat
def isFloatCode (c : Int) : Bool := c ≥ 0 && floatCodes.contains c.toNat

/-- `filter_invalid_point_codes`; `point` is kept reversed; `flush` = the stream ended without an exception -/
def filterPoints (flush : Bool) : Int → Int → List RawTag → List RawTag → List RawTag
  | _, _, pt, [] => if flush && pt.length > 1 then pt.reverse else []
  | exp, z, pt, t :: r =>
    let code := t.code
    let brk := !pt.isEmpty && code != exp
    let out := if brk && pt.length > 1 then pt.reverse else []
    let pt := if brk then [] else pt
    if isPointCode code then out ++ filterPoints flush (code + 10) (code + 20) (t :: pt) r
    else if code == exp then
      let e := exp + 10
      out ++ filterPoints flush (if e > z then -1 else e) z (t :: pt) r
    else if !isInvalidCode code then out ++ t :: filterPoints flush exp z pt r
    else out ++ filterPoints flush exp z pt r

/-- `filter_invalid_handles` -/
def filterHandles : Int → List RawTag → List RawTag
  | _, [] => []
  | hc, t :: r =>
    if t.code == 0 then t :: filterHandles (if s7 t.val == sDimstyle then 105 else 5) r
    else if t.code == hc then
      if (pyIntHex t.val).isSome then t :: filterHandles hc r else filterHandles hc r
    else t :: filterHandles hc r

/-! ### `byte_tag_compiler` -/
inductive CVal where
  | str (s : Str)
  | num            -- int or float (value not modelled)
  | bin            -- DXFBinaryTag
  | vtx            -- DXFVertex
  deriving DecidableEq, Repr

structure CTag where
  code : Int
  val : CVal
  deriving DecidableEq, Repr

def isUHex (c : Nat) : Bool := isDigit c || (65 ≤ c && c ≤ 70)

/-- `\U+XXXX` (BACKSLASH_UNICODE) at the head: the code point -/
def matchU : Str → Option Nat
  | 92 :: 85 :: 43 :: a :: b :: c :: d :: _ =>
    if isUHex a && isUHex b && isUHex c && isUHex d then some (hexValue [a, b, c, d]) else none
  | _ => none

def hasDxfUnicode : Str → Bool
  | [] => false
  | c :: r => (matchU (c :: r)).isSome || hasDxfUnicode r

/-- `encoding._decode(part)` for a part of re.split that is not a match -/
def decodePart (cfg : Cfg) (part : Str) : Except PyErr Str :=
  match part with
  | 92 :: 85 :: 43 :: rest =>
    if cfg.fixUnicode then .ok part
    else match pyIntHex (stripNum rest) with
      | none => .error .valueError
      | some v =>
        if v > 2147483647 || v < -2147483648 then .error .overflowError
        else if v < 0 || v > 0x10FFFF then .error .valueError
        else .ok [v.toNat]
  | _ => .ok part

/-- `decode_dxf_unicode`: `skip` = characters of the current match still to drop, `acc` = current part (reversed) -/
def uScan (cfg : Cfg) : Nat → Str → Str → Except PyErr Str
  | _, acc, [] => decodePart cfg acc.reverse
  | skip + 1, acc, _ :: r => uScan cfg skip acc r
  | 0, acc, c :: r =>
    match matchU (c :: r) with
    | some v =>
      match decodePart cfg acc.reverse with
      | .error e => .error e
      | .ok p =>
        match uScan cfg 6 [] r with
        | .error e => .error e
        | .ok rest => .ok (p ++ v :: rest)
    | none => uScan cfg 0 (c :: acc) r

def decodeDxfUnicode (cfg : Cfg) (s : Str) : Except PyErr Str := uScan cfg 0 [] s

/-- string value of a tag -/
def compileStr (cfg : Cfg) (enc : Enc) (code : Int) (v : Bytes) : Except PyErr Str :=
  let value := if code == 0 then (stripB v).map upperA else v
  let s := decodeEsc enc value
  if code != 0 && hasDxfUnicode s then decodeDxfUnicode cfg s else .ok s

/-- `raise DXFStructureError(error_msg(x))` -/
def errorMsg (cfg : Cfg) (enc : Enc) (v : Bytes) : PyErr :=
  if cfg.fixErrMsg || strictOk enc v then .dxfStructureError else .unicodeDecodeError

def floatsOk (vs : List Bytes) : Bool := vs.all pyFloatOk || vs.all recoverFloatOk

def compileSingle (cfg : Cfg) (enc : Enc) (x : RawTag) : Except PyErr CTag :=
  if isBinaryCode x.code then
    if unhexOk x.val then .ok ⟨x.code, .bin⟩ else .error .dxfStructureError
  else if isIntCode x.code then
    if (pyInt x.val).isSome || recoverIntOk x.val then .ok ⟨x.code, .num⟩ else .error (errorMsg cfg enc x.val)
  else if isFloatCode x.code then
    if pyFloatOk x.val || recoverFloatOk x.val then .ok ⟨x.code, .num⟩ else .error (errorMsg cfg enc x.val)
  else (compileStr cfg enc x.code x.val).map (fun s => ⟨x.code, .str s⟩)

/-- state of the point assembly: nothing pending | x fetched | x and y fetched -/
inductive CP where
  | none
  | x (x : RawTag)
  | xy (x y : RawTag)

/-- a tag read at the top of the `while True` loop: start a point or compile a single tag -/
def compileStart (cfg : Cfg) (enc : Enc) (t : RawTag) : Except PyErr (List CTag × CP) :=
  if isPointCode t.code then .ok ([], .x t)
  else match compileSingle cfg enc t with
    | .error e => .error e
    | .ok c => .ok ([c], .none)

/-- one tag of the input: the tags yielded and the new state.  A 2D point followed by another tag `t`:
    the vertex is yielded and `t` (the `undo_tag`) is processed like a freshly read tag. -/
def compileStep (cfg : Cfg) (enc : Enc) (st : CP) (t : RawTag) : Except PyErr (List CTag × CP) :=
  match st with
  | .none => compileStart cfg enc t
  | .x x => if t.code != x.code + 10 then .error .dxfStructureError else .ok ([], .xy x t)
  | .xy x y =>
    if t.code == x.code + 20 then
      if floatsOk [x.val, y.val, t.val] then .ok ([⟨x.code, .vtx⟩], .none) else .error .dxfStructureError
    else if floatsOk [x.val, y.val] then
      match compileStart cfg enc t with
      | .error e => .error e
      | .ok p => .ok (⟨x.code, .vtx⟩ :: p.1, p.2)
    else .error .dxfStructureError

/-- `byte_tag_compiler`; at the end of the stream a pending x is dropped (StopIteration is swallowed); a pending
    (x, y) is a 2D point (`z = next(tags, None)`, fix of the trailing-2D-point defect, as in `tag_compiler`) -/
def compileGo (cfg : Cfg) (enc : Enc) : CP → List RawTag → Except PyErr (List CTag)
  | .xy x y, [] => if floatsOk [x.val, y.val] then .ok [⟨x.code, .vtx⟩] else .error .dxfStructureError
  | _, [] => .ok []
  | st, t :: r =>
    match compileStep cfg enc st t with
    | .error e => .error e
    | .ok (out, st') =>
      match compileGo cfg enc st' r with
      | .error e => .error e
      | .ok ts => .ok (out ++ ts)

def compile (cfg : Cfg) (enc : Enc) (tags : List RawTag) : Except PyErr (List CTag) := compileGo cfg enc .none tags

/-! ### `Recover.rebuild_sections` -/
structure RS where
  sections : List (List CTag)   -- reversed
  collector : List CTag          -- reversed
  inside : Bool
  orphans : List CTag            -- reversed
  deriving Repr

def RS.init : RS := ⟨[], [], false, []⟩

def RS.close (s : RS) : RS :=
  { s with sections := if s.inside then s.collector.reverse :: s.sections else s.sections,
           collector := [], inside := false }

def RS.collect (s : RS) (t : CTag) : RS :=
  if s.inside then { s with collector := t :: s.collector } else { s with orphans := t :: s.orphans }

def RS.step (s : RS) (t : CTag) : RS :=
  if t.code == 0 then
    if t.val == .str sSection then
      let s' := if s.inside then s.close else s
      { s' with collector := t :: s'.collector, inside := true }
    else if t.val == .str sEndsec then s.close
    else if t.val == .str sEof then (if s.inside then s.close else s)
    else s.collect t
  else s.collect t

def RS.finish (s : RS) : List (List CTag) := (s.orphans.reverse :: s.sections).reverse

/-- sections as tag lists, the last one holds the orphaned tags -/
def rebuildSections (tags : List CTag) : List (List CTag) := (tags.foldl RS.step RS.init).finish

/-! ### `group_tags(tags, 0)` -/
def groupGo : Option (List CTag) → List CTag → List (List CTag)
  | none, [] => []
  | some g, [] => [g.reverse]
  | cur, t :: r =>
    if t.code == 0 then
      (match cur with | some g => [g.reverse] | none => []) ++ groupGo (some [t]) r
    else groupGo (cur.map (t :: ·)) r

def groupTags (tags : List CTag) : List (List CTag) := groupGo none tags

/-! ### `Recover.load_section_dict` -/
abbrev RawDict := List (Str × List CTag)
abbrev SectionDict := List (Str × List (List CTag))

def addSection (d : RawDict) (name : Str) (tags : List CTag) : RawDict :=
  if d.any (fun e => e.1 == name) then d.map (fun e => if e.1 == name then (e.1, e.2 ++ tags.drop 2) else e)
  else d ++ [(name, tags)]

/-- one iteration of `for section in sections: code, name = section[1]; if code == 2: add_section(...)` -/
def collectStep (cfg : Cfg) (d : RawDict) (sec : List CTag) : Except PyErr RawDict :=
  match sec with
  | _ :: t1 :: _ =>
    (match t1.val with
     | .str name => if t1.code == 2 then .ok (addSection d name sec) else .ok d
     | _ => .ok d)
  | _ => if cfg.fixSection then .ok d else .error .indexError

def collectSections (cfg : Cfg) : RawDict → List (List CTag) → Except PyErr RawDict
  | d, [] => .ok d
  | d, sec :: r =>
    match collectStep cfg d sec with
    | .error e => .error e
    | .ok d' => collectSections cfg d' r

/-- `rescue_orphaned_header_vars`: the tags appended to the header -/
def rescueOrphans : Option CTag → List CTag → List CTag
  | _, [] => []
  | var, t :: r =>
    if t.code == 9 then rescueOrphans (some t) r
    else match var with
      | some v => v :: t :: rescueOrphans none r
      | none => rescueOrphans none r

def isAcVersion (v : Str) : Bool :=
  match v with
  | [65, 67, a, b, c, d] => isDigit a && isDigit b && isDigit c && isDigit d
  | _ => false

/-- `_detect_dxf_version` -/
def detectVersion : Bool → List CTag → Str
  | _, [] => sAc1009
  | true, t :: _ =>
    (match t.val with
     | .str s => if isAcVersion (stripS s) then stripS s else sAc1009
     | _ => sAc1009)
  | false, t :: r => detectVersion (t.code == 9 && t.val == .str sVAcadver) r

def secHead (name : Str) : List CTag := [⟨0, .str sSection⟩, ⟨2, .str name⟩]

/-- second half of `load_section_dict`: default HEADER, rescued header variables, version detection, removal of the
    sections R12 does not know, `_build_section_dict`.  Returns (dxfversion, Recover.section_dict). -/
def finishDict (d : RawDict) (orphans : List CTag) : Str × SectionDict :=
  let d := if d.any (fun e => e.1 == sHeader) then d else d ++ [(sHeader, secHead sHeader)]
  let d := d.map (fun e => if e.1 == sHeader then (e.1, e.2 ++ rescueOrphans none orphans) else e)
  let header := ((d.find? (fun e => e.1 == sHeader)).map (·.2)).getD []
  let version := detectVersion false header
  let d := if strLe version sAc1009 then
      d.filter (fun e => !(e.1 == sClasses || e.1 == sObjects || e.1 == sAcdsdata))
    else d
  (version, (d.filter (fun e => managedSections.contains e.1)).map (fun e => (e.1, groupTags e.2)))

/-- the sections to merge and the orphaned tags: `orphans = sections.pop()` and the test
    "the last section contains not the orphaned tags" (never true for the output of rebuild_sections) -/
def splitOrphans (sections : List (List CTag)) : List (List CTag) × List CTag :=
  let orphans0 := sections.getLast?.getD []
  let secs0 := sections.dropLast
  if orphans0.head? == some ⟨0, .str sSection⟩ then (secs0 ++ [orphans0], []) else (secs0, orphans0)

def loadSectionDict (cfg : Cfg) (sections : List (List CTag)) : Except PyErr (Str × SectionDict) :=
  match collectSections cfg [] (splitOrphans sections).1 with
  | .error e => .error e
  | .ok d => .ok (finishDict d (splitOrphans sections).2)

/-! ### `Recover.rebuild_tables` -/
def upperChar (c : Nat) : List Nat :=
  if c < 128 then [upperA c]
  else match upperSpecial.find? (fun p => p.1 == c) with
    | some p => p.2
    | none => [c]

/-- `str.upper()` as far as comparisons with ASCII names are concerned -/
def pyUpper (s : Str) : Str := s.flatMap upperChar

/-- `entry[0].value.upper()` -/
def entryKey (e : List CTag) : Option Str :=
  match e with
  | ⟨_, .str s⟩ :: _ => some (pyUpper s)
  | _ => none

/-- `entry[1].value.upper()` inside try/except (IndexError, AttributeError) -/
def tableName (e : List CTag) : Option Str :=
  match e with
  | _ :: ⟨_, .str s⟩ :: _ => some (pyUpper s)
  | _ => none

def isTableHeadOf (name : Str) (e : List CTag) : Bool := entryKey e == some sTable && tableName e == some name

def tablesHead : List CTag := [⟨0, .str sSection⟩, ⟨2, .str sTables⟩]
def newTableHead (name : Str) : List CTag := [⟨0, .str sTable⟩, ⟨2, .str name⟩]
def endtab : List CTag := [⟨0, .str sEndtab⟩]

def tableContent (entries : List (List CTag)) (name : Str) : List (List CTag) :=
  entries.filter (fun e => entryKey e == some name)

def tableHeadFor (entries : List (List CTag)) (name : Str) : List CTag :=
  (entries.reverse.find? (isTableHeadOf name)).getD (newTableHead name)

/-- `append_table(name)` -/
def tableBlock (entries : List (List CTag)) (name : Str) : List (List CTag) :=
  if (tableContent entries name).isEmpty then []
  else tableHeadFor entries name :: tableContent entries name ++ [endtab]

def tableOrder (r12 : Bool) : List Str := if r12 then tableNames.filter (· != sBlockRecord) else tableNames

def rebuildTables (r12 : Bool) (entries : List (List CTag)) : List (List CTag) :=
  tablesHead :: (tableOrder r12).flatMap (tableBlock entries)

/-! ### `Recover.recover_rootdict` -/
def isRootdict (g : List CTag) : Bool :=
  g.head? == some ⟨0, .str sDictionary⟩ && g.any (· == ⟨3, .str sAcadGroup⟩)

def recoverRootdict (objs : List (List CTag)) : List (List CTag) :=
  match objs with
  | o0 :: o1 :: _ =>
    if isRootdict o1 then objs
    else match objs.findIdx? isRootdict with
      | some i => if i == 0 then objs else (objs.set i o1).set 1 (objs.getD i o0)
      | none => objs
  | _ => objs

/-! ### `entity_structure_validator` / `Recover.check_entities` -/
structure VS where
  app : Bool
  xdata : Bool
  level : Int
  closing : Str
  emb : Bool

def VS.init : VS := ⟨false, false, 0, [125], false⟩

/-- one loop iteration; `none` = DXFAppDataError / DXFXDataError (both are DXFStructureError) -/
def VS.step (xrec : Bool) (s : VS) (t : CTag) : Option VS :=
  let emb := s.emb || (t.code == 101 && t.val == .str sEmbeddedObject)
  if emb then some { s with emb := true }
  else
    -- XDATA section
    let s1 : Option VS :=
      if s.xdata then
        if t.code < 1000 then none
        else if t.code == 1002 then
          (if t.val == .str [123] then some { s with level := s.level + 1 }
           else if t.val == .str [125] then (if s.level - 1 < 0 then none else some { s with level := s.level - 1 })
           else none)
        else some s
      else some s
    match s1 with
    | none => none
    | some s =>
      -- APP DATA
      let s2 : Option VS :=
        if t.code == 102 && !xrec then
          match t.val with
          | .str v =>
            if v.head? == some 123 then
              (if s.app then none else some { s with app := true, closing := v.drop 1 ++ [125] })
            else if v == [125] || v == s.closing then
              (if !s.app then none else some { s with app := false, closing := [125] })
            else none
          | _ => none
        else some s
      match s2 with
      | none => none
      | some s =>
        if t.code == 1001 && !s.xdata then (if s.app then none else some { s with xdata := true })
        else some s

def validateGo (xrec : Bool) : VS → List CTag → Bool
  | s, [] => !s.app && !(s.xdata && s.level != 0)
  | s, t :: r =>
    match s.step xrec t with
    | none => false
    | some s' => validateGo xrec s' r

def entityType (e : List CTag) : Str :=
  match e with
  | ⟨_, .str s⟩ :: _ => s
  | _ => []

/-- `entity_structure_validator(entity)` does not raise -/
def validEntity (e : List CTag) : Bool := validateGo (entityType e == sXrecord) VS.init e

def checkEntity (r12 : Bool) (e : List CTag) : Except PyErr (List CTag) :=
  if excludeStructureCheck.contains (entityType e) then .ok e
  else if validEntity e then .ok (if r12 then e.filter (fun t => t.code != 100) else e)
  else .error .dxfStructureError

def checkEntities (r12 : Bool) : List (List CTag) → Except PyErr (List (List CTag))
  | [] => .ok []
  | e :: r =>
    match checkEntity r12 e with
    | .error x => .error x
    | .ok e' =>
      match checkEntities r12 r with
      | .error x => .error x
      | .ok r' => .ok (e' :: r')

def isCheckedSection (n : Str) : Bool := n == sTables || n == sBlocks || n == sObjects || n == sEntities

def checkAll (r12 : Bool) : SectionDict → Except PyErr SectionDict
  | [] => .ok []
  | (n, gs) :: r =>
    if isCheckedSection n then
      match checkEntities r12 gs with
      | .error x => .error x
      | .ok gs' =>
        match checkAll r12 r with
        | .error x => .error x
        | .ok r' => .ok ((n, gs') :: r')
    else
      match checkAll r12 r with
      | .error x => .error x
      | .ok r' => .ok ((n, gs) :: r')

/-! ### `Recover.run` -/
def mapSection (name : Str) (f : List (List CTag) → List (List CTag)) (d : SectionDict) : SectionDict :=
  d.map (fun e => if e.1 == name then (e.1, f e.2) else e)

/-- `Recover.run` after `load_tags`: compiled tags → section dict -/
def frontTags (cfg : Cfg) (tags : List CTag) : Except PyErr SectionDict :=
  match loadSectionDict cfg (rebuildSections tags) with
  | .error e => .error e
  | .ok (version, d) =>
    let r12 := strLe version sAc1009
    let d := mapSection sTables (rebuildTables r12) d
    let d := if r12 then d else mapSection sObjects recoverRootdict d
    checkAll r12 d

/-- the repair filters of `safe_tag_loader` -/
def repairTags (s : RStream) : List RawTag :=
  filterHandles 5 (filterPoints s.err.isNone (-1) 0 [] (tagReorder none s.tags))

/-- `Recover.load_tags` consumed completely: the compiled tags or the first exception in time -/
def loadTags (cfg : Cfg) (bytes : Bytes) : Except PyErr (List CTag) :=
  let s := bytesLoader (splitLines bytes)
  match detectEncoding cfg s with
  | .error e => .error e
  | .ok enc =>
    match compile cfg enc (repairTags s) with
    | .error e => .error e
    | .ok tags =>
      match s.err with
      | some e => .error e
      | none => .ok tags

/-- `Recover.run(BytesIO(bytes)).section_dict` or the exception it raises -/
def recoverFront (cfg : Cfg) (bytes : Bytes) : Except PyErr SectionDict :=
  match loadTags cfg bytes with
  | .error e => .error e
  | .ok tags => frontTags cfg tags

end EzdxfVerif.Recover

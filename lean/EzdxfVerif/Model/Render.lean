/-
Model of the drawing add-on front end (DESIGN.md section 7, C18), core Lean only:

  * `src/ezdxf/addons/drawing/properties.py`  `RenderContext.resolve_layer_properties`, `_true_layer_color`,
    `_true_layer_lineweight`, `resolve_all`, `resolve_layer`, `resolve_color`, `resolve_pen`, `_entity_alpha_str`,
    `_true_entity_color`, `_aci_to_true_color`, `resolve_linetype` (name only), `resolve_lineweight`,
    `resolve_visible`, `push_state`, `pop_state`, `inside_block_reference`, `DEFAULT_LAYER_PROPERTIES`;
  * `src/ezdxf/addons/drawing/frontend.py`  `_draw_entities`, `draw_entity`, `draw_composite_entity/draw_insert`,
    the leaf draw methods for LINE, POINT (pdmode 0, "defpoints" quirk), LWPOLYLINE without width/bulge
    (`path.tools.add_2d_polyline`), SOLID (`Solid.vertices` order quirk), CIRCLE / ARC / ELLIPSE (kind `circle`: the centre of
    the curve entity that reaches the draw method - after a non-uniform scaling that is the ELLIPSE of `Ellipse.from_arc`);
  * `src/ezdxf/explode.py` `virtual_block_reference_entities` (copy, skip ATTDEF, transform by `matrix44()`);
  * `src/ezdxf/entities/insert.py` `Insert.matrix44` (`xfOf`) and `Insert.transform` =
    `math/transformtools.py InsertCoordinateSystem.transform` (`transformIns`) for z = 0, zscale = 1,
    extrusion (0,0,±1).

The model copies the code, not the intention:
  * `Insert.transform(m)` (InsertCoordinateSystem.transform, after fix 603b8b3fe) measures the new x/y scale factors on
    the images of the block reference's own axes (OCS axes rotated by `rotation`); the pre-fix computation on the
    unrotated OCS axes is kept as `transformInsPreFix` for the regression fact `regression_prefix_transform_unlawful`
    in Props/C18.lean only;
  * a rotation is given by (cos, sin) = `Ins.dir`, any rational point of the unit circle (session 3; before: quarter
    turns only).  Vector norms are exact: `norm v` is the Euclidean norm when it is rational (`sqrtQ`), otherwise the
    model answers `Err.irrational` (outside the number field of the model; never produced by the generators).
    The orthogonality test of `InsertCoordinateSystem.transform` is modelled exactly (`ux·uy = 0`; the code tests
    `|ux·uy| > 1e-9` on the normalised vectors): when it fails the code takes the explode fall-back of
    `virtual_block_reference_entities` (finding F20): modelled by `transformOne` / `explode` (the content of the nested
    reference replaces it, transformed by the same matrix; recursively);
  * MINSERT: `Insert.mcount`, `Insert.multi_insert` (grid of virtual copies, spacing not scaled, rotated by the
    rotation of the reference, duplicates for a zero spacing removed, ATTRIBs translated in the WCS: fix 2b2432f57) and the spacing update of `Insert.transform`
    (fix 1240d5ce0);
  * `BackendProperties.handle`: `EProps.handle` is `dxf.handle` (0 = virtual entity without handle); `draw_entity` sets the
    current handle for non-virtual entities only, `draw_insert` resets it after the attached ATTRIBs (fix 3c8d4c469);
  * CTB: `Ctx.ctbLw` is the table `aci ↦ plot_styles.get_lineweight(aci)` for entries whose lineweight is not
    OBJECT_LINEWEIGHT; `resolve_lineweight` looks at the RAW `dxf.color` of the entity;
  * the layer table lookup uses `layer_key` (= `str.lower`), the comparison with layer "0" does not;
    an undefined layer gives `DEFAULT_LAYER_PROPERTIES` (white, not the layout foreground colour);
  * `LayerProperties.pen` is the raw `layer.dxf.color`, negative for a layer that is off;
  * INSERT visibility ignores the layer state; ATTRIBs are drawn before the block content, inside the
    pushed block-reference state, and are not transformed by the INSERT they are attached to;
  * the front end has no cycle guard: unbounded recursion (`RecursionError`) is the fuel running out;
    a missing block definition is `DXFStructureError`.
Python's stack (`list.append` / `list.pop`) is a cons list with the top at the head.
-/
namespace EzdxfVerif.Render

/-! ## numbers, points, affine maps -/

structure P2 where
  x : Rat
  y : Rat
deriving DecidableEq, Repr, Inhabited

/-- `Matrix44` restricted to x, y (row vector convention): `p ↦ (x*a + y*c + tx, x*b + y*d + ty)`;
    `(a, b)` is the image of the x-axis (row 0), `(c, d)` of the y-axis (row 1), `(tx, ty)` row 3 -/
structure Aff where
  a : Rat
  b : Rat
  c : Rat
  d : Rat
  tx : Rat
  ty : Rat
deriving DecidableEq, Repr, Inhabited

namespace Aff
def id : Aff := ⟨1, 0, 0, 1, 0, 0⟩
/-- `Matrix44.transform` -/
def apply (m : Aff) (p : P2) : P2 := ⟨p.x * m.a + p.y * m.c + m.tx, p.x * m.b + p.y * m.d + m.ty⟩
/-- `Matrix44.transform_direction` -/
def lin (m : Aff) (p : P2) : P2 := ⟨p.x * m.a + p.y * m.c, p.x * m.b + p.y * m.d⟩
/-- `f @ g`: first `f`, then `g` -/
def comp (f g : Aff) : Aff :=
  ⟨f.a * g.a + f.b * g.c, f.a * g.b + f.b * g.d, f.c * g.a + f.d * g.c, f.c * g.b + f.d * g.d,
   f.tx * g.a + f.ty * g.c + g.tx, f.tx * g.b + f.ty * g.d + g.ty⟩
end Aff

def rabs (a : Rat) : Rat := if 0 ≤ a then a else -a
/-- `|x| + |y|`: the norm of the session-2 model (Euclidean for axis-aligned vectors only); kept for `transformInsPreFix` -/
def mag1 (v : P2) : Rat := rabs v.x + rabs v.y
def unit1 (v : P2) : P2 := ⟨v.x / mag1 v, v.y / mag1 v⟩

/-- exact rational square root: `some r` with `0 ≤ r`, `r * r = q` if `q` is the square of a rational, else `none` -/
def sqrtQ (q : Rat) : Option Rat :=
  let r : Rat := mkRat (Nat.sqrt q.num.toNat : Nat) (Nat.sqrt q.den)
  if r * r = q then some r else none
/-- `Vec3.magnitude` (exact; `none` when irrational) -/
def norm (v : P2) : Option Rat := sqrtQ (v.x * v.x + v.y * v.y)
def dot (u v : P2) : Rat := u.x * v.x + u.y * v.y

/-! ## colours, properties -/

/-- "#rrggbb" plus optional two hex digits of alpha -/
structure Color where
  rgb : Nat
  alpha : Option Nat
deriving DecidableEq, Repr, Inhabited

/-- DXF attributes of a graphical entity that the front end reads -/
structure EProps where
  layer : String
  color : Int
  trueColor : Option Nat
  linetype : String
  lineweight : Int
  invisible : Bool
  transparency : Option Nat
  /-- `dxf.handle` as a number, 0 = `None` (virtual entity) -/
  handle : Nat
deriving DecidableEq, Repr, Inhabited

/-- LAYER table entry as stored: `dxf.color` is negative for "off", `flags` bit 1 = frozen, bit 4 = locked;
    `transparency` is the raw value of the AcCmTransparency XDATA -/
structure RawLayer where
  name : String
  color : Int
  trueColor : Option Nat
  transparency : Option Nat
  linetype : String
  lineweight : Int
  flags : Nat
  plot : Bool
deriving DecidableEq, Repr, Inhabited

/-- `LayerProperties` -/
structure LayerProps where
  layer : String
  color : Color
  hasAci7 : Bool
  pen : Int
  linetype : String
  lineweight : Rat
  visible : Bool
deriving DecidableEq, Repr, Inhabited

/-- resolved `Properties` (fields used here) -/
structure RProps where
  layer : String
  color : Color
  pen : Int
  linetype : String
  lineweight : Rat
  visible : Bool
deriving DecidableEq, Repr, Inhabited

/-- `RenderContext`: `layers` is the dict `layer_key(name) ↦ LayerProperties`, `fg` the layout default colour,
    `aci` the table `plot_styles[aci].color` -/
structure Ctx where
  layers : List (String × LayerProps)
  fg : Nat
  aci : List Nat
  /-- `aci ↦ some (plot_styles.get_lineweight(aci))` where the CTB entry overrides the object lineweight -/
  ctbLw : List (Option Rat) := []
deriving Repr, Inhabited

def BYLAYER : Int := 256
def BYBLOCK : Int := 0
def BYOBJECT : Int := 257
def LINEWEIGHT_BYLAYER : Int := -1
def LINEWEIGHT_BYBLOCK : Int := -2
def LINEWEIGHT_DEFAULT : Int := -3
def TRANSPARENCY_BYBLOCK : Nat := 0x01000000
/-- `RenderContext.default_lineweight()` -/
def defaultLineweight : Rat := 1 / 4
def minLineweight : Rat := 1 / 100
def FROZEN : Nat := 1

/-- `layer_key` = `validator.make_table_key` = `str.lower` (ASCII) -/
def layerKey (s : String) : String := s.map Char.toLower
/-- `str.upper` (ASCII) -/
def upper (s : String) : String := s.map Char.toUpper

/-- `DEFAULT_LAYER_PROPERTIES = LayerProperties()` -/
def defaultLayer : LayerProps :=
  { layer := "0", color := ⟨0xFFFFFF, none⟩, hasAci7 := false, pen := 7, linetype := "CONTINUOUS",
    lineweight := 1 / 4, visible := true }

/-- `_aci_to_true_color` -/
def aciToTrue (fg : Nat) (aci : List Nat) (a : Nat) : Nat := if a = 7 then fg else aci.getD a 0

/-- `transparency_to_alpha(layer.transparency)`: `Layer.transparency` is 0.0 unless bit 0x02000000 is set;
    the float round trip `transparency_to_alpha ∘ transparency2float` is the identity on 0..255
    (tabulated into Gen/RenderTables, theorem `tie_layer_alpha`) -/
def layerAlpha (t : Option Nat) : Nat :=
  match t with
  | none => 255
  | some t => if t &&& 0x02000000 ≠ 0 then t &&& 0xFF else 255

/-- `resolve_layer_properties` -/
def resolveLayerProps (fg : Nat) (aci : List Nat) (exportMode : Bool) (l : RawLayer) : LayerProps :=
  let rgb : Nat :=
    match l.trueColor with
    | some tc => tc &&& 0xFFFFFF
    | none =>
      let a := l.color.natAbs
      let a := if a < 1 ∨ a > 255 then 7 else a
      aciToTrue fg aci a
  let alpha := layerAlpha l.transparency
  { layer := l.name
    color := ⟨rgb, if alpha < 255 then some alpha else none⟩
    hasAci7 := l.trueColor.isNone && decide (l.color = 7)
    pen := l.color
    linetype := upper l.linetype
    lineweight := if l.lineweight < 0 then defaultLineweight else (l.lineweight : Rat) / 100
    visible := (decide (0 ≤ l.color) && decide (l.flags &&& FROZEN = 0)) && (!exportMode || l.plot) }

/-- `_setup_layers` + layout default colour -/
def mkCtx (fg : Nat) (aci : List Nat) (exportMode : Bool) (ls : List RawLayer) : Ctx :=
  { layers := ls.map (fun l => let p := resolveLayerProps fg aci exportMode l; (layerKey p.layer, p))
    fg := fg, aci := aci }

/-- `self.layers.get(key)`; the keys of a layer table are unique -/
def Ctx.lookup (ctx : Ctx) (key : String) : Option LayerProps :=
  (ctx.layers.find? (fun p => p.1 = key)).map (·.2)

/-- `resolve_layer` -/
def resolveLayer (cur : Option RProps) (e : EProps) : String :=
  match cur with
  | some c => if e.layer = "0" then c.layer else e.layer
  | none => e.layer

/-- `_true_entity_color` -/
def trueEntityColor (ctx : Ctx) (tc : Option Nat) (aci : Int) : Nat :=
  match tc with
  | some v => v &&& 0xFFFFFF
  | none => if 0 < aci ∧ aci < 256 then aciToTrue ctx.fg ctx.aci aci.toNat else ctx.fg

/-- `_entity_alpha_str` -/
def entityAlpha (cur : Option RProps) (tr : Option Nat) (layerColor : Color) : Option Nat :=
  match tr with
  | none => layerColor.alpha
  | some t =>
    if t = TRANSPARENCY_BYBLOCK then
      match cur with
      | some c => c.color.alpha
      | none => none
    else
      let a := t &&& 0xFF
      if a < 255 then some a else none

/-- `resolve_color` (`lp` = `layers.get(key, DEFAULT_LAYER_PROPERTIES)`) -/
def resolveColor (ctx : Ctx) (cur : Option RProps) (e : EProps) (lp : LayerProps) : Color :=
  let aci : Int := if e.trueColor.isSome then 7 else e.color
  let rgb : Nat :=
    if aci = BYLAYER then (if lp.hasAci7 then ctx.fg else lp.color.rgb)
    else if aci = BYBLOCK then
      match cur with
      | none => ctx.fg
      | some c => c.color.rgb
    else trueEntityColor ctx e.trueColor aci
  ⟨rgb, entityAlpha cur e.transparency lp.color⟩

/-- `resolve_pen` -/
def resolvePen (cur : Option RProps) (e : EProps) (lp : LayerProps) : Int :=
  if e.color = BYLAYER then lp.pen
  else if e.color = BYBLOCK then
    match cur with
    | none => 7
    | some c => c.pen
  else if e.color = BYOBJECT then 7
  else e.color

/-- `resolve_linetype` (name) -/
def resolveLinetype (cur : Option RProps) (e : EProps) (lp : LayerProps) : String :=
  let name := upper e.linetype
  if name = "BYLAYER" then lp.linetype
  else if name = "BYBLOCK" then
    match cur with
    | some c => c.linetype
    | none => "STANDARD"
  else name

/-- `plot_styles[aci].lineweight != OBJECT_LINEWEIGHT` ? `plot_styles.get_lineweight(aci)` for the RAW `dxf.color` -/
def ctbLineweight (ctx : Ctx) (aci : Int) : Option Rat :=
  if 0 < aci ∧ aci < 256 then (ctx.ctbLw.getD aci.toNat none) else none

/-- `resolve_lineweight` -/
def resolveLineweight (ctx : Ctx) (cur : Option RProps) (e : EProps) (lp : LayerProps) : Rat :=
  let lw : Rat :=
    match ctbLineweight ctx e.color with
    | some w => w
    | none =>
    if e.lineweight = LINEWEIGHT_BYLAYER then lp.lineweight
    else if e.lineweight = LINEWEIGHT_BYBLOCK then
      match cur with
      | some c => c.lineweight
      | none => defaultLineweight
    else if e.lineweight = LINEWEIGHT_DEFAULT then defaultLineweight
    else (e.lineweight : Rat) / 100
  if minLineweight < lw then lw else minLineweight

/-- `resolve_visible`; `isInsert`: INSERT entity, `attribInvisible`: `Attrib.is_invisible` (false for other entities) -/
def resolveVisible (ctx : Ctx) (isInsert attribInvisible : Bool) (key : String) (e : EProps) : Bool :=
  if isInsert then !e.invisible
  else
    match ctx.lookup key with
    | some lp => if !lp.visible then false else (!e.invisible && !attribInvisible)
    | none => !e.invisible && !attribInvisible

/-- `resolve_all` -/
def resolveAll (ctx : Ctx) (cur : Option RProps) (isInsert attribInvisible : Bool) (e : EProps) : RProps :=
  let layer := resolveLayer cur e
  let key := layerKey layer
  let lp := (ctx.lookup key).getD defaultLayer
  { layer := layer
    color := resolveColor ctx cur e lp
    pen := resolvePen cur e lp
    linetype := resolveLinetype cur e lp
    lineweight := resolveLineweight ctx cur e lp
    visible := resolveVisible ctx isInsert attribInvisible key e }

/-- per-viewport layer attribute overrides (`Layer.get_vp_overrides()`, values for one VIEWPORT handle): ACI, true colour,
    raw transparency value (`float2transparency`), linetype, lineweight -/
structure VpOverride where
  aci : Int
  rgb : Option Nat
  transparency : Nat
  linetype : String
  lineweight : Int
deriving DecidableEq, Repr, Inhabited

/-- `RenderContext._apply_layer_overrides` on a copy of the layer: `layer.color = aci` keeps the sign of `dxf.color` (the
    on/off state), the true colour is replaced only when the override has one (an override cannot remove it), the
    transparency XDATA is always written, linetype and lineweight are replaced; flags and plot flag are untouched -/
def applyOverride (l : RawLayer) (o : VpOverride) : RawLayer :=
  { l with
    color := if 0 ≤ l.color then (o.aci.natAbs : Int) else -(o.aci.natAbs : Int)
    trueColor := match o.rgb with | some v => some v | none => l.trueColor
    transparency := some o.transparency
    linetype := o.linetype
    lineweight := o.lineweight }

/-- `RenderContext._setup_vp_layers`: the layer table of the document with the per-viewport overrides applied and the
    layers frozen in the VIEWPORT switched off (`vp.frozen_layers`, compared by `layer_key`) -/
def mkVpCtxOv (fg : Nat) (aci : List Nat) (exportMode : Bool) (ls : List (RawLayer × Option VpOverride))
    (frozen : List String) : Ctx :=
  let fk := frozen.map layerKey
  { layers := ls.map (fun lo =>
      let l := match lo.2 with | some o => applyOverride lo.1 o | none => lo.1
      let p := resolveLayerProps fg aci exportMode l
      let key := layerKey p.layer
      (key, if fk.contains key then { p with visible := false } else p))
    fg := fg, aci := aci }

/-- the same without property overrides -/
def mkVpCtx (fg : Nat) (aci : List Nat) (exportMode : Bool) (ls : List RawLayer) (frozen : List String) : Ctx :=
  mkVpCtxOv fg aci exportMode (ls.map (fun l => (l, none))) frozen

/-- `set_layer_properties_override(func)`: `func` edits the resolved `LayerProperties` in place after `_setup_layers`
    (the dict keys are not changed) -/
def Ctx.overrideLayers (ctx : Ctx) (f : LayerProps → LayerProps) : Ctx :=
  { ctx with layers := ctx.layers.map (fun p => (p.1, f p.2)) }

/-! ## entities, documents -/

inductive Kind where
  | line | point | polyline (closed : Bool) | solid | circle | attdef
deriving DecidableEq, Repr, Inhabited

structure Attrib where
  props : EProps
  flag : Bool
  pos : P2
deriving DecidableEq, Repr, Inhabited

/-- INSERT: `pos` is `dxf.insert` (OCS), `dir` = (cos, sin) of `dxf.rotation`, `flip`: extrusion (0,0,-1);
    `rows cols rowSp colSp` = `row_count column_count row_spacing column_spacing` (MINSERT) -/
structure Ins where
  props : EProps
  name : String
  pos : P2
  sx : Rat
  sy : Rat
  dir : P2
  flip : Bool
  attribs : List Attrib
  rows : Nat
  cols : Nat
  rowSp : Rat
  colSp : Rat
deriving DecidableEq, Repr, Inhabited

inductive Ent where
  | leaf (k : Kind) (p : EProps) (pts : List P2)
  | ins (i : Ins)
deriving DecidableEq, Repr, Inhabited

structure Block where
  name : String
  base : P2
  ents : List Ent
deriving Repr, Inhabited

structure Doc where
  blocks : List Block
deriving Repr, Inhabited

/-- `doc.blocks.get(name)` (case insensitive key) -/
def Doc.find (doc : Doc) (name : String) : Option Block :=
  doc.blocks.find? (fun b => layerKey b.name = layerKey name)

inductive PKind where
  | line | point | path | fill | curve | attrib | attdef
deriving DecidableEq, Repr, Inhabited

/-- what reaches the backend: kind of primitive, `BackendProperties` (+ linetype name), coordinates -/
structure Prim where
  kind : PKind
  color : Color
  pen : Int
  layer : String
  linetype : String
  lineweight : Rat
  handle : Nat
  pts : List P2
deriving DecidableEq, Repr, Inhabited

def mkPrim (k : PKind) (rp : RProps) (h : Nat) (pts : List P2) : Prim :=
  ⟨k, rp.color, rp.pen, rp.layer, rp.linetype, rp.lineweight, h, pts⟩

/-- `draw_entity`: `if not entity.is_virtual: set_current_entity_handle(entity.dxf.handle)` -/
def hOf (p : EProps) (h : Nat) : Nat := if p.handle = 0 then h else p.handle

/-- OCS x-axis sign: `OCS((0,0,-1)).ux = (-1,0,0)`, `uy = (0,1,0)` -/
def exSign (flip : Bool) : Rat := if flip then -1 else 1
/-- `ocs.to_wcs` = `ocs.from_wcs` for extrusion (0,0,±1), z = 0 -/
def ocsFlip (flip : Bool) (p : P2) : P2 := ⟨exSign flip * p.x, p.y⟩

/-- `Insert.matrix44()`: `Matrix44.ucs(ux*sx, uy*sy, uz*sz) * axis_rotate(extrusion, angle)`, row 3 =
    `ocs.to_wcs(insert) - m.transform_direction(base_point)` -/
def xfOf (i : Ins) (base : P2) : Aff :=
  let ex := exSign i.flip
  let c := i.dir.x
  let s := i.dir.y
  -- rotation about (0,0,ez) in row vector convention: ez = 1: rows (c, s), (-s, c); ez = -1: rows (c, -s), (s, c)
  let r00 := c
  let r01 := if i.flip then -s else s
  let r10 := if i.flip then s else -s
  let r11 := c
  let l : Aff := ⟨ex * i.sx * r00, ex * i.sx * r01, i.sy * r10, i.sy * r11, 0, 0⟩
  let b := l.lin base
  let o := ocsFlip i.flip i.pos
  { l with tx := o.x - b.x, ty := o.y - b.y }

def transformAttrib (m : Aff) (a : Attrib) : Attrib := { a with pos := m.apply a.pos }

inductive Err where
  | recursion   -- RecursionError (no cycle guard in the front end)
  | structure   -- DXFStructureError: required block definition does not exist
  | index       -- IndexError: pop from empty list
  | fallback    -- `InsertTransformationError` of `Insert.transform`: caught by `virtual_block_reference_entities`, which
                -- explodes the nested INSERT in place (`transformOne`; finding F20); never the result of a draw
  | irrational  -- outside the model: a vector norm is not rational
  | degenerate  -- outside the model: a transformed axis has length 0 (zero scale factor)
deriving DecidableEq, Repr, Inhabited

/-- `Insert.transform(m)` = `InsertCoordinateSystem.transform` + MINSERT spacing + `attrib.transform(m)` for every
    attached ATTRIB.  `x_axis = ocs.to_wcs(Vec3.from_angle(angle))`, `y_axis = ocs.to_wcs(Vec3.from_angle(angle + pi/2))`.
    The orthogonality test (exact here, `1e-9` on the normalised vectors in the code) comes before the lengths are needed
    as rational numbers, so that the fall-back is taken for every sheared reference -/
def transformIns (m : Aff) (i : Ins) : Except Err Ins :=
  let ex := exSign i.flip
  let ux := m.lin (ocsFlip i.flip i.dir)
  let uy := m.lin (ocsFlip i.flip ⟨-i.dir.y, i.dir.x⟩)
  if dot ux ux = 0 ∨ dot uy uy = 0 then .error .degenerate
  else if dot ux uy ≠ 0 then .error .fallback
  else
    match norm ux, norm uy with
    | some nx, some ny =>
      let xs := nx * i.sx
      let ys := ny * i.sy
      let uxn : P2 := ⟨ux.x / nx, ux.y / nx⟩
      let uyn : P2 := ⟨uy.x / ny, uy.y / ny⟩
      -- expected_uy = uz.cross(ux), uz = (0, 0, ez)
      let expected : P2 := ⟨-(ex * uxn.y), ex * uxn.x⟩
      let ys := if expected = uyn then ys else -ys
      .ok { i with
        pos := ocsFlip i.flip (m.apply (ocsFlip i.flip i.pos))
        sx := xs
        sy := ys
        dir := ocsFlip i.flip uxn
        colSp := if i.sx ≠ 0 then i.colSp * (xs / i.sx) else i.colSp
        rowSp := if i.sy ≠ 0 then i.rowSp * (ys / i.sy) else i.rowSp
        attribs := i.attribs.map (transformAttrib m) }
    | _, _ => .error .irrational

/-- the computation BEFORE fix 603b8b3fe (scale factors from the images of the unrotated OCS axes) in the session-2
    model (norm `|x|+|y|`, quarter turns); not used by the model, only by the regression fact in Props/C18.lean -/
def transformInsPreFix (m : Aff) (i : Ins) : Ins :=
  let ex := exSign i.flip
  let ux := m.lin ⟨ex, 0⟩
  let uy := m.lin ⟨0, 1⟩
  let xs := mag1 ux * i.sx
  let ys := mag1 uy * i.sy
  let uxn := unit1 ux
  let uyn := unit1 uy
  let expected : P2 := ⟨-(ex * uxn.y), ex * uxn.x⟩
  let ys := if expected = uyn then ys else -ys
  { i with
    pos := ocsFlip i.flip (m.apply (ocsFlip i.flip i.pos))
    sx := xs
    sy := ys
    dir := unit1 (ocsFlip i.flip (m.lin (ocsFlip i.flip i.dir)))
    attribs := i.attribs.map (transformAttrib m) }

/-- `entity.copy()`: a virtual entity has no handle -/
def clearHandle (p : EProps) : EProps := { p with handle := 0 }
def copyAttrib (a : Attrib) : Attrib := { a with props := clearHandle a.props }
def copyIns (i : Ins) : Ins := { i with props := clearHandle i.props, attribs := i.attribs.map copyAttrib }
def copyEnt : Ent → Ent
  | .leaf k p pts => .leaf k (clearHandle p) pts
  | .ins i => .ins (copyIns i)

/-- `entity.transform(m)` of a copied block entity -/
def transformEnt (m : Aff) : Ent → Except Err Ent
  | .leaf k p pts => .ok (.leaf k p (pts.map m.apply))
  | .ins i =>
    match transformIns m i with
    | .ok i' => .ok (.ins i')
    | .error e => .error e

def mapE {α β : Type} (f : α → Except Err β) : List α → Except Err (List β)
  | [] => .ok []
  | a :: as =>
    match f a with
    | .error e => .error e
    | .ok b =>
      match mapE f as with
      | .error e => .error e
      | .ok bs => .ok (b :: bs)

def isAttdef : Ent → Bool
  | .leaf .attdef _ _ => true
  | _ => false

/-- the block content as `disassemble` yields it: copies, ATTDEF skipped -/
def blockCopies (b : Block) : List Ent := (b.ents.filter (fun e => !isAttdef e)).map copyEnt

/-! ## MINSERT -/

/-- `Insert.mcount` -/
def mcount (i : Ins) : Nat := (if i.rowSp ≠ 0 then i.rows else 1) * (if i.colSp ≠ 0 then i.cols else 1)

/-- grid offsets in the order of the two `for` loops, `if offset not in done` -/
def gridOffsets (i : Ins) : List P2 :=
  ((List.range i.rows).flatMap (fun (r : Nat) => (List.range i.cols).map (fun (c : Nat) => (⟨(c : Rat) * i.colSp, (r : Rat) * i.rowSp⟩ : P2)))).eraseDups

/-- `offset.rotate_deg(rotation)` -/
def rotateBy (d : P2) (p : P2) : P2 := ⟨p.x * d.x - p.y * d.y, p.x * d.y + p.y * d.x⟩

/-- one grid element of `Insert.multi_insert`: a copy moved by the rotated (unscaled) offset, grid attributes discarded;
    the attached ATTRIBs are translated by the same offset taken to the WCS (`attrib.translate(ocs.to_wcs(offset))`,
    fix 2b2432f57; before: the raw OCS offset was added to `attrib.dxf.insert`) -/
def gridCell (i : Ins) (off : P2) : Ins :=
  let o := rotateBy i.dir off
  let w := ocsFlip i.flip o
  let c := copyIns i
  { c with
    pos := ⟨i.pos.x + o.x, i.pos.y + o.y⟩
    rows := 1, cols := 1, rowSp := 0, colSp := 0
    attribs := c.attribs.map (fun a => { a with pos := ⟨a.pos.x + w.x, a.pos.y + w.y⟩ }) }

/-- `Insert.multi_insert` -/
def multiInsert (i : Ins) : List Ins := (gridOffsets i).map (gridCell i)

/-- `draw_composite_entity`: `multi_insert()` if `mcount > 1` else the entity itself -/
def cells (i : Ins) : List Ins := if 1 < mcount i then multiInsert i else [i]

/-! ## `virtual_block_reference_entities` with its explode fall-back -/

def flatMapE {α β : Type} (f : α → Except Err (List β)) : List α → Except Err (List β)
  | [] => .ok []
  | a :: as =>
    match f a with
    | .error e => .error e
    | .ok bs =>
      match flatMapE f as with
      | .error e => .error e
      | .ok cs => .ok (bs ++ cs)

/-- `virtual_block_reference_entities(c)` for a nested reference `c`, `tr` = the function one nesting level deeper:
    `m = c.matrix44()`, `DXFStructureError` without block definition, `transform(disassemble(block))` -/
def vbreWith (doc : Doc) (tr : Aff → List Ent → Except Err (List Ent)) (c : Ins) : Except Err (List Ent) :=
  match doc.find c.name with
  | none => .error .structure
  | some blk => tr (xfOf c blk.base) (blockCopies blk)

/-- the loop body of `transform(entities)` for the matrix `m`: `entity.transform(m)`; for an INSERT that raises
    `InsertTransformationError` the FALL-BACK: for every grid element of the untransformed reference the entities of
    `virtual_block_reference_entities(element)` are passed through this same `transform` (matrix `m`) and yielded in place of
    the reference.  The reference itself (its properties, its ATTRIBs, its invisible flag) is gone: finding F20.
    `sub` = `explode` one level deeper (`none`: recursion limit) -/
def transformOne (doc : Doc) (sub : Option (Aff → List Ent → Except Err (List Ent))) (m : Aff) : Ent → Except Err (List Ent)
  | .leaf k p pts => .ok [.leaf k p (pts.map m.apply)]
  | .ins i =>
    match transformIns m i with
    | .ok i' => .ok [.ins i']
    | .error .fallback =>
      match sub with
      | none => .error .recursion
      | some tr =>
        flatMapE (fun c =>
          match vbreWith doc tr c with
          | .error e => .error e
          | .ok inner => tr m inner) (cells i)
    | .error e => .error e

/-- `transform(entities)` with `fuel` levels of fall-back left -/
def explode (doc : Doc) : Nat → Aff → List Ent → Except Err (List Ent)
  | 0 => fun m => flatMapE (transformOne doc none m)
  | f + 1 => fun m => flatMapE (transformOne doc (some (explode doc f)) m)

/-- `virtual_block_reference_entities`: copies of the block content (ATTDEF skipped) transformed by `m`, nested references
    that cannot be transformed exploded in place -/
def virtualEntities (doc : Doc) (fuel : Nat) (m : Aff) (b : Block) : Except Err (List Ent) :=
  explode doc fuel m (blockCopies b)

/-- the leaf draw methods of the front end -/
def emitLeaf (k : Kind) (rp : RProps) (h : Nat) (pts : List P2) : List Prim :=
  match k with
  | .line => [mkPrim .line rp h pts]
  | .point => if layerKey rp.layer = "defpoints" then [] else [mkPrim .point rp h pts]
  | .attdef => [mkPrim .attdef rp h pts]
  | .circle => [mkPrim .curve rp h pts]
  | .polyline closed =>
    match pts with
    | [] => []
    | [_] => []
    | p0 :: rest =>
      let all := p0 :: rest
      if closed ∧ all.getLast? ≠ some p0 then [mkPrim .path rp h (all ++ [p0])] else [mkPrim .path rp h all]
  | .solid =>
    match pts with
    | [v0, v1, v2, v3] => if v3 ≠ v2 then [mkPrim .fill rp h [v0, v1, v3, v2]] else [mkPrim .fill rp h [v0, v1, v2]]
    | _ => []

/-- `draw_entities(insert.attribs)` with the block reference state `cur` already pushed; `h` = current entity handle -/
def drawAttribs (ctx : Ctx) (cur : Option RProps) (h : Nat) (as : List Attrib) : List Prim :=
  as.flatMap (fun a =>
    let ra := resolveAll ctx cur false a.flag a.props
    if ra.visible then [mkPrim .attrib ra (hOf a.props h) [a.pos]] else [])

/-! ## the traversal with the block reference state stack -/

/-- `current_block_reference_properties` and `_saved_states` -/
structure State where
  current : Option RProps
  saved : List (Option RProps)
deriving DecidableEq, Repr, Inhabited

def State.init : State := ⟨none, []⟩
/-- `push_state` -/
def State.push (st : State) (p : RProps) : State := ⟨some p, st.current :: st.saved⟩
/-- `pop_state` -/
def State.pop (st : State) : Except Err State :=
  match st.saved with
  | [] => .error .index
  | s :: rest => .ok ⟨s, rest⟩

abbrev Res := Except Err (List Prim × State)

/-- the `for entity in entities` loop of `_draw_entities`, `one` = loop body -/
def drawList (one : Ent → State → Res) : List Ent → State → Res
  | [], st => .ok ([], st)
  | e :: es, st =>
    match one e st with
    | .error x => .error x
    | .ok (o1, st1) =>
      match drawList one es st1 with
      | .error x => .error x
      | .ok (o2, st2) => .ok (o1 ++ o2, st2)

/-- `draw_insert` for every grid element: attached ATTRIBs, then the virtual entities of the block (drawn by `sub`) -/
def drawCells (ctx : Ctx) (sub : List Ent → State → Res) (ve : Aff → Except Err (List Ent)) (base : P2) (h : Nat) :
    List Ins → State → Res
  | [], st => .ok ([], st)
  | c :: cs, st =>
    let o1 := drawAttribs ctx st.current h c.attribs
    match ve (xfOf c base) with
    | .error x => .error x
    | .ok ents =>
      match sub ents st with
      | .error x => .error x
      | .ok (o2, st2) =>
        match drawCells ctx sub ve base h cs st2 with
        | .error x => .error x
        | .ok (o3, st3) => .ok (o1 ++ o2 ++ o3, st3)

/-- loop body of `_draw_entities`: `resolve_all`, visibility test, `draw_entity` → leaf draw method or
    `draw_composite_entity` (`push_state`, `draw_insert` per grid element, `pop_state`);
    `sub h'` draws a list of virtual entities one nesting level deeper (`none`: recursion limit reached), `ef` = nesting
    levels left for the explode fall-back -/
def drawOne (doc : Doc) (ctx : Ctx) (sub : Option (Nat → List Ent → State → Res)) (ef : Nat) (h : Nat) (e : Ent) (st : State) : Res :=
  match e with
  | .leaf k p pts =>
    let rp := resolveAll ctx st.current false false p
    if rp.visible then .ok (emitLeaf k rp (hOf p h) pts, st) else .ok ([], st)
  | .ins i =>
    let rp := resolveAll ctx st.current true false i.props
    if rp.visible then
      match sub with
      | none => .error .recursion
      | some rec =>
        let h' := hOf i.props h
        let st1 := st.push rp
        match doc.find i.name with
        | none => .error .structure
        | some blk =>
          match drawCells ctx (rec h') (fun m => virtualEntities doc ef m blk) blk.base h' (cells i) st1 with
          | .error x => .error x
          | .ok (o, st2) =>
            match st2.pop with
            | .error x => .error x
            | .ok st3 => .ok (o, st3)
    else .ok ([], st)

/-- `_draw_entities` → `draw_entity` → `draw_composite_entity`; `fuel` bounds the nesting depth, `h` is the current
    entity handle of the pipeline -/
def drawEnts (doc : Doc) (ctx : Ctx) : Nat → Nat → List Ent → State → Res
  | 0, h => drawList (drawOne doc ctx none 0 h)
  | fuel + 1, h => drawList (drawOne doc ctx (some (drawEnts doc ctx fuel)) fuel h)

/-- `Frontend.draw_layout` with fuel = number of block definitions + 1 (enough for every acyclic document) -/
def drawLayout (doc : Doc) (ctx : Ctx) (ents : List Ent) : Res :=
  drawEnts doc ctx (doc.blocks.length + 1) 0 ents State.init

/-- `draw_layout(layout, filter_func=keep)`: the filter is applied to the entities of the layout only
    (`_draw_entities(..., filter_func)` is not passed on to the nested `draw_entities` calls) -/
def drawLayoutFiltered (doc : Doc) (ctx : Ctx) (keep : Ent → Bool) (ents : List Ent) : Res :=
  drawLayout doc ctx (ents.filter keep)

/-- handle of a layout entity -/
def entHandle : Ent → Nat
  | .leaf _ p _ => p.handle
  | .ins i => i.props.handle

/-- `reorder._build.sort_handle`: the sort handle from the ACAD_SORTENTS table if the entity has an entry, else its own handle;
    sort handle 0 sorts last (`0xFFFFFFFFFFFFFFFF`) -/
def sortHandle (mapping : List (Nat × Nat)) (e : Ent) : Nat :=
  let h := match mapping.find? (fun p => p.1 = entHandle e) with
    | some p => p.2
    | none => entHandle e
  if h = 0 then 0xFFFFFFFFFFFFFFFF else h

/-- `draw_layout`: with a redraw order table the entities are drawn in ascending sort handle order, entities with equal sort
    handles in layout order (`reorder.ascending`: heap of (sort handle, index)); without a table in layout order -/
def redrawOrder (mapping : List (Nat × Nat)) (ents : List Ent) : List Ent :=
  if mapping.isEmpty then ents else ents.mergeSort (fun a b => sortHandle mapping a ≤ sortHandle mapping b)

/-- `draw_layout(layout, filter_func=keep)` for a layout with the redraw order table `mapping` -/
def drawLayoutOrdered (doc : Doc) (ctx : Ctx) (mapping : List (Nat × Nat)) (keep : Ent → Bool) (ents : List Ent) : Res :=
  drawLayoutFiltered doc ctx keep (redrawOrder mapping ents)

/-- `_draw_viewports`: VIEWPORT entities are taken out of the entity stream, sorted by `status` (stable), those with
    `status <= 0` removed, the first one removed if its status is 1 (the "active" viewport); the rest is drawn -/
def selectVps {α : Type} (status : α → Int) (l : List α) : List α :=
  let vs := (l.mergeSort (fun a b => status a ≤ status b)).filter (fun v => 0 < status v)
  match vs with
  | [] => []
  | v :: rest => if status v = 1 then rest else v :: rest

def viewportsDrawn (status : List Int) : List Int := selectVps id status

/-- a top-view VIEWPORT without twist: `status`, `frozen_layers`, per-viewport layer property overrides (by layer name),
    `get_scale()` and the translation `center - view_center_point * scale` of `get_transformation_matrix()` -/
structure Vp where
  status : Int
  frozen : List String
  ovs : List (String × VpOverride)
  scale : Rat
  offset : P2
deriving Repr, Inhabited

/-- `Viewport.get_transformation_matrix()` (modelspace → paperspace) -/
def Vp.matrix (v : Vp) : Aff := ⟨v.scale, 0, 0, v.scale, v.offset.x, v.offset.y⟩

/-- the clipping portal of the render pipeline maps every primitive by the matrix of the viewport (nothing is clipped
    away when the viewport shows the whole content) -/
def mapPrims (m : Aff) (ps : List Prim) : List Prim := ps.map (fun p => { p with pts := p.pts.map m.apply })

/-- `RenderContext.from_viewport(vp)` for the layer table `ls` of the document -/
def vpCtx (fg : Nat) (aci : List Nat) (exportMode : Bool) (ls : List RawLayer) (v : Vp) : Ctx :=
  mkVpCtxOv fg aci exportMode (ls.map (fun l => (l, (v.ovs.find? (fun o => o.1 = l.name)).map (·.2)))) v.frozen

/-- `pipeline.draw_viewport` for every selected viewport: the modelspace entities drawn with the viewport's context -/
def drawVps (doc : Doc) (mk : Vp → Ctx) (msp : List Ent) : List Vp → Except Err (List Prim)
  | [] => .ok []
  | v :: vs =>
    match drawLayout doc (mk v) msp with
    | .error e => .error e
    | .ok (o, _) =>
      match drawVps doc mk msp vs with
      | .error e => .error e
      | .ok os => .ok (mapPrims v.matrix o ++ os)

/-- `draw_layout` of a paperspace layout: its own entities in order (VIEWPORT entities deferred), then the viewports -/
def drawLayoutVp (doc : Doc) (ctx : Ctx) (mk : Vp → Ctx) (ents : List Ent) (vps : List Vp) (msp : List Ent) :
    Except Err (List Prim × State) :=
  match drawLayout doc ctx ents with
  | .error e => .error e
  | .ok (o, st) =>
    match drawVps doc mk msp (selectVps (·.status) vps) with
    | .error e => .error e
    | .ok os => .ok (o ++ os, st)

/-! ## the pipeline stage between the front end and the backend: colour policy with its cache, background policy -/

/-- `config.ColorPolicy` -/
inductive ColorPolicy where
  | color | swapBW | negative | monochrome | monoDark | monoLight | black | white | custom
deriving DecidableEq, Repr, Inhabited

/-- `apply_color_policy(color, policy, custom_fg_color)`: the policy maps the RGB part, the alpha of the colour is kept - except
    for CUSTOM, which takes colour AND alpha of `custom_fg_color`.  `gray` = `color_to_monochrome` with scale/offset of the
    monochrome policy (floating point luminance; read from the live code for the colours of a request) -/
def applyColorPolicy (pol : ColorPolicy) (custom : Color) (gray : Nat → Nat) (c : Color) : Color :=
  match pol with
  | .color => c
  | .swapBW => ⟨if c.rgb = 0 then 0xFFFFFF else if c.rgb = 0xFFFFFF then 0 else c.rgb, c.alpha⟩
  | .negative => ⟨0xFFFFFF - c.rgb, c.alpha⟩
  | .monochrome => ⟨gray c.rgb, c.alpha⟩
  | .monoDark => ⟨gray c.rgb, c.alpha⟩
  | .monoLight => ⟨gray c.rgb, c.alpha⟩
  | .black => ⟨0, c.alpha⟩
  | .white => ⟨0xFFFFFF, c.alpha⟩
  | .custom => custom

/-- `RenderPipeline2d.get_backend_properties`: `self._color_mapping` is a dict keyed by the FULL resolved colour (RGB and alpha);
    a hit returns the stored colour, a miss applies `f` and stores the result -/
def backendColor (f : Color → Color) (cache : List (Color × Color)) (c : Color) : Color × List (Color × Color) :=
  match cache.find? (fun p => p.1 = c) with
  | some p => (p.2, cache)
  | none => (f c, (c, f c) :: cache)

/-- all primitives of ONE rendering pass through the same pipeline object, in drawing order -/
def pipelineColors (f : Color → Color) : List (Color × Color) → List Prim → List Prim × List (Color × Color)
  | cache, [] => ([], cache)
  | cache, p :: ps =>
    let r := backendColor f cache p.color
    let rest := pipelineColors f r.2 ps
    ({ p with color := r.1 } :: rest.1, rest.2)

/-- what the backend receives for the primitives `ps` of one `draw_layout` -/
def backendStage (pol : ColorPolicy) (custom : Color) (gray : Nat → Nat) (ps : List Prim) : List Prim :=
  (pipelineColors (applyColorPolicy pol custom gray) [] ps).1

/-- `config.BackgroundPolicy` -/
inductive BgPolicy where
  | default | white | black | paperspace | modelspace | off | custom
deriving DecidableEq, Repr, Inhabited

/-- `Frontend.set_background` + `LayoutProperties.set_colors`: the foreground colour (ACI 7, BYLAYER of a layer with colour 7,
    BYBLOCK at layout level) is white on a dark background and black otherwise; DEFAULT keeps the background of the layout
    (modelspace dark, paperspace white), OFF is white and fully transparent, `customDark` = `is_dark_color(custom_bg_color)` -/
def layoutFg (pol : BgPolicy) (isMsp : Bool) (customDark : Bool) : Nat :=
  let dark : Bool :=
    match pol with
    | .default => isMsp
    | .white => false
    | .black => true
    | .paperspace => false
    | .modelspace => true
    | .off => false
    | .custom => customDark
  if dark then 0xFFFFFF else 0

/-- the render context of `draw_layout` under a background policy.  QUIRK of the code that the model mirrors: `set_current_layout` resolves
    the layer table (`_setup_layers` → `_true_layer_color` → `_aci_to_true_color(7)`) BEFORE `set_background` overrides the colours of the
    layout, so a layer colour that comes from ACI 7 WITHOUT the `has_aci_color_7` mark (`dxf.color = -7`: layer off, reached through
    BYBLOCK of a reference on that layer) is frozen with the DEFAULT foreground of the layout (modelspace white, paperspace black), while
    everything resolved per entity (ACI 7, BYLAYER of a layer marked `has_aci_color_7`, BYBLOCK at layout level) uses the foreground of
    the background policy -/
def mkCtxBg (bg : BgPolicy) (isMsp customDark : Bool) (aci : List Nat) (exportMode : Bool) (ls : List RawLayer) : Ctx :=
  { mkCtx (layoutFg .default isMsp customDark) aci exportMode ls with fg := layoutFg bg isMsp customDark }

/-- `RenderContext.resolve_visible` for a 3DFACE (fix bb5ad742d): hidden if all four edges are invisible, otherwise like any
    other entity (layer state, invisible flag) -/
def resolveVisibleFace (ctx : Ctx) (allEdgesHidden : Bool) (key : String) (e : EProps) : Bool :=
  if allEdgesHidden then false else resolveVisible ctx false false key e

/-! ## specification: what the document defines -/

mutual
/-- the block tree: a reference with the content of the referenced block (copies, in block coordinates) -/
inductive Tree where
  | leaf (k : Kind) (p : EProps) (pts : List P2)
  | node (i : Ins) (base : P2) (children : Forest)
inductive Forest where
  | nil
  | cons (t : Tree) (f : Forest)
end

namespace Spec

def mapAttribs (acc : Aff) (as : List Attrib) : List Attrib := as.map (transformAttrib acc)

/-- every grid element of a (M)INSERT: its ATTRIBs, then the block content (`content m` = primitives of the block
    content under the matrix `m`) under the matrix of the element -/
def cellsPrims (ctx : Ctx) (rp : RProps) (acc : Aff) (h : Nat) (base : P2) (content : Aff → List Prim) (cs : List Ins) : List Prim :=
  cs.flatMap (fun c => drawAttribs ctx (some rp) h (mapAttribs acc c.attribs) ++ content ((xfOf c base).comp acc))

/-- Primitives of a forest by structural recursion: `env` = resolved properties of the enclosing reference
    (`none` at layout level), `acc` = product of the reference matrices along the path (innermost first),
    `h` = handle of the enclosing top level entity. -/
def flatten (ctx : Ctx) : Option RProps → Aff → Nat → Forest → List Prim
  | _, _, _, .nil => []
  | env, acc, h, .cons (.leaf k p pts) rest =>
    let rp := resolveAll ctx env false false p
    (if rp.visible then emitLeaf k rp (hOf p h) (pts.map acc.apply) else []) ++ flatten ctx env acc h rest
  | env, acc, h, .cons (.node i base ch) rest =>
    let rp := resolveAll ctx env true false i.props
    (if rp.visible then
        cellsPrims ctx rp acc (hOf i.props h) base (fun m => flatten ctx (some rp) m (hOf i.props h) ch) (cells i)
      else []) ++ flatten ctx env acc h rest

end Spec

def Forest.append : Forest → Forest → Forest
  | .nil, g => g
  | .cons t f, g => .cons t (Forest.append f g)

/-- Unfolding of the block graph into the block tree (of copies); `none` if a block is missing or the nesting is deeper
    than `fuel` (cycle). -/
def unfold (doc : Doc) : Nat → List Ent → Option Forest
  | _, [] => some .nil
  | fuel, .leaf k p pts :: es =>
    match unfold doc fuel es with
    | some rest => some (.cons (.leaf k p pts) rest)
    | none => none
  | 0, .ins _ :: _ => none
  | fuel' + 1, .ins i :: es =>
    match doc.find i.name with
    | none => none
    | some blk =>
      match unfold doc fuel' (blockCopies blk) with
      | none => none
      | some ch =>
        match unfold doc (fuel' + 1) es with
        | some rest => some (.cons (.node i blk.base ch) rest)
        | none => none
termination_by fuel ents => (fuel, ents.length)
decreasing_by
  all_goals simp_wf
  all_goals first
    | (apply Prod.Lex.right; simp)
    | (apply Prod.Lex.left; omega)

/-- every block reference reachable from `ents` resolves within nesting depth `fuel` (acyclic and closed) -/
def reach (doc : Doc) : Nat → List Ent → Bool
  | _, [] => true
  | fuel, .leaf _ _ _ :: es => reach doc fuel es
  | 0, .ins _ :: _ => false
  | fuel' + 1, .ins i :: es =>
    match doc.find i.name with
    | none => false
    | some blk => reach doc fuel' blk.ents && reach doc (fuel' + 1) es
termination_by fuel ents => (fuel, ents.length)
decreasing_by
  all_goals simp_wf
  all_goals first
    | (apply Prod.Lex.right; simp)
    | (apply Prod.Lex.left; omega)

/-! ## lawfulness of `Insert.transform` -/

/-- `Insert.transform(m)` is lawful for the single reference `i`: it succeeds and the transformed INSERT has the matrix
    `matrix44(i) @ m` -/
def lawful (m : Aff) (i : Ins) (base : P2) : Bool :=
  match transformIns m i with
  | .ok i' => decide (xfOf i' base = (xfOf i base).comp m)
  | .error _ => false

/-- grid elements of the transformed (M)INSERT = transformed grid elements (matrix and attached ATTRIBs) -/
def cellsAgree (m : Aff) (base : P2) : List Ins → List Ins → Bool
  | [], [] => true
  | c' :: cs', c :: cs =>
    decide (xfOf c' base = (xfOf c base).comp m) && decide (c'.attribs = c.attribs.map (transformAttrib m)) &&
      cellsAgree m base cs' cs
  | _, _ => false

/-- `Insert.transform(acc)` is lawful for every reference of the block tree under the matrix accumulated on the way to it
    (in particular no reference takes the explode fall-back) -/
def Forest.lawful : Aff → Forest → Bool
  | _, .nil => true
  | acc, .cons (.leaf _ _ _) rest => Forest.lawful acc rest
  | acc, .cons (.node i base ch) rest =>
    (match transformIns acc i with
      | .ok i' =>
        decide (i'.props = i.props) && decide (i'.name = i.name) && cellsAgree acc base (cells i') (cells i) &&
          (cells i).all (fun c => Forest.lawful ((xfOf c base).comp acc) ch)
      | .error _ => false) && Forest.lawful acc rest

/-- the references of the block tree at which `Insert.transform` raises under the matrix accumulated on the way to them (the
    traversal does not descend below such a reference), with the reason -/
def Forest.failing : Aff → Forest → List (Ins × Err)
  | _, .nil => []
  | acc, .cons (.leaf _ _ _) rest => Forest.failing acc rest
  | acc, .cons (.node i base ch) rest =>
    (match transformIns acc i with
      | .ok _ => (cells i).flatMap (fun c => Forest.failing ((xfOf c base).comp acc) ch)
      | .error e => [(i, e)]) ++ Forest.failing acc rest

/-- every reference of the tree has non-zero scale factors -/
def Forest.scalesNZ : Forest → Bool
  | .nil => true
  | .cons (.leaf _ _ _) rest => Forest.scalesNZ rest
  | .cons (.node i _ ch) rest => decide (i.sx ≠ 0) && decide (i.sy ≠ 0) && Forest.scalesNZ ch && Forest.scalesNZ rest


/-! ## lineweight handed to the output by the backends (final round) -/

/-- `_JSONBackend.configure` + `make_properties_dict` (the same rule is used by the other vector backends): `min_lineweight` of the
    configuration is given in 1/300 inch (`none`/0: the default 0.05 mm), the minimum is never below 0.05 mm; with
    `lineweight_scaling = 0` every stroke gets the minimum as a FIXED width, otherwise the width is
    `max(minimum, lineweight * lineweight_scaling)` (before the rounding to 2 decimals of the JSON output) -/
def backendMinLineweight (cfgMin : Option Rat) : Rat :=
  match cfgMin with
  | none => 1 / 20
  | some k => if k = 0 then 1 / 20 else (let mm := k * (127 / 5) / 300; if 1 / 20 < mm then mm else 1 / 20)

def backendStrokeWidth (cfgMin : Option Rat) (scaling : Rat) (lw : Rat) : Rat :=
  let mn := backendMinLineweight cfgMin
  if scaling = 0 then mn else (if mn < lw * scaling then lw * scaling else mn)

/-! ## HATCH: decision logic of `draw_hatch_entity` (final round) -/

/-- `config.HatchPolicy` (SHOW_APPROXIMATE_PATTERN is treated like NORMAL since v0.18.1) -/
inductive HatchPolicy where
  | normal | ignore | showOutline | showSolid | approx
deriving DecidableEq, Repr, Inhabited

/-- `Filling.type`: SOLID = 0, PATTERN = 1, GRADIENT = 2 -/
inductive FillType where
  | solid | pattern | gradient
deriving DecidableEq, Repr, Inhabited

/-- what is handed to the pipeline: nothing, the hatch lines of the pattern (`draw_hatch_pattern`), one unfilled path per boundary
    loop (`draw_path`), or ONE call of `draw_filled_paths` with all loops -/
inductive HatchOut where
  | nothing | patternLines | outline (loops : Nat) | filled (loops : Nat)
deriving DecidableEq, Repr, Inhabited

/-- `UniversalFrontend.draw_hatch_entity` for a HATCH: `hasFilling` = `properties.filling is not None`, `ft` the resolved filling type,
    `dense` = `draw_hatch_pattern` raises DenseHatchingLinesError, `loops` = number of closed boundary loops that are not text boxes -/
def hatchDecision (hasFilling : Bool) (pol : HatchPolicy) (ft : FillType) (dense : Bool) (loops : Nat) : HatchOut :=
  if !hasFilling then .nothing
  else
    match pol with
    | .ignore => .nothing
    | .showOutline => if loops = 0 then .nothing else .outline loops   -- filling := solid, show_only_outline
    | .showSolid => if loops = 0 then .nothing else .filled loops      -- filling := solid
    | _ =>
      if ft = .pattern ∧ !dense then .patternLines
      else if loops = 0 then .nothing else .filled loops

/-! ## predicates used by the property statements -/

/-- no layer table entry hides `name` (the layer is on, thawed and plotted, or undefined) -/
def LayerShown (ctx : Ctx) (name : String) : Prop :=
  ∀ lp, ctx.lookup (layerKey name) = some lp → lp.visible = true

/-- (cos, sin) of a rotation by a multiple of 90° -/
def AxisUnit (d : P2) : Prop := d = ⟨1, 0⟩ ∨ d = ⟨0, 1⟩ ∨ d = ⟨-1, 0⟩ ∨ d = ⟨0, -1⟩

/-- (cos, sin) of any rotation with rational cosine and sine -/
def UnitDir (d : P2) : Prop := d.x * d.x + d.y * d.y = 1

/-- linear part of a composition of translations, axis scalings/mirrors and quarter turns -/
def Monomial (m : Aff) : Prop :=
  (m.b = 0 ∧ m.c = 0 ∧ m.a ≠ 0 ∧ m.d ≠ 0) ∨ (m.a = 0 ∧ m.d = 0 ∧ m.b ≠ 0 ∧ m.c ≠ 0)

/-- linear part = `k` · (rotation or reflection), `k > 0` rational: compositions of translations, rotations by any
    rational (cos, sin), uniform scalings and mirrors -/
def Similarity (m : Aff) (k : Rat) : Prop :=
  0 < k ∧ m.a * m.a + m.b * m.b = k * k ∧ ((m.c = -m.b ∧ m.d = m.a) ∨ (m.c = m.b ∧ m.d = -m.a))

/-- a block reference of the quarter-turn class: rotated by a multiple of 90°, non-zero scale factors (mirrors allowed) -/
def InsQuarter (i : Ins) : Prop := AxisUnit i.dir ∧ i.sx ≠ 0 ∧ i.sy ≠ 0
def EntsQuarter (ents : List Ent) : Prop := ∀ i, Ent.ins i ∈ ents → InsQuarter i
def DocQuarter (doc : Doc) : Prop := ∀ b ∈ doc.blocks, EntsQuarter b.ents

/-- a block reference of the uniform class: any rotation, `|xscale| = |yscale| ≠ 0` (mirrors allowed) -/
def InsUniform (i : Ins) : Prop := UnitDir i.dir ∧ i.sx ≠ 0 ∧ (i.sy = i.sx ∨ i.sy = -i.sx)
def EntsUniform (ents : List Ent) : Prop := ∀ i, Ent.ins i ∈ ents → InsUniform i
def DocUniform (doc : Doc) : Prop := ∀ b ∈ doc.blocks, EntsUniform b.ents

/-- well-formed references of a layout: unit direction, non-zero scale factors -/
def InsWF (i : Ins) : Prop := UnitDir i.dir ∧ i.sx ≠ 0 ∧ i.sy ≠ 0
def EntsWF (ents : List Ent) : Prop := ∀ i, Ent.ins i ∈ ents → InsWF i

end EzdxfVerif.Render

/-
Model of the drawing add-on front end (DESIGN.md section 7, C18), core Lean only:

  * `src/ezdxf/addons/drawing/properties.py`  `RenderContext.resolve_layer_properties`, `_true_layer_color`,
    `_true_layer_lineweight`, `resolve_all`, `resolve_layer`, `resolve_color`, `resolve_pen`, `_entity_alpha_str`,
    `_true_entity_color`, `_aci_to_true_color`, `resolve_linetype` (name only), `resolve_lineweight`,
    `resolve_visible`, `push_state`, `pop_state`, `inside_block_reference`, `DEFAULT_LAYER_PROPERTIES`;
  * `src/ezdxf/addons/drawing/frontend.py`  `_draw_entities`, `draw_entity`, `draw_composite_entity/draw_insert`,
    the leaf draw methods for LINE, POINT (pdmode 0, "defpoints" quirk), LWPOLYLINE without width/bulge
    (`path.tools.add_2d_polyline`), SOLID (`Solid.vertices` order quirk), CIRCLE (center only);
  * `src/ezdxf/explode.py` `virtual_block_reference_entities` (copy, skip ATTDEF, transform by `matrix44()`);
  * `src/ezdxf/entities/insert.py` `Insert.matrix44` (`xfOf`) and `Insert.transform` =
    `math/transformtools.py InsertCoordinateSystem.transform` (`transformIns`) for z = 0, zscale = 1,
    extrusion (0,0,±1).

The model copies the code, not the intention:
  * `Insert.transform(m)` (InsertCoordinateSystem.transform, after fix 603b8b3fe) measures the new x/y scale factors on
    the images of the block reference's own axes (OCS axes rotated by `rotation`); the pre-fix computation on the
    unrotated OCS axes is kept as `transformInsPreFix` for the regression fact `regression_prefix_transform_unlawful`
    in Props/C18.lean only;
  * vector norms: the model uses `|x| + |y|`, which is the Euclidean norm exactly for axis-aligned vectors;
    the model is therefore valid for rotations by multiples of 90° only (`Ins.dir` one of (±1,0), (0,±1));
    the orthogonality test of `InsertCoordinateSystem.transform` (`InsertTransformationError` fall-back) is
    unreachable for such `m` (rows of a `matrix44()` are orthogonal) and is not modelled;
  * the layer table lookup uses `layer_key` (= `str.lower`), the comparison with layer "0" does not;
    an undefined layer gives `DEFAULT_LAYER_PROPERTIES` (white, not the layout foreground colour);
  * `LayerProperties.pen` is the raw `layer.dxf.color`, negative for a layer that is off;
  * INSERT visibility ignores the layer state; ATTRIBs are drawn before the block content, inside the
    pushed block-reference state, and are not transformed by the INSERT they are attached to;
  * the front end has no cycle guard: unbounded recursion (`RecursionError`) is the fuel running out;
    a missing block definition is `DXFStructureError`.
Python's stack (`list.append` / `list.pop`) is a cons list with the top at the head.
-/
namespace EzdxfVerif.Render

/-! ## numbers, points, affine maps -/

structure P2 where
  x : Rat
  y : Rat
deriving DecidableEq, Repr, Inhabited

/-- `Matrix44` restricted to x, y (row vector convention): `p ↦ (x*a + y*c + tx, x*b + y*d + ty)`;
    `(a, b)` is the image of the x-axis (row 0), `(c, d)` of the y-axis (row 1), `(tx, ty)` row 3 -/
structure Aff where
  a : Rat
  b : Rat
  c : Rat
  d : Rat
  tx : Rat
  ty : Rat
deriving DecidableEq, Repr, Inhabited

namespace Aff
def id : Aff := ⟨1, 0, 0, 1, 0, 0⟩
/-- `Matrix44.transform` -/
def apply (m : Aff) (p : P2) : P2 := ⟨p.x * m.a + p.y * m.c + m.tx, p.x * m.b + p.y * m.d + m.ty⟩
/-- `Matrix44.transform_direction` -/
def lin (m : Aff) (p : P2) : P2 := ⟨p.x * m.a + p.y * m.c, p.x * m.b + p.y * m.d⟩
/-- `f @ g`: first `f`, then `g` -/
def comp (f g : Aff) : Aff :=
  ⟨f.a * g.a + f.b * g.c, f.a * g.b + f.b * g.d, f.c * g.a + f.d * g.c, f.c * g.b + f.d * g.d,
   f.tx * g.a + f.ty * g.c + g.tx, f.tx * g.b + f.ty * g.d + g.ty⟩
end Aff

def rabs (a : Rat) : Rat := if 0 ≤ a then a else -a
/-- `Vec3.magnitude` for AXIS-ALIGNED vectors (one component zero) -/
def mag (v : P2) : Rat := rabs v.x + rabs v.y
/-- `Vec3.normalize` for axis-aligned vectors -/
def unit (v : P2) : P2 := ⟨v.x / mag v, v.y / mag v⟩

/-! ## colours, properties -/

/-- "#rrggbb" plus optional two hex digits of alpha -/
structure Color where
  rgb : Nat
  alpha : Option Nat
deriving DecidableEq, Repr, Inhabited

/-- DXF attributes of a graphical entity that the front end reads -/
structure EProps where
  layer : String
  color : Int
  trueColor : Option Nat
  linetype : String
  lineweight : Int
  invisible : Bool
  transparency : Option Nat
deriving DecidableEq, Repr, Inhabited

/-- LAYER table entry as stored: `dxf.color` is negative for "off", `flags` bit 1 = frozen, bit 4 = locked;
    `transparency` is the raw value of the AcCmTransparency XDATA -/
structure RawLayer where
  name : String
  color : Int
  trueColor : Option Nat
  transparency : Option Nat
  linetype : String
  lineweight : Int
  flags : Nat
  plot : Bool
deriving DecidableEq, Repr, Inhabited

/-- `LayerProperties` -/
structure LayerProps where
  layer : String
  color : Color
  hasAci7 : Bool
  pen : Int
  linetype : String
  lineweight : Rat
  visible : Bool
deriving DecidableEq, Repr, Inhabited

/-- resolved `Properties` (fields used here) -/
structure RProps where
  layer : String
  color : Color
  pen : Int
  linetype : String
  lineweight : Rat
  visible : Bool
deriving DecidableEq, Repr, Inhabited

/-- `RenderContext`: `layers` is the dict `layer_key(name) ↦ LayerProperties`, `fg` the layout default colour,
    `aci` the table `plot_styles[aci].color` -/
structure Ctx where
  layers : List (String × LayerProps)
  fg : Nat
  aci : List Nat
deriving Repr, Inhabited

def BYLAYER : Int := 256
def BYBLOCK : Int := 0
def BYOBJECT : Int := 257
def LINEWEIGHT_BYLAYER : Int := -1
def LINEWEIGHT_BYBLOCK : Int := -2
def LINEWEIGHT_DEFAULT : Int := -3
def TRANSPARENCY_BYBLOCK : Nat := 0x01000000
/-- `RenderContext.default_lineweight()` -/
def defaultLineweight : Rat := 1 / 4
def minLineweight : Rat := 1 / 100
def FROZEN : Nat := 1

/-- `layer_key` = `validator.make_table_key` = `str.lower` (ASCII) -/
def layerKey (s : String) : String := s.map Char.toLower
/-- `str.upper` (ASCII) -/
def upper (s : String) : String := s.map Char.toUpper

/-- `DEFAULT_LAYER_PROPERTIES = LayerProperties()` -/
def defaultLayer : LayerProps :=
  { layer := "0", color := ⟨0xFFFFFF, none⟩, hasAci7 := false, pen := 7, linetype := "CONTINUOUS",
    lineweight := 1 / 4, visible := true }

/-- `_aci_to_true_color` -/
def aciToTrue (fg : Nat) (aci : List Nat) (a : Nat) : Nat := if a = 7 then fg else aci.getD a 0

/-- `transparency_to_alpha(layer.transparency)`: `Layer.transparency` is 0.0 unless bit 0x02000000 is set;
    the float round trip `transparency_to_alpha ∘ transparency2float` is the identity on 0..255
    (tabulated into Gen/RenderTables, theorem `tie_layer_alpha`) -/
def layerAlpha (t : Option Nat) : Nat :=
  match t with
  | none => 255
  | some t => if t &&& 0x02000000 ≠ 0 then t &&& 0xFF else 255

/-- `resolve_layer_properties` -/
def resolveLayerProps (fg : Nat) (aci : List Nat) (exportMode : Bool) (l : RawLayer) : LayerProps :=
  let rgb : Nat :=
    match l.trueColor with
    | some tc => tc &&& 0xFFFFFF
    | none =>
      let a := l.color.natAbs
      let a := if a < 1 ∨ a > 255 then 7 else a
      aciToTrue fg aci a
  let alpha := layerAlpha l.transparency
  { layer := l.name
    color := ⟨rgb, if alpha < 255 then some alpha else none⟩
    hasAci7 := l.trueColor.isNone && decide (l.color = 7)
    pen := l.color
    linetype := upper l.linetype
    lineweight := if l.lineweight < 0 then defaultLineweight else (l.lineweight : Rat) / 100
    visible := (decide (0 ≤ l.color) && decide (l.flags &&& FROZEN = 0)) && (!exportMode || l.plot) }

/-- `_setup_layers` + layout default colour -/
def mkCtx (fg : Nat) (aci : List Nat) (exportMode : Bool) (ls : List RawLayer) : Ctx :=
  { layers := ls.map (fun l => let p := resolveLayerProps fg aci exportMode l; (layerKey p.layer, p))
    fg := fg, aci := aci }

/-- `self.layers.get(key)`; the keys of a layer table are unique -/
def Ctx.lookup (ctx : Ctx) (key : String) : Option LayerProps :=
  (ctx.layers.find? (fun p => p.1 = key)).map (·.2)

/-- `resolve_layer` -/
def resolveLayer (cur : Option RProps) (e : EProps) : String :=
  match cur with
  | some c => if e.layer = "0" then c.layer else e.layer
  | none => e.layer

/-- `_true_entity_color` -/
def trueEntityColor (ctx : Ctx) (tc : Option Nat) (aci : Int) : Nat :=
  match tc with
  | some v => v &&& 0xFFFFFF
  | none => if 0 < aci ∧ aci < 256 then aciToTrue ctx.fg ctx.aci aci.toNat else ctx.fg

/-- `_entity_alpha_str` -/
def entityAlpha (cur : Option RProps) (tr : Option Nat) (layerColor : Color) : Option Nat :=
  match tr with
  | none => layerColor.alpha
  | some t =>
    if t = TRANSPARENCY_BYBLOCK then
      match cur with
      | some c => c.color.alpha
      | none => none
    else
      let a := t &&& 0xFF
      if a < 255 then some a else none

/-- `resolve_color` (`lp` = `layers.get(key, DEFAULT_LAYER_PROPERTIES)`) -/
def resolveColor (ctx : Ctx) (cur : Option RProps) (e : EProps) (lp : LayerProps) : Color :=
  let aci : Int := if e.trueColor.isSome then 7 else e.color
  let rgb : Nat :=
    if aci = BYLAYER then (if lp.hasAci7 then ctx.fg else lp.color.rgb)
    else if aci = BYBLOCK then
      match cur with
      | none => ctx.fg
      | some c => c.color.rgb
    else trueEntityColor ctx e.trueColor aci
  ⟨rgb, entityAlpha cur e.transparency lp.color⟩

/-- `resolve_pen` -/
def resolvePen (cur : Option RProps) (e : EProps) (lp : LayerProps) : Int :=
  if e.color = BYLAYER then lp.pen
  else if e.color = BYBLOCK then
    match cur with
    | none => 7
    | some c => c.pen
  else if e.color = BYOBJECT then 7
  else e.color

/-- `resolve_linetype` (name) -/
def resolveLinetype (cur : Option RProps) (e : EProps) (lp : LayerProps) : String :=
  let name := upper e.linetype
  if name = "BYLAYER" then lp.linetype
  else if name = "BYBLOCK" then
    match cur with
    | some c => c.linetype
    | none => "STANDARD"
  else name

/-- `resolve_lineweight` (default plot style table: no CTB override) -/
def resolveLineweight (cur : Option RProps) (e : EProps) (lp : LayerProps) : Rat :=
  let lw : Rat :=
    if e.lineweight = LINEWEIGHT_BYLAYER then lp.lineweight
    else if e.lineweight = LINEWEIGHT_BYBLOCK then
      match cur with
      | some c => c.lineweight
      | none => defaultLineweight
    else if e.lineweight = LINEWEIGHT_DEFAULT then defaultLineweight
    else (e.lineweight : Rat) / 100
  if minLineweight < lw then lw else minLineweight

/-- `resolve_visible`; `isInsert`: INSERT entity, `attribInvisible`: `Attrib.is_invisible` (false for other entities) -/
def resolveVisible (ctx : Ctx) (isInsert attribInvisible : Bool) (key : String) (e : EProps) : Bool :=
  if isInsert then !e.invisible
  else
    match ctx.lookup key with
    | some lp => if !lp.visible then false else (!e.invisible && !attribInvisible)
    | none => !e.invisible && !attribInvisible

/-- `resolve_all` -/
def resolveAll (ctx : Ctx) (cur : Option RProps) (isInsert attribInvisible : Bool) (e : EProps) : RProps :=
  let layer := resolveLayer cur e
  let key := layerKey layer
  let lp := (ctx.lookup key).getD defaultLayer
  { layer := layer
    color := resolveColor ctx cur e lp
    pen := resolvePen cur e lp
    linetype := resolveLinetype cur e lp
    lineweight := resolveLineweight cur e lp
    visible := resolveVisible ctx isInsert attribInvisible key e }

/-! ## entities, documents -/

inductive Kind where
  | line | point | polyline (closed : Bool) | solid | circle | attdef
deriving DecidableEq, Repr, Inhabited

structure Attrib where
  props : EProps
  flag : Bool
  pos : P2
deriving DecidableEq, Repr, Inhabited

/-- INSERT: `pos` is `dxf.insert` (OCS), `dir` = (cos, sin) of `dxf.rotation`, `flip`: extrusion (0,0,-1) -/
structure Ins where
  props : EProps
  name : String
  pos : P2
  sx : Rat
  sy : Rat
  dir : P2
  flip : Bool
  attribs : List Attrib
deriving DecidableEq, Repr, Inhabited

inductive Ent where
  | leaf (k : Kind) (p : EProps) (pts : List P2)
  | ins (i : Ins)
deriving DecidableEq, Repr, Inhabited

structure Block where
  name : String
  base : P2
  ents : List Ent
deriving Repr, Inhabited

structure Doc where
  blocks : List Block
deriving Repr, Inhabited

/-- `doc.blocks.get(name)` (case insensitive key) -/
def Doc.find (doc : Doc) (name : String) : Option Block :=
  doc.blocks.find? (fun b => layerKey b.name = layerKey name)

inductive PKind where
  | line | point | path | fill | curve | attrib | attdef
deriving DecidableEq, Repr, Inhabited

/-- what reaches the backend: kind of primitive, `BackendProperties` (+ linetype name), coordinates -/
structure Prim where
  kind : PKind
  color : Color
  pen : Int
  layer : String
  linetype : String
  lineweight : Rat
  pts : List P2
deriving DecidableEq, Repr, Inhabited

def mkPrim (k : PKind) (rp : RProps) (pts : List P2) : Prim :=
  ⟨k, rp.color, rp.pen, rp.layer, rp.linetype, rp.lineweight, pts⟩

/-- OCS x-axis sign: `OCS((0,0,-1)).ux = (-1,0,0)`, `uy = (0,1,0)` -/
def exSign (flip : Bool) : Rat := if flip then -1 else 1
/-- `ocs.to_wcs` = `ocs.from_wcs` for extrusion (0,0,±1), z = 0 -/
def ocsFlip (flip : Bool) (p : P2) : P2 := ⟨exSign flip * p.x, p.y⟩

/-- `Insert.matrix44()`: `Matrix44.ucs(ux*sx, uy*sy, uz*sz) * axis_rotate(extrusion, angle)`, row 3 =
    `ocs.to_wcs(insert) - m.transform_direction(base_point)` -/
def xfOf (i : Ins) (base : P2) : Aff :=
  let ex := exSign i.flip
  let c := i.dir.x
  let s := i.dir.y
  -- rotation about (0,0,ez) in row vector convention: ez = 1: rows (c, s), (-s, c); ez = -1: rows (c, -s), (s, c)
  let r00 := c
  let r01 := if i.flip then -s else s
  let r10 := if i.flip then s else -s
  let r11 := c
  let l : Aff := ⟨ex * i.sx * r00, ex * i.sx * r01, i.sy * r10, i.sy * r11, 0, 0⟩
  let b := l.lin base
  let o := ocsFlip i.flip i.pos
  { l with tx := o.x - b.x, ty := o.y - b.y }

def transformAttrib (m : Aff) (a : Attrib) : Attrib := { a with pos := m.apply a.pos }

/-- `Insert.transform(m)` = `InsertCoordinateSystem.transform` + `attrib.transform(m)` for every attached ATTRIB.
    `x_axis = ocs.to_wcs(Vec3.from_angle(angle))`, `y_axis = ocs.to_wcs(Vec3.from_angle(angle + pi/2))` -/
def transformIns (m : Aff) (i : Ins) : Ins :=
  let ex := exSign i.flip
  let ux := m.lin (ocsFlip i.flip i.dir)
  let uy := m.lin (ocsFlip i.flip ⟨-i.dir.y, i.dir.x⟩)
  let xs := mag ux * i.sx
  let ys := mag uy * i.sy
  let uxn := unit ux
  let uyn := unit uy
  -- expected_uy = uz.cross(ux), uz = (0, 0, ez)
  let expected : P2 := ⟨-(ex * uxn.y), ex * uxn.x⟩
  let ys := if expected = uyn then ys else -ys
  { i with
    pos := ocsFlip i.flip (m.apply (ocsFlip i.flip i.pos))
    sx := xs
    sy := ys
    dir := unit (ocsFlip i.flip (m.lin (ocsFlip i.flip i.dir)))
    attribs := i.attribs.map (transformAttrib m) }

/-- the computation BEFORE fix 603b8b3fe (scale factors from the images of the unrotated OCS axes); not used by the
    model, only by the regression fact in Props/C18.lean -/
def transformInsPreFix (m : Aff) (i : Ins) : Ins :=
  let ex := exSign i.flip
  let ux := m.lin ⟨ex, 0⟩
  let uy := m.lin ⟨0, 1⟩
  let xs := mag ux * i.sx
  let ys := mag uy * i.sy
  let uxn := unit ux
  let uyn := unit uy
  let expected : P2 := ⟨-(ex * uxn.y), ex * uxn.x⟩
  let ys := if expected = uyn then ys else -ys
  { i with
    pos := ocsFlip i.flip (m.apply (ocsFlip i.flip i.pos))
    sx := xs
    sy := ys
    dir := unit (ocsFlip i.flip (m.lin (ocsFlip i.flip i.dir)))
    attribs := i.attribs.map (transformAttrib m) }

/-- `entity.transform(m)` of a copied block entity -/
def transformEnt (m : Aff) : Ent → Ent
  | .leaf k p pts => .leaf k p (pts.map m.apply)
  | .ins i => .ins (transformIns m i)

def isAttdef : Ent → Bool
  | .leaf .attdef _ _ => true
  | _ => false

/-- `virtual_block_reference_entities`: copies of the block content (ATTDEF skipped) transformed by `m` -/
def virtualEntities (m : Aff) (b : Block) : List Ent :=
  (b.ents.filter (fun e => !isAttdef e)).map (transformEnt m)

/-- the leaf draw methods of the front end -/
def emitLeaf (k : Kind) (rp : RProps) (pts : List P2) : List Prim :=
  match k with
  | .line => [mkPrim .line rp pts]
  | .point => if layerKey rp.layer = "defpoints" then [] else [mkPrim .point rp pts]
  | .attdef => [mkPrim .attdef rp pts]
  | .circle => [mkPrim .curve rp pts]
  | .polyline closed =>
    match pts with
    | [] => []
    | [_] => []
    | p0 :: rest =>
      let all := p0 :: rest
      if closed ∧ all.getLast? ≠ some p0 then [mkPrim .path rp (all ++ [p0])] else [mkPrim .path rp all]
  | .solid =>
    match pts with
    | [v0, v1, v2, v3] => if v3 ≠ v2 then [mkPrim .fill rp [v0, v1, v3, v2]] else [mkPrim .fill rp [v0, v1, v2]]
    | _ => []

/-- `draw_entities(insert.attribs)` with the block reference state `cur` already pushed -/
def drawAttribs (ctx : Ctx) (cur : Option RProps) (as : List Attrib) : List Prim :=
  as.flatMap (fun a =>
    let ra := resolveAll ctx cur false a.flag a.props
    if ra.visible then [mkPrim .attrib ra [a.pos]] else [])

/-! ## the traversal with the block reference state stack -/

inductive Err where
  | recursion   -- RecursionError (no cycle guard in the front end)
  | structure   -- DXFStructureError: required block definition does not exist
  | index       -- IndexError: pop from empty list
deriving DecidableEq, Repr, Inhabited

/-- `current_block_reference_properties` and `_saved_states` -/
structure State where
  current : Option RProps
  saved : List (Option RProps)
deriving DecidableEq, Repr, Inhabited

def State.init : State := ⟨none, []⟩
/-- `push_state` -/
def State.push (st : State) (p : RProps) : State := ⟨some p, st.current :: st.saved⟩
/-- `pop_state` -/
def State.pop (st : State) : Except Err State :=
  match st.saved with
  | [] => .error .index
  | s :: rest => .ok ⟨s, rest⟩

/-- `_draw_entities` → `draw_entity` → `draw_composite_entity`; `fuel` bounds the nesting depth -/
def drawEnts (doc : Doc) (ctx : Ctx) : Nat → List Ent → State → Except Err (List Prim × State)
  | _, [], st => .ok ([], st)
  | fuel, .leaf k p pts :: es, st =>
    let rp := resolveAll ctx st.current false false p
    if rp.visible then
      match drawEnts doc ctx fuel es st with
      | .ok (out, st') => .ok (emitLeaf k rp pts ++ out, st')
      | .error e => .error e
    else drawEnts doc ctx fuel es st
  | fuel, .ins i :: es, st =>
    let rp := resolveAll ctx st.current true false i.props
    if rp.visible then
      match fuel with
      | 0 => .error .recursion
      | fuel' + 1 =>
        let st1 := st.push rp
        let o1 := drawAttribs ctx st1.current i.attribs
        match doc.find i.name with
        | none => .error .structure
        | some blk =>
          match drawEnts doc ctx fuel' (virtualEntities (xfOf i blk.base) blk) st1 with
          | .error e => .error e
          | .ok (o2, st2) =>
            match st2.pop with
            | .error e => .error e
            | .ok st3 =>
              match drawEnts doc ctx (fuel' + 1) es st3 with
              | .ok (o3, st4) => .ok (o1 ++ o2 ++ o3, st4)
              | .error e => .error e
    else drawEnts doc ctx fuel es st
termination_by fuel ents => (fuel, ents.length)
decreasing_by
  all_goals simp_wf
  all_goals first
    | (apply Prod.Lex.right; simp)
    | (apply Prod.Lex.left; omega)

/-- `Frontend.draw_layout` with fuel = number of block definitions + 1 (enough for every acyclic document) -/
def drawLayout (doc : Doc) (ctx : Ctx) (ents : List Ent) : Except Err (List Prim × State) :=
  drawEnts doc ctx (doc.blocks.length + 1) ents State.init

/-! ## specification: what the document defines -/

mutual
/-- the block tree: a reference with the content of the referenced block (in block coordinates) -/
inductive Tree where
  | leaf (k : Kind) (p : EProps) (pts : List P2)
  | node (i : Ins) (base : P2) (children : Forest)
inductive Forest where
  | nil
  | cons (t : Tree) (f : Forest)
end

namespace Spec

def mapAttribs (acc : Aff) (as : List Attrib) : List Attrib := as.map (transformAttrib acc)

/-- Primitives of a forest by structural recursion: `env` = resolved properties of the enclosing reference
    (`none` at layout level), `acc` = product of the reference matrices along the path (innermost first). -/
def flatten (ctx : Ctx) : Option RProps → Aff → Forest → List Prim
  | _, _, .nil => []
  | env, acc, .cons (.leaf k p pts) rest =>
    let rp := resolveAll ctx env false false p
    (if rp.visible then emitLeaf k rp (pts.map acc.apply) else []) ++ flatten ctx env acc rest
  | env, acc, .cons (.node i base ch) rest =>
    let rp := resolveAll ctx env true false i.props
    (if rp.visible then
        drawAttribs ctx (some rp) (mapAttribs acc i.attribs) ++ flatten ctx (some rp) ((xfOf i base).comp acc) ch
      else []) ++ flatten ctx env acc rest

end Spec

def Forest.append : Forest → Forest → Forest
  | .nil, g => g
  | .cons t f, g => .cons t (Forest.append f g)

/-- `Insert.transform(m)` is lawful for `i`: the transformed INSERT has the matrix `matrix44(i) @ m` -/
def lawful (m : Aff) (i : Ins) (base : P2) : Bool :=
  decide (xfOf (transformIns m i) base = (xfOf i base).comp m)

/-- Unfolding of the block graph into the block tree; `none` if a block is missing or the nesting is deeper than
    `fuel` (cycle). -/
def unfold (doc : Doc) : Nat → List Ent → Option Forest
  | _, [] => some .nil
  | fuel, .leaf k p pts :: es =>
    match unfold doc fuel es with
    | some rest => some (.cons (.leaf k p pts) rest)
    | none => none
  | 0, .ins _ :: _ => none
  | fuel' + 1, .ins i :: es =>
    match doc.find i.name with
    | none => none
    | some blk =>
      match unfold doc fuel' (blk.ents.filter (fun e => !isAttdef e)) with
      | none => none
      | some ch =>
        match unfold doc (fuel' + 1) es with
        | some rest => some (.cons (.node i blk.base ch) rest)
        | none => none
termination_by fuel ents => (fuel, ents.length)
decreasing_by
  all_goals simp_wf
  all_goals first
    | (apply Prod.Lex.right; simp)
    | (apply Prod.Lex.left; omega)

/-- every block reference reachable from `ents` resolves within nesting depth `fuel` (acyclic and closed) -/
def reach (doc : Doc) : Nat → List Ent → Bool
  | _, [] => true
  | fuel, .leaf _ _ _ :: es => reach doc fuel es
  | 0, .ins _ :: _ => false
  | fuel' + 1, .ins i :: es =>
    match doc.find i.name with
    | none => false
    | some blk => reach doc fuel' blk.ents && reach doc (fuel' + 1) es
termination_by fuel ents => (fuel, ents.length)
decreasing_by
  all_goals simp_wf
  all_goals first
    | (apply Prod.Lex.right; simp)
    | (apply Prod.Lex.left; omega)

/-! ## predicates used by the property statements -/

/-- no layer table entry hides `name` (the layer is on, thawed and plotted, or undefined) -/
def LayerShown (ctx : Ctx) (name : String) : Prop :=
  ∀ lp, ctx.lookup (layerKey name) = some lp → lp.visible = true

/-- (cos, sin) of a rotation by a multiple of 90° -/
def AxisUnit (d : P2) : Prop := d = ⟨1, 0⟩ ∨ d = ⟨0, 1⟩ ∨ d = ⟨-1, 0⟩ ∨ d = ⟨0, -1⟩

/-- linear part of a composition of translations, axis scalings/mirrors and quarter turns -/
def Monomial (m : Aff) : Prop :=
  (m.b = 0 ∧ m.c = 0 ∧ m.a ≠ 0 ∧ m.d ≠ 0) ∨ (m.a = 0 ∧ m.d = 0 ∧ m.b ≠ 0 ∧ m.c ≠ 0)

/-- a block reference of the modelled class: rotated by a multiple of 90°, non-zero scale factors (mirrors allowed) -/
def InsQuarter (i : Ins) : Prop := AxisUnit i.dir ∧ i.sx ≠ 0 ∧ i.sy ≠ 0
def EntsQuarter (ents : List Ent) : Prop := ∀ i, Ent.ins i ∈ ents → InsQuarter i
def DocQuarter (doc : Doc) : Prop := ∀ b ∈ doc.blocks, EntsQuarter b.ents

end EzdxfVerif.Render

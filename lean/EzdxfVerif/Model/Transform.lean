/-
Transform: executable model of "transforming an entity" (property C12), core Lean only.

Arithmetic kernels are NOT written here: `Gen/TransformKernels.lean` is regenerated on every run from /repo's
`math/_matrix44.py`, `math/ucs.py`, `math/transformtools.py` (Matrix44.transform / transform_direction, OCS.to_wcs /
from_wcs, every arithmetic method of OCSTransform, transform_extrusion after its OCS construction, the scale / orthogonality
part of InsertCoordinateSystem.transform).  Hand-written here: the control flow of the per-entity `transform()` methods
(entities/line.py, circle.py, arc.py, lwpolyline.py, solid.py, insert.py), of `upright.py`, and of the recursive block
reference expansion (explode.py), each tied to the real code by the correspondence streams of harness/props/c12.py.

Conventions
* numbers are exact rationals; `sqrt` values enter as a function parameter `sqrt : Rat → Rat`, theorems assume
  `sqrt x * sqrt x = x ∧ 0 ≤ sqrt x` only for the radicands that are actually evaluated;
* angles are unit direction vectors (c, s); a transformed direction is kept UN-normalised (the code takes `atan2` of it,
  which does not depend on the length);
* an OCS object is the pair (transform flag, matrix) exactly as `ezdxf.math.OCS` stores it.
-/
import EzdxfVerif.Model.Rat3
import EzdxfVerif.Gen.TransformKernels

namespace EzdxfVerif.Transform
open EzdxfVerif.Rat3
open EzdxfVerif.Gen

/-- errors of the transformation interface (`transformtools.py`) plus the ZeroDivisionError of `Vec3.normalize` -/
inductive TErr where
  | nonUniformScaling | insertTransformation | zeroDivision
deriving DecidableEq, Repr

/-! ## OCS objects and OCSTransform -/

/-- `ezdxf.math.OCS`: `transform = False` means "extrusion is +Z, pass coordinates through" -/
structure Ocs where
  t : Bool
  m : M44
deriving DecidableEq, Repr

namespace Ocs
def std : Ocs := ⟨false, M44.identity⟩
/-- the OCS of the extrusion (0, 0, -1): Ax = (-1, 0, 0), Ay = (0, 1, 0), Az = (0, 0, -1) (arbitrary axis algorithm) -/
def negZ : Ocs := ⟨true, ⟨-1, 0, 0, 0, 0, 1, 0, 0, 0, 0, -1, 0, 0, 0, 0, 1⟩⟩
def ux (o : Ocs) : V3 := if o.t then o.m.ux else ⟨1, 0, 0⟩
def uy (o : Ocs) : V3 := if o.t then o.m.uy else ⟨0, 1, 0⟩
def uz (o : Ocs) : V3 := if o.t then o.m.uz else ⟨0, 0, 1⟩
def toWcs (o : Ocs) (p : V3) : V3 := TransformKernels.ocsToWcs o.t o.m p
def fromWcs (o : Ocs) (p : V3) : V3 := TransformKernels.ocsFromWcs o.t o.m p
/-- what `OCS.__init__` establishes for every non-zero extrusion (proved in property C11, `ocs_axes`) -/
def Orthonormal (o : Ocs) : Prop :=
  V3.dot o.ux o.ux = 1 ∧ V3.dot o.uy o.uy = 1 ∧ V3.dot o.uz o.uz = 1 ∧
  V3.dot o.ux o.uy = 0 ∧ V3.dot o.ux o.uz = 0 ∧ V3.dot o.uy o.uz = 0
instance (o : Ocs) : Decidable (Orthonormal o) := by unfold Orthonormal; infer_instance
def RightHanded (o : Ocs) : Prop := V3.cross o.ux o.uy = o.uz
instance (o : Ocs) : Decidable (RightHanded o) := by unfold RightHanded; infer_instance
end Ocs

def apply (m : M44) (p : V3) : V3 := TransformKernels.mTransform m p
def applyDir (m : M44) (v : V3) : V3 := TransformKernels.mTransformDirection m v
def magSq (v : V3) : Rat := V3.dot v v

/-- `OCSTransform`: matrix, old and new OCS, and the `scale_uniform` flag -/
structure OcsT where
  m : M44
  old : Ocs
  new : Ocs
  uniform : Bool
deriving DecidableEq, Repr

namespace OcsT
def vertex (o : OcsT) (v : V3) : V3 := TransformKernels.otVertex o.m o.old.t o.old.m o.new.t o.new.m v
def vertex2d (o : OcsT) (v : V2) (elev : Rat) : V2 := TransformKernels.ot2dVertex o.m o.old.t o.old.m o.new.t o.new.m v elev
def direction (o : OcsT) (v : V3) : V3 := TransformKernels.otDirection o.m o.old.t o.old.m o.new.t o.new.m v
def thickness (o : OcsT) (t : Rat) : Rat := TransformKernels.otThickness o.m o.old.t o.old.m o.new.t o.new.m t
def length (sqrt : Rat → Rat) (o : OcsT) (v : V3) : Rat :=
  TransformKernels.otLengthS sqrt o.m o.old.t o.old.m o.new.t o.new.m v
def lengthR (sqrt : Rat → Rat) (o : OcsT) (v : V3) (reflection : Rat) : Rat :=
  TransformKernels.otLengthRS sqrt o.m o.old.t o.old.m o.new.t o.new.m v reflection
def width (sqrt : Rat → Rat) (o : OcsT) (w : Rat) : Rat :=
  TransformKernels.otWidthS sqrt o.m o.old.t o.old.m o.new.t o.new.m w
/-- images of the old OCS x- and y-axis in WCS -/
def ax (o : OcsT) : V3 := applyDir o.m o.old.ux
def ay (o : OcsT) : V3 := applyDir o.m o.old.uy
def az (o : OcsT) : V3 := applyDir o.m o.old.uz
/-- the planar map old OCS (x, y) -> new OCS (x, y) has the columns `direction e1`, `direction e2`; its determinant -/
def planeDet (o : OcsT) : Rat :=
  (o.direction ⟨1, 0, 0⟩).x * (o.direction ⟨0, 1, 0⟩).y - (o.direction ⟨1, 0, 0⟩).y * (o.direction ⟨0, 1, 0⟩).x
end OcsT

/-- `transform_extrusion(extrusion, m)` after `ocs = OCS(extrusion)`: (new extrusion, is_uniform) -/
def transformExtrusion (sqrt : Rat → Rat) (old : Ocs) (m : M44) : Except PyErr (V3 × Bool) :=
  TransformKernels.extrusionCoreS sqrt old.t old.m m

/-- `sign()` of math/construct2d.py -/
def sign (f : Rat) : Rat := if f < 0 then -1 else 1

/-! ## WCS entities: LINE, POINT, 3DFACE, MESH, SPLINE control/fit points, XLINE/RAY, LEADER -/

/-- `m.transform_vertices(points)` -/
def transformPoints (m : M44) (ps : List V3) : List V3 := ps.map (apply m)

/-- `transform_thickness_and_extrusion_without_ocs(entity, m)`: thickness and extrusion attributes of LINE / POINT
    (`none` = attribute absent; the default extrusion (0, 0, 1) is what `dxf.extrusion` returns then).
    A thickness that is present and non-zero: the thickness vector is transformed, its length (with the old sign) is the new
    thickness and the new extrusion is the normalised vector times that sign.  Otherwise only an existing extrusion is
    transformed and normalised. -/
def thicknessNoOcs (sqrt : Rat → Rat) (m : M44) (thickness : Option Rat) (extrusion : Option V3) :
    Except TErr (Option Rat × Option V3) :=
  let ext := extrusion.getD ⟨0, 0, 1⟩
  let bare : Except TErr (Option Rat × Option V3) :=
    match extrusion with
    | some e =>
      let v := applyDir m e
      let r := sqrt (magSq v)
      if r = 0 then .error .zeroDivision else .ok (thickness, some (V3.smul (1 / r) v))
    | none => .ok (thickness, none)
  match thickness with
  | some t =>
    if t = 0 then bare
    else
      let v := applyDir m (V3.smul t ext)
      let r := sqrt (magSq v)
      if r = 0 then .error .zeroDivision            -- Vec3.normalize of the null vector
      else .ok (some (r * sign t), some (V3.smul (sign t) (V3.smul (1 / r) v)))
  | none => bare

structure Line where
  start : V3
  stop : V3
  thickness : Option Rat
  extrusion : Option V3
deriving DecidableEq, Repr

/-- `Line.transform` -/
def Line.transform (sqrt : Rat → Rat) (m : M44) (l : Line) : Except TErr Line :=
  match thicknessNoOcs sqrt m l.thickness l.extrusion with
  | .error e => .error e
  | .ok (t, n) => .ok ⟨apply m l.start, apply m l.stop, t, n⟩

/-- the vector along which a LINE / POINT is extruded -/
def thicknessVector (thickness : Option Rat) (extrusion : Option V3) : V3 :=
  V3.smul (thickness.getD 0) (extrusion.getD ⟨0, 0, 1⟩)

/-! ## OCS entities: CIRCLE, ARC, LWPOLYLINE, SOLID/TRACE -/

structure Circle where
  center : V3          -- OCS
  radius : Rat
  thickness : Option Rat
deriving DecidableEq, Repr

/-- `Circle._transform(ocs)` -/
def Circle.transform (sqrt : Rat → Rat) (o : OcsT) (c : Circle) : Except TErr Circle :=
  if o.uniform then
    .ok ⟨o.vertex c.center, o.length sqrt ⟨c.radius, 0, 0⟩, c.thickness.map o.thickness⟩
  else .error .nonUniformScaling

structure Arc where
  circle : Circle
  s : V2               -- direction of the start angle (unit vector)
  e : V2               -- direction of the end angle
  full : Bool          -- arc_angle_span_deg(s, e) is 360: the angles are left alone
deriving DecidableEq, Repr

def dir2 (o : OcsT) (d : V2) : V2 := let r := o.direction ⟨d.x, d.y, 0⟩; ⟨r.x, r.y⟩

def cross2 (u v : V2) : Rat := u.x * v.y - u.y * v.x
def dot2 (u v : V2) : Rat := u.x * v.x + u.y * v.y

/-- "the counter-clockwise angle from s to e equals the one from s' to e'" — the code decides it by
    `math.isclose(old_span, new_span, rel_tol=1e-8)`; without trigonometry: the vectors (dot, cross) of the two pairs point
    the same way, |sin Δ| ≤ 1e-7 for the angle Δ between them.  (Same decision unless the two spans differ by an amount
    between 1e-8·span and 1e-7; such inputs are not generated.) -/
def spanKept (s e s' e' : V2) : Bool :=
  let c := cross2 s e
  let d := dot2 s e
  let c' := cross2 s' e'
  let d' := dot2 s' e'
  decide ((c * d' - c' * d) * (c * d' - c' * d) ≤ 1 / 100000000000000 * ((c * c + d * d) * (c' * c' + d' * d')) ∧
    0 < c * c' + d * d')

/-- `Arc.transform` + `transform_ccw_arc_angles`: both directions are transformed; they are exchanged when the angle span
    changed ("reversed orientation").  A semicircle (s = -e) cannot be judged by its own span: the code probes the direction
    one radian after the start, the model probes the direction rotated by the rational angle (3/5, 4/5) — the same answer
    whenever the planar map is a similarity. -/
def Arc.transform (sqrt : Rat → Rat) (o : OcsT) (a : Arc) : Except TErr Arc :=
  match Circle.transform sqrt o a.circle with
  | .error e => .error e
  | .ok c =>
    if a.full then .ok ⟨c, a.s, a.e, true⟩
    else
      let s' := dir2 o a.s
      let e' := dir2 o a.e
      let kept :=
        if cross2 a.s a.e = 0 ∧ dot2 a.s a.e < 0 then
          let p : V2 := ⟨3 / 5 * a.s.x - 4 / 5 * a.s.y, 4 / 5 * a.s.x + 3 / 5 * a.s.y⟩
          spanKept a.s p s' (dir2 o p)
        else spanKept a.s a.e s' e'
      if kept then .ok ⟨c, s', e', false⟩ else .ok ⟨c, e', s', false⟩

structure LwVertex where
  x : Rat
  y : Rat
  startWidth : Rat
  endWidth : Rat
  bulge : Rat
deriving DecidableEq, Repr

structure LwPolyline where
  pts : List LwVertex
  elevation : Rat
  constWidth : Option Rat
  thickness : Option Rat
deriving DecidableEq, Repr

def LwPolyline.hasArc (p : LwPolyline) : Bool := p.pts.any (fun v => v.bulge != 0)

/-- `LWPolyline.transform` -/
def LwPolyline.transform (sqrt : Rat → Rat) (o : OcsT) (p : LwPolyline) : Except TErr LwPolyline :=
  if !o.uniform && p.hasArc then .error .nonUniformScaling
  else
    let vs := p.pts.map (fun v => o.vertex ⟨v.x, v.y, p.elevation⟩)
    let pts := List.zipWith (fun (v : V3) (q : LwVertex) =>
      (⟨v.x, v.y, o.width sqrt q.startWidth, o.width sqrt q.endWidth, q.bulge⟩ : LwVertex)) vs p.pts
    let elev := match vs with
      | v :: _ => v.z
      | [] => p.elevation
    .ok ⟨pts, elev, p.constWidth.map (o.width sqrt), p.thickness.map o.thickness⟩

/-- apex of a bulge segment p1 -> p2 (the point of the arc halfway between the end points): mid + (b/2) * (dy, -dx).
    An arc is determined by its two end points and its apex, so "the arc is mapped correctly" is a statement about
    three points -/
def bulgeApex (p1 p2 : V2) (b : Rat) : V2 :=
  ⟨(p1.x + p2.x) / 2 + b / 2 * (p2.y - p1.y), (p1.y + p2.y) / 2 - b / 2 * (p2.x - p1.x)⟩

structure Solid where
  vtx : List V3        -- OCS, the attributes vtx0..vtx3 that exist
  thickness : Option Rat
deriving DecidableEq, Repr

/-- `Solid.transform` -/
def Solid.transform (o : OcsT) (s : Solid) : Solid := ⟨s.vtx.map o.vertex, s.thickness.map o.thickness⟩

/-! ## INSERT -/

structure Ins where
  insert : V3          -- OCS
  sx : Rat
  sy : Rat
  sz : Rat
  rot : V2             -- (cos, sin) of the rotation angle
deriving DecidableEq, Repr

/-- `Insert.matrix44()` for the OCS `o` of the INSERT and the base point of the block: block point p ↦
    p.x·sx·(c·Ux + s·Uy) + p.y·sy·(-s·Ux + c·Uy) + p.z·sz·Uz + (insert in WCS) - (base mapped linearly).
    (The code builds `Matrix44.ucs(Ux·sx, Uy·sy, Uz·sz) * axis_rotate(Uz, angle)`; rotating Ux, Uy about Uz gives the
    two combinations above — tied to `Insert.matrix44` by the correspondence stream X3.) -/
def insertMatrix (o : Ocs) (i : Ins) (base : V3) : M44 :=
  let ex := V3.smul i.sx (V3.add (V3.smul i.rot.x o.ux) (V3.smul i.rot.y o.uy))
  let ey := V3.smul i.sy (V3.add (V3.smul (-i.rot.y) o.ux) (V3.smul i.rot.x o.uy))
  let ez := V3.smul i.sz o.uz
  let org := V3.sub (o.toWcs i.insert)
    (V3.add (V3.add (V3.smul base.x ex) (V3.smul base.y ey)) (V3.smul base.z ez))
  ⟨ex.x, ex.y, ex.z, 0, ey.x, ey.y, ey.z, 0, ez.x, ez.y, ez.z, 0, org.x, org.y, org.z, 1⟩

/-- the rotation of a transformed INSERT is kept as an un-normalised direction; `Insert.matrix44()` sees its angle, i.e. the
    normalised direction -/
def Ins.unitRot (sqrt : Rat → Rat) (i : Ins) : Ins :=
  let r := sqrt (i.rot.x * i.rot.x + i.rot.y * i.rot.y)
  { i with rot := ⟨i.rot.x / r, i.rot.y / r⟩ }

/-- scale / orthogonality part of `InsertCoordinateSystem.transform` (regenerated kernel): (x, y, z scale, new extrusion);
    the x- and y-axis of the block reference are the OCS axes rotated by the rotation angle: the kernel receives the two
    directions `Vec3.from_angle(angle)` = (c, s, 0) and `Vec3.from_angle(angle + pi/2)` = (-s, c, 0);
    `PyErr.valueError` stands for `InsertTransformationError` -/
def icsScales (sqrt : Rat → Rat) (old : Ocs) (m : M44) (i : Ins) (tol : Rat) : Except PyErr (Rat × Rat × Rat × V3) :=
  TransformKernels.icsScalesS sqrt i.sx i.sy i.sz old.t old.m m tol ⟨i.rot.x, i.rot.y, 0⟩ ⟨-i.rot.y, i.rot.x, 0⟩

/-- `InsertCoordinateSystem.transform` + `Insert.transform`: `new` is `OCS(uz)` for the new extrusion `uz` returned by
    `icsScales`; the new rotation is kept as the un-normalised direction `transform_direction((c, s, 0))`.
    The scale factors are measured on the block reference's own (rotated) x- and y-axis. -/
def Ins.transform (sqrt : Rat → Rat) (old new : Ocs) (m : M44) (i : Ins) (tol : Rat) : Except TErr Ins :=
  match icsScales sqrt old m i tol with
  | .error .zeroDivision => .error .zeroDivision
  | .error _ => .error .insertTransformation
  | .ok (xs, ys, zs, _) =>
    let o : OcsT := ⟨m, old, new, true⟩
    .ok ⟨o.vertex i.insert, xs, ys, zs, dir2 o i.rot⟩

/-- MINSERT: `Insert.transform` scales (and mirrors) the grid spacing like the axis it is measured along:
    column_spacing *= xscale' / xscale (if xscale ≠ 0), row_spacing *= yscale' / yscale (if yscale ≠ 0) -/
def minsertSpacing (i i' : Ins) (colSpacing rowSpacing : Rat) : Rat × Rat :=
  (if i.sx = 0 then colSpacing else colSpacing * (i'.sx / i.sx), if i.sy = 0 then rowSpacing else rowSpacing * (i'.sy / i.sy))

/-- direction of the x- and y-axis of a block reference (and of the columns / rows of a MINSERT grid) in WCS -/
def Ins.xAxis (o : Ocs) (i : Ins) : V3 := V3.add (V3.smul i.rot.x o.ux) (V3.smul i.rot.y o.uy)
def Ins.yAxis (o : Ocs) (i : Ins) : V3 := V3.add (V3.smul (-i.rot.y) o.ux) (V3.smul i.rot.x o.uy)

/-- `Insert.multi_insert()`: the grid element (col, row) of a MINSERT is the same reference with the insert moved, in the OCS, by
    the offset (col·column_spacing, row·row_spacing) turned by the rotation (c, s); the scale factors are not applied to the grid -/
def Ins.gridCell (i : Ins) (col row cs rs : Rat) : Ins :=
  { i with insert := ⟨i.insert.x + (col * cs * i.rot.x - row * rs * i.rot.y), i.insert.y + (col * cs * i.rot.y + row * rs * i.rot.x),
                      i.insert.z⟩ }

/-- VERTEX of a 3-D POLYLINE / POLYMESH / POLYFACE: face records carry indices, no location -/
structure MeshVertex where
  loc : V3
  faceRecord : Bool
deriving DecidableEq, Repr

/-- `Polyline.transform` (not 2-D) = `DXFVertex.transform` on every vertex -/
def meshTransform (m : M44) (vs : List MeshVertex) : List MeshVertex :=
  vs.map fun v => if v.faceRecord then v else { v with loc := apply m v.loc }

/-- SHAPE (entities/shape.py): insert is mapped by `m.transform` (the source reads the DXF reference as WCS), the rotation by
    `transform_deg_angle`, the size as the length of the image of (0, size, 0), the x scale as the length of the image of
    (xscale, 0, 0) with the sign of the old x scale (`transform_length(…, reflection=xscale)`), thickness by `transform_thickness` -/
structure Shp where
  insert : V3
  rot : V2
  size : Rat
  xscale : Rat
  thickness : Option Rat
deriving DecidableEq, Repr

def Shp.transform (sqrt : Rat → Rat) (o : OcsT) (s : Shp) : Shp :=
  ⟨apply o.m s.insert, dir2 o s.rot, o.length sqrt ⟨0, s.size, 0⟩, o.lengthR sqrt ⟨s.xscale, 0, 0⟩ s.xscale, s.thickness.map o.thickness⟩

/-! ## Nested block references (explode.py: virtual_block_reference_entities, any depth) -/

/-- block content: WCS points (standing for every entity that obeys the linear law) and references to other blocks;
    a reference carries the matrix `Insert.matrix44()` of the INSERT and the content of the referenced block -/
inductive Node where
  | point (p : V3)
  | ref (m : M44) (content : List Node)

mutual
/-- recursive expansion as `virtual_entities()` / `explode()` perform it level by level: the content of a reference
    is expanded in its own block coordinates first and then transformed by the matrix of the reference -/
def Node.expand : Node → List V3
  | .point p => [p]
  | .ref m content => (Node.expandList content).map (apply m)
def Node.expandList : List Node → List V3
  | [] => []
  | n :: ns => Node.expand n ++ Node.expandList ns
end

mutual
/-- specification: every leaf point is mapped by the product of the matrices along its path (innermost first) -/
def Node.flat (acc : M44) : Node → List V3
  | .point p => [apply acc p]
  | .ref m content => Node.flatList (M44.mul m acc) content
def Node.flatList (acc : M44) : List Node → List V3
  | [] => []
  | n :: ns => Node.flat acc n ++ Node.flatList acc ns
end

/-! ## HATCH / MPOLYGON boundary paths (entities/polygon.py, entities/boundary_paths.py) -/

/-- vertex of a polyline path: (x, y, bulge) in the OCS plane of the HATCH -/
structure PVertex where
  x : Rat
  y : Rat
  bulge : Rat
deriving DecidableEq, Repr

/-- boundary edges; angles are unit direction vectors; an ellipse edge is modelled by its centre only (its axes are the subject
    of the `rytz` theorems) -/
inductive HEdge where
  | line (s e : V2)
  | arc (center : V2) (radius : Rat) (s e : V2) (full ccw : Bool)
  | spline (cps fits : List V2) (startTan endTan : Option V2)
  | ellipse (center : V2)
deriving DecidableEq, Repr

inductive BPath where
  | poly (vs : List PVertex) (closed : Bool)
  | edges (es : List HEdge)
deriving DecidableEq, Repr

structure Hatch where
  paths : List BPath
  elevation : Rat          -- z of `dxf.elevation`
deriving DecidableEq, Repr

def PVertex.hasBulge (v : PVertex) : Bool := v.bulge != 0
def HEdge.isArc : HEdge → Bool
  | .arc .. => true
  | _ => false

/-- a path that `BoundaryPaths.transform` has to convert (polyline path with bulges → edge path, arc edges → ellipse edges)
    before a non-uniform scaling; the conversion is outside the model -/
def BPath.needsConversion : BPath → Bool
  | .poly vs _ => vs.any PVertex.hasBulge
  | .edges es => es.any HEdge.isArc

/-- `LineEdge / ArcEdge / SplineEdge / EllipseEdge.transform(ocs, elevation)`; the elevation each statement uses is taken from
    the regenerated flow table (`Gen.TransformKernels.hatch…`), line edges from the py2lean translation of `LineEdge.transform` -/
def HEdge.transform (sqrt : Rat → Rat) (o : OcsT) (elev : Rat) : HEdge → HEdge
  | .line s e =>
    let r := TransformKernels.hatchLineEdge s e o.m o.old.t o.old.m o.new.t o.new.m elev
    .line r.1 r.2
  | .arc c r s e full ccw =>
    -- open arc: both angles are transformed; full circle: the end is the transformed start + 360°
    .arc (o.vertex2d c (TransformKernels.hatchArcCenterElev elev)) (o.length sqrt ⟨r, 0, 0⟩) (dir2 o s)
      (if full then dir2 o s else dir2 o e) full ccw
  | .spline cps fits st et =>
    .spline (cps.map fun v => o.vertex2d v (TransformKernels.hatchSplinePointElev elev))
      (fits.map fun v => o.vertex2d v (TransformKernels.hatchSplinePointElev elev))
      (st.map fun t => let d := o.direction ⟨t.x, t.y, TransformKernels.hatchSplineTangentZ elev⟩; (⟨d.x, d.y⟩ : V2))
      (et.map fun t => let d := o.direction ⟨t.x, t.y, TransformKernels.hatchSplineTangentZ elev⟩; (⟨d.x, d.y⟩ : V2))
  | .ellipse c =>
    let v := o.vertex ⟨c.x, c.y, TransformKernels.hatchEllipseCenterElev elev⟩
    .ellipse ⟨v.x, v.y⟩

/-- `PolylinePath.transform` / `EdgePath.transform` -/
def BPath.transform (sqrt : Rat → Rat) (o : OcsT) (elev : Rat) : BPath → BPath
  | .poly vs closed =>
    .poly (vs.map fun v => let q := o.vertex ⟨v.x, v.y, TransformKernels.hatchPolyVertexZ elev⟩; ⟨q.x, q.y, v.bulge⟩) closed
  | .edges es => .edges (es.map (HEdge.transform sqrt o (TransformKernels.hatchEdgePathElev elev)))

/-- `DXFPolygon.transform`: paths at the OLD elevation, then the new elevation = z of the transformed point (0, 0, elevation).
    `none`: a path needs the arc → ellipse conversion first (non-uniform scaling of the OCS plane), which is not modelled. -/
def Hatch.transform (sqrt : Rat → Rat) (o : OcsT) (h : Hatch) : Option Hatch :=
  if !o.uniform && h.paths.any BPath.needsConversion then none
  else some ⟨h.paths.map (BPath.transform sqrt o (TransformKernels.hatchPathElev (TransformKernels.hatchPathsElev h.elevation))),
             (o.vertex ⟨0, 0, TransformKernels.hatchNewElevationZ h.elevation⟩).z⟩

/-- the 2-D boundary points a path stores (polyline vertices; line end points; arc / ellipse centres; spline control and fit
    points), in storage order -/
def HEdge.points : HEdge → List V2
  | .line s e => [s, e]
  | .arc c _ _ _ _ _ => [c]
  | .spline cps fits _ _ => cps ++ fits
  | .ellipse c => [c]
def BPath.points : BPath → List V2
  | .poly vs _ => vs.map fun v => ⟨v.x, v.y⟩
  | .edges es => es.flatMap HEdge.points
def Hatch.points (h : Hatch) : List V2 := h.paths.flatMap BPath.points

/-- tangent directions of the spline edges of a path -/
def HEdge.tangents : HEdge → List V2
  | .spline _ _ st et => st.toList ++ et.toList
  | _ => []
def BPath.tangents : BPath → List V2
  | .poly _ _ => []
  | .edges es => es.flatMap HEdge.tangents
def Hatch.tangents (h : Hatch) : List V2 := h.paths.flatMap BPath.tangents

/-- bulge values of the polyline paths -/
def BPath.bulges : BPath → List Rat
  | .poly vs _ => vs.map fun v => v.bulge
  | .edges _ => []
def Hatch.bulges (h : Hatch) : List Rat := h.paths.flatMap BPath.bulges

/-- WCS position of a 2-D boundary point of a HATCH with the given elevation -/
def hatchPoint (o : Ocs) (elev : Rat) (v : V2) : V3 := o.toWcs ⟨v.x, v.y, elev⟩

/-! ## TEXT / ATTRIB / ATTDEF (entities/text.py) and MTEXT (entities/mtext.py) -/

/-- TEXT: angles are unit direction vectors: `rot` = (cos, sin) of the rotation, `obl` = (cos, sin) of the oblique angle -/
structure Txt where
  insert : V3            -- OCS
  align : Option V3      -- OCS; `none` = attribute absent (the code stores `insert` then)
  rot : V2
  obl : V2
  height : Rat
  width : Rat            -- relative x-scale factor (default 1)
  thickness : Option Rat
deriving DecidableEq, Repr

/-- direction turned by +90° -/
def rot90 (d : V2) : V2 := ⟨-d.y, d.x⟩

/-- `Text.transform`: insert / align point by `transform_vertex`; rotation by `transform_deg_angle` (kept as the un-normalised
    transformed direction); x / y scale = lengths of the transformed baseline and up direction; for a NON-uniform OCS
    transformation the oblique vector (direction of rotation + 90° − oblique) is transformed, the new oblique angle ω' is the
    angle from the transformed oblique vector to the normal of the new baseline: cos ω' = (d' × ob') / (|d'||ob'|),
    sin ω' = (d' · ob') / (|d'||ob'|) (no trigonometry needed); the y scale is multiplied by the cosine of the angle between the
    transformed up vector u' and that normal, (d' × u') / (|d'||u'|).
    ZeroDivisionError: x_scale / y_scale with y_scale = 0. -/
def Txt.transform (sqrt : Rat → Rat) (o : OcsT) (t : Txt) : Except TErr Txt :=
  let d := t.rot
  let u := rot90 d
  let ins := o.vertex t.insert
  let al := o.vertex (t.align.getD t.insert)
  let d' := dir2 o d
  let xs := o.length sqrt ⟨d.x, d.y, 0⟩
  let ys := o.length sqrt ⟨u.x, u.y, 0⟩
  if o.uniform then
    if ys = 0 then .error .zeroDivision
    else .ok ⟨ins, some al, d', t.obl, t.height * ys, t.width * (xs / ys), t.thickness.map o.thickness⟩
  else
    let ob : V2 := ⟨u.x * t.obl.x + d.x * t.obl.y, u.y * t.obl.x + d.y * t.obl.y⟩
    let ob' := dir2 o ob
    let u' := dir2 o u
    let rd := sqrt (dot2 d' d')
    let ro := sqrt (dot2 ob' ob')
    let ru := sqrt (dot2 u' u')
    if rd * ro = 0 then .error .zeroDivision
    else if rd * ru = 0 then .error .zeroDivision
    else
      let co := cross2 d' ob' / (rd * ro)
      let si := dot2 d' ob' / (rd * ro)
      -- the height is measured perpendicular to the baseline: cosine of the angle between the transformed up vector and
      -- the normal of the new baseline (fix b560c7405; it was the cosine of the new oblique angle)
      let ys' := ys * (cross2 d' u' / (rd * ru))
      if ys' = 0 then .error .zeroDivision
      else .ok ⟨ins, some al, d', ⟨co, si⟩, t.height * ys', t.width * (xs / ys'), t.thickness.map o.thickness⟩

/-- MTEXT is a WCS entity: insert, text direction (any length), unit extrusion, character height, optional width -/
structure MTxt where
  insert : V3
  dir : V3
  ext : V3
  charHeight : Rat
  width : Option Rat
deriving DecidableEq, Repr

/-- `angle_between` clamps the cosine to [-1, 1] before `acos` -/
def clamp1 (c : Rat) : Rat := if c < -1 then -1 else if 1 < c then 1 else c

/-- image of the character-height vector: `m.transform_direction((extrusion × direction).normalize(char_height))` -/
def MTxt.heightVec (sqrt : Rat → Rat) (m : M44) (t : MTxt) : V3 :=
  let v := V3.cross t.ext t.dir
  applyDir m (V3.smul (t.charHeight / sqrt (magSq v)) v)

/-- `MText.transform` (without columns): insert and direction are mapped by `m`; the new character height is
    |H'|·sin θ for the image H' of the height vector and the angle θ between the new direction T' and H'
    (`angle_between` = acos of the clamped cosine, sin ≥ 0: sin θ = √(1 − cos²θ)); the new extrusion comes from
    `transform_extrusion` for the OCS `old` of the old extrusion; the width is the length of the image of direction·width -/
def MTxt.transform (sqrt : Rat → Rat) (old : Ocs) (m : M44) (t : MTxt) : Except TErr MTxt :=
  match transformExtrusion sqrt old m with
  | .error _ => .error .zeroDivision
  | .ok (n, _) =>
    let T' := applyDir m t.dir
    let rv := sqrt (magSq (V3.cross t.ext t.dir))
    if rv = 0 then .error .zeroDivision else
    let H' := t.heightVec sqrt m
    let rT := sqrt (magSq T')
    let rH := sqrt (magSq H')
    if rT = 0 ∨ rH = 0 then .error .zeroDivision else
    let c := clamp1 (V3.dot (V3.smul (1 / rT) T') (V3.smul (1 / rH) H'))
    let h' := rH * sqrt (1 - c * c)
    let rD := sqrt (magSq t.dir)
    match t.width with
    | none => .ok ⟨apply m t.insert, T', n, h', none⟩
    | some w =>
      if rD = 0 then .error .zeroDivision
      else .ok ⟨apply m t.insert, T', n, h', some (sqrt (magSq (applyDir m (V3.smul (w / rD) t.dir))))⟩

/-! ## MLINE (entities/mline.py) -/

/-- `MLine.transform`: the reference vertices are WCS points mapped by `m` (the element lines are regenerated from them, the
    extrusion and the scale factor by `update_geometry`); the new scale factor is the regenerated kernel `mlineScale` -/
structure MLine where
  locations : List V3
  scale : Rat
deriving DecidableEq, Repr

def MLine.transform (sqrt : Rat → Rat) (m : M44) (l : MLine) : MLine :=
  ⟨transformPoints m l.locations, TransformKernels.mlineScaleS sqrt l.scale m⟩

/-! ## DIMENSION (entities/dimension.py) -/

/-- value of a DIMENSION attribute: a point (OCS or WCS, depending on the attribute) or an angle as unit direction -/
inductive DimVal where
  | pt (p : V3)
  | ang (d : V2)
deriving DecidableEq, Repr

/-- `Dimension.transform` on the attributes that exist: the three name tables are regenerated from the source; attributes in
    none of the tables are left alone -/
def dimAttr (o : OcsT) (name : String) (v : DimVal) : DimVal :=
  match v with
  | .pt p =>
    if name ∈ TransformKernels.dimOcsVertexNames then .pt (o.vertex p)
    else if name ∈ TransformKernels.dimWcsVertexNames then .pt (apply o.m p)
    else .pt p
  | .ang d => if name ∈ TransformKernels.dimAngleNames then .ang (dir2 o d) else .ang d

def Dim.transform (o : OcsT) (attrs : List (String × DimVal)) : List (String × DimVal) :=
  attrs.map fun nv => (nv.1, dimAttr o nv.1 nv.2)

/-! ## 2-D POLYLINE (entities/polyline.py) -/

structure PlVertex where
  loc : V3               -- OCS location incl. its own z
  bulge : Rat
  startWidth : Option Rat
  endWidth : Option Rat
deriving DecidableEq, Repr

structure Polyline2d where
  vertices : List PlVertex
  elevation : Option Rat      -- z of dxf.elevation when the attribute exists
  thickness : Option Rat
deriving DecidableEq, Repr

/-- the OCS location that is transformed: an existing polyline elevation replaces the z of every vertex -/
def PlVertex.ocsLocation (elev : Option Rat) (v : PlVertex) : V3 :=
  match elev with
  | some z => ⟨v.loc.x, v.loc.y, z⟩
  | none => v.loc

/-- `Polyline.transform` for a 2-D polyline: NonUniformScalingError for arcs under a non-uniform OCS transformation; every
    location by `transform_vertex`; the new elevation is the z of the first new location (always stored when there are
    vertices); widths by `transform_width`, thickness by `transform_thickness`; bulges untouched -/
def Polyline2d.transform (sqrt : Rat → Rat) (o : OcsT) (p : Polyline2d) : Except TErr Polyline2d :=
  if !o.uniform && p.vertices.any (fun v => v.bulge != 0) then .error .nonUniformScaling
  else
    let vs := p.vertices.map fun v =>
      ({ v with loc := o.vertex (v.ocsLocation p.elevation), startWidth := v.startWidth.map (o.width sqrt),
                endWidth := v.endWidth.map (o.width sqrt) } : PlVertex)
    let elev := match vs with
      | v :: _ => some v.loc.z
      | [] => p.elevation
    .ok ⟨vs, elev, p.thickness.map o.thickness⟩

/-! ## WCS entities with named attributes: IMAGE/WIPEOUT, LEADER, HELIX, TOLERANCE, LIGHT, XLINE/RAY, MLINE vertices -/

/-- value of a WCS attribute -/
inductive WVal where
  | pt (p : V3)
  | vec (v : V3)
  | pts (l : List V3)
  | len (r : Rat)
deriving DecidableEq, Repr

/-- what a `transform(self, m)` statement of kind `kind` (regenerated table `wcsAttrTable`) does with the attribute value;
    `normal` attributes go through `transform_extrusion` (see `extrusion_law`) and are not modelled here -/
def wcsAttr (sqrt : Rat → Rat) (m : M44) (kind : String) (v : WVal) : WVal :=
  match kind, v with
  | "point", .pt p => .pt (apply m p)
  | "vector", .vec d => .vec (applyDir m d)
  | "unit", .vec d => let r := sqrt (magSq (applyDir m d)); .vec (V3.smul (1 / r) (applyDir m d))
  | "points", .pts l => .pts (transformPoints m l)
  | "xlength", .len r => .len (sqrt (magSq (applyDir m ⟨r, 0, 0⟩)))
  | _, w => w

/-! ## ELLIPSE / ellipse edges / arc → ellipse fallback: `ConstructionEllipse.transform` (math/ellipse.py), axes part -/

/-- `Vec3.normalize()`: v * (1 / |v|) with the root supplied -/
def nrmV (r : Rat) (v : V3) : V3 := ⟨v.x * (1 / r), v.y * (1 / r), v.z * (1 / r)⟩

/-- the double nearest to 1e-6 -/
def tol6 : Rat := 4722366482869645 / 4722366482869645213696

structure Ell where
  center : V3
  major : V3
  ext : V3
  ratio : Rat
deriving DecidableEq, Repr

structure EllOut where
  center : V3
  major : V3
  minor : V3
  ext : V3
  ratio : Rat
deriving DecidableEq, Repr

def liftPy {α} (e : Except PyErr α) : Except PyErr α := e

/-- `ConstructionEllipse.transform(m)` without the start / end parameters (a full ellipse): centre by `m`; the conjugate
    half-diameters (major, minor_axis(major, extrusion, ratio)) by the linear part; if their images are not orthogonal
    (|cos| > 1e-6) principal axes by `rytz_axis_construction` (regenerated), else the image of the major axis is kept and the minor
    axis is rebuilt perpendicular to it; finally axes with ratio > 1 are exchanged -/
def Ell.transform (sqrt : Rat → Rat) (m : M44) (e : Ell) : Except PyErr EllOut :=
  match TransformKernels.minorAxisS sqrt e.major e.ext e.ratio with
  | .error x => .error x
  | .ok mn =>
    let mj' := applyDir m e.major
    let mn' := applyDir m mn
    let ra := sqrt (magSq mj')
    let rb := sqrt (magSq mn')
    if ra = 0 ∨ rb = 0 then .error .zeroDivision else
    let core : Except PyErr (V3 × V3 × Rat × V3) :=
      if tol6 < pyAbs (V3.dot (nrmV ra mj') (nrmV rb mn')) then
        match TransformKernels.rytzS sqrt mj' mn' with
        | .error x => .error x
        | .ok (a, b, r) =>
          let rn := sqrt (magSq (V3.cross a b))
          if rn = 0 then .error .zeroDivision else .ok (a, b, r, nrmV rn (V3.cross a b))
      else
        let rn := sqrt (magSq (V3.cross mj' mn'))
        if rn = 0 then .error .zeroDivision else
        match TransformKernels.minorAxisS sqrt mj' (nrmV rn (V3.cross mj' mn')) (rb / ra) with
        | .error x => .error x
        | .ok b => .ok (mj', b, rb / ra, nrmV rn (V3.cross mj' mn'))
    match core with
    | .error x => .error x
    | .ok (a, b, r, n) =>
      if 1 < r then
        match TransformKernels.minorAxisS sqrt a n r with
        | .error x => .error x
        | .ok a2 =>
          match TransformKernels.minorAxisS sqrt a2 n (1 / r) with
          | .error x => .error x
          | .ok b2 => .ok ⟨apply m e.center, a2, b2, n, 1 / r⟩
      else .ok ⟨apply m e.center, a, b, n, r⟩

/-- `EllipseEdge.transform(ocs, elevation)`, axes part: the edge becomes a `ConstructionEllipse` in WCS (centre lifted with the
    elevation, major axis as a direction, extrusion of the old OCS), is transformed by `m` (`Ell.transform`) and brought back into
    the new OCS (x, y of centre and major axis, ratio).  Arc edges take the same way after `arc_edges_to_ellipse_edges`
    (major axis (radius, 0), ratio 1) when the scaling of the OCS plane is not uniform. -/
def ellipseEdgeAxes (sqrt : Rat → Rat) (o : OcsT) (elev : Rat) (center major : V2) (ratio : Rat) : Except PyErr (V2 × V2 × Rat) :=
  match Ell.transform sqrt o.m ⟨o.old.toWcs ⟨center.x, center.y, TransformKernels.hatchEllipseCenterElev elev⟩,
      o.old.toWcs ⟨major.x, major.y, 0⟩, o.old.uz, ratio⟩ with
  | .error x => .error x
  | .ok out =>
    let c := o.new.fromWcs out.center
    let mj := o.new.fromWcs out.major
    .ok (⟨c.x, c.y⟩, ⟨mj.x, mj.y⟩, out.ratio)

/-! ## ACIS entities (BODY, 3DSOLID, REGION, SURFACE ...): `Body.transform` accumulates a temporary transformation -/

/-- `TemporaryTransformation.add_matrix` on the state `_matrix` (`none` = no pending transformation); both branches are
    regenerated from entities/temporary_transform.py (the operand order of the matrix product is the code's) -/
def tempAdd (stored : Option M44) (m : M44) : Option M44 :=
  match stored with
  | none => some (TransformKernels.tempAddNone m)
  | some a => some (TransformKernels.tempAddSome a m)

/-- a history `e.transform(m1); e.transform(m2); ...` on one ACIS entity -/
def tempRun (stored : Option M44) (ms : List M44) : Option M44 := ms.foldl tempAdd stored

/-- the same history applied to a WCS point (what every other entity does with its geometry) -/
def applySeq (ms : List M44) (p : V3) : V3 := ms.foldl (fun q m => apply m q) p

/-! ## upright(): flip an OCS with extrusion (0, 0, -1) to +Z -/

def flipVertex (v : V3) : V3 := ⟨-v.x, v.y, -v.z⟩
def flipV2 (v : V2) : V2 := ⟨-v.x, v.y⟩
/-- `_flip_deg_angle` on direction vectors: a ↦ ±180° - a is (c, s) ↦ (-c, s) -/
def flipDir (d : V2) : V2 := ⟨-d.x, d.y⟩

def Circle.upright (c : Circle) : Circle := ⟨flipVertex c.center, c.radius, c.thickness.map (fun t => -t)⟩
def Arc.upright (a : Arc) : Arc := ⟨a.circle.upright, flipDir a.e, flipDir a.s, a.full⟩
def Solid.upright (s : Solid) : Solid := ⟨s.vtx.map flipVertex, s.thickness.map (fun t => -t)⟩
def LwPolyline.upright (p : LwPolyline) : LwPolyline :=
  ⟨p.pts.map (fun v => ⟨-v.x, v.y, v.startWidth, v.endWidth, -v.bulge⟩), -p.elevation, p.constWidth,
   p.thickness.map (fun t => -t)⟩
/-- `_flip_insert`: rotation ↦ -rotation, xscale and zscale negated -/
def Ins.upright (i : Ins) : Ins := ⟨flipVertex i.insert, -i.sx, i.sy, -i.sz, ⟨i.rot.x, -i.rot.y⟩⟩

/-- WCS point of a circle / arc for the unit direction d in its OCS -/
def Circle.point (o : Ocs) (c : Circle) (d : V2) : V3 :=
  o.toWcs ⟨c.center.x + c.radius * d.x, c.center.y + c.radius * d.y, c.center.z⟩

end EzdxfVerif.Transform

/-
Transform: executable model of "transforming an entity" (property C12), core Lean only.

Arithmetic kernels are NOT written here: `Gen/TransformKernels.lean` is regenerated on every run from /repo's
`math/_matrix44.py`, `math/ucs.py`, `math/transformtools.py` (Matrix44.transform / transform_direction, OCS.to_wcs /
from_wcs, every arithmetic method of OCSTransform, transform_extrusion after its OCS construction, the scale / orthogonality
part of InsertCoordinateSystem.transform).  Hand-written here: the control flow of the per-entity `transform()` methods
(entities/line.py, circle.py, arc.py, lwpolyline.py, solid.py, insert.py), of `upright.py`, and of the recursive block
reference expansion (explode.py), each tied to the real code by the correspondence streams of harness/props/c12.py.

Conventions
* numbers are exact rationals; `sqrt` values enter as a function parameter `sqrt : Rat → Rat`, theorems assume
  `sqrt x * sqrt x = x ∧ 0 ≤ sqrt x` only for the radicands that are actually evaluated;
* angles are unit direction vectors (c, s); a transformed direction is kept UN-normalised (the code takes `atan2` of it,
  which does not depend on the length);
* an OCS object is the pair (transform flag, matrix) exactly as `ezdxf.math.OCS` stores it.
-/
import EzdxfVerif.Model.Rat3
import EzdxfVerif.Gen.TransformKernels

namespace EzdxfVerif.Transform
open EzdxfVerif.Rat3
open EzdxfVerif.Gen

/-- errors of the transformation interface (`transformtools.py`) plus the ZeroDivisionError of `Vec3.normalize` -/
inductive TErr where
  | nonUniformScaling | insertTransformation | zeroDivision
deriving DecidableEq, Repr

/-! ## OCS objects and OCSTransform -/

/-- `ezdxf.math.OCS`: `transform = False` means "extrusion is +Z, pass coordinates through" -/
structure Ocs where
  t : Bool
  m : M44
deriving DecidableEq, Repr

namespace Ocs
def std : Ocs := ⟨false, M44.identity⟩
/-- the OCS of the extrusion (0, 0, -1): Ax = (-1, 0, 0), Ay = (0, 1, 0), Az = (0, 0, -1) (arbitrary axis algorithm) -/
def negZ : Ocs := ⟨true, ⟨-1, 0, 0, 0, 0, 1, 0, 0, 0, 0, -1, 0, 0, 0, 0, 1⟩⟩
def ux (o : Ocs) : V3 := if o.t then o.m.ux else ⟨1, 0, 0⟩
def uy (o : Ocs) : V3 := if o.t then o.m.uy else ⟨0, 1, 0⟩
def uz (o : Ocs) : V3 := if o.t then o.m.uz else ⟨0, 0, 1⟩
def toWcs (o : Ocs) (p : V3) : V3 := TransformKernels.ocsToWcs o.t o.m p
def fromWcs (o : Ocs) (p : V3) : V3 := TransformKernels.ocsFromWcs o.t o.m p
/-- what `OCS.__init__` establishes for every non-zero extrusion (proved in property C11, `ocs_axes`) -/
def Orthonormal (o : Ocs) : Prop :=
  V3.dot o.ux o.ux = 1 ∧ V3.dot o.uy o.uy = 1 ∧ V3.dot o.uz o.uz = 1 ∧
  V3.dot o.ux o.uy = 0 ∧ V3.dot o.ux o.uz = 0 ∧ V3.dot o.uy o.uz = 0
instance (o : Ocs) : Decidable (Orthonormal o) := by unfold Orthonormal; infer_instance
def RightHanded (o : Ocs) : Prop := V3.cross o.ux o.uy = o.uz
instance (o : Ocs) : Decidable (RightHanded o) := by unfold RightHanded; infer_instance
end Ocs

def apply (m : M44) (p : V3) : V3 := TransformKernels.mTransform m p
def applyDir (m : M44) (v : V3) : V3 := TransformKernels.mTransformDirection m v
def magSq (v : V3) : Rat := V3.dot v v

/-- `OCSTransform`: matrix, old and new OCS, and the `scale_uniform` flag -/
structure OcsT where
  m : M44
  old : Ocs
  new : Ocs
  uniform : Bool
deriving DecidableEq, Repr

namespace OcsT
def vertex (o : OcsT) (v : V3) : V3 := TransformKernels.otVertex o.m o.old.t o.old.m o.new.t o.new.m v
def vertex2d (o : OcsT) (v : V2) (elev : Rat) : V2 := TransformKernels.ot2dVertex o.m o.old.t o.old.m o.new.t o.new.m v elev
def direction (o : OcsT) (v : V3) : V3 := TransformKernels.otDirection o.m o.old.t o.old.m o.new.t o.new.m v
def thickness (o : OcsT) (t : Rat) : Rat := TransformKernels.otThickness o.m o.old.t o.old.m o.new.t o.new.m t
def length (sqrt : Rat → Rat) (o : OcsT) (v : V3) : Rat :=
  TransformKernels.otLengthS sqrt o.m o.old.t o.old.m o.new.t o.new.m v
def lengthR (sqrt : Rat → Rat) (o : OcsT) (v : V3) (reflection : Rat) : Rat :=
  TransformKernels.otLengthRS sqrt o.m o.old.t o.old.m o.new.t o.new.m v reflection
def width (sqrt : Rat → Rat) (o : OcsT) (w : Rat) : Rat :=
  TransformKernels.otWidthS sqrt o.m o.old.t o.old.m o.new.t o.new.m w
/-- images of the old OCS x- and y-axis in WCS -/
def ax (o : OcsT) : V3 := applyDir o.m o.old.ux
def ay (o : OcsT) : V3 := applyDir o.m o.old.uy
def az (o : OcsT) : V3 := applyDir o.m o.old.uz
/-- the planar map old OCS (x, y) -> new OCS (x, y) has the columns `direction e1`, `direction e2`; its determinant -/
def planeDet (o : OcsT) : Rat :=
  (o.direction ⟨1, 0, 0⟩).x * (o.direction ⟨0, 1, 0⟩).y - (o.direction ⟨1, 0, 0⟩).y * (o.direction ⟨0, 1, 0⟩).x
end OcsT

/-- `transform_extrusion(extrusion, m)` after `ocs = OCS(extrusion)`: (new extrusion, is_uniform) -/
def transformExtrusion (sqrt : Rat → Rat) (old : Ocs) (m : M44) : Except PyErr (V3 × Bool) :=
  TransformKernels.extrusionCoreS sqrt old.t old.m m

/-- `sign()` of math/construct2d.py -/
def sign (f : Rat) : Rat := if f < 0 then -1 else 1

/-! ## WCS entities: LINE, POINT, 3DFACE, MESH, SPLINE control/fit points, XLINE/RAY, LEADER -/

/-- `m.transform_vertices(points)` -/
def transformPoints (m : M44) (ps : List V3) : List V3 := ps.map (apply m)

/-- `transform_thickness_and_extrusion_without_ocs(entity, m)`: thickness and extrusion attributes of LINE / POINT
    (`none` = attribute absent; the default extrusion (0, 0, 1) is what `dxf.extrusion` returns then).
    A thickness that is present and non-zero: the thickness vector is transformed, its length (with the old sign) is the new
    thickness and the new extrusion is the normalised vector times that sign.  Otherwise only an existing extrusion is
    transformed and normalised. -/
def thicknessNoOcs (sqrt : Rat → Rat) (m : M44) (thickness : Option Rat) (extrusion : Option V3) :
    Except TErr (Option Rat × Option V3) :=
  let ext := extrusion.getD ⟨0, 0, 1⟩
  let bare : Except TErr (Option Rat × Option V3) :=
    match extrusion with
    | some e =>
      let v := applyDir m e
      let r := sqrt (magSq v)
      if r = 0 then .error .zeroDivision else .ok (thickness, some (V3.smul (1 / r) v))
    | none => .ok (thickness, none)
  match thickness with
  | some t =>
    if t = 0 then bare
    else
      let v := applyDir m (V3.smul t ext)
      let r := sqrt (magSq v)
      if r = 0 then .error .zeroDivision            -- Vec3.normalize of the null vector
      else .ok (some (r * sign t), some (V3.smul (sign t) (V3.smul (1 / r) v)))
  | none => bare

structure Line where
  start : V3
  stop : V3
  thickness : Option Rat
  extrusion : Option V3
deriving DecidableEq, Repr

/-- `Line.transform` -/
def Line.transform (sqrt : Rat → Rat) (m : M44) (l : Line) : Except TErr Line :=
  match thicknessNoOcs sqrt m l.thickness l.extrusion with
  | .error e => .error e
  | .ok (t, n) => .ok ⟨apply m l.start, apply m l.stop, t, n⟩

/-- the vector along which a LINE / POINT is extruded -/
def thicknessVector (thickness : Option Rat) (extrusion : Option V3) : V3 :=
  V3.smul (thickness.getD 0) (extrusion.getD ⟨0, 0, 1⟩)

/-! ## OCS entities: CIRCLE, ARC, LWPOLYLINE, SOLID/TRACE -/

structure Circle where
  center : V3          -- OCS
  radius : Rat
  thickness : Option Rat
deriving DecidableEq, Repr

/-- `Circle._transform(ocs)` -/
def Circle.transform (sqrt : Rat → Rat) (o : OcsT) (c : Circle) : Except TErr Circle :=
  if o.uniform then
    .ok ⟨o.vertex c.center, o.length sqrt ⟨c.radius, 0, 0⟩, c.thickness.map o.thickness⟩
  else .error .nonUniformScaling

structure Arc where
  circle : Circle
  s : V2               -- direction of the start angle (unit vector)
  e : V2               -- direction of the end angle
  full : Bool          -- arc_angle_span_deg(s, e) is 360: the angles are left alone
deriving DecidableEq, Repr

def dir2 (o : OcsT) (d : V2) : V2 := let r := o.direction ⟨d.x, d.y, 0⟩; ⟨r.x, r.y⟩

def cross2 (u v : V2) : Rat := u.x * v.y - u.y * v.x
def dot2 (u v : V2) : Rat := u.x * v.x + u.y * v.y

/-- "the counter-clockwise angle from s to e equals the one from s' to e'" — the code decides it by
    `math.isclose(old_span, new_span, rel_tol=1e-8)`; without trigonometry: the vectors (dot, cross) of the two pairs point
    the same way, |sin Δ| ≤ 1e-7 for the angle Δ between them.  (Same decision unless the two spans differ by an amount
    between 1e-8·span and 1e-7; such inputs are not generated.) -/
def spanKept (s e s' e' : V2) : Bool :=
  let c := cross2 s e
  let d := dot2 s e
  let c' := cross2 s' e'
  let d' := dot2 s' e'
  decide ((c * d' - c' * d) * (c * d' - c' * d) ≤ 1 / 100000000000000 * ((c * c + d * d) * (c' * c' + d' * d')) ∧
    0 < c * c' + d * d')

/-- `Arc.transform` + `transform_ccw_arc_angles`: both directions are transformed; they are exchanged when the angle span
    changed ("reversed orientation").  A semicircle (s = -e) cannot be judged by its own span: the code probes the direction
    one radian after the start, the model probes the direction rotated by the rational angle (3/5, 4/5) — the same answer
    whenever the planar map is a similarity. -/
def Arc.transform (sqrt : Rat → Rat) (o : OcsT) (a : Arc) : Except TErr Arc :=
  match Circle.transform sqrt o a.circle with
  | .error e => .error e
  | .ok c =>
    if a.full then .ok ⟨c, a.s, a.e, true⟩
    else
      let s' := dir2 o a.s
      let e' := dir2 o a.e
      let kept :=
        if cross2 a.s a.e = 0 ∧ dot2 a.s a.e < 0 then
          let p : V2 := ⟨3 / 5 * a.s.x - 4 / 5 * a.s.y, 4 / 5 * a.s.x + 3 / 5 * a.s.y⟩
          spanKept a.s p s' (dir2 o p)
        else spanKept a.s a.e s' e'
      if kept then .ok ⟨c, s', e', false⟩ else .ok ⟨c, e', s', false⟩

structure LwVertex where
  x : Rat
  y : Rat
  startWidth : Rat
  endWidth : Rat
  bulge : Rat
deriving DecidableEq, Repr

structure LwPolyline where
  pts : List LwVertex
  elevation : Rat
  constWidth : Option Rat
  thickness : Option Rat
deriving DecidableEq, Repr

def LwPolyline.hasArc (p : LwPolyline) : Bool := p.pts.any (fun v => v.bulge != 0)

/-- `LWPolyline.transform` -/
def LwPolyline.transform (sqrt : Rat → Rat) (o : OcsT) (p : LwPolyline) : Except TErr LwPolyline :=
  if !o.uniform && p.hasArc then .error .nonUniformScaling
  else
    let vs := p.pts.map (fun v => o.vertex ⟨v.x, v.y, p.elevation⟩)
    let pts := List.zipWith (fun (v : V3) (q : LwVertex) =>
      (⟨v.x, v.y, o.width sqrt q.startWidth, o.width sqrt q.endWidth, q.bulge⟩ : LwVertex)) vs p.pts
    let elev := match vs with
      | v :: _ => v.z
      | [] => p.elevation
    .ok ⟨pts, elev, p.constWidth.map (o.width sqrt), p.thickness.map o.thickness⟩

/-- apex of a bulge segment p1 -> p2 (the point of the arc halfway between the end points): mid + (b/2) * (dy, -dx).
    An arc is determined by its two end points and its apex, so "the arc is mapped correctly" is a statement about
    three points -/
def bulgeApex (p1 p2 : V2) (b : Rat) : V2 :=
  ⟨(p1.x + p2.x) / 2 + b / 2 * (p2.y - p1.y), (p1.y + p2.y) / 2 - b / 2 * (p2.x - p1.x)⟩

structure Solid where
  vtx : List V3        -- OCS, the attributes vtx0..vtx3 that exist
  thickness : Option Rat
deriving DecidableEq, Repr

/-- `Solid.transform` -/
def Solid.transform (o : OcsT) (s : Solid) : Solid := ⟨s.vtx.map o.vertex, s.thickness.map o.thickness⟩

/-! ## INSERT -/

structure Ins where
  insert : V3          -- OCS
  sx : Rat
  sy : Rat
  sz : Rat
  rot : V2             -- (cos, sin) of the rotation angle
deriving DecidableEq, Repr

/-- `Insert.matrix44()` for the OCS `o` of the INSERT and the base point of the block: block point p ↦
    p.x·sx·(c·Ux + s·Uy) + p.y·sy·(-s·Ux + c·Uy) + p.z·sz·Uz + (insert in WCS) - (base mapped linearly).
    (The code builds `Matrix44.ucs(Ux·sx, Uy·sy, Uz·sz) * axis_rotate(Uz, angle)`; rotating Ux, Uy about Uz gives the
    two combinations above — tied to `Insert.matrix44` by the correspondence stream X3.) -/
def insertMatrix (o : Ocs) (i : Ins) (base : V3) : M44 :=
  let ex := V3.smul i.sx (V3.add (V3.smul i.rot.x o.ux) (V3.smul i.rot.y o.uy))
  let ey := V3.smul i.sy (V3.add (V3.smul (-i.rot.y) o.ux) (V3.smul i.rot.x o.uy))
  let ez := V3.smul i.sz o.uz
  let org := V3.sub (o.toWcs i.insert)
    (V3.add (V3.add (V3.smul base.x ex) (V3.smul base.y ey)) (V3.smul base.z ez))
  ⟨ex.x, ex.y, ex.z, 0, ey.x, ey.y, ey.z, 0, ez.x, ez.y, ez.z, 0, org.x, org.y, org.z, 1⟩

/-- the rotation of a transformed INSERT is kept as an un-normalised direction; `Insert.matrix44()` sees its angle, i.e. the
    normalised direction -/
def Ins.unitRot (sqrt : Rat → Rat) (i : Ins) : Ins :=
  let r := sqrt (i.rot.x * i.rot.x + i.rot.y * i.rot.y)
  { i with rot := ⟨i.rot.x / r, i.rot.y / r⟩ }

/-- scale / orthogonality part of `InsertCoordinateSystem.transform` (regenerated kernel): (x, y, z scale, new extrusion);
    the x- and y-axis of the block reference are the OCS axes rotated by the rotation angle: the kernel receives the two
    directions `Vec3.from_angle(angle)` = (c, s, 0) and `Vec3.from_angle(angle + pi/2)` = (-s, c, 0);
    `PyErr.valueError` stands for `InsertTransformationError` -/
def icsScales (sqrt : Rat → Rat) (old : Ocs) (m : M44) (i : Ins) (tol : Rat) : Except PyErr (Rat × Rat × Rat × V3) :=
  TransformKernels.icsScalesS sqrt i.sx i.sy i.sz old.t old.m m tol ⟨i.rot.x, i.rot.y, 0⟩ ⟨-i.rot.y, i.rot.x, 0⟩

/-- `InsertCoordinateSystem.transform` + `Insert.transform`: `new` is `OCS(uz)` for the new extrusion `uz` returned by
    `icsScales`; the new rotation is kept as the un-normalised direction `transform_direction((c, s, 0))`.
    The scale factors are measured on the block reference's own (rotated) x- and y-axis. -/
def Ins.transform (sqrt : Rat → Rat) (old new : Ocs) (m : M44) (i : Ins) (tol : Rat) : Except TErr Ins :=
  match icsScales sqrt old m i tol with
  | .error .zeroDivision => .error .zeroDivision
  | .error _ => .error .insertTransformation
  | .ok (xs, ys, zs, _) =>
    let o : OcsT := ⟨m, old, new, true⟩
    .ok ⟨o.vertex i.insert, xs, ys, zs, dir2 o i.rot⟩

/-! ## Nested block references (explode.py: virtual_block_reference_entities, any depth) -/

/-- block content: WCS points (standing for every entity that obeys the linear law) and references to other blocks;
    a reference carries the matrix `Insert.matrix44()` of the INSERT and the content of the referenced block -/
inductive Node where
  | point (p : V3)
  | ref (m : M44) (content : List Node)

mutual
/-- recursive expansion as `virtual_entities()` / `explode()` perform it level by level: the content of a reference
    is expanded in its own block coordinates first and then transformed by the matrix of the reference -/
def Node.expand : Node → List V3
  | .point p => [p]
  | .ref m content => (Node.expandList content).map (apply m)
def Node.expandList : List Node → List V3
  | [] => []
  | n :: ns => Node.expand n ++ Node.expandList ns
end

mutual
/-- specification: every leaf point is mapped by the product of the matrices along its path (innermost first) -/
def Node.flat (acc : M44) : Node → List V3
  | .point p => [apply acc p]
  | .ref m content => Node.flatList (M44.mul m acc) content
def Node.flatList (acc : M44) : List Node → List V3
  | [] => []
  | n :: ns => Node.flat acc n ++ Node.flatList acc ns
end

/-! ## upright(): flip an OCS with extrusion (0, 0, -1) to +Z -/

def flipVertex (v : V3) : V3 := ⟨-v.x, v.y, -v.z⟩
def flipV2 (v : V2) : V2 := ⟨-v.x, v.y⟩
/-- `_flip_deg_angle` on direction vectors: a ↦ ±180° - a is (c, s) ↦ (-c, s) -/
def flipDir (d : V2) : V2 := ⟨-d.x, d.y⟩

def Circle.upright (c : Circle) : Circle := ⟨flipVertex c.center, c.radius, c.thickness.map (fun t => -t)⟩
def Arc.upright (a : Arc) : Arc := ⟨a.circle.upright, flipDir a.e, flipDir a.s, a.full⟩
def Solid.upright (s : Solid) : Solid := ⟨s.vtx.map flipVertex, s.thickness.map (fun t => -t)⟩
def LwPolyline.upright (p : LwPolyline) : LwPolyline :=
  ⟨p.pts.map (fun v => ⟨-v.x, v.y, v.startWidth, v.endWidth, -v.bulge⟩), -p.elevation, p.constWidth,
   p.thickness.map (fun t => -t)⟩
/-- `_flip_insert`: rotation ↦ -rotation, xscale and zscale negated -/
def Ins.upright (i : Ins) : Ins := ⟨flipVertex i.insert, -i.sx, i.sy, -i.sz, ⟨i.rot.x, -i.rot.y⟩⟩

/-- WCS point of a circle / arc for the unit direction d in its OCS -/
def Circle.point (o : Ocs) (c : Circle) (d : V2) : V3 :=
  o.toWcs ⟨c.center.x + c.radius * d.x, c.center.y + c.radius * d.y, c.center.z⟩

end EzdxfVerif.Transform

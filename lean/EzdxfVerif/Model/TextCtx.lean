/-
MTextContext: the context object attached to every token of `MTextParser` (additive model file of
property C20, session 3).  Same recursion as `scanY` (Model/Text.lean) with the parser state threaded:
current context, context stack (`push_ctx` / `pop_ctx` at `{` / `}`) and the parser-level flag
`_continue_stroke` (which is NOT restored by `pop_ctx`: modelled as the code is).

Float values are symbolic (`SVal`): the parser computes `abs(float(expr))` and `value *= abs(float(expr))`;
the harness evaluates the symbolic value with CPython floats in the same order and compares exactly.
Core Lean only.
-/
import EzdxfVerif.Model.Text
namespace EzdxfVerif.Text

/-- a float valued context attribute: initial value, `abs(float(f))`, `previous * abs(float(f))` -/
inductive SVal where
  | init
  | abs (f : Str)
  | mul (v : SVal) (f : Str)
  deriving Repr, DecidableEq

structure Ctx where
  underline : Bool := false
  overline : Bool := false
  strike : Bool := false
  continueStroke : Bool := false
  aci : Nat := 7
  rgb : Option Nat := none                      -- `value & 0xFFFFFF` of `\c`
  align : Nat := 0                              -- MTextLineAlignment: 0 BOTTOM, 1 MIDDLE, 2 TOP
  font : Option (Str × Bool × Bool) := none     -- (family, italic, bold); none = the initial FontFace()
  capHeight : SVal := .init
  widthFactor : SVal := .init
  charTracking : SVal := .init
  oblique : Option Str := none                  -- float text; none = initial 0.0
  paragraph : ParaProps := {}
  deriving Repr, DecidableEq

/-- parser state: `self.ctx`, `self._ctx_stack`, `self._continue_stroke` -/
structure PState where
  ctx : Ctx := {}
  stack : List Ctx := []
  cont : Bool := false
  deriving Repr, DecidableEq

def PState.push (st : PState) : PState := { st with stack := st.ctx :: st.stack }

def PState.pop (st : PState) : PState :=
  match st.stack with
  | [] => st
  | c :: s => { st with ctx := c, stack := s }

def Ctx.hasAnyStroke (c : Ctx) : Bool := c.underline || c.overline || c.strike

def natOfDigits (ds : Str) : Nat := ds.foldl (fun acc c => 10 * acc + (c.toNat - 48)) 0

def splitBar : Str → List Str
  | [] => [[]]
  | c :: r =>
    if c = '|' then [] :: splitBar r
    else match splitBar r with
      | [] => [[c]]
      | p :: l => (c :: p) :: l

def startsWith (p s : Str) : Bool := s.take p.length = p

/-- the loop `for part in parts[1:]: if part.startswith("b1"): weight = 700 elif part.startswith("i1"): style = "Italic"` -/
def fontFlags : List Str → Bool × Bool → Bool × Bool      -- (italic, bold)
  | [], acc => acc
  | p :: r, (it, bo) =>
    if startsWith ['b', '1'] p then fontFlags r (it, true)
    else if startsWith ['i', '1'] p then fontFlags r (true, bo)
    else fontFlags r (it, bo)

def scaleVal (old : SVal) (r2 : Str) : SVal :=
  let m := matchFloat r2
  if m.1 = [] then old
  else match m.2 with
    | 'x' :: _ => .mul old m.1
    | _ => .abs m.1

/-- `parse_properties(cmd)` on the state, for a command that `parseProperties` accepts (`r2` = the text
    behind the command letter) -/
def applyCmd (d : Char) (r2 : Str) (st : PState) : PState :=
  let c := st.ctx
  let fin (c : Ctx) (cont : Bool) : PState := { st with ctx := { c with continueStroke := cont }, cont := cont }
  let off (c : Ctx) : PState := fin c (if c.hasAnyStroke then st.cont else false)
  if d = 'L' then fin { c with underline := true } true
  else if d = 'l' then off { c with underline := false }
  else if d = 'O' then fin { c with overline := true } true
  else if d = 'o' then off { c with overline := false }
  else if d = 'K' then fin { c with strike := true } true
  else if d = 'k' then off { c with strike := false }
  else if d = 'A' then
    fin { c with align := match r2 with
      | a :: _ => if a = '0' ∨ a = '1' ∨ a = '2' then a.toNat - 48 else 0
      | [] => 0 } st.cont
  else if d = 'C' then
    let ds := r2.takeWhile isDigit
    if ds = [] ∨ ds.length > intMaxStrDigits then fin c st.cont
    else if natOfDigits ds < 257 then fin { c with aci := natOfDigits ds, rgb := none } st.cont
    else fin c st.cont
  else if d = 'c' then
    let ds := r2.takeWhile isDigit
    if ds = [] ∨ ds.length > intMaxStrDigits then fin c st.cont
    else fin { c with rgb := some (natOfDigits ds % 16777216) } st.cont
  else if d = 'H' then fin { c with capHeight := scaleVal c.capHeight r2 } st.cont
  else if d = 'W' then fin { c with widthFactor := scaleVal c.widthFactor r2 } st.cont
  else if d = 'T' then fin { c with charTracking := scaleVal c.charTracking r2 } st.cont
  else if d = 'Q' then
    fin (if (matchFloat r2).1 = [] then c else { c with oblique := some (matchFloat r2).1 }) st.cont
  else if d = 'p' then fin { c with paragraph := paraValsLoop (extractExpr false r2).1 c.paragraph } st.cont
  else if d = 'f' ∨ d = 'F' then
    match splitBar (extractExpr false r2).1 with
    | name :: parts =>
      if name = [] then fin c st.cont
      else fin { c with font := some (name, (fontFlags parts (false, false)).1, (fontFlags parts (false, false)).2) } st.cont
    | [] => fin c st.cont
  else fin c st.cont

def tag (c : Ctx) (ts : List Token) : List (Token × Ctx) := ts.map (fun t => (t, c))

/-- `MTextParser(content, ctx, yield_property_commands=True)`: every token with the context it is yielded with -/
def scanC (sp : Special) (st : PState) (rest word : Str) : Except PyErr (List (Token × Ctx)) :=
  match hr : rest with
  | [] => .ok (tag st.ctx (if word.isEmpty then [] else [.word word]))
  | letter :: r1 =>
    if letter = '\\' then
      match hr1 : r1 with
      | [] =>
        -- peek(1) = "" and `"" in "\\{}"`: escape; letter = "" < " " becomes a blank
        .ok (tag st.ctx (wordAnd word .space))
      | d :: r2 =>
        if d = '\\' ∨ d = '{' ∨ d = '}' then
          scanC sp st r2 (word ++ [d])               -- escaped letter
        else if hw : word ≠ [] then
          have : 0 < word.length := List.length_pos_iff.mpr hw
          (fun ts => (Token.word word, st.ctx) :: ts) <$> scanC sp st (letter :: d :: r2) []
        else if d = '~' then (fun ts => (Token.nbsp, st.ctx) :: ts) <$> scanC sp st r2 []
        else if d = 'P' then (fun ts => (Token.newParagraph, st.ctx) :: ts) <$> scanC sp st r2 []
        else if d = 'N' then (fun ts => (Token.newColumn, st.ctx) :: ts) <$> scanC sp st r2 []
        else if d = 'X' then (fun ts => (Token.wrapAtDimline, st.ctx) :: ts) <$> scanC sp st r2 []
        else if d = 'S' then
          match he : extractExpr true r2 with
          | (expr, r3) =>
            have : r3.length ≤ r2.length := extractExpr_len' _ _ he
            (fun ts => (parseStacking expr, st.ctx) :: ts) <$> scanC sp st r3 []
        else
          match hp : parseProperties d r2 with
          | none => scanC sp st r2 (word ++ ['\\', d])   -- UnknownCommand: verbatim
          | some (.error e) => .error e
          | some (.ok r3) =>
            have : r3.length ≤ r2.length := parseProperties_len hp
            -- `return PROPERTIES_CHANGED, scanner.substr2(cmd_start_index, scanner.index())` (word is empty here)
            (fun ts => (Token.props ('\\' :: d :: r2.take (r2.length - r3.length)), (applyCmd d r2 st).ctx) :: ts) <$>
              scanC sp (applyCmd d r2 st) r3 []
    else
      -- control chars (caret decoding already done)
      if letter = '\t' then (fun ts => tag st.ctx (wordAnd word .tab) ++ ts) <$> scanC sp st r1 []
      else if letter = '\n' then (fun ts => tag st.ctx (wordAnd word .newParagraph) ++ ts) <$> scanC sp st r1 []
      else if letter.toNat < 32 then (fun ts => tag st.ctx (wordAnd word .space) ++ ts) <$> scanC sp st r1 []
      else
        match hs : specialAt sp letter r1 with
        | some (l, r3) =>
          have : r3.length < r1.length := specialAt_len hs
          scanC sp st r3 (word ++ [l])
        | none =>
          if letter = ' ' then (fun ts => tag st.ctx (wordAnd word .space) ++ ts) <$> scanC sp st r1 []
          else if letter = '{' ∨ letter = '}' then
            if hw : word ≠ [] then
              have : 0 < word.length := List.length_pos_iff.mpr hw
              (fun ts => (Token.word word, st.ctx) :: ts) <$> scanC sp st (letter :: r1) []
            else scanC sp (if letter = '{' then st.push else st.pop) r1 []
          else scanC sp st r1 (word ++ [letter])
termination_by (rest.length, word.length)
decreasing_by
  all_goals simp_wf
  all_goals subst_vars
  all_goals first
    | (apply Prod.Lex.left; show _ < _; (try simp only [List.length_cons]); omega)
    | (apply Prod.Lex.right; show _ < _; (try simp only [List.length_cons, List.length_nil]); omega)


/-! ### the editor's items on the parser state, and the expected tokens with contexts -/

def Item.cstep (i : Item) (st : PState) : PState :=
  match i with
  | .cmd d args => applyCmd d (args ++ [';']) st
  | .one d => if d = 'P' ∨ d = 'X' then st else applyCmd d [] st
  | .openGroup => st.push
  | .closeGroup => st.pop
  | _ => st

def XItem.cstep (x : XItem) (st : PState) : PState :=
  match x with
  | .base i => i.cstep st
  | _ => st

/-- a PROPERTIES_CHANGED token is yielded with the context AFTER its command, every other token of the
    item (the flushed word included) with the context before -/
def withCtx (before after : Ctx) (ts : List Token) : List (Token × Ctx) :=
  ts.map (fun t => (t, match t with | .props _ => after | _ => before))

def XItem.ctokens (x : XItem) (word : Str) (st : PState) : List (Token × Ctx) × Str :=
  (withCtx st.ctx (x.cstep st).ctx (x.tokens word).1, (x.tokens word).2)

def xitemsCTokens : List XItem → Str → PState → List (Token × Ctx)
  | [], word, st => tag st.ctx (flushWord word)
  | x :: xs, word, st => (x.ctokens word st).1 ++ xitemsCTokens xs (x.ctokens word st).2 (x.cstep st)

def xitemsState : List XItem → PState → PState
  | [], st => st
  | x :: xs, st => xitemsState xs (x.cstep st)

/-- tokens with contexts that `MTextParser(str(editor), yield_property_commands=True)` must yield -/
def xEditorCTokens (ops : List XOp) : List (Token × Ctx) := xitemsCTokens (ops.map XOp.items).flatten [] {}

def parseC (sp : Special) (text : Str) : Except PyErr (List (Token × Ctx)) := scanC sp {} (caretDecode text) []

end EzdxfVerif.Text

/-
Model of `lldxf/extendedtags.py`: `ExtendedTags._setup` (split a tag sequence into base class,
subclasses, application data, embedded objects and XDATA) and `ExtendedTags.__iter__`.
Core Lean only.  A tag value is a string (list of code points) or, for the placeholder that
`collect_base_class` leaves behind for an application-data group, an index.
-/
namespace EzdxfVerif.XTags

inductive V where
  | str (s : List Nat)
  | ref (n : Nat)            -- DXFTag(102, app_data_pos): int value, only created by _setup
  deriving Repr, DecidableEq

structure Tag where
  code : Nat
  val : V
  deriving Repr, DecidableEq

def embeddedObjStr : List Nat := "Embedded Object".toList.map Char.toNat

/-- `is_app_data_marker`: code 102 and value.startswith("{") -/
def isAppStart (t : Tag) : Bool :=
  t.code == 102 && (match t.val with | .str (123 :: _) => true | _ => false)

/-- `is_embedded_object_marker` -/
def isEO (t : Tag) : Bool := t.code == 101 && t.val == .str embeddedObjStr

/-- `is_end_of_class` -/
def isEndOfClass (t : Tag) : Bool := t.code == 100 || isEO t || t.code == 1001

/-- closing tag of an application-data group started by `start`: (102, "}") or (102, "APPID}") -/
def isAppClose (start t : Tag) : Bool :=
  t.code == 102 &&
    (t.val == .str [125] ||
      (match start.val with
       | .str (_ :: name) => t.val == .str (name ++ [125])
       | _ => false))

structure XT where
  subclasses : List (List Tag)       -- subclasses[0] is the base class
  appdata : List (List Tag)
  embedded : List (List Tag)         -- None in Python when empty
  xdata : List (List Tag)
  deriving Repr, DecidableEq

/-- `collect_base_class` + `collect_app_data` as one pass.  `cur` = the application-data group being
    collected (with its start tag).  Returns (base, appdata, rest starting at the end-of-class tag);
    `none` = DXFStructureError "Missing closing (102, '}') tag in appdata structure." -/
def collectBase : List Tag → List Tag → List (List Tag) → Option (Tag × List Tag) →
    Option (List Tag × List (List Tag) × List Tag)
  | [], base, apps, none => some (base, apps, [])
  | [], _, _, some _ => none
  | t :: r, base, apps, some (start, grp) =>
    if isAppClose start t then collectBase r base (apps ++ [grp ++ [t]]) none
    else collectBase r base apps (some (start, grp ++ [t]))
  | t :: r, base, apps, none =>
    if isAppStart t then collectBase r (base ++ [⟨t.code, .ref apps.length⟩]) apps (some (t, [t]))
    else if isEndOfClass t then some (base, apps, t :: r)
    else collectBase r (base ++ [t]) apps none

theorem length_dropWhile_le' (p : Tag → Bool) (l : List Tag) : (l.dropWhile p).length ≤ l.length := by
  induction l with
  | nil => simp
  | cons a t ih => simp only [List.dropWhile]; split <;> simp <;> omega

/-- `while start(tag): group = tag :: everything up to the next stop tag` : (groups, rest) -/
def collectGroups (start stop : Tag → Bool) (ts : List Tag) : List (List Tag) × List Tag :=
  match ts with
  | [] => ([], [])
  | t :: r =>
    if start t then
      let g := collectGroups start stop (r.dropWhile (fun x => !stop x))
      ((t :: r.takeWhile (fun x => !stop x)) :: g.1, g.2)
    else ([], t :: r)
termination_by ts.length
decreasing_by
  have := length_dropWhile_le' (fun x => !stop x) r
  simp only [List.length_cons]; omega

inductive Err where
  | missingAppClose | unexpectedTag
  deriving Repr, DecidableEq

/-- `ExtendedTags._setup` -/
def setup (ts : List Tag) : Except Err XT :=
  match collectBase ts [] [] none with
  | none => .error .missingAppClose
  | some (base, apps, r1) =>
    let subs := collectGroups (fun t => t.code == 100) isEndOfClass r1
    let emb := collectGroups isEO (fun t => isEO t || t.code == 1001) subs.2
    let xd := collectGroups (fun t => t.code == 1001) (fun t => t.code == 1001) emb.2
    if xd.2 = [] then .ok ⟨base :: subs.1, apps, emb.1, xd.1⟩
    else .error .unexpectedTag

/-- substitution of the application-data placeholders in one subclass -/
def expand (apps : List (List Tag)) : List Tag → List Tag
  | [] => []
  | t :: r =>
    (match t.code, t.val with
     | 102, .ref n => apps.getD n []
     | _, _ => [t]) ++ expand apps r

/-- `ExtendedTags.__iter__` (after the fix: embedded objects in front of the XDATA) -/
def iter (x : XT) : List Tag :=
  (x.subclasses.map (expand x.appdata)).flatten ++ x.embedded.flatten ++ x.xdata.flatten


/-- `ExtendedTags.new_app_data(appid, tags, subclass_name)`: the group is appended to `appdata` and a
    placeholder (102, index) is appended to subclass number `sub` (0 = base class) -/
def newAppData (x : XT) (sub : Nat) (group : List Tag) : XT :=
  { x with appdata := x.appdata ++ [group],
           subclasses := x.subclasses.zipIdx.map fun (sc, i) =>
             if i = sub then sc ++ [⟨102, .ref x.appdata.length⟩] else sc }

end EzdxfVerif.XTags

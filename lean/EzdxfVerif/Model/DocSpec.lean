/-
Specification vocabulary of the document state machine (used by Props/C04, C05, C06):
the handle history, the structural invariants and the observable "content" of a layout.
Definitions only; lemmas are in Lemmas/Doc.lean, property theorems in Props/.
-/
import EzdxfVerif.Model.Doc

namespace EzdxfVerif.Doc

def hs (s : State) : List Nat := s.ents.map (·.h)

def allH (sp : List (Nat × List Nat)) : List Nat := (sp.map (·.2)).flatten

def keys (sp : List (Nat × List Nat)) : List Nat := sp.map (·.1)

def SInv (sp : List (Nat × List Nat)) (H : List Nat) (n : Nat) : Prop :=
  (keys sp).Nodup ∧ (∀ k ∈ keys sp, k < n) ∧ (allH sp).Nodup ∧ (∀ h ∈ allH sp, h ∈ H)

/-- handles of all entities ever created are pairwise distinct and below the generator -/
def HInv (s : State) : Prop := (hs s).Nodup ∧ ∀ h ∈ hs s, h < s.next

def Same (s s' : State) : Prop := hs s' = hs s ∧ s'.next = s.next

/-- what a step does to the handle history of (top level) entities: nothing, one fresh handle appended, or
    (explode) a list of pairwise distinct handles appended, each fresh or (TEXT replacing an exploded ATTRIB, which
    takes over the handle of the ATTRIB) not the handle of any entity so far -/
def Grow (s s' : State) : Prop :=
  s.next ≤ s'.next ∧ (hs s' = hs s ∨ (∃ h, hs s' = hs s ++ [h] ∧ s.next ≤ h ∧ h < s'.next) ∨
    (∃ l, hs s' = hs s ++ l ∧ l.Nodup ∧ ∀ h ∈ l, (s.next ≤ h ∨ h ∉ hs s) ∧ h < s'.next))

/-- all handles ever issued to entities, sub-entities (VERTEX, ATTRIB, SEQEND) included -/
def ahs (s : State) : List Nat := (s.ents.map (fun e => e.h :: e.subs)).flatten

/-- sub-entities included: all handles ever issued are pairwise distinct and below the generator -/
def AHInv (s : State) : Prop := (ahs s).Nodup ∧ ∀ h ∈ ahs s, h < s.next

/-- effect of a step on the full handle history: a list of pairwise distinct fresh handles is appended -/
def GrowA (s s' : State) : Prop :=
  s.next ≤ s'.next ∧ ∃ l, ahs s' = ahs s ++ l ∧ l.Nodup ∧ ∀ h ∈ l, s.next ≤ h ∧ h < s'.next

/-- structural invariant of the entity spaces: block-record keys unique and below the generator,
    every handle occurs at most once over ALL spaces, and only handles of created entities occur -/
def DocInv (s : State) : Prop := HInv s ∧ SInv s.spaces (hs s) s.next

/-- caller obligation documented for `BaseLayout.add_entity`: the entity is not linked anywhere -/
def OpOk (s : State) : Op → Prop
  | .addex _ e => e ∉ allH s.spaces
  | _ => True

/-- a history obeying the `add_entity` obligation at every step -/
def HistOk : State → List Op → Prop
  | _, [] => True
  | s, op :: r => OpOk s op ∧ HistOk (step s op).1 r

/-- what iterating a layout / block yields: the live entities of its entity space, in order -/
def content (s : State) (k : Nat) : List Nat := ((spaceOf s k).getD []).filter (isAlive s)

/-- all entity handles that `Drawing.write` exports -/
def written (w : FileAbs) : List Nat := (w.blocks.map (·.2)).flatten ++ w.entities

end EzdxfVerif.Doc

/-
C08  Format sniffing in front of the readers: filemanagement.py `readfile` decides between the Binary DXF loader, the ASCII
loader and `IOError("... is not a DXF file")` by lldxf/validator.py `is_binary_dxf_file` (22-byte sentinel) and
`is_dxf_file` / `is_dxf_stream` (a `(0, SECTION)` tag before any group code > 999).  ezdxf.read(stream), recover and the
iterdxf readers do not sniff.  Core Lean only.
-/
import EzdxfVerif.Model.Readers
import EzdxfVerif.Model.ReadersLines
import EzdxfVerif.Model.ReadersDetect

namespace EzdxfVerif.Readers

/-- `is_dxf_stream` on the tags of `ascii_tags_loader` (comments skipped, nothing behind EOF): True at the first
    `(0, "SECTION")` tag (the raw value, not stripped), False at a group code > 999 or at the end of the stream -/
def isDxfStreamLoop : List Tag → Bool
  | [] => false
  | t :: r => if t = tSECTION then true else if t.code > 999 then false else isDxfStreamLoop r

def isDxfStream (f : List Tag) : Bool := isDxfStreamLoop (asciiLoad f)

/-- `is_binary_dxf_file`: the first 22 bytes are the sentinel -/
def isBinaryFile (data : Bytes) : Bool := data.take 22 == binSentinel

inductive Route where
  | binary | ascii | notDxf
  deriving DecidableEq, Repr

/-- the dispatch of `ezdxf.readfile`; `tags` = the tags of the file read as ASCII DXF -/
def readfileRoute (data : Bytes) (tags : List Tag) : Route :=
  if isBinaryFile data then .binary else if isDxfStream tags then .ascii else .notDxf

/-- `ezdxf.readfile` on an ASCII file: IOError (`none`) unless the sniffer accepts it, else `ezdxf.read` -/
def strictFileModelspace (cfg : Cfg) (f : List Tag) : Option (Except Err (List Ent)) :=
  if isDxfStream f then some (strictModelspace cfg f) else none

end EzdxfVerif.Readers

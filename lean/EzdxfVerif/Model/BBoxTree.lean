/-
Model of the parts of C15 that sit above the box algebra (core Lean only, numbers are core `Rat`):

  * `Path` / `Cmd`: `ezdxf.path.Path` as start point + commands (LINE_TO, CURVE3_TO, CURVE4_TO, MOVE_TO);
    `controlVertices` (`Path.control_vertices()`, the box of fast mode), `preciseBBox` (the loop of
    `ezdxf.path.tools.precise_bbox` with the pen position `start` carried from command to command) and
    `pathsBBox` (`ezdxf.path.tools.bbox`);
  * `axisParams` / `cubicBBox` / `quadBBox`: `cubic_bezier_bbox` and `quadratic_bezier_bbox` of
    `math/curvetools.py`: per axis the roots of the derivative `a t^2 + b t + c` by the numerically stable
    quadratic formula; `math.sqrt` is a parameter `sqrt : Rat -> Option Rat` (`none` = ValueError);
  * `Aff`: the affine part of `Matrix44.transform`;
  * `Forest`: an entity TREE.  A forest is the content of a layout: a leaf (an entity that is rendered as one
    path, with the key `Cache._get_key` gives it) or an INSERT with its matrix, its attached ATTRIBs, the content
    of the referenced block and the following entities;
  * `xform`: `entity.transform(m)` applied to virtual copies as `virtual_block_reference_entities.transform`
    does it: a leaf is mapped, an INSERT absorbs the matrix (`Insert.transform`) when the result is
    representable (`repr`, an arbitrary predicate: `InsertTransformationError` otherwise) and is otherwise
    replaced by its transformed block content, to which the pending transformations are applied one after
    the other; copies have no handle (key `none`); the fall-back does not yield the ATTRIBs of the INSERT;
  * `decompose`: `disassemble.recursive_decompose` (INSERT -> attribs, then the decomposition of its
    virtual entities); `toEnts`: what `multi_flat` sees (one `Ent` per top-level entity, its non-empty
    primitives with key and box), so that the cache model of `Model/BBox.lean` runs on a tree.
  MINSERT grids (`mcount > 1`) are not modelled (oracle only).
-/
import EzdxfVerif.Model.BBox
namespace EzdxfVerif.BBox

/-! ## affine maps -/

/-- `Matrix44.transform(v)`: x' = xx*x + xy*y + xz*z + tx, ... -/
structure Aff where
  xx : Rat
  xy : Rat
  xz : Rat
  yx : Rat
  yy : Rat
  yz : Rat
  zx : Rat
  zy : Rat
  zz : Rat
  tx : Rat
  ty : Rat
  tz : Rat
deriving DecidableEq, Repr

namespace Aff

def apply (a : Aff) (p : V3) : V3 :=
  ⟨a.xx * p.x + a.xy * p.y + a.xz * p.z + a.tx,
   a.yx * p.x + a.yy * p.y + a.yz * p.z + a.ty,
   a.zx * p.x + a.zy * p.y + a.zz * p.z + a.tz⟩

/-- `t.comp m`: first `m`, then `t` (the matrix of an INSERT with matrix `m` after `transform(t)`) -/
def comp (t m : Aff) : Aff :=
  { xx := t.xx * m.xx + t.xy * m.yx + t.xz * m.zx
    xy := t.xx * m.xy + t.xy * m.yy + t.xz * m.zy
    xz := t.xx * m.xz + t.xy * m.yz + t.xz * m.zz
    yx := t.yx * m.xx + t.yy * m.yx + t.yz * m.zx
    yy := t.yx * m.xy + t.yy * m.yy + t.yz * m.zy
    yz := t.yx * m.xz + t.yy * m.yz + t.yz * m.zz
    zx := t.zx * m.xx + t.zy * m.yx + t.zz * m.zx
    zy := t.zx * m.xy + t.zy * m.yy + t.zz * m.zy
    zz := t.zx * m.xz + t.zy * m.yz + t.zz * m.zz
    tx := t.xx * m.tx + t.xy * m.ty + t.xz * m.tz + t.tx
    ty := t.yx * m.tx + t.yy * m.ty + t.yz * m.tz + t.ty
    tz := t.zx * m.tx + t.zy * m.ty + t.zz * m.tz + t.tz }

def one : Aff := ⟨1, 0, 0, 0, 1, 0, 0, 0, 1, 0, 0, 0⟩

end Aff

/-! ## paths -/

inductive Cmd where
  | lineTo (e : V3)
  | curve3To (c e : V3)
  | curve4To (c1 c2 e : V3)
  | moveTo (e : V3)
deriving DecidableEq, Repr

namespace Cmd

def endPoint : Cmd → V3
  | lineTo e => e
  | curve3To _ e => e
  | curve4To _ _ e => e
  | moveTo e => e

/-- the vertices `Path` stores for the command -/
def verts : Cmd → List V3
  | lineTo e => [e]
  | curve3To c e => [c, e]
  | curve4To c1 c2 e => [c1, c2, e]
  | moveTo e => [e]

def map (a : Aff) : Cmd → Cmd
  | lineTo e => lineTo (a.apply e)
  | curve3To c e => curve3To (a.apply c) (a.apply e)
  | curve4To c1 c2 e => curve4To (a.apply c1) (a.apply c2) (a.apply e)
  | moveTo e => moveTo (a.apply e)

end Cmd

structure Path where
  start : V3
  cmds : List Cmd
deriving DecidableEq, Repr

/-- the box functions used for curve segments: `cubic_bezier_bbox(Bezier4P((start, c1, c2, end)))` and
    `quadratic_bezier_bbox(Bezier3P((start, c, end)))` -/
structure SegBoxes where
  bb4 : V3 → V3 → V3 → V3 → Box3
  bb3 : V3 → V3 → V3 → Box3

namespace Path

/-- `len(path) == 0` / `not bool(path)`: no command -/
def isEmpty (p : Path) : Bool := p.cmds.isEmpty

/-- `Path.control_vertices()`: `[]` for a path without commands -/
def controlVertices (p : Path) : List V3 :=
  if p.cmds.isEmpty then [] else p.start :: p.cmds.flatMap Cmd.verts

/-- `Path.transform(m)` -/
def map (a : Aff) (p : Path) : Path := ⟨a.apply p.start, p.cmds.map (Cmd.map a)⟩

/-- one round of the loop of `precise_bbox`: the points appended and the pen position afterwards.
    (`bb.extmin`, `bb.extmax` are appended; a curve box always has data.) -/
def preciseStep (sb : SegBoxes) (start : V3) : Cmd → List V3 × V3
  | .lineTo e => ([e], e)
  | .curve4To c1 c2 e => ((sb.bb4 start c1 c2 e).iter, e)
  | .curve3To c e => ((sb.bb3 start c e).iter, e)
  | .moveTo e => ([e], e)

def preciseLoop (sb : SegBoxes) : V3 → List Cmd → List V3
  | _, [] => []
  | s, c :: cs => (preciseStep sb s c).1 ++ preciseLoop sb (preciseStep sb s c).2 cs

/-- `ezdxf.path.tools.precise_bbox` -/
def preciseBBox (sb : SegBoxes) (p : Path) : Box3 :=
  if p.cmds.isEmpty then .empty else extents3 (p.start :: preciseLoop sb p.start p.cmds)

/-- `Primitive.bbox(fast)` of a path primitive -/
def box (sb : SegBoxes) (fast : Bool) (p : Path) : Box3 :=
  if fast then extents3 p.controlVertices else p.preciseBBox sb

end Path

/-- `ezdxf.path.tools.bbox(paths, fast=...)` -/
def pathsBBox (sb : SegBoxes) (fast : Bool) (ps : List Path) : Box3 :=
  ps.foldl (fun acc p =>
    if fast then acc.extend p.controlVertices
    else
      let bb := p.preciseBBox sb
      if bb.hasData then acc.extend bb.iter else acc) .empty

/-! ### the geometry of a path (specification vocabulary): segments with the pen position tracked -/

/-- the segments of a path: (pen position before the command, command) -/
def segsFrom : V3 → List Cmd → List (V3 × Cmd)
  | _, [] => []
  | s, c :: cs => (s, c) :: segsFrom c.endPoint cs

/-- the point of a segment at parameter `t` (a MOVE_TO draws nothing: its target point, the start of the next
    sub-path, stands for it) -/
def segPoint (s : V3) (c : Cmd) (t : Rat) : V3 :=
  match c with
  | .lineTo e => ⟨s.x + (e.x - s.x) * t, s.y + (e.y - s.y) * t, s.z + (e.z - s.z) * t⟩
  | .curve3To c e => bezier3V s c e t
  | .curve4To c1 c2 e => bezier4V s c1 c2 e t
  | .moveTo e => e

/-- `q` is a point of the path (start point, a point of a line or curve segment, start of a sub-path) -/
def OnPath (p : Path) (q : V3) : Prop :=
  p.cmds ≠ [] ∧ (q = p.start ∨ ∃ sc ∈ segsFrom p.start p.cmds, ∃ t : Rat, 0 ≤ t ∧ t ≤ 1 ∧ q = segPoint sc.1 sc.2 t)

/-! ### hypotheses on the segment boxes (specification vocabulary) -/

/-- the segment box used for the segment (pen position `s`, command `c`) contains the curve -/
def SegBoxes.SoundAt (sb : SegBoxes) (s : V3) : Cmd → Prop
  | .curve4To c1 c2 e => ∀ t : Rat, 0 ≤ t → t ≤ 1 → (sb.bb4 s c1 c2 e).inside (bezier4V s c1 c2 e t) = true
  | .curve3To c e => ∀ t : Rat, 0 ≤ t → t ≤ 1 → (sb.bb3 s c e).inside (bezier3V s c e t) = true
  | _ => True

/-- the segment boxes contain the curve for every curve segment of the path -/
def Path.SoundOn (sb : SegBoxes) (p : Path) : Prop := ∀ sc ∈ segsFrom p.start p.cmds, sb.SoundAt sc.1 sc.2

/-- the segment boxes contain their curve, for all curves -/
def SegBoxes.Sound (sb : SegBoxes) : Prop :=
  (∀ s c1 c2 e t, 0 ≤ t → t ≤ 1 → (sb.bb4 s c1 c2 e).inside (bezier4V s c1 c2 e t) = true) ∧
  (∀ s c e t, 0 ≤ t → t ≤ 1 → (sb.bb3 s c e).inside (bezier3V s c e t) = true)

/-- the segment boxes lie in every box that contains the control points of the segment -/
def SegBoxes.InControl (sb : SegBoxes) : Prop :=
  (∀ (b : Box3) s c1 c2 e, b.inside s = true → b.inside c1 = true → b.inside c2 = true → b.inside e = true →
    ∀ x ∈ (sb.bb4 s c1 c2 e).iter, b.inside x = true) ∧
  (∀ (b : Box3) s c e, b.inside s = true → b.inside c = true → b.inside e = true →
    ∀ x ∈ (sb.bb3 s c e).iter, b.inside x = true)

/-- every corner of the segment boxes is a point of the curve -/
def SegBoxes.Tight (sb : SegBoxes) : Prop :=
  (∀ s c1 c2 e, ∀ x ∈ (sb.bb4 s c1 c2 e).iter,
    (∃ t, 0 ≤ t ∧ t ≤ 1 ∧ x.x = (bezier4V s c1 c2 e t).x) ∧ (∃ t, 0 ≤ t ∧ t ≤ 1 ∧ x.y = (bezier4V s c1 c2 e t).y) ∧
    (∃ t, 0 ≤ t ∧ t ≤ 1 ∧ x.z = (bezier4V s c1 c2 e t).z)) ∧
  (∀ s c e, ∀ x ∈ (sb.bb3 s c e).iter,
    (∃ t, 0 ≤ t ∧ t ≤ 1 ∧ x.x = (bezier3V s c e t).x) ∧ (∃ t, 0 ≤ t ∧ t ≤ 1 ∧ x.y = (bezier3V s c e t).y) ∧
    (∃ t, 0 ≤ t ∧ t ≤ 1 ∧ x.z = (bezier3V s c e t).z))

/-! ## `cubic_bezier_bbox` / `quadratic_bezier_bbox` -/

def rabs (x : Rat) : Rat := if x < 0 then -x else x

/-- `math.copysign(s, b)` (`b = -0.0` is outside the model) -/
def copysign (s b : Rat) : Rat := if b < 0 then -(rabs s) else rabs s

/-- the parameters in (0, 1) that `cubic_bezier_bbox` evaluates for ONE axis with control values
    `p1 p2 p3 p4`; `sqrt x = none` stands for the `ValueError` of `math.sqrt` -/
def axisParams (tol : Rat) (sqrt : Rat → Option Rat) (p1 p2 p3 p4 : Rat) : List Rat :=
  let a := 3 * (-p1 + 3 * p2 - 3 * p3 + p4)
  let b := 6 * (p1 - 2 * p2 + p3)
  let c := 3 * (p2 - p1)
  if rabs a < tol then
    let t := if rabs b < tol then -c else -c / b
    if 0 < t ∧ t < 1 then [t] else []
  else
    match sqrt (b * b - 4 * a * c) with
    | none => []
    | some s =>
      let q := -(1 / 2) * (b + copysign s b)
      if q = 0 then []
      else (if 0 < q / a ∧ q / a < 1 then [q / a] else []) ++ (if 0 < c / q ∧ c / q < 1 then [c / q] else [])

/-- all parameters (x axis, y axis, z axis: `for p1, p2, p3, p4 in zip(*cp)`) -/
def cubicParams (tol : Rat) (sqrt : Rat → Option Rat) (p0 p1 p2 p3 : V3) : List Rat :=
  axisParams tol sqrt p0.x p1.x p2.x p3.x ++ axisParams tol sqrt p0.y p1.y p2.y p3.y ++
    axisParams tol sqrt p0.z p1.z p2.z p3.z

/-- `cubic_bezier_bbox`: box of the end points and of the curve points at the collected parameters -/
def cubicBBox (tol : Rat) (sqrt : Rat → Option Rat) (p0 p1 p2 p3 : V3) : Box3 :=
  extents3 (p0 :: p3 :: (cubicParams tol sqrt p0 p1 p2 p3).map (bezier4V p0 p1 p2 p3))

/-- one coordinate of `quadratic_to_cubic_bezier`: `start + 2 * (control - start) / 3` -/
def elev (s c : Rat) : Rat := s + 2 * (c - s) / 3

def elevV (s c : V3) : V3 := ⟨elev s.x c.x, elev s.y c.y, elev s.z c.z⟩

/-- `quadratic_bezier_bbox` = `cubic_bezier_bbox(quadratic_to_cubic_bezier(curve))` -/
def quadBBox (tol : Rat) (sqrt : Rat → Option Rat) (p0 p1 p2 : V3) : Box3 :=
  cubicBBox tol sqrt p0 (elevV p0 p1) (elevV p2 p1) p2

/-- `math.sqrt` is exact at `x`: `none` (ValueError) only for a negative argument, otherwise the non-negative root
    (over the rationals this can only be asked for the discriminants that are actually evaluated) -/
def SqrtExactAt (sqrt : Rat → Option Rat) (x : Rat) : Prop :=
  match sqrt x with
  | none => x < 0
  | some s => 0 ≤ s ∧ s * s = x

instance (sqrt : Rat → Option Rat) (x : Rat) : Decidable (SqrtExactAt sqrt x) := by
  unfold SqrtExactAt; split <;> exact inferInstance

/-- the `abs_tol` tests of `cubic_bezier_bbox` decide "is zero" correctly on this axis: the coefficients `a` and
    (when it is read) `b` of the derivative are not tiny non-zero numbers -/
def AxisTolOK (tol p1 p2 p3 p4 : Rat) : Prop :=
  0 < tol ∧ (rabs (3 * (-p1 + 3 * p2 - 3 * p3 + p4)) < tol → 3 * (-p1 + 3 * p2 - 3 * p3 + p4) = 0) ∧
    (rabs (3 * (-p1 + 3 * p2 - 3 * p3 + p4)) < tol → rabs (6 * (p1 - 2 * p2 + p3)) < tol → 6 * (p1 - 2 * p2 + p3) = 0)

instance (tol p1 p2 p3 p4 : Rat) : Decidable (AxisTolOK tol p1 p2 p3 p4) := by unfold AxisTolOK; exact inferInstance

/-- exactness hypotheses for one axis: the tolerance tests and the square root of the discriminant -/
def AxisOK (tol : Rat) (sqrt : Rat → Option Rat) (p1 p2 p3 p4 : Rat) : Prop :=
  AxisTolOK tol p1 p2 p3 p4 ∧
    SqrtExactAt sqrt (6 * (p1 - 2 * p2 + p3) * (6 * (p1 - 2 * p2 + p3)) - 4 * (3 * (-p1 + 3 * p2 - 3 * p3 + p4)) * (3 * (p2 - p1)))

instance (tol : Rat) (sqrt : Rat → Option Rat) (p1 p2 p3 p4 : Rat) : Decidable (AxisOK tol sqrt p1 p2 p3 p4) := by
  unfold AxisOK; exact inferInstance

/-- the square root is exact where it is taken: only if the leading coefficient passes the `abs_tol` test -/
def AxisSqrtOK (tol : Rat) (sqrt : Rat → Option Rat) (p1 p2 p3 p4 : Rat) : Prop :=
  ¬ rabs (3 * (-p1 + 3 * p2 - 3 * p3 + p4)) < tol →
    SqrtExactAt sqrt (6 * (p1 - 2 * p2 + p3) * (6 * (p1 - 2 * p2 + p3)) - 4 * (3 * (-p1 + 3 * p2 - 3 * p3 + p4)) * (3 * (p2 - p1)))

instance (tol : Rat) (sqrt : Rat → Option Rat) (p1 p2 p3 p4 : Rat) : Decidable (AxisSqrtOK tol sqrt p1 p2 p3 p4) := by
  unfold AxisSqrtOK; exact inferInstance

/-- the weak hypothesis of the quantitative statements: a positive tolerance and exact square roots where taken
    (tiny non-zero coefficients allowed) -/
def CurveSqrtOK (tol : Rat) (sqrt : Rat → Option Rat) (p0 p1 p2 p3 : V3) : Prop :=
  0 < tol ∧ AxisSqrtOK tol sqrt p0.x p1.x p2.x p3.x ∧ AxisSqrtOK tol sqrt p0.y p1.y p2.y p3.y ∧
    AxisSqrtOK tol sqrt p0.z p1.z p2.z p3.z

instance (tol : Rat) (sqrt : Rat → Option Rat) (p0 p1 p2 p3 : V3) : Decidable (CurveSqrtOK tol sqrt p0 p1 p2 p3) := by
  unfold CurveSqrtOK; exact inferInstance

def CurveOK (tol : Rat) (sqrt : Rat → Option Rat) (p0 p1 p2 p3 : V3) : Prop :=
  AxisOK tol sqrt p0.x p1.x p2.x p3.x ∧ AxisOK tol sqrt p0.y p1.y p2.y p3.y ∧ AxisOK tol sqrt p0.z p1.z p2.z p3.z

instance (tol : Rat) (sqrt : Rat → Option Rat) (p0 p1 p2 p3 : V3) : Decidable (CurveOK tol sqrt p0 p1 p2 p3) := by
  unfold CurveOK; exact inferInstance

def SegOK (tol : Rat) (sqrt : Rat → Option Rat) (s : V3) : Cmd → Prop
  | .curve4To c1 c2 e => CurveOK tol sqrt s c1 c2 e
  | .curve3To c e => CurveOK tol sqrt s (elevV s c) (elevV e c) e
  | _ => True

instance (tol : Rat) (sqrt : Rat → Option Rat) (s : V3) (c : Cmd) : Decidable (SegOK tol sqrt s c) := by
  cases c <;> unfold SegOK <;> exact inferInstance

/-- every curve segment of the path (with the pen position tracked) meets the exactness hypotheses -/
def Path.CurvesOK (tol : Rat) (sqrt : Rat → Option Rat) (p : Path) : Prop :=
  ∀ sc ∈ segsFrom p.start p.cmds, SegOK tol sqrt sc.1 sc.2

instance (tol : Rat) (sqrt : Rat → Option Rat) (p : Path) : Decidable (p.CurvesOK tol sqrt) := by
  unfold Path.CurvesOK; exact inferInstance

/-- integer square root (floor) by bisection -/
def isqrtAux : Nat → Nat → Nat → Nat → Nat
  | 0, lo, _, _ => lo
  | f + 1, lo, hi, n =>
    if hi ≤ lo + 1 then lo
    else
      let mid := (lo + hi) / 2
      if mid * mid ≤ n then isqrtAux f mid hi n else isqrtAux f lo mid n

def isqrt (n : Nat) : Nat := isqrtAux (n.log2 + 2) 0 (n + 1) n

/-- a concrete `sqrt` for the driver and the examples: exact on squares of rationals (`SqrtExactAt` holds there),
    `none` for negative arguments -/
def ratSqrt (x : Rat) : Option Rat :=
  if x < 0 then none else some ((isqrt x.num.toNat : Rat) / (isqrt x.den : Rat))

def SegSqrtOK (tol : Rat) (sqrt : Rat → Option Rat) (s : V3) : Cmd → Prop
  | .curve4To c1 c2 e => CurveSqrtOK tol sqrt s c1 c2 e
  | .curve3To c e => CurveSqrtOK tol sqrt s (elevV s c) (elevV e c) e
  | _ => True

instance (tol : Rat) (sqrt : Rat → Option Rat) (s : V3) (c : Cmd) : Decidable (SegSqrtOK tol sqrt s c) := by
  cases c <;> unfold SegSqrtOK <;> exact inferInstance

/-- every square root that `precise_bbox` takes for the path is exact (no assumption on the size of the coefficients) -/
def Path.CurvesSqrtOK (tol : Rat) (sqrt : Rat → Option Rat) (p : Path) : Prop :=
  ∀ sc ∈ segsFrom p.start p.cmds, SegSqrtOK tol sqrt sc.1 sc.2

instance (tol : Rat) (sqrt : Rat → Option Rat) (p : Path) : Decidable (p.CurvesSqrtOK tol sqrt) := by
  unfold Path.CurvesSqrtOK; exact inferInstance

/-- a box grown by `e` on every side (`grow(e)` for `e >= 0`, total) -/
def growBox (b : Box3) (e : Rat) : Box3 :=
  match b with
  | .empty => .empty
  | .mk lo hi => .mk (lo.add ⟨-e, -e, -e⟩) (hi.add ⟨e, e, e⟩)

/-- segment boxes grown by `e` (specification vocabulary for the quantitative statements) -/
def SegBoxes.grown (sb : SegBoxes) (e : Rat) : SegBoxes :=
  ⟨fun s c1 c2 x => growBox (sb.bb4 s c1 c2 x) e, fun s c x => growBox (sb.bb3 s c x) e⟩

/-- the segment boxes of the real code -/
def realBoxes (tol : Rat) (sqrt : Rat → Option Rat) : SegBoxes := ⟨cubicBBox tol sqrt, quadBBox tol sqrt⟩

/-! ## entity trees -/

structure Leaf where
  key : Option Nat
  path : Path
deriving DecidableEq, Repr

inductive Forest where
  | nil
  | leaf (key : Option Nat) (path : Path) (rest : Forest)
  | insert (key : Option Nat) (m : Aff) (atts : List Leaf) (block : Forest) (rest : Forest)
deriving Repr

namespace Forest

def append : Forest → Forest → Forest
  | nil, g => g
  | leaf k p r, g => leaf k p (r.append g)
  | insert k m a b r, g => insert k m a b (r.append g)

def size : Forest → Nat
  | nil => 0
  | leaf _ _ r => 1 + r.size
  | insert _ _ _ b r => 1 + b.size + r.size

/-- nesting depth of block references -/
def depth : Forest → Nat
  | nil => 0
  | leaf _ _ r => r.depth
  | insert _ _ _ b r => max (1 + b.depth) r.depth

/-- INSERTs inside blocks carry no ATTRIBs (top-level INSERTs may) -/
def noAtts : Forest → Bool
  | nil => true
  | leaf _ _ r => r.noAtts
  | insert _ _ a b r => a.isEmpty && b.noAtts && r.noAtts

def plainBlocks : Forest → Bool
  | nil => true
  | leaf _ _ r => r.plainBlocks
  | insert _ _ _ b r => b.noAtts && r.plainBlocks

end Forest

/-- the matrix of an INSERT with extrusion (0, 0, 1), `Insert.matrix44()`: `p' = R * S * (p - base) + insert`;
    the rotation is given by its cosine and sine, `base` is the base point of the block -/
def insertAff (base scale ins : V3) (co si : Rat) : Aff :=
  { xx := co * scale.x, xy := -(si * scale.y), xz := 0
    yx := si * scale.x, yy := co * scale.y, yz := 0
    zx := 0, zy := 0, zz := scale.z
    tx := ins.x - co * scale.x * base.x + si * scale.y * base.y
    ty := ins.y - si * scale.x * base.x - co * scale.y * base.y
    tz := ins.z - scale.z * base.z }

/-- the matrix of an INSERT in an arbitrary OCS with the axes `ux uy uz` (arbitrary axis algorithm): block point `p` ->
    `(p.x - base.x) sx (c ux + s uy) + (p.y - base.y) sy (-s ux + c uy) + (p.z - base.z) sz uz + toWcs(insert)`;
    the same map as C12's `insertMatrix` (Lemmas/BBoxOcs.lean: `ocsAff_eq`) -/
def ocsAff (ux uy uz base scale ins : V3) (co si : Rat) : Aff :=
  let ex : V3 := ⟨scale.x * (co * ux.x + si * uy.x), scale.x * (co * ux.y + si * uy.y), scale.x * (co * ux.z + si * uy.z)⟩
  let ey : V3 := ⟨scale.y * (-si * ux.x + co * uy.x), scale.y * (-si * ux.y + co * uy.y), scale.y * (-si * ux.z + co * uy.z)⟩
  let ez : V3 := ⟨scale.z * uz.x, scale.z * uz.y, scale.z * uz.z⟩
  let w : V3 := ⟨ins.x * ux.x + ins.y * uy.x + ins.z * uz.x, ins.x * ux.y + ins.y * uy.y + ins.z * uz.y,
    ins.x * ux.z + ins.y * uy.z + ins.z * uz.z⟩
  { xx := ex.x, xy := ey.x, xz := ez.x, yx := ex.y, yy := ey.y, yz := ez.y, zx := ex.z, zy := ey.z, zz := ez.z
    tx := w.x - (base.x * ex.x + base.y * ey.x + base.z * ez.x)
    ty := w.y - (base.x * ex.y + base.y * ey.y + base.z * ez.y)
    tz := w.z - (base.x * ex.z + base.y * ey.z + base.z * ez.z) }

/-- the grid cell of a MINSERT with the unscaled offset `(ox, oy)`: `Insert.multi_insert()` moves the insert point
    by the rotated offset -/
def gridAff (m : Aff) (co si ox oy : Rat) : Aff :=
  { m with tx := m.tx + (co * ox - si * oy), ty := m.ty + (si * ox + co * oy) }

/-- the block content `rows x cols` times: the virtual INSERTs `multi_insert()` yields (rows outside, columns inside) -/
def gridCells (m : Aff) (co si cs rs : Rat) (cols : Nat) (block : Forest) : Nat → Forest
  | 0 => .nil
  | r + 1 =>
    (gridCells m co si cs rs cols block r).append
      ((List.range cols).foldr (fun (c : Nat) acc => .insert none (gridAff m co si ((c : Rat) * cs) ((r : Rat) * rs)) [] block acc) .nil)

/-- a MINSERT (`mcount > 1`) as a tree: `recursive_decompose` replaces it by the decomposition of its grid copies,
    which is the decomposition of a wrapper with the identity matrix around them -/
def minsert (key : Option Nat) (m : Aff) (co si cs rs : Rat) (cols rows : Nat) (block rest : Forest) : Forest :=
  .insert key Aff.one [] (gridCells m co si cs rs cols block rows) rest

/-- the attached ATTRIBs of a virtual INSERT copy after `transform(t)` -/
def mapAtts (t : Aff) (atts : List Leaf) : List Leaf := atts.map (fun l => ⟨none, l.path.map t⟩)

/-- apply the transformations `ts` (head first) to a virtual copy of every entity of the forest -/
def xform (repr : Aff → Bool) : List Aff → Forest → Forest
  | _, .nil => .nil
  | ts, .leaf _ p r => .leaf none (ts.foldl (fun p t => p.map t) p) (xform repr ts r)
  | [], .insert _ m a b r => .insert none m (a.map (fun l => ⟨none, l.path⟩)) b (xform repr [] r)
  | t :: ts, .insert _ m a b r =>
    if repr (t.comp m) then
      (xform repr ts (.insert none (t.comp m) (mapAtts t a) b .nil)).append (xform repr (t :: ts) r)
    else
      (xform repr (m :: t :: ts) b).append (xform repr (t :: ts) r)
termination_by ts f => (f.size, ts.length)
decreasing_by
  all_goals simp_wf
  all_goals simp only [Forest.size, Prod.lex_def]
  all_goals omega

/-- `Insert.virtual_entities()`: the block content, every entity copied and transformed by the matrix -/
def virtualEntities (repr : Aff → Bool) (m : Aff) (block : Forest) : Forest := xform repr [m] block

theorem Forest.size_append (f g : Forest) : (f.append g).size = f.size + g.size := by
  induction f with
  | nil => simp [Forest.append, Forest.size]
  | leaf k p r ih => simp only [Forest.append, Forest.size]; omega
  | insert k m a b r ih => simp only [Forest.append, Forest.size]; omega

theorem xform_size_le (repr : Aff → Bool) (ts : List Aff) (f : Forest) : (xform repr ts f).size ≤ f.size := by
  fun_induction xform repr ts f with
  | case1 => simp [Forest.size]
  | case2 ts k p r ih => simp only [Forest.size]; omega
  | case3 k m a b r ih => simp only [Forest.size]; omega
  | case4 t ts k m a b r h ih1 ih2 =>
    simp only [Forest.size_append, Forest.size] at *; omega
  | case5 t ts k m a b r h ih1 ih2 =>
    simp only [Forest.size_append, Forest.size] at *; omega

/-- `disassemble.recursive_decompose`: the flat stream of entities (with their cache keys) -/
def decompose (repr : Aff → Bool) : Forest → List Leaf
  | .nil => []
  | .leaf k p r => ⟨k, p⟩ :: decompose repr r
  | .insert _ m a b r =>
    have : (xform repr [m] b).size ≤ b.size := xform_size_le repr [m] b
    a ++ decompose repr (xform repr [m] b) ++ decompose repr r
termination_by f => f.size
decreasing_by
  all_goals simp_wf
  all_goals simp only [Forest.size]
  all_goals omega

/-- the first entity of a forest as a forest of its own -/
def Forest.heads : Forest → List Forest
  | .nil => []
  | .leaf k p r => .leaf k p .nil :: r.heads
  | .insert k m a b r => .insert k m a b .nil :: r.heads

def Forest.headKey : Forest → Option Nat
  | .nil => none
  | .leaf k _ _ => k
  | .insert k _ _ _ _ => k

/-- the primitives `multi_recursive` sees for a collection of entities: empty primitives are skipped -/
def primsOf (repr : Aff → Bool) (sb : SegBoxes) (fast : Bool) (f : Forest) : List Prim :=
  ((decompose repr f).filter (fun l => !l.path.isEmpty)).map (fun l => ⟨l.key, l.path.box sb fast⟩)

/-- what `multi_flat` iterates over: one `Ent` per top-level entity -/
def toEnts (repr : Aff → Bool) (sb : SegBoxes) (fast : Bool) (f : Forest) : List Ent :=
  f.heads.map (fun h => ⟨h.headKey, primsOf repr sb fast h⟩)

/-! ### specification: every leaf with the composed transformation of its ancestors -/

/-- (composed matrix, original path) of every leaf; attached ATTRIBs live in the space of their INSERT -/
def placements (acc : Aff) : Forest → List (Aff × Path)
  | .nil => []
  | .leaf _ p r => (acc, p) :: placements acc r
  | .insert _ m a b r => a.map (fun l => (acc, l.path)) ++ placements (acc.comp m) b ++ placements acc r

/-- the paths in world coordinates -/
def worldPaths (f : Forest) : List Path := (placements Aff.one f).map (fun tp => tp.2.map tp.1)

/-- the handles (keys) of the real entities a cache can see: top-level entities and their ATTRIBs -/
def Forest.handles : Forest → List Nat
  | .nil => []
  | .leaf k _ r => k.toList ++ r.handles
  | .insert k _ a _ r => k.toList ++ a.flatMap (fun l => l.key.toList) ++ r.handles

/-- `Cache.invalidate(entities)`: for EVERY given entity, whether it is stored or not and in whatever order, the entries
    of its key are removed (`dict.pop(key, None)`; since fix 20e7078cb an entity has one entry per `fast` flag, the harness
    passes both model keys `2 h` and `2 h + 1`); an entity without key (`none`: HATCH, no handle) is skipped; the counters
    are not touched -/
def Cache.invalidate (c : Cache) (ks : List (Option Nat)) : Cache :=
  ks.foldl (fun c k =>
    match k with
    | none => c
    | some k => { c with boxes := c.boxes.filter (fun e => !(e.1 == k)) }) c

/-- the keys a cache holds -/
def Cache.keys (c : Cache) : List Nat := c.boxes.map (·.1)

/-- the (key, box) pairs an entity stands for: its own key with its flat box, the keys of its primitives with
    their boxes -/
def entPairs (e : Ent) : List (Nat × Box3) :=
  e.key.toList.map (fun k => (k, e.flatBox)) ++ e.prims.flatMap (fun q => q.key.toList.map (fun k => (k, q.box)))

def keyBoxes (es : List Ent) : List (Nat × Box3) := es.flatMap entPairs

/-- the box that belongs to a key in a collection of entities (first occurrence; `empty` for an unknown key) -/
def truthOf (es : List Ent) (k : Nat) : Box3 :=
  match (keyBoxes es).find? (fun p => p.1 == k) with
  | some p => p.2
  | none => .empty

/-! ## `cubic_bezier_arc_parameters`: one Bézier segment of a circular arc (unit circle, center (0, 0)) -/

/-- control points of one segment: `start_point`, `start_point + (-start_point.y * L, start_point.x * L)`,
    `end_point + (end_point.y * L, -end_point.x * L)`, `end_point`; `L` = `tangent_length` -/
def arcSegment (s e : V2) (L : Rat) : V2 × V2 × V2 × V2 :=
  (s, ⟨s.x + -s.y * L, s.y + s.x * L⟩, ⟨e.x + e.y * L, e.y + -e.x * L⟩, e)

/-- `TANGENT_FACTOR * math.tan(segment_angle / 4.0)` with `u = tan(segment_angle / 4)` -/
def arcTangentLength (u : Rat) : Rat := 4 / 3 * u

/-- the end point of the segment: `s` rotated by the segment angle, expressed through `u = tan(segment_angle / 4)`
    (`cos(a/2) = (1 - u^2) / (1 + u^2)`, `sin(a/2) = 2 u / (1 + u^2)`, double angle formulas) -/
def rotByQuarterTan (u : Rat) (s : V2) : V2 :=
  let c := (1 - u * u) / (1 + u * u)
  let sn := 2 * u / (1 + u * u)
  let ca := c * c - sn * sn
  let sa := 2 * sn * c
  ⟨s.x * ca - s.y * sa, s.y * ca + s.x * sa⟩

/-- squared distance from the center of the point at parameter `t` of the segment that starts at `s` -/
def arcCurveNorm2 (u : Rat) (s : V2) (t : Rat) : Rat :=
  let e := rotByQuarterTan u s
  let cp := arcSegment s e (arcTangentLength u)
  let x := bezier4 cp.1.x cp.2.1.x cp.2.2.1.x cp.2.2.2.x t
  let y := bezier4 cp.1.y cp.2.1.y cp.2.2.1.y cp.2.2.2.y t
  x * x + y * y

/-! ## `path.tools.add_bezier4p` / `add_bezier3p`: curves appended to a path

`near a b` = `a.isclose(b)` (connection test), `same a b` = `a.isclose(b, rel_tol=1e-15, abs_tol=0)` (collapsed control point).
The curves are taken in the order in which the loop sees them (after the optional `reverse_bezier_curves`). -/

/-- one round of the loop of `add_bezier4p`: a connecting line if the curve does not start at the pen, then a LINE_TO if
    BOTH inner control points are collapsed into their end points, else the CURVE4_TO -/
def addBezier4Step (near same : V3 → V3 → Bool) (pen s c1 c2 e : V3) : List Cmd :=
  (if near s pen then [] else [.lineTo s]) ++ (if same s c1 && same e c2 then [.lineTo e] else [.curve4To c1 c2 e])

/-- one round of the loop of `add_bezier3p`: LINE_TO if the control point is collapsed into the start OR the end point -/
def addBezier3Step (near same : V3 → V3 → Bool) (pen s c e : V3) : List Cmd :=
  (if near s pen then [] else [.lineTo s]) ++ (if same s c || same e c then [.lineTo e] else [.curve3To c e])

def addBezier4 (near same : V3 → V3 → Bool) : V3 → List (V3 × V3 × V3 × V3) → List Cmd
  | _, [] => []
  | pen, (s, c1, c2, e) :: r => addBezier4Step near same pen s c1 c2 e ++ addBezier4 near same e r

/-! ## `disassemble.Primitive.bbox` by kind of primitive

`make_primitive` looks the class up in `_PRIMITIVE_CLASSES` (unknown types: `EmptyPrimitive`); only `LinePrimitive` and
`PointPrimitive` override `bbox`, every other class uses `Primitive.bbox`: mesh representation -> box of the mesh vertices,
path representation -> control vertices (fast) or `precise_bbox` (precise), neither -> empty box. -/

inductive PrimRep where
  | mesh (vs : List V3)
  | path (p : Path)
  | line (a b : V3)
  | point (p : V3)
  | none
deriving Repr

/-- the points whose box is the fast box -/
def PrimRep.controlPoints : PrimRep → List V3
  | .mesh vs => vs
  | .path p => p.controlVertices
  | .line a b => [a, b]
  | .point p => [p]
  | .none => []

/-- `primitive.bbox(fast)` -/
def PrimRep.box (sb : SegBoxes) (fast : Bool) : PrimRep → Box3
  | .mesh vs => extents3 vs
  | .path p => if p.cmds.isEmpty then .empty else p.box sb fast
  | .line a b => extents3 [a, b]
  | .point p => extents3 [p]
  | .none => .empty

/-! ## `rect_vertices` / `cube_vertices` (`none` = ValueError("empty bounding box")) -/

def Box2.rectVertices : Box2 → Option (List V2)
  | .empty => none
  | .mk lo hi => some [⟨lo.x, lo.y⟩, ⟨hi.x, lo.y⟩, ⟨hi.x, hi.y⟩, ⟨lo.x, hi.y⟩]

/-- `BoundingBox.rect_vertices()`: the corners in the xy-plane (`x0, y0, *_ = self.extmin`) -/
def Box3.rectVertices : Box3 → Option (List V2)
  | .empty => none
  | .mk lo hi => some [⟨lo.x, lo.y⟩, ⟨hi.x, lo.y⟩, ⟨hi.x, hi.y⟩, ⟨lo.x, hi.y⟩]

def Box3.cubeVertices : Box3 → Option (List V3)
  | .empty => none
  | .mk lo hi => some [⟨lo.x, lo.y, lo.z⟩, ⟨hi.x, lo.y, lo.z⟩, ⟨hi.x, hi.y, lo.z⟩, ⟨lo.x, hi.y, lo.z⟩,
      ⟨lo.x, lo.y, hi.z⟩, ⟨hi.x, lo.y, hi.z⟩, ⟨hi.x, hi.y, hi.z⟩, ⟨lo.x, hi.y, hi.z⟩]

/-! ## `ezdxf.select`: the selection shapes Window and Circle against the 2D bounding box of an entity

(`select_by_bbox` only passes boxes with data; distances are compared through their squares, `radius >= 0`.) -/

/-- `min(max(x, lo), hi)` -/
def clamp (x lo hi : Rat) : Rat := rmin (rmax x lo) hi

def dist2 (a b : V2) : Rat := (a.x - b.x) * (a.x - b.x) + (a.y - b.y) * (a.y - b.y)

structure SelCircle where
  c : V2
  r : Rat

namespace SelCircle

/-- `self._bbox` -/
def bbox (s : SelCircle) : Box2 := extents2 [⟨s.c.x - s.r, s.c.y - s.r⟩, ⟨s.c.x + s.r, s.c.y + s.r⟩]

/-- `_is_vertex_inside`: `center.distance(v) <= radius` -/
def vertexInside (s : SelCircle) (v : V2) : Bool := decide (dist2 s.c v ≤ s.r * s.r)

/-- `is_overlapping_bbox` (fixed code: the point of the box closest to the center) -/
def overlapping (s : SelCircle) : Box2 → Bool
  | .empty => false
  | .mk lo hi => s.bbox.hasOverlap (.mk lo hi) && s.vertexInside ⟨clamp s.c.x lo.x hi.x, clamp s.c.y lo.y hi.y⟩

def outside (s : SelCircle) (b : Box2) : Bool := !s.overlapping b

/-- `is_inside_bbox`: all four `rect_vertices()` inside -/
def inside (s : SelCircle) : Box2 → Bool
  | .empty => false
  | .mk lo hi => s.vertexInside lo && s.vertexInside ⟨hi.x, lo.y⟩ && s.vertexInside hi && s.vertexInside ⟨lo.x, hi.y⟩

end SelCircle

/-- `select.Window`: `self._bbox = BoundingBox2d((p1, p2))` -/
structure SelWindow where
  p1 : V2
  p2 : V2

namespace SelWindow
def bbox (w : SelWindow) : Box2 := extents2 [w.p1, w.p2]
def inside (w : SelWindow) (b : Box2) : Bool := w.bbox.contains b
def overlapping (w : SelWindow) (b : Box2) : Bool := w.bbox.hasOverlap b
def outside (w : SelWindow) (b : Box2) : Bool := !w.bbox.hasOverlap b
end SelWindow

/-! ## `bulge_to_arc`: the arc of a bulge segment `p1 -> p2` with bulge `b` (`b != 0`), without trigonometry

`r = d (1 + b^2) / (4 b)` (signed), centre `polar(p1, angle(p1, p2) + (pi/2 - 2 atan b), r)`; with
`cos(pi/2 - 2 atan b) = 2b / (1 + b^2)` and `sin(pi/2 - 2 atan b) = (1 - b^2) / (1 + b^2)` the centre is rational in the
coordinates: midpoint of the chord plus the left normal of the chord times `(1 - b^2) / (4 b)`. -/

def bulgeCenter (p1 p2 : V2) (b : Rat) : V2 :=
  ⟨(p1.x + p2.x) / 2 - (p2.y - p1.y) * ((1 - b * b) / (4 * b)), (p1.y + p2.y) / 2 + (p2.x - p1.x) * ((1 - b * b) / (4 * b))⟩

/-- the squared radius `(d (1 + b^2) / (4 b))^2` -/
def bulgeRadius2 (p1 p2 : V2) (b : Rat) : Rat := dist2 p1 p2 * ((1 + b * b) * (1 + b * b)) / (16 * (b * b))

/-- the apex of the arc: midpoint of the chord moved by the sagitta `b d / 2` along the right normal of the chord -/
def bulgeApex (p1 p2 : V2) (b : Rat) : V2 :=
  ⟨(p1.x + p2.x) / 2 + (p2.y - p1.y) * (b / 2), (p1.y + p2.y) / 2 - (p2.x - p1.x) * (b / 2)⟩

end EzdxfVerif.BBox

/-
Rat3: hand-written part of the rational geometry model (DESIGN.md section 6).

Only structures, the Python error enum, the two CPython library functions that the translated kernels
call (`abs`, `math.isclose`) and the *textbook* 4x4 matrix algebra that stands for what NumPy computes
(`np.matmul`, `ndarray.T`, `np.linalg.det`, `np.linalg.inv`; recorded assumption, tied to the code by the
correspondence streams).  All arithmetic kernels of ezdxf themselves are NOT written here: they are
regenerated from /repo's source on every run into Gen/*.lean by harness/translate/py2lean.py.
Core Lean only (no Mathlib).
-/
namespace EzdxfVerif.Rat3

/-- Python exception classes that the translated kernels can raise -/
inductive PyErr where
  | zeroDivision | typeError | valueError | indexError
deriving DecidableEq, Repr

@[ext] structure V2 where
  x : Rat
  y : Rat
deriving DecidableEq, Repr, Inhabited

@[ext] structure V3 where
  x : Rat
  y : Rat
  z : Rat
deriving DecidableEq, Repr, Inhabited

/-- flat row-major 4x4 matrix, field `mi` is `Matrix44._matrix[i]` / `Matrix44.m[i]` -/
@[ext] structure M44 where
  m0 : Rat
  m1 : Rat
  m2 : Rat
  m3 : Rat
  m4 : Rat
  m5 : Rat
  m6 : Rat
  m7 : Rat
  m8 : Rat
  m9 : Rat
  m10 : Rat
  m11 : Rat
  m12 : Rat
  m13 : Rat
  m14 : Rat
  m15 : Rat
deriving DecidableEq, Repr, Inhabited

/-- Python `abs` / C `fabs` on finite numbers -/
def pyAbs (a : Rat) : Rat := if 0 ≤ a then a else -a

/-- CPython `math.isclose(a, b, rel_tol=, abs_tol=)` for finite arguments (Modules/mathmodule.c):
    `a == b or diff <= |rel_tol*b| or diff <= |rel_tol*a| or diff <= abs_tol` -/
def pyIsclose (a b relTol absTol : Rat) : Bool :=
  decide (a = b) ||
  (decide (pyAbs (b - a) ≤ pyAbs (relTol * b)) || decide (pyAbs (b - a) ≤ pyAbs (relTol * a))) ||
  decide (pyAbs (b - a) ≤ absTol)

namespace V3
def add (a b : V3) : V3 := ⟨a.x + b.x, a.y + b.y, a.z + b.z⟩
def sub (a b : V3) : V3 := ⟨a.x - b.x, a.y - b.y, a.z - b.z⟩
def smul (k : Rat) (a : V3) : V3 := ⟨k * a.x, k * a.y, k * a.z⟩
def dot (a b : V3) : Rat := a.x * b.x + a.y * b.y + a.z * b.z
def cross (a b : V3) : V3 := ⟨a.y * b.z - a.z * b.y, a.z * b.x - a.x * b.z, a.x * b.y - a.y * b.x⟩
/-- scalar triple product = determinant of the matrix with rows a, b, c -/
def triple (a b c : V3) : Rat := dot a (cross b c)
end V3

namespace M44

def identity : M44 := ⟨1, 0, 0, 0, 0, 1, 0, 0, 0, 0, 1, 0, 0, 0, 0, 1⟩

def ux (m : M44) : V3 := ⟨m.m0, m.m1, m.m2⟩
def uy (m : M44) : V3 := ⟨m.m4, m.m5, m.m6⟩
def uz (m : M44) : V3 := ⟨m.m8, m.m9, m.m10⟩
def origin (m : M44) : V3 := ⟨m.m12, m.m13, m.m14⟩

/-- the code's transforms ignore the 4th column; a matrix is *affine* when that column is (0,0,0,1) -/
def IsAffine (m : M44) : Prop := m.m3 = 0 ∧ m.m7 = 0 ∧ m.m11 = 0 ∧ m.m15 = 1

instance (m : M44) : Decidable (IsAffine m) := by unfold IsAffine; infer_instance

/-- textbook matrix product, rows of `a` times columns of `b`: what `np.matmul(a.reshape(4,4), b.reshape(4,4))`
    is assumed to compute (exactly, when no rounding occurs) -/
def mul (a b : M44) : M44 :=
  ⟨a.m0 * b.m0 + a.m1 * b.m4 + a.m2 * b.m8 + a.m3 * b.m12,
   a.m0 * b.m1 + a.m1 * b.m5 + a.m2 * b.m9 + a.m3 * b.m13,
   a.m0 * b.m2 + a.m1 * b.m6 + a.m2 * b.m10 + a.m3 * b.m14,
   a.m0 * b.m3 + a.m1 * b.m7 + a.m2 * b.m11 + a.m3 * b.m15,
   a.m4 * b.m0 + a.m5 * b.m4 + a.m6 * b.m8 + a.m7 * b.m12,
   a.m4 * b.m1 + a.m5 * b.m5 + a.m6 * b.m9 + a.m7 * b.m13,
   a.m4 * b.m2 + a.m5 * b.m6 + a.m6 * b.m10 + a.m7 * b.m14,
   a.m4 * b.m3 + a.m5 * b.m7 + a.m6 * b.m11 + a.m7 * b.m15,
   a.m8 * b.m0 + a.m9 * b.m4 + a.m10 * b.m8 + a.m11 * b.m12,
   a.m8 * b.m1 + a.m9 * b.m5 + a.m10 * b.m9 + a.m11 * b.m13,
   a.m8 * b.m2 + a.m9 * b.m6 + a.m10 * b.m10 + a.m11 * b.m14,
   a.m8 * b.m3 + a.m9 * b.m7 + a.m10 * b.m11 + a.m11 * b.m15,
   a.m12 * b.m0 + a.m13 * b.m4 + a.m14 * b.m8 + a.m15 * b.m12,
   a.m12 * b.m1 + a.m13 * b.m5 + a.m14 * b.m9 + a.m15 * b.m13,
   a.m12 * b.m2 + a.m13 * b.m6 + a.m14 * b.m10 + a.m15 * b.m14,
   a.m12 * b.m3 + a.m13 * b.m7 + a.m14 * b.m11 + a.m15 * b.m15⟩

/-- `ndarray.T` -/
def transpose (m : M44) : M44 :=
  ⟨m.m0, m.m4, m.m8, m.m12, m.m1, m.m5, m.m9, m.m13, m.m2, m.m6, m.m10, m.m14, m.m3, m.m7, m.m11, m.m15⟩

/-- 3x3 determinant -/
def det3 (a b c d e f g h i : Rat) : Rat := a * (e * i - f * h) - b * (d * i - f * g) + c * (d * h - e * g)

/-- textbook determinant: Laplace expansion along the first row (what `np.linalg.det` approximates) -/
def det (m : M44) : Rat :=
  m.m0 * det3 m.m5 m.m6 m.m7 m.m9 m.m10 m.m11 m.m13 m.m14 m.m15
  - m.m1 * det3 m.m4 m.m6 m.m7 m.m8 m.m10 m.m11 m.m12 m.m14 m.m15
  + m.m2 * det3 m.m4 m.m5 m.m7 m.m8 m.m9 m.m11 m.m12 m.m13 m.m15
  - m.m3 * det3 m.m4 m.m5 m.m6 m.m8 m.m9 m.m10 m.m12 m.m13 m.m14

/-- classical adjugate (transposed cofactor matrix) from 3x3 minors -/
def adj (m : M44) : M44 :=
  ⟨ det3 m.m5 m.m6 m.m7 m.m9 m.m10 m.m11 m.m13 m.m14 m.m15,
   -det3 m.m1 m.m2 m.m3 m.m9 m.m10 m.m11 m.m13 m.m14 m.m15,
    det3 m.m1 m.m2 m.m3 m.m5 m.m6 m.m7 m.m13 m.m14 m.m15,
   -det3 m.m1 m.m2 m.m3 m.m5 m.m6 m.m7 m.m9 m.m10 m.m11,
   -det3 m.m4 m.m6 m.m7 m.m8 m.m10 m.m11 m.m12 m.m14 m.m15,
    det3 m.m0 m.m2 m.m3 m.m8 m.m10 m.m11 m.m12 m.m14 m.m15,
   -det3 m.m0 m.m2 m.m3 m.m4 m.m6 m.m7 m.m12 m.m14 m.m15,
    det3 m.m0 m.m2 m.m3 m.m4 m.m6 m.m7 m.m8 m.m10 m.m11,
    det3 m.m4 m.m5 m.m7 m.m8 m.m9 m.m11 m.m12 m.m13 m.m15,
   -det3 m.m0 m.m1 m.m3 m.m8 m.m9 m.m11 m.m12 m.m13 m.m15,
    det3 m.m0 m.m1 m.m3 m.m4 m.m5 m.m7 m.m12 m.m13 m.m15,
   -det3 m.m0 m.m1 m.m3 m.m4 m.m5 m.m7 m.m8 m.m9 m.m11,
   -det3 m.m4 m.m5 m.m6 m.m8 m.m9 m.m10 m.m12 m.m13 m.m14,
    det3 m.m0 m.m1 m.m2 m.m8 m.m9 m.m10 m.m12 m.m13 m.m14,
   -det3 m.m0 m.m1 m.m2 m.m4 m.m5 m.m6 m.m12 m.m13 m.m14,
    det3 m.m0 m.m1 m.m2 m.m4 m.m5 m.m6 m.m8 m.m9 m.m10⟩

def scale (k : Rat) (m : M44) : M44 :=
  ⟨k * m.m0, k * m.m1, k * m.m2, k * m.m3, k * m.m4, k * m.m5, k * m.m6, k * m.m7,
   k * m.m8, k * m.m9, k * m.m10, k * m.m11, k * m.m12, k * m.m13, k * m.m14, k * m.m15⟩

/-- textbook inverse: what `np.linalg.inv` approximates; `ZeroDivisionError` (the code's translation of
    `LinAlgError`) for singular matrices -/
def inv (m : M44) : Except PyErr M44 :=
  if det m = 0 then .error .zeroDivision else .ok (scale (1 / det m) (adj m))

/-- `Matrix44.chain(*ms)` as specification: left fold of products starting from the identity -/
def chain (ms : List M44) : M44 := ms.foldl mul identity

def toList (m : M44) : List Rat :=
  [m.m0, m.m1, m.m2, m.m3, m.m4, m.m5, m.m6, m.m7, m.m8, m.m9, m.m10, m.m11, m.m12, m.m13, m.m14, m.m15]

def ofList : List Rat → Option M44
  | [a0, a1, a2, a3, a4, a5, a6, a7, a8, a9, a10, a11, a12, a13, a14, a15] =>
    some ⟨a0, a1, a2, a3, a4, a5, a6, a7, a8, a9, a10, a11, a12, a13, a14, a15⟩
  | _ => none

end M44

end EzdxfVerif.Rat3

/-
Version gates of `Drawing.write` (C04): which entity types, header variables and CLASS entries are written for a
target DXF version.  Versions are indices 0..6 = R12 (AC1009), R2000 (AC1015), R2004 (AC1018), R2007 (AC1021),
R2010 (AC1024), R2013 (AC1027), R2018 (AC1032).  The tables are parameters here; the instances regenerated from
the live registry of /repo are in Gen/DocVersionTables.lean.  Core Lean only.

Sources: `DXFEntity.export_dxf` (`if tagwriter.dxfversion < self.MIN_DXF_VERSION_FOR_EXPORT: return`),
`header_vars_by_priority` (`vardef.mindxf <= dxfversion <= vardef.maxdxf`, sorted by priority),
`HeaderSection.export_dxf` (custom properties after `$LASTSAVEDBY`, else only under the version guard),
`ClassesSection.add_required_classes` / `add_class` / `register`, `Drawing.export_sections` (CLASSES only > R12).
-/
namespace EzdxfVerif.DocVersion

/-- `MIN_DXF_VERSION_FOR_EXPORT` per registered DXF type (unknown types are stored as tag storage: R12) -/
def minVerOf (tab : List (String × Nat)) (t : String) : Nat :=
  match tab.find? (·.1 == t) with | some e => e.2 | none => 0

/-- entity/object types that reach the file: `export_dxf` returns early below the minimal version -/
def exportTypes (tab : List (String × Nat)) (v : Nat) (types : List String) : List String :=
  types.filter (fun t => minVerOf tab t ≤ v)

structure HVar where
  name : String
  min : Nat
  max : Nat
  prio : Nat
  deriving Repr, DecidableEq

def hvarOf (tab : List HVar) (n : String) : Option HVar := tab.find? (·.name == n)

/-- `header_vars_by_priority` before sorting: known variables inside their version range -/
def gatedVars (tab : List HVar) (v : Nat) (vars : List String) : List HVar :=
  vars.filterMap (fun n => match hvarOf tab n with
    | some d => if d.min ≤ v ∧ v ≤ d.max then some d else none
    | none => none)

def insertByPrio (a : HVar) : List HVar → List HVar
  | [] => [a]
  | b :: r => if a.prio < b.prio ∨ (a.prio = b.prio ∧ a.name < b.name) then a :: b :: r else b :: insertByPrio a r

def sortByPrio (l : List HVar) : List HVar := l.foldr insertByPrio []

/-- names of the header variables written for version `v`, in the order of the file -/
def exportHeader (tab : List HVar) (v : Nat) (vars : List String) : List String :=
  (sortByPrio (gatedVars tab v vars)).map (·.name)

/-- `HeaderSection.export_dxf`: the custom properties are written directly after `$LASTSAVEDBY`; when that variable
    is not written they are written at the end if the version guard `fallback` allows it
    (`fallback = some m`: `dxfversion >= m`; `none`: no fall-back branch) -/
def customWritten (tab : List HVar) (fallback : Option Nat) (v : Nat) (vars : List String) : Bool :=
  (exportHeader tab v vars).contains "$LASTSAVEDBY" ||
  (match fallback with | some m => decide (m ≤ v) | none => false)

/-- `ClassesSection.register`: first registration of a name wins (names are the keys of the model) -/
def register (cls : List String) (n : String) : List String := if cls.contains n then cls else cls ++ [n]

/-- `add_class`: only names with a class definition -/
def addClass (defs : List String) (cls : List String) (n : String) : List String :=
  if defs.contains n then register cls n else cls

/-- `add_required_classes(dxfversion)`: the required names of the version, the companion classes of special types in
    use, then every DXF type in use -/
def addRequired (defs : List String) (req : List String) (co : List (String × List String))
    (cls : List String) (inUse : List String) : List String :=
  let c1 := req.foldl (addClass defs) cls
  let c2 := co.foldl (fun c p => if inUse.contains p.1 then p.2.foldl (addClass defs) c else c) c1
  inUse.foldl (addClass defs) c2

/-- the CLASSES section of the file: none for R12 -/
def exportClasses (defs : List String) (req : Nat → List String) (co : List (String × List String))
    (v : Nat) (cls : List String) (inUse : List String) : List String :=
  if v = 0 then [] else addRequired defs (req v) co cls inUse

end EzdxfVerif.DocVersion

/-
Flatten: executable model of the adaptive flattening code of ezdxf (DESIGN.md section 7, C14).
Core Lean only (no Mathlib); all arithmetic over core `Rat`.

What is copied, branch for branch:

* `Bezier4P.flattening` / `Bezier3P.flattening` of `ezdxf/math/_bezier4p.py`, `_bezier3p.py`
  (pure Python): the explicit push/pop stack machine  →  `stackLoop` + `spanLoop`.
* `Bezier4P.flattening` / `Bezier3P.flattening` + `_Flattening.flatten` of `ezdxf/acc/bezier4p.pyx`,
  `bezier3p.pyx` (Cython): recursion with `RECURSION_LIMIT`  →  `recSub` + `spanLoop`.
* `BSpline.flattening` (`ezdxf/math/bspline.py`): recursive generator `subdiv` per knot span,
  `math.isclose` snapping → `recSub` + `spanLoop` + `knotLoop`.
* `ConstructionEllipse.flattening` (`ezdxf/math/ellipse.py`): recursive generator `subdiv`,
  `math.isclose` snapping  →  `recSub` + `spanLoop`.

The curve `P : Rat → V` is a parameter of the model (any curve); the acceptance test is a parameter as
well (`Curve.test`), the two tests that exist in the code are `midTest` (Bezier: distance from the curve
point to the chord MIDPOINT) and `chordTest` (B-spline / ellipse: distance from the curve point to the
chord SEGMENT, `distance_point_segment_3d`); `lineTest` is the test these two used before the fixes
5dd05e20e / c03295f49 (distance to the infinite LINE through the chord ends, `distance_point_line_3d`).
Termination depends on the curve, so the stack machine and the outer loops take explicit fuel; the
recursive variant is structurally recursive in the remaining recursion budget.
-/
namespace EzdxfVerif.Flatten

/-! ## points -/

structure V3 where
  x : Rat
  y : Rat
  z : Rat
deriving DecidableEq, Repr, Inhabited

namespace V3
def add (a b : V3) : V3 := ⟨a.x + b.x, a.y + b.y, a.z + b.z⟩
def sub (a b : V3) : V3 := ⟨a.x - b.x, a.y - b.y, a.z - b.z⟩
def smul (k : Rat) (a : V3) : V3 := ⟨k * a.x, k * a.y, k * a.z⟩
def dot (a b : V3) : Rat := a.x * b.x + a.y * b.y + a.z * b.z
/-- `Vec3.lerp(other, factor)`: `self + (other - self) * factor` -/
def lerp (a b : V3) (f : Rat) : V3 := a.add (smul f (b.sub a))
/-- squared euclidean distance (`Vec3.distance` / `v3_dist` is the square root of this) -/
def dist2 (a b : V3) : Rat := dot (b.sub a) (b.sub a)
end V3

def pyAbs (a : Rat) : Rat := if 0 ≤ a then a else -a

/-- CPython `math.isclose(a, b, rel_tol=, abs_tol=)` for finite arguments; the Cython helper
    `isclose` of `acc/vector.pyx` is the same formula:
    `a == b or diff <= |rel_tol*b| or diff <= |rel_tol*a| or diff <= abs_tol` -/
def pyIsclose (relTol absTol a b : Rat) : Bool :=
  decide (a = b) ||
  (decide (pyAbs (b - a) ≤ pyAbs (relTol * b)) || decide (pyAbs (b - a) ≤ pyAbs (relTol * a))) ||
  decide (pyAbs (b - a) ≤ absTol)

/-- `numpy.isclose(a, b)` for finite scalars: `|a - b| <= atol + rtol * |b|` (asymmetric); the snap test of
    `BSpline.flattening` before its fix (kept for the record, no longer used by the model) -/
def npIsclose (rtol atol a b : Rat) : Bool := decide (pyAbs (a - b) ≤ atol + rtol * pyAbs b)

/-- `Vec3.isclose(other, rel_tol=1e-9, abs_tol=1e-12)`: all axes -/
def v3Isclose (relTol absTol : Rat) (a b : V3) : Bool :=
  pyIsclose relTol absTol a.x b.x && pyIsclose relTol absTol a.y b.y && pyIsclose relTol absTol a.z b.z

/-! ## the curve and the coded subdivision tests -/

/-- outcome of the coded test for chord `(s, e)` and curve point `m` at the middle parameter -/
inductive Verdict where
  | accept   -- `d < distance`: emit `e`
  | split    -- otherwise: subdivide at the middle parameter
  | raise    -- uncaught `ZeroDivisionError` (ellipse only)
deriving DecidableEq, Repr

structure Curve (V : Type) where
  P : Rat → V
  test : V → V → V → Verdict

inductive Err where
  | fuel          -- model fuel exhausted (the real loop would still be running)
  | recursion     -- `RecursionError`
  | zeroDivision  -- `ZeroDivisionError`
deriving DecidableEq, Repr

/-- `sqrt(q) < d` for `q ≥ 0` in exact arithmetic: never true for `d ≤ 0` (then the real loop never ends) -/
def sqrtLt (q d : Rat) : Bool := decide (0 < d) && decide (q < d * d)

/-- Bezier (both twins): `chk = start.lerp(end)`, `d = chk.distance(mid_point)`, `d < distance` -/
def midTest (d : Rat) (s e m : V3) : Verdict :=
  if sqrtLt (V3.dist2 (V3.lerp s e (1/2)) m) d then .accept else .split

/-- squared result of `distance_point_line_3d(m, s, e)` (math/construct3d.py) for `s ≠ e`:
    `v1 = m - s`, `v2 = (e - s).project(v1)`, `diff = |v1|² - |v2|²`, 0 if `diff <= 0` -/
def lineDist2 (s e m : V3) : Rat :=
  let v1 := m.sub s
  let u := e.sub s
  let diff := V3.dot v1 v1 - (V3.dot u v1) * (V3.dot u v1) / V3.dot u u
  if diff ≤ 0 then 0 else diff

/-- B-spline / ellipse BEFORE the fixes 5dd05e20e / c03295f49 (kept: the counterexample theorems of
    Props/C14.lean are about it): `distance_point_line_3d(m, s, e) < distance`;
    `s.isclose(e)` raises `ZeroDivisionError`, which `BSpline.flattening` turns into `_dist = 0`
    (`catchZero = true`) and `ConstructionEllipse.flattening` lets escape (`catchZero = false`) -/
def lineTest (relTol absTol : Rat) (catchZero : Bool) (d : Rat) (s e m : V3) : Verdict :=
  if v3Isclose relTol absTol s e then
    (if catchZero then (if sqrtLt 0 d then .accept else .split) else .raise)
  else if sqrtLt (lineDist2 s e m) d then .accept else .split

/-- squared result of `distance_point_segment_3d(m, s, e)` (math/construct3d.py; used by `BSpline.flattening`
    and `ConstructionEllipse.flattening` since the fixes 5dd05e20e / c03295f49): `direction = e - s`,
    `v1 = m - s`; a segment of length 0 is a point; `t = direction.dot(v1) / length_square` clamped to `[0, 1]` -/
def segDist2 (s e m : V3) : Rat :=
  let u := e.sub s
  let v1 := m.sub s
  let len2 := V3.dot u u
  if len2 = 0 then V3.dot v1 v1 else
  let t := V3.dot u v1 / len2
  if t ≤ 0 then V3.dot v1 v1
  else if 1 ≤ t then V3.dist2 m e
  else V3.dist2 m (s.add (V3.smul t u))

/-- B-spline / ellipse (current code): `distance_point_segment_3d(m, s, e) < distance`; never raises -/
def chordTest (d : Rat) (s e m : V3) : Verdict :=
  if sqrtLt (segDist2 s e m) d then .accept else .split

/-! ## inner subdivision: the two control flows that exist in the code -/

abbrev TV (V : Type) := Rat × V

/-- pure Python `while True:` loop of `Bezier4P.flattening` / `Bezier3P.flattening`.
    `stack` is the Python list `stack` (head = top), `out` the vertices yielded so far, newest first.
    Returns when the stack is empty after an accepted chord (`break`). -/
def stackLoop {V : Type} (C : Curve V) :
    Nat → Rat → V → Rat → V → List (TV V) → List (TV V) → Except Err (List (TV V))
  | 0, _, _, _, _, _, _ => .error .fuel
  | fuel + 1, t0, s, t1, e, stack, out =>
    let midT := (t0 + t1) * (1/2)
    let m := C.P midT
    match C.test s e m with
    | .accept =>
      match stack with
      | [] => .ok ((t1, e) :: out)
      | (t1', e') :: rest => stackLoop C fuel t1 e t1' e' rest ((t1, e) :: out)
    | .split => stackLoop C fuel t0 s midT m ((t1, e) :: stack) out
    | .raise => .error .zeroDivision

/-- the vertices yielded by one run of the inner Python loop, in order -/
def stackSub {V : Type} (C : Curve V) (fuel : Nat) (t0 : Rat) (s : V) (t1 : Rat) (e : V) :
    Except Err (List (TV V)) :=
  match stackLoop C fuel t0 s t1 e [] [] with
  | .ok r => .ok r.reverse
  | .error x => .error x

/-- Cython `_Flattening.flatten` (budget = `RECURSION_LIMIT + 1 - _recursion_level`, the call with
    `_recursion_level > RECURSION_LIMIT` sets the error flag) and the Python generators `subdiv` of
    `BSpline.flattening` / `ConstructionEllipse.flattening` (budget = free interpreter frames). -/
def recSub {V : Type} (C : Curve V) : Nat → Rat → V → Rat → V → Except Err (List (TV V))
  | 0, _, _, _, _ => .error .recursion
  | b + 1, t0, s, t1, e =>
    let midT := (t0 + t1) * (1/2)
    let m := C.P midT
    match C.test s e m with
    | .accept => .ok [(t1, e)]
    | .split =>
      match recSub C b t0 s midT m with
      | .error x => .error x
      | .ok l =>
        match recSub C b midT m t1 e with
        | .error x => .error x
        | .ok r => .ok (l ++ r)
    | .raise => .error .zeroDivision

/-! ## outer loops -/

/-- state carried by the outer loops: current parameter, current start vertex, vertices yielded so far -/
structure St (V : Type) where
  t : Rat
  s : V
  out : List (TV V)

/-- `while t < tEnd: t1 = t + delta; if isclose(t1, tEnd): t1 = tEnd (end point = endPt) ...`
    shared by all four flattening methods; `sub` is the inner subdivision. -/
def spanLoop {V : Type} (C : Curve V) (sub : Rat → V → Rat → V → Except Err (List (TV V)))
    (close : Rat → Rat → Bool) (delta tEnd : Rat) (endPt : V) :
    Nat → St V → Except Err (St V)
  | 0, _ => .error .fuel
  | fuel + 1, st =>
    if st.t < tEnd then
      let t1 := st.t + delta
      let snap := close t1 tEnd
      let t1' := if snap then tEnd else t1
      let e := if snap then endPt else C.P t1
      match sub st.t st.s t1' e with
      | .error x => .error x
      | .ok l => spanLoop C sub close delta tEnd endPt fuel ⟨t1', e, st.out ++ l⟩
    else .ok st

/-- `for t1 in knots[1:]: delta = (t1 - t) / segments; while t < t1: …` of `BSpline.flattening` -/
def knotLoop {V : Type} (C : Curve V) (sub : Rat → V → Rat → V → Except Err (List (TV V)))
    (close : Rat → Rat → Bool) (segments : Nat) (fuel : Nat) :
    List Rat → St V → Except Err (St V)
  | [], st => .ok st
  | t1 :: ks, st =>
    match spanLoop C sub close ((t1 - st.t) / segments) t1 (C.P t1) fuel st with
    | .error x => .error x
    | .ok st' => knotLoop C sub close segments fuel ks st'

/-! ## the four flattening methods -/

/-- Bezier4P / Bezier3P, both twins: `first = cp[0]`, `last = cp[-1]`, `dt = 1.0 / segments`,
    `while t0 < 1.0`.  `sub` is `stackSub C fuel` (Python) or `recSub C (limit + 1)` (Cython). -/
def bezierFlat {V : Type} (C : Curve V) (sub : Rat → V → Rat → V → Except Err (List (TV V)))
    (relTol absTol : Rat) (first last : V) (segments : Nat) (fuel : Nat) : Except Err (List (TV V)) :=
  match spanLoop C sub (pyIsclose relTol absTol) (1 / segments) 1 last fuel ⟨0, first, [(0, first)]⟩ with
  | .ok st => .ok st.out
  | .error x => .error x

/-- ConstructionEllipse.flattening after the parameter normalisation prelude:
    `delta = param_span / segments`, `param`, `end_param` as computed there -/
def ellipseFlat {V : Type} (C : Curve V) (budget : Nat) (relTol absTol : Rat)
    (param endParam delta : Rat) (fuel : Nat) : Except Err (List (TV V)) :=
  if delta = 0 then .ok [] else
  if pyIsclose relTol absTol param endParam then .ok [] else
  match spanLoop C (recSub C budget) (pyIsclose relTol absTol) delta endParam (C.P endParam) fuel
      ⟨param, C.P param, [(param, C.P param)]⟩ with
  | .ok st => .ok st.out
  | .error x => .error x

/-- Python float `x % tau` for `tau > 0` (`fmod` is exact, the result has the sign of `tau`): `x - tau * floor(x / tau)` -/
def pyMod (x tau : Rat) : Rat := x - tau * ((x / tau).floor : Rat)

/-- the parameter normalisation prelude of `ConstructionEllipse.flattening` (exact arithmetic; `tau` = the double
    `math.tau`, `span` = `self.param_span`): `none` = `return` without yielding a vertex, else
    `(param, end_param, delta)` as the loop receives them.  The `isclose(param, end_param)` branch is the one of fix
    5d554b3eb (a full ellipse given as `(a, a + tau)`, `a != 0`, is no longer empty). -/
def ellipsePrelude (relTol absTol tau start end_ span : Rat) (segments : Nat) : Option (Rat × Rat × Rat) :=
  let delta := span / segments
  if delta = 0 then none else
  let param := pyMod start tau
  let e0 := if pyIsclose relTol absTol end_ tau then tau else pyMod end_ tau
  if pyIsclose relTol absTol param e0 then
    (if pyIsclose relTol absTol span tau then some (param, param + tau, delta) else none)
  else if param > e0 then some (param, e0 + tau, delta)
  else some (param, e0, delta)

/-- `ConstructionEllipse.flattening` including the prelude -/
def ellipseFlatFull {V : Type} (C : Curve V) (budget : Nat) (relTol absTol tau start end_ span : Rat)
    (segments : Nat) (fuel : Nat) : Except Err (List (TV V)) :=
  match ellipsePrelude relTol absTol tau start end_ span segments with
  | none => .ok []
  | some (param, endParam, delta) =>
    match spanLoop C (recSub C budget) (pyIsclose relTol absTol) delta endParam (C.P endParam) fuel
        ⟨param, C.P param, [(param, C.P param)]⟩ with
    | .ok st => .ok st.out
    | .error x => .error x

/-- insert into a strictly increasing list, dropping duplicates (`np.unique`) -/
def insertUniq (a : Rat) : List Rat → List Rat
  | [] => [a]
  | b :: l => if a < b then a :: b :: l else if a = b then b :: l else b :: insertUniq a l

def uniq (l : List Rat) : List Rat := l.foldr insertUniq []

/-- BSpline.flattening: `knots = np.unique(self.knots())`, start at `knots[0]`; the snap test is
    `math.isclose(next_t, t1)` with tolerances `relTol`, `absTol` since fix ffb1771ad (before: `np.isclose`, whose
    default `rtol = 1e-5` snapped at the first step for knot values ≥ 1e4, known finding C14-6) -/
def bsplineFlat {V : Type} (C : Curve V) (budget : Nat) (relTol absTol : Rat)
    (knots : List Rat) (segments : Nat) (fuel : Nat) : Except Err (List (TV V)) :=
  match uniq knots with
  | [] => .error .fuel   -- `knots[0]` of an empty array: not reachable through the BSpline constructor
  | t :: ks =>
    match knotLoop C (recSub C budget) (pyIsclose relTol absTol) segments fuel ks ⟨t, C.P t, [(t, C.P t)]⟩ with
    | .ok st => .ok st.out
    | .error x => .error x

/-! ## the concrete curves used by the driver (Bezier kernels as written in both twins) -/

/-- `Bezier4P._get_curve_point` / `FastCubicCurve.point`: control points relative to `p0`, offset added last -/
def bez4Point (p0 p1 p2 p3 : V3) (t : Rat) : V3 :=
  let q1 := p1.sub p0
  let q2 := p2.sub p0
  let q3 := p3.sub p0
  let t2 := t * t
  let omt := 1 - t
  let b := 3 * omt * omt * t
  let c := 3 * omt * t2
  let d := t2 * t
  (((V3.smul b q1).add (V3.smul c q2)).add (V3.smul d q3)).add p0

/-- `Bezier3P._get_curve_point` / `FastQuadCurve.point` -/
def bez3Point (p0 p1 p2 : V3) (t : Rat) : V3 :=
  let q1 := p1.sub p0
  let q2 := p2.sub p0
  let omt := 1 - t
  let b := 2 * t * omt
  let c := t * t
  ((V3.smul b q1).add (V3.smul c q2)).add p0

/-- curve given by a finite table of evaluations of the real code (B-spline, ellipse) -/
def tablePoint (tab : List (Rat × V3)) (t : Rat) : Option V3 :=
  match tab.find? (fun p => p.1 = t) with
  | some p => some p.2
  | none => none

/-- lift a test to optional points: a parameter the real code never evaluated is reported as `raise` -/
def optTest (test : V3 → V3 → V3 → Verdict) : Option V3 → Option V3 → Option V3 → Verdict
  | some s, some e, some m => test s e m
  | _, _, _ => .raise

/-! ## expression trees for the arc formulas (`arc_chord_length`, `arc_segment_count`), emitted by
    `regenerate` from the source and evaluated over the reals in Props/C14.lean -/

inductive RExpr where
  | var (name : String)
  | num (q : Rat)
  | add (a b : RExpr)
  | sub (a b : RExpr)
  | mul (a b : RExpr)
  | div (a b : RExpr)
  | sqrt (a : RExpr)
  | asin (a : RExpr)
  | ceil (a : RExpr)
  | min (a b : RExpr)   -- Python builtin `min(a, b)` of two floats
deriving DecidableEq, Repr

end EzdxfVerif.Flatten

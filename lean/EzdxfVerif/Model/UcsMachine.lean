/-
UcsMachine: the `UCS` class of src/ezdxf/math/ucs.py as a state machine (C11, session 3).

State.  `Gen.UcsPyx.ucsInstanceAttrs` (re-extracted from the AST of ucs.py on every run: every attribute that any
method of `UCS` assigns on `self`) is `["matrix"]`: the complete mutable state of a UCS object is ONE Matrix44,
modelled by `M44` (Props.C11.ucs_instance_state keeps this true; a cached derived object such as `self._ocs`
would enlarge the list and break that theorem, and the per-method kernels below - which are translated with an
object that has exactly this state - would no longer translate).

Operations.  The three in-place mutators `transform(m)`, `shift(delta)`, `moveto(location)`; each `step` case is
the kernel REGENERATED from the source by the symbolic executor evaluating the Python expression
`ucs.<mutator>(arg).matrix` on a symbolic object (Gen/UcsPyx.lean, Gen/UcsPy.lean); nothing is re-typed here.
`self.matrix *= m` is explicit arithmetic in the Cython twin; in the pure-Python twin it is `np.matmul`, for which
the textbook product `M44.mul` stands (Model/Rat3.lean, recorded assumption) - `stepPy`.

Queries (`to_wcs`, `from_wcs`, `to_ocs`, ...) are the generated kernels applied to the current state; the frame
kernels `ucsToOcsFrame` / `ucsToWcsFrame` (state after a query) are proved to return the state unchanged.
Core Lean only.
-/
import EzdxfVerif.Model.Rat3
import EzdxfVerif.Gen.UcsPy
import EzdxfVerif.Gen.UcsPyx
import EzdxfVerif.Gen.Matrix44Pyx

namespace EzdxfVerif.UcsMachine
open EzdxfVerif.Rat3 EzdxfVerif.Gen

/-- the in-place mutators of a `UCS` object (all return `self`) -/
inductive Op where
  | transform (m : M44)
  | shift (d : V3)
  | moveto (o : V3)
deriving Repr

/-- one mutator call on the state, Cython-linked ucs.py -/
def step (s : M44) : Op → M44
  | .transform m => UcsPyx.ucsTransform s m
  | .shift d => UcsPyx.ucsShift s d
  | .moveto o => UcsPyx.ucsMoveto s o

/-- a whole history of mutator calls on one object -/
def run (s : M44) (ops : List Op) : M44 := ops.foldl step s

/-- the same for ucs.py linked against the pure-Python classes (`*=` is NumPy there: textbook product) -/
def stepPy (s : M44) : Op → M44
  | .transform m => M44.mul s m
  | .shift d => UcsPy.ucsShift s d
  | .moveto o => UcsPy.ucsMoveto s o

def runPy (s : M44) (ops : List Op) : M44 := ops.foldl stepPy s

/-- `translate(d)` as a matrix (what `shift(d)` multiplies an affine state with) -/
def translation (d : V3) : M44 := ⟨1, 0, 0, 0, 0, 1, 0, 0, 0, 0, 1, 0, d.x, d.y, d.z, 1⟩

/-- histories without `moveto` are right multiplications: the matrix of each call -/
def Op.matrix? : Op → Option M44
  | .transform m => some m
  | .shift d => some (translation d)
  | .moveto _ => none

/-- the calls of a history that has no `moveto`, as matrices in call order -/
def matrices : List Op → Option (List M44)
  | [] => some []
  | op :: rest => match op.matrix?, matrices rest with
    | some m, some ms => some (m :: ms)
    | _, _ => none

/-- a rigid motion matrix: orthonormal axis rows, affine (any translation) -/
def IsRigid (m : M44) : Prop :=
  M44.IsAffine m ∧
  V3.dot m.ux m.ux = 1 ∧ V3.dot m.uy m.uy = 1 ∧ V3.dot m.uz m.uz = 1 ∧
  V3.dot m.ux m.uy = 0 ∧ V3.dot m.ux m.uz = 0 ∧ V3.dot m.uy m.uz = 0

instance (m : M44) : Decidable (IsRigid m) := by unfold IsRigid; infer_instance

/-- a history all of whose `transform` calls are rigid motions (`shift`, `moveto` always are) -/
def RigidOp : Op → Prop
  | .transform m => IsRigid m
  | .shift _ => True
  | .moveto _ => True

end EzdxfVerif.UcsMachine

/-
M44Machine: a `Matrix44` object under its in-place operations `m *= o`, `m *= m` (operand aliases the receiver),
`m.transpose()`, `m.inverse()`; every case is the kernel regenerated from src/ezdxf/acc/matrix44.pyx (the NumPy forms of
the Python twin are the textbook algebra, `stepPy`).  `inverse()` of a singular matrix raises and leaves the receiver as
it was (the Cython code computes `1.0 / det` before it writes; NumPy raises before the assignment).
-/
namespace EzdxfVerif.M44Machine
open EzdxfVerif.Rat3 EzdxfVerif.Gen

inductive Op where
  | imul (o : M44)
  | imulSelf
  | transpose
  | inverse
deriving Repr

def step (s : M44) : Op → M44
  | .imul o => Matrix44Pyx.imul s o
  | .imulSelf => Matrix44Pyx.imulSelf s
  | .transpose => Matrix44Pyx.transpose s
  | .inverse => match Matrix44Pyx.inverse s with
    | .ok i => i
    | .error _ => s

def run (s : M44) (ops : List Op) : M44 := ops.foldl step s

def stepPy (s : M44) : Op → M44
  | .imul o => M44.mul s o
  | .imulSelf => M44.mul s s
  | .transpose => M44.transpose s
  | .inverse => match M44.inv s with
    | .ok i => i
    | .error _ => s

/-- the determinant the object has after one operation, as a function of the determinant before -/
def detStep (d : Rat) : Op → Rat
  | .imul o => d * M44.det o
  | .imulSelf => d * d
  | .transpose => d
  | .inverse => if d = 0 then d else 1 / d

end EzdxfVerif.M44Machine

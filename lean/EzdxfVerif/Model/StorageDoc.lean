/-
Document-level model for property C02 (session 3), on top of `Model/Storage.lean`:

* record sections: `load_and_bind_dxf_content` + `factory.load` dispatch (`ENTITY_CLASSES.get(dxftype, DEFAULT_CLASS)`: the
  registered type list is regenerated from the live factory), `entity_linker` (subentity.py), `EntitySection._build/export_dxf`
  (modelspace / active paperspace by owner handle, paperspace flag as fall back), `ObjectsSection._build/export_dxf`;
* whole file: `load_dxf_structure` -> sections -> `Drawing.export_sections`;
* CLASSES: `DXFClass.load_tags/export_dxf`, `ClassesSection.load/register/export_dxf`;
* HEADER: `HeaderSection.load_tags`, `header_vars_by_priority`, `HeaderSection.export_dxf` (version window, priority order,
  custom properties behind $LASTSAVEDBY or behind the loop);
* ACAD_PROXY_ENTITY (`ACADProxyEntity.export_entity`) and ACDSDATA (`AcDsDataSection`, `AcDsRecord`).

What an implemented entity class writes for its own record is a parameter (`DocCfg.known`): that is the subject of C01.
Core Lean only.
-/
import EzdxfVerif.Model.Storage
import EzdxfVerif.Gen.StorageTables

namespace EzdxfVerif.StorageDoc
open EzdxfVerif.XTags
open EzdxfVerif.Storage
open EzdxfVerif.Gen.StorageTables

/-! ## factory dispatch and the entity linker -/

/-- `ExtendedTags.dxftype()` of a record as `group_tags` delivers it: the value of its first tag -/
def recType (r : Rec) : V :=
  match r with
  | t :: _ => t.val
  | [] => .str []

/-- `factory.cls(dxftype)` is `DEFAULT_CLASS` (= DXFTagStorage): the type is not a key of `ENTITY_CLASSES`, or its class is a
    `DXFTagStorage` with the unchanged load / export (`Gen.storageTypes`, e.g. ACAD_TABLE) -/
def isUnknown (r : Rec) : Bool :=
  !(registeredTypes.any (fun n => recType r == .str n)) || storageTypes.any (fun n => recType r == .str n)

structure DocCfg where
  alive : V → Bool                       -- handles that resolve in the entity database (2nd loading stage)
  known : Rec → List Rec → List Tag      -- what an implemented class writes for its record and the linked sub-records
  knownPsp : Rec → Bool                  -- layout decision of `EntitySection._build.add` for an implemented entity
  attribsFollow : Rec → Bool             -- INSERT: dxf.attribs_follow != 0
  msp : V                                -- handle of the *Model_Space block record
  psp : V                                -- handle of the *Paper_Space block record
  skipObject : Rec → Bool                -- `is_owned_by_unlinked_entity`: owned (directly or not) by a graphical entity without layout
  castHeader : Nat → Tag → Option V      -- `_cast_header_value`: conversion of a header value to the type of another group code

inductive DErr where
  | ent (e : Storage.Err)                -- raised while loading a tag storage entity
  | link                                 -- DXFStructureError("Expected DXF entity ... or SEQEND")
  | struct (e : SErr)                    -- load_dxf_structure
  | classes                              -- DXFStructureError while loading a CLASS record
  | acds                                 -- IndexError for an ACDSRECORD with a single tag
  | header                               -- no HEADER section (ezdxf then assumes DXF R12) or an exception of its loader
  deriving Repr, DecidableEq

def sSEQEND : List Nat := [83, 69, 81, 69, 78, 68]
def sINSERT : List Nat := [73, 78, 83, 69, 82, 84]

/-- `LINKED_ENTITIES.get(dxftype)` -/
def expectedChild (ty : V) : Option (List Nat) :=
  (linkedEntities.find? (fun p => ty == .str p.1)).map (·.2)

/-- `entity_linker()` applied to the records of a section in order: the records that are stored in the entity space, each with
    the sub-records linked to it.  `cur` = (main entity, its linked records so far, expected type). -/
def linkRecs (cfg : DocCfg) : List Rec → Option (Rec × List Rec × List Nat) → Except DErr (List (Rec × List Rec))
  | [], none => .ok []
  | [], some (p, ch, _) => .ok [(p, ch)]
  | r :: rs, some (p, ch, exp) =>
    if recType r == .str sSEQEND then
      match linkRecs cfg rs none with
      | .ok gs => .ok ((p, ch ++ [r]) :: gs)
      | .error e => .error e
    else if recType r == .str exp then linkRecs cfg rs (some (p, ch ++ [r], exp))
    else .error .link
  | r :: rs, none =>
    match expectedChild (recType r) with
    | some exp =>
      if recType r == .str sINSERT && !cfg.attribsFollow r then
        match linkRecs cfg rs none with
        | .ok gs => .ok ((r, []) :: gs)
        | .error e => .error e
      else linkRecs cfg rs (some (r, [], exp))
    | none =>
      match linkRecs cfg rs none with
      | .ok gs => .ok ((r, []) :: gs)
      | .error e => .error e

/-! ## layout of an unknown entity -/

def sAcDbEntity : List Nat := [65, 99, 68, 98, 69, 110, 116, 105, 116, 121]

/-- `xtags.get_subclass("AcDbEntity").get_first_value(67, 0)` is truthy; the search includes the base class (whose first value
    is the DXF type) and ignores empty subclasses; integer values are canonical decimal texts, so only "0" is falsy -/
def isAcDbEntitySub (s : List Tag) : Bool :=
  match s with
  | t :: _ => t.val == .str sAcDbEntity
  | [] => false

def paperFlag (subclasses : List (List Tag)) : Bool :=
  match subclasses.find? isAcDbEntitySub with
  | none => false
  | some s => match s.find? (fun t => t.code == 67) with
    | some t => t.val != .str [48]
    | none => false

/-- `EntitySection._build.add`: owner handle first, paperspace flag as fall back -/
def unknownPsp (cfg : DocCfg) (r : Rec) : Bool :=
  match load r, setup r with
  | .ok e, .ok x =>
    if e.owner == some cfg.msp then false
    else if e.owner == some cfg.psp then true
    else paperFlag x.subclasses
  | _, _ => false

def pspOf (cfg : DocCfg) (g : Rec × List Rec) : Bool :=
  if isUnknown g.1 then unknownPsp cfg g.1 else cfg.knownPsp g.1

/-! ## load -> save of a record section -/

/-- what is written for one entity of the entity space -/
def writeGroup (cfg : DocCfg) (g : Rec × List Rec) : Except DErr (List Tag) :=
  if isUnknown g.1 then
    match roundtrip cfg.alive g.1 with
    | .ok ts => .ok ts
    | .error e => .error (.ent e)
  else .ok (cfg.known g.1 g.2)

def writeGroups (cfg : DocCfg) : List (Rec × List Rec) → Except DErr (List Tag)
  | [] => .ok []
  | g :: gs =>
    match writeGroup cfg g, writeGroups cfg gs with
    | .ok a, .ok b => .ok (a ++ b)
    | .error e, _ => .error e
    | _, .error e => .error e

/-- ENTITIES: link, distribute to the modelspace / the active paperspace, export in `Gen.entitiesOrder` -/
def entitiesPass (cfg : DocCfg) (recs : List Rec) : Except DErr (List Tag) :=
  match linkRecs cfg recs none with
  | .error e => .error e
  | .ok gs =>
    writeGroups cfg (entitiesOrder.flatMap fun
      | .modelspace => gs.filter (fun g => !pspOf cfg g)
      | .activePaperspace => gs.filter (fun g => pspOf cfg g))

/-- OBJECTS: every record is stored in the entity space and exported in order, except the objects owned by a graphical entity
    that is not linked to a layout (fix 42c45156c; `cfg.skipObject`); `appended` = what ezdxf writes for the objects it creates
    itself while loading / saving (they are added behind the loaded ones) -/
def objectsPass (cfg : DocCfg) (recs : List Rec) (appended : List Tag) : Except DErr (List Tag) :=
  match writeGroups cfg ((recs.filter (fun r => !cfg.skipObject r)).map (fun r => (r, []))) with
  | .ok ts => .ok (ts ++ appended)
  | .error e => .error e

/-! ## BLOCKS section -/

def sBLOCK : List Nat := [66, 76, 79, 67, 75]
def sENDBLK : List Nat := [69, 78, 68, 66, 76, 75]

/-- what `BlocksSection.load` needs from the implemented BLOCK entity and the BLOCK_RECORD table -/
structure BlockCfg where
  key : Rec → Option V        -- table key of `block.dxf.name` (`none`: no name, the definition is ignored)
  layoutBlock : V → Bool      -- *Model_Space / active *Paper_Space: their entities are written in the ENTITIES section

structure BlockDef where
  block : Rec
  content : List (Rec × List Rec)
  endblk : Rec
  deriving Repr, DecidableEq

/-- the loop of `BlocksSection.load` over the linked entities: `cur` = the open BLOCK, `content` = entities collected since.
    Entities outside a BLOCK … ENDBLK pair, the content of a BLOCK that is not closed and of a BLOCK without name are dropped. -/
def splitBlocks (bc : BlockCfg) : List (Rec × List Rec) → Option Rec → List (Rec × List Rec) → List BlockDef
  | [], _, _ => []
  | g :: gs, cur, content =>
    if recType g.1 == .str sBLOCK then splitBlocks bc gs (some g.1) []
    else if recType g.1 == .str sENDBLK then
      match cur with
      | none => splitBlocks bc gs none []
      | some b =>
        if (bc.key b).isSome then ⟨b, content, g.1⟩ :: splitBlocks bc gs none []
        else splitBlocks bc gs none []
    else splitBlocks bc gs cur (content ++ [g])

/-- `block_record.set_block` / `add_entity` per definition, then `BlocksSection.export_dxf`: the definitions in the order of
    the BLOCK_RECORD table (`order`: table keys); `orphan` = what ezdxf writes for a table entry without definition -/
def blocksExport (cfg : DocCfg) (bc : BlockCfg) (order : List V) (orphan : V → List Tag) (defs : List BlockDef) :
    Except DErr (List Tag) :=
  match order with
  | [] => .ok []
  | n :: ns =>
    match blocksExport cfg bc ns orphan defs with
    | .error e => .error e
    | .ok rest =>
      match defs.find? (fun d => bc.key d.block == some n) with
      | none => .ok (orphan n ++ rest)
      | some d =>
        match (if bc.layoutBlock n then .ok [] else writeGroups cfg d.content) with
        | .error e => .error e
        | .ok body => .ok (cfg.known d.block [] ++ body ++ cfg.known d.endblk [] ++ rest)

def blocksPass (cfg : DocCfg) (bc : BlockCfg) (order : List V) (orphan : V → List Tag) (recs : List Rec) :
    Except DErr (List Tag) :=
  match linkRecs cfg recs none with
  | .error e => .error e
  | .ok gs => blocksExport cfg bc order orphan (splitBlocks bc gs none [])

/-! ## TABLE heads (entities/table.py: TableHead) -/

def sTABLE : List Nat := [84, 65, 66, 76, 69]
def sAcDbSymbolTable : List Nat := [65, 99, 68, 98, 83, 121, 109, 98, 111, 108, 84, 97, 98, 108, 101]
def sAcDbDimStyleTable : List Nat := [65, 99, 68, 98, 68, 105, 109, 83, 116, 121, 108, 101, 84, 97, 98, 108, 101]

/-- `TableHead.load_dxf_attribs`: `dxf.name = processor.base_class.get_first_value(2)` (the base class as `ExtendedTags` splits it) -/
def tableName (ts : List Tag) : Option V :=
  match collectBase ts [] [] none with
  | some (base, _, _) => (base.find? (fun t => t.code == 2)).map (·.val)
  | none => none

/-- `TableHead.export_dxf` for DXF R2000+ in the statement order `Gen.tableHeadOrder`; `count` = the number of table entries
    (`Table.export_dxf` sets it), `name` = the table name.  `.noType` = the AssertionError for a missing / empty handle. -/
def exportTableHead (alive : V → Bool) (count name : V) (e : Ent) : Except Storage.Err (List Tag) :=
  if !optTruthy e.handle then .error .noType else
  match reactorsPart e.reactors with
  | .error x => .error x
  | .ok re =>
    .ok (⟨structureMarker, .str sTABLE⟩ :: ⟨2, name⟩ :: tableHeadOrder.flatMap fun
      | .handle => [⟨5, e.handle.getD (.str noneStr)⟩]
      | .appdata => (e.appdata.map (·.2)).flatten
      | .xdict => xdictOut alive e.xdict
      | .reactors => re
      | .owner => [⟨ownerCode, e.owner.getD (.str noneStr)⟩]
      | .subclass => [⟨subclassMarker, .str sAcDbSymbolTable⟩]
      | .count => [⟨70, count⟩]
      | .dimstyle => if name == .str dimstyleStr then [⟨subclassMarker, .str sAcDbDimStyleTable⟩] else []
      | .xdata => xdataOut e)

/-! ## CLASSES -/

/-- the attributes of `class_def` (entities/dxfclass.py) -/
structure ClassE where
  name : Option V          -- 1
  cpp : Option V           -- 2
  app : Option V           -- 3
  flags : Option V         -- 90
  count : Option V         -- 91
  proxy : Option V         -- 280
  entity : Option V        -- 281
  deriving Repr, DecidableEq

def lastVal (code : Nat) (ts : List Tag) : Option V :=
  ((ts.filter (fun t => t.code == code)).getLast?).map (·.val)

/-- `DXFClass.load_tags`: `fast_load_dxfattribs` over the base class (the structure tag is skipped, a later tag of the same group
    code overwrites, other group codes are ignored); the base class ends at the first subclass / embedded object / XDATA marker
    and application-data groups are taken out by `ExtendedTags` -/
def classLoad (r : Rec) : Option ClassE :=
  match collectBase r [] [] none with
  | none => none
  | some (base, _, _) =>
    let b := base.drop 1
    some ⟨lastVal 1 b, lastVal 2 b, lastVal 3 b, lastVal 90 b, lastVal 91 b, lastVal 280 b, lastVal 281 b⟩

def sCLASS : List Nat := [67, 76, 65, 83, 83]
def zeroV : V := .str [48]

def optTag (code : Nat) : Option V → List Tag
  | some v => [⟨code, v⟩]
  | none => []

/-- `DXFClass.export_dxf` for a target version >= R2000: attributes in `Gen.classAttribOrder`; flags, was_a_proxy, is_an_entity
    have the default 0 and are always written, instance_count only for R2004+ (default 0), the text attributes only when present -/
def classExport (r2004 : Bool) (c : ClassE) : List Tag :=
  ⟨0, .str sCLASS⟩ :: classAttribOrder.flatMap fun
    | .name => optTag 1 c.name
    | .cpp => optTag 2 c.cpp
    | .app => optTag 3 c.app
    | .flags => [⟨90, c.flags.getD zeroV⟩]
    | .count => if r2004 then [⟨91, c.count.getD zeroV⟩] else []
    | .proxy => [⟨280, c.proxy.getD zeroV⟩]
    | .entity => [⟨281, c.entity.getD zeroV⟩]

/-- `DXFClass.key` = (dxf.name, dxf.cpp_class_name); a missing attribute reads as None -/
def classKey (c : ClassE) : Option V × Option V := (c.name, c.cpp)

/-- `ClassesSection.register` on whole entries: the key (name, cpp_class_name) is kept once, first wins -/
def registerE (acc : List ClassE) (c : ClassE) : List ClassE :=
  if acc.any (fun a => classKey a == classKey c) then acc else acc ++ [c]

/-- `ClassesSection.load`: records of another type are ignored; `none` = a CLASS record with an unclosed application-data
    group (DXFStructureError of `ExtendedTags`) -/
def classesLoad : List Rec → List ClassE → Option (List ClassE)
  | [], acc => some acc
  | r :: rs, acc =>
    if recType r == .str sCLASS then
      match classLoad r with
      | some c => classesLoad rs (registerE acc c)
      | none => none
    else classesLoad rs acc

/-- load, `add_required_classes` (entries ezdxf registers at save time, `extra`), export -/
def classesPass (r2004 : Bool) (recs : List Rec) (extra : List ClassE) : Option (List Tag) :=
  match classesLoad recs [] with
  | none => none
  | some cs => some ((extra.foldl registerE cs).flatMap (classExport r2004))

def natV (n : Nat) : V := .str ((toString n).toList.map Char.toNat)

/-- `ClassesSection.add_class(name)`: the CLASS entry ezdxf builds from `CLASS_DEFINITIONS` (no instance count) -/
def classOfDef (d : List Nat × List Nat × List Nat × Nat × Nat × Nat) : ClassE :=
  ⟨some (.str d.1), some (.str d.2.1), some (.str d.2.2.1), some (natV d.2.2.2.1), none, some (natV d.2.2.2.2.1),
    some (natV d.2.2.2.2.2)⟩

/-- `add_required_classes` without the classes of the DXF types in use: `REQUIRED_CLASSES.get(dxfversion, REQ_R2004)`; every
    entry goes through `register`, so it never replaces an entry of the file with the same (name, C++ class name) -/
def requiredExtra (r2004 : Bool) : List ClassE :=
  (if r2004 then requiredR2004 else requiredR2000).filterMap fun n =>
    (classDefinitions.find? (fun d => d.1 == n)).map classOfDef

/-! ## HEADER -/

/-- a header variable definition of `HEADER_VAR_MAP`: name, priority, first and last DXF version (as numbers: AC1015 -> 1015) -/
abbrev VarDef := List Nat × Nat × Nat × Nat

def varDef (name : V) : Option VarDef := headerVarMap.find? (fun d => name == .str d.1)

def isCustomName (n : V) : Bool := n == .str sCustomTag || n == .str sCustomProp

/-- `HeaderSection.load_tags`: `hdrvars[name] = HeaderVar(value)` for every group that is not a custom property
    (OrderedDict: a repeated name keeps its first position and gets the later value) -/
def headerVars {β : Type} : List (V × β) → List (V × β) → List (V × β)
  | [], acc => acc
  | g :: gs, acc => if isCustomName g.1 then headerVars gs acc else headerVars gs (dictSet acc g.1 g.2)

def listLt : List Nat → List Nat → Bool
  | [], [] => false
  | [], _ :: _ => true
  | _ :: _, [] => false
  | a :: r, b :: s => a < b || (a == b && listLt r s)

/-- order of `order.sort()` on (priority, (name, value)) tuples -/
def varLt (a b : VarDef × V) : Bool := a.1.2.1 < b.1.2.1 || (a.1.2.1 == b.1.2.1 && listLt a.1.1 b.1.1)

def insertVar (a : VarDef × V) : List (VarDef × V) → List (VarDef × V)
  | [] => [a]
  | b :: r => if varLt a b then a :: b :: r else b :: insertVar a r

def sortVars : List (VarDef × V) → List (VarDef × V)
  | [] => []
  | a :: r => insertVar a (sortVars r)

/-- `header_vars_by_priority`: variables that are not in HEADER_VAR_MAP are ignored (finding F24), the others are written when
    the target version is inside their version window, ordered by priority -/
def varsByPriority (ver : Nat) (vars : List (V × V)) : List (VarDef × V) :=
  sortVars (vars.filterMap fun p =>
    match varDef p.1 with
    | some d => if d.2.2.1 ≤ ver && ver ≤ d.2.2.2 then some (d, p.2) else none
    | none => none)

def sACADVER : List Nat := [36, 65, 67, 65, 68, 86, 69, 82]
def sHANDSEED : List Nat := [36, 72, 65, 78, 68, 83, 69, 69, 68]

/-- `HeaderSection.export_dxf` as header groups (name, value); `verText` = the value written for $ACADVER;
    `self["$ACADVER"] = dxfversion` adds the variable when the file had none -/
def headerExport (ver : Nat) (verText : V) (writeHandles : Bool) (vars : List (V × V)) (custom : List (V × V)) : List (V × V) :=
  let vars' := dictSet vars (.str sACADVER) verText
  let loop := (varsByPriority ver vars').flatMap fun dv =>
    if !writeHandles && dv.1.1 == sHANDSEED then []
    else (V.str dv.1.1, dv.2) :: (if dv.1.1 == sLastSavedBy then customGroups custom else [])
  let written := (varsByPriority ver vars').any fun dv => !( !writeHandles && dv.1.1 == sHANDSEED) && dv.1.1 == sLastSavedBy
  loop ++ (if written then []
    else match customFallback with
      | .never => []
      | .always => customGroups custom
      | .fromR2004 => if 1018 ≤ ver then customGroups custom else [])

def sACADMAINTVER : List Nat := [36, 65, 67, 65, 68, 77, 65, 73, 78, 84, 86, 69, 82]
def sXCLIPFRAME : List Nat := [36, 88, 67, 76, 73, 80, 70, 82, 65, 77, 69]

/-- group code of the value tag: `version_specific_group_code` for a header variable, 1 for a custom property (`CustomVars.write`) -/
def headerCode (ver : Nat) (name : V) : Nat :=
  if isCustomName name then 1
  else if name == .str sACADMAINTVER then (if ver < 1032 then 70 else 90)
  else if name == .str sXCLIPFRAME then (if ver < 1024 then 290 else 280)
  else match headerVarCodes.find? (fun d => name == .str d.1) with
    | some d => d.2
    | none => 1

/-- `_write` of `HeaderSection.export_dxf` (fix 16b0d709b): a value whose group code is not the one the variable requires is
    converted to the type of the required code (`_cast_header_value`; `cast code tag`, value typing is the subject of C03);
    when the conversion raises, the variable is NOT written -/
def castGroup (ver : Nat) (cast : Nat → Tag → Option V) (p : V × Tag) : Option (V × V) :=
  if p.2.code == headerCode ver p.1 then some (p.1, p.2.val)
  else match cast (headerCode ver p.1) p.2 with
    | some v => some (p.1, v)
    | none => none

/-- load -> save of the HEADER section as groups (name, value tag) -> (name, value) -/
def headerPass (ver : Nat) (verText : V) (cast : Nat → Tag → Option V) (groups : List (V × Tag)) : List (V × V) :=
  headerExport ver verText true ((headerVars groups []).filterMap (castGroup ver cast))
    (customLoad (groups.map (fun g => (g.1, g.2.val))))

def startsDollar : V → Bool
  | .str (36 :: _) => true
  | _ => false

/-- the tags of the HEADER section behind (0, SECTION), (2, HEADER) as (name, value) groups: `header_validator` (a name tag has
    group code 9 and starts with "$"), `group_tags(splitcode=9)` and the "Missing value tag" check of `load_tags`; `none` = one
    of their exceptions (a value tag with group code 9 starts a new group, which then has no value) -/
def headerGroupsOf : List Tag → Option (List (V × Tag))
  | [] => some []
  | [_] => none
  | n :: v :: r =>
    if n.code == 9 && startsDollar n.val && v.code != 9 then
      match headerGroupsOf r with
      | some gs => some ((n.val, v) :: gs)
      | none => none
    else none

def headerTagsOf (ver : Nat) (groups : List (V × V)) : List Tag :=
  groups.flatMap (fun g => [⟨9, g.1⟩, ⟨headerCode ver g.1, g.2⟩])

def sHEADER : List Nat := [72, 69, 65, 68, 69, 82]

/-- load -> save of the HEADER section at tag level: `extra` = the tags behind (0, SECTION), (2, HEADER) -/
def headerSectionPass (ver : Nat) (verText : V) (cast : Nat → Tag → Option V) (extra : List Tag) : Option (List Tag) :=
  match headerGroupsOf extra with
  | some gs => some ([⟨0, .str sSECTION⟩, ⟨2, .str sHEADER⟩] ++ headerTagsOf ver (headerPass ver verText cast gs) ++ [endsecTag])
  | none => none

/-! ## ACAD_PROXY_ENTITY and ACDSDATA -/

/-- `DXFEntity.export_dxf` of an ACADProxyEntity: generic base class, the AcDbEntity subclass re-generated by `DXFGraphic`
    (parameter `gfx`, C01), `processor.subclass_by_index(2)` verbatim, XDATA.  Later subclasses and embedded objects are not kept. -/
def exportProxy (alive : V → Bool) (gfx : List Tag) (e : Ent) : Except Storage.Err (List Tag) :=
  match reactorsPart e.reactors with
  | .error x => .error x
  | .ok re =>
    .ok (entityOrder.flatMap fun
      | .base => ⟨structureMarker, e.typ⟩ :: baseOrder.flatMap (basePart alive e re)
      | .entity => gfx ++ (e.subs.drop 1).headD []
      | .xdata => xdataOut e)

def sACDSRECORD : List Nat := [65, 67, 68, 83, 82, 69, 67, 79, 82, 68]

/-- `group_tags(tags, splitcode=2)` flattened again: the tags in front of the first (2, name) tag are skipped -/
def fromFirst2 : List Tag → List Tag
  | [] => []
  | t :: r => if t.code == 2 then t :: r else fromFirst2 r

/-- `AcDsRecord(tags).export_dxf`: type tag, flags tag, sections; `AcDsData` keeps its tags verbatim;
    `none` = IndexError for a record with a single tag -/
def acdsRecordOut (r : Rec) : Option (List Tag) :=
  if recType r == .str sACDSRECORD then
    match r with
    | t0 :: f :: rest => some (t0 :: f :: fromFirst2 rest)
    | _ => none
  else some r

def acdsRecordsOut : List Rec → Option (List Tag)
  | [] => some []
  | r :: rs => match acdsRecordOut r, acdsRecordsOut rs with
    | some a, some b => some (a ++ b)
    | _, _ => none

/-- `AcDsDataSection.load_tags/export_dxf`: the section is written only when it holds at least one ACDSRECORD -/
def acdsPass (head : Rec) (recs : List Rec) : Option (List Tag) :=
  if recs.any (fun r => recType r == .str sACDSRECORD) then
    match acdsRecordsOut recs with
    | some ts => some (head ++ ts ++ [endsecTag])
    | none => none
  else some []

/-! ## DICTIONARY entries (entities/dictionary.py: Dictionary.load_dict / export_dict) -/

structure DictState where
  data : List (V × V)        -- self._data: key -> handle (insertion ordered)
  h : Option V               -- entry_handle
  k : Option V               -- dict_key
  code : Nat                 -- value_code: the group code of the LAST handle tag, used for every entry at export
  deriving Repr, DecidableEq

/-- one iteration of the loop in `Dictionary.load_dict` (fix ea8106c8c: `is not None` instead of truthiness: an empty name or
    an empty handle is an entry like any other) -/
def dictStep (s : DictState) (t : Tag) : DictState :=
  let s1 : DictState :=
    if t.code == 350 || t.code == 360 then { s with code := t.code, h := some t.val }
    else if t.code == 3 then { s with k := some t.val }
    else s
  match s1.k, s1.h with
  | some k, some h => { s1 with data := dictSet s1.data k h, h := none, k := none }
  | _, _ => s1

/-- `load_dict` over the tags of the AcDbDictionary subclass that `fast_load_dxfattribs` leaves over (everything except the
    marker and the attributes 280 / 281) -/
def dictLoad (tags : List Tag) : DictState :=
  (tags.filter (fun t => t.code != 280 && t.code != 281)).foldl dictStep ⟨[], none, none, 350⟩

/-- `export_dict` -/
def dictExport (s : DictState) : List Tag :=
  s.data.flatMap (fun p => [⟨3, p.1⟩, ⟨s.code, p.2⟩])

/-! ## whole file -/

def sENTITIES : List Nat := [69, 78, 84, 73, 84, 73, 69, 83]
def sOBJECTS : List Nat := [79, 66, 74, 69, 67, 84, 83]
def sBLOCKS : List Nat := [66, 76, 79, 67, 75, 83]
def sCLASSES : List Nat := [67, 76, 65, 83, 83, 69, 83]
def sACDSDATA : List Nat := [65, 67, 68, 83, 68, 65, 84, 65]

def secHead (name : List Nat) : List Tag := [⟨0, .str sSECTION⟩, ⟨2, .str name⟩]

/-- body records of section `name` in the section dict (`sections.get(name)`, without the head record) -/
def sectionBody (secs : List (V × List Rec)) (name : List Nat) : List Rec :=
  match secs.find? (fun p => p.1 == .str name) with
  | some p => p.2.drop 1
  | none => []

/-- the ACDSDATA section of the section dict through `AcDsDataSection`; nothing is written when the file has none -/
def acdsOf (secs : List (V × List Rec)) : Option (List Tag) :=
  match secs.find? (fun p => p.1 == .str sACDSDATA) with
  | some (_, head :: recs) => acdsPass head recs
  | _ => some []

/-- the tags of the HEADER section behind (0, SECTION), (2, HEADER) -/
def headerExtra (secs : List (V × List Rec)) : Option (List Tag) :=
  match secs.find? (fun p => p.1 == .str sHEADER) with
  | some (_, head :: _) => some (head.drop 2)
  | _ => none

/-- `ezdxf.read` -> `doc.write` of a whole file given as records; `ver` = DXF version of the file = target version (AC1027 ->
    1027), `verText` = its text.  `other` = output of TABLES (C01/C04); `extra` = the CLASS entries `add_required_classes`
    registers at save time, `appended` see `objectsPass`, `bc` / `order` / `orphan` see `blocksExport`. -/
def loadSaveFile (cfg : DocCfg) (bc : BlockCfg) (order : List V) (orphan : V → List Tag) (ver : Nat) (verText : V)
    (extra : List ClassE) (other : SectionPart → List Tag) (appended : List Tag) (recs : List Rec) : Except DErr (List Tag) :=
  match loadStructure recs with
  | .error e => .error (.struct e)
  | .ok secs =>
    match (headerExtra secs).bind (headerSectionPass ver verText cfg.castHeader),
        classesPass (decide (1018 ≤ ver)) (sectionBody secs sCLASSES) extra, acdsOf secs with
    | none, _, _ => .error .header
    | _, none, _ => .error .classes
    | _, _, none => .error .acds
    | some hd, some cl, some ac =>
      match blocksPass cfg bc order orphan (sectionBody secs sBLOCKS), entitiesPass cfg (sectionBody secs sENTITIES),
          objectsPass cfg (sectionBody secs sOBJECTS) appended with
      | .ok bl, .ok en, .ok ob =>
        .ok (exportSections (fun
          | .header => hd
          | .classes => secHead sCLASSES ++ cl ++ [endsecTag]
          | .blocks => secHead sBLOCKS ++ bl ++ [endsecTag]
          | .entities => secHead sENTITIES ++ en ++ [endsecTag]
          | .objects => secHead sOBJECTS ++ ob ++ [endsecTag]
          | .acdsdata => ac
          | p => other p) (storedSections secs))
      | .error e, _, _ => .error e
      | _, .error e, _ => .error e
      | _, _, .error e => .error e

end EzdxfVerif.StorageDoc

/-
Model for C16 "copies, virtual entities and documents never share mutable state": a tiny heap.

  * objects have an identity (their address = index in the heap), a kind (immutable | mutable cell
    | mutable container) and slots; a slot is an atom by value, an *owning* reference or a
    *navigation* reference (identity only: `entity.doc`, `_source_of_copy`, ...);
  * `observe h n r` is the value tree reachable from `r` through owning references, unfolded to depth
    `n` (object graphs may be cyclic: `dxf._entity`); it contains no addresses of owned objects;
  * `Write` is one mutation through a root `b`: follow a path of slot indices from `b`, then change the
    slots of the object found there (set / append / remove an atom, a navigation reference, a freshly
    allocated object, or a reference to something already reachable from `b`).  Immutable objects and
    members of the `frozen` list (objects shared on purpose, immutable by convention) are never written;
    `apply1` / `applyAll` are tied to Python object semantics by correspondence stream X1;
  * `ATree`, `copyT`, `alloc`: the model of `CopyStrategy.copy` (src/ezdxf/entities/copy.py) with
    `DXFNamespace.copy` / `reset_handles` (dxfns.py) and a per class `copy_data` recipe, tied to the code by
    correspondence stream X2 (recipes parsed from the current source text);
  * `Graph`, `checkGraph`: the certificate checker run by `decide +kernel` on the object graphs extracted
    from the real library on every run (Gen/HeapGraphs.lean);
  * `allowedFrozen`, `allowedNav`, `aliasAllowed`, `shallowAllowed`: the explicit lists of
    what may be shared, with reasons.

Core Lean only.
-/
namespace EzdxfVerif.Heap

inductive Kind where
  | imm | cell | cont
  deriving DecidableEq, Repr

inductive Ref where
  | val (v : Int)
  | own (a : Nat)
  | nav (a : Nat)
  deriving DecidableEq, Repr

structure Obj where
  kind : Kind
  slots : List Ref
  deriving DecidableEq, Repr

abbrev Heap := List Obj

/-- value trees (what an observer of a root can see) -/
inductive Tree where
  | leaf (v : Int)
  | navref (a : Nat)
  | cut
  | dangling
  | node (k : Kind) (cs : List Tree)
  deriving Repr

/-- the value tree below `r`, unfolded to depth `n` -/
def observe (h : Heap) : Nat → Ref → Tree
  | _, .val v => .leaf v
  | _, .nav a => .navref a
  | 0, .own _ => .cut
  | n + 1, .own a =>
    match h[a]? with
    | none => .dangling
    | some o => .node o.kind (o.slots.map (observe h n))

/-- `y` owns `x` -/
def Edge (h : Heap) (y x : Nat) : Prop := ∃ o, h[y]? = some o ∧ Ref.own x ∈ o.slots

/-- reachability through owning references -/
inductive Reach (h : Heap) (a : Nat) : Nat → Prop where
  | refl : Reach h a a
  | step {y x : Nat} : Reach h a y → Edge h y x → Reach h a x

def isImm (h : Heap) (x : Nat) : Bool :=
  match h[x]? with
  | some o => decide (o.kind = .imm)
  | none => false

/-- the hypothesis of the frame theorem: whatever is reachable from both roots is immutable or frozen -/
def Sep (frozen : List Nat) (h : Heap) (a b : Nat) : Prop :=
  ∀ x, Reach h a x → Reach h b x → isImm h x = true ∨ x ∈ frozen

/-- no dangling owning references -/
def WF (h : Heap) : Prop := ∀ y x, Edge h y x → x < h.length

/-! ### writes through a root -/

/-- follow owning references along slot indices -/
def resolve (h : Heap) : Nat → List Nat → Option Nat
  | a, [] => some a
  | a, i :: p =>
    match h[a]? with
    | none => none
    | some o =>
      match o.slots[i]? with
      | some (.own c) => resolve h c p
      | _ => none

inductive Write where
  | setVal (p : List Nat) (i : Nat) (v : Int)
  | setNav (p : List Nat) (i : Nat) (a : Nat)
  | push (p : List Nat) (v : Int)
  | pop (p : List Nat)
  | erase (p : List Nat) (i : Nat)
  | setNew (p : List Nat) (i : Nat) (k : Kind) (vs : List Int)
  | pushNew (p : List Nat) (k : Kind) (vs : List Int)
  | link (p : List Nat) (i : Nat) (q : List Nat)
  | pushLink (p : List Nat) (q : List Nat)
  deriving Repr

def Write.path : Write → List Nat
  | .setVal p _ _ | .setNav p _ _ | .push p _ | .pop p | .erase p _
  | .setNew p _ _ _ | .pushNew p _ _ | .link p _ _ | .pushLink p _ => p

def mkObj (k : Kind) (vs : List Int) : Obj := ⟨k, vs.map Ref.val⟩

/-- new slot list of the target and the object to allocate (at address `h.length`), if the write is
    well formed -/
def newSlots (h : Heap) (b : Nat) (ss : List Ref) : Write → Option (List Ref × Option Obj)
  | .setVal _ i v => if i < ss.length then some (ss.set i (.val v), none) else none
  | .setNav _ i a => if i < ss.length then some (ss.set i (.nav a), none) else none
  | .push _ v => some (ss ++ [.val v], none)
  | .pop _ => some (ss.dropLast, none)
  | .erase _ i => some (ss.eraseIdx i, none)
  | .setNew _ i k vs =>
    if i < ss.length then some (ss.set i (.own h.length), some (mkObj k vs)) else none
  | .pushNew _ k vs => some (ss ++ [.own h.length], some (mkObj k vs))
  | .link _ i q =>
    if i < ss.length then
      match resolve h b q with
      | some c => some (ss.set i (.own c), none)
      | none => none
    else none
  | .pushLink _ q =>
    match resolve h b q with
    | some c => some (ss ++ [.own c], none)
    | none => none

/-- one write through root `b`; ill-formed writes, writes to immutable or frozen objects are no-ops -/
def apply1 (frozen : List Nat) (b : Nat) (h : Heap) (w : Write) : Heap :=
  match resolve h b w.path with
  | none => h
  | some t =>
    match h[t]? with
    | none => h
    | some o =>
      if o.kind = .imm ∨ t ∈ frozen then h
      else
        match newSlots h b o.slots w with
        | none => h
        | some (ss, fr) => h.set t ⟨o.kind, ss⟩ ++ fr.toList

def applyAll (frozen : List Nat) (b : Nat) : Heap → List Write → Heap
  | h, [] => h
  | h, w :: ws => applyAll frozen b (apply1 frozen b h w) ws

/-! ### model of `CopyStrategy.copy` on value trees

`ATree` is the value tree of an object together with the addresses the objects were read from.  An `ent`
node is a DXF entity; its children are, in this order: doc, dxf namespace (children: handle, owner,
attribute values...), extension_dict, reactors, proxy_graphic, appdata, xdata, source_of_copy, and then the
payload parts of its class.  `copyT` is `CopyStrategy.copy` (src/ezdxf/entities/copy.py) with
`DXFNamespace.copy` / `reset_handles` (dxfns.py) and the `copy_data` recipe of the class:

    clone.doc = entity.doc                       keep
    clone.dxf = entity.dxf.copy(clone)           new namespace, values copied BY REFERENCE, then handle = owner = None
    clone.extension_dict = xdict.copy(self)      only if doc is not None: the dictionary and its entries are copied by the strategy
    clone.reactors                               None (copy_reactors = False)
    clone.proxy_graphic = entity.proxy_graphic   immutable bytes
    clone.appdata / xdata = deepcopy(...)
    clone.set_source_of_copy(entity)
    entity.copy_data(clone)                      per part: deepcopy | alias | shallow copy of the container | None |
                                                 untouched (value given by __init__) | sub-entities copied by the strategy
-/

inductive ATree where
  | leaf (v : Int)
  | navr (a : Nat)
  /-- owning reference to the existing object `a` (the object itself, not a copy) whose value tree is `orig` -/
  | share (a : Nat) (orig : ATree)
  | node (a : Nat) (k : Kind) (cs : List ATree)
  | ent (a : Nat) (cls : Nat) (cs : List ATree)
  deriving Repr

inductive Policy where
  | deep | alias | shallow | reset | init | ents
  deriving DecidableEq, Repr

inductive Role where
  | keep | ns | xdict | none_ | deep | src | part (p : Policy)
  deriving Repr

/-- the atom that stands for Python's `None` -/
def NONE : Int := 0

mutual
  /-- `copy.deepcopy`: the same tree made of new objects -/
  def deepT : ATree → ATree
    | .leaf v => .leaf v
    | .navr a => .navr a
    | .share a o => .share a o
    | .node a k cs => .node a k (deepTs cs)
    | .ent a c cs => .ent a c (deepTs cs)
  def deepTs : List ATree → List ATree
    | [] => []
    | t :: ts => deepT t :: deepTs ts
end

/-- assignment of the reference: `clone.x = self.x` -/
def aliasT : ATree → ATree
  | .node a k cs => .share a (.node a k cs)
  | .ent a c cs => .share a (.ent a c cs)
  | t => t

/-- `list(self.x)`, `dict(self.x)`, `Tags(self.x)`: new container, the items are the same objects -/
def shallowT : ATree → ATree
  | .node a k cs => .node a k (cs.map aliasT)
  | .ent a c cs => .ent a c (cs.map aliasT)
  | t => t

/-- `DXFNamespace.copy` + `reset_handles` -/
def nsT : ATree → ATree
  | .node a k (_ :: _ :: attrs) => .node a k (.leaf NONE :: .leaf NONE :: attrs.map aliasT)
  | t => t

def headerRoles : List Role := [.keep, .ns, .xdict, .none_, .keep, .deep, .deep, .src]

def rolesOf (rc : Nat → List Policy) (cls : Nat) : List Role :=
  headerRoles ++ (rc cls).map Role.part

/-- the default constructed parts are consumed in step with the payload parts -/
def Role.nextBlank (blank : List ATree) : Role → List ATree
  | .part _ => blank.tail
  | _ => blank

def hasDoc : List ATree → Bool
  | .navr _ :: _ => true
  | _ => false

mutual
  /-- `rc cls` = copy_data recipe of class `cls`, `bl cls` = payload parts of a default constructed instance -/
  def copyT (rc : Nat → List Policy) (bl : Nat → List ATree) : ATree → ATree
    | .ent a c cs => .ent a c (kidsT rc bl (hasDoc cs) a (bl c) (rolesOf rc c) cs)
    | t => deepT t
  /-- sub-entities (list / dict of entities, a single entity) are copied by the strategy -/
  def entsT (rc : Nat → List Policy) (bl : Nat → List ATree) : ATree → ATree
    | .ent a c cs => .ent a c (kidsT rc bl (hasDoc cs) a (bl c) (rolesOf rc c) cs)
    | .node a k cs => .node a k (entsTs rc bl cs)
    | t => t
  def entsTs (rc : Nat → List Policy) (bl : Nat → List ATree) : List ATree → List ATree
    | [] => []
    | t :: ts => entsT rc bl t :: entsTs rc bl ts
  def kidsT (rc : Nat → List Policy) (bl : Nat → List ATree) (doc : Bool) (src : Nat) (blank : List ATree) :
      List Role → List ATree → List ATree
    | _, [] => []
    | [], t :: ts => deepT t :: kidsT rc bl doc src blank [] ts
    | r :: rs, t :: ts =>
      (match r with
       | .keep => t
       | .ns => nsT t
       | .xdict => if doc then entsT rc bl t else .leaf NONE
       | .none_ => .leaf NONE
       | .deep => deepT t
       | .src => .navr src
       | .part .deep => deepT t
       | .part .alias => aliasT t
       | .part .shallow => shallowT t
       | .part .reset => .leaf NONE
       | .part .init => blank.head?.getD (.leaf NONE)
       | .part .ents => entsT rc bl t) :: kidsT rc bl doc src (r.nextBlank blank) rs ts
end

mutual
  /-- the value of a tree (addresses and sharing forgotten) -/
  def content : ATree → Tree
    | .leaf v => .leaf v
    | .navr a => .navref a
    | .share _ o => content o
    | .node _ k cs => .node k (contents cs)
    | .ent _ _ cs => .node .cell (contents cs)
  def contents : List ATree → List Tree
    | [] => []
    | t :: ts => content t :: contents ts
end

mutual
  /-- addresses of existing objects that a tree refers to instead of copying them -/
  def shares : ATree → List Nat
    | .leaf _ => []
    | .navr _ => []
    | .share a _ => [a]
    | .node _ _ cs => sharesL cs
    | .ent _ _ cs => sharesL cs
  def sharesL : List ATree → List Nat
    | [] => []
    | t :: ts => shares t ++ sharesL ts
end

mutual
  /-- build a tree in the heap: every `node`/`ent` becomes a new object at the end of the heap -/
  def alloc (h : Heap) : ATree → Heap × Ref
    | .leaf v => (h, .val v)
    | .navr a => (h, .nav a)
    | .share a _ => (h, .own a)
    | .node _ k cs => ((allocs h cs).1 ++ [⟨k, (allocs h cs).2⟩], .own (allocs h cs).1.length)
    | .ent _ _ cs => ((allocs h cs).1 ++ [⟨.cell, (allocs h cs).2⟩], .own (allocs h cs).1.length)
  def allocs (h : Heap) : List ATree → Heap × List Ref
    | [] => (h, [])
    | t :: ts => ((allocs (alloc h t).1 ts).1, (alloc h t).2 :: (allocs (alloc h t).1 ts).2)
end

mutual
  /-- well formed entity trees: every entity on a path the strategy follows (extension dictionary, `ents`
      parts) has the 8 header children and a namespace object with at least handle and owner -/
  def shapeOK (rc : Nat → List Policy) : ATree → Bool
    | .ent _ c (_ :: .node _ _ (_ :: _ :: _) :: xd :: _ :: _ :: _ :: _ :: _ :: parts) =>
      shapeOK rc xd && shapeParts rc (rc c) parts
    | .ent _ _ _ => false
    | .node _ _ cs => shapeOKL rc cs
    | _ => true
  def shapeOKL (rc : Nat → List Policy) : List ATree → Bool
    | [] => true
    | t :: ts => shapeOK rc t && shapeOKL rc ts
  def shapeParts (rc : Nat → List Policy) : List Policy → List ATree → Bool
    | .ents :: ps, t :: ts => shapeOK rc t && shapeParts rc ps ts
    | _ :: ps, _ :: ts => shapeParts rc ps ts
    | _, _ => true
end

mutual
  /-- handle, owner and reactors of every entity that the strategy produced are `None` -/
  def noHandle (rc : Nat → List Policy) : ATree → Bool
    | .ent _ c (_ :: .node _ _ (.leaf h :: .leaf o :: _) :: xd :: .leaf r :: _ :: _ :: _ :: _ :: parts) =>
      h == NONE && o == NONE && r == NONE && noHandle rc xd && noHandleParts rc (rc c) parts
    | .ent _ _ _ => false
    | .node _ _ cs => noHandleL rc cs
    | _ => true
  def noHandleL (rc : Nat → List Policy) : List ATree → Bool
    | [] => true
    | t :: ts => noHandle rc t && noHandleL rc ts
  def noHandleParts (rc : Nat → List Policy) : List Policy → List ATree → Bool
    | .ents :: ps, t :: ts => noHandle rc t && noHandleParts rc ps ts
    | _ :: ps, _ :: ts => noHandleParts rc ps ts
    | _, _ => true
end

/-! ### certificate checker for extracted object graphs -/

/-- why a shared mutable object is tolerated: `(type of the shared object, type of its owner, attribute)`;
    `"*"` matches every type -/
abbrev Rule := String × String × String

def Rule.covers (r c : Rule) : Bool :=
  (r.1 == "*" || r.1 == c.1) && (r.2.1 == "*" || r.2.1 == c.2.1) && r.2.2 == c.2.2

def ruleAllowed (allowed : List Rule) (c : Rule) : Bool := allowed.any (fun r => r.covers c)

/-- a member of the frozen region of an extracted graph: either an entry (owned from outside the region,
    justified by a rule) or owned by a frozen node listed before it -/
structure FrozenNode where
  node : Nat
  why : Option Rule
  parent : Option Nat
  deriving Repr

/-- an extracted graph: node `i` of `nodes` is the object with address `i`, given by its kind and the
    addresses it owns -/
structure Graph where
  nodes : List (Kind × List Nat)
  rootA : Nat
  rootB : Nat
  /-- claimed supersets of what is reachable from `rootA` / `rootB` (checked to be closed) -/
  reachA : List Nat
  reachB : List Nat
  frozen : List FrozenNode
  deriving Repr

def Graph.heap (g : Graph) : Heap := g.nodes.map (fun n => ⟨n.1, n.2.map Ref.own⟩)

def Graph.frozenIds (g : Graph) : List Nat := g.frozen.map (·.node)

def succOf (g : Graph) (i : Nat) : List Nat :=
  match g.nodes[i]? with
  | some n => n.2
  | none => []

/-- `s` contains `r` and is closed under the edges of `g` -/
def closedFrom (g : Graph) (r : Nat) (s : List Nat) : Bool :=
  s.contains r && s.all (fun i => (succOf g i).all (fun j => s.contains j))

def kindOf (g : Graph) (i : Nat) : Option Kind := (g.nodes[i]?).map (·.1)

/-- every frozen node is justified by an allowed rule or by a frozen owner listed before it -/
def justified (allowed : List Rule) (g : Graph) : List FrozenNode → List Nat → Bool
  | [], _ => true
  | f :: rest, seen =>
    ((match f.why with | some r => ruleAllowed allowed r | none => false) ||
     (match f.parent with | some p => seen.contains p && (succOf g p).contains f.node | none => false)) &&
    justified allowed g rest (f.node :: seen)

def checkGraph (allowed : List Rule) (g : Graph) : Bool :=
  decide (g.rootA < g.nodes.length) && decide (g.rootB < g.nodes.length) &&
  closedFrom g g.rootA g.reachA && closedFrom g g.rootB g.reachB &&
  g.reachA.all (fun i => !g.reachB.contains i || kindOf g i == some .imm || g.frozenIds.contains i) &&
  g.nodes.all (fun n => n.2.all (fun j => decide (j < g.nodes.length))) &&
  justified allowed g g.frozen []

/-! ### what is shared on purpose (the explicit Frozen list, with reasons) -/

/-- objects that a copy / virtual entity / second document may share with its source although they are
    mutable Python objects: they are document resources referenced by handle, or encapsulated values that no
    code path mutates in place.  The oracle checks by content hash that the sweep never changes them. -/
def allowedFrozen : List Rule := [
  -- IMAGE -> IMAGE_DEF: the image definition is a database object of the OBJECTS section referenced by
  -- handle (`image_def_handle`); `Image.copy_data`: "shared IMAGE_DEF"
  ("ImageDef", "*", "_image_def"),
  -- UNDERLAY -> UNDERLAY_DEFINITION: same construction (`underlay_def_handle`)
  ("PdfDefinition", "*", "_underlay_def"), ("DwfDefinition", "*", "_underlay_def"),
  ("DgnDefinition", "*", "_underlay_def"),
  -- entries of a DICTIONARY that is not hard-owned are soft pointers to database objects owned elsewhere
  ("*", "Dictionary", "_data[]"), ("*", "DictionaryWithDefault", "_data[]"),
  -- ACDBDICTIONARYWDFLT.default: soft pointer to a database object
  ("*", "DictionaryWithDefault", "_default"),
  -- SPATIAL_FILTER matrices: private, the getters return copies and the setters store copies
  -- (`SpatialFilter.copy_data`: "immutable data")
  ("Matrix44", "SpatialFilter", "_inverse_insert_matrix"), ("Matrix44", "SpatialFilter", "_transform_matrix"),
  -- disassemble.Primitive.entity: a primitive is a view that documents its source entity
  ("*", "*", "entity")
]

/-! ### which parts a copy_data method may pass by reference (checked against the recipes derived from the
    source text, Gen/HeapGraphs.lean `recipes`) -/

/-- `entity.x = self.x`: (class or "*", part) whose value is an immutable Python value or a Frozen resource -/
def aliasAllowed : List (String × String) := [
  ("*", "sat"),                 -- tuple of str ("immutable sequence of strings, so the data can be shared")
  ("*", "sab"),                 -- bytes
  ("MText", "text"),            -- str
  ("VBAProject", "data"),       -- bytes
  ("Dictionary", "_value_code"), ("DictionaryWithDefault", "_value_code"),   -- int
  ("DictionaryWithDefault", "_default"),                                     -- Frozen: soft pointer
  ("Image", "_image_def"), ("*", "_underlay_def"),                           -- Frozen: definition objects
  ("SpatialFilter", "_boundary_vertices"),                                   -- tuple of Vec2
  ("SpatialFilter", "_inverse_insert_matrix"), ("SpatialFilter", "_transform_matrix")   -- Frozen: encapsulated
]

/-- `entity.x = list(self.x)` and the like: new container whose items are immutable values -/
def shallowAllowed : List (String × String) := [
  ("*", "_boundary_path"),      -- list of Vec2
  ("*", "handles"),             -- list of str
  ("Leader", "vertices"),       -- list of Vec3
  ("Viewport", "_frozen_layers"),   -- list of str
  ("XRecord", "tags"),          -- Tags of DXFTag value objects
  ("SortEntsTable", "table")    -- dict str -> str
]

def partListed (l : List (String × String)) (cls part : String) : Bool :=
  l.any (fun r => (r.1 == "*" || r.1 == cls) && r.2 == part)

/-- is the policy of `(class, part, policy)` acceptable: deepcopy, strategy copy of sub-entities, reset, a new
    default object (`entity.x = SomeClass()`), or by reference for a listed part.  `init` (`entity.x = entity.x`,
    the defect fixed by 9cace061f) and an unlisted alias (the defect fixed by 3a74eae26) are rejected. -/
def recipeOK (r : String × String × String) : Bool :=
  r.2.2 == "deep" || r.2.2 == "ents" || r.2.2 == "reset" || r.2.2 == "fresh" ||
  (r.2.2 == "alias" && partListed aliasAllowed r.1 r.2.1) ||
  (r.2.2 == "shallow" && partListed shallowAllowed r.1 r.2.1)

/-- navigation references that the extractor does not follow (they are not owning references) -/
def allowedNav : List (String × String) := [
  -- every entity / layout points to its document
  ("target", "Drawing"),
  -- DXFEntity.set_source_of_copy: copy -> source back reference (never followed by a mutator)
  ("attr", "_source_of_copy"),
  -- virtual entity -> INSERT that produced it
  ("attr", "_source_block_reference")
]

/-! ### small instances used by the non-vacuity checks of Props/C16.lean -/

/-- regression fact, the configuration of ezdxf BEFORE fix 3a74eae26 in miniature: source `0` and copy `1` own the
    same mutable cell `2` (as BODY and its copy owned one `_temporary_transformation`) -/
def aliasedHeap : Heap := [⟨.cell, [.own 2, .val 7]⟩, ⟨.cell, [.own 2, .val 7]⟩, ⟨.cell, [.val 0]⟩]

/-- a separated pair: source `0` -> `2`, copy `1` -> `3`, both point to the frozen resource `4` -/
def separatedGraph : Graph :=
  { nodes := [(.cell, [2, 4]), (.cell, [3, 4]), (.cont, []), (.cont, []), (.cell, [])],
    rootA := 0, rootB := 1, reachA := [0, 2, 4], reachB := [1, 3, 4],
    frozen := [⟨4, some ("ImageDef", "Image", "_image_def"), none⟩] }

/-! examples for the copy model: class 0 = an entity with the parts (deepcopy, alias, shallow, sub-entities),
    class 1 = a sub-entity without parts -/
def rcEx : Nat → List Policy := fun c => if c = 0 then [.deep, .alias, .shallow, .ents] else []
def blEx : Nat → List ATree := fun _ => []
def subEx (a : Nat) : ATree :=
  .ent a 1 [.navr 9, .node (a + 1) .cell [.leaf 51, .leaf 52, .leaf 7], .leaf NONE, .leaf 33, .leaf NONE, .leaf NONE, .leaf NONE, .leaf NONE]
def entEx : ATree :=
  .ent 10 0 [.navr 9, .node 11 .cell [.leaf 41, .leaf 42, .leaf 5, .node 12 .cont [.leaf 1]],
    .node 13 .cell [.ent 14 1 [.navr 9, .node 15 .cell [.leaf 43, .leaf 41], .leaf NONE, .leaf NONE, .leaf NONE, .leaf NONE, .leaf NONE, .leaf NONE]],
    .node 16 .cell [.leaf 44], .leaf 3, .node 17 .cont [.leaf 2], .node 18 .cont [.leaf 3], .leaf NONE,
    .node 19 .cont [.node 20 .cont [.leaf 4]], .node 21 .cont [.leaf 5], .node 22 .cont [.node 23 .cell [.leaf 6]],
    .node 24 .cont [subEx 25, subEx 27]]
end EzdxfVerif.Heap

/-
Model of the per-entity `register_resources` / `map_resources` overrides of `src/ezdxf/entities/*.py`, serving C17.

The table `Gen.XrefOverrides.rows` is extracted on every run from the AST of every override along the MRO of every entity type
registered in the factory, joined with the attributes the live classes declare (harness/translate/overrides_c17.py).  This file
gives the table a meaning:

  §1 rows, vias, the decidable well-formedness predicate `Row.wf`
  §2 the effect of a chain of map events on the handle-valued attributes of ONE copied entity (`mapAttrs`)
  §3 the effect on the resource-name attributes (`mapNames`), one and two passes over the same copy
  §4 what a chain of register events registers (`registeredNames`)

Handles are natural numbers with 0 = null handle ("0" / absent), as in Model/Xref.lean §5.  Core Lean only.
-/
import EzdxfVerif.Model.Xref
import EzdxfVerif.Gen.XrefOverrides

namespace EzdxfVerif.XrefOv
open EzdxfVerif.Xref
open EzdxfVerif.Gen

/-! ## §1 rows -/

/-- how a statement of `map_resources` computes the value it stores on the clone -/
inductive Via where
  | handle            -- mapping.get_handle(h)                       : σ(h), "0" when h was not copied
  | existing          -- mapping.map_existing_handle(.., optional=False): σ(h) or "0"; untouched when the source has no / an empty handle
  | existingOpt       -- mapping.map_existing_handle(.., optional=True) : σ(h) or the attribute is discarded
  | discard           -- clone.dxf.discard(attr)
  | name (kind : Nat) -- mapping.get_layer / get_linetype / get_text_style / get_dim_style / get_block_name
  | copyref           -- a target object obtained through the mapping (get_reference_of_copy, map_acad_dict_entry): its handle / name
  | pointers          -- mapping.map_pointers(tags): Model/Xref.lean §2
  | opaque
  deriving Repr, DecidableEq

def Via.ofNat : Nat → Via
  | 0 => .handle | 1 => .existing | 2 => .existingOpt | 3 => .discard
  | 4 => .name 4 | 5 => .name 5 | 6 => .name 6 | 7 => .name 7 | 8 => .name 8 | 12 => .name 12
  | 9 => .copyref | 10 => .pointers | _ => .opaque

/-- the via leaves a handle attribute null, absent, a σ-image or the handle of a target object -/
def Via.closes : Via → Bool
  | .handle | .existing | .existingOpt | .discard | .copyref => true
  | _ => false

/-- the guard of a statement, as classified by the T-ast walker -/
inductive Cond where
  | always
  | ifPresent       -- the SOURCE entity has the attribute (`self.dxf.hasattr(a)`; the clone starts as a copy)
  | ifAbsent
  | ifSet           -- present and not null (`h and h != "0"`)
  | ifUnset
  | unk (k : Nat) (pos : Bool)   -- the test number k, which the walker cannot decide from the source attributes, holds / does not hold
  | ifCloneAbsent   -- the CLONE does not have the attribute (any more): `if not self.dxf.hasattr(a)` in a helper called on the clone
  deriving Repr, DecidableEq

def Cond.ofNat : Nat → Nat → Cond
  | 1, _ => .ifPresent | 2, _ => .ifAbsent | 3, _ => .ifSet | 4, _ => .ifUnset
  | 5, k => .unk k true | 6, k => .unk k false | 7, _ => .ifCloneAbsent | _, _ => .always

def isSet : Option Nat → Bool
  | some h => h != 0
  | none => false

/-- does the guard let the statement run?  `orc k` = the truth of the undecided test number k, `sv` / `cv` = the value of the
    attribute in the source entity / in the clone so far -/
def Cond.holds (orc : Nat → Bool) (c : Cond) (sv cv : Option Nat) : Bool :=
  match c with
  | .always => true
  | .ifPresent => sv.isSome
  | .ifAbsent => sv.isNone
  | .ifSet => isSet sv
  | .ifUnset => !isSet sv
  | .unk k pos => orc k == pos
  | .ifCloneAbsent => cv.isNone

/-- the guard lets the statement run whenever the source attribute is set (present and not null) -/
def Cond.firesOnSet : Cond → Bool
  | .always | .ifPresent | .ifSet => true
  | _ => false

structure MapEv where
  attr : Nat
  via : Via
  /-- the mapped value is computed from the SOURCE entity (`self`), not from the current value of the clone -/
  readsSource : Bool
  cond : Cond := .always
  deriving Repr, DecidableEq

structure Row where
  cls : String
  copyable : Bool
  ptrAttrs : List Nat
  nameAttrs : List (Nat × Nat)
  maps : List MapEv
  regs : List (Nat × Nat)
  writesSource : Bool
  secondMapping : Bool
  ptrExceptions : List Nat
  nameExceptions : List Nat
  deriving Repr

def Row.ofRaw (r : String × Bool × List Nat × List (Nat × Nat) × List (Nat × Nat × Bool × Nat × Nat) × List (Nat × Nat) × Bool × Bool × List Nat × List Nat) : Row :=
  let (cls, copyable, ptr, names, maps, regs, ws, sm, pex, nex) := r
  { cls := cls, copyable := copyable, ptrAttrs := ptr, nameAttrs := names,
    maps := maps.map fun (a, v, rs, c, k) => ⟨a, Via.ofNat v, rs, Cond.ofNat c k⟩,
    regs := regs, writesSource := ws, secondMapping := sm, ptrExceptions := pex, nameExceptions := nex }

/-- the regenerated table: one row per registered entity type -/
def rows : List Row := XrefOverrides.rows.map Row.ofRaw

/-- attribute `a` is covered: a closing statement runs whenever the source attribute is set, or an `if … else …` on an undecided
    test closes it in both branches -/
def covered (evs : List MapEv) (a : Nat) : Bool :=
  evs.any (fun e => e.attr = a ∧ e.via.closes ∧ e.cond.firesOnSet) ||
  evs.any (fun e => match e.cond with
    | .unk k true => e.attr = a ∧ e.via.closes ∧ evs.any (fun e' => e'.attr = a ∧ e'.via.closes ∧ e'.cond = .unk k false)
    | _ => false)

/-- every declared handle attribute is covered by the chain or is a documented exception -/
def Row.ptrsHandled (r : Row) : Bool := r.ptrAttrs.all fun a => covered r.maps a || r.ptrExceptions.contains a

/-- every declared resource-name attribute is mapped through the name map of its kind (or taken from a transferred object),
    or is a documented exception -/
def Row.namesHandled (r : Row) : Bool :=
  r.nameAttrs.all fun (a, k) =>
    r.maps.any (fun e => e.attr = a ∧ (e.via = .name k ∨ e.via = .copyref)) || r.nameExceptions.contains a

/-- every name a statement maps is also registered (so that the table entry is transferred and the name map has the key);
    13 = `registry.add_entity(<table entry>)`, 0 = registration by handle of the same field -/
def Row.namesRegistered (r : Row) : Bool :=
  r.maps.all fun e =>
    match e.via with
    | .name k => r.regs.any (fun g => g.1 = e.attr ∧ (g.2 = k ∨ g.2 = 13 ∨ g.2 = 0)) || r.nameExceptions.contains e.attr
    | _ => true

/-- well-formedness of one row.  A type that cannot be copied (`copy()` raises: CopyMachine records a copy error) is never
    transferred; for all others: handle attributes closed, names mapped and registered, no statement of a `map_resources` writes
    to the source entity, and the chain does not map other copies a second time -/
def Row.wf (r : Row) : Bool :=
  !r.copyable || (r.ptrsHandled && r.namesHandled && r.namesRegistered && !r.writesSource && !r.secondMapping)

/-! ## §2 handle attributes of one copied entity -/

/-- handle-valued attributes by attribute id; `none` = the attribute is absent -/
abbrev Attrs := Nat → Option Nat

def upd (f : Attrs) (a : Nat) (v : Option Nat) : Attrs := fun b => if b = a then v else f b

/-- one statement without its guard.  `src` = the source entity, `cl` = the clone so far (it starts as a copy of the source), `tobj a` = the handle of
    the target object a `copyref` statement stores in attribute `a` -/
def applyEv0 (σ : Sigma) (tobj : Nat → Nat) (src : Attrs) (e : MapEv) (cl : Attrs) : Attrs :=
  match e.via with
  | .handle =>
    match (if e.readsSource then src e.attr else cl e.attr) with
    | some h => upd cl e.attr (some (σ.get h))
    | none => cl
  | .existing =>       -- `if not handle: return` skips an absent / empty handle only; "0" is looked up like any handle
    match src e.attr with
    | some h => upd cl e.attr (some (σ.get h))
    | none => cl
  | .existingOpt =>
    match src e.attr with
    | some h => if σ.get h ≠ 0 then upd cl e.attr (some (σ.get h)) else upd cl e.attr none
    | none => cl
  | .discard => upd cl e.attr none
  | .copyref => upd cl e.attr (some (tobj e.attr))
  | _ => cl

/-- one statement under its guard -/
def applyEv (orc : Nat → Bool) (σ : Sigma) (tobj : Nat → Nat) (src : Attrs) (e : MapEv) (cl : Attrs) : Attrs :=
  -- a statement touches its own attribute only (written so that a lookup of another attribute does not evaluate the guard)
  fun b => if b = e.attr then (if e.cond.holds orc (src b) (cl b) then applyEv0 σ tobj src e cl b else cl b) else cl b

/-- the whole chain (base class first), starting from the copy; `orc` decides the tests the walker could not classify -/
def mapAttrsFrom (orc : Nat → Bool) (σ : Sigma) (tobj : Nat → Nat) (src : Attrs) (evs : List MapEv) (cl : Attrs) : Attrs :=
  evs.foldl (fun c e => applyEv orc σ tobj src e c) cl

def mapAttrs (orc : Nat → Bool) (σ : Sigma) (tobj : Nat → Nat) (evs : List MapEv) (src : Attrs) : Attrs :=
  mapAttrsFrom orc σ tobj src evs src

/-! ## §3 resource-name attributes of one copied entity -/

abbrev Names := Nat → Option Str

def updN (f : Names) (a : Nat) (v : Option Str) : Names := fun b => if b = a then v else f b

/-- one statement on the name attributes: `nm k` = the name map of kind k (`mapping.get_layer` …, identity on unknown names);
    `tname a` = the name of the transferred object a `copyref` statement takes the name from -/
def applyEvN (nm : Nat → Str → Str) (tname : Nat → Str) (src : Names) (e : MapEv) (cl : Names) : Names :=
  match e.via with
  | .name k =>
    match (if e.readsSource then src e.attr else cl e.attr) with
    | some s => updN cl e.attr (some (nm k s))
    | none => cl
  | .copyref => updN cl e.attr (some (tname e.attr))
  | _ => cl

def mapNamesFrom (nm : Nat → Str → Str) (tname : Nat → Str) (src : Names) (evs : List MapEv) (cl : Names) : Names :=
  evs.foldl (fun c e => applyEvN nm tname src e c) cl

/-- one pass of the chain over the copy -/
def mapNames (nm : Nat → Str → Str) (tname : Nat → Str) (evs : List MapEv) (src : Names) : Names :=
  mapNamesFrom nm tname src evs src

/-- two passes over the same copy (what happened to block content before fix 1a82fa447: once through the BLOCK_RECORD copy, once
    through the block of copies) -/
def mapNamesTwice (nm : Nat → Str → Str) (tname : Nat → Str) (evs : List MapEv) (src : Names) : Names :=
  mapNamesFrom nm tname src evs (mapNames nm tname evs src)

/-! ## §4 registration -/

/-- the (kind, name) pairs a chain of register events hands to the registry for an entity with the name attributes `src` -/
def registeredNames (regs : List (Nat × Nat)) (src : Names) : List (Nat × Str) :=
  regs.filterMap fun g => (src g.1).map fun s => (g.2, s)

end EzdxfVerif.XrefOv

/-
Model of the curve kernels of ezdxf (property C13), core Lean only, exact arithmetic over `Rat`.

  * `src/ezdxf/math/_bezier4p.py`, `_bezier3p.py` (+ `acc/bezier4p.pyx`, `acc/bezier3p.pyx`):
    constructor (offset trick), `_get_curve_point`, `_get_curve_tangent`, `reverse`, `transform`.
    The arithmetic kernels are ALSO translated from the current source on every run
    (Gen/CurveKernels.lean); Props/C13 proves translated = hand model.
  * `src/ezdxf/math/_bspline.py` / `acc/bspline.pyx`: `Basis.find_span` (special case, binary
    search branch = `bisect.bisect_right` / the hand rolled twin, linear search branch),
    `Basis.basis_funcs` (The NURBS Book A2.2 as coded, `ZeroDivisionError` = `none`),
    `Basis.span_weighting`, `Evaluator.point` (A3.1).
  * `src/ezdxf/math/bspline.py`: `BSpline.insert_knot` (non rational), `BSpline.reverse` knots.
  * Cox-de Boor recursion: the textbook reference the code is compared with.
  * `src/ezdxf/math/bulge.py`: closed (trigonometry free) form of `bulge_center`; the radius kernel
    `signed_bulge_radius` is translated into Gen.

The model copies the code, quirks included:
  * `find_span` walks back from span `count - 1` to the last non-empty span for `u >= knots[count]`
    (the code after fix 8d57f80c6; before it returned `count - 1` even if that span was empty, F13);
  * `knots[max(0, span + 1 - j)]` is `kget knots (span + 1 - j)` with truncated `Nat` subtraction;
  * the binary search is only taken when `knots[p] == 0.0`;
  * the linear search returns -1 for `u < knots[0]` (hence `Int`).
Python lists are `List Rat`; an index outside the list reads 0 (`kget`), the generators and the
theorems stay inside the index range the classes enforce (`len(knots) = order + count`).
-/
namespace EzdxfVerif.Curve

/-! ## vectors, affine maps -/

structure V3 where
  x : Rat
  y : Rat
  z : Rat
  deriving DecidableEq, Repr

namespace V3
def zero : V3 := ⟨0, 0, 0⟩
/-- `Vec3.__add__` -/
def add (a b : V3) : V3 := ⟨a.x + b.x, a.y + b.y, a.z + b.z⟩
/-- `Vec3.__sub__` -/
def sub (a b : V3) : V3 := ⟨a.x - b.x, a.y - b.y, a.z - b.z⟩
/-- `Vec3.__mul__(float)` -/
def scale (a : V3) (s : Rat) : V3 := ⟨a.x * s, a.y * s, a.z * s⟩
end V3

/-- the part of a `Matrix44` that `transform_vertices` uses (rows 0..3, columns 0..2; ezdxf
    multiplies row vectors from the left and ignores the fourth column) -/
structure Affine where
  m0 : Rat
  m1 : Rat
  m2 : Rat
  m4 : Rat
  m5 : Rat
  m6 : Rat
  m8 : Rat
  m9 : Rat
  m10 : Rat
  m12 : Rat
  m13 : Rat
  m14 : Rat

/-- `Matrix44.transform` -/
def Affine.apply (m : Affine) (v : V3) : V3 :=
  ⟨v.x * m.m0 + v.y * m.m4 + v.z * m.m8 + m.m12,
   v.x * m.m1 + v.y * m.m5 + v.z * m.m9 + m.m13,
   v.x * m.m2 + v.y * m.m6 + v.z * m.m10 + m.m14⟩

/-! ## Bézier curves (`Bezier4P`, `Bezier3P`) -/

/-- `Bezier4P._get_curve_point`: `o` is `self._offset`, `q1 q2 q3` are `self._control_points[1:]`
    (already moved to the origin) -/
def bez4PointK (o q1 q2 q3 : V3) (t : Rat) : V3 :=
  let t2 := t * t
  let m := 1 - t
  let b := 3 * m * m * t
  let c := 3 * m * t2
  let d := t2 * t
  (((q1.scale b).add (q2.scale c)).add (q3.scale d)).add o

/-- `Bezier4P._get_curve_tangent` -/
def bez4TangentK (q1 q2 q3 : V3) (t : Rat) : V3 :=
  let t2 := t * t
  let b := 3 * (1 - 4 * t + 3 * t2)
  let c := 3 * t * (2 - 3 * t)
  let d := 3 * t2
  ((q1.scale b).add (q2.scale c)).add (q3.scale d)

/-- `Bezier3P._get_curve_point` -/
def bez3PointK (o q1 q2 : V3) (t : Rat) : V3 :=
  let m := 1 - t
  let b := 2 * t * m
  let c := t * t
  ((q1.scale b).add (q2.scale c)).add o

/-- `Bezier3P._get_curve_tangent` -/
def bez3TangentK (q1 q2 : V3) (t : Rat) : V3 :=
  let b := 2 - 4 * t
  let c := 2 * t
  (q1.scale b).add (q2.scale c)

/-- `Bezier4P(defpoints)`: defining points as given by the caller -/
structure Bez4 where
  p0 : V3
  p1 : V3
  p2 : V3
  p3 : V3
  deriving DecidableEq, Repr

structure Bez3 where
  p0 : V3
  p1 : V3
  p2 : V3
  deriving DecidableEq, Repr

/-- `__init__` (offset = p0, stored points p - offset) followed by `_get_curve_point` -/
def Bez4.point (c : Bez4) (t : Rat) : V3 :=
  bez4PointK c.p0 (c.p1.sub c.p0) (c.p2.sub c.p0) (c.p3.sub c.p0) t

def Bez4.tangent (c : Bez4) (t : Rat) : V3 :=
  bez4TangentK (c.p1.sub c.p0) (c.p2.sub c.p0) (c.p3.sub c.p0) t

/-- `Bezier4P.reverse`: `Bezier4P(list(reversed(self.control_points)))` -/
def Bez4.reverse (c : Bez4) : Bez4 := ⟨c.p3, c.p2, c.p1, c.p0⟩

/-- `Bezier4P.transform` -/
def Bez4.transform (c : Bez4) (m : Affine) : Bez4 := ⟨m.apply c.p0, m.apply c.p1, m.apply c.p2, m.apply c.p3⟩

def Bez3.point (c : Bez3) (t : Rat) : V3 :=
  bez3PointK c.p0 (c.p1.sub c.p0) (c.p2.sub c.p0) t

def Bez3.tangent (c : Bez3) (t : Rat) : V3 :=
  bez3TangentK (c.p1.sub c.p0) (c.p2.sub c.p0) t

def Bez3.reverse (c : Bez3) : Bez3 := ⟨c.p2, c.p1, c.p0⟩

def Bez3.transform (c : Bez3) (m : Affine) : Bez3 := ⟨m.apply c.p0, m.apply c.p1, m.apply c.p2⟩

/-! ### Bernstein reference -/

/-- Pascal triangle (core Lean has no `Nat.choose`) -/
def choose : Nat → Nat → Nat
  | _, 0 => 1
  | 0, _ + 1 => 0
  | n + 1, k + 1 => choose n k + choose n (k + 1)

def factorial : Nat → Nat
  | 0 => 1
  | n + 1 => (n + 1) * factorial n

/-- Bernstein polynomial `B_{i,n}(t) = C(n,i) t^i (1-t)^(n-i)` -/
def bernstein (n i : Nat) (t : Rat) : Rat := (choose n i : Rat) * t ^ i * (1 - t) ^ (n - i)

/-- `Σ_i B_{i,n}(t) P_i` for the control polygon `ps` (n = length - 1), textbook definition -/
def bernsteinSum (n : Nat) (t : Rat) : Nat → List V3 → V3
  | _, [] => V3.zero
  | i, p :: ps => (p.scale (bernstein n i t)).add (bernsteinSum n t (i + 1) ps)

def bernsteinCurve (ps : List V3) (t : Rat) : V3 := bernsteinSum (ps.length - 1) t 0 ps

/-! ## B-spline basis (`Basis`) -/

/-- `knots[i]` -/
def kget (k : List Rat) (i : Nat) : Rat := k.getD i 0

/-- nondecreasing knot vector (decidable) -/
def nondecreasing : List Rat → Bool
  | a :: b :: r => decide (a ≤ b) && nondecreasing (b :: r)
  | _ => true

/-- `bisect.bisect_right(a, x, lo, hi)` and the hand rolled `bisect_right` of bspline.pyx (the same
    loop: `mid = (lo + hi) // 2; if x < a[mid]: hi = mid else: lo = mid + 1`) -/
def bisectRight (a : List Rat) (x : Rat) (lo hi : Nat) : Nat :=
  if _h : lo < hi then
    let mid := (lo + hi) / 2
    if x < kget a mid then bisectRight a x lo mid else bisectRight a x (mid + 1) hi
  else lo
termination_by hi - lo
decreasing_by all_goals omega

/-- `span = 0; while knots[span] <= u and span < count: span += 1` (returns the final `span`) -/
def linearSearch (a : List Rat) (u : Rat) (count span : Nat) : Nat :=
  if _h : kget a span ≤ u ∧ span < count then linearSearch a u count (span + 1) else span
termination_by count - span
decreasing_by omega

/-- `while span > p and knots[span] >= knots[count]: span -= 1` (returns the final `span`): walks back from
    the last span to the last NON-EMPTY one (fix 8d57f80c6 of finding F13) -/
def backSearch (knots : List Rat) (p count : Nat) : Nat → Nat
  | 0 => 0
  | span + 1 =>
    if span + 1 > p ∧ kget knots count ≤ kget knots (span + 1) then backSearch knots p count span else span + 1

/-- `Basis.find_span(u)`; the result can be -1 (linear search, `u < knots[0]`) -/
def findSpan (knots : List Rat) (order count : Nat) (u : Rat) : Int :=
  let p := order - 1
  if kget knots count ≤ u then                               -- special case: u >= knots[count]
    if count = 0 then -1 else (backSearch knots p count (count - 1) : Int)
  else
    if kget knots p = 0 then (bisectRight knots u p count : Int) - 1
    else (linearSearch knots u count 0 : Int) - 1

/-- `left[j] = u - knots[max(0, span + 1 - j)]` -/
def leftAt (knots : List Rat) (span : Nat) (u : Rat) (j : Nat) : Rat := u - kget knots (span + 1 - j)

/-- `right[j] = knots[span + j] - u` -/
def rightAt (knots : List Rat) (span : Nat) (u : Rat) (j : Nat) : Rat := kget knots (span + j) - u

/-- inner loop of A2.2 for one `j`, positions `r, r+1, …` of `N` (the list holds `N[r:j]`):
    `temp = N[r] / (right[r+1] + left[j-r]); N[r] = saved + right[r+1]*temp; saved = left[j-r]*temp`
    and finally `N[j] = saved`.  `none` = ZeroDivisionError. -/
def basisInner (L R : Nat → Rat) (j : Nat) : Nat → Rat → List Rat → Option (List Rat)
  | _, saved, [] => some [saved]
  | r, saved, n :: rest =>
    let den := R (r + 1) + L (j - r)
    if den = 0 then none
    else
      let temp := n / den
      (basisInner L R j (r + 1) (L (j - r) * temp) rest).map (fun t => (saved + R (r + 1) * temp) :: t)

/-- `for j in range(j, j + n)` of A2.2 -/
def basisStages (L R : Nat → Rat) : Nat → Nat → List Rat → Option (List Rat)
  | _, 0, N => some N
  | j, n + 1, N => (basisInner L R j 0 0 N).bind (basisStages L R (j + 1) n)

/-- `Basis.basis_funcs(span, u)` of a non rational basis: the `order` non-zero basis functions -/
def basisFuncs (knots : List Rat) (order span : Nat) (u : Rat) : Option (List Rat) :=
  basisStages (leftAt knots span u) (rightAt knots span u) 1 (order - 1) [1]

/-- `Basis.span_weighting(nbasis, span)` -/
def spanWeighting (weights : List Rat) (order span : Nat) (nbasis : List Rat) : List Rat :=
  let ws := (weights.drop (span + 1 - order)).take order
  let products := List.zipWith (· * ·) nbasis ws
  let s := products.sum
  if s = 0 then nbasis.map (fun _ => 0) else products.map (· / s)

/-- `Basis.basis_funcs` including the rational branch (`weights = []` means non rational) -/
def basisFuncsW (knots weights : List Rat) (order span : Nat) (u : Rat) : Option (List Rat) :=
  (basisFuncs knots order span u).map
    (fun N => if weights.isEmpty then N else spanWeighting weights order span N)

/-- `Σ_i N[i] * cps[first + i]` -/
def combine : List Rat → List V3 → V3
  | n :: ns, p :: ps => (p.scale n).add (combine ns ps)
  | _, _ => V3.zero

/-- `Evaluator.point(u)` (A3.1) without the `isclose(u, max_t)` snapping (the harness passes exact
    parameters); error = ZeroDivisionError -/
def evalPoint (knots weights : List Rat) (cps : List V3) (order : Nat) (u : Rat) : Option V3 :=
  let count := cps.length
  match findSpan knots order count u with
  | Int.ofNat span =>
    (basisFuncsW knots weights order span u).map (fun N => combine N (cps.drop (span + 1 - order)))
  | _ => none

/-! ### Cox - de Boor reference -/

/-- Cox - de Boor recursion over an arbitrary degree-0 layer `base`; `0/0 := 0` as in the textbook -/
def cdb (U : List Rat) (u : Rat) (base : Nat → Rat) : Nat → Nat → Rat
  | 0, i => base i
  | p + 1, i =>
    let d1 := kget U (i + p + 1) - kget U i
    let d2 := kget U (i + p + 2) - kget U (i + 1)
    (if d1 = 0 then 0 else (u - kget U i) / d1 * cdb U u base p i)
    + (if d2 = 0 then 0 else (kget U (i + p + 2) - u) / d2 * cdb U u base p (i + 1))

/-- textbook basis function `N_{i,p}(u)` (half open spans) -/
def coxDeBoor (U : List Rat) (u : Rat) (p i : Nat) : Rat :=
  cdb U u (fun i => if kget U i ≤ u ∧ u < kget U (i + 1) then 1 else 0) p i

/-- the polynomial piece of `N_{i,p}` that belongs to knot span `s` (degree-0 layer = `i = s`);
    equal to `coxDeBoor` on `[U_s, U_{s+1})` and its continuation to the closed span (the value the
    curve takes at the end of the domain) -/
def spanPiece (U : List Rat) (u : Rat) (s p i : Nat) : Rat :=
  cdb U u (fun i => if i = s then 1 else 0) p i

/-- proof support: the `q+1` polynomial pieces of degree `q` that are non zero on span `s`
    (what `N[0..q]` holds after stage `q` of A2.2) -/
def pieceList (U : List Rat) (u : Rat) (s q : Nat) : List Rat :=
  (List.range' 0 (q + 1)).map (fun r => spanPiece U u s q (s - q + r))

/-- proof support: first summand of the Cox - de Boor recursion for `N_{a+r, q+1}` (what `saved`
    holds when the inner loop of A2.2 reaches position `r`) -/
def firstTerm (U : List Rat) (u : Rat) (s q a r : Nat) : Rat :=
  if kget U (a + r + q + 1) - kget U (a + r) = 0 then 0
  else (u - kget U (a + r)) / (kget U (a + r + q + 1) - kget U (a + r)) * spanPiece U u s q (a + r)

/-- `Σ_{i < count} N_{i,p}(u) P_i` with `N` taken from `f` -/
def curveSum (f : Nat → Rat) : Nat → List V3 → V3
  | _, [] => V3.zero
  | i, p :: ps => (p.scale (f i)).add (curveSum f (i + 1) ps)

/-- textbook curve point for `u` inside a half open span -/
def curveRef (U : List Rat) (cps : List V3) (p : Nat) (u : Rat) : V3 :=
  curveSum (coxDeBoor U u p) 0 cps

/-! ## knot insertion, reversal (`BSpline.insert_knot`, `BSpline.reverse`) -/

inductive InsErr where
  | valueError      -- DXFValueError("Invalid position t")
  | zeroDivision
  deriving DecidableEq, Repr

/-- `new_point(index)`: `a = (t - knots[i]) / (knots[i+p] - knots[i]); cp[i-1]*(1-a) + cp[i]*a` -/
def insNewPoint (knots : List Rat) (cps : List V3) (p : Nat) (t : Rat) (i : Nat) : Option V3 :=
  let den := kget knots (i + p) - kget knots i
  if den = 0 then none
  else
    let a := (t - kget knots i) / den
    some (((cps.getD (i - 1) V3.zero).scale (1 - a)).add ((cps.getD i V3.zero).scale a))

/-- `BSpline.insert_knot(t)` for a non rational spline whose knot vector starts at 0:
    returns the new control points and the new knot vector -/
def insertKnot (knots : List Rat) (cps : List V3) (order : Nat) (t : Rat) :
    Except InsErr (List V3 × List Rat) :=
  let p := order - 1
  let maxT := knots.getLastD 0
  if t ≤ 0 ∨ maxT ≤ t then .error .valueError
  else
    match findSpan knots order cps.length t with
    | Int.ofNat k =>
      if k < p then .error .valueError
      else
        match (List.range' (k + 1 - p) p).mapM (insNewPoint knots cps p t) with
        | none => .error .zeroDivision
        | some qs =>
          -- cpoints[k - p + 1 : k] = qs ; knots.insert(k + 1, t)
          .ok (cps.take (k + 1 - p) ++ qs ++ cps.drop k, knots.take (k + 1) ++ t :: knots.drop (k + 1))
    | _ => .error .valueError

/-- `normalize_knots` -/
def normalizeKnots (knots : List Rat) : List Rat :=
  let mn := kget knots 0
  let mx := knots.getLastD 0 - mn
  knots.map (fun v => (v - mn) / mx)

/-- the knot vector of `BSpline.reverse()`: `1.0 - k for k in reversed(normalize_knots(knots))` -/
def reverseKnots (knots : List Rat) : List Rat := (normalizeKnots knots).reverse.map (fun k => 1 - k)

/-! ## bulge (`bulge.py`) -/

/-- closed form of `bulge_center(start, end, bulge)`:
    `start + from_angle(angle(start,end) + (π/2 − 2·atan b), dist·(1+b²)/4/b)` with
    `cos(2 atan b) = (1−b²)/(1+b²)`, `sin(2 atan b) = 2b/(1+b²)` and the chord direction
    `(dx, dy)/dist` expanded: the distance cancels and the centre is rational in the inputs. -/
def bulgeCenter (sx sy ex ey b : Rat) : Rat × Rat :=
  let dx := ex - sx
  let dy := ey - sy
  let k := (1 - b * b) / (4 * b)
  (sx + (dx / 2 - k * dy), sy + (k * dx + dy / 2))

/-- square of `bulge_radius` = `(dist·(1+b²)/4/b)²` with `dist² = dx²+dy²` -/
def bulgeRadiusSq (sx sy ex ey b : Rat) : Rat :=
  let dx := ex - sx
  let dy := ey - sy
  (dx * dx + dy * dy) * (1 + b * b) * (1 + b * b) / (16 * b * b)

/-- the point of the arc farthest from the chord: chord midpoint + sagitta (`b·dist/2`) to the right
    of the direction start → end for positive bulge (DXF: positive bulge = counter clockwise arc) -/
def bulgeApex (sx sy ex ey b : Rat) : Rat × Rat :=
  let dx := ex - sx
  let dy := ey - sy
  ((sx + ex) / 2 + b / 2 * dy, (sy + ey) / 2 - b / 2 * dx)

def dist2 (a b : Rat × Rat) : Rat := (a.1 - b.1) * (a.1 - b.1) + (a.2 - b.2) * (a.2 - b.2)

end EzdxfVerif.Curve

/-
Model of the curve kernels of ezdxf (property C13), core Lean only, exact arithmetic over `Rat`.

  * `src/ezdxf/math/_bezier4p.py`, `_bezier3p.py` (+ `acc/bezier4p.pyx`, `acc/bezier3p.pyx`):
    constructor (offset trick), `_get_curve_point`, `_get_curve_tangent`, `reverse`, `transform`.
    The arithmetic kernels are ALSO translated from the current source on every run
    (Gen/CurveKernels.lean); Props/C13 proves translated = hand model.
  * `src/ezdxf/math/_bspline.py` / `acc/bspline.pyx`: `Basis.find_span` (special case, binary
    search branch = `bisect.bisect_right` / the hand rolled twin, linear search branch),
    `Basis.basis_funcs` (The NURBS Book A2.2 as coded, `ZeroDivisionError` = `none`),
    `Basis.span_weighting`, `Evaluator.point` (A3.1).
  * `src/ezdxf/math/bspline.py`: `BSpline.insert_knot` (non rational), `BSpline.reverse` knots.
  * Cox-de Boor recursion: the textbook reference the code is compared with.
  * `src/ezdxf/math/bulge.py`: closed (trigonometry free) form of `bulge_center`; the radius kernel
    `signed_bulge_radius` is translated into Gen.

The model copies the code, quirks included:
  * `find_span` walks back from span `count - 1` to the last non-empty span for `u >= knots[count]`
    (the code after fix 8d57f80c6; before it returned `count - 1` even if that span was empty, F13);
  * `knots[max(0, span + 1 - j)]` is `kget knots (span + 1 - j)` with truncated `Nat` subtraction;
  * the binary search is only taken when `knots[p] == 0.0`;
  * the linear search returns -1 for `u < knots[0]` (hence `Int`).
Python lists are `List Rat`; an index outside the list reads 0 (`kget`), the generators and the
theorems stay inside the index range the classes enforce (`len(knots) = order + count`).
-/
namespace EzdxfVerif.Curve

/-! ## vectors, affine maps -/

structure V3 where
  x : Rat
  y : Rat
  z : Rat
  deriving DecidableEq, Repr

namespace V3
def zero : V3 := ⟨0, 0, 0⟩
/-- `Vec3.__add__` -/
def add (a b : V3) : V3 := ⟨a.x + b.x, a.y + b.y, a.z + b.z⟩
/-- `Vec3.__sub__` -/
def sub (a b : V3) : V3 := ⟨a.x - b.x, a.y - b.y, a.z - b.z⟩
/-- `Vec3.__mul__(float)` -/
def scale (a : V3) (s : Rat) : V3 := ⟨a.x * s, a.y * s, a.z * s⟩
end V3

/-- the part of a `Matrix44` that `transform_vertices` uses (rows 0..3, columns 0..2; ezdxf
    multiplies row vectors from the left and ignores the fourth column) -/
structure Affine where
  m0 : Rat
  m1 : Rat
  m2 : Rat
  m4 : Rat
  m5 : Rat
  m6 : Rat
  m8 : Rat
  m9 : Rat
  m10 : Rat
  m12 : Rat
  m13 : Rat
  m14 : Rat

/-- `Matrix44.transform` -/
def Affine.apply (m : Affine) (v : V3) : V3 :=
  ⟨v.x * m.m0 + v.y * m.m4 + v.z * m.m8 + m.m12,
   v.x * m.m1 + v.y * m.m5 + v.z * m.m9 + m.m13,
   v.x * m.m2 + v.y * m.m6 + v.z * m.m10 + m.m14⟩

/-! ## Bézier curves (`Bezier4P`, `Bezier3P`) -/

/-- `Bezier4P._get_curve_point`: `o` is `self._offset`, `q1 q2 q3` are `self._control_points[1:]`
    (already moved to the origin) -/
def bez4PointK (o q1 q2 q3 : V3) (t : Rat) : V3 :=
  let t2 := t * t
  let m := 1 - t
  let b := 3 * m * m * t
  let c := 3 * m * t2
  let d := t2 * t
  (((q1.scale b).add (q2.scale c)).add (q3.scale d)).add o

/-- `Bezier4P._get_curve_tangent` -/
def bez4TangentK (q1 q2 q3 : V3) (t : Rat) : V3 :=
  let t2 := t * t
  let b := 3 * (1 - 4 * t + 3 * t2)
  let c := 3 * t * (2 - 3 * t)
  let d := 3 * t2
  ((q1.scale b).add (q2.scale c)).add (q3.scale d)

/-- `Bezier3P._get_curve_point` -/
def bez3PointK (o q1 q2 : V3) (t : Rat) : V3 :=
  let m := 1 - t
  let b := 2 * t * m
  let c := t * t
  ((q1.scale b).add (q2.scale c)).add o

/-- `Bezier3P._get_curve_tangent` -/
def bez3TangentK (q1 q2 : V3) (t : Rat) : V3 :=
  let b := 2 - 4 * t
  let c := 2 * t
  (q1.scale b).add (q2.scale c)

/-- `Bezier4P(defpoints)`: defining points as given by the caller -/
structure Bez4 where
  p0 : V3
  p1 : V3
  p2 : V3
  p3 : V3
  deriving DecidableEq, Repr

structure Bez3 where
  p0 : V3
  p1 : V3
  p2 : V3
  deriving DecidableEq, Repr

/-- `__init__` (offset = p0, stored points p - offset) followed by `_get_curve_point` -/
def Bez4.point (c : Bez4) (t : Rat) : V3 :=
  bez4PointK c.p0 (c.p1.sub c.p0) (c.p2.sub c.p0) (c.p3.sub c.p0) t

def Bez4.tangent (c : Bez4) (t : Rat) : V3 :=
  bez4TangentK (c.p1.sub c.p0) (c.p2.sub c.p0) (c.p3.sub c.p0) t

/-- `Bezier4P.reverse`: `Bezier4P(list(reversed(self.control_points)))` -/
def Bez4.reverse (c : Bez4) : Bez4 := ⟨c.p3, c.p2, c.p1, c.p0⟩

/-- `Bezier4P.transform` -/
def Bez4.transform (c : Bez4) (m : Affine) : Bez4 := ⟨m.apply c.p0, m.apply c.p1, m.apply c.p2, m.apply c.p3⟩

def Bez3.point (c : Bez3) (t : Rat) : V3 :=
  bez3PointK c.p0 (c.p1.sub c.p0) (c.p2.sub c.p0) t

def Bez3.tangent (c : Bez3) (t : Rat) : V3 :=
  bez3TangentK (c.p1.sub c.p0) (c.p2.sub c.p0) t

def Bez3.reverse (c : Bez3) : Bez3 := ⟨c.p2, c.p1, c.p0⟩

def Bez3.transform (c : Bez3) (m : Affine) : Bez3 := ⟨m.apply c.p0, m.apply c.p1, m.apply c.p2⟩

/-! ### Bernstein reference -/

/-- Pascal triangle (core Lean has no `Nat.choose`) -/
def choose : Nat → Nat → Nat
  | _, 0 => 1
  | 0, _ + 1 => 0
  | n + 1, k + 1 => choose n k + choose n (k + 1)

def factorial : Nat → Nat
  | 0 => 1
  | n + 1 => (n + 1) * factorial n

/-- Bernstein polynomial `B_{i,n}(t) = C(n,i) t^i (1-t)^(n-i)` -/
def bernstein (n i : Nat) (t : Rat) : Rat := (choose n i : Rat) * t ^ i * (1 - t) ^ (n - i)

/-- `Σ_i B_{i,n}(t) P_i` for the control polygon `ps` (n = length - 1), textbook definition -/
def bernsteinSum (n : Nat) (t : Rat) : Nat → List V3 → V3
  | _, [] => V3.zero
  | i, p :: ps => (p.scale (bernstein n i t)).add (bernsteinSum n t (i + 1) ps)

def bernsteinCurve (ps : List V3) (t : Rat) : V3 := bernsteinSum (ps.length - 1) t 0 ps

/-! ### `curvetools.split_bezier` (de Casteljau, any degree) -/

/-- one de Casteljau level: `tuple(points[i] * (1.0 - t) + points[i + 1] * t for i in range(n))` -/
def lerpStep (t : Rat) : List V3 → List V3
  | a :: b :: r => ((a.scale (1 - t)).add (b.scale t)) :: lerpStep t (b :: r)
  | _ => []

/-- the inner recursive `split(points)`: `left.append(points[0]); right.append(points[n]); if n == 0: return;
    split(next level)`; the recursion depth (= number of points) is the fuel -/
def splitBezierAux (t : Rat) : Nat → List V3 → List V3 × List V3
  | 0, _ => ([], [])
  | fuel + 1, pts =>
    match pts with
    | [] => ([], [])
    | p :: rest =>
      let lr := splitBezierAux t fuel (lerpStep t (p :: rest))
      (p :: lr.1, rest.getLastD p :: lr.2)

inductive SplitErr where
  | tooFew      -- ValueError("2 or more control points required")
  | range       -- ValueError("parameter `t` must be in range [0, 1]")
  deriving DecidableEq, Repr

/-- `split_bezier(control_points, t)`: `(left, right)`; QUIRK: `right` is collected from the END of the curve towards
    the split point, i.e. the second curve runs backwards -/
def splitBezier (pts : List V3) (t : Rat) : Except SplitErr (List V3 × List V3) :=
  if pts.length < 2 then .error .tooFew
  else if t < 0 ∨ 1 < t then .error .range
  else .ok (splitBezierAux t pts.length pts)

/-! ### `curvetools.quadratic_to_cubic_bezier`, `curvetools.bezier_to_bspline` -/

/-- `start + 2 * (control - start) / 3`, `end + 2 * (control - end) / 3` -/
def quadToCubic (c : Bez3) : Bez4 :=
  ⟨c.p0, c.p0.add (((c.p1.sub c.p0).scale 2).scale (1 / 3)), c.p2.add (((c.p1.sub c.p2).scale 2).scale (1 / 3)), c.p2⟩

/-- the knot vector built by `bezier_to_bspline` for `n` curves: `[0,0,0,0]`, then `(k,k,k)` for `k = 1 … n-1`, then
    `(n,n,n,n)` -/
def bezierToBSplineKnots (n : Nat) : List Rat :=
  [0, 0, 0, 0] ++ (List.range' 1 (n - 1)).flatMap (fun (k : Nat) => [(k : Rat), (k : Rat), (k : Rat)]) ++ [(n : Rat), (n : Rat), (n : Rat), (n : Rat)]

/-- `bezier_to_bspline(curves)` for cubic curves (quadratic ones go through `quadToCubic` first): all points of the
    first curve, then every following curve WITHOUT its first point; order 4 -/
def bezierToBSpline : List Bez4 → Option (List V3 × List Rat)
  | [] => none                                   -- ValueError("one or more Bézier curves required")
  | c :: rest =>
    some ([c.p0, c.p1, c.p2, c.p3] ++ rest.flatMap (fun d => [d.p1, d.p2, d.p3]), bezierToBSplineKnots (rest.length + 1))

/-- "lined up seamlessly": the start point of every following curve is the end point of the previous one (decidable) -/
def seamless : List Bez4 → Bool
  | c :: d :: r => decide (c.p3 = d.p0) && seamless (d :: r)
  | _ => true

/-! ## B-spline basis (`Basis`) -/

/-- `knots[i]` -/
def kget (k : List Rat) (i : Nat) : Rat := k.getD i 0

/-- nondecreasing knot vector (decidable) -/
def nondecreasing : List Rat → Bool
  | a :: b :: r => decide (a ≤ b) && nondecreasing (b :: r)
  | _ => true

/-- "interior knot multiplicity up to the degree" (decidable): among the knots `U[1] … U[m-1]` no value occurs
    `order` times, i.e. `U[j] < U[j + degree]` whenever both indices are interior (clamped end knots `U[0] = … = U[p]`
    are allowed) -/
def multLeDegree (knots : List Rat) (order : Nat) : Bool :=
  (List.range knots.length).all (fun j =>
    j = 0 || decide (knots.length - 1 < j + order) || decide (kget knots j < kget knots (j + (order - 1))))

/-- `bisect.bisect_right(a, x, lo, hi)` and the hand rolled `bisect_right` of bspline.pyx (the same
    loop: `mid = (lo + hi) // 2; if x < a[mid]: hi = mid else: lo = mid + 1`) -/
def bisectRight (a : List Rat) (x : Rat) (lo hi : Nat) : Nat :=
  if _h : lo < hi then
    let mid := (lo + hi) / 2
    if x < kget a mid then bisectRight a x lo mid else bisectRight a x (mid + 1) hi
  else lo
termination_by hi - lo
decreasing_by all_goals omega

/-- `span = 0; while knots[span] <= u and span < count: span += 1` (returns the final `span`) -/
def linearSearch (a : List Rat) (u : Rat) (count span : Nat) : Nat :=
  if _h : kget a span ≤ u ∧ span < count then linearSearch a u count (span + 1) else span
termination_by count - span
decreasing_by omega

/-- `while span > p and knots[span] >= knots[count]: span -= 1` (returns the final `span`): walks back from
    the last span to the last NON-EMPTY one (fix 8d57f80c6 of finding F13) -/
def backSearch (knots : List Rat) (p count : Nat) : Nat → Nat
  | 0 => 0
  | span + 1 =>
    if span + 1 > p ∧ kget knots count ≤ kget knots (span + 1) then backSearch knots p count span else span + 1

/-- `Basis.find_span(u)`; the result can be -1 (linear search, `u < knots[0]`) -/
def findSpan (knots : List Rat) (order count : Nat) (u : Rat) : Int :=
  let p := order - 1
  if kget knots count ≤ u then                               -- special case: u >= knots[count]
    if count = 0 then -1 else (backSearch knots p count (count - 1) : Int)
  else
    if kget knots p = 0 then (bisectRight knots u p count : Int) - 1
    else (linearSearch knots u count 0 : Int) - 1

/-- `left[j] = u - knots[max(0, span + 1 - j)]` -/
def leftAt (knots : List Rat) (span : Nat) (u : Rat) (j : Nat) : Rat := u - kget knots (span + 1 - j)

/-- `right[j] = knots[span + j] - u` -/
def rightAt (knots : List Rat) (span : Nat) (u : Rat) (j : Nat) : Rat := kget knots (span + j) - u

/-- inner loop of A2.2 for one `j`, positions `r, r+1, …` of `N` (the list holds `N[r:j]`):
    `temp = N[r] / (right[r+1] + left[j-r]); N[r] = saved + right[r+1]*temp; saved = left[j-r]*temp`
    and finally `N[j] = saved`.  `none` = ZeroDivisionError. -/
def basisInner (L R : Nat → Rat) (j : Nat) : Nat → Rat → List Rat → Option (List Rat)
  | _, saved, [] => some [saved]
  | r, saved, n :: rest =>
    let den := R (r + 1) + L (j - r)
    if den = 0 then none
    else
      let temp := n / den
      (basisInner L R j (r + 1) (L (j - r) * temp) rest).map (fun t => (saved + R (r + 1) * temp) :: t)

/-- `for j in range(j, j + n)` of A2.2 -/
def basisStages (L R : Nat → Rat) : Nat → Nat → List Rat → Option (List Rat)
  | _, 0, N => some N
  | j, n + 1, N => (basisInner L R j 0 0 N).bind (basisStages L R (j + 1) n)

/-- `Basis.basis_funcs(span, u)` of a non rational basis: the `order` non-zero basis functions -/
def basisFuncs (knots : List Rat) (order span : Nat) (u : Rat) : Option (List Rat) :=
  basisStages (leftAt knots span u) (rightAt knots span u) 1 (order - 1) [1]

/-- `Basis.span_weighting(nbasis, span)` -/
def spanWeighting (weights : List Rat) (order span : Nat) (nbasis : List Rat) : List Rat :=
  let ws := (weights.drop (span + 1 - order)).take order
  let products := List.zipWith (· * ·) nbasis ws
  let s := products.sum
  if s = 0 then nbasis.map (fun _ => 0) else products.map (· / s)

/-- `Basis.basis_funcs` including the rational branch (`weights = []` means non rational) -/
def basisFuncsW (knots weights : List Rat) (order span : Nat) (u : Rat) : Option (List Rat) :=
  (basisFuncs knots order span u).map
    (fun N => if weights.isEmpty then N else spanWeighting weights order span N)

/-- `Basis.basis_vector(t)`: the basis functions of the span, padded with zeros to `count` entries
    (`[0.0] * front + basis + [0.0] * back`; a negative count gives the empty list, as Nat subtraction does) -/
def basisVector (knots weights : List Rat) (order count : Nat) (u : Rat) : Option (List Rat) :=
  match findSpan knots order count u with
  | Int.ofNat span =>
    (basisFuncsW knots weights order span u).map (fun N =>
      List.replicate (span - (order - 1)) 0 ++ N ++ List.replicate (count - span - 1) 0)
  | _ => none    -- negative span: IndexError / garbage in the code, outside the domain

/-- `Σ_i N[i] * cps[first + i]` -/
def combine : List Rat → List V3 → V3
  | n :: ns, p :: ps => (p.scale n).add (combine ns ps)
  | _, _ => V3.zero

/-- `Evaluator.point(u)` (A3.1) without the `isclose(u, max_t)` snapping (the harness passes exact
    parameters); error = ZeroDivisionError -/
def evalPoint (knots weights : List Rat) (cps : List V3) (order : Nat) (u : Rat) : Option V3 :=
  let count := cps.length
  match findSpan knots order count u with
  | Int.ofNat span =>
    (basisFuncsW knots weights order span u).map (fun N => combine N (cps.drop (span + 1 - order)))
  | _ => none

/-! ### derivatives of the basis functions (`Basis.basis_funcs_derivatives`, The NURBS Book A2.3) and of the curve
    (`Evaluator.derivative`, A3.2 / A4.2) -/

/-- first loop nest of A2.3: all stages of the triangular scheme, `ndu[r][j]` (upper triangle, diagonal included) is
    entry `r` of stage `j`; the arithmetic per stage is that of A2.2 (`temp = ndu[r][j-1] / ndu[j][r]` with the lower
    triangle entry `ndu[j][r] = right[r+1] + left[j-r]`).  `none` = ZeroDivisionError. -/
def basisStagesAll (L R : Nat → Rat) : Nat → Nat → List Rat → Option (List (List Rat))
  | _, 0, N => some [N]
  | j, n + 1, N => (basisInner L R j 0 0 N).bind (fun M => (basisStagesAll L R (j + 1) n M).map (N :: ·))

/-- the table `ndu[row][col]` after the first loop nest -/
def nduAt (L R : Nat → Rat) (tbl : List (List Rat)) (row col : Nat) : Rat :=
  if row ≤ col then (tbl.getD col []).getD row 0 else R (col + 1) + L (row - col)

/-- `a[s][i] = v` -/
def setF (f : Nat → Rat) (i : Nat) (v : Rat) : Nat → Rat := fun j => if j = i then v else f j

/-- body of `for k in range(1, n + 1)` for one function index `r`: returns `d` (= `derivatives[k][r]` before the final
    scaling) and the row `a[s2]` it wrote; `as1`, `as2` are the rows `a[s1]`, `a[s2]` on entry -/
def derStep (ndu : Nat → Nat → Rat) (p r k : Nat) (as1 as2 : Nat → Rat) : Rat × (Nat → Rat) :=
  let rk : Int := (r : Int) - k
  let pk := p - k
  let st0 : (Nat → Rat) × Rat :=
    if k ≤ r then
      let v := as1 0 / ndu (pk + 1) (r - k)
      (setF as2 0 v, v * ndu (r - k) pk)
    else (as2, 0)
  let j1 : Nat := if -1 ≤ rk then 1 else (-rk).toNat
  let j2 : Nat := if (r : Int) - 1 ≤ pk then k - 1 else p - r
  let st1 := (List.range' j1 (j2 + 1 - j1)).foldl (fun (acc : (Nat → Rat) × Rat) j =>
      let v := (as1 j - as1 (j - 1)) / ndu (pk + 1) (rk + j).toNat
      (setF acc.1 j v, acc.2 + v * ndu (rk + j).toNat pk)) st0
  let st2 : (Nat → Rat) × Rat :=
    if r ≤ pk then
      let v := -(as1 (k - 1)) / ndu (pk + 1) r
      (setF st1.1 k v, st1.2 + v * ndu r pk)
    else st1
  (st2.2, st2.1)

/-- the `k` loop for one `r` (rows are swapped after every `k`): `ds` collects `derivatives[1..n][r]` -/
def derLoopK (ndu : Nat → Nat → Rat) (p r : Nat) : Nat → Nat → (Nat → Rat) → (Nat → Rat) → List Rat × (Nat → Rat) × (Nat → Rat)
  | _, 0, as1, as2 => ([], as1, as2)
  | k, fuel + 1, as1, as2 =>
    let st := derStep ndu p r k as1 as2
    let rest := derLoopK ndu p r (k + 1) fuel st.2 as1      -- s1, s2 = s2, s1
    (st.1 :: rest.1, rest.2.1, rest.2.2)

/-- the `r` loop: the two rows of `a` are allocated ONCE and survive from one `r` to the next (`a[0][0] = 1.0` is the
    only reset); result: for every `r` the list `derivatives[1..n][r]` (unscaled) -/
def derLoopR (ndu : Nat → Nat → Rat) (p n : Nat) : List Nat → (Nat → Rat) → (Nat → Rat) → List (List Rat)
  | [], _, _ => []
  | r :: rs, row0, row1 =>
    let res := derLoopK ndu p r 1 n (setF row0 0 1) row1
    -- physical rows after n swaps
    let phys := if n % 2 = 0 then (res.2.1, res.2.2) else (res.2.2, res.2.1)
    res.1 :: derLoopR ndu p n rs phys.1 phys.2

/-- final scaling `r = p; for k: derivatives[k][j] *= r; r *= (p - k)` : factor of row `k` -/
def derFactor (p : Nat) : Nat → Rat
  | 0 => 1
  | k + 1 => derFactor p k * ((p : Rat) - k)

/-- `Basis.basis_funcs_derivatives(span, u, n)` (both twins): rows `0 … min(n, p)`, each with `order` entries -/
def basisFuncsDerivatives (knots : List Rat) (order span : Nat) (u : Rat) (n : Nat) : Option (List (List Rat)) :=
  let p := order - 1
  let n := min n p
  let L := leftAt knots span u
  let R := rightAt knots span u
  (basisStagesAll L R 1 p [1]).map (fun tbl =>
    let ndu := nduAt L R tbl
    let cols := derLoopR ndu p n (List.range order) (fun _ => 1) (fun _ => 1)    -- cols[r][k-1]
    ((List.range order).map (fun j => ndu j p)) ::
      (List.range' 1 n).map (fun k => cols.map (fun col => col.getD (k - 1) 0 * derFactor p k)))

/-- `Evaluator.derivative(u, n)` (A3.2, for weights A4.2): point and derivatives `0 … n`; the harness passes
    `n <= degree` -/
def evalDerivative (knots weights : List Rat) (cps : List V3) (order : Nat) (u : Rat) (n : Nat) : Option (List V3) :=
  match findSpan knots order cps.length u with
  | Int.ofNat span =>
    (basisFuncsDerivatives knots order span u n).bind (fun ders =>
      let pts := cps.drop (span + 1 - order)
      if weights.isEmpty then
        some ((List.range (n + 1)).map (fun k => combine (ders.getD k []) pts))
      else
        let ws := (weights.drop (span + 1 - order)).take order
        let CKw := (List.range (n + 1)).map (fun k => combine (List.zipWith (· * ·) (ders.getD k []) ws) pts)
        let wders := (List.range (n + 1)).map (fun k => (List.zipWith (· * ·) (ders.getD k []) ws).sum)
        let w0 := wders.getD 0 0
        if w0 = 0 then none
        else
          some ((List.range (n + 1)).foldl (fun (CK : List V3) k =>
            let v := (List.range' 1 k).foldl (fun (v : V3) i =>
              v.sub ((CK.getD (k - i) V3.zero).scale ((choose k i : Rat) * wders.getD i 0))) (CKw.getD k V3.zero)
            CK ++ [v.scale (1 / w0)]) []))
  | _ => none

/-! ### Cox - de Boor reference -/

/-- Cox - de Boor recursion over an arbitrary degree-0 layer `base`; `0/0 := 0` as in the textbook -/
def cdb (U : List Rat) (u : Rat) (base : Nat → Rat) : Nat → Nat → Rat
  | 0, i => base i
  | p + 1, i =>
    let d1 := kget U (i + p + 1) - kget U i
    let d2 := kget U (i + p + 2) - kget U (i + 1)
    (if d1 = 0 then 0 else (u - kget U i) / d1 * cdb U u base p i)
    + (if d2 = 0 then 0 else (kget U (i + p + 2) - u) / d2 * cdb U u base p (i + 1))

/-- textbook basis function `N_{i,p}(u)` (half open spans) -/
def coxDeBoor (U : List Rat) (u : Rat) (p i : Nat) : Rat :=
  cdb U u (fun i => if kget U i ≤ u ∧ u < kget U (i + 1) then 1 else 0) p i

/-- the polynomial piece of `N_{i,p}` that belongs to knot span `s` (degree-0 layer = `i = s`);
    equal to `coxDeBoor` on `[U_s, U_{s+1})` and its continuation to the closed span (the value the
    curve takes at the end of the domain) -/
def spanPiece (U : List Rat) (u : Rat) (s p i : Nat) : Rat :=
  cdb U u (fun i => if i = s then 1 else 0) p i

/-- proof support: the `q+1` polynomial pieces of degree `q` that are non zero on span `s`
    (what `N[0..q]` holds after stage `q` of A2.2) -/
def pieceList (U : List Rat) (u : Rat) (s q : Nat) : List Rat :=
  (List.range' 0 (q + 1)).map (fun r => spanPiece U u s q (s - q + r))

/-- proof support: first summand of the Cox - de Boor recursion for `N_{a+r, q+1}` (what `saved`
    holds when the inner loop of A2.2 reaches position `r`) -/
def firstTerm (U : List Rat) (u : Rat) (s q a r : Nat) : Rat :=
  if kget U (a + r + q + 1) - kget U (a + r) = 0 then 0
  else (u - kget U (a + r)) / (kget U (a + r + q + 1) - kget U (a + r)) * spanPiece U u s q (a + r)

/-- `Σ_{i < count} N_{i,p}(u) P_i` with `N` taken from `f` -/
def curveSum (f : Nat → Rat) : Nat → List V3 → V3
  | _, [] => V3.zero
  | i, p :: ps => (p.scale (f i)).add (curveSum f (i + 1) ps)

/-- textbook curve point for `u` inside a half open span -/
def curveRef (U : List Rat) (cps : List V3) (p : Nat) (u : Rat) : V3 :=
  curveSum (coxDeBoor U u p) 0 cps

/-! ### generic `Bezier` class (`bezier.py`, any number of definition points; documented for more than 2) -/

/-- the parameter snapping of `Bezier.point` / `Bezier.derivative`: `if (1.0 - t) < 5e-6: t = 1.0` -/
def bezSnap (t : Rat) : Rat := if 1 - t < 5 / 1000000 then 1 else t

/-- `Bezier.point(t)`: `Σ bernstein_basis(n-1, i, t) * pts[i]` after the range check and the snapping -/
def bezierPoint (pts : List V3) (t : Rat) : Option V3 :=
  if t < 0 ∨ 1 < t then none            -- ValueError("Parameter t not in range [0, 1]")
  else some (bernsteinCurve pts (bezSnap t))

/-- coefficient of `pts[i]` in the first derivative for `0 < t < 1`: `(i - n0*t) / (t*(1-t)) * bernstein_basis` -/
def bezD1Coeff (n0 : Nat) (t : Rat) (i : Nat) : Rat := ((i : Rat) - n0 * t) / (t * (1 - t)) * bernstein n0 i t

/-- … in the second derivative: `((i-n0*t)² - n0*t² - i*(1-2t)) / (t²*(1-t)²) * bernstein_basis` -/
def bezD2Coeff (n0 : Nat) (t : Rat) (i : Nat) : Rat :=
  ((((i : Rat) - n0 * t) * ((i : Rat) - n0 * t) - n0 * (t * t) - i * (1 - 2 * t)) / (t * t * (1 - t) * (1 - t))) * bernstein n0 i t

/-- `Bezier.derivative(t)`: `(point, 1st derivative, 2nd derivative)`; closed formulas at `t == 0` and `t == 1`, the
    weighted Bernstein sums between -/
def bezierDerivative (pts : List V3) (t : Rat) : Option (V3 × V3 × V3) :=
  if t < 0 ∨ 1 < t then none
  else
    let t := bezSnap t
    let n0 := pts.length - 1
    let P := fun i => pts.getD i V3.zero
    let point := bernsteinCurve pts t
    if t = 0 then
      some (point, ((P 1).sub (P 0)).scale n0, (((P 0).sub ((P 1).scale 2)).add (P 2)).scale ((n0 : Rat) * ((n0 - 1 : Nat) : Rat)))
    else if t = 1 then
      some (point, ((P n0).sub (P (n0 - 1))).scale n0,
        (((P n0).sub ((P (n0 - 1)).scale 2)).add (P (n0 - 2))).scale ((n0 : Rat) * ((n0 - 1 : Nat) : Rat)))
    else
      some (point, curveSum (bezD1Coeff n0 t) 0 pts, curveSum (bezD2Coeff n0 t) 0 pts)

/-! ### `degree_elevation` (The NURBS Book A5.9): the coefficient table and the path of a single Bézier segment -/

/-- first loop nest of A5.9: rows `1 … ph//2`: `bezalfs[i, j] = inv * binom(p, j) * binom(t, i - j)` for
    `max(0, i - t) <= j <= min(p, i)`, `inv = 1.0 / binom(ph, i)`; the other entries stay `0` (`np.zeros`) -/
def bezalfsFirst (p t i j : Nat) : Rat :=
  if i - t ≤ j ∧ j ≤ min p i then (1 / (choose (p + t) i : Rat)) * (choose p j : Rat) * (choose t (i - j) : Rat) else 0

/-- the whole table: `bezalfs[0, 0] = bezalfs[ph, p] = 1.0`, rows `1 … ph//2` computed, rows `ph//2 + 1 … ph - 1` copied
    by symmetry `bezalfs[i, j] = bezalfs[ph - i, p - j]` (inside the same `j` range) -/
def bezalfs (p t i j : Nat) : Rat :=
  let ph := p + t
  if i = 0 then (if j = 0 then 1 else 0)
  else if i = ph then (if j = p then 1 else 0)
  else if i ≤ ph / 2 then bezalfsFirst p t i j
  else if ph < i then 0
  else if i - t ≤ j ∧ j ≤ min p i then bezalfsFirst p t (ph - i) (p - j) else 0

/-- `degree_elevation(spline, t)` for a spline that is ONE Bézier segment (`count = order`, clamped knots `ua … ub`): the
    big loop runs once without knot insertion / removal: `Qw[0] = Pw[0]`, `Qw[i] = ebpts[i] = Σ_j bezalfs[i, j]·bpts[j]`
    for `i = 1 … ph`, knots `[ua]*(ph+1) + [ub]*(ph+1)` (entries of `bezalfs` outside the inner `j` range are 0) -/
def elevateBezier (bpts : List V3) (t : Nat) (ua ub : Rat) : List V3 × List Rat :=
  let p := bpts.length - 1
  let ph := p + t
  (bpts.getD 0 V3.zero :: (List.range' 1 ph).map (fun i => curveSum (bezalfs p t i) 0 bpts),
   List.replicate (ph + 1) ua ++ List.replicate (ph + 1) ub)

/-! ### `BSpline.bezier_decomposition` (The NURBS Book A5.6), non rational clamped splines -/

/-- `while b < m and math.isclose(knots[b + 1], knots[b]): b += 1` (exact comparison: the harness passes exact knots) -/
def decompAdvance (knots : List Rat) (m : Nat) : Nat → Nat → Nat
  | 0, b => b
  | fuel + 1, b => if b < m ∧ kget knots (b + 1) = kget knots b then decompAdvance knots m fuel (b + 1) else b

/-- `for k in range(p, s - 1, -1): bezier_points[k] = bezier_points[k]*alpha + bezier_points[k-1]*(1.0 - alpha)` with
    `alpha = alphas[k - s]`: descending in place, so every right hand side reads the OLD `bezier_points[k-1]` -/
def decompInsertOnce (alphas : Nat → Rat) (p s : Nat) (bez : List V3) : List V3 :=
  (List.range bez.length).map (fun k =>
    if s ≤ k ∧ k ≤ p then ((bez.getD k V3.zero).scale (alphas (k - s))).add ((bez.getD (k - 1) V3.zero).scale (1 - alphas (k - s)))
    else bez.getD k V3.zero)

/-- the `for j in range(1, r + 1)` loop: returns the refined segment and `next_bezier_points` (as a function of the index) -/
def decompInsertLoop (alphas : Nat → Rat) (p mult r : Nat) (more : Bool) :
    Nat → Nat → List V3 → (Nat → V3) → List V3 × (Nat → V3)
  | 0, _, bez, nxt => (bez, nxt)
  | fuel + 1, j, bez, nxt =>
    let bez' := decompInsertOnce alphas p (mult + j) bez
    let nxt' := if more then (fun i => if i = r - j then bez'.getD p V3.zero else nxt i) else nxt
    decompInsertLoop alphas p mult r more fuel (j + 1) bez' nxt'

/-- the `while b < m` loop of A5.6; `fuel` bounds the number of passes (≤ number of knots) -/
def decompLoop (knots : List Rat) (cps : List V3) (p m : Nat) : Nat → Nat → Nat → List V3 → List (List V3)
  | 0, _, _, _ => []
  | fuel + 1, a, b0, bez =>
    if ¬ b0 < m then []
    else
      let b := decompAdvance knots m (m + 1) b0
      let mult := b - b0 + 1
      let more := decide (b < m)
      let numer := kget knots b - kget knots a
      -- alphas[j - mult - 1] = numer / (knots[a + j] - knots[a]) for j = p … mult + 1
      let alphas : Nat → Rat := fun idx => numer / (kget knots (a + (idx + mult + 1)) - kget knots a)
      let res := if mult < p then decompInsertLoop alphas p mult (p - mult) more (p - mult) 1 bez (fun _ => V3.zero)
                 else (bez, fun _ => V3.zero)
      if more then
        let nxt : Nat → V3 := fun i => if p - mult ≤ i ∧ i ≤ p then cps.getD (b - p + i) V3.zero else res.2 i
        res.1 :: decompLoop knots cps p m fuel b (b + 1) ((List.range (p + 1)).map nxt)
      else [res.1]

inductive DecompErr where
  | rational | notClamped
  deriving DecidableEq, Repr

/-- `BSpline.bezier_decomposition()`: the list of the yielded Bézier segments (`degree + 1` points each) -/
def bezierDecomposition (knots weights : List Rat) (cps : List V3) (order : Nat) : Except DecompErr (List (List V3)) :=
  let p := order - 1
  let clamped := ((knots.take order).all (· = kget knots 0)) && (((knots.drop (knots.length - order)).all (· = knots.getLastD 0)))
  if ¬ weights.isEmpty then .error .rational
  else if ¬ clamped then .error .notClamped
  else
    let m := cps.length - 1 + p + 1
    .ok (decompLoop knots cps p m (m + 1) p (p + 1) (cps.take (p + 1)))

/-! ## knot insertion, reversal (`BSpline.insert_knot`, `BSpline.reverse`) -/

inductive InsErr where
  | valueError      -- DXFValueError("Invalid position t")
  | zeroDivision
  deriving DecidableEq, Repr

/-- `new_point(index)`: `a = (t - knots[i]) / (knots[i+p] - knots[i]); cp[i-1]*(1-a) + cp[i]*a` -/
def insNewPoint (knots : List Rat) (cps : List V3) (p : Nat) (t : Rat) (i : Nat) : Option V3 :=
  let den := kget knots (i + p) - kget knots i
  if den = 0 then none
  else
    let a := (t - kget knots i) / den
    some (((cps.getD (i - 1) V3.zero).scale (1 - a)).add ((cps.getD i V3.zero).scale a))

/-- `BSpline.insert_knot(t)` for a non rational spline whose knot vector starts at 0:
    returns the new control points and the new knot vector -/
def insertKnot (knots : List Rat) (cps : List V3) (order : Nat) (t : Rat) :
    Except InsErr (List V3 × List Rat) :=
  let p := order - 1
  let maxT := knots.getLastD 0
  if t ≤ 0 ∨ maxT ≤ t then .error .valueError
  else
    match findSpan knots order cps.length t with
    | Int.ofNat k =>
      if k < p then .error .valueError
      else
        match (List.range' (k + 1 - p) p).mapM (insNewPoint knots cps p t) with
        | none => .error .zeroDivision
        | some qs =>
          -- cpoints[k - p + 1 : k] = qs ; knots.insert(k + 1, t)
          .ok (cps.take (k + 1 - p) ++ qs ++ cps.drop k, knots.take (k + 1) ++ t :: knots.drop (k + 1))
    | _ => .error .valueError

/-- `BSpline._insert_knot_rational(t)`: Boehm's formula on the homogeneous points `(x·w, y·w, z·w, w)`
    (`to_homogeneous_points`), then back by `Vec3(point[:3]) / w` (`from_homogeneous_points`, ZeroDivisionError for a
    new weight 0).  The numpy 4-vectors are read component-wise: the `xyz·w` part and the `w` part (carried in the
    x-slot of a `V3`) go through the SAME `insertKnot`; result `(control points, weights, knots)` -/
def insertKnotRational (knots weights : List Rat) (cps : List V3) (order : Nat) (t : Rat) :
    Except InsErr (List V3 × List Rat × List Rat) :=
  let H := List.zipWith (fun (v : V3) (w : Rat) => v.scale w) cps weights
  let W := weights.map (fun w => (⟨w, 0, 0⟩ : V3))
  match insertKnot knots H order t, insertKnot knots W order t with
  | .ok (H', K'), .ok (W', _) =>
    let w' := W'.map (·.x)
    if w'.any (fun w => decide (w = 0)) then .error .zeroDivision
    else .ok (List.zipWith (fun (h : V3) (w : Rat) => h.scale (1 / w)) H' w', w', K')
  | .error e, _ => .error e
  | _, .error e => .error e

/-- `BSpline.knot_refinement(u)`: `for t in u: spline = spline.insert_knot(t)` (non rational); the first error
    is propagated -/
def knotRefinement (knots : List Rat) (cps : List V3) (order : Nat) : List Rat → Except InsErr (List V3 × List Rat)
  | [] => .ok (cps, knots)
  | t :: ts =>
    match insertKnot knots cps order t with
    | .ok (cps', knots') => knotRefinement knots' cps' order ts
    | .error e => .error e

/-- `BSpline.knot_refinement(u)` of a RATIONAL spline: `insert_knot` dispatches to `_insert_knot_rational` -/
def knotRefinementRational (knots weights : List Rat) (cps : List V3) (order : Nat) :
    List Rat → Except InsErr (List V3 × List Rat × List Rat)
  | [] => .ok (cps, weights, knots)
  | t :: ts =>
    match insertKnotRational knots weights cps order t with
    | .ok (cps', weights', knots') => knotRefinementRational knots' weights' cps' order ts
    | .error e => .error e

/-- `open_uniform_knot_vector(count, order, normalize)`: `[0.0]*order`, then `(1.0 + v)/max_value for v in range(count-order)`,
    then the tail (`[1.0]*order` normalised, `[1.0 + k]*order` otherwise); the knots `BSpline.__init__` uses when none
    are given (`normalize=True`) -/
def openUniformKnots (count order : Nat) (normalize : Bool) : List Rat :=
  let k := count - order
  let maxValue : Rat := if normalize then ((count - order + 1 : Nat) : Rat) else 1
  let tail : Rat := if normalize then 1 else 1 + (k : Rat)
  List.replicate order 0 ++ (List.range k).map (fun (v : Nat) => (1 + (v : Rat)) / maxValue) ++ List.replicate order tail

/-- `uniform_knot_vector(count, order, normalize)` -/
def uniformKnots (count order : Nat) (normalize : Bool) : List Rat :=
  let maxValue : Rat := if normalize then ((count + order - 1 : Nat) : Rat) else 1
  (List.range (count + order)).map (fun (v : Nat) => (v : Rat) / maxValue)

/-- `normalize_knots` -/
def normalizeKnots (knots : List Rat) : List Rat :=
  let mn := kget knots 0
  let mx := knots.getLastD 0 - mn
  knots.map (fun v => (v - mn) / mx)

/-- the knot vector of `BSpline.reverse()`: `1.0 - k for k in reversed(normalize_knots(knots))` -/
def reverseKnots (knots : List Rat) : List Rat := (normalizeKnots knots).reverse.map (fun k => 1 - k)

/-- `BSpline.reverse()`: `BSpline(reversed(control_points), order, reverse_knots(), reversed(weights))`
    (the new knot vector starts at `1 - 1 = 0`, the constructor does not rescale it) -/
def reverseSpline (knots weights : List Rat) (cps : List V3) : List Rat × List Rat × List V3 :=
  (reverseKnots knots, weights.reverse, cps.reverse)

/-- the parameter of the reversed spline that belongs to `u`: `1 - (u - k_0)/(k_last - k_0)` -/
def reverseParam (knots : List Rat) (u : Rat) : Rat := 1 - (u - kget knots 0) / (knots.getLastD 0 - kget knots 0)

/-! ## `split_bspline` (`BSpline.split`) -/

inductive BsErr where
  | valueError        -- ValueError
  | dxfValueError     -- DXFValueError
  | zeroDivision
  deriving DecidableEq, Repr

/-- the checks and the knot normalisation of `BSpline.__init__` (knots given, no weights) -/
def mkBSpline (cps : List V3) (order : Nat) (knots : List Rat) : Except BsErr (List V3 × List Rat) :=
  if cps.length < order then .error .dxfValueError          -- "got {count} control points, need {order} or more"
  else if knots.length ≠ cps.length + order then .error .valueError
  else .ok (cps, if kget knots 0 ≠ 0 then normalizeKnots knots else knots)

/-- `split_bspline(spline, t)` for a non rational spline: clamp at `t` by `knot_refinement([t] * order)`, cut the knot
    vector at `np.searchsorted(knots, t, side="right")` (= `bisect_right` on the whole vector), give the second half
    `order` copies of `t` in front, cut the control points at `len(knots1) - order`; both halves go through the
    `BSpline` constructor (the second one is re-normalised to `[0, 1]`) -/
def splitBSpline (knots : List Rat) (cps : List V3) (order : Nat) (t : Rat) :
    Except BsErr ((List V3 × List Rat) × (List V3 × List Rat)) :=
  let tol : Rat := 1 / 1000000000000
  if t < tol then .error .valueError                               -- "t must be greater than 0"
  else if knots.getLastD 0 - tol < t then .error .valueError        -- "t must be smaller than max_t"
  else
    match knotRefinement knots cps order (List.replicate order t) with
    | .error .valueError => .error .dxfValueError
    | .error .zeroDivision => .error .zeroDivision
    | .ok (cps', knots') =>
      let span := bisectRight knots' t 0 knots'.length
      let idx := span - order
      match mkBSpline (cps'.take idx) order (knots'.take span) with
      | .error e => .error e
      | .ok s1 =>
        match mkBSpline (cps'.drop idx) order (List.replicate order t ++ knots'.drop span) with
        | .error e => .error e
        | .ok s2 => .ok (s1, s2)

/-- `BSpline.__init__` with weights: additionally `Basis.__init__` raises ValueError("invalid weight count") -/
def mkBSplineW (cps : List V3) (order : Nat) (knots weights : List Rat) : Except BsErr (List V3 × List Rat × List Rat) :=
  if cps.length < order then .error .dxfValueError
  else if knots.length ≠ cps.length + order then .error .valueError
  else if weights.length ≠ 0 ∧ weights.length ≠ cps.length then .error .valueError
  else .ok (cps, weights, if kget knots 0 ≠ 0 then normalizeKnots knots else knots)

/-- `split_bspline(spline, t)` for a RATIONAL spline: as `splitBSpline`, the refinement goes through
    `_insert_knot_rational` and the weights are cut like the control points -/
def splitBSplineRational (knots weights : List Rat) (cps : List V3) (order : Nat) (t : Rat) :
    Except BsErr ((List V3 × List Rat × List Rat) × (List V3 × List Rat × List Rat)) :=
  let tol : Rat := 1 / 1000000000000
  if t < tol then .error .valueError
  else if knots.getLastD 0 - tol < t then .error .valueError
  else
    match knotRefinementRational knots weights cps order (List.replicate order t) with
    | .error .valueError => .error .dxfValueError
    | .error .zeroDivision => .error .zeroDivision
    | .ok (cps', weights', knots') =>
      let span := bisectRight knots' t 0 knots'.length
      let idx := span - order
      match mkBSplineW (cps'.take idx) order (knots'.take span) (weights'.take idx) with
      | .error e => .error e
      | .ok s1 =>
        match mkBSplineW (cps'.drop idx) order (List.replicate order t ++ knots'.drop span) (weights'.drop idx) with
        | .error e => .error e
        | .ok s2 => .ok (s1, s2)

/-! ## global interpolation (`unconstrained_global_bspline_interpolation`), parametrisation, averaged knots -/

/-- `parametrize._normalize_distances(distances)`: `[0.0, s_1/total, …, 1.0]`, `[]` for a total length below 1e-12.  The
    distances themselves (`|q_{k+1} − q_k|` for "chord", its square root for "centripetal") are inputs: square roots
    stay outside the rational model -/
def normalizeDistances (ds : List Rat) : List Rat :=
  let total := ds.sum
  if (if total < 0 then -total else total) ≤ 1 / 1000000000000 then []
  else
    let step := (ds.take (ds.length - 1)).foldl (fun (acc : Rat × List Rat) d => (acc.1 + d, acc.2 ++ [(acc.1 + d) / total])) (0, [0])
    step.2 ++ [1]

/-- `uniform_t_vector(length)` -/
def uniformTVector (length : Nat) : List Rat := (List.range length).map (fun (t : Nat) => (t : Rat) / ((length - 1 : Nat) : Rat))

/-- `averaged_knots_unconstrained(n, p, t)`: `[0]*(p+1)`, `sum(t[j:j+p])/p` for `j = 1 … n-p`, `[1]*(p+1)` -/
def averagedKnotsUnconstrained (n p : Nat) (t : List Rat) : List Rat :=
  List.replicate (p + 1) 0 ++ (List.range' 1 (n - p)).map (fun j => ((t.drop j).take p).sum / (p : Rat)) ++ List.replicate (p + 1) 1

/-- `unconstrained_global_bspline_interpolation(fit_points, degree, t_vector)` with the linear solver as a PARAMETER
    (`solve rows rhs` stands for `_get_best_solver(rows, degree).solve_matrix(rhs)`): knots from the parametrisation, one
    collocation row `Basis.basis_vector(t)` per parameter, control points = the solver's answer -/
def globalInterpolation (solve : List (List Rat) → List V3 → List V3) (fit : List V3) (p : Nat) (tvec : List Rat) :
    Option (List V3 × List Rat) :=
  let knots := averagedKnotsUnconstrained (fit.length - 1) p tvec
  match tvec.mapM (fun t => basisVector knots [] (p + 1) fit.length t) with
  | none => none
  | some rows => some (solve rows fit, knots)

/-! ## bulge (`bulge.py`) -/

/-- closed form of `bulge_center(start, end, bulge)`:
    `start + from_angle(angle(start,end) + (π/2 − 2·atan b), dist·(1+b²)/4/b)` with
    `cos(2 atan b) = (1−b²)/(1+b²)`, `sin(2 atan b) = 2b/(1+b²)` and the chord direction
    `(dx, dy)/dist` expanded: the distance cancels and the centre is rational in the inputs. -/
def bulgeCenter (sx sy ex ey b : Rat) : Rat × Rat :=
  let dx := ex - sx
  let dy := ey - sy
  let k := (1 - b * b) / (4 * b)
  (sx + (dx / 2 - k * dy), sy + (k * dx + dy / 2))

/-- square of `bulge_radius` = `(dist·(1+b²)/4/b)²` with `dist² = dx²+dy²` -/
def bulgeRadiusSq (sx sy ex ey b : Rat) : Rat :=
  let dx := ex - sx
  let dy := ey - sy
  (dx * dx + dy * dy) * (1 + b * b) * (1 + b * b) / (16 * b * b)

/-- the point of the arc farthest from the chord: chord midpoint + sagitta (`b·dist/2`) to the right
    of the direction start → end for positive bulge (DXF: positive bulge = counter clockwise arc) -/
def bulgeApex (sx sy ex ey b : Rat) : Rat × Rat :=
  let dx := ex - sx
  let dy := ey - sy
  ((sx + ex) / 2 + b / 2 * dy, (sy + ey) / 2 - b / 2 * dx)

def dist2 (a b : Rat × Rat) : Rat := (a.1 - b.1) * (a.1 - b.1) + (a.2 - b.2) * (a.2 - b.2)

end EzdxfVerif.Curve

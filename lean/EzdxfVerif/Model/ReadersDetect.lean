/-
C08  Format dispatch: how each reader decides (DXF version, text encoding) of an ASCII DXF file, as decision-logic
models over the raw tag stream, plus `scan_params` of the Binary DXF loader over bytes.

  dxfInfo      lldxf/validator.py `_detect_dxf_info` (dxf_info) + filemanagement.py `dxf_stream_info` (utf-8 rule):
               ezdxf.readfile, iterdxf.modelspace
  indexInfo    lldxf/fileindex.py `load` (header part): iterdxf.opendxf
  spInfo       addons/iterdxf.py `single_pass_modelspace`, first loop
  recoverEnc   recover.py `detect_encoding`: recover.read / readfile
  toEncoding   tools/codepage.py `toencoding` over the regenerated table `codepage_to_encoding`
  binScan      lldxf/tagger.py `binary_tags_loader.scan_params` over the bytes of a Binary DXF file

Encodings are Python codec names as the code spells them, except that "utf8" (recover, binary loader) and "utf-8"
(the others) are both written "utf-8".  Core Lean only.
-/
import EzdxfVerif.Model.Readers

namespace EzdxfVerif.Readers

structure Info where
  version : String
  encoding : String
  deriving DecidableEq, Repr

/-- `DXFInfo()` / `FileStructure()` / the locals of single_pass_modelspace: R12, cp1252 -/
def Info.default : Info := ⟨"AC1009", "cp1252"⟩

/-- `toencoding(dxfcodepage)`: the first table entry whose code page number the value ends with, else cp1252 -/
def toEncoding (table : List (String × String)) (cp : String) : String :=
  match table.find? (fun p => p.1.toList.isSuffixOf cp.toList) with
  | some p => p.2
  | none => "cp1252"

/-- `if version >= "AC1021": encoding = "utf-8"` (R2007 and later) -/
def Info.final (i : Info) : Info := if i.version < "AC1021" then i else { i with encoding := "utf-8" }

/-! ## dxf_info -/

/-- the five variables `DXFInfo.set_header_var` counts (`EXPECTED_COUNT = 5`) -/
def isCounted (n : String) : Bool :=
  n == "$ACADVER" || n == "$DWGCODEPAGE" || n == "$HANDSEED" || n == "$INSUNITS" || n == "$INSBASE"

def setVar (tbl : List (String × String)) (i : Info) (name val : String) : Info :=
  if name = "$ACADVER" then { i with version := val }
  else if name = "$DWGCODEPAGE" then { i with encoding := toEncoding tbl val }
  else i

/-- where `_detect_dxf_info` stands between two `next(tagger)` calls -/
inductive DState where
  | scan                       -- top of the `while` loop
  | value (name : String)      -- `code, value = next(tagger)` after a `(9, name)` tag
  | ptY                        -- `y = float(next(tagger).value)` of a point value
  | ptZ                        -- `tag = next(tagger)`: a z coordinate (code 30) or the next tag (`undo_tag`)
  deriving DecidableEq, Repr

/-- the `while tag != (0, "ENDSEC")` loop of `_detect_dxf_info` as a state machine over the tag stream (the stream
    ends: StopIteration in the code, the decision so far here) -/
def infoLoop (tbl : List (String × String)) : List Tag → DState → Info → Nat → Info
  | [], _, i, _ => i
  | t :: r, .scan, i, found =>
    if t.code ≠ 9 then (if t = tENDSEC then i else infoLoop tbl r .scan i found)
    else infoLoop tbl r (.value t.val) i found
  | v :: r, .value name, i, found =>
    let val := if v.code = 10 then "<point>" else v.val          -- str(Vec3(..)) for a point value: never a version
    let i' := setVar tbl i name val
    let found' := if isCounted name then found + 1 else found
    if found' ≥ 5 then i' else infoLoop tbl r (if v.code = 10 then .ptY else .scan) i' found'
  | _y :: r, .ptY, i, found => infoLoop tbl r .ptZ i found
  | t :: r, .ptZ, i, found =>
    if t.code = 30 then infoLoop tbl r .scan i found
    else if t.code ≠ 9 then (if t = tENDSEC then i else infoLoop tbl r .scan i found)       -- `undo_tag`
    else infoLoop tbl r (.value t.val) i found

/-- `dxf_info(stream)` + `dxf_stream_info`: comments skipped, nothing read behind EOF (ascii_tags_loader) -/
def dxfInfo (tbl : List (String × String)) (f : List Tag) : Info :=
  match asciiLoad f with
  | t1 :: t2 :: r =>
    if t1 = tSECTION ∧ t2 = ⟨2, "HEADER"⟩ then (infoLoop tbl r .scan Info.default 0).final else Info.default.final
  | _ => Info.default

/-! ## fileindex.load (header variables) -/

structure IdxI where
  header : Bool
  prevCode : Int
  prevVal : String
  pending : Option Bool        -- inside `load_header_var()`: `true` $ACADVER, `false` $DWGCODEPAGE
  info : Info

def idxInfoLoop (tbl : List (String × String)) : List Tag → IdxI → Info
  | [], st => st.info                                  -- no EOF: DXFStructureError in the code
  | t :: r, st =>
    match st.pending with
    | some isVer =>
      let i' : Info := if isVer then { st.info with version := t.val } else { st.info with encoding := toEncoding tbl t.val }
      idxInfoLoop tbl r { st with pending := none, info := i' }
    | none =>
      if st.header ∧ t.code = 9 then
        if t.val = "$ACADVER" then idxInfoLoop tbl r { st with pending := some true }
        else if t.val = "$DWGCODEPAGE" then idxInfoLoop tbl r { st with pending := some false }
        else idxInfoLoop tbl r st
      else if t.code = 0 then
        if t.val = "EOF" then st.info else idxInfoLoop tbl r { st with prevCode := 0, prevVal := t.val }
      else if t.code = 2 ∧ st.prevCode = 0 ∧ st.prevVal = "SECTION" then
        idxInfoLoop tbl r { st with header := t.val = "HEADER", prevCode := 2, prevVal := t.val }
      else idxInfoLoop tbl r { st with prevCode := t.code, prevVal := t.val }

/-- `fileindex.load(filename)`: `.version`, `.encoding` (no comment skipping: binary readline loop over all tags) -/
def indexInfo (tbl : List (String × String)) (f : List Tag) : Info :=
  (idxInfoLoop tbl f ⟨false, -1, "", none, Info.default⟩).final

/-! ## single_pass_modelspace, first loop -/

structure SpI where
  fetch : Option Bool          -- `fetch_header_var`: `true` "VERSION", `false` "ENCODING"
  prevCode : Int
  info : Info

def spInfoLoop (tbl : List (String × String)) : List Tag → SpI → Info
  | [], st => st.info                                  -- binary_tagger raises at the end of the stream
  | t :: r, st =>
    if t.code = 0 ∧ t.val = "ENDSEC" then st.info
    else if t.code = 2 ∧ st.prevCode = 0 ∧ t.val ≠ "HEADER" then st.info
    else if t.code = 9 ∧ t.val = "$DWGCODEPAGE" then spInfoLoop tbl r { st with fetch := some false, prevCode := t.code }
    else if t.code = 9 ∧ t.val = "$ACADVER" then spInfoLoop tbl r { st with fetch := some true, prevCode := t.code }
    else match st.fetch with
      | some false => spInfoLoop tbl r { fetch := none, prevCode := t.code, info := { st.info with encoding := toEncoding tbl t.val } }
      | some true => spInfoLoop tbl r { fetch := none, prevCode := t.code, info := { st.info with version := t.val } }
      | none => spInfoLoop tbl r { st with prevCode := t.code }

def spInfo (tbl : List (String × String)) (f : List Tag) : Info :=
  (spInfoLoop tbl f ⟨none, -1, Info.default⟩).final

/-! ## recover.detect_encoding -/

structure RecI where
  enc : Option String
  ver : Option String
  next : Option Bool           -- `next_tag`: `true` ACADVER, `false` DWGCODEPAGE

/-- the loop over all tags of `bytes_loader`; returns as soon as BOTH variables were seen, cp1252 otherwise -/
def recEncLoop (tbl : List (String × String)) : List Tag → RecI → String
  | [], _ => "cp1252"
  | t :: r, st =>
    let st' : RecI :=
      if t.code = 9 then
        (if t.val = "$DWGCODEPAGE" then { st with next := some false }
         else if t.val = "$ACADVER" then { st with next := some true } else st)
      else if t.code = 3 ∧ st.next = some false then { st with enc := some (toEncoding tbl t.val), next := none }
      else if t.code = 1 ∧ st.next = some true then { st with ver := some t.val, next := none }
      else st
    match st'.enc, st'.ver with
    | some e, some v => if v ≠ "" then (if v < "AC1021" then e else "utf-8") else recEncLoop tbl r st'
    | _, _ => recEncLoop tbl r st'

/-- `detect_encoding(bytes_loader(stream))` (comments skipped, nothing behind EOF) -/
def recoverEnc (tbl : List (String × String)) (f : List Tag) : String :=
  recEncLoop tbl (asciiLoad f) ⟨none, none, none⟩

/-! ## the header section as `HeaderSection.export_dxf` writes it -/

/-- one header variable: `(9, name)` and its value tag(s) -/
structure HVar where
  name : String
  value : List Tag
  deriving DecidableEq, Repr

def HVar.tags (v : HVar) : List Tag := ⟨9, v.name⟩ :: v.value

def renderVars (vars : List HVar) : List Tag := vars.flatMap HVar.tags

/-- LOCAL condition on one written variable: at least one value tag, no value tag is a structure tag, a variable name
    or a comment; a point value (code 10) comes with its y tag and is not the value of `$ACADVER` / `$DWGCODEPAGE` -/
def hvarOK (v : HVar) : Bool :=
  v.value.all (fun t => t.code != 0 && t.code != 9 && t.code != 999)
    && (match v.value with
        | [] => false
        | x :: rest => x.code != 10 || (!rest.isEmpty && v.name != "$ACADVER" && v.name != "$DWGCODEPAGE"))

/-- the value text of a variable as `set_header_var` / `load_header_var` see it: the first value tag -/
def HVar.text (v : HVar) : String :=
  match v.value with
  | [] => ""
  | x :: _ => x.val

/-- declarative decision: `$ACADVER` and `$DWGCODEPAGE` of the header (the last one of each name), then the R2007 rule -/
def specFold (tbl : List (String × String)) (vars : List HVar) (i : Info) : Info :=
  vars.foldl (fun i v => setVar tbl i v.name v.text) i

def specInfo (tbl : List (String × String)) (vars : List HVar) : Info := (specFold tbl vars Info.default).final

/-- file = HEADER section with the given variables, then anything -/
def headerFile (vars : List HVar) (rest : List Tag) : List Tag :=
  tSECTION :: ⟨2, "HEADER"⟩ :: (renderVars vars ++ tENDSEC :: rest)

/-! ## Binary DXF: `scan_params` -/

/-- `data.index(pat, 22, 1024)`: position of the first occurrence that lies completely inside `data[22:1024]` -/
def findSub (pat : List Nat) (data : List Nat) (pos : Nat) (fuel : Nat) : Option Nat :=
  match fuel with
  | 0 => none
  | fuel + 1 =>
    if pos + pat.length > 1024 ∨ pos + pat.length > data.length then none
    else if (data.drop pos).take pat.length = pat then some pos
    else findSub pat data (pos + 1) fuel

def bytesOf (s : String) : List Nat := s.toList.map Char.toNat
def strOf (b : List Nat) : String := String.ofList (b.map Char.ofNat)

/-- `data[i]`, IndexError modelled as `none` -/
def byteAt (data : List Nat) (i : Nat) : Option Nat := data[i]?

/-- the `else:` part after `data.index(b"$ACADVER", 22, 1024)` found the name at `p`: skip name, zero byte and a 1-byte
    group code; one more byte if that is not an `A` (2-byte group code); 6 bytes of version.  `none` = IndexError -/
def scanVersion (data : List Nat) (p : Nat) : Option String :=
  match byteAt data (p + 10) with
  | none => none
  | some b =>
    let start := if b ≠ 65 then p + 11 else p + 10
    some (strOf ((data.drop start).take 6))

/-- the same for `$DWGCODEPAGE` found at `p`.  `full` = the value is read up to its terminating zero byte
    (`end = start + 5; while data[end] != 0: end += 1`, the current source); `false` = a fixed 9-byte slice -/
def scanCodepage (tbl : List (String × String)) (full : Bool) (data : List Nat) (p : Nat) : Option String :=
  match byteAt data (p + 14) with
  | none => none
  | some b =>
    let start := if b ≠ 65 then p + 15 else p + 14
    if full then
      let tail := data.drop (start + 5)
      let n := (tail.takeWhile (· ≠ 0)).length
      if n = tail.length then none                       -- no zero byte: IndexError
      else some (toEncoding tbl (strOf ((data.drop start).take (5 + n))))
    else some (toEncoding tbl (strOf ((data.drop start).take 9)))

/-- `scan_params()`; `none` = the scan raises IndexError (truncated data) -/
def binScan (tbl : List (String × String)) (full : Bool) (data : List Nat) : Option Info :=
  let ver : Option String :=
    match findSub (bytesOf "$ACADVER") data 22 1024 with
    | none => some "AC1009"
    | some p => scanVersion data p
  match ver with
  | none => none
  | some v =>
    if ¬ (v < "AC1021") then some ⟨v, "utf-8"⟩
    else
      match findSub (bytesOf "$DWGCODEPAGE") data 22 1024 with
      | none => some ⟨v, "cp1252"⟩
      | some p => (scanCodepage tbl full data p).map (fun e => ⟨v, e⟩)

/-- BinaryTagWriter: a string tag = group code (1 byte for R12, 2 bytes little endian later), text, zero byte -/
def binTag (r12 : Bool) (code : Nat) (val : String) : List Nat :=
  (if r12 then [code] else [code % 256, code / 256]) ++ bytesOf val ++ [0]

def binSentinel : List Nat := bytesOf "AutoCAD Binary DXF\r\n" ++ [26, 0]

/-- the start of a Binary DXF file as Drawing.write emits it: sentinel, SECTION, HEADER, `$ACADVER`, [other variables
    in between, given as bytes], `$DWGCODEPAGE`, then anything -/
def binHeader (r12 : Bool) (ver : String) (between : List Nat) (cp : String) (rest : List Nat) : List Nat :=
  binSentinel ++ binTag r12 0 "SECTION" ++ binTag r12 2 "HEADER"
    ++ binTag r12 9 "$ACADVER" ++ binTag r12 1 ver ++ between
    ++ binTag r12 9 "$DWGCODEPAGE" ++ binTag r12 3 cp ++ rest

end EzdxfVerif.Readers

/-
C08  The repair filter only the recover readers apply to the raw tag stream: lldxf/repair.py `tag_reorder_layer` with
`fix_coordinate_order` (legacy files write the coordinates of a LINE as x1, x2, y1, y2).  It runs in
`recover.safe_tag_loader` in front of the tag compiler, so on the output of the writers it has to be the identity -
otherwise recover.read and ezdxf.read disagree on the same file.

`COORDINATE_FIXING_TOOLBOX` (entity type → point codes) is regenerated into `Gen.ReaderTables.coordinateFixing`.
Core Lean only.
-/
import EzdxfVerif.Model.Readers

namespace EzdxfVerif.Readers

/-- `extend_codes()`: x, y, z group codes of the given point codes, in this order -/
def coordCodes (codes : List Nat) : List Nat := codes.flatMap (fun c => [c, c + 10, c + 20])

/-- `coordinates[code]` of the dict filled in stream order: the LAST tag with this code -/
def lookupLast (c : Nat) (ts : List Tag) : Option Tag := (ts.filter (fun t => t.code == c)).getLast?

/-- `fix_coordinate_order(tags, codes)` -/
def fixCoordinateOrder (codes : List Nat) (tags : List Tag) : List Tag :=
  let cc := coordCodes codes
  let coords := tags.filter (fun t => cc.contains t.code)
  let remaining := tags.filter (fun t => !cc.contains t.code)
  if coords = [] then tags
  else
    -- `insert_pos = tags.index(first coordinate tag)`; all tags in front of it are non-coordinate tags
    let pos := (tags.takeWhile (fun t => !cc.contains t.code)).length
    let ordered := cc.filterMap (fun c => lookupLast c coords)
    remaining.take pos ++ ordered ++ remaining.drop pos

/-- `COORDINATE_FIXING_TOOLBOX[entity]` -/
def toolboxCodes (toolbox : List (String × List Nat)) (ty : String) : Option (List Nat) :=
  (toolbox.find? (fun p => p.1 = ty)).map (·.2)

/-- `tag_reorder_layer` on the groups of a stream (a group = a code-0 tag with the tags up to the next code-0 tag; tags in
    front of the first code-0 tag pass through): the groups whose type is in the toolbox are re-ordered -/
def reorderGroup (toolbox : List (String × List Nat)) (g : Group) : Group :=
  match toolboxCodes toolbox (dxftype g) with
  | some codes => fixCoordinateOrder codes g
  | none => g

/-- is the type handled by the toolbox (`_s(tag.value) in COORDINATE_FIXING_TOOLBOX`: the raw value, not stripped) -/
def inToolbox (toolbox : List (String × List Nat)) (g : Group) : Bool := (toolboxCodes toolbox (dxftype g)).isSome

/-- the whole layer on a tag stream: tags in front of the first code-0 tag pass through; a collected entity is only
    released by the NEXT code-0 tag, so a toolbox entity at the very end of the stream (no EOF behind it) is never yielded -/
def tagReorderLayer (toolbox : List (String × List Nat)) (ts : List Tag) : List Tag :=
  let gs := groupTags ts
  ts.takeWhile nz ++ ((gs.dropLast.map (reorderGroup toolbox)).flatten
    ++ (match gs.getLast? with
        | some g => if inToolbox toolbox g then [] else g
        | none => []))

/-- an entity whose coordinates are written in canonical order in one run: `pre` and `post` hold no coordinate tags, `mid`
    holds coordinate tags whose codes form a sub-sequence of x, y, z of the first point, x, y, z of the second, ... -/
def CanonCoords (codes : List Nat) (pre mid post : List Tag) : Prop :=
  (∀ t ∈ pre ++ post, (coordCodes codes).contains t.code = false) ∧ (mid.map (·.code)).Sublist (coordCodes codes)

end EzdxfVerif.Readers

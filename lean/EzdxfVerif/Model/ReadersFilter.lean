/-
C08  The `types=` filter of the three iterdxf readers: addons/iterdxf.py `_requested_types(types)`.
The module-level set `SUPPORTED_TYPES` is an INPUT here (`supported`): the function must not change it, so every call
of every reader sees the same set, whatever was read before in the same process (reader purity; the correspondence
stream X15 replays call histories against this pure function).  Sets are lists used through membership.
Core Lean only.
-/
import EzdxfVerif.Model.Readers

namespace EzdxfVerif.Readers

/-- `_requested_types(types)`: `None` and an empty iterable mean "all supported types"; otherwise the supported types
    among `types`, plus the linked sub-entity types of POLYLINE / INSERT -/
def requestedTypes (supported : List String) (types : Option (List String)) : List String :=
  match types with
  | none => supported
  | some [] => supported
  | some ts =>
    let r := supported.filter (fun s => ts.contains s)
    let r := if r.contains "POLYLINE" then r ++ ["SEQEND", "VERTEX"] else r
    if r.contains "INSERT" then r ++ ["SEQEND", "ATTRIB"] else r

/-- `_types_to_load(types)[1]`: the types that are loaded only to build the requested POLYLINE / INSERT entities - the
    caller did not ask for them (fix a635ea5a3) -/
def implicitTypes (supported : List String) (types : Option (List String)) : List String :=
  match types with
  | none => []
  | some [] => []
  | some ts => (requestedTypes supported (some ts)).filter (fun s => !ts.contains s)

/-- the readers' `Cfg` for a filtered read.  `dropImplicit` (the current source, fix a635ea5a3):
    `and entity.dxftype() not in implicit_types` in the three reader loops - a non-linked entity of an implicit type (the
    SEQEND of an INSERT that was skipped, ...) is passed over exactly like a paperspace entity: not queued, the queued
    entity stays queued.  (`expects` is `none` for these types, so no linked structure is opened by them.) -/
def Cfg.withTypes (cfg : Cfg) (supported : List String) (types : Option (List String)) (dropImplicit : Bool := true) : Cfg :=
  { cfg with
    req := fun s => (requestedTypes supported types).contains s
    psp := fun g => cfg.psp g || (dropImplicit && (implicitTypes supported types).contains (dxftype g))
    pspS := fun g => cfg.pspS g || (dropImplicit && (implicitTypes supported types).contains (dxftype g)) }

end EzdxfVerif.Readers

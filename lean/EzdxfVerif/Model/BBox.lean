/-
Model of the axis-aligned box algebra of `src/ezdxf/math/bbox.py` (`AbstractBoundingBox`,
`BoundingBox`, `BoundingBox2d`, `extents3d`, `extents2d`), of the folds and the cache protocol of
`src/ezdxf/bbox.py` (`Cache`, `multi_recursive`, `multi_flat`, `extents`) and of one coordinate of
`Bezier4P._get_curve_point` / `Bezier3P._get_curve_point`.  Core Lean only, numbers are core `Rat`.

The model copies the code, not the intention:
  * the empty box (`extmin = extmax = (inf, inf, inf)`, `has_data == False`) is the explicit
    constructor `empty`; a box with data is `mk lo hi` WITHOUT the invariant `lo ≤ hi` in the type,
    because `extmin`/`extmax` are plain writable attributes (`copy()` itself writes them);
  * `contains(other)` is `inside(other.extmin) and inside(other.extmax)`; for an empty `other` the
    corners are `inf`, so `contains(empty)` is `False` for every box;
  * `intersection` is empty unless `has_intersection` (strict comparisons) holds, so touching boxes
    have an empty intersection, while the intersection with a zero-size box strictly inside has data
    (volume 0) although the docstring promises an empty box for volume 0;
  * `extend([])` is a no-op, `extend(vs)` re-runs `extents3d` over `vs + [extmin, extmax]`;
  * `union` builds a new box from the corner points of both operands (so it normalises an
    inverted operand);
  * `all_inside([])` is `False`; `any_inside`/`all_inside` of an empty box are `False`;
  * `grow` raises `ValueError` iff `value < 0` and `-value >= min(size)/2`; an empty box is left alone;
  * `multi_flat` stores the box of an entity in the cache even when it has no data, `multi_recursive`
    stores only boxes with data; keys are shared between both levels; entities without key
    (HATCH, virtual entities without uuid) are never cached and count as a miss;
  * since fix 20e7078cb the `fast` flag is part of the cache key: a model key stands for the pair
    (handle, fast), the harness encodes it as `handle * 2 + flag`.
-/
namespace EzdxfVerif.BBox

/-- Python `min(a, b)` / numpy `min` on two values (value semantics only) -/
def rmin (a b : Rat) : Rat := if a ≤ b then a else b
/-- Python `max(a, b)` -/
def rmax (a b : Rat) : Rat := if a ≤ b then b else a

structure V2 where
  x : Rat
  y : Rat
deriving DecidableEq, Repr

structure V3 where
  x : Rat
  y : Rat
  z : Rat
deriving DecidableEq, Repr

namespace V3
def vmin (a b : V3) : V3 := ⟨rmin a.x b.x, rmin a.y b.y, rmin a.z b.z⟩
def vmax (a b : V3) : V3 := ⟨rmax a.x b.x, rmax a.y b.y, rmax a.z b.z⟩
def add (a b : V3) : V3 := ⟨a.x + b.x, a.y + b.y, a.z + b.z⟩
def sub (a b : V3) : V3 := ⟨a.x - b.x, a.y - b.y, a.z - b.z⟩
/-- `Vec3.lerp(other, factor=0.5)`: `self + (other - self) * factor` -/
def lerpHalf (a b : V3) : V3 := ⟨a.x + (b.x - a.x) * (1/2), a.y + (b.y - a.y) * (1/2), a.z + (b.z - a.z) * (1/2)⟩
/-- `Vec2(v)` of a 3D vector: z is dropped -/
def to2 (a : V3) : V2 := ⟨a.x, a.y⟩
end V3

namespace V2
def vmin (a b : V2) : V2 := ⟨rmin a.x b.x, rmin a.y b.y⟩
def vmax (a b : V2) : V2 := ⟨rmax a.x b.x, rmax a.y b.y⟩
def add (a b : V2) : V2 := ⟨a.x + b.x, a.y + b.y⟩
def sub (a b : V2) : V2 := ⟨a.x - b.x, a.y - b.y⟩
def lerpHalf (a b : V2) : V2 := ⟨a.x + (b.x - a.x) * (1/2), a.y + (b.y - a.y) * (1/2)⟩
/-- `Vec3(v)` of a 2D vector: z = 0 -/
def to3 (a : V2) : V3 := ⟨a.x, a.y, 0⟩
end V2

/-! ## 3D: `BoundingBox` -/

inductive Box3 where
  | empty
  | mk (lo hi : V3)
deriving DecidableEq, Repr

/-- `extents3d(vertices)`; the `ValueError` for no vertices is caught by the only callers that can
    meet it (the constructors) and leaves the box empty. -/
def extents3 : List V3 → Box3
  | [] => .empty
  | p :: ps => .mk (ps.foldl V3.vmin p) (ps.foldl V3.vmax p)

namespace Box3

def hasData : Box3 → Bool
  | empty => false
  | mk _ _ => true

/-- `__iter__`: yields extmin, extmax if the box has data -/
def iter : Box3 → List V3
  | empty => []
  | mk lo hi => [lo, hi]

/-- `BoundingBox(vertices)` -/
def ofPoints (vs : List V3) : Box3 := extents3 vs

/-- `extend(vertices)` (returns the mutated receiver) -/
def extend (b : Box3) (vs : List V3) : Box3 :=
  match vs with
  | [] => b
  | _ :: _ => extents3 (vs ++ b.iter)

def inside : Box3 → V3 → Bool
  | empty, _ => false
  | mk lo hi, p =>
    (decide (lo.x ≤ p.x) && decide (p.x ≤ hi.x)) && (decide (lo.y ≤ p.y) && decide (p.y ≤ hi.y))
      && (decide (lo.z ≤ p.z) && decide (p.z ≤ hi.z))

/-- `contains(other)`: both corners of `other` inside; the corners of an empty box are `inf` -/
def contains (a : Box3) : Box3 → Bool
  | empty => false
  | mk lo hi => a.inside lo && a.inside hi

def anyInside (b : Box3) (vs : List V3) : Bool := b.hasData && vs.any b.inside

def allInside (b : Box3) (vs : List V3) : Bool := b.hasData && (!vs.isEmpty && vs.all b.inside)

/-- `size` (`nan` for the empty box: `none`) -/
def size : Box3 → Option V3
  | empty => none
  | mk lo hi => some (hi.sub lo)

def center : Box3 → Option V3
  | empty => none
  | mk lo hi => some (lo.lerpHalf hi)

def isEmpty : Box3 → Bool
  | empty => true
  | mk lo hi => decide ((hi.x - lo.x) * (hi.y - lo.y) * (hi.z - lo.z) = 0)

/-- `union(other)`: a new box from the corner points of both -/
def union (a b : Box3) : Box3 := ofPoints (a.iter ++ b.iter)

/-- `has_intersection`: separating-axis test with non-strict rejection (touching is NOT intersecting) -/
def hasIntersection : Box3 → Box3 → Bool
  | mk alo ahi, mk blo bhi =>
    if alo.x ≥ bhi.x then false
    else if ahi.x ≤ blo.x then false
    else if alo.y ≥ bhi.y then false
    else if ahi.y ≤ blo.y then false
    else if alo.z ≥ bhi.z then false
    else if ahi.z ≤ blo.z then false
    else true
  | _, _ => false

/-- `has_overlap`: separating-axis test with strict rejection (touching IS overlapping) -/
def hasOverlap : Box3 → Box3 → Bool
  | mk alo ahi, mk blo bhi =>
    if alo.x > bhi.x then false
    else if ahi.x < blo.x then false
    else if alo.y > bhi.y then false
    else if ahi.y < blo.y then false
    else if alo.z > bhi.z then false
    else if ahi.z < blo.z then false
    else true
  | _, _ => false

/-- `intersection(other)` -/
def intersection (a b : Box3) : Box3 :=
  if a.hasIntersection b then
    match a, b with
    | mk alo ahi, mk blo bhi => empty.extend [alo.vmax blo, ahi.vmin bhi]
    | _, _ => empty   -- unreachable: has_intersection is False without data
  else empty

def min3 (v : V3) : Rat := rmin (rmin v.x v.y) v.z

/-- `grow(value)`; `none` = `ValueError("shrinking one or more dimensions <= 0")` -/
def grow (b : Box3) (v : Rat) : Option Box3 :=
  match b with
  | empty => some empty
  | mk lo hi =>
    if v < 0 ∧ -v ≥ min3 (hi.sub lo) / 2 then none
    else some (mk (lo.add ⟨-v, -v, -v⟩) (hi.add ⟨v, v, v⟩))

/-- well-formed: what every constructor produces (`lo ≤ hi` on every axis) -/
def WF : Box3 → Prop
  | empty => True
  | mk lo hi => lo.x ≤ hi.x ∧ lo.y ≤ hi.y ∧ lo.z ≤ hi.z

instance : (b : Box3) → Decidable b.WF
  | empty => isTrue trivial
  | mk _ _ => by unfold WF; exact inferInstance

end Box3

/-! ## 2D: `BoundingBox2d` -/

inductive Box2 where
  | empty
  | mk (lo hi : V2)
deriving DecidableEq, Repr

def extents2 : List V2 → Box2
  | [] => .empty
  | p :: ps => .mk (ps.foldl V2.vmin p) (ps.foldl V2.vmax p)

namespace Box2

def hasData : Box2 → Bool
  | empty => false
  | mk _ _ => true

def iter : Box2 → List V2
  | empty => []
  | mk lo hi => [lo, hi]

def ofPoints (vs : List V2) : Box2 := extents2 vs

def extend (b : Box2) (vs : List V2) : Box2 :=
  match vs with
  | [] => b
  | _ :: _ => extents2 (vs ++ b.iter)

def inside : Box2 → V2 → Bool
  | empty, _ => false
  | mk lo hi, p =>
    (decide (lo.x ≤ p.x) && decide (p.x ≤ hi.x)) && (decide (lo.y ≤ p.y) && decide (p.y ≤ hi.y))

def contains (a : Box2) : Box2 → Bool
  | empty => false
  | mk lo hi => a.inside lo && a.inside hi

def anyInside (b : Box2) (vs : List V2) : Bool := b.hasData && vs.any b.inside

def allInside (b : Box2) (vs : List V2) : Bool := b.hasData && (!vs.isEmpty && vs.all b.inside)

def size : Box2 → Option V2
  | empty => none
  | mk lo hi => some (hi.sub lo)

def center : Box2 → Option V2
  | empty => none
  | mk lo hi => some (lo.lerpHalf hi)

def isEmpty : Box2 → Bool
  | empty => true
  | mk lo hi => decide ((hi.x - lo.x) * (hi.y - lo.y) = 0)

def union (a b : Box2) : Box2 := ofPoints (a.iter ++ b.iter)

def hasIntersection : Box2 → Box2 → Bool
  | mk alo ahi, mk blo bhi =>
    if alo.x ≥ bhi.x then false
    else if ahi.x ≤ blo.x then false
    else if alo.y ≥ bhi.y then false
    else if ahi.y ≤ blo.y then false
    else true
  | _, _ => false

def hasOverlap : Box2 → Box2 → Bool
  | mk alo ahi, mk blo bhi =>
    if alo.x > bhi.x then false
    else if ahi.x < blo.x then false
    else if alo.y > bhi.y then false
    else if ahi.y < blo.y then false
    else true
  | _, _ => false

def intersection (a b : Box2) : Box2 :=
  if a.hasIntersection b then
    match a, b with
    | mk alo ahi, mk blo bhi => empty.extend [alo.vmax blo, ahi.vmin bhi]
    | _, _ => empty
  else empty

def min2 (v : V2) : Rat := rmin v.x v.y

/-- `grow(value)`: `extmax += Vec3(value, value, value)` on a `Vec2` stays a `Vec2` -/
def grow (b : Box2) (v : Rat) : Option Box2 :=
  match b with
  | empty => some empty
  | mk lo hi =>
    if v < 0 ∧ -v ≥ min2 (hi.sub lo) / 2 then none
    else some (mk (lo.add ⟨-v, -v⟩) (hi.add ⟨v, v⟩))

def WF : Box2 → Prop
  | empty => True
  | mk lo hi => lo.x ≤ hi.x ∧ lo.y ≤ hi.y

instance : (b : Box2) → Decidable b.WF
  | empty => isTrue trivial
  | mk _ _ => by unfold WF; exact inferInstance

/-- how a 2D box is seen by the 3D methods: `Vec3(other.extmin)`, z = 0 -/
def to3 : Box2 → Box3
  | empty => .empty
  | mk lo hi => .mk lo.to3 hi.to3

end Box2

/-- how a 3D box is seen by the 2D methods: only `.x`/`.y` are read -/
def Box3.to2 : Box3 → Box2
  | .empty => .empty
  | .mk lo hi => .mk lo.to2 hi.to2

/-! ## `ezdxf.bbox`: folds and the cache protocol

A primitive is represented by the key of its entity (`Cache._get_key`: `none` for HATCH and for
entities without handle when uuids are off) and by the value `primitive.bbox(fast)` would return;
an entity by its own key and its non-empty primitives (`recursive_decompose` + `to_primitives`). -/

structure Prim where
  key : Option Nat
  box : Box3
deriving Repr

structure Ent where
  key : Option Nat
  prims : List Prim
deriving Repr

structure Cache where
  boxes : List (Nat × Box3)
  hits : Nat
  misses : Nat
deriving Repr

namespace Cache

def lookup (c : Cache) (k : Nat) : Option Box3 := (c.boxes.find? (fun e => e.1 == k)).map (·.2)

/-- `Cache.get`: result and the cache with updated counters -/
def get (c : Cache) : Option Nat → Option Box3 × Cache
  | none => (none, { c with misses := c.misses + 1 })
  | some k =>
    match c.lookup k with
    | none => (none, { c with misses := c.misses + 1 })
    | some b => (some b, { c with hits := c.hits + 1 })

/-- `Cache.store`: `dict[key] = box` -/
def store (c : Cache) (key : Option Nat) (b : Box3) : Cache :=
  match key with
  | none => c
  | some k => { c with boxes := (k, b) :: c.boxes.filter (fun e => !(e.1 == k)) }

end Cache

/-- the `_extends.extend(box)` loop of `extents` and of `multi_flat.extends_` -/
def extendAll (bs : List Box3) : Box3 := bs.foldl (fun acc b => acc.extend b.iter) .empty

/-- one round of the `multi_recursive` loop: the box used for primitive `q` and the cache afterwards;
    `uc` = a cache object was passed -/
def primStep (uc : Bool) (c : Cache) (q : Prim) : Box3 × Cache :=
  if uc then
    match c.get q.key with
    | (some b, c') => (b, c')
    | (none, c') => (q.box, if q.box.hasData then c'.store q.key q.box else c')
  else (q.box, c)

/-- `multi_recursive` on the (already decomposed, non-empty) primitives: yielded boxes, cache afterwards -/
def multiRecursive (uc : Bool) (c : Cache) : List Prim → List Box3 × Cache
  | [] => ([], c)
  | q :: qs =>
    let r := primStep uc c q
    let rest := multiRecursive uc r.2 qs
    (if r.1.hasData then r.1 :: rest.1 else rest.1, rest.2)

/-- one round of the `multi_flat` loop -/
def entStep (uc : Bool) (c : Cache) (e : Ent) : Box3 × Cache :=
  match (if uc then c.get e.key else (none, c)) with
  | (some b, c') => (b, c')
  | (none, c') =>
    let m := multiRecursive uc c' e.prims
    let b := extendAll m.1
    (b, if uc then m.2.store e.key b else m.2)

/-- `multi_flat` -/
def multiFlat (uc : Bool) (c : Cache) : List Ent → List Box3 × Cache
  | [] => ([], c)
  | e :: es =>
    let r := entStep uc c e
    let rest := multiFlat uc r.2 es
    (if r.1.hasData then r.1 :: rest.1 else rest.1, rest.2)

/-- `ezdxf.bbox.extents` -/
def extentsOf (uc : Bool) (c : Cache) (es : List Ent) : Box3 × Cache :=
  let m := multiFlat uc c es
  (extendAll m.1, m.2)

/-! ## one coordinate of the Bézier evaluators (control points are stored relative to `p0`) -/

/-- `Bezier4P._get_curve_point` for the curve with definition points `p0 p1 p2 p3` -/
def bezier4 (p0 p1 p2 p3 t : Rat) : Rat :=
  let q1 := p1 - p0
  let q2 := p2 - p0
  let q3 := p3 - p0
  let t2 := t * t
  let omt := 1 - t
  let b := 3 * omt * omt * t
  let c := 3 * omt * t2
  let d := t2 * t
  q1 * b + q2 * c + q3 * d + p0

/-- `Bezier3P._get_curve_point` -/
def bezier3 (p0 p1 p2 t : Rat) : Rat :=
  let q1 := p1 - p0
  let q2 := p2 - p0
  let omt := 1 - t
  let b := 2 * t * omt
  let c := t * t
  q1 * b + q2 * c + p0

def bezier4V (p0 p1 p2 p3 : V3) (t : Rat) : V3 :=
  ⟨bezier4 p0.x p1.x p2.x p3.x t, bezier4 p0.y p1.y p2.y p3.y t, bezier4 p0.z p1.z p2.z p3.z t⟩

def bezier3V (p0 p1 p2 : V3) (t : Rat) : V3 :=
  ⟨bezier3 p0.x p1.x p2.x t, bezier3 p0.y p1.y p2.y t, bezier3 p0.z p1.z p2.z t⟩

/-! ## specification vocabulary used by the theorems (not part of the executable model) -/

/-- `p` lies in the open interior -/
def Box3.interior : Box3 → V3 → Prop
  | .empty, _ => False
  | .mk lo hi, p => lo.x < p.x ∧ p.x < hi.x ∧ lo.y < p.y ∧ p.y < hi.y ∧ lo.z < p.z ∧ p.z < hi.z

/-- positive size on every axis -/
def Box3.Pos : Box3 → Prop
  | .empty => False
  | .mk lo hi => lo.x < hi.x ∧ lo.y < hi.y ∧ lo.z < hi.z

def Box2.interior : Box2 → V2 → Prop
  | .empty, _ => False
  | .mk lo hi, p => lo.x < p.x ∧ p.x < hi.x ∧ lo.y < p.y ∧ p.y < hi.y

def Box2.Pos : Box2 → Prop
  | .empty => False
  | .mk lo hi => lo.x < hi.x ∧ lo.y < hi.y

/-- every cached box is the box that would be computed for its key -/
def Cache.Inv (truth : Nat → Box3) (c : Cache) : Prop := ∀ e ∈ c.boxes, e.2 = truth e.1

/-- the box an uncached `multi_flat` yields for an entity -/
def Ent.flatBox (e : Ent) : Box3 := extendAll ((e.prims.map Prim.box).filter Box3.hasData)

/-- keys identify boxes: a primitive with key `k` has box `truth k`, and an entity with key `k` has
    flat box `truth k` (the same handle is used at both levels, e.g. for a top-level LINE) -/
def Ent.Coherent (truth : Nat → Box3) (e : Ent) : Prop :=
  (∀ q ∈ e.prims, ∀ k, q.key = some k → q.box = truth k) ∧ (∀ k, e.key = some k → e.flatBox = truth k)

end EzdxfVerif.BBox

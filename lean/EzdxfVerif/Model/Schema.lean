/-
Model of the generic DXF attribute machinery (DESIGN.md section 7, C01):

* `lldxf/attributes.py`   DXFAttr (code, xtype, default, optional, dxfversion), group_code_mapping
* `entities/dxfns.py`     DXFNamespace.export_dxf_attribs / _export_dxf_attribute_optional /
                          _export_group_codes, SubclassProcessor.fast_load_dxfattribs,
                          simple_dxfattribs_loader, recover_graphic_attributes
* `lldxf/types.py`        dxftag / cast_value class dispatch (point codes, TYPE_TABLE)
* the subclass structure of an exported entity (100 markers) as seen by the loaders
* generic payload codecs: TagList/TagArray/VertexArray (`lldxf/packedtags.py`), LWPolylinePoints
  (`entities/lwpolyline.py`), `text_to_multi_tags`/`multi_tags_to_text` (`lldxf/tags.py`),
  `entity_linker` (`entities/subentity.py`)

Core Lean only.  Conventions
  * attribute / subclass / entity type names are interned as `Nat` = big-endian base-256 value of
    the UTF-8 bytes of the Python string (injective; produced by the tracer in harness/props/c01.py);
    the leading `*` that `group_code_mapping` puts in front of callback names travels as a Bool.
  * DXF versions are the number in "AC10xx" (string comparison of equal-length version strings is
    numeric comparison).
  * doubles are opaque IEEE-754 bit patterns (`Nat`), only `==` on them is modelled (`dblEq`).
  * the tag level is the *compiled* tag level (a vertex is one tag); text/binary framing is C03's model.
-/
import EzdxfVerif.Model.Codec

namespace EzdxfVerif.Schema

abbrev Name := Nat

/-! ### values -/

inductive Val where
  | int (v : Int)
  | dbl (bits : Nat)
  | str (s : List Nat)
  | pt (x y z : Nat)          -- Vec3, components are bit patterns
  | pt2 (x y : Nat)           -- a 2-component DXFVertex value (exists only inside tags)
  | bin (d : List Nat)
  deriving DecidableEq, Repr, Inhabited

structure Tag where
  code : Int
  val : Val
  deriving DecidableEq, Repr

/-- IEEE-754 double: exponent all ones and mantissa non-zero -/
def isNaN (b : Nat) : Bool := (b / 2 ^ 52) % 2048 == 2047 && b % 2 ^ 52 != 0
/-- +0.0 or -0.0 -/
def isZero (b : Nat) : Bool := b == 0 || b == 2 ^ 63
/-- Python `a == b` on two floats given as bit patterns -/
def dblEq (a b : Nat) : Bool := (a == b && !isNaN a) || (isZero a && isZero b)

/-- Python `default == value` for values of one class (`Vec3.__eq__` is component-wise `==`);
    values of different classes never compare equal here: the tracer normalises every declared
    default with `cast_value(code, default)` and checks `cast == default` in Python. -/
def pyEq : Val → Val → Bool
  | .int a, .int b => a == b
  | .dbl a, .dbl b => dblEq a b
  | .str a, .str b => a == b
  | .pt a b c, .pt x y z => dblEq a x && dblEq b y && dblEq c z
  | .bin a, .bin b => a == b
  | _, _ => false

/-! ### group code classes (`types.py`: POINT_CODES, BINARY_DATA, TYPE_TABLE) on `Int` codes -/

def isPointCode (c : Int) : Bool := 0 ≤ c && Codec.isPoint c.toNat
def isBinaryCode (c : Int) : Bool := 0 ≤ c && Codec.isBinary c.toNat

inductive VCls where
  | int | float | str
  deriving DecidableEq, Repr

/-- `TYPE_TABLE.get(code, str)` -/
def typeCls (c : Int) : VCls :=
  if c < 0 then .str
  else
    let n := c.toNat
    if Codec.isDouble n then .float
    else if Codec.isBytes n || Codec.isInt16 n || Codec.isInt32 n || Codec.isInt64 n then .int
    else .str

def VCls.toNat : VCls → Nat
  | .str => 0 | .int => 1 | .float => 2

/-- the value is what `cast_value(code, ·)` returns unchanged -/
def inClass (code : Int) (v : Val) : Bool :=
  if isPointCode code then (match v with | .pt _ _ _ => true | _ => false)
  else match typeCls code, v with
    | .int, .int _ => true
    | .float, .dbl _ => true
    | .str, .str _ => true
    | _, _ => false

/-- `cast_value(tag.code, tag.value)` at load time for a value of the class of its code:
    `Vec3(value)` turns a 2-component vertex into a 3D point with z = 0.0 -/
def loadCast : Val → Val
  | .pt2 x y => .pt x y 0
  | v => v

/-! ### attribute definitions -/

inductive XType where
  | none | point2d | point3d | anyPoint | callback
  deriving DecidableEq, Repr

def XType.toNat : XType → Nat
  | .none => 0 | .point2d => 1 | .point3d => 2 | .anyPoint => 3 | .callback => 4

structure Attr where
  name : Name
  code : Int
  xtype : XType
  default : Option Val
  optional : Bool
  minVer : Nat
  deriving DecidableEq, Repr

abbrev Schema := List Attr

def Schema.find (S : Schema) (n : Name) : Option Attr := List.find? (fun a => a.name == n) S

/-- the DXF namespace `__dict__` (a stored `None` is the same as absent for export and `get_default`) -/
abbrev NS := List (Name × Val)

def NS.get (ns : NS) (n : Name) : Option Val := List.lookup n ns

/-- stored value, else the declared default -/
def obsOf (a : Attr) (stored : Option Val) : Option Val :=
  match stored with
  | some v => some v
  | none => a.default

/-- `get_default` -/
def observe (a : Attr) (ns : NS) : Option Val := obsOf a (ns.get a.name)

/-! ### export: `_export_dxf_attribute_optional` + `_export_group_codes` -/

/-- `value[:2]` / `(value.x, value.y)` for explicit 2D points (`if len(value) > 2`); the slice also
    applies to strings and bytes should a non-point attribute be declared `point2d` -/
def trunc2 : Val → Val
  | .pt x y _ => .pt2 x y
  | .str s => .str (s.take 2)
  | .bin d => .bin (d.take 2)
  | v => v

/-- `len(value)` raises TypeError for a number: only reachable when a numeric attribute is declared
    `point2d` (excluded by `attrOK`) -/
def exportRaises (a : Attr) (v : Val) : Bool :=
  a.xtype == .point2d && (match v with | .int _ => true | .dbl _ => true | _ => false)

/-- `value = self.get(name, None)`; "Force default value e.g. layer" -/
def exportValue (a : Attr) (stored : Option Val) : Option Val :=
  match stored with
  | some v => some v
  | none => if a.optional then none else a.default

/-- `optional and (not tagwriter.force_optional) and default is not None and default == value` -/
def suppressed (force : Bool) (a : Attr) (v : Val) : Bool :=
  a.optional && !force && (match a.default with | some d => pyEq d v | none => false)

/-- the value of the tag that is written for attribute `a`, `none` = nothing is written -/
def written (ver : Nat) (force : Bool) (a : Attr) (stored : Option Val) : Option Val :=
  match exportValue a stored with
  | none => none
  | some v =>
    if suppressed force a v then none
    else if ver < a.minVer then none
    else some (if a.xtype == .point2d then trunc2 v else v)

def exportAttr (ver : Nat) (force : Bool) (a : Attr) (stored : Option Val) : List Tag :=
  match written ver force a stored with
  | none => []
  | some v => [⟨a.code, v⟩]

/-- `export_dxf_attribs(tagwriter, names)`.  `none` = DXFAttributeError (undeclared name).
    For a callback attribute `stored` stands for the value its getter returns. -/
def exportAttrs (S : Schema) (ver : Nat) (force : Bool) (ns : NS) : List Name → Option (List Tag)
  | [] => some []
  | n :: rest =>
    match S.find n with
    | none => none
    | some a =>
      match exportAttrs S ver force ns rest with
      | none => none
      | some ts => some (exportAttr ver force a (ns.get n) ++ ts)

/-! ### group code mappings and the two loaders -/

structure MName where
  id : Name
  star : Bool            -- `name[0] == "*"`: callback attribute or "*IGNORE"
  deriving DecidableEq, Repr

inductive MEntry where
  | one (n : MName)
  | many (ns : List MName)
  deriving DecidableEq, Repr

abbrev Mapping := List (Int × MEntry)

/-- the `for name_ in names: if name_ not in processed_names` loop -/
def firstUnprocessed (P : List Name) : List MName → Option MName
  | [] => none
  | x :: xs => if P.contains x.id then firstUnprocessed P xs else some x

/-- name resolution of one tag in `fast_load_dxfattribs`: the name and whether it was taken from a
    duplicate list (and therefore marked as processed) -/
def resolve (m : Mapping) (P : List Name) (code : Int) : Option (MName × Bool) :=
  match List.lookup code m with
  | none => none
  | some (.one x) => some (x, false)
  | some (.many xs) => (firstUnprocessed P xs).map (fun x => (x, true))

def markP (P : List Name) : Option (MName × Bool) → List Name
  | some (x, true) => x.id :: P
  | _ => P

structure FState where
  ns : NS
  P : List Name
  unp : List Tag

def fastStep (m : Mapping) (σ : FState) (t : Tag) : FState :=
  let r := resolve m σ.P t.code
  match r with
  | some (x, _) =>
    if x.star then { σ with P := markP σ.P r }
    else { σ with ns := (x.id, loadCast t.val) :: σ.ns, P := markP σ.P r }
  | none => { σ with unp := σ.unp ++ [t] }

/-- `start = 1 if tags[0].code in (0, 100) else 0` -/
def skipStart : List Tag → List Tag
  | [] => []
  | t :: rest => if t.code == 0 || t.code == 100 then rest else t :: rest

/-- the main loop of `fast_load_dxfattribs`: (namespace, unprocessed tags) -/
def fastLoad (m : Mapping) (tags : List Tag) (ns : NS) : NS × List Tag :=
  let σ := (skipStart tags).foldl (fastStep m) ⟨ns, [], []⟩
  (σ.ns, σ.unp)

/-- `recover_graphic_attributes` (validation in `dxf.set` is not modelled) -/
def recoverStep (tbl : List (Int × Name)) (σ : NS × List Tag) (t : Tag) : NS × List Tag :=
  match List.lookup t.code tbl with
  | some n => if (NS.get σ.1 n).isNone then ((n, t.val) :: σ.1, σ.2) else (σ.1, σ.2 ++ [t])
  | none => (σ.1, σ.2 ++ [t])

def recoverLoad (tbl : List (Int × Name)) (unp : List Tag) (ns : NS) : NS × List Tag :=
  unp.foldl (recoverStep tbl) (ns, [])

def simpleStep (m : Mapping) (ns : NS) (t : Tag) : NS :=
  match List.lookup t.code m with
  | some (.one x) => if x.star then ns else (x.id, loadCast t.val) :: ns
  | _ => ns              -- list valued entries are not `str`: ignored

/-- `simple_dxfattribs_loader` over all subclasses chained -/
def simpleLoad (m : Mapping) (tags : List Tag) (ns : NS) : NS := tags.foldl (simpleStep m) ns

/-! ### a whole entity: export plan (traced from `export_entity`) and load plan (traced from
    `load_dxf_attribs`) -/

inductive Ev where
  | attr (n : Name)            -- one name handed to `export_dxf_attribs`
  | raw (code : Int)           -- one (compiled) tag written directly by `export_entity`
  deriving DecidableEq, Repr

structure Seg where
  marker : Option Name         -- `(100, name)`; `none` for the base class / DXF R12
  evs : List Ev
  deriving Repr

inductive LoadStep where
  /-- `fast_load_dxfattribs(dxf, m, subclass)`; `sub` = index of the subclass the argument denotes,
      `drop` = labels of the tags of that subclass which `load_dxf_attribs` removed beforehand -/
  | fast (m : Mapping) (sub : Nat) (recover : Bool) (drop : List Nat)
  | simple (m : Mapping)
  deriving Repr

structure Plan where
  ver : Nat
  segs : List Seg
  loads : List LoadStep
  deriving Repr

/-- tag with the position of its source event inside its subclass (0 = the marker) -/
structure LTag where
  lab : Nat
  tag : Tag
  deriving DecidableEq, Repr

inductive Src where
  | marker (n : Name)
  | attr (a : Attr)
  | raw
  deriving DecidableEq, Repr

/-- "symbolic" tag: what an event may write -/
structure STag where
  lab : Nat
  code : Int
  src : Src
  deriving DecidableEq, Repr

/-- events of a subclass, labelled from `i` -/
def symEvs (S : Schema) : Nat → List Ev → Option (List STag)
  | _, [] => some []
  | i, .attr n :: rest =>
    match S.find n with
    | none => none
    | some a => (symEvs S (i + 1) rest).map (fun r => ⟨i, a.code, .attr a⟩ :: r)
  | i, .raw c :: rest => (symEvs S (i + 1) rest).map (fun r => ⟨i, c, .raw⟩ :: r)

def symSeg (S : Schema) (seg : Seg) : Option (List STag) :=
  match symEvs S 1 seg.evs with
  | none => none
  | some r =>
    match seg.marker with
    | some n => some (⟨0, 100, .marker n⟩ :: r)
    | none => some r

def symSegs (S : Schema) : List Seg → Option (List (List STag))
  | [] => some []
  | s :: rest =>
    match symSeg S s, symSegs S rest with
    | some a, some b => some (a :: b)
    | _, _ => none

/-- the concrete tag of a symbolic tag; `rv k lab` is the value of the payload tag with that label
    in subclass `k` (payload values are arbitrary) -/
def conc (ver : Nat) (force : Bool) (ns : NS) (rv : Nat → Val) (s : STag) : Option LTag :=
  match s.src with
  | .marker n => some ⟨s.lab, ⟨100, .str [n]⟩⟩
  | .attr a => (written ver force a (ns.get a.name)).map (fun v => ⟨s.lab, ⟨a.code, v⟩⟩)
  | .raw => some ⟨s.lab, ⟨s.code, rv s.lab⟩⟩

def concSeg (ver : Nat) (force : Bool) (ns : NS) (rv : Nat → Val) (ss : List STag) : List LTag :=
  ss.filterMap (conc ver force ns rv)

def concSegs (ver : Nat) (force : Bool) (ns : NS) (rv : Nat → Nat → Val) :
    Nat → List (List STag) → List (List LTag)
  | _, [] => []
  | k, ss :: rest => concSeg ver force ns (rv k) ss :: concSegs ver force ns rv (k + 1) rest

/-- the subclasses of the exported entity (what `ExtendedTags` hands to `SubclassProcessor`);
    `none` = DXFAttributeError -/
def exportEntity (S : Schema) (p : Plan) (force : Bool) (ns : NS) (rv : Nat → Nat → Val) :
    Option (List (List LTag)) :=
  (symSegs S p.segs).map (concSegs p.ver force ns rv 0)

/-- `ExtendedTags` subclass splitting: a new subclass starts at every `(100, …)` tag -/
def splitSubs : List LTag → List (List LTag)
  | [] => [[]]
  | t :: rest =>
    match splitSubs rest with
    | [] => [[t]]          -- unreachable
    | cur :: more => if t.tag.code == 100 then [] :: (t :: cur) :: more else (t :: cur) :: more

def untag (ts : List LTag) : List Tag := ts.map (·.tag)

def recCodes (tbl : List (Int × Name)) : List Int := tbl.map (·.1)

/-- one loader call of `load_dxf_attribs` -/
def loadStep (tbl : List (Int × Name)) (ver : Nat) (subs : List (List LTag)) (ns : NS) : LoadStep → NS
  | .fast m sub recover drop =>
    let r12 := ver == 1009 || subs.length == 1
    let sel := if r12 then subs[0]? else subs[sub]?
    match sel with
    | none => ns
    | some lt =>
      let tags := untag (if r12 then lt else lt.filter (fun t => !drop.contains t.lab))
      if tags.isEmpty then ns      -- `if tags is None or len(tags) == 0: return`
      else
        let r := fastLoad m tags ns
        if recover && !r12 then (recoverLoad tbl r.2 r.1).1 else r.1
  | .simple m => simpleLoad m (untag subs.flatten) ns

def loadEntity (tbl : List (Int × Name)) (p : Plan) (subs : List (List LTag)) : NS :=
  p.loads.foldl (loadStep tbl p.ver subs) []

/-! ### decidable well-formedness of a plan (the hypothesis of the round trip theorem) -/

def entryNames (m : Mapping) (c : Int) : List Name :=
  match List.lookup c m with
  | some (.one x) => [x.id]
  | some (.many xs) => xs.map (·.id)
  | none => []

/-- non-optional with a default: a tag is written whatever the namespace holds -/
def alwaysWritten (ver : Nat) (a : Attr) : Bool := !a.optional && a.default.isSome && a.minVer ≤ ver

def attrNamesOf : List Ev → List Name
  | [] => []
  | .attr n :: rest => n :: attrNamesOf rest
  | .raw _ :: rest => attrNamesOf rest

/-- all names handed to `export_dxf_attribs` by the plan -/
def planNames (p : Plan) : List Name := p.segs.flatMap (fun s => attrNamesOf s.evs)

/-- the names the theorem speaks about: exported, declared, not a callback, version gate open -/
def expNames (S : Schema) (p : Plan) : List Name :=
  (planNames p).filter (fun n =>
    match S.find n with
    | some a => a.xtype != .callback && decide (a.minVer ≤ p.ver)
    | none => false)

/-- the version gate of `_export_group_codes` closes for this attribute: no tag whatever the namespace holds -/
def neverWritten (ver : Nat) (s : STag) : Bool :=
  match s.src with
  | .attr a => ver < a.minVer
  | _ => false

/-- the tag may be resolved as it is: into its own attribute, an ignored name, a name that is not
    exported (payload tags), or left unprocessed where `recover` cannot pick it up -/
def okHere (exp : List Name) (rc : List Int) (s : STag) (r : Option (MName × Bool)) : Bool :=
  match r with
  | some (x, _) =>
    x.star || (match s.src with
      | .attr a => x.id == a.name
      | _ => !exp.contains x.id)
  | none => !rc.contains s.code

/-- an attribute that may write no tag must not change the name resolution of later tags -/
def okSkip (m : Mapping) (ver : Nat) (s : STag) (r : Option (MName × Bool)) (rest : List STag) : Bool :=
  match s.src, r with
  | .attr a, some (x, true) =>
    alwaysWritten ver a || rest.all (fun s' => !(entryNames m s'.code).contains x.id)
  | _, _ => true

/-- the attribute is loaded from its own tag -/
def coverOf (s : STag) (r : Option (MName × Bool)) : List Name :=
  match s.src, r with
  | .attr a, some (x, _) => if !x.star && x.id == a.name then [a.name] else []
  | _, _ => []

/-- symbolic run of the `fast_load_dxfattribs` loop.  `none` = a tag could be loaded into the wrong
    attribute; `some C` = the names that are loaded from their own tag. -/
def simFast (m : Mapping) (ver : Nat) (exp : List Name) (rc : List Int) :
    List Name → List STag → Option (List Name)
  | _, [] => some []
  | P, s :: rest =>
    if neverWritten ver s then simFast m ver exp rc P rest
    else
      if okHere exp rc s (resolve m P s.code) && okSkip m ver s (resolve m P s.code) rest then
        (simFast m ver exp rc (markP P (resolve m P s.code)) rest).map (coverOf s (resolve m P s.code) ++ ·)
      else none

/-- symbolic `start` rule; if the first tag is an attribute (may be absent) no tag may carry code 0/100 -/
def symStart (ss : List STag) : Option (List STag) :=
  match ss with
  | [] => some []
  | s :: rest =>
    match s.src with
    | .attr _ => if ss.all (fun t => !(t.code == 0 || t.code == 100)) then some ss else none
    | _ => some (if s.code == 0 || s.code == 100 then rest else ss)

def simSimple (m : Mapping) (ver : Nat) (exp : List Name) : List STag → Option (List Name)
  | [] => some []
  | s :: rest =>
    match simSimple m ver exp rest with
    | none => none
    | some C =>
      if neverWritten ver s then some C else
      match List.lookup s.code m with
      | some (.one x) =>
        if x.star then some C
        else match s.src with
          | .attr a => if x.id == a.name then some (a.name :: C) else none
          | _ => if exp.contains x.id then none else some C
      | _ => some C

def simStep (tbl : List (Int × Name)) (ver : Nat) (exp : List Name) (sss : List (List STag)) :
    LoadStep → Option (List Name)
  | .fast m sub recover drop =>
    let r12 := ver == 1009 || sss.length == 1
    let sel := if r12 then sss[0]? else sss[sub]?
    match sel with
    | none => some []
    | some ss =>
      -- only payload tags and the marker may be removed by the entity's own pre-processing
      let dropOK := r12 || ss.all (fun s => !drop.contains s.lab || (match s.src with | .attr _ => false | _ => true))
      let ss' := if r12 then ss else ss.filter (fun s => !drop.contains s.lab)
      if dropOK then
        match symStart ss' with
        | none => none
        | some ss'' => simFast m ver exp (if recover && !r12 then recCodes tbl else []) [] ss''
      else none
  | .simple m => simSimple m ver exp sss.flatten

def simSteps (tbl : List (Int × Name)) (ver : Nat) (exp : List Name) (sss : List (List STag)) :
    List LoadStep → Option (List Name)
  | [] => some []
  | st :: rest =>
    match simStep tbl ver exp sss st, simSteps tbl ver exp sss rest with
    | some a, some b => some (a ++ b)
    | _, _ => none

/-- value admissible for attribute `a`: class of the group code; explicit 2D points have z = ±0 -/
def valOK (a : Attr) (v : Val) : Bool :=
  inClass a.code v &&
  (a.xtype != .point2d || (isPointCode a.code && (match v with | .pt _ _ z => isZero z | _ => false)))

def attrOK (a : Attr) : Bool :=
  !isBinaryCode a.code && !(a.code == 0 || a.code == 100) && (a.xtype != .point2d || isPointCode a.code) &&
  (match a.default with | some d => valOK a d | none => true)

/-- every exported attribute: declared, sane code, class-conform default -/
def namesOK (S : Schema) (names : List Name) : Bool :=
  names.all (fun n => match S.find n with | some a => attrOK a | none => false)

/-- raw tags never carry the subclass marker code (those are recorded as markers by the tracer) -/
def rawsOK (p : Plan) : Bool :=
  p.segs.all (fun s => s.evs.all (fun e => match e with | .raw c => c != 100 | .attr _ => true))

/-- the base class comes first and has no marker, every later subclass starts with its marker -/
def shapeOK (p : Plan) : Bool :=
  match p.segs with
  | [] => false
  | s :: rest => s.marker.isNone && rest.all (fun t => t.marker.isSome)

def wfPlan (tbl : List (Int × Name)) (S : Schema) (p : Plan) : Bool :=
  match symSegs S p.segs with
  | none => false
  | some sss =>
    let exp := expNames S p
    namesOK S (planNames p) && rawsOK p && shapeOK p &&
    (match simSteps tbl p.ver exp sss p.loads with
     | none => false
     | some C => exp.all (fun n => C.contains n))

/-- the attributes exported for `p.ver` that are not covered (diagnostics for the generated tables) -/
def uncovered (tbl : List (Int × Name)) (S : Schema) (p : Plan) : List Name :=
  match symSegs S p.segs with
  | none => planNames p
  | some sss =>
    match simSteps tbl p.ver (expNames S p) sss p.loads with
    | none => expNames S p
    | some C => (expNames S p).filter (fun n => !C.contains n)

/-! ### registered classes (instances come from Gen/Schemas.lean) -/

structure ClassSchema where
  dxftype : Name
  attrs : Schema
  plans : List Plan
  deriving Repr

/-- version-monotone export: a name exported for `p.ver ≥ minVer` is exported by every later plan -/
def monoViolations (c : ClassSchema) : List (Name × Nat × Nat) :=
  c.plans.flatMap (fun p =>
    c.plans.flatMap (fun q =>
      if p.ver < q.ver then
        ((planNames p).filter (fun n =>
          (match c.attrs.find n with | some a => a.minVer ≤ p.ver | none => false) &&
          !(planNames q).contains n)).map (fun n => (n, p.ver, q.ver))
      else []))

/-- the other direction: a name exported by a later plan whose version gate is already open for an
    earlier exported version is exported by the earlier plan too -/
def downViolations (c : ClassSchema) : List (Name × Nat × Nat) :=
  c.plans.flatMap (fun p =>
    c.plans.flatMap (fun q =>
      if p.ver < q.ver then
        ((planNames q).filter (fun n =>
          (match c.attrs.find n with | some a => decide (a.minVer ≤ p.ver) | none => false) &&
          !(planNames p).contains n)).map (fun n => (n, p.ver, q.ver))
      else []))

/-! ### payload codecs -/

/-- `TagList/TagArray/VertexArray.from_tags(tags, code)`: the values of all tags with that code -/
def loadSeq (code : Int) (tags : List Tag) : List Val :=
  (tags.filter (fun t => t.code == code)).map (·.val)

/-- one tag per value (`write_tag2(code, v)` / one compiled vertex per `VertexArray` row) -/
def exportSeq (code : Int) (xs : List Val) : List Tag := xs.map (fun v => ⟨code, v⟩)

/-- LWPOLYLINE vertex record: x, y, start width, end width, bulge (bit patterns) -/
structure LWPoint where
  x : Nat
  y : Nat
  s : Nat
  e : Nat
  b : Nat
  deriving DecidableEq, Repr

/-- `LWPolylinePoints.dxftags()`: Python truthiness of a float is `!= 0` -/
def exportLWPoint (p : LWPoint) : List Tag :=
  [⟨10, .pt2 p.x p.y⟩] ++
  (if !isZero p.s || !isZero p.e then [⟨40, .dbl p.s⟩, ⟨41, .dbl p.e⟩] else []) ++
  (if !isZero p.b then [⟨42, .dbl p.b⟩] else [])

def exportLW (ps : List LWPoint) : List Tag := ps.flatMap exportLWPoint

structure LWState where
  done : List LWPoint                 -- `vertices`
  cur : Option (Nat × Nat)            -- `point`
  s : Option Nat                      -- `attribs.get(40)`
  e : Option Nat
  b : Option Nat
  unp : List Tag

def LWState.flush (σ : LWState) : List LWPoint :=
  match σ.cur with
  | some (x, y) => σ.done ++ [⟨x, y, σ.s.getD 0, σ.e.getD 0, σ.b.getD 0⟩]
  | none => σ.done

def dblOf : Val → Nat
  | .dbl b => b
  | _ => 0

def lwStep (σ : LWState) (t : Tag) : LWState :=
  if t.code == 10 then
    match t.val with
    | .pt2 x y => { done := σ.flush, cur := some (x, y), s := none, e := none, b := none, unp := σ.unp }
    | .pt x y _ => { done := σ.flush, cur := some (x, y), s := none, e := none, b := none, unp := σ.unp }
    | _ => σ
  else if t.code == 40 then { σ with s := some (dblOf t.val) }
  else if t.code == 41 then { σ with e := some (dblOf t.val) }
  else if t.code == 42 then { σ with b := some (dblOf t.val) }
  else { σ with unp := σ.unp ++ [t] }

/-- `LWPolylinePoints.from_tags`: (points, unprocessed tags) -/
def loadLW (tags : List Tag) : List LWPoint × List Tag :=
  let σ := tags.foldl lwStep ⟨[], none, none, none, none, []⟩
  (σ.flush, σ.unp)

/-- what the reader restores: suppressed (zero) widths / bulge come back as +0.0 -/
def LWPoint.canon (p : LWPoint) : LWPoint :=
  { p with
    s := if !isZero p.s || !isZero p.e then p.s else 0
    e := if !isZero p.s || !isZero p.e then p.e else 0
    b := if !isZero p.b then p.b else 0 }

/-! ### long strings: `text_to_multi_tags` / `multi_tags_to_text` (strings are lists of code points) -/

/-- `text.replace("\n", "^J")` -/
def nlToCaret : List Nat → List Nat
  | [] => []
  | c :: r => if c == 10 then 94 :: 74 :: nlToCaret r else c :: nlToCaret r

/-- `text.replace("^J", "\n")` (leftmost, non-overlapping) -/
def caretToNl : List Nat → List Nat
  | [] => []
  | [c] => [c]
  | c :: d :: r => if c == 94 && d == 74 then 10 :: caretToNl r else c :: caretToNl (d :: r)

/-- the `chop()` generator: consecutive slices of `size` characters -/
def chop (size : Nat) (h : 0 < size) (s : List Nat) : List (List Nat) :=
  if hs : s = [] then [] else s.take size :: chop size h (s.drop size)
termination_by s.length
decreasing_by
  have : 0 < s.length := List.length_pos_iff.mpr hs
  simp only [List.length_drop]; omega

def textToMultiTags (size : Nat) (h : 0 < size) (code : Int) (text : List Nat) : List Tag :=
  (chop size h (nlToCaret text)).map (fun part => ⟨code, .str part⟩)

def strOf : Val → List Nat
  | .str s => s
  | _ => []

def multiTagsToText (tags : List Tag) : List Nat := caretToNl (tags.flatMap (fun t => strOf t.val))

/-- the text contains the two characters `^J` literally -/
def hasCaretJ : List Nat → Bool
  | [] => false
  | [_] => false
  | c :: d :: r => (c == 94 && d == 74) || hasCaretJ (d :: r)

/-! ### linked sub-entities: `entity_linker` on the loaded entity stream -/

inductive EKind where
  | polyline | insert (attribsFollow : Bool) | vertex | attrib | seqend | other (id : Nat)
  deriving DecidableEq, Repr

/-- an entity of the loaded stream: kind and identity -/
structure Ent where
  kind : EKind
  id : Nat
  deriving DecidableEq, Repr

/-- structured form: a stand-alone entity or a main entity with linked sub-entities and its SEQEND -/
inductive Node where
  | single (e : Ent)
  | linked (main : Ent) (subs : List Ent) (seqend : Ent)
  | unterminated (main : Ent) (subs : List Ent)     -- the stream ended before the SEQEND of `main`
  deriving Repr

inductive LinkErr where
  | dxfStructureError
  deriving DecidableEq, Repr

/-- `LINKED_ENTITIES = {"INSERT": "ATTRIB", "POLYLINE": "VERTEX"}` -/
def expectedSub : EKind → Option EKind
  | .polyline => some .vertex
  | .insert _ => some .attrib
  | _ => none

def startsLink (e : Ent) : Bool :=
  match e.kind with
  | .polyline => true
  | .insert f => f          -- `INSERT` without `attribs_follow` has no linked entities
  | _ => false

/-- the stream written for a node (`export_dxf` of the main entity, its sub-entities, SEQEND) -/
def Node.flatten : Node → List Ent
  | .single e => [e]
  | .linked m subs s => m :: subs ++ [s]
  | .unterminated m subs => m :: subs

/-- state of the linker closure: `main_entity` with the sub-entities collected so far -/
structure LinkState where
  out : List Node
  main : Option (Ent × List Ent)

def linkStep (σ : LinkState) (e : Ent) : Except LinkErr LinkState :=
  match σ.main with
  | some (m, subs) =>
    if e.kind == .seqend then .ok { out := σ.out ++ [.linked m subs e], main := none }
    else if some e.kind == expectedSub m.kind then .ok { σ with main := some (m, subs ++ [e]) }
    else .error .dxfStructureError
  | none =>
    if startsLink e then .ok { σ with main := some (e, []) }
    else .ok { σ with out := σ.out ++ [.single e] }

def linkAll : LinkState → List Ent → Except LinkErr LinkState
  | σ, [] => .ok σ
  | σ, e :: rest =>
    match linkStep σ e with
    | .ok σ' => linkAll σ' rest
    | .error err => .error err

/-- the entities stored in the entity space with their linked sub-entities (the main entity is stored
    when it is seen; the sub-entities are attached to it as they arrive) -/
def link (es : List Ent) : Except LinkErr (List Node) :=
  match linkAll ⟨[], none⟩ es with
  | .ok σ =>
    .ok (σ.out ++ (match σ.main with | some (m, subs) => [.unterminated m subs] | none => []))
  | .error e => .error e

def nodeWF : Node → Bool
  | .single e => !startsLink e
  | .linked m subs s =>
    startsLink m && s.kind == .seqend && subs.all (fun x => some x.kind == expectedSub m.kind)
  | .unterminated _ _ => false

/-! ### the plan without the payload tags of the traced instance

The traced plan of a class lists the payload tags of ONE instance as raw events that the entity's own loader removes
(`drop`) before it calls `fast_load_dxfattribs`.  `stripPlan` removes these events: what remains is what the generic
attribute machinery sees, for a payload of any size. -/

/-- labels (1-based event positions) removed by the entity's own pre-processing of subclass `k` -/
def droppedOf (p : Plan) (k : Nat) : List Nat :=
  p.loads.flatMap (fun st => match st with
    | .fast _ sub _ drop => if sub == k then drop else []
    | .simple _ => [])

def stripEvs (drop : List Nat) : Nat → List Ev → List Ev
  | _, [] => []
  | i, e :: rest => if drop.contains i then stripEvs drop (i + 1) rest else e :: stripEvs drop (i + 1) rest

def stripPlan (p : Plan) : Plan :=
  { ver := p.ver,
    segs := p.segs.zipIdx.map (fun sk => { sk.1 with evs := stripEvs (droppedOf p sk.2) 1 sk.1.evs }),
    loads := p.loads.map (fun st => match st with
      | .fast m sub r _ => .fast m sub r []
      | .simple m => .simple m) }

/-- group codes of the tags that subclass `k` of a plan can hold (attribute tags and raw tags, without the marker) -/
def segCodes (S : Schema) (p : Plan) (k : Nat) : Option (List Int) :=
  match symSegs S p.segs with
  | some sss => sss[k]?.map (fun ss => ss.map (·.code))
  | none => none

end EzdxfVerif.Schema

/-
Model of the first stage BEHIND the recover front end: what `Drawing._load_section_dict` does with every entity
tag group of the section dict before the entity specific attribute loaders run
(`lldxf/loader.py: load_dxf_entities` → `ExtendedTags(entity)` → `factory.load` → `DXFEntity.load_tags`):

* `ExtendedTags._setup` (lldxf/extendedtags.py) on an ARBITRARY (damaged) tag list: base class with application-data
  groups, subclasses, embedded objects, XDATA; the two `raise DXFStructureError` sites of that function are two
  constructors of `SetupErr` (`missingAppClose`, `unexpectedTag`);
* `DXFEntity.setup_app_data` (entities/dxfentity.py) with `Reactors.from_tags` (entities/appdata.py, after the fix
  that ignores invalid handles), `ExtensionDict.from_tags` (entities/xdict.py: `raise DXFStructureError`) and
  `AppData.add` (the quirk that a group closed by `APPID}` gets a second closing tag);
* `XData(tags.xdata)` with the `except DXFValueError: XData.safe_init` fallback (entities/xdata.py, lldxf/repair.py:
  `filter_invalid_xdata_group_codes`).

`_setup` is a generator-driven sequence of `while` loops; here it is ONE structural fold over the tag list with the
phase (base class / inside an app-data group / subclass / embedded object / XDATA) as state.  Core Lean only.
Values are the compiled values of the front-end model (`CTag`); the tags with the codes 100, 101, 102, 1001 carry
string values (theorem `inspected_codes_are_strings`), so `tag.value.startswith("{")` cannot raise.

The order in which `load_and_bind_dxf_content` walks the sections and the sections `_load_section_dict` creates when
the dict has no entry are `loadOrder` / `createdSections` (regenerated names are checked in `regenerate`).
-/
import EzdxfVerif.Model.Recover
namespace EzdxfVerif.RecoverLoad
open EzdxfVerif.Recover EzdxfVerif.Gen.RecoverTables

/-! ### `ExtendedTags._setup` -/

/-- `is_app_data_marker`: code 102 and `value.startswith("{")` -/
def isAppStart (t : CTag) : Bool :=
  t.code == 102 && (match t.val with | .str (123 :: _) => true | _ => false)

/-- `is_embedded_object_marker` -/
def isEO (t : CTag) : Bool := t.code == 101 && t.val == .str sEmbeddedObject

/-- `is_end_of_class` -/
def isEndOfClass (t : CTag) : Bool := t.code == 100 || isEO t || t.code == 1001

/-- `tag.code == APP_DATA_MARKER and tag.value in ("}", starttag.value[1:] + "}")` -/
def isAppClose (start t : CTag) : Bool :=
  t.code == 102 &&
    (t.val == .str [125] ||
      (match start.val with
       | .str (_ :: name) => t.val == .str (name ++ [125])
       | _ => false))

/-- a member of the base class: a tag or the placeholder `DXFTag(102, app_data_pos)` -/
inductive BItem where
  | tag (t : CTag)
  | app (idx : Nat)
  deriving DecidableEq, Repr

structure XT where
  base : List BItem
  subclasses : List (List CTag)      -- without the base class; every subclass starts with its (100, name) tag
  appdata : List (List CTag)
  embedded : List (List CTag)
  xdata : List (List CTag)
  deriving DecidableEq, Repr

/-- the two `raise DXFStructureError(...)` sites of `_setup` -/
inductive SetupErr where
  | missingAppClose      -- "Missing closing (102, '}') tag in appdata structure."
  | unexpectedTag        -- "Unexpected tag '%r' at end of entity."
  deriving DecidableEq, Repr

inductive Phase where
  | base
  | app (start : CTag)
  | sub
  | emb
  | xd
  deriving DecidableEq, Repr

/-- all lists reversed; `cur` = the group being collected (app-data group, subclass, embedded object, XDATA) -/
structure St where
  phase : Phase
  base : List BItem
  cur : List CTag
  subs : List (List CTag)
  apps : List (List CTag)
  embs : List (List CTag)
  xds : List (List CTag)
  deriving Repr

def St.init : St := ⟨.base, [], [], [], [], [], []⟩

/-- the tag returned by `collect_base_class` / `collect_subclass` enters the three `while` loops from the top -/
def dispatchTop (s : St) (t : CTag) : Except SetupErr St :=
  if t.code == 100 then .ok { s with phase := .sub, cur := [t] }
  else if isEO t then .ok { s with phase := .emb, cur := [t] }
  else if t.code == 1001 then .ok { s with phase := .xd, cur := [t] }
  else .error .unexpectedTag

/-- the tag returned by `collect_embedded_object`: the subclass loop is over -/
def dispatchEmb (s : St) (t : CTag) : Except SetupErr St :=
  if isEO t then .ok { s with phase := .emb, cur := [t] }
  else if t.code == 1001 then .ok { s with phase := .xd, cur := [t] }
  else .error .unexpectedTag

/-- the tag returned by `collect_xdata`: only the XDATA loop is left -/
def dispatchXd (s : St) (t : CTag) : Except SetupErr St :=
  if t.code == 1001 then .ok { s with phase := .xd, cur := [t] }
  else .error .unexpectedTag

def St.step (s : St) (t : CTag) : Except SetupErr St :=
  match s.phase with
  | .base =>
    if isAppStart t then
      .ok { s with phase := .app t, base := .app s.apps.length :: s.base, cur := [t] }
    else if isEndOfClass t then dispatchTop s t
    else .ok { s with base := .tag t :: s.base }
  | .app start =>
    if isAppClose start t then .ok { s with phase := .base, apps := (t :: s.cur).reverse :: s.apps, cur := [] }
    else .ok { s with cur := t :: s.cur }
  | .sub =>
    if isEndOfClass t then dispatchTop { s with subs := s.cur.reverse :: s.subs, cur := [] } t
    else .ok { s with cur := t :: s.cur }
  | .emb =>
    if isEO t || t.code == 1001 then dispatchEmb { s with embs := s.cur.reverse :: s.embs, cur := [] } t
    else .ok { s with cur := t :: s.cur }
  | .xd =>
    if t.code == 1001 then dispatchXd { s with xds := s.cur.reverse :: s.xds, cur := [] } t
    else .ok { s with cur := t :: s.cur }

/-- end of the tag list (`StopIteration`) -/
def St.finish (s : St) : Except SetupErr XT :=
  match s.phase with
  | .base => .ok ⟨s.base.reverse, s.subs.reverse, s.apps.reverse, s.embs.reverse, s.xds.reverse⟩
  | .app _ => .error .missingAppClose
  | .sub => .ok ⟨s.base.reverse, (s.cur.reverse :: s.subs).reverse, s.apps.reverse, s.embs.reverse, s.xds.reverse⟩
  | .emb => .ok ⟨s.base.reverse, s.subs.reverse, s.apps.reverse, (s.cur.reverse :: s.embs).reverse, s.xds.reverse⟩
  | .xd => .ok ⟨s.base.reverse, s.subs.reverse, s.apps.reverse, s.embs.reverse, (s.cur.reverse :: s.xds).reverse⟩

def setupGo : St → List CTag → Except SetupErr XT
  | s, [] => s.finish
  | s, t :: r =>
    match s.step t with
    | .error e => .error e
    | .ok s' => setupGo s' r

/-- `ExtendedTags(tags)` -/
def setup (tags : List CTag) : Except SetupErr XT := setupGo St.init tags

/-- `ExtendedTags.__iter__`: the tags in file order -/
def expandBase (apps : List (List CTag)) : List BItem → List CTag
  | [] => []
  | .tag t :: r => t :: expandBase apps r
  | .app i :: r => apps.getD i [] ++ expandBase apps r

def XT.iter (x : XT) : List CTag :=
  expandBase x.appdata x.base ++ x.subclasses.flatten ++ x.embedded.flatten ++ x.xdata.flatten

/-! ### `DXFEntity.setup_app_data`, `XData.__init__` -/

def sAcadReactors : Str := [123, 65, 67, 65, 68, 95, 82, 69, 65, 67, 84, 79, 82, 83]
def sAcadXdictionary : Str := [123, 65, 67, 65, 68, 95, 88, 68, 73, 67, 84, 73, 79, 78, 65, 82, 89]

/-- Python `dict[key] = value`: an existing key keeps its position -/
def dictSet {α : Type} (d : List (Str × α)) (k : Str) (v : α) : List (Str × α) :=
  if d.any (fun e => e.1 == k) then d.map (fun e => if e.1 == k then (k, v) else e) else d ++ [(k, v)]

/-- `is_valid_handle(value)`: a str that `int(value, 16)` accepts (ASCII part of the grammar) -/
def isValidHandle (v : CVal) : Bool :=
  match v with
  | .str s => (pyIntHex s).isSome
  | _ => false

def strOf (v : CVal) : Str := match v with | .str s => s | _ => []

/-- `Reactors.from_tags(tags)`: the values of `tags[1:-1]` that are valid handles (a set in Python; here in order) -/
def reactorsFromTags (g : List CTag) : Except PyErr (List Str) :=
  if g.length < 2 then .error .dxfStructureError
  else
    let inner := (g.drop 1).dropLast
    -- `treeFixReactors` (probed from the source): values that are no valid handles are ignored
    .ok ((if treeFixReactors then inner.filter (fun t => isValidHandle t.val) else inner).map (fun t => strOf t.val))

/-- `ExtensionDict.from_tags(tags)`: `len(tags) != 3 or tags[1].code != 360` raises DXFStructureError -/
def xdictFromTags (g : List CTag) : Except PyErr CVal :=
  match g with
  | [_, h, _] => if h.code == xdictHandleCode then .ok h.val else .error .dxfStructureError
  | _ => .error .dxfStructureError

/-- `AppData.add(appid, data)`: first tag is (102, appid) already; a (102, "}") is appended unless the last tag is
    exactly that -/
def appDataAdd (g : List CTag) : List CTag :=
  if g.getLast? == some ⟨102, .str [125]⟩ then g else g ++ [⟨102, .str [125]⟩]

structure Envelope where
  xt : XT
  reactors : Option (List Str)
  xdict : Option CVal
  appdata : List (Str × List CTag)
  xdata : List (Str × List CTag)
  deriving Repr

structure AppAcc where
  reactors : Option (List Str)
  xdict : Option CVal
  appdata : List (Str × List CTag)

def appStep (a : AppAcc) (g : List CTag) : Except PyErr AppAcc :=
  let appid := strOf ((g.head?.map (·.val)).getD (.str []))
  if appid == sAcadReactors then
    match reactorsFromTags g with
    | .error e => .error e
    | .ok r => .ok { a with reactors := some r }
  else if appid == sAcadXdictionary then
    match xdictFromTags g with
    | .error e => .error e
    | .ok h => .ok { a with xdict := some h }
  else .ok { a with appdata := dictSet a.appdata appid (appDataAdd g) }

def setupAppData : AppAcc → List (List CTag) → Except PyErr AppAcc
  | a, [] => .ok a
  | a, g :: r =>
    match appStep a g with
    | .error e => .error e
    | .ok a' => setupAppData a' r

def isValidXdataCode (c : Int) : Bool := c ≥ 0 && validXdataCodes.contains c.toNat

/-- `XData._add` for every group; `none` = DXFValueError (a group with an invalid group code) -/
def xdataAdd : List (Str × List CTag) → List (List CTag) → Option (List (Str × List CTag))
  | d, [] => some d
  | d, g :: r =>
    match g with
    | [] => xdataAdd d r
    | h :: _ => if g.all (fun t => isValidXdataCode t.code) then xdataAdd (dictSet d (strOf h.val) g) r else none

/-- `XData(tags.xdata)` with the fallback `XData.safe_init(tags.xdata)` -/
def xdataInit (groups : List (List CTag)) : List (Str × List CTag) :=
  match xdataAdd [] groups with
  | some d => d
  | none => (xdataAdd [] (groups.map (fun g => g.filter (fun t => isValidXdataCode t.code)))).getD []

def setupErr : SetupErr → PyErr
  | _ => .dxfStructureError

/-- `factory.load(ExtendedTags(entity), doc)` up to the entity specific attribute loader: the generic envelope
    (`ExtendedTags` + `setup_app_data` + `XData`) or the exception it raises -/
def loadEnvelope (e : List CTag) : Except PyErr Envelope :=
  match setup e with
  | .error x => .error (setupErr x)
  | .ok xt =>
    match setupAppData ⟨none, none, []⟩ xt.appdata with
    | .error x => .error x
    | .ok a => .ok ⟨xt, a.reactors, a.xdict, a.appdata, xdataInit xt.xdata⟩

/-! ### dispatch of `_load_section_dict` -/

/-- `load_and_bind_dxf_content`: the order in which the sections' entity groups go through `factory.load` -/
def loadOrder : List Str := [sTables, sClasses, sEntities, sBlocks, sObjects]

/-- every group of the dict in load order (sections that are missing contribute nothing) -/
def loadSequence (d : SectionDict) : List (List CTag) :=
  loadOrder.flatMap (fun n => ((d.find? (fun e => e.1 == n)).map (·.2)).getD [])

/-- first loading stage over the whole section dict: the envelopes of all groups or the first exception -/
def loadAll : List (List CTag) → Except PyErr (List Envelope)
  | [] => .ok []
  | e :: r =>
    match loadEnvelope e with
    | .error x => .error x
    | .ok v =>
      match loadAll r with
      | .error x => .error x
      | .ok vs => .ok (v :: vs)

def loadStage (d : SectionDict) : Except PyErr (List Envelope) := loadAll (loadSequence d)

end EzdxfVerif.RecoverLoad

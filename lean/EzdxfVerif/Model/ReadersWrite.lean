/-
C08  Tag-level model of `Drawing.write` (document.py `Drawing.export_sections`, sections/entities.py
`EntitySection.export_dxf`, `EntitySpace.export_dxf`, `StoredSection.export_dxf`) on top of Model/Readers.lean.

`Model/Doc.lean` (`writeFile`, C04/C05) describes WHICH handles reach the ENTITIES section; here the rendering of those
records into the tag stream is modelled: the sections in the order of the `export_sections` statements, every entity as its
`export_dxf` writes it (`Ent.flat`: main entity, then - Polyline/Insert export them themselves - sub-entities and SEQEND).
The content of the records (attribute tags) is abstract: a `DocW` carries the tags of every record, and `DocOK` states what
each record has to satisfy LOCALLY (one record / one section body at a time); `writers_wf` (Props/C08) derives the GLOBAL
predicate `FileWF'` the reader theorems need.

`ofAbs` ties the handle-level `Doc.FileAbs` (what `Doc.writeFile s` yields for a document state `s`) to a `DocW`.
Core Lean only.
-/
import EzdxfVerif.Model.Readers
import EzdxfVerif.Model.Doc

namespace EzdxfVerif.Readers

/-- the content of a document as `Drawing.export_sections` walks through it, at tag level -/
structure DocW where
  /-- `tagwriter.dxfversion > DXF12` is false -/
  r12 : Bool
  /-- body of the HEADER section as `HeaderSection.export_dxf` writes it: `(9, $NAME)`, value tag(s), ... -/
  header : List Tag
  classes : List Tag
  tables : List Tag
  blocks : List Tag
  objects : List Tag
  /-- `self.acdsdata.is_valid` and (inside `AcDsDataSection.export_dxf`) `has_records`: an empty section writes nothing -/
  acds : Option (List Tag)
  /-- `self.stored_sections`: sections ezdxf does not manage (THUMBNAILIMAGE ...), written back as loaded -/
  stored : List Section
  /-- `layouts.modelspace().entity_space` -/
  msp : List Ent
  /-- `layouts.active_layout().entity_space` -/
  psp : List Ent

/-- the sections in front of ENTITIES, in the order of the statements of `export_sections` -/
def DocW.pre (d : DocW) : List Section :=
  ⟨"HEADER", d.header⟩ :: ((if d.r12 then [] else [⟨"CLASSES", d.classes⟩]) ++ [⟨"TABLES", d.tables⟩, ⟨"BLOCKS", d.blocks⟩])

/-- the sections behind ENTITIES -/
def DocW.post (d : DocW) : List Section :=
  (if d.r12 then [] else [⟨"OBJECTS", d.objects⟩])
    ++ ((match d.acds with | some a => [⟨"ACDSDATA", a⟩] | none => []) ++ d.stored)

/-- `Drawing.export_sections(tagwriter)`, statement by statement (the order is regenerated from the AST into
    `Gen.ReaderTables.exportOrder` and compared by `gen_export_order`) -/
def writeDoc (d : DocW) : List Tag :=
  renderSec ⟨"HEADER", d.header⟩                                            -- self.header.export_dxf
    ++ ((if d.r12 then [] else renderSec ⟨"CLASSES", d.classes⟩)             -- if dxfversion > DXF12: self.classes.export_dxf
    ++ (renderSec ⟨"TABLES", d.tables⟩                                       -- self.tables.export_dxf
    ++ (renderSec ⟨"BLOCKS", d.blocks⟩                                       -- self.blocks.export_dxf
    -- self.entities.export_dxf: "SECTION/ENTITIES", modelspace().entity_space, active_layout().entity_space, ENDSEC
    ++ ((tSECTION :: ⟨2, "ENTITIES"⟩ :: (d.msp.flatMap Ent.flat ++ d.psp.flatMap Ent.flat ++ [tENDSEC]))
    ++ ((if d.r12 then [] else renderSec ⟨"OBJECTS", d.objects⟩)             -- if dxfversion > DXF12: self.objects.export_dxf
    ++ ((match d.acds with | some a => renderSec ⟨"ACDSDATA", a⟩ | none => [])   -- if self.acdsdata.is_valid
    ++ (d.stored.flatMap renderSec                                          -- for section in self.stored_sections
    ++ [tEOF])))))))                                                         -- tagwriter.write_tag2(0, "EOF")

/-- the names of the export steps of `writeDoc` as the regenerated table spells them -/
def exportOrderModel : List String :=
  ["header", ">R12:classes", "tables", "blocks", "entities", ">R12:objects", "valid:acdsdata", "each:stored_sections", "tag:0,EOF"]

/-- `EntitySection.export_dxf`: modelspace first, then the active layout -/
def entitySpaceOrderModel : List String := ["str:  0/SECTION/  2/ENTITIES/", "modelspace", "active_layout", "tag:0,ENDSEC"]

/-- what the readers' `Cfg` has to satisfy for the structure tags every writer emits:
    `strip()` / `strip().upper()` leave SECTION, ENDSEC, EOF alone and ENTITIES is a managed section -/
def cfgOK (cfg : Cfg) : Bool :=
  ["SECTION", "ENDSEC", "EOF"].all (fun s => cfg.strip s == s && cfg.upper (cfg.stripB s) == s) && cfg.managed "ENTITIES"

/-- a tag a writer may emit inside a record: a group code fileindex accepts, not a comment; a structure tag is unpadded
    and upper case (so the code-0 normalisation of the tag compilers is the identity on it) -/
def wTagOK (cfg : Cfg) (m : Nat) (t : Tag) : Bool :=
  decide (t.code ≤ m) && t.code != 999 && (t.code != 0 || (cfg.strip t.val == t.val && cfg.upper (cfg.stripB t.val) == t.val))

/-- LOCAL condition on one section body: no tag opens/closes a section or ends the file, every tag is `wTagOK` -/
def wBodyOK (cfg : Cfg) (m : Nat) (b : List Tag) : Bool := bodyOK b && b.all (wTagOK cfg m)

/-- LOCAL condition on one entity as `export_dxf` writes it: what the linker would build (`entWF`), complete (POLYLINE
    and INSERT-with-attribs always carry their SEQEND: `export_seqend`), an INSERT without ATTRIBs has no SEQEND, every
    group is a structure tag followed by non-structure tags, its type is no section keyword, every tag is `wTagOK`, and
    the paperspace flag (67) agrees with the owner handle (330) - `set_owner` maintains both together -/
def wEntOK (cfg : Cfg) (m : Nat) (e : Ent) : Bool :=
  entWF cfg e && !e.isOpen cfg && e.exportable
    && e.groups.all (fun g =>
        groupOK g && dxftype g != "SECTION" && dxftype g != "ENDSEC" && dxftype g != "EOF"
          && g.all (wTagOK cfg m) && cfg.pspS g == cfg.psp g)

/-- LOCAL well-formedness of a document's content: one condition per section body / per entity, plus
    `$ACADVER` of the header agrees with the writer's version switch -/
def DocOK (cfg : Cfg) (m : Nat) (d : DocW) : Bool :=
  cfgOK cfg && decide (2 ≤ m)
    && wBodyOK cfg m d.header && headerOK d.header
    && wBodyOK cfg m d.classes && wBodyOK cfg m d.tables && wBodyOK cfg m d.blocks && wBodyOK cfg m d.objects
    && (match d.acds with | some a => wBodyOK cfg m a | none => true)
    && d.stored.all (fun s => wBodyOK cfg m s.body && s.name != "ENTITIES" && s.name != "HEADER")
    && (d.msp ++ d.psp).all (wEntOK cfg m)
    && (!d.r12 || !decide ("AC1009" < hdrVersion "AC1009" d.header))

/-- the paperspace flags are what `set_owner` made them: clear in the modelspace, set in the active paperspace
    (for a document whose active layout IS the modelspace - never the case in ezdxf - `psp` would be empty) -/
def flagsOK (cfg : Cfg) (d : DocW) : Bool :=
  d.msp.all (fun e => !cfg.psp e.main) && d.psp.all (fun e => cfg.psp e.main)

/-! ## r12export -/

/-- addons/r12export.py `R12Exporter.to_string`: `"".join((header, tables, blocks, entities, EOF_STR))`, the ENTITIES part
    by `export_layouts_to_string`: section head, modelspace, paperspace (each entity converted to R12 entities by
    `export_entity_space`: `msp` / `psp` are the CONVERTED entities), ENDSEC -/
def r12exportFile (header tables blocks : List Tag) (msp psp : List Ent) : List Tag :=
  renderSec ⟨"HEADER", header⟩ ++ (renderSec ⟨"TABLES", tables⟩ ++ (renderSec ⟨"BLOCKS", blocks⟩
    ++ ((tSECTION :: ⟨2, "ENTITIES"⟩ :: (msp.flatMap Ent.flat ++ psp.flatMap Ent.flat ++ [tENDSEC])) ++ [tEOF])))

/-- the same content as a document of the R12 branch of `Drawing.export_sections` -/
def r12exportDoc (header tables blocks : List Tag) (msp psp : List Ent) : DocW :=
  { r12 := true, header := header, classes := [], tables := tables, blocks := blocks, objects := [], acds := none,
    stored := [], msp := msp, psp := psp }

def r12exportOrderModel : List String :=
  ["export_header_to_string", "export_tables_to_string", "export_blocks_to_string", "export_layouts_to_string", "EOF_STR"]

def r12exportLayoutsModel : List String := ["section:ENTITIES", "modelspace", "paperspace", "endsec"]

/-! ## the handle level of Model/Doc.lean rendered into tags -/

/-- `Doc.FileAbs` (handles of the ENTITIES section: modelspace, then active paperspace, as `Doc.writeFile s` lists them
    for a document state `s`) rendered with a content function `handle → entity record`.  The written tag stream depends
    on the concatenation only, so the whole handle list is rendered as one entity space. -/
def ofAbs (frame : DocW) (content : Nat → Ent) (fa : Doc.FileAbs) : DocW :=
  { frame with msp := fa.entities.map content, psp := [] }

end EzdxfVerif.Readers

/-
Model of the code that keeps content ezdxf does not interpret (property C02), on top of `Model/XTags.lean`:

* `DXFTagStorage.load` (entities/dxfentity.py): `ExtendedTags._setup`, `DXFEntity.load_tags` (`setup_app_data` with the
  `AppData` dict, `Reactors` set, `ExtensionDict` handle; `XData` dict with the invalid-group-code filter), the handle/owner scan of
  `DXFNamespace.__init__` (entities/dxfns.py), `store_tags`, `store_embedded_objects`;
* `DXFEntity.export_dxf` = `export_base_class` + `DXFTagStorage.export_entity` + `export_xdata`, assembled in the statement order
  that `Gen/StorageTables.lean` extracts from the current source;
* document level: `load_dxf_structure` (lldxf/loader.py), the stored-section filter of `Drawing._load/_load_section_dict`,
  `StoredSection.export_dxf`, `Drawing.export_sections`; the `$CUSTOMPROPERTYTAG/$CUSTOMPROPERTY` stack of `HeaderSection.load_tags`
  and `ClassesSection.register`.

Tag values are opaque strings (lists of code points).  Core Lean only.
The second half of the file is the *specification* side used by the theorems of `Props/C02.lean`: `parseItems`, `entityWF`,
`baseOrdered`, `canon`.
-/
import EzdxfVerif.Model.XTags
import EzdxfVerif.Gen.StorageTables

namespace EzdxfVerif.Storage
open EzdxfVerif.XTags
open EzdxfVerif.Gen.StorageTables

/-! ## small Python containers -/

/-- (102, "}") -/
def closeBrace : Tag := ⟨102, .str [125]⟩

inductive Err where
  | missingAppClose | unexpectedTag     -- DXFStructureError raised by ExtendedTags._setup
  | noType                              -- IndexError: the base class is empty
  | xdictError                          -- DXFStructureError("ACAD_XDICTIONARY error.")
  | badReactor                          -- ValueError of int(handle, 16) in Reactors.get at export time
  deriving Repr, DecidableEq

/-- Python `d[k] = v` on an insertion-ordered dict: an existing key keeps its position -/
def dictSet {β : Type} (d : List (V × β)) (k : V) (v : β) : List (V × β) :=
  if d.any (fun p => p.1 == k) then d.map (fun p => if p.1 == k then (k, v) else p) else d ++ [(k, v)]

/-- `set(handles)` as the list of distinct members (first occurrence order; CPython iterates in hash order, which is
    irrelevant after `sorted` unless two different strings have the same numeric key) -/
def dedup : List V → List V
  | [] => []
  | a :: r => a :: (dedup r).filter (fun b => b != a)

def hexDigit (c : Nat) : Option Nat :=
  if 48 ≤ c ∧ c ≤ 57 then some (c - 48)
  else if 65 ≤ c ∧ c ≤ 70 then some (c - 55)
  else if 97 ≤ c ∧ c ≤ 102 then some (c - 87)
  else none

def hexAcc : List Nat → Nat → Option Nat
  | [], acc => some acc
  | c :: r, acc => match hexDigit c with | some d => hexAcc r (acc * 16 + d) | none => none

/-- `int(s, 16)` for s in [0-9A-Fa-f]+ ; `none` = ValueError (other accepted spellings are outside the model) -/
def hexVal (s : List Nat) : Option Nat := if s.isEmpty then none else hexAcc s 0

def hexKeyV : V → Option Nat
  | .str s => hexVal s
  | .ref _ => none

/-- stable insertion sort by a numeric key = `sorted(xs, key=key)` -/
def insertBy {α : Type} (key : α → Nat) (a : α) : List α → List α
  | [] => [a]
  | b :: r => if key a < key b then a :: b :: r else b :: insertBy key a r

def isort {α : Type} (key : α → Nat) : List α → List α
  | [] => []
  | a :: r => insertBy key a (isort key r)

/-! ## DXFTagStorage.load -/

def dimstyleStr : List Nat := [68, 73, 77, 83, 84, 89, 76, 69]

/-- `105 if dxftype == "DIMSTYLE" else 5` -/
def hcOf (typ : V) : Nat := if typ == .str dimstyleStr then 105 else 5

/-- Python truthiness of a tag value -/
def truthy : V → Bool
  | .str [] => false
  | .str _ => true
  | .ref n => n != 0

def optTruthy : Option V → Bool
  | some v => truthy v
  | none => false

/-- the `for tag in base_class` loop of `DXFNamespace.__init__` -/
def scanHO (hc : Nat) : List Tag → Option V → Option V → Option V × Option V
  | [], h, o => (h, o)
  | t :: r, h, o =>
    if t.code == hc then
      (if optTruthy o then (some t.val, o) else scanHO hc r (some t.val) o)
    else if t.code == 330 then
      (if optTruthy h then (h, some t.val) else scanHO hc r h (some t.val))
    else scanHO hc r h o

structure AD where
  appdata : List (V × List Tag)
  xdict : Option V
  reactors : Option (List V)
  deriving Repr, DecidableEq

/-- the values `Reactors.from_tags` puts into the set: all of them, or (after the fix that made loading of damaged files robust)
    only those `int(x, 16)` accepts; which one is regenerated from the source (`Gen.reactorsDropInvalid`) -/
def reactorVals (vs : List V) : List V :=
  if reactorsDropInvalid then vs.filter (fun v => (hexKeyV v).isSome) else vs

/-- one iteration of `DXFEntity.setup_app_data`; `g` = one `ExtendedTags.appdata` entry (start tag … closing tag) -/
def setupAppStep (a : AD) (g : List Tag) : Except Err AD :=
  match g with
  | [] => .ok a
  | st :: body =>
    if st.val == .str acadReactors then
      -- Reactors.from_tags: set(tag.value for tag in tags[1:-1]) [if the value is a valid handle: Gen.reactorsDropInvalid]
      .ok { a with reactors := some (dedup (reactorVals (body.dropLast.map (·.val)))) }
    else if st.val == .str acadXDictionary then
      -- ExtensionDict.from_tags
      match body with
      | [h, _] => if h.code == xdictHandleCode then .ok { a with xdict := some h.val } else .error .xdictError
      | _ => .error .xdictError
    else
      -- AppData.add: the closing (102, "}") is appended when the group ended with the alternative "APPID}" tag
      let data := if g.getLast? == some closeBrace then g else g ++ [closeBrace]
      .ok { a with appdata := dictSet a.appdata st.val data }

def setupApp : List (List Tag) → AD → Except Err AD
  | [], a => .ok a
  | g :: r, a => match setupAppStep a g with
    | .ok a' => setupApp r a'
    | .error e => .error e

def validX (t : Tag) : Bool := validXdataCodes.contains t.code

/-- `XData(tags.xdata)` with the fall back to `XData.safe_init` -/
def xdataLoad : List (List Tag) → List (V × List Tag) → List (V × List Tag)
  | [], d => d
  | g :: r, d => match g.filter validX with
    | [] => xdataLoad r d
    | t :: f => xdataLoad r (dictSet d t.val (t :: f))

structure Ent where
  typ : V                            -- DXFTYPE = base_class[0].value
  handle : Option V                  -- dxf.handle
  owner : Option V                   -- dxf.owner
  appdata : List (V × List Tag)      -- AppData.data
  xdict : Option V                   -- ExtensionDict._xdict (handle of the 1st loading stage)
  reactors : Option (List V)         -- Reactors.reactors
  subs : List (List Tag)             -- xtags.subclasses[1:]
  embedded : List (List Tag)         -- embedded_objects
  xdata : List (V × List Tag)        -- XData.data
  deriving Repr, DecidableEq

def load (ts : List Tag) : Except Err Ent :=
  match setup ts with
  | .error .missingAppClose => .error .missingAppClose
  | .error .unexpectedTag => .error .unexpectedTag
  | .ok x =>
    match x.subclasses with
    | [] => .error .noType
    | [] :: _ => .error .noType
    | (t0 :: base) :: subs =>
      match setupApp x.appdata ⟨[], none, none⟩ with
      | .error e => .error e
      | .ok ad =>
        let ho := scanHO (hcOf t0.val) (t0 :: base) none none
        .ok ⟨t0.val, ho.1, ho.2, ad.appdata, ad.xdict, ad.reactors, subs, x.embedded, xdataLoad x.xdata []⟩

/-! ## DXFEntity.export_dxf for a tag storage entity -/

def noneStr : List Nat := [78, 111, 110, 101]   -- "%s" % None

/-- `Reactors.export_dxf` -/
def reactorsOut (rs : List V) : Except Err (List Tag) :=
  if rs.all (fun v => (hexKeyV v).isSome) then
    .ok ([⟨appDataMarker, .str acadReactors⟩]
      ++ (isort (fun v => (hexKeyV v).getD 0) rs).map (fun v => ⟨reactorHandleCode, v⟩) ++ [closeBrace])
  else .error .badReactor

/-- `ExtensionDict.export_dxf`, guarded by `has_extension_dict`: the handle must resolve to a live entity (2nd loading stage) -/
def xdictOut (alive : V → Bool) : Option V → List Tag
  | some h => if alive h then [⟨appDataMarker, .str acadXDictionary⟩, ⟨xdictHandleCode, h⟩, closeBrace] else []
  | none => []

def basePart (alive : V → Bool) (e : Ent) (re : List Tag) : BasePart → List Tag
  | .handle => [⟨hcOf e.typ, e.handle.getD (.str noneStr)⟩]
  | .appdata => (e.appdata.map (·.2)).flatten
  | .xdict => xdictOut alive e.xdict
  | .reactors => re
  | .owner => [⟨ownerCode, e.owner.getD (.str [48])⟩]

def storagePart (e : Ent) : StoragePart → List Tag
  | .subclasses => e.subs.flatten
  | .embedded => e.embedded.flatten

/-- `XData.export_dxf` (options.filter_invalid_xdata_group_codes = True) -/
def xdataOut (e : Ent) : List Tag := (e.xdata.map (fun p => p.2.filter validX)).flatten

/-- `if self.reactors: self.reactors.export_dxf(tagwriter)` (an empty set is falsy) -/
def reactorsPart (r : Option (List V)) : Except Err (List Tag) :=
  match r with
  | some (x :: xs) => reactorsOut (x :: xs)
  | _ => .ok []

def exportEnt (alive : V → Bool) (e : Ent) : Except Err (List Tag) :=
  match reactorsPart e.reactors with
  | .error x => .error x
  | .ok re =>
    .ok (entityOrder.flatMap fun
      | .base => ⟨structureMarker, e.typ⟩ :: baseOrder.flatMap (basePart alive e re)
      | .entity => storageOrder.flatMap (storagePart e)
      | .xdata => xdataOut e)

/-- `DXFEntity.export_base_class` (session 3: the part shared by every class with the generic export) -/
def baseOut (alive : V → Bool) (e : Ent) (re : List Tag) : List Tag :=
  ⟨structureMarker, e.typ⟩ :: baseOrder.flatMap (basePart alive e re)

/-- `DXFEntity.export_dxf` of a class that keeps the generic base class and XDATA handling: `body` = what its `export_entity`
    writes -/
def exportGeneric (alive : V → Bool) (body : List Tag) (e : Ent) : Except Err (List Tag) :=
  match reactorsPart e.reactors with
  | .error x => .error x
  | .ok re =>
    .ok (entityOrder.flatMap fun
      | .base => baseOut alive e re
      | .entity => body
      | .xdata => xdataOut e)

/-! ## XRECORD (entities/dxfobj.py): base class and XDATA by the generic code above, the payload by `XRecord` -/

def sAcDbXrecord : List Nat := [65, 99, 68, 98, 88, 114, 101, 99, 111, 114, 100]   -- "AcDbXrecord"

/-- the validator / fixer of the `cloning` attribute: an integer 0..5, anything else becomes the default 1 -/
def fixCloning (v : V) : V :=
  match v with
  | .str [c] => if 48 ≤ c ∧ c ≤ 53 then v else .str [49]
  | _ => .str [49]

/-- `XRecord.load_dxf_attribs`: (dxf.cloning, self.tags) from `processor.subclasses[1:]`; `none` = DXFStructureError
    "Missing subclass AcDbXrecord".  The first tag of the subclass is the marker, the second the cloning flag 280 (default 1). -/
def xrecordPayload (keepLater : Bool) (subs : List (List Tag)) : Option (V × List Tag) :=
  match subs with
  | [] => none
  | s1 :: later =>
    let hd : V × Nat := match s1 with
      | _ :: t :: _ => if t.code == 280 then (fixCloning t.val, 2) else (.str [49], 1)
      | _ => (.str [49], 1)
    some (hd.1, s1.drop hd.2 ++ (if keepLater then later.flatten else []))

/-- `DXFEntity.export_dxf` of an XRecord: generic base class, `XRecord.export_entity`, XDATA (embedded objects are not kept) -/
def exportXRecord (alive : V → Bool) (e : Ent) : Except Err (List Tag) :=
  match xrecordPayload xrecordKeepsLaterSubclasses e.subs, reactorsPart e.reactors with
  | none, _ => .error .noType          -- raised while loading
  | some _, .error x => .error x
  | some (cl, payload), .ok re =>
    .ok (entityOrder.flatMap fun
      | .base => ⟨structureMarker, e.typ⟩ :: baseOrder.flatMap (basePart alive e re)
      | .entity => ⟨100, .str sAcDbXrecord⟩ :: ⟨280, cl⟩ :: payload
      | .xdata => xdataOut e)

/-- load, then save -/
def roundtrip (alive : V → Bool) (ts : List Tag) : Except Err (List Tag) :=
  match load ts with
  | .error e => .error e
  | .ok e => exportEnt alive e

/-! ## specification side: items of the base class, well-formedness, canonical order -/

inductive Item where
  | handle (t : Tag)
  | owner (t : Tag)
  | group (g : List Tag)
  deriving Repr, DecidableEq

def groupKey (g : List Tag) : V := match g with
  | [] => .str []
  | t :: _ => t.val

def Item.tags : Item → List Tag
  | .handle t => [t]
  | .owner t => [t]
  | .group g => g

def Item.kind : Item → BasePart
  | .handle _ => .handle
  | .owner _ => .owner
  | .group g =>
    if groupKey g == .str acadReactors then .reactors
    else if groupKey g == .str acadXDictionary then .xdict
    else .appdata

/-- split the tags that follow (0, TYPE) into base-class items and the rest (from the first subclass marker, embedded-object
    marker or XDATA marker on); `none` = an application-data group is not closed or a tag other than handle / owner / group
    occurs.  `cur` = the group being read. -/
def parseItems (hc : Nat) : List Tag → Option (Tag × List Tag) → Option (List Item × List Tag)
  | [], none => some ([], [])
  | [], some _ => none
  | t :: r, some (st, g) =>
    if isAppClose st t then
      match parseItems hc r none with
      | some (is, rest) => some (.group (g ++ [t]) :: is, rest)
      | none => none
    else parseItems hc r (some (st, g ++ [t]))
  | t :: r, none =>
    if isAppStart t then parseItems hc r (some (t, [t]))
    else if isEndOfClass t then some ([], t :: r)
    else if t.code == hc then
      match parseItems hc r none with
      | some (is, rest) => some (.handle t :: is, rest)
      | none => none
    else if t.code == 330 then
      match parseItems hc r none with
      | some (is, rest) => some (.owner t :: is, rest)
      | none => none
    else none

def hexKeyT (t : Tag) : Nat := (hexKeyV t.val).getD 0

/-- strictly ascending -/
def ascending : List Nat → Bool
  | a :: b :: r => a < b && ascending (b :: r)
  | _ => true

def nodupV : List V → Bool
  | [] => true
  | a :: r => !r.contains a && nodupV r

def nodupN : List Nat → Bool
  | [] => true
  | a :: r => !r.contains a && nodupN r

/-- the handles of a reactors group `[start] ++ handles ++ [close]` -/
def groupBody (g : List Tag) : List Tag := (g.drop 1).dropLast

/-- a group of the base class is well formed: closed by the plain (102, "}"); the extension dictionary group holds exactly one
    (360, handle) that resolves; the reactors group holds only (330, hex handle) tags with pairwise different numbers -/
def groupWF (alive : V → Bool) (g : List Tag) : Bool :=
  g.getLast? == some closeBrace &&
  (if groupKey g == .str acadReactors then
     (groupBody g).all (fun t => t.code == reactorHandleCode && (hexKeyV t.val).isSome)
       && nodupN ((groupBody g).map hexKeyT) && !(groupBody g).isEmpty
   else if groupKey g == .str acadXDictionary then
     (match g with
      | [_, h, _] => h.code == xdictHandleCode && alive h.val
      | _ => false)
   else true)

def itemWF (alive : V → Bool) : Item → Bool
  | .group g => groupWF alive g
  | _ => true

def countKind (k : BasePart) (items : List Item) : Nat := (items.filter (fun i => i.kind == k)).length

/-- everything after the base class: subclasses, embedded objects, XDATA -/
def restXdata (rest : List Tag) : List (List Tag) :=
  let subs := collectGroups (fun t => t.code == 100) isEndOfClass rest
  let emb := collectGroups isEO (fun t => isEO t || t.code == 1001) subs.2
  (collectGroups (fun t => t.code == 1001) (fun t => t.code == 1001) emb.2).1

def restWF (rest : List Tag) : Bool :=
  (restXdata rest).all (fun g => g.all validX) && nodupV ((restXdata rest).map groupKey)

def strOnly (ts : List Tag) : Bool := ts.all (fun t => match t.val with | .str _ => true | .ref _ => false)

def itemsWF (alive : V → Bool) (items : List Item) : Bool :=
  countKind .handle items == 1 && countKind .owner items == 1
    && decide (countKind .xdict items ≤ 1) && decide (countKind .reactors items ≤ 1)
    && nodupV ((items.filter (fun i => i.kind == .appdata)).map (fun i => groupKey i.tags))
    && items.all (itemWF alive)

/-- `EntityWF`: the decidable well-formedness of the tag sequence of one unknown entity or object -/
def entityWF (alive : V → Bool) (ts : List Tag) : Bool :=
  match ts with
  | [] => false
  | t0 :: r =>
    t0.code == 0 && strOnly ts &&
    (match parseItems (hcOf t0.val) r none with
     | none => false
     | some (items, rest) => itemsWF alive items && restWF rest)

def stage : BasePart → Nat
  | .handle => 0 | .appdata => 1 | .xdict => 2 | .reactors => 3 | .owner => 4

def sortedLE : List Nat → Bool
  | a :: b :: r => a ≤ b && sortedLE (b :: r)
  | _ => true

def itemSorted : Item → Bool
  | .group g => if groupKey g == .str acadReactors then ascending ((groupBody g).map hexKeyT) else true
  | _ => true

/-- the base class is already in ezdxf's order: handle, application groups, extension dictionary, reactors (ascending), owner -/
def baseOrdered (items : List Item) : Bool :=
  sortedLE (items.map (fun i => stage i.kind)) && items.all itemSorted

def entityOrdered (ts : List Tag) : Bool :=
  match ts with
  | [] => false
  | t0 :: r => match parseItems (hcOf t0.val) r none with
    | none => false
    | some (items, _) => baseOrdered items

/-- a reactors group with its handles sorted by number -/
def sortGroup (g : List Tag) : List Tag :=
  match g with
  | [] => []
  | st :: _ => st :: isort hexKeyT (groupBody g) ++ (match g.getLast? with | some c => [c] | none => [])

def Item.normTags (i : Item) : List Tag :=
  if i.kind == .reactors then sortGroup i.tags else i.tags

def ofKind (k : BasePart) (items : List Item) : List Tag :=
  (items.filter (fun i => i.kind == k)).flatMap Item.normTags

/-- the items in ezdxf's fixed order (a stable partition by kind; reactor handles sorted) -/
def canonItems (items : List Item) : List Tag :=
  ofKind .handle items ++ ofKind .appdata items ++ ofKind .xdict items ++ ofKind .reactors items ++ ofKind .owner items

def canon (ts : List Tag) : List Tag :=
  match ts with
  | [] => []
  | t0 :: r => match parseItems (hcOf t0.val) r none with
    | none => ts
    | some (items, rest) => t0 :: canonItems items ++ rest

def isPointer (t : Tag) : Bool := pointerCodes.contains t.code || handleCodes.contains t.code

/-! ## document level: load_dxf_structure, stored sections, export_sections -/

abbrev Rec := List Tag

def sSECTION : List Nat := [83, 69, 67, 84, 73, 79, 78]
def sENDSEC : List Nat := [69, 78, 68, 83, 69, 67]
def sEOF : List Nat := [69, 79, 70]

/-- `entity[0] == (0, name)` -/
def isType (name : List Nat) (r : Rec) : Bool :=
  match r with
  | t :: _ => t.code == 0 && t.val == .str name
  | [] => false

inductive SErr where
  | missingEndsec | endsecWithoutSection | missingName | missingEof
  deriving Repr, DecidableEq

structure LS where
  sections : List (V × List Rec)     -- OrderedDict name -> list of records (first record = section head)
  cur : List Rec
  eof : Bool
  deriving Repr, DecidableEq

def inside (cur : List Rec) : Bool :=
  match cur with
  | r :: _ => isType sSECTION r
  | [] => false

def sectionName (head : Rec) : Option V :=
  match head with
  | _ :: t :: _ => if t.code == 2 then some t.val else none
  | _ => none

/-- body of the `for entity in group_tags(tagger)` loop of `load_dxf_structure` -/
def loadStep (s : LS) (r : Rec) : Except SErr LS :=
  if isType sSECTION r then
    (if inside s.cur then .error .missingEndsec else .ok { s with cur := [r] })
  else if isType sENDSEC r then
    (if !inside s.cur then .error .endsecWithoutSection
     else match s.cur with
      | [] => .error .endsecWithoutSection
      | head :: _ => match sectionName head with
        | none => .error .missingName
        | some n => .ok { sections := dictSet s.sections n s.cur, cur := [], eof := s.eof })
  else if isType sEOF r then .ok { s with eof := true }
  else .ok { s with cur := s.cur ++ [r] }

def loadLoop : List Rec → LS → Except SErr LS
  | [], s => .ok s
  | r :: rs, s => match loadStep s r with
    | .ok s' => loadLoop rs s'
    | .error e => .error e

def loadStructure (recs : List Rec) : Except SErr (List (V × List Rec)) :=
  match loadLoop recs ⟨[], [], false⟩ with
  | .error e => .error e
  | .ok s => if inside s.cur then .error .missingEndsec else if !s.eof then .error .missingEof else .ok s.sections

def isManaged (n : V) : Bool := managedSections.any (fun m => n == .str m)
def isDeleted (n : V) : Bool := deletedSections.any (fun m => n == .str m)

/-- `Drawing._load` deletes THUMBNAILIMAGE; `_load_section_dict` stores every section whose name is not in MANAGED_SECTIONS -/
def storedSections (secs : List (V × List Rec)) : List (List Rec) :=
  ((secs.filter (fun p => !isDeleted p.1)).filter (fun p => !isManaged p.1)).map (·.2)

def endsecTag : Tag := ⟨0, .str sENDSEC⟩
def eofTag : Tag := ⟨0, .str sEOF⟩

/-- `StoredSection.export_dxf` for every stored section -/
def exportStored (stored : List (List Rec)) : List Tag :=
  stored.flatMap (fun recs => recs.flatten ++ [endsecTag])

/-- `Drawing.export_sections`; the output of the managed sections is a parameter -/
def exportSections (managed : SectionPart → List Tag) (stored : List (List Rec)) : List Tag :=
  sectionOrder.flatMap fun
    | .stored => exportStored stored
    | .eof => [eofTag]
    | p => managed p

/-- the stored-section part of load -> save of a whole file given as records -/
def passSections (recs : List Rec) : Except SErr (List Tag) :=
  match loadStructure recs with
  | .error e => .error e
  | .ok secs => .ok (exportStored (storedSections secs))

/-! ## custom header properties and CLASS registration -/

def sCustomTag : List Nat := [36, 67, 85, 83, 84, 79, 77, 80, 82, 79, 80, 69, 82, 84, 89, 84, 65, 71]   -- "$CUSTOMPROPERTYTAG"
def sCustomProp : List Nat := [36, 67, 85, 83, 84, 79, 77, 80, 82, 79, 80, 69, 82, 84, 89]   -- "$CUSTOMPROPERTY"
def sLastSavedBy : List Nat := [36, 76, 65, 83, 84, 83, 65, 86, 69, 68, 66, 89]   -- "$LASTSAVEDBY"

/-- `custom_property_stack`: the first value of every $CUSTOMPROPERTYTAG / $CUSTOMPROPERTY group in file order;
    a header group is (variable name, value of its first tag) -/
def customStack (groups : List (V × V)) : List V :=
  (groups.filter (fun g => g.1 == .str sCustomTag || g.1 == .str sCustomProp)).map (·.2)

/-- `reverse()` + pairs of `pop()`: consecutive pairs in file order, an odd last value is dropped -/
def pairUp : List V → List (V × V)
  | a :: b :: r => (a, b) :: pairUp r
  | _ => []

def customLoad (groups : List (V × V)) : List (V × V) := pairUp (customStack groups)

/-- `CustomVars.write` as header groups -/
def customGroups (ps : List (V × V)) : List (V × V) :=
  ps.flatMap (fun p => [(.str sCustomTag, p.1), (.str sCustomProp, p.2)])

/-- `HeaderSection.export_dxf`: the custom properties are written inside the loop over the exported variables right behind
    $LASTSAVEDBY; when the loop did not write them, the statement behind the loop does (`Gen.customFallback`: only for a target
    version >= R2004, because $CUSTOMPROPERTYTAG / $CUSTOMPROPERTY are R2004 header variables).  `r2004` = dxfversion >= DXF2004. -/
def customWritten (r2004 : Bool) (exported : List V) (ps : List (V × V)) : List (V × V) :=
  exported.flatMap (fun n => if n == .str sLastSavedBy then customGroups ps else []) ++
    (if exported.contains (.str sLastSavedBy) then []
     else match customFallback with
       | .never => []
       | .always => customGroups ps
       | .fromR2004 => if r2004 then customGroups ps else [])

/-- `ClassesSection.register`: the key (name, cpp_class_name) is kept once, first wins -/
def register (acc : List (V × V)) : List (V × V) → List (V × V)
  | [] => acc
  | c :: r => if acc.contains c then register acc r else register (acc ++ [c]) r

/-! ## example inputs (non-vacuity checks and counterexamples of Props/C02.lean) -/
namespace Ex

def T (c : Nat) (s : String) : Tag := ⟨c, .str (s.toList.map Char.toNat)⟩

/-- an unknown entity in ezdxf's order: application group, extension dictionary, three reactors, two subclasses with a point,
    a binary chunk, a 64-bit integer and pointers, an embedded object, two XDATA sets with nested lists -/
def widget : List Tag :=
  [T 0 "ACME_WIDGET", T 5 "2F", T 102 "{ACME", T 1 "x", T 340 "1A", T 102 "}",
   T 102 "{ACAD_XDICTIONARY", T 360 "30", T 102 "}",
   T 102 "{ACAD_REACTORS", T 330 "9", T 330 "1B", T 330 "100", T 102 "}", T 330 "1F",
   T 100 "AcDbEntity", T 8 "0", T 100 "AcmeWidget", T 10 "1.0,2.0,3.0", T 310 "DEADBEEF", T 160 "9223372036854775807",
   T 340 "2A", T 102 "{NOT_A_GROUP_HERE", T 101 "Embedded Object", T 1 "inner",
   T 1001 "ACME", T 1000 "s", T 1002 "{", T 1070 "1", T 1002 "{", T 1005 "2A", T 1002 "}", T 1002 "}",
   T 1001 "OTHER", T 1010 "0.0,0.0,1.0"]

/-- the same entity as another application may write it: owner first, reactors unsorted, groups in another order -/
def widgetShuffled : List Tag :=
  [T 0 "ACME_WIDGET", T 330 "1F", T 102 "{ACAD_REACTORS", T 330 "100", T 330 "9", T 330 "1B", T 102 "}",
   T 102 "{ACAD_XDICTIONARY", T 360 "30", T 102 "}", T 102 "{ACME", T 1 "x", T 340 "1A", T 102 "}", T 5 "2F",
   T 100 "AcDbEntity", T 8 "0", T 100 "AcmeWidget", T 10 "1.0,2.0,3.0", T 310 "DEADBEEF", T 160 "9223372036854775807",
   T 340 "2A", T 102 "{NOT_A_GROUP_HERE", T 101 "Embedded Object", T 1 "inner",
   T 1001 "ACME", T 1000 "s", T 1002 "{", T 1070 "1", T 1002 "{", T 1005 "2A", T 1002 "}", T 1002 "}",
   T 1001 "OTHER", T 1010 "0.0,0.0,1.0"]

def allAlive : V → Bool := fun _ => true
def noneAlive : V → Bool := fun _ => false

def dupXdata : List Tag :=
  [T 0 "FOO", T 5 "A", T 330 "B", T 100 "AcDbFoo", T 1001 "APP", T 1000 "first", T 1001 "OTHER", T 1000 "o",
   T 1001 "APP", T 1000 "second"]
def dupXdataOut : List Tag :=
  [T 0 "FOO", T 5 "A", T 330 "B", T 100 "AcDbFoo", T 1001 "APP", T 1000 "second", T 1001 "OTHER", T 1000 "o"]

def foreignBase : List Tag := [T 0 "FOO", T 5 "A", T 1 "foreign", T 330 "B", T 100 "AcDbFoo"]
def foreignBaseOut : List Tag := [T 0 "FOO", T 5 "A", T 330 "B", T 100 "AcDbFoo"]

def altClose : List Tag := [T 0 "FOO", T 5 "A", T 102 "{APP", T 1 "x", T 102 "APP}", T 330 "B"]
def altCloseOut : List Tag := [T 0 "FOO", T 5 "A", T 102 "{APP", T 1 "x", T 102 "APP}", T 102 "}", T 330 "B"]

def xdictEnt : List Tag := [T 0 "FOO", T 5 "A", T 102 "{ACAD_XDICTIONARY", T 360 "30", T 102 "}", T 330 "B"]
def bareEnt : List Tag := [T 0 "FOO", T 5 "A", T 330 "B"]

def emptyReactors : List Tag := [T 0 "FOO", T 5 "A", T 102 "{ACAD_REACTORS", T 102 "}", T 330 "B"]

def dupAppKey : List Tag :=
  [T 0 "FOO", T 5 "A", T 102 "{APP", T 1 "first", T 102 "}", T 102 "{APP", T 1 "second", T 102 "}", T 330 "B"]
def dupAppKeyOut : List Tag := [T 0 "FOO", T 5 "A", T 102 "{APP", T 1 "second", T 102 "}", T 330 "B"]

def twoHandles : List Tag := [T 0 "FOO", T 5 "A", T 5 "B", T 330 "C", T 330 "D"]
def twoHandlesOut : List Tag := [T 0 "FOO", T 5 "B", T 330 "C"]

def noHandle : List Tag := [T 0 "FOO", T 100 "AcDbFoo"]
def noHandleOut : List Tag := [T 0 "FOO", T 5 "None", T 330 "0", T 100 "AcDbFoo"]

def secRec (name : String) : Rec := [T 0 "SECTION", T 2 name]
/-- a file with a thumbnail, an unknown section, a managed section and a second unknown section -/
def fileRecs : List Rec :=
  [secRec "THUMBNAILIMAGE", [T 0 "x", T 90 "3"], [endsecTag], secRec "FOO", [T 0 "BAR", T 1 "payload"], [endsecTag],
   secRec "OBJECTS", [T 0 "DICTIONARY", T 5 "C"], [endsecTag], secRec "ZED", [endsecTag], [eofTag]]
def fileStoredOut : List Tag :=
  [T 0 "SECTION", T 2 "FOO", T 0 "BAR", T 1 "payload", endsecTag, T 0 "SECTION", T 2 "ZED", endsecTag]

/-- the same section name twice -/
def dupSection : List Rec :=
  [secRec "FOO", [T 0 "BAR", T 1 "first"], [endsecTag], secRec "FOO", [T 0 "BAR", T 1 "second"], [endsecTag], [eofTag]]
def dupSectionOut : List Tag := [T 0 "SECTION", T 2 "FOO", T 0 "BAR", T 1 "second", endsecTag]

end Ex

end EzdxfVerif.Storage

import EzdxfVerif.Model.Heap

/-!
Copy recipes as programs (C16, session 3).

`Model/Heap.lean` describes a `copy_data` method by one letter per payload part.  That was enough for the classes
whose `copy_data` is a list of `entity.x = f(self.x)` assignments, and left out the helper classes with their own
`copy()` / `__copy__` / `deep_copy` / `__deepcopy__` methods (MLineVertex, MLineStyleElements, MTextColumns,
EmbeddedMText, the Dimension family, the ACIS transformation state).  Here a recipe is a small program:

  * `Pol`  how the value of one slot of the clone is computed from the value of the same slot of the source:
      `deep`        `copy.deepcopy(self.x)`
      `alias`       `self.x` (the very object)
      `ents`        copied by the strategy: an entity by `CopyStrategy.copy`, a container item by item
      `const t`     a value made without looking at the source: `None`, what `__init__` stored, `SomeClass()`
      `gen i`       what a generator produced from another part of the document (input `i`), e.g.
                    `EntitySpace(self.virtual_entities())`: strategy copies of the geometry block's entities
      `each p`      a new container of the same kind, every item by `p`   (`list(x)` = `each alias`,
                    `[v.copy() for v in x]` = `each (fields ...)`)
      `fields ps`   a new object of the same kind, slot `i` by `ps[i]` (a hand written `copy()` of a helper class)
  * `PPol` one part of a `copy_data` method: a `Pol`, or two of them under an `if` on the source value;
  * `copyP`: `CopyStrategy.copy` with such recipes (same header as `copyT`);
  * `Ty`, `shape`, `wt`: what the parts of a class hold (inferred from the populated instances, T-heap):
      `ok` = harmless to share (deep immutable, or a Frozen resource), `coll τ`, `obj [τ...]`, `any`;
  * `polSafe`: the static check that relates the two tables: a policy passes by reference only what is `ok`.

Core Lean only.
-/
namespace EzdxfVerif.Heap

inductive Pol where
  | deep
  | alias
  | ents
  | const (t : ATree)
  | gen (i : Nat)
  | each (p : Pol)
  | fields (ps : List Pol)
  deriving Repr

inductive Test where
  /-- `if x is not None` / `if x` for an optional object -/
  | notNone
  /-- truthiness of a container found by following child indices -/
  | nonEmpty (path : List Nat)
  deriving Repr

inductive PPol where
  | one (p : Pol)
  | cond (c : Test) (p q : Pol)
  deriving Repr

inductive RoleP where
  | keep | ns | xdict | none_ | deep | src | part (p : PPol)
  deriving Repr

def headerRolesP : List RoleP := [.keep, .ns, .xdict, .none_, .keep, .deep, .deep, .src]

def rolesOfP (rc : Nat → List PPol) (cls : Nat) : List RoleP :=
  headerRolesP ++ (rc cls).map RoleP.part

def childAt : ATree → Nat → Option ATree
  | .node _ _ cs, i => cs[i]?
  | .ent _ _ cs, i => cs[i]?
  | _, _ => none

def follow : ATree → List Nat → Option ATree
  | t, [] => some t
  | t, i :: p =>
    match childAt t i with
    | some c => follow c p
    | none => none

def evalTest : Test → ATree → Bool
  | .notNone, .leaf v => v != NONE
  | .notNone, _ => true
  | .nonEmpty p, t =>
    match follow t p with
    | some (.node _ _ (_ :: _)) => true
    | some (.ent _ _ _) => true
    | _ => false

def pickP : PPol → ATree → Pol
  | .one p, _ => p
  | .cond c p q, t => if evalTest c t then p else q

mutual
  /-- `rc cls` = recipe of class `cls` (payload parts in slot order), `g i` = result of generator `i` -/
  def polT (rc : Nat → List PPol) (g : Nat → ATree) : Pol → ATree → ATree
    | .deep, t => deepT t
    | .alias, t => aliasT t
    | .const c, _ => c
    | .gen i, _ => g i
    | .ents, .ent a c cs => .ent a c (kidsP rc g (hasDoc cs) a (rolesOfP rc c) cs)
    | .ents, .node a k cs => .node a k (eachP rc g .ents cs)
    | .ents, t => t
    | .each p, .node a k cs => .node a k (eachP rc g p cs)
    | .each _, t => t
    | .fields ps, .node a k cs => .node a k (zipP rc g ps cs)
    | .fields _, t => t
  def eachP (rc : Nat → List PPol) (g : Nat → ATree) (p : Pol) : List ATree → List ATree
    | [] => []
    | t :: ts => polT rc g p t :: eachP rc g p ts
  def zipP (rc : Nat → List PPol) (g : Nat → ATree) : List Pol → List ATree → List ATree
    | p :: ps, t :: ts => polT rc g p t :: zipP rc g ps ts
    | _, _ => []
  def kidsP (rc : Nat → List PPol) (g : Nat → ATree) (doc : Bool) (src : Nat) :
      List RoleP → List ATree → List ATree
    | _, [] => []
    | [], t :: ts => deepT t :: kidsP rc g doc src [] ts
    | r :: rs, t :: ts =>
      (match r with
       | .keep => t
       | .ns => nsT t
       | .xdict => if doc then polT rc g .ents t else .leaf NONE
       | .none_ => .leaf NONE
       | .deep => deepT t
       | .src => .navr src
       | .part pp => polT rc g (pickP pp t) t) :: kidsP rc g doc src rs ts
end

/-- `CopyStrategy.copy` with program recipes (the counterpart of `copyT`) -/
def copyP (rc : Nat → List PPol) (g : Nat → ATree) (t : ATree) : ATree := polT rc g .ents t

/-- generators do not nest: the inputs of the generators are copied with a table of empty generator results -/
def genResults (rc : Nat → List PPol) (env : Nat → ATree) : Nat → ATree :=
  fun i => copyP rc (fun _ => .leaf NONE) (env i)

/-- the whole copy: `env i` = value tree of input `i` of the generators (e.g. the geometry block's entities) -/
def copyTop (rc : Nat → List PPol) (env : Nat → ATree) (t : ATree) : ATree :=
  copyP rc (genResults rc env) t

/-! ### what may be shared -/

mutual
  /-- harmless to share: everything owned below is of an immutable kind or a member of the Frozen list -/
  def okT (fro : List Nat) : ATree → Bool
    | .leaf _ => true
    | .navr _ => true
    | .share _ o => okT fro o
    | .node a k cs => (k == .imm || fro.contains a) && okTL fro cs
    | .ent a _ cs => fro.contains a && okTL fro cs
  def okTL (fro : List Nat) : List ATree → Bool
    | [] => true
    | t :: ts => okT fro t && okTL fro ts
end

mutual
  /-- the existing objects a tree refers to, with their value trees -/
  def sharesO : ATree → List (Nat × ATree)
    | .leaf _ => []
    | .navr _ => []
    | .share a o => [(a, o)]
    | .node _ _ cs => sharesOL cs
    | .ent _ _ cs => sharesOL cs
  def sharesOL : List ATree → List (Nat × ATree)
    | [] => []
    | t :: ts => sharesO t ++ sharesOL ts
end

/-! ### source trees and heaps -/

mutual
  /-- the heap `h` holds the value tree `t` at the reference `r` (objects at the addresses written in the tree) -/
  def Rep (h : Heap) : ATree → Ref → Prop
    | .leaf v, r => r = .val v
    | .navr a, r => r = .nav a
    | .share a o, r => r = .own a ∧ Rep h o (.own a)
    | .node a k cs, r => r = .own a ∧ ∃ rs, h[a]? = some ⟨k, rs⟩ ∧ RepL h cs rs
    | .ent a _ cs, r => r = .own a ∧ ∃ rs, h[a]? = some ⟨.cell, rs⟩ ∧ RepL h cs rs
  def RepL (h : Heap) : List ATree → List Ref → Prop
    | [], rs => rs = []
    | t :: ts, rs => ∃ r rs', rs = r :: rs' ∧ Rep h t r ∧ RepL h ts rs'
end

/-! ### types of parts -/

inductive Ty where
  | any
  | ok
  | coll (item : Ty)
  | obj (fs : List Ty)
  deriving Repr

mutual
  def shape (fro : List Nat) : Ty → ATree → Bool
    | .any, _ => true
    | .ok, t => okT fro t
    | .coll τ, .node _ _ cs => shapeAll fro τ cs
    | .coll _, .leaf _ => true
    | .coll _, _ => false
    | .obj fs, .node _ _ cs => shapeZip fro fs cs
    | .obj _, .leaf _ => true
    | .obj _, _ => false
  def shapeAll (fro : List Nat) (τ : Ty) : List ATree → Bool
    | [] => true
    | t :: ts => shape fro τ t && shapeAll fro τ ts
  def shapeZip (fro : List Nat) : List Ty → List ATree → Bool
    | _, [] => true
    | [], _ :: _ => false
    | f :: fs, t :: ts => shape fro f t && shapeZip fro fs ts
end

/-- types of the eight header children of an entity: doc, namespace (every value `ok`), extension dictionary,
    reactors, proxy graphic, appdata, xdata, source of copy -/
def headerTys : List Ty := [.any, .coll .ok, .any, .any, .any, .any, .any, .any]

def entTys (cty : Nat → List Ty) (c : Nat) : List Ty := headerTys ++ cty c

mutual
  /-- well typed source tree: no `share` nodes, and the children of every entity have the types of its class -/
  def wt (fro : List Nat) (cty : Nat → List Ty) : ATree → Bool
    | .leaf _ => true
    | .navr _ => true
    | .share _ _ => false
    | .node _ _ cs => wtL fro cty cs
    | .ent _ c cs => wtL fro cty cs && shapeZip fro (entTys cty c) cs
  def wtL (fro : List Nat) (cty : Nat → List Ty) : List ATree → Bool
    | [] => true
    | t :: ts => wt fro cty t && wtL fro cty ts
end

mutual
  /-- no `share` node -/
  def noSh : ATree → Bool
    | .leaf _ => true
    | .navr _ => true
    | .share _ _ => false
    | .node _ _ cs => noShL cs
    | .ent _ _ cs => noShL cs
  def noShL : List ATree → Bool
    | [] => true
    | t :: ts => noSh t && noShL ts
end

mutual
  /-- the static check: policy `p` applied to a value of type `τ` passes by reference only what is `ok` -/
  def polSafe : Pol → Ty → Bool
    | .deep, _ => true
    | .alias, .ok => true
    | .alias, _ => false
    | .ents, _ => true
    | .const c, _ => noSh c
    | .gen _, _ => true
    | .each p, .coll τ => polSafe p τ
    | .each p, .ok => polSafe p .ok
    | .each p, .any => polSafe p .any
    | .each _, .obj _ => false
    | .fields ps, .obj fs => zipSafe ps fs
    | .fields _, _ => false
  def zipSafe : List Pol → List Ty → Bool
    | [], _ => true
    | _ :: _, [] => false
    | p :: ps, f :: fs => polSafe p f && zipSafe ps fs
end

def ppolSafe : PPol → Ty → Bool
  | .one p, τ => polSafe p τ
  | .cond _ p q, τ => polSafe p τ && polSafe q τ

/-- recipe of a class against the types of its parts: no more policies than typed parts -/
def partsSafe : List PPol → List Ty → Bool
  | [], _ => true
  | _ :: _, [] => false
  | p :: ps, f :: fs => ppolSafe p f && partsSafe ps fs

/-! ### positions that the translated copy methods may pass by reference, beyond `aliasAllowed` / `shallowAllowed`
    (checked against the generated list `okParts`: every `alias` of every translated method, helper classes included) -/

def helperAllowed : List (String × String) := [
  ("*", "_sat"),                          -- ACIS: tuple of str (the property setter stores `tuple(data)`)
  ("*", "_sab"),                          -- ACIS: bytes
  ("Dictionary", "_data"), ("DictionaryWithDefault", "_data"),   -- not hard owned: entries are soft pointers (Frozen)
  ("MLineVertex", "location"), ("MLineVertex", "line_direction"), ("MLineVertex", "miter_direction"),   -- Vec3
  ("MLineVertex", "line_params"), ("MLineVertex", "fill_params"),   -- new list of tuples of float
  ("MLineStyleElements", "elements"),     -- new list of MLineStyleElement named tuples ("immutable data")
  -- MTextColumns.shallow_copy / deep_copy: numbers and an enum; `heights` new list of float
  ("MTextColumns", "column_type"), ("MTextColumns", "count"), ("MTextColumns", "auto_height"),
  ("MTextColumns", "reversed_column_flow"), ("MTextColumns", "defined_height"), ("MTextColumns", "width"),
  ("MTextColumns", "gutter_width"), ("MTextColumns", "total_width"), ("MTextColumns", "total_height"),
  ("MTextColumns", "heights"),
  -- MTextColumns.shallow_copy only (the documented shallow copy handed out by the `MText.columns` property):
  -- new list of the same linked MTEXT entities; `deep_copy`, the one `copy_data` calls, replaces it by strategy
  -- copies - the recipe of MText in `recipesP` has `each ents` there and `recipes_safe` checks that one
  ("MTextColumns", "linked_columns"),
  ("Reactors", "reactors")                -- new set of str (only with CopySettings.copy_reactors)
]

/-- how a scanned copy method may be accounted for: translated into a recipe of the table (`recipe`) or of a helper class
    (`helper`), refusing the copy (`raises CopyNotSupported`), the strategy itself / the namespace copy / the type cast
    constructor (compared statement by statement with the modelled skeleton), a second name of another method
    (`alias`), or a copy protocol method of a harmless form: of a value class (Vec2/Vec3), returning self, or
    reconstructing a new object from the values of self (`__reduce__`) -/
def copyDispositions : List String :=
  ["recipe", "helper", "raises", "strategy", "namespace", "type-cast", "alias", "immutable-value", "immutable-self",
   "reconstruct"]

/-! ### flows at source level (T-ast scanner harness/translate/floweffects_c16.py, `flowEffects` of Gen/HeapGraphs.lean)

The scanner reads the flow functions (virtual_block_reference_entities, explode_block_reference, explode_entity,
copy_to_layout, duplicate_entity, add_attrib, the DIMENSION generator ...) and reports every store into, every call with
unknown effect on, and every hand-out of an object that is NOT a product of the function (a product = a name bound to
`x.copy()`, the strategy copy, a factory / constructor call, the result or an item of another flow).  What remains are
the effects below: the steps of `flows_frame` that are not "produce" or "write through a product". -/

def flowEffectsAllowed : List (String × String × String) := [
  -- copy_data writes the CLONE (its parameter is called `entity`): the second stage of the copy itself
  ("dimension.Dimension.copy_data", "call", "entity.dxf.discard"),
  ("dimension.Dimension.copy_data", "store", "entity.virtual_block_content"),
  -- the product is linked into the target layout / the document: the collection `b` of `flows_frame`
  ("dxfgfx.DXFGraphic.copy_to_layout", "call", "layout.add_entity"),
  ("entitydb.EntityDB.duplicate_entity", "call", "doc.objects.add_object"),
  ("entitydb.EntityDB.duplicate_entity", "call", "factory.bind"),
  ("explode.attrib_to_text", "call", "factory.bind"),
  ("explode.explode_block_reference._explode_single_block_ref", "call", "target_layout.add_entity"),
  ("explode.explode_entity", "call", "target_layout.add_entity"),
  -- explode() is documented to destroy the exploded entity (the INSERT / DIMENSION itself, not the block definition)
  ("explode.explode_block_reference", "call", "entitydb.delete_entity"),
  ("explode.explode_block_reference", "call", "source_layout.delete_entity"),
  ("explode.explode_entity", "call", "entitydb.delete_entity"),
  ("explode.explode_entity", "call", "source_layout.delete_entity"),
  -- documented: the callback receives "the original (untransformed) DXF entity of the block definition"
  ("explode.virtual_block_reference_entities.disassemble", "call", "skipped_entity_callback"),
  ("explode.virtual_block_reference_entities.transform", "call", "skipped_entity_callback"),
  -- add_attrib extends the INSERT it is called on: the INSERT is the collection
  ("insert.Insert.add_attrib", "call", "self.attribs.append"),
  ("insert.Insert.add_attrib", "call", "self.new_seqend"),
  ("insert.Insert.add_auto_attribs", "hand-out", "return self"),      -- fluent interface
  ("insert.Insert.add_auto_attribs.unpack", "call", "dxfattribs.pop"),   -- the dict made by attdef.dxfattribs()
  -- the dict of the new sub-entity: add_attrib passes a fresh dict (`dict(dxfattribs or {})`)
  ("subentity.LinkedEntities._new_compound_entity", "store", "dxfattribs['layer']")
]

/-! ### module level state (T-heap scanner, `globalsTable` of Gen/HeapGraphs.lean) -/

/-- module level mutable objects that a document or entity may hold by identity (name prefixes, with the reason).
    Empty: since fix 6d1f8396b every document gets its own copy of the templates in tools/standards.py. -/
def globalsSharedAllowed : List String := []

/-- module level objects that document operations may change (name prefixes, with the reason).  Empty on the
    current tree: after the warm-up run of the battery (lazily filled caches, registries) a second run changes none. -/
def globalsMutatedAllowed : List String := []

def globalOK (r : String × String × String) : Bool :=
  r.2.2 == "stable" ||
  (r.2.2 == "handed-out" && globalsSharedAllowed.any (fun p => p.isPrefixOf r.1)) ||
  (r.2.2 == "changed" && globalsMutatedAllowed.any (fun p => p.isPrefixOf r.1))

/-! ### generated tables -/

def lookupL {α : Type} (tbl : List (Nat × List α)) (c : Nat) : List α :=
  match tbl.find? (fun r => r.1 == c) with
  | some r => r.2
  | none => []

/-- every row of the recipe table is safe against the row of the type table with the same class id -/
def tableSafe (rc : List (Nat × List PPol)) (cty : List (Nat × List Ty)) : Bool :=
  rc.all (fun r => partsSafe r.2 (lookupL cty r.1))

/-! ### flows: producing entities from a source and then working on the products -/

/-- the heap after building the model copy of `t` and the root of the copy -/
def copyInto (rc : Nat → List PPol) (env : Nat → ATree) (h : Heap) (t : ATree) : Heap × Ref :=
  alloc h (copyTop rc env t)

/-! ### small instances for the non-vacuity checks -/

/-- class 0: an entity with a deep copied part, an aliased tuple, a list of helper objects copied field by field
    (first field by reference, second a new list of immutable items), and a list of sub-entities;
    class 1: a sub-entity without parts; class 2: a DIMENSION like entity whose only part is produced by a
    generator unless the source already carries it -/
def rcP : Nat → List PPol := fun c =>
  if c = 0 then [.one .deep, .one .alias, .one (.each (.fields [.alias, .each .alias])), .one .ents]
  else if c = 2 then [.cond (.nonEmpty [0]) (.fields [.each .ents]) (.gen 0)]
  else if c = 3 then [.one .alias]
  else []
def ctyP : Nat → List Ty := fun c =>
  if c = 0 then [.any, .ok, .coll (.obj [.ok, .coll .ok]), .any]
  else if c = 2 then [.obj [.coll .any]]
  else if c = 3 then [.ok]
  else []
def hdrP (a : Nat) (h : Int) : List ATree :=
  [.navr 9, .node a .cell [.leaf h, .leaf 41, .leaf 5], .leaf NONE, .leaf NONE, .leaf NONE, .leaf NONE, .leaf NONE, .leaf NONE]
def subP (a : Nat) : ATree := .ent a 1 (hdrP (a + 1) 51)
def entP : ATree :=
  .ent 10 0 (hdrP 11 42 ++
    [.node 12 .cont [.node 13 .cont [.leaf 4]],
     .node 14 .imm [.leaf 1, .leaf 2],
     .node 15 .cont [.node 16 .cell [.node 17 .imm [.leaf 3], .node 18 .cont [.leaf 6, .leaf 7]]],
     .node 19 .cont [subP 20, subP 22]])
def dimP : ATree := .ent 30 2 (hdrP 31 43 ++ [.leaf NONE])
def dimVirtualP : ATree := .ent 30 2 (hdrP 31 NONE ++ [.node 32 .cell [.node 33 .cont [subP 34]]])
/-- a small heap and the tree it holds at address 0: an entity of class 3 whose only part is an aliased tuple -/
def tinyHeap : Heap :=
  [⟨.cell, [.nav 9, .own 1, .val 0, .val 0, .val 0, .val 0, .val 0, .val 0, .own 2]⟩, ⟨.cell, [.val 0, .val 0, .val 5]⟩,
   ⟨.imm, [.val 1, .val 2]⟩]
def tinyT : ATree :=
  .ent 0 3 [.navr 9, .node 1 .cell [.leaf 0, .leaf 0, .leaf 5], .leaf 0, .leaf 0, .leaf 0, .leaf 0, .leaf 0, .leaf 0,
    .node 2 .imm [.leaf 1, .leaf 2]]
def envP : Nat → ATree := fun _ => .node 40 .cell [.node 41 .cont [subP 42, subP 44]]

/-! ### flows: many products collected under one root (virtual_entities, explode, copy_to_layout, add_attrib) -/

inductive FlowStep where
  | produce (t : ATree)
  | write (w : Write)

/-- the strategy copy of `t` is built in the heap and appended to the collection `b` (the list of virtual entities,
    the entity list of the target layout, the attribs of an INSERT ...) -/
def produceInto (rc : Nat → List PPol) (env : Nat → ATree) (b : Nat) (h : Heap) (t : ATree) : Heap :=
  match (copyInto rc env h t).2, (copyInto rc env h t).1[b]? with
  | .own c, some o => (copyInto rc env h t).1.set b ⟨o.kind, o.slots ++ [.own c]⟩
  | _, _ => (copyInto rc env h t).1

def flowStep (rc : Nat → List PPol) (env : Nat → ATree) (fro : List Nat) (b : Nat) (h : Heap) : FlowStep → Heap
  | .produce t => produceInto rc env b h t
  | .write w => apply1 fro b h w

def runFlow (rc : Nat → List PPol) (env : Nat → ATree) (fro : List Nat) (b : Nat) : Heap → List FlowStep → Heap
  | h, [] => h
  | h, s :: ss => runFlow rc env fro b (flowStep rc env fro b h s) ss

/-- a produced tree is, at the time it is copied, a well typed value tree that the heap holds (and so are the inputs
    of the generators); writes are unrestricted -/
def StepOK (cty : Nat → List Ty) (env : Nat → ATree) (fro : List Nat) (h : Heap) : FlowStep → Prop
  | .produce t => wt fro cty t = true ∧ (∃ r, Rep h t r) ∧ (∀ i, wt fro cty (env i) = true ∧ ∃ r, Rep h (env i) r)
  | .write _ => True

def FlowOK (rc : Nat → List PPol) (cty : Nat → List Ty) (env : Nat → ATree) (fro : List Nat) (b : Nat) :
    Heap → List FlowStep → Prop
  | _, [] => True
  | h, s :: ss => StepOK cty env fro h s ∧ FlowOK rc cty env fro b (flowStep rc env fro b h s) ss

def tinyFlow : List FlowStep := [.produce tinyT, .write (.setVal [0, 1] 2 77)]

/-! ### two roots, interleaved writes (two documents in one process) -/

/-- a write tagged with the root it goes through: `false` = through `a`, `true` = through `b` -/
def applyTagged (fro : List Nat) (a b : Nat) : Heap → List (Bool × Write) → Heap
  | h, [] => h
  | h, (t, w) :: ws => applyTagged fro a b (apply1 fro (if t then b else a) h w) ws

/-! ### simulation between an interleaved and a solo run (used by `interleaved_solo`) -/

/-- the writes of an interleaving that go through `a` (tag `false`) / through `b` (tag `true`) -/
def writesOf (t : Bool) (ws : List (Bool × Write)) : List Write := (ws.filter (fun tw => tw.1 == t)).map (·.2)

/-- references related by the address relation `φ` -/
def RefRel (φ : List (Nat × Nat)) : Ref → Ref → Prop
  | .val v, .val v' => v = v'
  | .nav n, .nav n' => n = n'
  | .own c, .own c' => (c, c') ∈ φ
  | _, _ => False

def RelL (φ : List (Nat × Nat)) : List Ref → List Ref → Prop
  | [], [] => True
  | r :: rs, r' :: rs' => RefRel φ r r' ∧ RelL φ rs rs'
  | _, _ => False

/-- both undefined, or both defined and related -/
def OptRel {α β : Type} (R : α → β → Prop) : Option α → Option β → Prop
  | some a, some b => R a b
  | none, none => True
  | _, _ => False

def ObjRel (φ : List (Nat × Nat)) (o1 o2 : Obj) : Prop := o1.kind = o2.kind ∧ RelL φ o1.slots o2.slots

/-- what `a` reaches in the left heap corresponds, object by object, to the right heap under `φ` -/
def IsoA (φ : List (Nat × Nat)) (h1 h2 : Heap) (a : Nat) : Prop :=
  ∀ p ∈ φ, Reach h1 a p.1 → ∃ o1 o2, h1[p.1]? = some o1 ∧ h2[p.2]? = some o2 ∧ ObjRel φ o1 o2

/-! ### two collections, each running flows (final round) -/

/-- a flow step tagged with the collection it goes through: `false` = through `a`, `true` = through `b` -/
def flowTagged (rc : Nat → List PPol) (env : Nat → ATree) (fro : List Nat) (a b : Nat) : Heap → List (Bool × FlowStep) → Heap
  | h, [] => h
  | h, (t, s) :: ss => flowTagged rc env fro a b (flowStep rc env fro (if t then b else a) h s) ss

def FlowTaggedOK (rc : Nat → List PPol) (cty : Nat → List Ty) (env : Nat → ATree) (fro : List Nat) (a b : Nat) :
    Heap → List (Bool × FlowStep) → Prop
  | _, [] => True
  | h, (t, s) :: ss => StepOK cty env fro h s ∧ FlowTaggedOK rc cty env fro a b (flowStep rc env fro (if t then b else a) h s) ss

/-- `n` copies of the same tree, one after the other: the heap and the roots of the copies (newest last) -/
def copyN (rc : Nat → List PPol) (env : Nat → ATree) (t : ATree) : Nat → Heap → Heap × List Nat
  | 0, h => (h, [])
  | n + 1, h =>
    match (copyInto rc env h t).2 with
    | .own c => ((copyN rc env t n (copyInto rc env h t).1).1, c :: (copyN rc env t n (copyInto rc env h t).1).2)
    | _ => copyN rc env t n (copyInto rc env h t).1

end EzdxfVerif.Heap

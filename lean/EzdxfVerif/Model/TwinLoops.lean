/-
TwinLoops: the LOOP SKELETONS of the accelerated twins whose arithmetic is cut out of the source by
harness/translate/py2lean_c10.py (property C10, session 3).

Every function below takes the translated loop bodies / loop tests of ONE twin as parameters (a structure of
kernels) and adds only what py2lean cannot translate: iteration, array cells, list building.  The Python text each
skeleton stands for is the normal form printed by `Cut.skeleton()`; it is pinned in harness/props/c10_skeletons.json and
compared with the current source on every run, so an edit of the loop structure of either twin is reported.  Where the
two twins have the same loop structure there is one skeleton, where they differ (`span_weighting`, `basis_vector`,
`Evaluator.point`, the dash encoding of the line type renderer, the three clockwise tests) there are two or three and
Props/C10.lean proves them equal.  Gen/TwinLoops{Py,Pyx}.lean instantiate the skeletons with the kernels of each twin.

Conventions: integers travel as `Rat` into the kernels (the translated kernels are over `Rat`); array reads outside the
array give 0 (`getD`): Python raises IndexError there and the C twin reads foreign memory, the skeletons are only
meaningful for spans inside the knot vector (see ASSUMPTIONS in harness/props/c10.py).  While loops take fuel; `none` =
the fuel did not suffice (both twins get the same fuel, so equality statements are not affected).
Core Lean only (no Mathlib).
-/
import EzdxfVerif.Model.Rat3

namespace EzdxfVerif.TwinLoops
open EzdxfVerif.Rat3

/-! ## generic loops -/

/-- `while cond(s): s = step(s)` with fuel -/
def whileFuel {σ : Type} (cond : σ → Bool) (step : σ → σ) : Nat → σ → Option σ
  | 0, s => if cond s then none else some s
  | n + 1, s => if cond s then whileFuel cond step n (step s) else some s

/-- `for i in range(lo, hi): s = body(i, s)` where the body may raise -/
def forRange {σ : Type} (lo hi : Nat) (body : Nat → σ → Except PyErr σ) (s : σ) : Except PyErr σ :=
  (List.range' lo (hi - lo)).foldlM (fun s i => body i s) s

/-- `a[i]` for a C array / Python sequence of floats, 0 outside -/
def kget (a : List Rat) (i : Nat) : Rat := a.getD i 0

/-- `a[i]` for an integer expression `i` (negative: outside the model, 0) -/
def kgetI (a : List Rat) (i : Int) : Rat := if i < 0 then 0 else a.getD i.toNat 0

/-- integer valued rational -> index (the index kernels return integers as `Rat`) -/
def idx (q : Rat) : Int := q.num / q.den

/-- Python `seq[a:b]` for integers a, b (negative values count from the end, then clamped) -/
def pySlice {α : Type} (l : List α) (a b : Int) : List α :=
  let n : Int := l.length
  let a' := if a < 0 then max (a + n) 0 else min a n
  let b' := if b < 0 then max (b + n) 0 else min b n
  (l.drop a'.toNat).take (b' - a').toNat

/-! ## `bisect_right` : bspline.pyx (hand rolled) and Lib/bisect.py (`key is None` loop)
```
while lo < hi:
    mid = (lo + hi) // 2
    if KERNEL_bisectLess:      # x < a[mid]
        hi = mid
    else:
        lo = mid + 1
return lo
``` -/
def bisectRight (less : Rat → Rat → Bool) (a : List Rat) (x : Rat) (lo hi : Nat) : Nat :=
  if _h : lo < hi then
    let mid := (lo + hi) / 2
    if less x (kget a mid) then bisectRight less a x lo mid else bisectRight less a x (mid + 1) hi
  else lo
termination_by hi - lo
decreasing_by all_goals omega

/-! ## `Basis.find_span` (same loop structure in both twins)
```
knots = self._knots; count = self._count; p = self._order - 1
if KERNEL_fsSpecial:                       # u >= knots[count]
    span = count - 1
    while KERNEL_fsBack:                   # span > p and knots[span] >= knots[count]
        span -= 1
    return span
if KERNEL_fsUseBisect:                     # knots[p] == 0.0
    return bisect_right(knots, u, p, count) - 1
else:
    span = 0
    while KERNEL_fsLinear:                 # knots[span] <= u and span < count
        span += 1
    return span - 1
``` -/
structure FindSpanK where
  special : Rat → Rat → Bool                 -- u, knots[count]
  back : Rat → Rat → Rat → Rat → Bool        -- span, p, knots[span], knots[count]
  useBisect : Rat → Bool                     -- knots[p]
  linear : Rat → Rat → Rat → Rat → Bool      -- knots[span], u, span, count
  bisectLess : Rat → Rat → Bool              -- x, a[mid]

def findSpan (K : FindSpanK) (knots : List Rat) (order count : Nat) (u : Rat) : Option Int :=
  let p : Nat := order - 1
  let kc := kget knots count
  if K.special u kc then
    whileFuel (fun (s : Int) => K.back (s : Rat) (p : Rat) (kgetI knots s) kc) (fun s => s - 1) count ((count : Int) - 1)
  else if K.useBisect (kget knots p) then
    some ((bisectRight K.bisectLess knots u p count : Int) - 1)
  else
    (whileFuel (fun (s : Nat) => K.linear (kget knots s) u (s : Rat) (count : Rat)) (· + 1) (count + 1) 0).map
      (fun s => (s : Int) - 1)

/-! ## `Basis.basis_funcs` (A2.2; same loop structure in both twins: the Cython twin computes the clamped index in two
statements `i1 = span + 1 - j; if i1 < 0: i1 = 0`, the Python twin as `max(0, span + 1 - j)` inside the subscript)
```
N = [0.0] * order; left = list(N); right = list(N)        # pyx: C arrays reset to 0.0
N[0] = 1.0
for j in range(1, order):
    left[j] = KERNEL_bfLeft            # u - knots[KERNEL_bfIndex]
    right[j] = KERNEL_bfRight          # knots[span + j] - u
    saved = 0.0
    for r in range(j):
        KERNEL_bfInner                 # (N[r], saved) := f(N[r], right[r + 1], left[j - r], saved)
    N[j] = saved
if self.is_rational: return self.span_weighting(N, span)
else: return N
``` -/
structure BasisFuncsK where
  index : Rat → Rat → Rat                               -- span, j  ->  max(0, span + 1 - j)
  left : Rat → Rat → Rat                                -- u, knots[index]
  right : Rat → Rat → Rat                               -- u, knots[span + j]
  inner : Rat → Rat → Rat → Rat → Except PyErr (Rat × Rat)   -- N[r], right[r+1], left[j-r], saved -> (N[r], saved)

/-- the inner loop `for r in range(j)` -/
def basisInner (K : BasisFuncsK) (left right : List Rat) (j : Nat) (N : List Rat) : Except PyErr (List Rat × Rat) :=
  forRange 0 j (fun r (ns : List Rat × Rat) =>
    (K.inner (kget ns.1 r) (kget right (r + 1)) (kget left (j - r)) ns.2).map (fun o => (ns.1.set r o.1, o.2))) (N, 0)

/-- the non rational part: the array `N` after the outer loop -/
def basisFuncsN (K : BasisFuncsK) (knots : List Rat) (order : Nat) (span : Int) (u : Rat) : Except PyErr (List Rat) :=
  let z := List.replicate order (0 : Rat)
  (forRange 1 order (fun j (st : List Rat × List Rat × List Rat) =>
      let left := st.2.1.set j (K.left u (kgetI knots (idx (K.index (span : Rat) (j : Rat)))))
      let right := st.2.2.set j (K.right u (kgetI knots (span + j)))
      (basisInner K left right j st.1).map (fun o => (o.1.set j o.2, left, right)))
    (z.set 0 1, z, z)).map (·.1)

/-! ## `Basis.span_weighting`
Python:  `products = [KERNEL_swProduct for nb, w in zip(nbasis, weights[span - order + 1:span + 1])]; s = sum(products);
          return [0.0] * size if KERNEL_swTest else [KERNEL_swQuot for p in products]`          (test: s == 0.0)
Cython:  same products and sum; `if KERNEL_swTest: return [KERNEL_swQuot for p in products] else: return NULL_LIST * len(nbasis)`
                                                                                                  (test: s != 0) -/
structure SpanWeightK where
  product : Rat → Rat → Rat
  quot : Rat → Rat → Except PyErr Rat
  test : Rat → Bool

def swProducts (K : SpanWeightK) (weights : List Rat) (order : Nat) (nbasis : List Rat) (span : Int) : List Rat :=
  List.zipWith K.product nbasis (pySlice weights (span - order + 1) (span + 1))

/-- Python `sum(products)` : left to right from 0 -/
def pySum (l : List Rat) : Rat := l.foldl (· + ·) 0

def spanWeightingPy (K : SpanWeightK) (weights : List Rat) (order : Nat) (nbasis : List Rat) (span : Int) : Except PyErr (List Rat) :=
  let products := swProducts K weights order nbasis span
  let s := pySum products
  if K.test s then .ok (List.replicate nbasis.length 0) else products.mapM (fun p => K.quot p s)

def spanWeightingPyx (K : SpanWeightK) (weights : List Rat) (order : Nat) (nbasis : List Rat) (span : Int) : Except PyErr (List Rat) :=
  let products := swProducts K weights order nbasis span
  let s := pySum products
  if K.test s then products.mapM (fun p => K.quot p s) else .ok (List.replicate nbasis.length 0)

/-- `Basis.basis_funcs` with the rational branch (`is_rational` = `bool(weights)`); `sw` is the twin's `span_weighting` -/
def basisFuncs (K : BasisFuncsK) (sw : List Rat → Nat → List Rat → Int → Except PyErr (List Rat))
    (knots weights : List Rat) (order : Nat) (span : Int) (u : Rat) : Except PyErr (List Rat) :=
  (basisFuncsN K knots order span u).bind (fun N => if weights.isEmpty then .ok N else sw weights order N span)

/-! ## `Basis.basis_vector`
Python:  `return [0.0] * front + basis + [0.0] * back`   (a negative count gives the empty list)
Cython:  `if front > 0: result = NULL_LIST * front; result.extend(basis) else: result = basis; if back > 0: result.extend(NULL_LIST * back)` -/
def basisVectorPy (front back : Int) (basis : List Rat) : List Rat :=
  List.replicate front.toNat 0 ++ basis ++ List.replicate back.toNat 0

def basisVectorPyx (front back : Int) (basis : List Rat) : List Rat :=
  let r := if front > 0 then List.replicate front.toNat 0 ++ basis else basis
  if back > 0 then r ++ List.replicate back.toNat 0 else r

/-! ## `Evaluator.point` (A3.1)
both:    `if KERNEL_epSnap: u = basis.max_t`; `p = order - 1; span = basis.find_span(u); N = basis.basis_funcs(span, u)`
Python:  `return Vec3.sum(KERNEL_epTerm for i in range(p + 1))`     with `Vec3.sum`: `s = NULLVEC; for v in items: s += v`
Cython:  `v3_sum = Vec3(); for i in range(p + 1): KERNEL_epAccum; return v3_sum`
cells:   `N[i]`, `control_points[span - p + i]` (a Python tuple in both twins: negative index counts from the end) -/
def cpGet (cps : List V3) (i : Int) : Except PyErr V3 :=
  let n : Int := cps.length
  let j := if i < 0 then i + n else i
  if j < 0 ∨ n ≤ j then .error .indexError else .ok (cps.getD j.toNat ⟨0, 0, 0⟩)

/-- Python twin: the generator is consumed by `Vec3.sum`, one `s += v` (`add`) per item -/
def pointSumPy (term : Rat → V3 → V3) (add : V3 → V3 → V3) (N : List Rat) (cps : List V3) (span : Int) (p : Nat) : Except PyErr V3 :=
  forRange 0 (p + 1) (fun i s => (cpGet cps (span - p + i)).map (fun c => add s (term (kget N i) c))) ⟨0, 0, 0⟩

/-- Cython twin: in place accumulation -/
def pointSumPyx (accum : V3 → Rat → V3 → V3) (N : List Rat) (cps : List V3) (span : Int) (p : Nat) : Except PyErr V3 :=
  forRange 0 (p + 1) (fun i s => (cpGet cps (span - p + i)).map (fun c => accum s (kget N i) c)) ⟨0, 0, 0⟩

/-- result of `Evaluator.point`: `none` = a while loop ran out of fuel (never for the translated tests) -/
def evalPoint (snap : Rat → Rat → Bool) (fs : List Rat → Nat → Nat → Rat → Option Int)
    (bf : List Rat → List Rat → Nat → Int → Rat → Except PyErr (List Rat))
    (psum : List Rat → List V3 → Int → Nat → Except PyErr V3)
    (knots weights : List Rat) (order : Nat) (cps : List V3) (u : Rat) : Option (Except PyErr V3) :=
  let maxT := kget knots (knots.length - 1)
  let u := if snap u maxT then maxT else u
  (fs knots order cps.length u).map (fun span =>
    (bf knots weights order span u).bind (fun N => psum N cps span (order - 1)))

/-- `Basis.basis_vector(t)` composed from the parts -/
def basisVector (bv : Int → Int → List Rat → List Rat) (fs : List Rat → Nat → Nat → Rat → Option Int)
    (bf : List Rat → List Rat → Nat → Int → Rat → Except PyErr (List Rat))
    (knots weights : List Rat) (order count : Nat) (t : Rat) : Option (Except PyErr (List Rat)) :=
  (fs knots order count t).map (fun span =>
    (bf knots weights order span t).map (fun b => bv (span - ((order : Int) - 1)) ((count : Int) - span - 1) b))

/-! ## `Evaluator.derivative` (A3.2, rational case A4.2)
`basis_funcs_ders = basis.basis_funcs_derivatives(span, u, n)` (A2.3) is a parameter here: its first loop is cut into kernels
(`bdIndex`, `bdLeft`, `bdRight`, `bdInner`), the rest is the same text in both twins up to the rewrites declared in
harness/props/c10_loops.py (DERIV_REWRITES), compared on every run.
```
if basis.is_rational:
    for k in range(n + 1):
        v = NULLVEC; wder = 0.0
        for j in range(p + 1):
            index = span - p + j
            bas_func_weight = KERNEL_edWeight        # basis_funcs_ders[k][j] * weights[index]
            KERNEL_edAccV                            # v += control_points[index] * bas_func_weight
            KERNEL_edAccW                            # wder += bas_func_weight
        CKw.append(v); wders.append(wder)
    for k in range(n + 1):
        v = CKw[k]
        for i in range(1, k + 1):
            KERNEL_edSub                             # v -= binomial_coefficient(k, i) * wders[i] * CK[k - i]
        CK.append(KERNEL_edDiv)                      # v / wders[0]
else:   Python: CK = [Vec3.sum(KERNEL_edTerm for j in range(p + 1)) for k in range(n + 1)]
        Cython: for k …: v3_sum = Vec3(); for j in range(p + 1): KERNEL_edAccum; CK.append(v3_sum)
``` -/
def wGet (ws : List Rat) (i : Int) : Except PyErr Rat :=
  let n : Int := ws.length
  let j := if i < 0 then i + n else i
  if j < 0 ∨ n ≤ j then .error .indexError else .ok (ws.getD j.toNat 0)

def rowGet (ders : List (List Rat)) (k j : Nat) : Rat := kget (ders.getD k []) j

structure DerivK where
  weight : Rat → Rat → Rat
  accV : V3 → V3 → Rat → V3
  accW : Rat → Rat → Rat
  sub : V3 → Rat → Rat → V3 → V3          -- v, binomial_coefficient(k, i), wders[i], CK[k - i]
  div : V3 → Rat → Except PyErr V3

/-- `CKw[k]`, `wders[k]` -/
def derivHomog (K : DerivK) (ders : List (List Rat)) (weights : List Rat) (cps : List V3) (span : Int) (p k : Nat) : Except PyErr (V3 × Rat) :=
  if ders.length ≤ k then .error .indexError else   -- `basis_funcs_ders[k]` with k > degree (the table has min(n, p) + 1 rows)
  forRange 0 (p + 1) (fun j (s : V3 × Rat) =>
    (wGet weights (span - p + j)).bind (fun w => (cpGet cps (span - p + j)).map (fun c =>
      let bw := K.weight (rowGet ders k j) w
      (K.accV s.1 c bw, K.accW s.2 bw)))) (⟨0, 0, 0⟩, 0)

def derivRational (K : DerivK) (binom : Nat → Nat → Rat) (ders : List (List Rat)) (weights : List Rat) (cps : List V3)
    (span : Int) (p n : Nat) : Except PyErr (List V3) :=
  ((List.range (n + 1)).mapM (fun k => derivHomog K ders weights cps span p k)).bind (fun hw =>
    let wders := hw.map (·.2)
    forRange 0 (n + 1) (fun k (CK : List V3) =>
      let v := (List.range' 1 k).foldl (fun v i => K.sub v (binom k i) (kget wders i) (CK.getD (k - i) ⟨0, 0, 0⟩)) ((hw.map (·.1)).getD k ⟨0, 0, 0⟩)
      (K.div v (kget wders 0)).map (fun q => CK ++ [q])) [])

/-- the non rational branch: one `pointSum` per derivative order, over row k of the derivative table -/
def derivPlain (psum : List Rat → List V3 → Int → Nat → Except PyErr V3) (ders : List (List Rat)) (cps : List V3) (span : Int) (p n : Nat) :
    Except PyErr (List V3) :=
  (List.range (n + 1)).mapM (fun k => if ders.length ≤ k then .error .indexError else psum (ders.getD k []) cps span p)

def evalDerivative (snap : Rat → Rat → Bool) (fs : List Rat → Nat → Nat → Rat → Option Int)
    (dersFn : Int → Rat → Nat → Except PyErr (List (List Rat)))
    (rational : List (List Rat) → List Rat → List V3 → Int → Nat → Nat → Except PyErr (List V3))
    (plain : List (List Rat) → List V3 → Int → Nat → Nat → Except PyErr (List V3))
    (knots weights : List Rat) (order : Nat) (cps : List V3) (u : Rat) (n : Nat) : Option (Except PyErr (List V3)) :=
  let maxT := kget knots (knots.length - 1)
  let u := if snap u maxT then maxT else u
  (fs knots order cps.length u).map (fun span =>
    (dersFn span u n).bind (fun ders =>
      if weights.isEmpty then plain ders cps span (order - 1) n else rational ders weights cps span (order - 1) n))

/-! ### `binomial_coefficient`: linalg.py (`math.factorial`) and bspline.pyx (table `FACTORIAL[0..18]`, regenerated into Gen) -/
def factorial : Nat → Nat
  | 0 => 1
  | n + 1 => (n + 1) * factorial n

/-- `float(k! / ((k - i)! * i!))`, 0 for i > k -/
def binomPy (k i : Nat) : Rat :=
  if i > k then 0 else (factorial k : Rat) / ((factorial (k - i) : Rat) * (factorial i : Rat))

/-- `FACTORIAL[k] / (FACTORIAL[k - i] * FACTORIAL[i])`, 0 for i > k (C division) -/
def binomPyx (T : List Rat) (k i : Nat) : Rat :=
  if i > k then 0 else kget T k / (kget T (k - i) * kget T i)

/-! ## `_LineTypeRenderer`
state: `_current_dash`, `_current_dash_length`, `_is_dash`;  `_cycle_dashes` (no arithmetic, same text in both twins):
`cur = (cur + 1) % dash_count; cdl = dashes[cur]; is_dash = not is_dash`
```
def _render_dashes(self, length):
    if KERNEL_rdFits:                                     # length <= cdl
        KERNEL_rdRemain                                   # cdl -= length
        EMIT(self._is_dash, length)                       # py: yield (is_dash, length); pyx: dashes.append((is_dash, length))
        if KERNEL_rdCycleTest: self._cycle_dashes()       # cdl < ABS_TOL
    else:
        while KERNEL_rdMore:                              # length > cdl
            KERNEL_rdLess                                 # length -= cdl
            self._render_dashes(self._current_dash_length)
        if KERNEL_rdRest: self._render_dashes(length)     # length > 0.0
``` -/
structure RenderK where
  fits : Rat → Rat → Bool      -- length, cdl
  remain : Rat → Rat → Rat     -- cdl, length
  cycleTest : Rat → Bool       -- cdl
  more : Rat → Rat → Bool      -- length, cdl
  less : Rat → Rat → Rat       -- length, cdl
  rest : Rat → Bool            -- length

structure LtState where
  cur : Nat
  cdl : Rat
  isDash : Bool
deriving DecidableEq, Repr

/-- `__init__` (same in both twins): solid for fewer than two elements -/
def ltInit (dashes : List Rat) : LtState :=
  if dashes.length > 1 then ⟨0, kget dashes 0, true⟩ else ⟨0, 0, false⟩

def ltSolid (dashes : List Rat) : Bool := !(decide (dashes.length > 1))

def cycleDashes (dashes : List Rat) (st : LtState) : LtState :=
  let c := (st.cur + 1) % dashes.length
  ⟨c, kget dashes c, !st.isDash⟩

mutual
/-- `_render_dashes(length)`; `emit` is the twin's way to record (is_dash, length) -/
def renderDashes {ε : Type} (K : RenderK) (dashes : List Rat) (emit : Bool → Rat → ε) :
    Nat → Rat → LtState × List ε → Option (LtState × List ε)
  | 0, _, _ => none
  | f + 1, length, s =>
    if K.fits length s.1.cdl then
      let st1 : LtState := { s.1 with cdl := K.remain s.1.cdl length }
      let out := s.2 ++ [emit s.1.isDash length]
      some (if K.cycleTest st1.cdl then cycleDashes dashes st1 else st1, out)
    else renderWhile K dashes emit f length s
/-- the `else` branch: `while …: …` followed by `if KERNEL_rdRest: …` -/
def renderWhile {ε : Type} (K : RenderK) (dashes : List Rat) (emit : Bool → Rat → ε) :
    Nat → Rat → LtState × List ε → Option (LtState × List ε)
  | 0, _, _ => none
  | f + 1, length, s =>
    if K.more length s.1.cdl then
      match renderDashes K dashes emit f s.1.cdl s with
      | none => none
      | some s' => renderWhile K dashes emit f (K.less length s.1.cdl) s'
    else if K.rest length then renderDashes K dashes emit f length s
    else some s
end

/-- HISTORICAL (before the fix of D15 the Cython twin carried (is_dash, length) through a list of C doubles): `length if is_dash
    else -length`, read back with `copysign(1.0, x) > 0` and `abs(x)`.  For a length with a clear sign bit (+0.0 included) the
    sign bit of the stored value is `not is_dash` and its magnitude is `length`: IEEE-754 negation only flips the sign bit.
    A pattern element `-0.0` has its sign bit set: the model below does not apply and the twins differed (D15).  Both twins
    record the pair itself now (`emitPy`); the encoding is kept as the statement of what was assumed. -/
structure SignedMag where
  neg : Bool
  mag : Rat
deriving DecidableEq, Repr

def emitPy (isDash : Bool) (length : Rat) : Bool × Rat := (isDash, length)
def emitPyx (isDash : Bool) (length : Rat) : SignedMag := ⟨!isDash, length⟩
/-- `(copysign(1.0, x) > 0, abs(x))` -/
def decodePyx (x : SignedMag) : Bool × Rat := (!x.neg, x.mag)

/-- the consumer loop of `line_segment`: `end = KERNEL_lsStep; if is_dash: yield start, end; start = end` -/
def walkDashes (step : V3 → V3 → Rat → V3) (dir : V3) : V3 → List (Bool × Rat) → List (V3 × V3)
  | _, [] => []
  | start, (d, len) :: rest =>
    let e := step start dir len
    if d then (start, e) :: walkDashes step dir e rest else walkDashes step dir e rest

structure LineSegK where
  same : V3 → V3 → Bool                       -- start.isclose(end)
  length : V3 → V3 → Rat → Rat                -- …, r1 = sqrt of the radicand
  dir : V3 → V3 → Rat → Except PyErr V3
  step : V3 → V3 → Rat → V3

/-- `line_segment(start, end)` -> (new state, yielded segments); `r1` is the square root taken by `magnitude`;
    `render` = the twin's `_render_dashes` already decoded to (is_dash, length) pairs -/
def lineSegment (L : LineSegK) (dashes : List Rat)
    (render : Rat → LtState → Option (LtState × List (Bool × Rat)))
    (st : LtState) (a b : V3) (r1 : Rat) : Option (Except PyErr (LtState × List (V3 × V3))) :=
  if ltSolid dashes || L.same a b then some (.ok (st, [(a, b)]))
  else match L.dir a b r1 with
    | .error e => some (.error e)
    | .ok d => (render (L.length a b r1) st).map (fun o => .ok (o.1, walkDashes L.step d a o.2))

/-! ## `has_clockwise_orientation`: construct (both twins) and np_support (Cython only; npshapes.py falls back to the
construct function without the extension)
Python:     `if not KERNEL_cwClosed: vertices.append(vertices[0])`;
            `return sum(KERNEL_cwTerm for p1, p2 in zip(vertices, vertices[1:])) > 0.0`
Cython:     `p1 = v[0]; p2 = v[-1]; s = 0.0; if not KERNEL_cwClosed: v.append(p1)`;
            `for index in range(1, len(v)): p2 = v[index]; KERNEL_cwAccum; p1 = p2`; `return KERNEL_cwSign`
np_support: `x_is_close = …; y_is_close = …; if x_is_close and y_is_close: p1 = v[0]; start = 1 else: p1 = v[last]; start = 0`;
            `for index in range(start, size): p2 = v[index]; KERNEL_npAccum; p1 = p2`; `return KERNEL_npSign`
all three raise ValueError for fewer than 3 vertices. -/
def cwPy (closed : V2 → V2 → Bool) (term : V2 → V2 → Rat) (sign : Rat → Bool) (vs : List V2) : Except PyErr Bool :=
  if vs.length < 3 then .error .valueError else
  let v0 := vs.getD 0 ⟨0, 0⟩
  let vl := vs.getD (vs.length - 1) ⟨0, 0⟩
  let ws := if !closed v0 vl then vs ++ [v0] else vs
  .ok (sign (pySum (List.zipWith term ws ws.tail)))

/-- `for index in range(start, len): p2 = v[index]; s = accum s p1 p2; p1 = p2` -/
def cwFold (accum : Rat → V2 → V2 → Rat) : Rat → V2 → List V2 → Rat
  | s, _, [] => s
  | s, p1, p2 :: rest => cwFold accum (accum s p1 p2) p2 rest

def cwPyx (closed : V2 → V2 → Bool) (accum : Rat → V2 → V2 → Rat) (sign : Rat → Bool) (vs : List V2) : Except PyErr Bool :=
  if vs.length < 3 then .error .valueError else
  let v0 := vs.getD 0 ⟨0, 0⟩
  let vl := vs.getD (vs.length - 1) ⟨0, 0⟩
  let ws := if !closed v0 vl then vs ++ [v0] else vs
  .ok (sign (cwFold accum 0 v0 ws.tail))

def cwNp (closeX closeY : Rat → Rat → Bool) (accum : Rat → Rat → Rat → Rat → Rat → Rat) (sign : Rat → Bool) (vs : List V2) : Except PyErr Bool :=
  if vs.length < 3 then .error .valueError else
  let v0 := vs.getD 0 ⟨0, 0⟩
  let vl := vs.getD (vs.length - 1) ⟨0, 0⟩
  let acc := fun s (a b : V2) => accum s a.x a.y b.x b.y
  if closeX v0.x vl.x && closeY v0.y vl.y then .ok (sign (cwFold acc 0 v0 vs.tail))
  else .ok (sign (cwFold acc 0 vl vs))

end EzdxfVerif.TwinLoops

/-
TwinLoops: the LOOP SKELETONS of the accelerated twins whose arithmetic is cut out of the source by
harness/translate/py2lean_c10.py (property C10, session 3).

Every function below takes the translated loop bodies / loop tests of ONE twin as parameters (a structure of
kernels) and adds only what py2lean cannot translate: iteration, array cells, list building.  The Python text each
skeleton stands for is the normal form printed by `Cut.skeleton()`; it is pinned in harness/props/c10_skeletons.json and
compared with the current source on every run, so an edit of the loop structure of either twin is reported.  Where the
two twins have the same loop structure there is one skeleton, where they differ (`span_weighting`, `basis_vector`,
`Evaluator.point`, the dash encoding of the line type renderer, the three clockwise tests) there are two or three and
Props/C10.lean proves them equal.  Gen/TwinLoops{Py,Pyx}.lean instantiate the skeletons with the kernels of each twin.

Conventions: integers travel as `Rat` into the kernels (the translated kernels are over `Rat`); array reads outside the
array give 0 (`getD`): Python raises IndexError there and the C twin reads foreign memory, the skeletons are only
meaningful for spans inside the knot vector (see ASSUMPTIONS in harness/props/c10.py).  While loops take fuel; `none` =
the fuel did not suffice (both twins get the same fuel, so equality statements are not affected).
Core Lean only (no Mathlib).
-/
import EzdxfVerif.Model.Rat3

namespace EzdxfVerif.TwinLoops
open EzdxfVerif.Rat3

/-! ## generic loops -/

/-- `while cond(s): s = step(s)` with fuel -/
def whileFuel {σ : Type} (cond : σ → Bool) (step : σ → σ) : Nat → σ → Option σ
  | 0, s => if cond s then none else some s
  | n + 1, s => if cond s then whileFuel cond step n (step s) else some s

/-- `for i in range(lo, hi): s = body(i, s)` where the body may raise -/
def forRange {σ : Type} (lo hi : Nat) (body : Nat → σ → Except PyErr σ) (s : σ) : Except PyErr σ :=
  (List.range' lo (hi - lo)).foldlM (fun s i => body i s) s

/-- `a[i]` for a C array / Python sequence of floats, 0 outside -/
def kget (a : List Rat) (i : Nat) : Rat := a.getD i 0

/-- `a[i]` for an integer expression `i` (negative: outside the model, 0) -/
def kgetI (a : List Rat) (i : Int) : Rat := if i < 0 then 0 else a.getD i.toNat 0

/-- integer valued rational -> index (the index kernels return integers as `Rat`) -/
def idx (q : Rat) : Int := q.num / q.den

/-- Python `seq[a:b]` for integers a, b (negative values count from the end, then clamped) -/
def pySlice {α : Type} (l : List α) (a b : Int) : List α :=
  let n : Int := l.length
  let a' := if a < 0 then max (a + n) 0 else min a n
  let b' := if b < 0 then max (b + n) 0 else min b n
  (l.drop a'.toNat).take (b' - a').toNat

/-! ## `bisect_right` : bspline.pyx (hand rolled) and Lib/bisect.py (`key is None` loop)
```
while lo < hi:
    mid = (lo + hi) // 2
    if KERNEL_bisectLess:      # x < a[mid]
        hi = mid
    else:
        lo = mid + 1
return lo
``` -/
def bisectRight (less : Rat → Rat → Bool) (a : List Rat) (x : Rat) (lo hi : Nat) : Nat :=
  if _h : lo < hi then
    let mid := (lo + hi) / 2
    if less x (kget a mid) then bisectRight less a x lo mid else bisectRight less a x (mid + 1) hi
  else lo
termination_by hi - lo
decreasing_by all_goals omega

/-! ## `Basis.find_span` (same loop structure in both twins)
```
knots = self._knots; count = self._count; p = self._order - 1
if KERNEL_fsSpecial:                       # u >= knots[count]
    span = count - 1
    while KERNEL_fsBack:                   # span > p and knots[span] >= knots[count]
        span -= 1
    return span
if KERNEL_fsUseBisect:                     # knots[p] == 0.0
    return bisect_right(knots, u, p, count) - 1
else:
    span = 0
    while KERNEL_fsLinear:                 # knots[span] <= u and span < count
        span += 1
    return span - 1
``` -/
structure FindSpanK where
  special : Rat → Rat → Bool                 -- u, knots[count]
  back : Rat → Rat → Rat → Rat → Bool        -- span, p, knots[span], knots[count]
  useBisect : Rat → Bool                     -- knots[p]
  linear : Rat → Rat → Rat → Rat → Bool      -- knots[span], u, span, count
  bisectLess : Rat → Rat → Bool              -- x, a[mid]

def findSpan (K : FindSpanK) (knots : List Rat) (order count : Nat) (u : Rat) : Option Int :=
  let p : Nat := order - 1
  let kc := kget knots count
  if K.special u kc then
    whileFuel (fun (s : Int) => K.back (s : Rat) (p : Rat) (kgetI knots s) kc) (fun s => s - 1) count ((count : Int) - 1)
  else if K.useBisect (kget knots p) then
    some ((bisectRight K.bisectLess knots u p count : Int) - 1)
  else
    (whileFuel (fun (s : Nat) => K.linear (kget knots s) u (s : Rat) (count : Rat)) (· + 1) (count + 1) 0).map
      (fun s => (s : Int) - 1)

/-! ## `Basis.basis_funcs` (A2.2; same loop structure in both twins: the Cython twin computes the clamped index in two
statements `i1 = span + 1 - j; if i1 < 0: i1 = 0`, the Python twin as `max(0, span + 1 - j)` inside the subscript)
```
N = [0.0] * order; left = list(N); right = list(N)        # pyx: C arrays reset to 0.0
N[0] = 1.0
for j in range(1, order):
    left[j] = KERNEL_bfLeft            # u - knots[KERNEL_bfIndex]
    right[j] = KERNEL_bfRight          # knots[span + j] - u
    saved = 0.0
    for r in range(j):
        KERNEL_bfInner                 # (N[r], saved) := f(N[r], right[r + 1], left[j - r], saved)
    N[j] = saved
if self.is_rational: return self.span_weighting(N, span)
else: return N
``` -/
structure BasisFuncsK where
  index : Rat → Rat → Rat                               -- span, j  ->  max(0, span + 1 - j)
  left : Rat → Rat → Rat                                -- u, knots[index]
  right : Rat → Rat → Rat                               -- u, knots[span + j]
  inner : Rat → Rat → Rat → Rat → Except PyErr (Rat × Rat)   -- N[r], right[r+1], left[j-r], saved -> (N[r], saved)

/-- the inner loop `for r in range(j)` -/
def basisInner (K : BasisFuncsK) (left right : List Rat) (j : Nat) (N : List Rat) : Except PyErr (List Rat × Rat) :=
  forRange 0 j (fun r (ns : List Rat × Rat) =>
    (K.inner (kget ns.1 r) (kget right (r + 1)) (kget left (j - r)) ns.2).map (fun o => (ns.1.set r o.1, o.2))) (N, 0)

/-- the non rational part: the array `N` after the outer loop -/
def basisFuncsN (K : BasisFuncsK) (knots : List Rat) (order : Nat) (span : Int) (u : Rat) : Except PyErr (List Rat) :=
  let z := List.replicate order (0 : Rat)
  (forRange 1 order (fun j (st : List Rat × List Rat × List Rat) =>
      let left := st.2.1.set j (K.left u (kgetI knots (idx (K.index (span : Rat) (j : Rat)))))
      let right := st.2.2.set j (K.right u (kgetI knots (span + j)))
      (basisInner K left right j st.1).map (fun o => (o.1.set j o.2, left, right)))
    (z.set 0 1, z, z)).map (·.1)

/-! ## `Basis.span_weighting`
Python:  `products = [KERNEL_swProduct for nb, w in zip(nbasis, weights[span - order + 1:span + 1])]; s = sum(products);
          return [0.0] * size if KERNEL_swTest else [KERNEL_swQuot for p in products]`          (test: s == 0.0)
Cython:  same products and sum; `if KERNEL_swTest: return [KERNEL_swQuot for p in products] else: return NULL_LIST * len(nbasis)`
                                                                                                  (test: s != 0) -/
structure SpanWeightK where
  product : Rat → Rat → Rat
  quot : Rat → Rat → Except PyErr Rat
  test : Rat → Bool

def swProducts (K : SpanWeightK) (weights : List Rat) (order : Nat) (nbasis : List Rat) (span : Int) : List Rat :=
  List.zipWith K.product nbasis (pySlice weights (span - order + 1) (span + 1))

/-- Python `sum(products)` : left to right from 0 -/
def pySum (l : List Rat) : Rat := l.foldl (· + ·) 0

def spanWeightingPy (K : SpanWeightK) (weights : List Rat) (order : Nat) (nbasis : List Rat) (span : Int) : Except PyErr (List Rat) :=
  let products := swProducts K weights order nbasis span
  let s := pySum products
  if K.test s then .ok (List.replicate nbasis.length 0) else products.mapM (fun p => K.quot p s)

def spanWeightingPyx (K : SpanWeightK) (weights : List Rat) (order : Nat) (nbasis : List Rat) (span : Int) : Except PyErr (List Rat) :=
  let products := swProducts K weights order nbasis span
  let s := pySum products
  if K.test s then products.mapM (fun p => K.quot p s) else .ok (List.replicate nbasis.length 0)

/-- `Basis.basis_funcs` with the rational branch (`is_rational` = `bool(weights)`); `sw` is the twin's `span_weighting` -/
def basisFuncs (K : BasisFuncsK) (sw : List Rat → Nat → List Rat → Int → Except PyErr (List Rat))
    (knots weights : List Rat) (order : Nat) (span : Int) (u : Rat) : Except PyErr (List Rat) :=
  (basisFuncsN K knots order span u).bind (fun N => if weights.isEmpty then .ok N else sw weights order N span)

/-! ## `Basis.basis_vector`
Python:  `return [0.0] * front + basis + [0.0] * back`   (a negative count gives the empty list)
Cython:  `if front > 0: result = NULL_LIST * front; result.extend(basis) else: result = basis; if back > 0: result.extend(NULL_LIST * back)` -/
def basisVectorPy (front back : Int) (basis : List Rat) : List Rat :=
  List.replicate front.toNat 0 ++ basis ++ List.replicate back.toNat 0

def basisVectorPyx (front back : Int) (basis : List Rat) : List Rat :=
  let r := if front > 0 then List.replicate front.toNat 0 ++ basis else basis
  if back > 0 then r ++ List.replicate back.toNat 0 else r

/-! ## `Evaluator.point` (A3.1)
both:    `if KERNEL_epSnap: u = basis.max_t`; `p = order - 1; span = basis.find_span(u); N = basis.basis_funcs(span, u)`
Python:  `return Vec3.sum(KERNEL_epTerm for i in range(p + 1))`     with `Vec3.sum`: `s = NULLVEC; for v in items: s += v`
Cython:  `v3_sum = Vec3(); for i in range(p + 1): KERNEL_epAccum; return v3_sum`
cells:   `N[i]`, `control_points[span - p + i]` (a Python tuple in both twins: negative index counts from the end) -/
def cpGet (cps : List V3) (i : Int) : Except PyErr V3 :=
  let n : Int := cps.length
  let j := if i < 0 then i + n else i
  if j < 0 ∨ n ≤ j then .error .indexError else .ok (cps.getD j.toNat ⟨0, 0, 0⟩)

/-- Python twin: the generator is consumed by `Vec3.sum`, one `s += v` (`add`) per item -/
def pointSumPy (term : Rat → V3 → V3) (add : V3 → V3 → V3) (N : List Rat) (cps : List V3) (span : Int) (p : Nat) : Except PyErr V3 :=
  forRange 0 (p + 1) (fun i s => (cpGet cps (span - p + i)).map (fun c => add s (term (kget N i) c))) ⟨0, 0, 0⟩

/-- Cython twin: in place accumulation -/
def pointSumPyx (accum : V3 → Rat → V3 → V3) (N : List Rat) (cps : List V3) (span : Int) (p : Nat) : Except PyErr V3 :=
  forRange 0 (p + 1) (fun i s => (cpGet cps (span - p + i)).map (fun c => accum s (kget N i) c)) ⟨0, 0, 0⟩

/-- result of `Evaluator.point`: `none` = a while loop ran out of fuel (never for the translated tests) -/
def evalPoint (snap : Rat → Rat → Bool) (fs : List Rat → Nat → Nat → Rat → Option Int)
    (bf : List Rat → List Rat → Nat → Int → Rat → Except PyErr (List Rat))
    (psum : List Rat → List V3 → Int → Nat → Except PyErr V3)
    (knots weights : List Rat) (order : Nat) (cps : List V3) (u : Rat) : Option (Except PyErr V3) :=
  let maxT := kget knots (knots.length - 1)
  let u := if snap u maxT then maxT else u
  (fs knots order cps.length u).map (fun span =>
    (bf knots weights order span u).bind (fun N => psum N cps span (order - 1)))

/-- `Basis.basis_vector(t)` composed from the parts -/
def basisVector (bv : Int → Int → List Rat → List Rat) (fs : List Rat → Nat → Nat → Rat → Option Int)
    (bf : List Rat → List Rat → Nat → Int → Rat → Except PyErr (List Rat))
    (knots weights : List Rat) (order count : Nat) (t : Rat) : Option (Except PyErr (List Rat)) :=
  (fs knots order count t).map (fun span =>
    (bf knots weights order span t).map (fun b => bv (span - ((order : Int) - 1)) ((count : Int) - span - 1) b))

/-! ## `Evaluator.derivative` (A3.2, rational case A4.2)
`basis_funcs_ders = basis.basis_funcs_derivatives(span, u, n)` (A2.3) is a parameter here: its first loop is cut into kernels
(`bdIndex`, `bdLeft`, `bdRight`, `bdInner`), the rest is the same text in both twins up to the rewrites declared in
harness/props/c10_loops.py (DERIV_REWRITES), compared on every run.
```
if basis.is_rational:
    for k in range(n + 1):
        v = NULLVEC; wder = 0.0
        for j in range(p + 1):
            index = span - p + j
            bas_func_weight = KERNEL_edWeight        # basis_funcs_ders[k][j] * weights[index]
            KERNEL_edAccV                            # v += control_points[index] * bas_func_weight
            KERNEL_edAccW                            # wder += bas_func_weight
        CKw.append(v); wders.append(wder)
    for k in range(n + 1):
        v = CKw[k]
        for i in range(1, k + 1):
            KERNEL_edSub                             # v -= binomial_coefficient(k, i) * wders[i] * CK[k - i]
        CK.append(KERNEL_edDiv)                      # v / wders[0]
else:   Python: CK = [Vec3.sum(KERNEL_edTerm for j in range(p + 1)) for k in range(n + 1)]
        Cython: for k …: v3_sum = Vec3(); for j in range(p + 1): KERNEL_edAccum; CK.append(v3_sum)
``` -/
def wGet (ws : List Rat) (i : Int) : Except PyErr Rat :=
  let n : Int := ws.length
  let j := if i < 0 then i + n else i
  if j < 0 ∨ n ≤ j then .error .indexError else .ok (ws.getD j.toNat 0)

def rowGet (ders : List (List Rat)) (k j : Nat) : Rat := kget (ders.getD k []) j

structure DerivK where
  weight : Rat → Rat → Rat
  accV : V3 → V3 → Rat → V3
  accW : Rat → Rat → Rat
  sub : V3 → Rat → Rat → V3 → V3          -- v, binomial_coefficient(k, i), wders[i], CK[k - i]
  div : V3 → Rat → Except PyErr V3

/-- `CKw[k]`, `wders[k]` -/
def derivHomog (K : DerivK) (ders : List (List Rat)) (weights : List Rat) (cps : List V3) (span : Int) (p k : Nat) : Except PyErr (V3 × Rat) :=
  if ders.length ≤ k then .error .indexError else   -- `basis_funcs_ders[k]` with k > degree (the table has min(n, p) + 1 rows)
  forRange 0 (p + 1) (fun j (s : V3 × Rat) =>
    (wGet weights (span - p + j)).bind (fun w => (cpGet cps (span - p + j)).map (fun c =>
      let bw := K.weight (rowGet ders k j) w
      (K.accV s.1 c bw, K.accW s.2 bw)))) (⟨0, 0, 0⟩, 0)

def derivRational (K : DerivK) (binom : Nat → Nat → Rat) (ders : List (List Rat)) (weights : List Rat) (cps : List V3)
    (span : Int) (p n : Nat) : Except PyErr (List V3) :=
  ((List.range (n + 1)).mapM (fun k => derivHomog K ders weights cps span p k)).bind (fun hw =>
    let wders := hw.map (·.2)
    forRange 0 (n + 1) (fun k (CK : List V3) =>
      let v := (List.range' 1 k).foldl (fun v i => K.sub v (binom k i) (kget wders i) (CK.getD (k - i) ⟨0, 0, 0⟩)) ((hw.map (·.1)).getD k ⟨0, 0, 0⟩)
      (K.div v (kget wders 0)).map (fun q => CK ++ [q])) [])

/-- the non rational branch: one `pointSum` per derivative order, over row k of the derivative table -/
def derivPlain (psum : List Rat → List V3 → Int → Nat → Except PyErr V3) (ders : List (List Rat)) (cps : List V3) (span : Int) (p n : Nat) :
    Except PyErr (List V3) :=
  (List.range (n + 1)).mapM (fun k => if ders.length ≤ k then .error .indexError else psum (ders.getD k []) cps span p)

def evalDerivative (snap : Rat → Rat → Bool) (fs : List Rat → Nat → Nat → Rat → Option Int)
    (dersFn : Int → Rat → Nat → Except PyErr (List (List Rat)))
    (rational : List (List Rat) → List Rat → List V3 → Int → Nat → Nat → Except PyErr (List V3))
    (plain : List (List Rat) → List V3 → Int → Nat → Nat → Except PyErr (List V3))
    (knots weights : List Rat) (order : Nat) (cps : List V3) (u : Rat) (n : Nat) : Option (Except PyErr (List V3)) :=
  let maxT := kget knots (knots.length - 1)
  let u := if snap u maxT then maxT else u
  (fs knots order cps.length u).map (fun span =>
    (dersFn span u n).bind (fun ders =>
      if weights.isEmpty then plain ders cps span (order - 1) n else rational ders weights cps span (order - 1) n))

/-! ### `binomial_coefficient`: linalg.py (`math.factorial`) and bspline.pyx (table `FACTORIAL[0..18]`, regenerated into Gen) -/
def factorial : Nat → Nat
  | 0 => 1
  | n + 1 => (n + 1) * factorial n

/-- `float(k! / ((k - i)! * i!))`, 0 for i > k -/
def binomPy (k i : Nat) : Rat :=
  if i > k then 0 else (factorial k : Rat) / ((factorial (k - i) : Rat) * (factorial i : Rat))

/-- `FACTORIAL[k] / (FACTORIAL[k - i] * FACTORIAL[i])`, 0 for i > k (C division) -/
def binomPyx (T : List Rat) (k i : Nat) : Rat :=
  if i > k then 0 else kget T k / (kget T (k - i) * kget T i)

/-! ## `_LineTypeRenderer`
state: `_current_dash`, `_current_dash_length`, `_is_dash`;  `_cycle_dashes` (no arithmetic, same text in both twins):
`cur = (cur + 1) % dash_count; cdl = dashes[cur]; is_dash = not is_dash`
```
def _render_dashes(self, length):
    if KERNEL_rdFits:                                     # length <= cdl
        KERNEL_rdRemain                                   # cdl -= length
        EMIT(self._is_dash, length)                       # py: yield (is_dash, length); pyx: dashes.append((is_dash, length))
        if KERNEL_rdCycleTest: self._cycle_dashes()       # cdl < ABS_TOL
    else:
        while KERNEL_rdMore:                              # length > cdl
            KERNEL_rdLess                                 # length -= cdl
            self._render_dashes(self._current_dash_length)
        if KERNEL_rdRest: self._render_dashes(length)     # length > 0.0
``` -/
structure RenderK where
  fits : Rat → Rat → Bool      -- length, cdl
  remain : Rat → Rat → Rat     -- cdl, length
  cycleTest : Rat → Bool       -- cdl
  more : Rat → Rat → Bool      -- length, cdl
  less : Rat → Rat → Rat       -- length, cdl
  rest : Rat → Bool            -- length

structure LtState where
  cur : Nat
  cdl : Rat
  isDash : Bool
deriving DecidableEq, Repr

/-- `__init__` (same in both twins): solid for fewer than two elements -/
def ltInit (dashes : List Rat) : LtState :=
  if dashes.length > 1 then ⟨0, kget dashes 0, true⟩ else ⟨0, 0, false⟩

def ltSolid (dashes : List Rat) : Bool := !(decide (dashes.length > 1))

def cycleDashes (dashes : List Rat) (st : LtState) : LtState :=
  let c := (st.cur + 1) % dashes.length
  ⟨c, kget dashes c, !st.isDash⟩

mutual
/-- `_render_dashes(length)`; `emit` is the twin's way to record (is_dash, length) -/
def renderDashes {ε : Type} (K : RenderK) (dashes : List Rat) (emit : Bool → Rat → ε) :
    Nat → Rat → LtState × List ε → Option (LtState × List ε)
  | 0, _, _ => none
  | f + 1, length, s =>
    if K.fits length s.1.cdl then
      let st1 : LtState := { s.1 with cdl := K.remain s.1.cdl length }
      let out := s.2 ++ [emit s.1.isDash length]
      some (if K.cycleTest st1.cdl then cycleDashes dashes st1 else st1, out)
    else renderWhile K dashes emit f length s
/-- the `else` branch: `while …: …` followed by `if KERNEL_rdRest: …` -/
def renderWhile {ε : Type} (K : RenderK) (dashes : List Rat) (emit : Bool → Rat → ε) :
    Nat → Rat → LtState × List ε → Option (LtState × List ε)
  | 0, _, _ => none
  | f + 1, length, s =>
    if K.more length s.1.cdl then
      match renderDashes K dashes emit f s.1.cdl s with
      | none => none
      | some s' => renderWhile K dashes emit f (K.less length s.1.cdl) s'
    else if K.rest length then renderDashes K dashes emit f length s
    else some s
end

/-- HISTORICAL (before the fix of D15 the Cython twin carried (is_dash, length) through a list of C doubles): `length if is_dash
    else -length`, read back with `copysign(1.0, x) > 0` and `abs(x)`.  For a length with a clear sign bit (+0.0 included) the
    sign bit of the stored value is `not is_dash` and its magnitude is `length`: IEEE-754 negation only flips the sign bit.
    A pattern element `-0.0` has its sign bit set: the model below does not apply and the twins differed (D15).  Both twins
    record the pair itself now (`emitPy`); the encoding is kept as the statement of what was assumed. -/
structure SignedMag where
  neg : Bool
  mag : Rat
deriving DecidableEq, Repr

def emitPy (isDash : Bool) (length : Rat) : Bool × Rat := (isDash, length)
def emitPyx (isDash : Bool) (length : Rat) : SignedMag := ⟨!isDash, length⟩
/-- `(copysign(1.0, x) > 0, abs(x))` -/
def decodePyx (x : SignedMag) : Bool × Rat := (!x.neg, x.mag)

/-- the consumer loop of `line_segment`: `end = KERNEL_lsStep; if is_dash: yield start, end; start = end` -/
def walkDashes (step : V3 → V3 → Rat → V3) (dir : V3) : V3 → List (Bool × Rat) → List (V3 × V3)
  | _, [] => []
  | start, (d, len) :: rest =>
    let e := step start dir len
    if d then (start, e) :: walkDashes step dir e rest else walkDashes step dir e rest

structure LineSegK where
  same : V3 → V3 → Bool                       -- start.isclose(end)
  length : V3 → V3 → Rat → Rat                -- …, r1 = sqrt of the radicand
  dir : V3 → V3 → Rat → Except PyErr V3
  step : V3 → V3 → Rat → V3

/-- `line_segment(start, end)` -> (new state, yielded segments); `r1` is the square root taken by `magnitude`;
    `render` = the twin's `_render_dashes` already decoded to (is_dash, length) pairs -/
def lineSegment (L : LineSegK) (dashes : List Rat)
    (render : Rat → LtState → Option (LtState × List (Bool × Rat)))
    (st : LtState) (a b : V3) (r1 : Rat) : Option (Except PyErr (LtState × List (V3 × V3))) :=
  if ltSolid dashes || L.same a b then some (.ok (st, [(a, b)]))
  else match L.dir a b r1 with
    | .error e => some (.error e)
    | .ok d => (render (L.length a b r1) st).map (fun o => .ok (o.1, walkDashes L.step d a o.2))

/-! ## `has_clockwise_orientation`: construct (both twins) and np_support (Cython only; npshapes.py falls back to the
construct function without the extension)
Python:     `if not KERNEL_cwClosed: vertices.append(vertices[0])`;
            `return sum(KERNEL_cwTerm for p1, p2 in zip(vertices, vertices[1:])) > 0.0`
Cython:     `p1 = v[0]; p2 = v[-1]; s = 0.0; if not KERNEL_cwClosed: v.append(p1)`;
            `for index in range(1, len(v)): p2 = v[index]; KERNEL_cwAccum; p1 = p2`; `return KERNEL_cwSign`
np_support: `x_is_close = …; y_is_close = …; if x_is_close and y_is_close: p1 = v[0]; start = 1 else: p1 = v[last]; start = 0`;
            `for index in range(start, size): p2 = v[index]; KERNEL_npAccum; p1 = p2`; `return KERNEL_npSign`
all three raise ValueError for fewer than 3 vertices. -/
def cwPy (closed : V2 → V2 → Bool) (term : V2 → V2 → Rat) (sign : Rat → Bool) (vs : List V2) : Except PyErr Bool :=
  if vs.length < 3 then .error .valueError else
  let v0 := vs.getD 0 ⟨0, 0⟩
  let vl := vs.getD (vs.length - 1) ⟨0, 0⟩
  let ws := if !closed v0 vl then vs ++ [v0] else vs
  .ok (sign (pySum (List.zipWith term ws ws.tail)))

/-- `for index in range(start, len): p2 = v[index]; s = accum s p1 p2; p1 = p2` -/
def cwFold (accum : Rat → V2 → V2 → Rat) : Rat → V2 → List V2 → Rat
  | s, _, [] => s
  | s, p1, p2 :: rest => cwFold accum (accum s p1 p2) p2 rest

def cwPyx (closed : V2 → V2 → Bool) (accum : Rat → V2 → V2 → Rat) (sign : Rat → Bool) (vs : List V2) : Except PyErr Bool :=
  if vs.length < 3 then .error .valueError else
  let v0 := vs.getD 0 ⟨0, 0⟩
  let vl := vs.getD (vs.length - 1) ⟨0, 0⟩
  let ws := if !closed v0 vl then vs ++ [v0] else vs
  .ok (sign (cwFold accum 0 v0 ws.tail))

def cwNp (closeX closeY : Rat → Rat → Bool) (accum : Rat → Rat → Rat → Rat → Rat → Rat) (sign : Rat → Bool) (vs : List V2) : Except PyErr Bool :=
  if vs.length < 3 then .error .valueError else
  let v0 := vs.getD 0 ⟨0, 0⟩
  let vl := vs.getD (vs.length - 1) ⟨0, 0⟩
  let acc := fun s (a b : V2) => accum s a.x a.y b.x b.y
  if closeX v0.x vl.x && closeY v0.y vl.y then .ok (sign (cwFold acc 0 v0 vs.tail))
  else .ok (sign (cwFold acc 0 vl vs))

/-! ## earcut `signed_area(points)` (the only earcut loop whose STATE differs between the twins; all other earcut functions are the same
text after the cuts, see harness/props/c10_loops.py earcut_identity)
Python:  `prev = points[-1]; for point in points: KERNEL_saTerm; prev = point`        (state: s and the previous POINT)
Cython:  `prev = points[-1]; prev_x = prev.x; prev_y = prev.y; for point in points: KERNEL_saStep`   (state: s, prev_x, prev_y)
both return 0.0 for an empty list. -/
def signedAreaPy (term : Rat → Rat → Rat → Rat → Rat → Rat) (pts : List V2) : Rat :=
  if pts.isEmpty then 0 else
  (pts.foldl (fun (st : Rat × V2) pt => (term st.1 st.2.x st.2.y pt.x pt.y, pt)) (0, pts.getD (pts.length - 1) ⟨0, 0⟩)).1

def signedAreaPyx (step : Rat → Rat → Rat → Rat → Rat → Rat × Rat × Rat) (pts : List V2) : Rat :=
  if pts.isEmpty then 0 else
  let l := pts.getD (pts.length - 1) ⟨0, 0⟩
  (pts.foldl (fun (st : Rat × Rat × Rat) pt => step st.1 st.2.1 st.2.2 pt.x pt.y) (0, l.x, l.y)).1

/-! ## banded LU: `_lu_decompose` / `_solve_vector_banded_matrix` (linalg.py) and the `_cext` functions of np_support.pyx
The loop nests are the same in both twins (pinned skeletons `LU::decompose::*`, `LU::solve::*`); the arithmetic is cut out:
`KERNEL_luPivotTest` (`abs(upper[j][0]) > abs(dum)`), `KERNEL_luFactor` (`upper[i][0] / upper[k][0]`, ZeroDivisionError),
`KERNEL_luElim` (`upper[i][j] - dum * upper[k][j]`), `KERNEL_svFwd`, `KERNEL_svBack`, `KERNEL_svDiv`.
`upper` is the compact n x (m1+m2+1) band, `lower` n x m1, `index` the 1-based pivot rows. -/
def get2 (a : List (List Rat)) (i j : Nat) : Rat := kget (a.getD i []) j
def set2 (a : List (List Rat)) (i j : Nat) (v : Rat) : List (List Rat) := a.set i ((a.getD i []).set j v)

structure LuK where
  pivot : Rat → Rat → Bool                 -- upper[j][0], dum
  factor : Rat → Rat → Except PyErr Rat     -- upper[i][0], upper[k][0]
  elim : Rat → Rat → Rat → Rat              -- upper[i][j], dum, upper[k][j]

/-- first loop nest: rows 0..m1-1 are shifted left, the freed cells zeroed -/
def luShift (upper : List (List Rat)) (m1 mm : Nat) : List (List Rat) :=
  (List.range m1).foldl (fun up i =>
    let l := m1 - i
    let up1 := (List.range' l (mm - l)).foldl (fun u j => set2 u i (j - l) (get2 u i j)) up
    let z := mm - (l - 1) - 1
    (List.range' z (mm - z)).foldl (fun u j => set2 u i j 0) up1) upper

structure LuState where
  upper : List (List Rat)
  lower : List (List Rat)
  index : List Nat
  l : Nat
deriving Repr

def luStep (K : LuK) (n mm k : Nat) (s : LuState) : Except PyErr LuState :=
  let l := if s.l < n then s.l + 1 else s.l
  let piv := (List.range' (k + 1) (l - (k + 1))).foldl
    (fun (di : Rat × Nat) j => if K.pivot (get2 s.upper j 0) di.1 then (get2 s.upper j 0, j) else di) (get2 s.upper k 0, k)
  let i := piv.2
  let up := if i ≠ k then
      (List.range mm).foldl (fun u j => set2 (set2 u k j (get2 u i j)) i j (get2 u k j)) s.upper
    else s.upper
  (forRange (k + 1) l (fun r (ul : List (List Rat) × List (List Rat)) =>
      (K.factor (get2 ul.1 r 0) (get2 ul.1 k 0)).map (fun dum =>
        let u1 := (List.range' 1 (mm - 1)).foldl (fun u j => set2 u r (j - 1) (K.elim (get2 u r j) dum (get2 u k j))) ul.1
        (set2 u1 r (mm - 1) 0, set2 ul.2 k (r - k - 1) dum))) (up, s.lower)).map
    (fun ul => ⟨ul.1, ul.2, s.index.set k (i + 1), l⟩)

def luDecompose (K : LuK) (A : List (List Rat)) (m1 m2 : Nat) : Except PyErr LuState :=
  let n := A.length
  let mm := m1 + m2 + 1
  forRange 0 n (fun k s => luStep K n mm k s)
    ⟨luShift A m1 mm, List.replicate n (List.replicate m1 0), List.replicate n 0, m1⟩

structure SvK where
  fwd : Rat → Rat → Rat → Rat               -- x[j], al[k][j-k-1], x[k]
  back : Rat → Rat → Rat → Rat              -- dum, au[i][k], x[k+i]
  div : Rat → Rat → Except PyErr Rat        -- dum, au[i][0]

def svSolve (K : SvK) (x : List Rat) (au al : List (List Rat)) (index : List Nat) (m1 m2 : Nat) : Except PyErr (List Rat) :=
  let n := au.length
  let mm := m1 + m2 + 1
  let fw := (List.range n).foldl (fun (s : List Rat × Nat) k =>
      let j := index.getD k 0 - 1
      let x := if j ≠ k then (s.1.set k (kget s.1 j)).set j (kget s.1 k) else s.1
      let l := if s.2 < n then s.2 + 1 else s.2
      ((List.range' (k + 1) (l - (k + 1))).foldl (fun x j => x.set j (K.fwd (kget x j) (get2 al k (j - k - 1)) (kget x k))) x, l)) (x, m1)
  ((List.range n).reverse.foldlM (fun (s : List Rat × Nat) i =>
      let dum := (List.range' 1 (s.2 - 1)).foldl (fun d k => K.back d (get2 au i k) (kget s.1 (k + i))) (kget s.1 i)
      (K.div dum (get2 au i 0)).map (fun q => (s.1.set i q, if s.2 < mm then s.2 + 1 else s.2))) (fw.1, 1)).map (·.1)

/-! ## `Basis.basis_funcs_derivatives(span, u, n)` (A2.3) - the whole function (pinned skeleton, same loops in both twins up to
DERIV_REWRITES; every arithmetic statement is a kernel)
```
n = min(n, p); left = right = [1.0]*order; ndu = order x order of 1.0
for j in range(1, order):
    left[j] = KERNEL_bdLeft; right[j] = KERNEL_bdRight; saved = 0.0
    for r in range(j): KERNEL_bdInner      # (ndu[j][r], ndu[r][j], saved) := f(right[r+1], left[j-r], ndu[r][j-1], saved)
    ndu[j][j] = saved
derivatives = order x order of 0.0;  for j in range(order): derivatives[0][j] = ndu[j][p]
a = 2 x order of 1.0
for r in range(order):
    s1 = 0; s2 = 1; a[0][0] = 1.0
    for k in range(1, n + 1):
        d = 0.0; rk = r - k; pk = p - k
        if r >= k: a[s2][0] = KERNEL_bdA0; d = KERNEL_bdD0
        j1 = 1 if rk >= -1 else -rk;  j2 = k - 1 if r - 1 <= pk else p - r
        for j in range(j1, j2 + 1): a[s2][j] = KERNEL_bdAj; KERNEL_bdDj
        if r <= pk: a[s2][k] = KERNEL_bdAk; KERNEL_bdDk
        derivatives[k][r] = d; s1, s2 = s2, s1
r = float(p)
for k in range(1, n + 1):
    for j in range(order): KERNEL_bdScale
    KERNEL_bdNext
return derivatives[:n + 1]
``` -/
structure DersK where
  index : Rat → Rat → Rat
  left : Rat → Rat → Rat
  right : Rat → Rat → Rat
  inner : Rat → Rat → Rat → Rat → Except PyErr (Rat × Rat × Rat)   -- right[r+1], left[j-r], ndu[r][j-1], saved -> ndu[j][r], ndu[r][j], saved
  a0 : Rat → Rat → Except PyErr Rat        -- a[s1][0], ndu[pk+1][rk]
  d0 : Rat → Rat → Rat                     -- a[s2][0], ndu[rk][pk]
  aj : Rat → Rat → Rat → Except PyErr Rat  -- a[s1][j], a[s1][j-1], ndu[pk+1][rk+j]
  dj : Rat → Rat → Rat → Rat               -- d, a[s2][j], ndu[rk+j][pk]
  ak : Rat → Rat → Except PyErr Rat        -- a[s1][k-1], ndu[pk+1][r]
  dk : Rat → Rat → Rat → Rat               -- d, a[s2][k], ndu[r][pk]
  scale : Rat → Rat → Rat                  -- derivatives[k][j], r
  next : Rat → Rat → Rat → Rat             -- r, p, k

/-- the table `ndu` (first loop nest) -/
def dersNdu (K : DersK) (knots : List Rat) (order : Nat) (span : Int) (u : Rat) : Except PyErr (List (List Rat)) :=
  let ones := List.replicate order (1 : Rat)
  (forRange 1 order (fun j (st : List (List Rat) × List Rat × List Rat) =>
      let left := st.2.1.set j (K.left u (kgetI knots (idx (K.index (span : Rat) (j : Rat)))))
      let right := st.2.2.set j (K.right u (kgetI knots (span + j)))
      (forRange 0 j (fun r (ns : List (List Rat) × Rat) =>
          (K.inner (kget right (r + 1)) (kget left (j - r)) (get2 ns.1 r (j - 1)) ns.2).map
            (fun o => (set2 (set2 ns.1 j r o.1) r j o.2.1, o.2.2))) (st.1, 0)).map
        (fun o => (set2 o.1 j j o.2, left, right)))
    (List.replicate order ones, ones, ones)).map (·.1)

structure DersState where
  a : List (List Rat)       -- 2 x order
  ders : List (List Rat)    -- order x order
  s1 : Nat
  s2 : Nat

/-- one derivative order k for one function index r -/
def dersStepK (K : DersK) (ndu : List (List Rat)) (p r k : Nat) (st : DersState) : Except PyErr DersState :=
  let rk : Int := (r : Int) - k
  let pk : Nat := p - k
  let s1 := st.s1
  let s2 := st.s2
  -- if r >= k
  (if r ≥ k then
      (K.a0 (get2 st.a s1 0) (get2 ndu (pk + 1) rk.toNat)).map (fun v => (set2 st.a s2 0 v, K.d0 v (get2 ndu rk.toNat pk)))
    else .ok (st.a, 0)).bind (fun ad =>
  let j1 : Nat := if rk ≥ -1 then 1 else (-rk).toNat
  let j2 : Int := if (r : Int) - 1 ≤ pk then (k : Int) - 1 else (p : Int) - r
  (forRange j1 (j2 + 1).toNat (fun j (ad : List (List Rat) × Rat) =>
      (K.aj (get2 ad.1 s1 j) (get2 ad.1 s1 (j - 1)) (get2 ndu (pk + 1) (rk + j).toNat)).map
        (fun v => (set2 ad.1 s2 j v, K.dj ad.2 v (get2 ndu (rk + j).toNat pk)))) ad).bind (fun ad =>
  (if r ≤ pk then
      (K.ak (get2 ad.1 s1 (k - 1)) (get2 ndu (pk + 1) r)).map (fun v => (set2 ad.1 s2 k v, K.dk ad.2 v (get2 ndu r pk)))
    else .ok ad).map (fun ad => ⟨ad.1, set2 st.ders k r ad.2, s2, s1⟩)))

def basisFuncsDerivatives (K : DersK) (knots : List Rat) (order : Nat) (span : Int) (u : Rat) (n : Nat) : Except PyErr (List (List Rat)) :=
  let p := order - 1
  let n := if p < n then p else n            -- n = min(n, p)
  (dersNdu K knots order span u).bind (fun ndu =>
    let ders0 := (List.range order).foldl (fun d j => set2 d 0 j (get2 ndu j p)) (List.replicate order (List.replicate order (0 : Rat)))
    (forRange 0 order (fun r (st : DersState) =>
        forRange 1 (n + 1) (fun k st => dersStepK K ndu p r k st) ⟨set2 st.a 0 0 1, st.ders, 0, 1⟩)
      ⟨List.replicate 2 (List.replicate order 1), ders0, 0, 1⟩).map (fun st =>
      let scaled := (List.range' 1 n).foldl (fun (dr : List (List Rat) × Rat) k =>
          ((List.range order).foldl (fun d j => set2 d k j (K.scale (get2 d k j) dr.2)) dr.1, K.next dr.2 (p : Rat) (k : Rat))) (st.ders, (p : Rat))
      scaled.1.take (n + 1)))

/-! ## `cubic_bezier_arc_parameters(start_angle, end_angle, segments)` (bezier4p, both twins; pinned skeletons)
`ceil`, `tan` and the unit vector `from_angle` (cos, sin) are PARAMETERS: the same libm functions on both sides.
```
if KERNEL_apSegmentsBad: raise ValueError
delta_angle = KERNEL_apDelta
if KERNEL_apPositive: arc_count = KERNEL_apCount(ceil(KERNEL_apCeilArg), segments)  else: raise ValueError
segment_angle = KERNEL_apSegAngle;  tangent_length = KERNEL_apTanLen(tan(KERNEL_apTanArg))
angle = start_angle; end_point = from_angle(angle)
for _ in range(arc_count):
    start_point = end_point; KERNEL_apAngle; end_point = from_angle(angle)
    yield start_point, KERNEL_apCp1(start_point), KERNEL_apCp2(end_point), end_point
``` -/
structure ArcK where
  segBad : Rat → Bool
  delta : Rat → Rat → Rat
  positive : Rat → Bool
  ceilArg : Rat → Rat → Except PyErr Rat
  count : Rat → Rat → Rat
  segAngle : Rat → Rat → Except PyErr Rat
  tanArg : Rat → Rat
  tanLen : Rat → Rat
  angle : Rat → Rat → Rat
  cp1 : V3 → Rat → V3
  cp2 : V3 → Rat → V3

/-- the loop; the state is the current `angle` (start_point = from_angle of the angle before the step, a pure function) -/
def arcLoop (K : ArcK) (fromAngle : Rat → V3) (sa tl : Rat) : Nat → Rat → List (V3 × V3 × V3 × V3)
  | 0, _ => []
  | n + 1, angle =>
    let a' := K.angle angle sa
    (fromAngle angle, K.cp1 (fromAngle angle) tl, K.cp2 (fromAngle a') tl, fromAngle a') :: arcLoop K fromAngle sa tl n a'

def arcParameters (K : ArcK) (ceil tan : Rat → Rat) (fromAngle : Rat → V3) (pi : Rat) (startA endA segments : Rat) :
    Except PyErr (List (V3 × V3 × V3 × V3)) :=
  if K.segBad segments then .error .valueError else
  let delta := K.delta startA endA
  if !K.positive delta then .error .valueError else
  (K.ceilArg delta pi).bind (fun ca =>
    let count := K.count (ceil ca) segments
    (K.segAngle delta count).map (fun sa =>
      arcLoop K fromAngle sa (K.tanLen (tan (K.tanArg sa))) (idx count).toNat startA))

/-! ## `is_point_in_polygon_2d(point, polygon, abs_tol)` (construct, both twins; pinned skeletons)
Python:  `if KERNEL_pipClosed: polygon = polygon[:-1]`; `x1, y1 = polygon[-1]`; `for x2, y2 in polygon: KERNEL_pipOnEdge (return 0);
          if KERNEL_pipToggle: inside = not inside; x1 = x2; y1 = y2`
Cython:  `if KERNEL_pipClosed: size -= 1; last -= 1`; `p1 = vertices[last]`; `for i in range(size): p2 = vertices[i]; …` same body
both return -1 for fewer than 3 vertices (before and after removing the closing vertex), +1 / -1 by the parity of the toggles. -/
structure PipK where
  closed : V2 → V2 → Bool
  onEdge : Rat → Rat → Rat → Rat → Rat → Rat → Rat → Rat      -- x y x1 y1 x2 y2 abs_tol; 0 = on the boundary (`return 0`)
  toggle : Rat → Rat → Rat → Rat → Rat → Rat → Except PyErr Bool

def pipLoop (K : PipK) (x y tol : Rat) : List V2 → V2 → Bool → Except PyErr Int
  | [], _, inside => .ok (if inside then 1 else -1)
  | p2 :: rest, p1, inside =>
    if K.onEdge x y p1.x p1.y p2.x p2.y tol = 0 then .ok 0 else
    (K.toggle x y p1.x p1.y p2.x p2.y).bind (fun t => pipLoop K x y tol rest p2 (if t then !inside else inside))

def pipPy (K : PipK) (pt : V2) (polygon : List V2) (tol : Rat) : Except PyErr Int :=
  if polygon.length < 3 then .ok (-1) else
  let poly := if K.closed (polygon.getD 0 ⟨0, 0⟩) (polygon.getD (polygon.length - 1) ⟨0, 0⟩) then polygon.dropLast else polygon
  if poly.length < 3 then .ok (-1) else
  pipLoop K pt.x pt.y tol poly (poly.getD (poly.length - 1) ⟨0, 0⟩) false

def pipPyx (K : PipK) (pt : V2) (vertices : List V2) (tol : Rat) : Except PyErr Int :=
  let size := vertices.length
  if size < 3 then .ok (-1) else
  let last := size - 1
  let cl := K.closed (vertices.getD 0 ⟨0, 0⟩) (vertices.getD last ⟨0, 0⟩)
  let size := if cl then size - 1 else size
  let last := if cl then last - 1 else last
  if size < 3 then .ok (-1) else
  pipLoop K pt.x pt.y tol (vertices.take size) (vertices.getD last ⟨0, 0⟩) false

/-! ## `Bezier4P.approximate(segments)`, `Bezier3P.approximate(segments)`, `approximated_length(segments)` (pinned skeletons)
```
if KERNEL_axBad: raise ValueError(segments)
delta_t = KERNEL_axDelta
yield cp[0];  for segment in range(1, segments): yield point(KERNEL_axParam);  yield cp[-1]        # Cython: a list
```
`approximated_length`: `length = 0.0; for point in approximate(segments): if <not the first>: KERNEL_alAdd; prev_point = point`
(Python tests `prev_point is not None`, Cython a start flag). -/
def approximate (bad : Rat → Bool) (delta : Rat → Except PyErr Rat) (param : Rat → Rat → Rat) (point : Rat → V3) (first last : V3)
    (segments : Rat) : Except PyErr (List V3) :=
  if bad segments then .error .valueError else
  (delta segments).map (fun dt =>
    first :: ((List.range' 1 ((idx segments).toNat - 1)).map (fun (k : Nat) => point (param dt (k : Rat))) ++ [last]))

def polylineLength (add : Rat → V3 → V3 → Rat) : List V3 → Rat
  | [] => 0
  | p :: rest => (rest.foldl (fun (st : Rat × V3) q => (add st.1 st.2 q, q)) (0, p)).1

/-! ## `cubic_bezier_from_arc(center, radius, start_angle, end_angle, segments)` (bezier4p; pinned skeletons)
```
angle_span = arc_angle_span_deg(start_angle, end_angle);  if KERNEL_faTiny: return
s = start_angle
start_angle = RAD(s) % tau                 # Python: math.radians(s) % math.tau, Cython: (s * DEG2RAD) % M_TAU
end_angle = RAD(s + angle_span)
while KERNEL_faMore: KERNEL_faBump
for control_points in cubic_bezier_arc_parameters(start_angle, end_angle, segments): yield Bezier4P([KERNEL_faPoint for p in control_points])
``` -/
def fromArc (tiny : Rat → Bool) (more : Rat → Rat → Bool) (bump : Rat → Rat → Rat) (point : V3 → V3 → Rat → V3)
    (span : Rat → Rat → Rat) (startRad : Rat → Rat) (endRad : Rat → Rat → Rat) (fmod : Rat → Rat → Rat) (tau : Rat)
    (arcs : Rat → Rat → Rat → Except PyErr (List (V3 × V3 × V3 × V3)))
    (center : V3) (radius startDeg endDeg segments : Rat) (fuel : Nat) : Option (Except PyErr (List (V3 × V3 × V3 × V3))) :=
  let sp := span startDeg endDeg
  if tiny sp then some (.ok []) else
  let sa := fmod (startRad startDeg) tau
  (whileFuel (fun e => more sa e) (fun e => bump e tau) fuel (endRad startDeg sp)).map (fun ea =>
    (arcs sa ea segments).map (fun l => l.map (fun q =>
      (point center q.1 radius, point center q.2.1 radius, point center q.2.2.1 radius, point center q.2.2.2 radius))))

end EzdxfVerif.TwinLoops

/-
Extensions of the encoding model (property C09, session 3).  Core Lean only.
  * certificates of the single-byte tables (injectivity, agreement with the independently tabulated encoder);
-/
import EzdxfVerif.Model.Encoding
import EzdxfVerif.Model.Codec

namespace EzdxfVerif.Encoding

/-! certificate of a single-byte table (kernel-checked for the ten regenerated tables) -/

/-- no defined entry occurs again later in the table: the decoding table is injective where defined -/
def nodupDefB : List Nat → Bool
  | [] => true
  | a :: r => (Nat.beq a undef || r.all (fun b => !(Nat.beq a b))) && nodupDefB r

/-- 256 entries, bytes 0..127 decode to themselves, the upper half decodes to code points >= 128 and is injective
    where defined, no entry is U+DC80..DCFF -/
def sbcsCertB (t : List Nat) : Bool :=
  Nat.beq t.length 256 && sbcsTableOk t && (t.drop 128).all (fun v => Nat.ble 128 v) && nodupDefB (t.drop 128)
    && t.all (fun v => !(isEscSurrogate v))

/-- the (code point, byte) pairs of the defined entries of a decoding table, by increasing byte -/
def definedPairs (t : List Nat) : List (Nat × Nat) := t.zipIdx.filter (fun p => !(Nat.beq p.1 undef))

/-- an independently tabulated encoder `e` (all (code point, byte) pairs with `chr(x).encode(codec) == bytes([byte])`
    over all of Unicode, by increasing byte) is the inverse of the decoding table `t` -/
def sbcsEncAgreesB (t : List Nat) (e : List (Nat × Nat)) : Bool := definedPairs t == e

/-! ### encoding detection: `filemanagement.dxf_stream_info` (strict ASCII reader), `tagger.binary_tags_loader.scan_params`
(Binary DXF), `recover.detect_encoding` -/

/-- Python `<` on `str`: lexicographic by code point -/
def strLt : Str → Str → Bool
  | [], [] => false
  | [], _ :: _ => true
  | _ :: _, [] => false
  | a :: r, b :: s => if a < b then true else if b < a then false else strLt r s

/-- "AC1021" (DXF R2007) -/
def ac1021 : Str := [65, 67, 49, 48, 50, 49]
def utf8Name : Str := [117, 116, 102, 56]

/-- `"utf8" if dxfversion >= "AC1021" else toencoding($DWGCODEPAGE)`: the rule of all three readers
    (`dxf_stream_info` spells the result "utf-8") -/
def detectEncoding (tbl : Dict) (ver cp : Str) : Str :=
  if strLt ver ac1021 then toencoding tbl cp else utf8Name

/-- `recover.detect_encoding` returns only `if encoding and dxfversion`: an empty $ACADVER falls through to cp1252 -/
def detectRecover (tbl : Dict) (ver cp : Str) : Str :=
  if ver.isEmpty then cp1252 else detectEncoding tbl ver cp

/-- `scan_params`: the $DWGCODEPAGE name in a Binary DXF is read from `start` to the first NUL at or after
    `start + 5` (`end = start + 5; while data[end] != 0: end += 1`) -/
def binName (data : Bytes) : Bytes := data.take 5 ++ (data.drop 5).takeWhile (fun b => b != 0)

/-- `scan_params` from `data.index(b"$DWGCODEPAGE") + 14` on: that is the first byte of the name when group codes have one
    byte (R12) and the high byte of the group code otherwise; the code tells the two apart by `data[start] != 65` ('A' of
    "ANSI_"), so an R12 name that does not start with 'A' loses its first character -/
def binScan (data : Bytes) : Bytes := if data.head? = some 65 then binName data else binName (data.drop 1)

/-! ### `decode_mif_to_unicode` (the `elif has_mif_encoding` branch of `recover.byte_tag_compiler`)

`"".join(_decode_mif(part) for part in re.split(MIF_ENCODED, s))`; `_decode_mif` converts every part that merely STARTS
with `\M+` (not only the matches - the quirk `_decode` had before fix 3fc8e70de): page digit -> `MIF_CODE_PAGE` ->
`codecs.lookup` -> `binascii.unhexlify(part[4:])` -> strict decode; any exception leaves the part unchanged. -/

theorem mifAt_length {s : Str} (h : mifAt s = true) : 8 ≤ s.length := by
  match s with
  | [] | [_] | [_, _] | [_, _, _] | [_, _, _, _] | [_, _, _, _, _] | [_, _, _, _, _, _] | [_, _, _, _, _, _, _] =>
    simp [mifAt] at h
  | _ :: _ :: _ :: _ :: _ :: _ :: _ :: _ :: _ => simp

/-- `re.split(MIF_ENCODED, s)`; `lit` = text since the last match -/
def mifSplit (lit : Str) (s : Str) : List Str :=
  match s with
  | [] => [lit]
  | x :: r =>
    if _hm : mifAt (x :: r) = true then lit :: (x :: r).take 8 :: mifSplit [] ((x :: r).drop 8)
    else mifSplit (lit ++ [x]) r
termination_by s.length
decreasing_by
  · have := mifAt_length _hm; simp at this ⊢; omega
  · simp

/-- value of a hex digit as `binascii.unhexlify` accepts it: both cases, ASCII only -/
def hexVal? (x : Nat) : Option Nat :=
  if 48 ≤ x ∧ x ≤ 57 then some (x - 48) else if 65 ≤ x ∧ x ≤ 70 then some (x - 55)
  else if 97 ≤ x ∧ x ≤ 102 then some (x - 87) else none

/-- `binascii.unhexlify(str)`: `none` = binascii.Error / ValueError (odd length, non-hex or non-ASCII character) -/
def unhex : Str → Option Bytes
  | [] => some []
  | [_] => none
  | a :: b :: r =>
    match hexVal? a, hexVal? b, unhex r with
    | some h, some l, some t => some ((h * 16 + l) :: t)
    | _, _, _ => none

/-- `codec.decode(bytes)` with errors="strict" for a double-byte codec: `none` = UnicodeDecodeError -/
def dbcsDecStrictWith (isLead : Nat → Bool) (lookup : Nat → Option Nat) : Bytes → Option Str
  | [] => some []
  | [b0] => if isLead b0 then none else (lookup b0).map ([·])
  | b0 :: b1 :: r =>
    if isLead b0 then
      match lookup (b0 * 256 + b1) with
      | some cp => (dbcsDecStrictWith isLead lookup r).map (cp :: ·)
      | none => none
    else
      match lookup b0 with
      | some cp => (dbcsDecStrictWith isLead lookup (b1 :: r)).map (cp :: ·)
      | none => none

/-- `\M+` -/
def mifPrefix : Str := [92, 77, 43]

/-- `_decode_mif`; `pages k` = the strict decoder of `codecs.lookup(MIF_CODE_PAGE[k])`, `none` = KeyError / LookupError -/
def decodeMifPartWith (pages : Nat → Option (Bytes → Option Str)) (p : Str) : Str :=
  if mifPrefix.isPrefixOf p then
    match p[3]? with
    | none => p                                   -- IndexError
    | some k =>
      match pages k with
      | none => p                                 -- KeyError / LookupError
      | some dec =>
        match unhex (p.drop 4) with
        | none => p                               -- binascii.Error
        | some b => (dec b).getD p                -- UnicodeDecodeError
  else p

def decodeMifWith (pages : Nat → Option (Bytes → Option Str)) (s : Str) : Str :=
  (mifSplit [] s).flatMap (decodeMifPartWith pages)

/-- `MIF_CODE_PAGE` resolved through `codecs.lookup` (tabulated: digit, canonical codec name or "" for LookupError)
    against the regenerated double-byte tables -/
def mifPages (tabs : List DbcsTab) (tbl : List (Nat × Str)) (k : Nat) : Option (Bytes → Option Str) :=
  match tbl.find? (fun p => p.1 = k) with
  | some p => (tabs.find? (fun T => T.name = p.2)).map
      (fun T => dbcsDecStrictWith (isLeadB T.leads) (tabLookup T.dec))
  | none => none

/-- the string branch of `recover.byte_tag_compiler` with the MIF branch spelled out -/
def recoverText (pages : Nat → Option (Bytes → Option Str)) (s : Str) : Str :=
  if hasDxfUnicode s then decodeDxfUnicode s
  else if hasMif s then decodeMifWith pages s
  else s

/-- `byte_tag_compiler`, string typed tag: structure tags (group code 0) are not post-processed ("exclude structure
    tags"), every other string value - XDATA (1000..1005) included - goes through `recoverText` -/
def recoverTagValue (pages : Nat → Option (Bytes → Option Str)) (code : Nat) (s : Str) : Str :=
  if code = 0 then s else recoverText pages s

/-- `\M+kXXXX` for the two bytes of `key` -/
def mifEsc (k key : Nat) : Str := mifPrefix ++ [k] ++ hexFixed true 4 key

/-! ### framing: tag values in a file

ASCII DXF: every value is a line (`tagwriter`: `"%3d\\n%s\\n"`); the strict reader decodes the whole file with the code
page and splits the TEXT into lines, the recover reader splits the BYTES at LF and decodes every value on its own.
Binary DXF: every string value is NUL terminated; the loader splits the BYTES at NUL and decodes every value. -/

/-- split at every `sep`: n separators give n + 1 pieces (`str.split(sep)` / `bytes.split(sep)`) -/
def splitOn (sep : Nat) : List Nat → List (List Nat)
  | [] => [[]]
  | x :: r =>
    match splitOn sep r with
    | [] => [[]]
    | p :: ps => if x = sep then [] :: p :: ps else (x :: p) :: ps

/-- the values, each followed by the separator -/
def joinSep (sep : Nat) (vs : List (List Nat)) : List Nat := vs.flatMap (· ++ [sep])

/-- `Drawing.encode_base64`: `binary_data.replace(b"\\n", b"\\r\\n")` on the ENCODED file -/
def lfToCrlf : Bytes → Bytes
  | [] => []
  | x :: r => if x = 10 then 13 :: 10 :: lfToCrlf r else x :: lfToCrlf r

/-- `ezdxf.decode_base64` and `ZipReader.readline`: `.replace(b"\\r\\n", b"\\n")` on the bytes BEFORE decoding -/
def crlfToLf : Bytes → Bytes
  | [] => []
  | [x] => [x]
  | x :: y :: r => if x = 13 ∧ y = 10 then 10 :: crlfToLf r else x :: crlfToLf (y :: r)

/-! ### the writer's side: which encoding the bytes of a saved document get and what its header says

`Drawing.save/saveas/write`: `update_all()` -> `_update_metadata()` sets `header["$DWGCODEPAGE"] = tocodepage(self.encoding)`
- for every document, loaded or new, whatever the header said before -, `$ACADVER` is the document version, and the
stream is encoded with `output_encoding` = `"utf-8" if dxfversion >= DXF2007 else self.encoding`. -/

/-- the shape of the writer's decision logic as regenerate extracts it from the AST of document.py -/
structure WriterRules where
  /-- `_update_metadata` assigns `self.header["$DWGCODEPAGE"]` exactly once, as a top-level statement (no condition) -/
  cpUnconditional : Bool
  /-- the assigned value is `tocodepage(self.encoding)` -/
  cpFromEncoding : Bool
  /-- `output_encoding` returns `"utf-8" if self.dxfversion >= DXF2007 else self.encoding`, and DXF2007 = "AC1021" -/
  outputEncoding : Bool
  /-- `save` opens the file with `self.output_encoding` (unless the caller overrides it) and errors="dxfreplace",
      `write` hands `self.output_encoding` to the binary tag writer -/
  saveUsesOutputEncoding : Bool
  /-- `write` calls `update_all`, which calls `_update_metadata` -/
  metadataOnWrite : Bool
  deriving DecidableEq, Repr

def writerAsModelled : WriterRules := ⟨true, true, true, true, true⟩

/-- what the writer looks at -/
structure DocState where
  /-- `_loaded_dxfversion is not None` -/
  loaded : Bool
  /-- `doc.dxfversion` -/
  version : Str
  /-- `doc.encoding` (read/write attribute) -/
  encoding : Str
  /-- `doc.header["$DWGCODEPAGE"]` before the save (the value of the loaded file, or of an earlier save) -/
  headerCp : Str

/-- what ends up in the file -/
structure Written where
  acadver : Str
  codepage : Str
  /-- the codec the text stream / the binary tag writer encodes with -/
  bytesEncoding : Str
  deriving DecidableEq, Repr

def writeDoc (encToCp : Dict) (s : DocState) : Written :=
  { acadver := s.version
    codepage := tocodepage encToCp s.encoding
    bytesEncoding := if strLt s.version ac1021 then s.encoding else utf8Name }

/-- `Drawing._load_section_dict`: version from $ACADVER, `encoding = toencoding(header["$DWGCODEPAGE"])` -/
def loadDoc (cpToEnc : Dict) (w : Written) : DocState :=
  { loaded := true, version := w.acadver, encoding := toencoding cpToEnc w.codepage, headerCp := w.codepage }

/-! ### `BinaryTagWriter.write_str`: preformatted `"code\\nvalue\\n..."` strings (header variables, custom properties,
r12writer) are split again: `for code, value in take2(s.split("\\n"))` -/

/-- `take2`: consecutive pairs; an odd last element is dropped -/
def take2 : List Str → List (Str × Str)
  | a :: b :: r => (a, b) :: take2 r
  | _ => []

def writeStrTags (s : Str) : List (Str × Str) := take2 (splitOn 10 s)

/-- the preformatted string of a list of (code line, value) tags -/
def tagLines (tags : List (Str × Str)) : Str := tags.flatMap (fun t => t.1 ++ [10] ++ t.2 ++ [10])

/-! ### whole Binary DXF files: text tags through the document codec, then C03's tag framing (Model/Codec.lean)

`BinaryTagWriter.write_tag2`: a string value is `str(value).encode(encoding, errors="dxfreplace")` + NUL;
`binary_tags_loader`: the bytes up to the NUL are decoded with the detected codec; the strict reader's user applies
`decode_dxf_unicode`.  Non-string values (integers, doubles, binary chunks) do not meet the codec. -/

inductive TVal where
  /-- a string value, still text -/
  | text (s : Str)
  /-- any other value, as C03 models it -/
  | raw (v : EzdxfVerif.Codec.Val)

structure TTag where
  code : Nat
  val : TVal

def encodeTag (c : Codec) (f : Fmt) (t : TTag) : Except PyErr EzdxfVerif.Codec.BTag :=
  match t.val with
  | .text s => (encode c f s).map (fun b => ⟨t.code, .str b⟩)
  | .raw v => .ok ⟨t.code, v⟩

def encodeTags (c : Codec) (f : Fmt) : List TTag → Except PyErr (List EzdxfVerif.Codec.BTag)
  | [] => .ok []
  | t :: r =>
    match encodeTag c f t, encodeTags c f r with
    | .ok a, .ok b => .ok (a :: b)
    | .error e, _ => .error e
    | _, .error e => .error e

/-- loader + `decode_dxf_unicode` on the string values -/
def decodeTag (c : Codec) (t : EzdxfVerif.Codec.BTag) : TTag :=
  match t.val with
  | .str b => ⟨t.code, .text (decodeDxfUnicode (c.dec b))⟩
  | v => ⟨t.code, .raw v⟩

/-- a per-character respelling of a name: digits stay, nothing else becomes a digit (ASCII/Unicode case mapping,
    full width -> half width letters, ...) -/
def isDigitCp (x : Nat) : Bool := decide (48 ≤ x ∧ x ≤ 57)

/-- the text of an ASCII DXF tag stream: `"%3d\\n%s\\n" % (code, value)` per tag (`TAG_STRING_FORMAT`; C03's `showCode`) -/
def asciiFileText (ts : List (Nat × Str)) : Str :=
  joinSep 10 (ts.flatMap (fun t => [EzdxfVerif.Codec.showCode t.1, t.2]))

/-- the strict ASCII reader on the decoded text: lines (the empty item after the last LF dropped), paired up by C03's
    `pairLines` (`int(code line)`), `decode_dxf_unicode` on every value -/
def asciiReadTags (text : Str) : Option (List (Nat × Str)) :=
  (EzdxfVerif.Codec.pairLines (splitOn 10 text).dropLast).map (List.map (fun p => (p.1, decodeDxfUnicode p.2)))

/-! ### vocabulary of the per-code-page round trip theorems -/

/-- BMP, no U+DC80..DCFF (these are raw bytes by PEP 383), no literal `\U+XXXX` match -/
def Plain (s : Str) : Prop := (∀ x ∈ s, x ≤ 0xFFFF ∧ isEscSurrogate x = false) ∧ hasDxfUnicode s = false

/-- `s` is written without error; the bytes are read back as `s` by codec decode + `decode_dxf_unicode` (strict
    reader) and by the string branch of the recover loader; they contain no NUL/LF/CR unless `s` does -/
def RoundTrips (c : Codec) (f : Fmt) (s : Str) : Prop :=
  ∃ b, encode c f s = .ok b ∧ decodeDxfUnicode (c.dec b) = s
    ∧ (hasMif s = false → recoverStr (c.dec b) = .text s)
    ∧ ((∀ x ∈ s, x ≠ 0 ∧ x ≠ 10 ∧ x ≠ 13) → ∀ y ∈ b, y ≠ 0 ∧ y ≠ 10 ∧ y ≠ 13)

/-- the characters a double-byte code page encodes to bytes that decode to a different character -/
def lossyCps (T : DbcsTab) : List Nat := T.encLossy.map ecp

end EzdxfVerif.Encoding

/-
Model of ezdxf's cross-document transfer (`src/ezdxf/xref.py`, pointer classes of `lldxf/types.py`,
the base `map_resources` of `entities/dxfentity.py`, `BlockRecord.destroy`), serving C17.

  §1 pointer group-code classes            types.is_soft_pointer … is_translatable_pointer
  §2 handle translation                    _Transfer.get_handle / map_pointers / map_existing_handle,
                                           DXFEntity.map_resources (XDATA 1005 / 1003, reactors)
  §3 unique names                          get_unique_table_name / get_unique_dict_key  (unbounded `while True`
                                           loops; termination from a pigeonhole argument, no fuel)
  §4 conflict policy                       _Transfer.add_table_entry, add_layer_entry, add_linetype_entry,
                                           add_block_record_entry (name part), add_collection_entry,
                                           register_table_resources as a fold over the copied entries
  §5 transfer on an abstract handle graph  _Registry → CopyMachine.copy_blocks → _Transfer (register table
                                           resources incl. the TWO-PHASE life of a copied BLOCK_RECORD,
                                           redirect_handle_mapping, map resources, finalize/purge)

Strings are lists of code points (`Str`), handles in §2 are strings as in the code, handles in §5 are natural
numbers with 0 = null handle.  Core Lean only.
-/
import EzdxfVerif.Gen.XrefTables

namespace EzdxfVerif.Xref
open EzdxfVerif.Gen

abbrev Str := List Nat

/-! ## §1 pointer group-code classes (hand-written copies of the range tests in types.py) -/

def isArbitraryPointer (c : Nat) : Bool := 319 < c && c < 330
def isSoftPointer (c : Nat) : Bool := (329 < c && c < 340) || c == 1005
def isHardPointer (c : Nat) : Bool := (339 < c && c < 350) || (389 < c && c < 400) || (479 < c && c < 482)
def isSoftOwner (c : Nat) : Bool := 349 < c && c < 360
def isHardOwner (c : Nat) : Bool := 359 < c && c < 370

/-- the documented meaning of TRANSLATABLE_POINTER_CODES: soft/hard pointers and soft/hard owners -/
def translatableSpec (c : Nat) : Bool := isSoftPointer c || isHardPointer c || isSoftOwner c || isHardOwner c

/-- `types.is_translatable_pointer`: membership in the set the code consults (generated table) -/
def translatable (c : Nat) : Bool := XrefTables.translatableCodes.contains c
/-- `types.is_pointer_code` -/
def isPointerCode (c : Nat) : Bool := XrefTables.pointerCodes.contains c

/-! ## §2 handle translation -/

structure Tag where
  code : Nat
  val : Str
  deriving Repr, DecidableEq

def zero : Str := [48]   -- "0"

/-- `_Transfer.get_handle(handle, default)` = `handle_mapping.get(handle, default)` -/
def getHandle (σ : Str → Option Str) (h : Str) (dflt : Str := zero) : Str := (σ h).getD dflt

/-- the tag rewriting of `_Transfer.map_pointers` -/
def mapPointers (σ : Str → Option Str) (ts : List Tag) : List Tag :=
  ts.map fun t => if translatable t.code then ⟨t.code, getHandle σ t.val⟩ else t

/-- the side effect of `map_pointers(tags, new_owner_handle)`: handles of target objects whose owner is set to
    `new_owner_handle` (hard-owner tags whose mapped handle is a key of the target database), in order -/
def ownerUpdates (σ : Str → Option Str) (db : Str → Bool) (newOwner : Str) (ts : List Tag) : List Str :=
  if newOwner = [] then [] else
  ts.filterMap fun t =>
    if translatable t.code && isHardOwner t.code && db (getHandle σ t.val) then some (getHandle σ t.val) else none

inductive AttrOut where
  | untouched            -- attribute of the clone left as copied
  | set (h : Str)
  | discarded
  deriving Repr, DecidableEq

/-- `_Transfer.map_existing_handle(source, clone, attrib_name, optional)`; `src = none` : attribute absent -/
def mapExistingHandle (σ : Str → Option Str) (src : Option Str) (optional : Bool) : AttrOut :=
  match src with
  | none => .untouched
  | some h =>
    if h = [] then .untouched else
    let n := getHandle σ h
    if n ≠ [] ∧ n ≠ zero then .set n else if optional then .discarded else .set zero

/-- XDATA part of `DXFEntity.map_resources`: 1005 → get_handle, 1003 → get_layer -/
def mapXdata (σ : Str → Option Str) (layer : Str → Str) (ts : List Tag) : List Tag :=
  ts.map fun t => if t.code = 1005 then ⟨1005, getHandle σ t.val⟩ else if t.code = 1003 then ⟨1003, layer t.val⟩ else t

/-- reactor part of `DXFEntity.map_resources`: mapped, null handles dropped; `none` = `set_reactors` not called -/
def mapReactors (σ : Str → Option Str) (rs : List Str) : Option (List Str) :=
  if rs = [] then none else
  let m := (rs.map (getHandle σ ·)).filter (· ≠ zero)
  if m = [] then none else some m

/-! ## §3 unique names -/

def lowerC (c : Nat) : Nat := if 65 ≤ c ∧ c ≤ 90 then c + 32 else c
def upperC (c : Nat) : Nat := if 97 ≤ c ∧ c ≤ 122 then c - 32 else c
/-- `make_table_key` = `str.lower()` on ASCII names (non-ASCII case mapping is outside the model) -/
def lower (s : Str) : Str := s.map lowerC
def upper (s : Str) : Str := s.map upperC

/-- decimal digits of `index` as produced by the f-string -/
def natDigits (n : Nat) : Str :=
  if h : n < 10 then [48 + n] else natDigits (n / 10) ++ [48 + n % 10]
termination_by n
decreasing_by omega

/-- `f"{xref}${index}${name}"` -/
def cand (xref name : Str) (i : Nat) : Str := xref ++ 36 :: (natDigits i ++ 36 :: name)

/-- the first index ≥ `i` with `p`, found by the loop `while True: if p(index): return …; index += 1`.
    It is total because some index in `[i, bound]` satisfies `p`; no fuel. -/
def searchFrom (p : Nat → Bool) (bound i : Nat) (h : ∃ k, i ≤ k ∧ k ≤ bound ∧ p k = true) : Nat :=
  if hp : p i = true then i
  else
    have h' : ∃ k, i + 1 ≤ k ∧ k ≤ bound ∧ p k = true := by
      obtain ⟨k, h1, h2, h3⟩ := h
      refine ⟨k, ?_, h2, h3⟩
      rcases Nat.lt_or_ge i k with hlt | hge
      · exact hlt
      · have : k = i := Nat.le_antisymm hge h1
        subst this; exact absurd h3 hp
    have : i ≤ bound := by obtain ⟨k, h1, h2, _⟩ := h; exact Nat.le_trans h1 h2
    searchFrom p bound (i + 1) h'
termination_by bound + 1 - i
decreasing_by omega

/-- pigeonhole: more pairwise distinct indices than keys ⇒ one index whose candidate key is not among the keys -/
theorem pigeon {K : Type} [DecidableEq K] (f : Nat → K) (hf : ∀ i j, f i = f j → i = j) :
    ∀ (keys : List K) (S : List Nat), S.Nodup → keys.length < S.length → ∃ i ∈ S, f i ∉ keys := by
  intro keys
  induction keys with
  | nil =>
    intro S _ hl
    cases S with
    | nil => simp at hl
    | cons a r => exact ⟨a, by simp, by simp⟩
  | cons k ks ih =>
    intro S hnd hl
    by_cases hex : ∃ i ∈ S, f i = k
    · obtain ⟨i, hi, hik⟩ := hex
      have hnd' : (S.erase i).Nodup := hnd.erase i
      have hlen : ks.length < (S.erase i).length := by
        rw [List.length_erase_of_mem hi]
        simp only [List.length_cons] at hl
        omega
      obtain ⟨j, hj, hjn⟩ := ih (S.erase i) hnd' hlen
      have hjS : j ∈ S := List.mem_of_mem_erase hj
      have hji : j ≠ i := by
        intro e; subst e
        exact (List.Nodup.not_mem_erase hnd) hj
      refine ⟨j, hjS, ?_⟩
      intro hmem
      rcases List.mem_cons.mp hmem with h1 | h1
      · exact hji (hf j i (h1.trans hik.symm))
      · exact hjn h1
    · have hlen : ks.length < S.length := by
        simp only [List.length_cons] at hl; omega
      obtain ⟨j, hj, hjn⟩ := ih S hnd hlen
      refine ⟨j, hj, ?_⟩
      intro hmem
      rcases List.mem_cons.mp hmem with h1 | h1
      · exact hex ⟨j, hj, h1⟩
      · exact hjn h1

/-- among the first `keys.length + 1` candidates one is free -/
theorem exists_free {K : Type} [DecidableEq K] (f : Nat → K) (hf : ∀ i j, f i = f j → i = j) (keys : List K) :
    ∃ k, 0 ≤ k ∧ k ≤ keys.length ∧ (!keys.contains (f k)) = true := by
  obtain ⟨i, hi, hn⟩ := pigeon f hf keys (List.range (keys.length + 1)) List.nodup_range (by simp)
  refine ⟨i, Nat.zero_le _, ?_, ?_⟩
  · have := List.mem_range.mp hi; omega
  · simp [hn]

/-- the index chosen by `get_unique_table_name` / `get_unique_dict_key` for a table whose key set is `keys`;
    `key` is the key function of the container (`make_table_key` for tables, identity for dictionaries) -/
def uniqueIndex {K : Type} [DecidableEq K] (key : Str → K) (xref name : Str) (keys : List K)
    (hinj : ∀ i j, key (cand xref name i) = key (cand xref name j) → i = j) : Nat :=
  searchFrom (fun i => !keys.contains (key (cand xref name i))) keys.length 0
    (exists_free (fun i => key (cand xref name i)) hinj keys)

/-! ### the two concrete key functions -/

def digitsVal (s : Str) : Nat := s.foldl (fun a c => a * 10 + (c - 48)) 0

theorem digitsVal_append (a : Str) (c : Nat) : digitsVal (a ++ [c]) = digitsVal a * 10 + (c - 48) := by
  simp [digitsVal, List.foldl_append]

theorem digitsVal_natDigits (n : Nat) : digitsVal (natDigits n) = n := by
  induction n using Nat.strongRecOn with
  | _ n ih =>
    rw [natDigits]
    split
    · simp [digitsVal]
    · rename_i h
      rw [digitsVal_append, ih (n / 10) (by omega)]
      omega

theorem natDigits_inj (i j : Nat) (h : natDigits i = natDigits j) : i = j := by
  have := congrArg digitsVal h
  simpa [digitsVal_natDigits] using this

theorem cand_inj (xref name : Str) (i j : Nat) (h : cand xref name i = cand xref name j) : i = j := by
  unfold cand at h
  have h1 := List.append_cancel_left h
  have h2 : natDigits i ++ 36 :: name = natDigits j ++ 36 :: name := by simpa using h1
  exact natDigits_inj i j (List.append_cancel_right h2)

theorem lower_natDigits (n : Nat) : lower (natDigits n) = natDigits n := by
  induction n using Nat.strongRecOn with
  | _ n ih =>
    rw [natDigits]
    split
    · rename_i h
      simp only [lower, List.map_cons, List.map_nil, lowerC]
      have : ¬ (65 ≤ 48 + n ∧ 48 + n ≤ 90) := by omega
      simp [this]
    · rename_i h
      have hm : ¬ (65 ≤ 48 + n % 10 ∧ 48 + n % 10 ≤ 90) := by omega
      have := ih (n / 10) (by omega)
      simp only [lower] at this ⊢
      simp [List.map_append, this, lowerC, hm]

theorem lower_cand (xref name : Str) (i : Nat) : lower (cand xref name i) = cand (lower xref) (lower name) i := by
  have hd := lower_natDigits i
  simp only [lower] at hd
  simp [cand, lower, List.map_append, hd, lowerC]

theorem lower_cand_inj (xref name : Str) (i j : Nat) (h : lower (cand xref name i) = lower (cand xref name j)) : i = j := by
  rw [lower_cand, lower_cand] at h
  exact cand_inj _ _ i j h

/-- `get_unique_table_name(name, xref, table)`; `keys` = the keys (`name.lower()`) of the table entries -/
def getUniqueTableName (name xref : Str) (keys : List Str) : Str :=
  cand xref name (uniqueIndex lower xref name keys (lower_cand_inj xref name))

/-- `get_unique_dict_key(key, xref, dictionary)`; `keys` = the (case-sensitive) keys of the dictionary -/
def getUniqueDictKey (key xref : Str) (keys : List Str) : Str :=
  cand xref key (uniqueIndex id xref key keys (cand_inj xref key))

/-! ## §4 conflict policy -/

inductive Policy where
  | keep | xrefPrefix | numPrefix
  deriving Repr, DecidableEq

/-- a resource table of the target: (key = name.lower(), handle) in insertion order -/
abbrev Table := List (Str × Nat)

def Table.has (t : Table) (name : Str) : Bool := (t.map (·.1)).contains (lower name)
def Table.get? (t : Table) (name : Str) : Option Nat := (t.find? (fun e => e.1 = lower name)).map (·.2)
def Table.keys (t : Table) : List Str := t.map (·.1)

inductive Decision where
  /-- `replace_handle_mapping(copy, existing)`; `copy.destroy()` -/
  | useExisting (h : Nat)
  /-- `entity.dxf.name = name; table.add_entry(entity)` -/
  | add (name : Str)
  /-- the code raises (e.g. `tdoc.linetypes.get` of a missing default linetype) -/
  | error
  deriving Repr, DecidableEq

/-- `_Transfer.add_table_entry(table, entity)` -/
def addTableEntry (pol : Policy) (xref : Str) (t : Table) (name : Str) : Decision :=
  match pol with
  | .keep =>
    if t.has name then
      match t.get? name with
      | some h => .useExisting h
      | none => .error
    else .add name
  | .xrefPrefix => .add (getUniqueTableName name xref t.keys)
  | .numPrefix => if t.has name then .add (getUniqueTableName name [] t.keys) else .add name

/-- `validator.is_adsk_special_layer` (names without backslash) -/
def isAdskSpecial (name : Str) : Bool :=
  match name with
  | 42 :: r => !r.isEmpty && !(r.any XrefTables.invalidNameChars.contains)
  | _ => false

/-- `validator.is_valid_layer_name` (names without backslash): the check behind `layer.dxf.name = …` -/
def validLayerName (n : Str) : Bool := isAdskSpecial n || !(n.any XrefTables.invalidNameChars.contains)

/-- assigning a NEW name to a layer runs the attribute validator: an invalid name raises DXFValueError -/
def checkedLayer (name : Str) : Decision → Decision
  | .add n => if n = name || validLayerName n then .add n else .error
  | d => d

/-- `_Transfer.add_layer_entry`.  `unchanged = true` is the current code: a special layer that is missing in the
    target is added under its own name; `false` is the revision before fix 2d5ff22e8, where it went through the
    renaming policy -/
def addLayerEntryWith (unchanged : Bool) (pol : Policy) (xref : Str) (t : Table) (name : Str) : Decision :=
  let u := upper name
  if XrefTables.specialLayers.contains u || isAdskSpecial u then
    match t.get? u with
    | some h => .useExisting h
    | none =>
      if unchanged then .add name
      else checkedLayer name (addTableEntry pol xref t name)
  else checkedLayer name (addTableEntry pol xref t name)

/-- the code under test: the branch is selected by a probe run on the real code at generation time -/
def addLayerEntry (pol : Policy) (xref : Str) (t : Table) (name : Str) : Decision :=
  addLayerEntryWith XrefTables.specialLayerAddedUnchanged pol xref t name

/-- `_Transfer.add_linetype_entry` -/
def addLinetypeEntry (pol : Policy) (xref : Str) (t : Table) (name : Str) : Decision :=
  if XrefTables.defaultLinetypes.contains (upper name) then
    match t.get? name with
    | some h => .useExisting h
    | none => .error          -- `tdoc.linetypes.get(name)` raises DXFTableEntryError
  else addTableEntry pol xref t name

/-- name part of `_Transfer.add_block_record_entry`; `anon c` models `tdoc.blocks.anonymous_block_name(c)` -/
def addBlockRecordEntry (pol : Policy) (xref : Str) (t : Table) (anon : Nat → Str) (name : Str) : Decision :=
  let u := upper name
  match u with
  | 42 :: c :: _ => .add (anon c)
  | _ => addTableEntry pol xref t name

/-- an object collection (materials, mline styles, mleader styles): dictionary keys in insertion order with the
    handle of the entry.  `object_dict.get(name)` is case sensitive, `collection.get / has_entry` are not. -/
abbrev Coll := List (Str × Nat)
def Coll.getExact? (c : Coll) (name : Str) : Option Nat := (c.find? (fun e => e.1 = name)).map (·.2)
def Coll.get? (c : Coll) (name : Str) : Option Nat := (c.find? (fun e => lower e.1 = lower name)).map (·.2)
def Coll.lkeys (c : Coll) : List Str := c.map (fun e => lower e.1)

/-- `_Transfer.add_collection_entry(collection, entry, system_entries)` -/
def addCollectionEntry (pol : Policy) (xref : Str) (c : Coll) (system : List Str) (name : Str) : Decision :=
  let sys : Option Nat := if system.contains (upper name) then c.getExact? name else none
  match sys with
  | some h => .useExisting h
  | none =>
    match pol with
    | .keep =>
      match c.get? name with
      | some h => .useExisting h
      | none => .add name
    | .xrefPrefix => .add (getUniqueTableName name xref c.lkeys)
    | .numPrefix => if (c.get? name).isSome then .add (getUniqueTableName name [] c.lkeys) else .add name

/-- the loop of `register_table_resources` over the copied entries of ONE table: every copy is decided against the
    table as left by its predecessors.  Returns the decisions and the final table. -/
def registerAll (dec : Table → Str → Decision) : Table → List (Str × Nat) → List Decision × Table
  | t, [] => ([], t)
  | t, (name, h) :: rest =>
    match dec t name with
    | .add n =>
      let r := registerAll dec (t ++ [(lower n, h)]) rest
      (.add n :: r.1, r.2)
    | d =>
      let r := registerAll dec t rest
      (d :: r.1, r.2)

/-! ## §5 transfer on an abstract handle graph -/

inductive Kind where
  | graphic | tableEntry | object | blockRecord | block | endblk
  deriving Repr, DecidableEq

/-- an entity reduced to its handle-valued fields; handle 0 = null / None -/
structure Node where
  handle : Nat
  kind : Kind
  owner : Nat := 0
  /-- pointer fields translated by `map_resources` (pointer-code tags, XDATA 1005, resource handles) -/
  ptrs : List Nat := []
  /-- BLOCK_RECORD only: `self.block`, `self.endblk` (none until `set_block`), `entity_space` -/
  block : Option Nat := none
  endblk : Option Nat := none
  content : List Nat := []
  deriving Repr, DecidableEq

abbrev Db := List Node
def Db.find (db : Db) (h : Nat) : Option Node := List.find? (fun n => n.handle = h) db
def Db.handles (db : Db) : List Nat := db.map (·.handle)
def Db.kinds (db : Db) : List (Nat × Kind) := db.map fun n => (n.handle, n.kind)
def Db.upd (db : Db) (h : Nat) (f : Node → Node) : Db := db.map fun n => if n.handle = h then f n else n

/-- both documents; the transfer is written in state-passing style over BOTH so that "the source is unchanged"
    is a statement about the model and not a consequence of its type -/
structure Docs where
  src : Db
  tgt : Db
  deriving Repr, DecidableEq

inductive Err where
  | attributeError      -- 'NoneType' object has no attribute 'destroy'
  | internalError       -- InternalError("invalid BLOCK_RECORD copy") / source entity not found
  deriving Repr, DecidableEq

abbrev Sigma := List (Nat × Nat)       -- CopyMachine.handle_mapping in insertion order
def Sigma.get (σ : Sigma) (h : Nat) : Nat := match σ.find? (fun e => e.1 = h) with | some e => e.2 | none => 0
def Sigma.range (σ : Sigma) : List Nat := σ.map (·.2)

/-- `CopyMachine.copy_block` for one registered source node: the clone as `entity.copy()` + `factory.bind` leave
    it.  Pointer fields are still those of the source; a BLOCK_RECORD copy has NO block, endblk or content. -/
def cloneOf (n : Node) (h' : Nat) : Node :=
  { handle := h', kind := n.kind, owner := 0, ptrs := n.ptrs, block := none, endblk := none, content := [] }

/-- phase 1: copy every registered node (`reg` = handles in registration order, `σ` = the handles that
    `factory.bind` assigned, aligned with `reg`) -/
def copyPhase (d : Docs) (σ : Sigma) : Docs :=
  { d with tgt := d.tgt ++ σ.filterMap fun (s, t) => (d.src.find s).map (cloneOf · t) }

/-- `BlockRecord.destroy()` of a COPY whose content is not restored yet.  `guards = false` is the code as found:
    `self.block.destroy()` with `self.block is None` -/
def destroyCopy (guards : Bool) (n : Node) : Except Err Unit :=
  if n.kind = .blockRecord ∧ n.block = none ∧ !guards then .error .attributeError else .ok ()

/-- what `register_table_resources` decides for one copied table entry / block record -/
inductive Reg where
  | keepExisting (existing : Nat)     -- map to the target's entry, destroy the copy
  | addNew                             -- add the (possibly renamed) copy to the target table
  deriving Repr, DecidableEq

/-- phase 2 for ONE registered source handle `s` (a table entry or block record; other kinds: no-op):
    * keepExisting e : `replace_handle_mapping(copy, e)`, `copy.destroy()`; for a block record also the copied
      content (BLOCK, ENDBLK, entities registered under this block) is destroyed when `discards`
    * addNew for a block record: `restore_block_content` (block, endblk, content := the clones; their owner := the
      block record copy) -/
def registerOne (guards discards : Bool) (d : Docs) (σ : Sigma) (dead : List Nat) (repl : Sigma)
    (s : Nat) (r : Reg) : Except Err (Docs × List Nat × Sigma) :=
  match d.src.find s, d.tgt.find (σ.get s) with
  | some sn, some cn =>
    match r with
    | .keepExisting e =>
      match destroyCopy guards cn with
      | .error x => .error x
      | .ok () =>
        let content := if sn.kind = .blockRecord ∧ discards
          then ((sn.block.toList ++ sn.content ++ sn.endblk.toList).map σ.get).filter (· ≠ 0) else []
        .ok (d, dead ++ σ.get s :: content, repl ++ [(σ.get s, e)])
    | .addNew =>
      if sn.kind = .blockRecord then
        match sn.block, sn.endblk with
        | some b, some e =>
          if σ.get b = 0 ∨ σ.get e = 0 then .error .internalError else
          let cont := (sn.content.map σ.get).filter (· ≠ 0)
          let owned := σ.get b :: σ.get e :: cont
          .ok ({ d with tgt := d.tgt.map fun n =>
                  if n.handle = σ.get s then { n with block := some (σ.get b), endblk := some (σ.get e), content := cont }
                  else if owned.contains n.handle then { n with owner := σ.get s } else n }, dead, repl)
        | _, _ => .error .internalError
      else .ok (d, dead, repl)
  | _, _ => .ok (d, dead, repl)

def registerPhase (guards discards : Bool) :
    Docs → Sigma → List Nat → Sigma → List (Nat × Reg) → Except Err (Docs × List Nat × Sigma)
  | d, _, dead, repl, [] => .ok (d, dead, repl)
  | d, σ, dead, repl, (s, r) :: rest =>
    match registerOne guards discards d σ dead repl s r with
    | .error x => .error x
    | .ok (d', dead', repl') => registerPhase guards discards d' σ dead' repl' rest

/-- `redirect_handle_mapping`: σ(s) := repl(σ(s)) where the copy was replaced by an existing target entity; the
    mapping of a discarded copy without replacement is removed (a pointer to it becomes null) -/
def redirect (σ repl : Sigma) (dead : List Nat) : Sigma :=
  σ.map fun e => match repl.find? (fun r => r.1 = e.2) with
    | some r => (e.1, r.2)
    | none => if dead.contains e.2 then (e.1, 0) else e

/-- phase 3 (`map_object_resources` / `map_entity_resources`), per clone: the pointer fields of the source entity
    translated through the redirected mapping; unknown handles become 0.  Clones in `skip` (the table-entry copies
    destroyed in phase 2, `clone.is_alive == False`) are not mapped.  Writes go to the TARGET only. -/
def mapPhase (d : Docs) (σ0 σ : Sigma) (skip : List Nat) : Docs :=
  { d with tgt := d.tgt.map fun n =>
      match σ0.find? (fun e => e.2 = n.handle) with
      | some (s, _) =>
        if skip.contains n.handle then n else
        match d.src.find s with
        | some sn => { n with ptrs := sn.ptrs.map σ.get }
        | none => n
      | none => n }

/-- `finalize`: `entitydb.purge()` removes the destroyed copies -/
def purge (d : Docs) (dead : List Nat) : Docs := { d with tgt := d.tgt.filter fun n => !dead.contains n.handle }

/-- the copies that are gone after `finalize`: the table-entry copies replaced by an existing entry (keys of `repl`,
    destroyed at once) and the copied content of kept block definitions unless a loading command `placed` it into a
    layout (their owner is then set; `finalize` destroys only copies that are still unowned) -/
def purgeList (dead : List Nat) (repl : Sigma) (placed : List Nat) : List Nat :=
  dead.filter fun h => (repl.map (·.1)).contains h || !placed.contains h

/-- the whole transfer for a given allocation `σ`, the decisions `regs` of §4 and the clone handles `placed` into
    layouts by the loading commands -/
def transfer (guards discards : Bool) (d : Docs) (σ : Sigma) (regs : List (Nat × Reg)) (placed : List Nat := []) :
    Except Err (Docs × Sigma) :=
  let d1 := copyPhase d σ
  match registerPhase guards discards d1 σ [] [] regs with
  | .error x => .error x
  | .ok (d2, dead, repl) =>
    let σ' := redirect σ repl dead
    .ok (purge (mapPhase d2 σ σ' (repl.map (·.1))) (purgeList dead repl placed), σ')

/-- the transfer of the code under test: guard and discard behaviour as probed on the real code at generation time -/
def transferCurrent (d : Docs) (σ : Sigma) (regs : List (Nat × Reg)) (placed : List Nat := []) : Except Err (Docs × Sigma) :=
  transfer XrefTables.destroyGuardsNone XrefTables.discardsContentOfKeptBlock d σ regs placed

/-- the defect that was in `Layer.map_resources` (before fix bb0a51d54): the mapped value is written to `self` (the SOURCE entity) -/
def mapPhaseUnfixedLayer (d : Docs) (σ : Sigma) (s : Nat) : Docs :=
  { d with src := d.src.upd s fun n => { n with ptrs := n.ptrs.map σ.get } }

/-! ### vocabulary of the §5 theorems -/

/-- the allocation `σ` made by `CopyMachine`: every registered handle is a source entity, the assigned handles are
    new in the target, not null, and pairwise distinct (σ is injective); every source handle is registered once -/
structure WF (d : Docs) (σ : Sigma) : Prop where
  keys_in_src : ∀ e ∈ σ, (d.src.find e.1).isSome = true
  vals_fresh : ∀ e ∈ σ, e.2 ∉ d.tgt.handles
  vals_nonzero : ∀ e ∈ σ, e.2 ≠ 0
  vals_nodup : (σ.map (·.2)).Nodup
  keys_nodup : (σ.map (·.1)).Nodup
  no_null_node : 0 ∉ d.tgt.handles

/-- a `keepExisting e` decision names an entry of the target (what §4 `useExisting` returns) -/
def RegsOk (d : Docs) (regs : List (Nat × Reg)) : Prop :=
  ∀ x ∈ regs, ∀ e, x.2 = Reg.keepExisting e → e ∈ d.tgt.handles

/-- the registry is closed: every pointer of a registered source entity is null or registered -/
def RegistryClosed (d : Docs) (σ : Sigma) : Prop :=
  ∀ e ∈ σ, ∀ sn, d.src.find e.1 = some sn → ∀ q ∈ sn.ptrs, q = 0 ∨ q ∈ σ.map (·.1)

/-- the source entities a block record is made of: BLOCK, ENDBLK, content -/
def Node.parts (n : Node) : List Nat := n.block.toList ++ n.endblk.toList ++ n.content

/-! ### the abstract specification of conflict resolution -/

/-- What `ConflictPolicy` promises, independent of the kind of name container (LAYER / LTYPE / STYLE / DIMSTYLE / BLOCK_RECORD / UCS
    tables, MATERIAL / MLINESTYLE / MLEADERSTYLE collections); `keys` = the case-folded names present in the target container:
    * KEEP        a clashing name resolves to the target's existing entry, a free name is added unchanged
    * XREF_PREFIX always a new entry `<xref>$<i>$<name>` with the least i whose name is free
    * NUM_PREFIX  a free name is added unchanged, a clashing one as `$<i>$<name>` with the least free i
    All comparisons are case-insensitive. -/
def PolicySpec (pol : Policy) (xref : Str) (keys : List Str) (name : Str) (d : Decision) : Prop :=
  match pol with
  | .keep => (lower name ∈ keys → ∃ h, d = .useExisting h) ∧ (lower name ∉ keys → d = .add name)
  | .xrefPrefix =>
    ∃ i, d = .add (cand xref name i) ∧ lower (cand xref name i) ∉ keys ∧ ∀ j, j < i → lower (cand xref name j) ∈ keys
  | .numPrefix =>
    (lower name ∉ keys → d = .add name) ∧
    (lower name ∈ keys →
      ∃ i, d = .add (cand [] name i) ∧ lower (cand [] name i) ∉ keys ∧ ∀ j, j < i → lower (cand [] name j) ∈ keys)

/-- a run of the specification over the copied entries of one container: each decision is taken against the keys as left by the
    decisions before it (an added name is a key from then on) -/
def SpecRun (spec : List Str → Str → Decision → Prop) : List Str → List (Str × Nat) → List Decision → Prop
  | _, [], [] => True
  | keys, (name, _) :: rest, d :: ds =>
    spec keys name d ∧ SpecRun spec (match d with | .add n => keys ++ [lower n] | _ => keys) rest ds
  | _, _, _ => False

/-- `n` is `<xref>$<i>$<name>` for the least i whose case-folded name is not in `keys` (i ≤ |keys| by the pigeonhole argument) -/
def leastFree (xref name : Str) (keys : List Str) (n : Str) : Bool :=
  (List.range (keys.length + 1)).any fun i =>
    n == cand xref name i && !keys.contains (lower (cand xref name i)) &&
      (List.range i).all fun j => keys.contains (lower (cand xref name j))

/-- executable checker of `PolicySpec`: applied by the driver to the decisions the REAL code took -/
def decideSpec (pol : Policy) (xref : Str) (keys : List Str) (name : Str) (d : Decision) : Bool :=
  match pol with
  | .keep =>
    if keys.contains (lower name) then (match d with | .useExisting _ => true | _ => false) else d == .add name
  | .xrefPrefix => match d with | .add n => leastFree xref name keys n | _ => false
  | .numPrefix =>
    if keys.contains (lower name) then (match d with | .add n => leastFree [] name keys n | _ => false) else d == .add name

/-- executable checker of `SpecRun (PolicySpec pol xref)` -/
def specRunB (pol : Policy) (xref : Str) : List Str → List (Str × Nat) → List Decision → Bool
  | _, [], [] => true
  | keys, (name, _) :: rest, d :: ds =>
    decideSpec pol xref keys name d && specRunB pol xref (match d with | .add n => keys ++ [lower n] | _ => keys) rest ds
  | _, _, _ => false

/-! ### generated dictionary keys (`ObjectsSection.next_underlay_key`) -/

/-- `next_underlay_key(checkfunc)`: the per-document counter is advanced until `checkfunc(key)` holds; `checked = false` is a call
    without check function (every key passes).  `fmt` = the key format ("Underlay%05d"), `c` = the counter, which a document loaded from
    a file starts again at its initial value.  Total because some counter value in `[c, c + |keys|]` gives a key that is not taken. -/
def nextKeyIndex (checked : Bool) (fmt : Nat → Str) (keys : List Str) (c : Nat)
    (h : ∃ k, c ≤ k ∧ k ≤ c + keys.length ∧ (!checked || !keys.contains (fmt k)) = true) : Nat :=
  searchFrom (fun i => !checked || !keys.contains (fmt i)) (c + keys.length) c h

/-- among the counter values `c … c + |keys|` one gives a key that is not taken (pigeonhole, shifted) -/
theorem exists_free_from (fmt : Nat → Str) (hf : ∀ i j, fmt i = fmt j → i = j) (keys : List Str) (c : Nat) (checked : Bool) :
    ∃ k, c ≤ k ∧ k ≤ c + keys.length ∧ (!checked || !keys.contains (fmt k)) = true := by
  obtain ⟨k, _, hk, hfree⟩ := exists_free (fun i => fmt (c + i)) (fun i j h => by have := hf _ _ h; omega) keys
  have hn : fmt (c + k) ∉ keys := by simpa using hfree
  exact ⟨c + k, by omega, by omega, by simp only [Bool.or_eq_true]; exact Or.inr (by simpa using hn)⟩

/-- the key `next_underlay_key` returns for a document whose counter stands at `c` -/
def nextKey (checked : Bool) (fmt : Nat → Str) (hf : ∀ i j, fmt i = fmt j → i = j) (keys : List Str) (c : Nat) : Str :=
  fmt (nextKeyIndex checked fmt keys c (exists_free_from fmt hf keys c checked))

/-! ### one pass over the tables with requirement edges (Importer add-on, `_import_required_table_entries`) -/

/-- importing the required entries of table `t`: its pending requirements are served, and the entries may require entries of the
    tables `b` with an edge (t, b) (worst case: every edge fires) -/
def importStep (adds : List (Nat × Nat)) (pending : List Nat) (t : Nat) : List Nat :=
  if pending.contains t then pending.filter (· ≠ t) ++ (adds.filter (·.1 = t)).map (·.2) else pending

/-- the tables are imported once each, in the given order; result = the tables that still have unserved requirements -/
def importPass (adds : List (Nat × Nat)) : List Nat → List Nat → List Nat
  | pending, [] => pending
  | pending, t :: rest => importPass adds (importStep adds pending t) rest

/-- every requirement edge into a table of the order comes from a table that is imported EARLIER (or not in this pass at all) -/
def orderRespects : List Nat → List (Nat × Nat) → Bool
  | [], _ => true
  | t :: rest, adds => (adds.all fun e => e.2 != t || !(t :: rest).contains e.1) && orderRespects rest adds

/-- the copies a restored block record owns: the copies of its BLOCK, its ENDBLK and of the content entities that were copied -/
def ownedCopies (σ : Sigma) (sn : Node) (b e : Nat) : List Nat :=
  σ.get b :: σ.get e :: (sn.content.map σ.get).filter (· ≠ 0)

/-- the structural links of the restored copy of the source block record `s` (BLOCK `b`, ENDBLK `e`) in a target database: the copy
    refers to the copies of BLOCK, ENDBLK and content in source order, and each of those copies is owned by it -/
def Restored (tgt : Db) (σ : Sigma) (s : Nat) (sn : Node) (b e : Nat) : Prop :=
  ∀ n ∈ tgt,
    (n.handle = σ.get s →
      n.block = some (σ.get b) ∧ n.endblk = some (σ.get e) ∧ n.content = (sn.content.map σ.get).filter (· ≠ 0)) ∧
    (n.handle ≠ σ.get s → n.handle ∈ ownedCopies σ sn b e → n.owner = σ.get s)

/-! ### the allocation of CopyMachine (final round): `WF` is established, not assumed -/

/-- decidable form of `WF`: applied by the driver to the allocation the REAL CopyMachine made (stream X7) -/
def wfB (d : Docs) (σ : Sigma) : Bool :=
  σ.all (fun e => (d.src.find e.1).isSome) && σ.all (fun e => !d.tgt.handles.contains e.2) && σ.all (fun e => e.2 != 0) &&
    decide (σ.map (·.2)).Nodup && decide (σ.map (·.1)).Nodup && !d.tgt.handles.contains 0

/-- `_Registry.add_entity` over the requests of the loading commands and of `register_resources`: `source_blocks[key]` is a dict, a
    handle that is already registered is skipped (`if entity_handle in block: return`), a handle without source entity is not
    registered (`add_handle`: `entity is None`) -/
def registerInto (src : Db) (acc : List Nat) : List Nat → List Nat
  | [] => acc
  | h :: rest => registerInto src (if acc.contains h || !(src.find h).isSome then acc else acc ++ [h]) rest

def registered (src : Db) (req : List Nat) : List Nat := registerInto src [] req

/-- `CopyMachine.copy_block`: the registered entities are copied in registration order, `factory.bind` gives the i-th clone the handle
    `hs[i]` that `entitydb.next_handle()` handed out -/
def allocate (reg hs : List Nat) : Sigma := reg.zip hs

/-- what the handle generator of a valid target guarantees (C04 / C05: every handle of the document is below `$HANDSEED`; the
    generator never hands a handle out twice): the new handles are pairwise distinct and not below the seed -/
def allocOkB (d : Docs) (σ : Sigma) (seed : Nat) : Bool :=
  decide (0 < seed) && d.tgt.handles.all (fun t => decide (0 < t) && decide (t < seed)) &&
    decide (σ.map (·.2)).Nodup && σ.all (fun e => decide (seed ≤ e.2)) && (registered d.src (σ.map (·.1)) == σ.map (·.1))

/-- the registration list of §5 that the decisions of §4 induce: entry i of the copied table entries (name, source handle) with
    decision i; an entry whose registration raised is not registered -/
def regsOf : List (Str × Nat) → List Decision → List (Nat × Reg)
  | (_, s) :: es, .useExisting h :: ds => (s, .keepExisting h) :: regsOf es ds
  | (_, s) :: es, .add _ :: ds => (s, .addNew) :: regsOf es ds
  | _ :: es, .error :: ds => regsOf es ds
  | _, _ => []

end EzdxfVerif.Xref

/-
JSON tag codec (C03, session 3): `JSONTagWriter` (compact and verbose), `json.dumps(str)` string
escaping (ensure_ascii), `json.loads` for the subset of JSON the writer produces (arrays of
`[code, value]` pairs; value = string | number | array of numbers; white space), `json_tag_loader`.
Core Lean only.  Strings are lists of code points (`Nat`, < 0x110000).
-/
import EzdxfVerif.Model.AsciiTags

namespace EzdxfVerif.JsonTags
open EzdxfVerif.Codec EzdxfVerif.AsciiTags

/-! ### `json.dumps(s)`: `ESCAPE_ASCII` / `ESCAPE_DCT` of json.encoder (C: `ascii_escape_unichar`) -/

def hexLower (n : Nat) : Nat := if n < 10 then 48 + n else 87 + n

/-- `'\\u{0:04x}'.format(u)` without the `\u` -/
def hex4 (u : Nat) : List Nat :=
  [hexLower (u / 4096 % 16), hexLower (u / 256 % 16), hexLower (u / 16 % 16), hexLower (u % 16)]

def escUnit (u : Nat) : List Nat := 92 :: 117 :: hex4 u

/-- the two-character escapes: code point ↦ letter after the backslash -/
def shortEsc (c : Nat) : Option Nat :=
  if c = 34 then some 34 else if c = 92 then some 92 else if c = 10 then some 110
  else if c = 13 then some 114 else if c = 9 then some 116 else if c = 8 then some 98
  else if c = 12 then some 102 else none

/-- characters written as they are: `' '..'~'` except `"` and `\` -/
def isPlain (c : Nat) : Bool := 32 ≤ c && c ≤ 126 && c != 34 && c != 92

def hiOf (c : Nat) : Nat := 0xD800 + (c - 0x10000) / 1024
def loOf (c : Nat) : Nat := 0xDC00 + (c - 0x10000) % 1024

def escChar (c : Nat) : List Nat :=
  if isPlain c then [c]
  else match shortEsc c with
    | some e => [92, e]
    | none => if c < 0x10000 then escUnit c else escUnit (hiOf c) ++ escUnit (loOf c)

def escape (s : List Nat) : List Nat := s.flatMap escChar

/-- `json.dumps(s)` -/
def jsonDumps (s : List Nat) : List Nat := 34 :: escape s ++ [34]

/-! ### `json.loads`: strings (`scanstring`, strict) -/

inductive Item where
  | lit (c : Nat)        -- an unescaped character or a two-character escape
  | unit (u : Nat)       -- a `\uXXXX` escape (UTF-16 code unit)
  deriving Repr, DecidableEq

/-- `BACKSLASH`: letter after the backslash ↦ character -/
def unShort (e : Nat) : Option Nat :=
  if e = 34 then some 34 else if e = 92 then some 92 else if e = 47 then some 47
  else if e = 98 then some 8 else if e = 102 then some 12 else if e = 110 then some 10
  else if e = 114 then some 13 else if e = 116 then some 9 else none

def consItem (i : Item) (p : Option (List Item × List Nat)) : Option (List Item × List Nat) :=
  p.map fun q => (i :: q.1, q.2)

/-- the body of a string literal after the opening quote: (items, text after the closing quote);
    `none` = JSONDecodeError (unterminated, control character, invalid escape) -/
def lexStr : List Nat → Option (List Item × List Nat)
  | [] => none
  | c :: r =>
    if c = 34 then some ([], r)
    else if c = 92 then
      match r with
      | [] => none
      | e :: r2 =>
        if e = 117 then
          match r2 with
          | a :: b :: c' :: d :: r3 =>
            match unhexDigit a, unhexDigit b, unhexDigit c', unhexDigit d with
            | some x, some y, some z, some w =>
              consItem (.unit (x * 4096 + y * 256 + z * 16 + w)) (lexStr r3)
            | _, _, _, _ => none
          | _ => none
        else match unShort e with
          | some ch => consItem (.lit ch) (lexStr r2)
          | none => none
    else if c < 32 then none
    else consItem (.lit c) (lexStr r)
termination_by l => l.length
decreasing_by all_goals simp_wf <;> omega

def isHi (u : Nat) : Bool := 0xD800 ≤ u && u ≤ 0xDBFF
def isLo (u : Nat) : Bool := 0xDC00 ≤ u && u ≤ 0xDFFF

/-- a high-surrogate escape directly followed by a low-surrogate escape is one character -/
def combine : List Item → List Nat
  | [] => []
  | .lit c :: r => c :: combine r
  | .unit u :: .unit v :: r =>
    if isHi u && isLo v then (0x10000 + (u - 0xD800) * 1024 + (v - 0xDC00)) :: combine r
    else u :: combine (.unit v :: r)
  | .unit u :: r => u :: combine r

def scanStr (l : List Nat) : Option (List Nat × List Nat) :=
  (lexStr l).map fun p => (combine p.1, p.2)

/-- what a Python string becomes after `json.loads(json.dumps(s))`: adjacent (high, low) surrogate code
    points merge into one character, left to right -/
def mergePairs : List Nat → List Nat
  | [] => []
  | [c] => [c]
  | c :: d :: r =>
    if isHi c && isLo d then (0x10000 + (c - 0xD800) * 1024 + (d - 0xDC00)) :: mergePairs r
    else c :: mergePairs (d :: r)

/-! ### `json.loads`: numbers (`NUMBER_RE`) -/

def isDig (c : Nat) : Bool := 48 ≤ c && c ≤ 57

inductive Num where
  | int (v : Int)
  | flt (txt : List Nat)
  deriving Repr, DecidableEq

/-- `(\.\d+)?` -/
def fracPart (l : List Nat) : List Nat × List Nat :=
  match l with
  | p :: d :: r => if p = 46 && isDig d then (p :: d :: r.takeWhile isDig, r.dropWhile isDig) else ([], l)
  | _ => ([], l)

def expDigits (pre l orig : List Nat) : List Nat × List Nat :=
  match l with
  | d :: r => if isDig d then (pre ++ d :: r.takeWhile isDig, r.dropWhile isDig) else ([], orig)
  | [] => ([], orig)

/-- `([eE][-+]?\d+)?` -/
def expPart (l : List Nat) : List Nat × List Nat :=
  match l with
  | e :: r =>
    if e = 101 || e = 69 then
      (match r with
       | s :: r2 => if s = 43 || s = 45 then expDigits [e, s] r2 l else expDigits [e] r l
       | [] => ([], l))
    else ([], l)
  | [] => ([], l)

def decVal (ds : List Nat) : Nat := ds.foldl (fun a d => a * 10 + (d - 48)) 0

/-- the number after the optional sign -/
def scanCore (neg : Bool) (l1 : List Nat) : Option (Num × List Nat) :=
  match l1 with
  | [] => none
  | d :: r =>
    if !isDig d then none else
    let ip := if d = 48 then [d] else d :: r.takeWhile isDig
    let r1 := if d = 48 then r else r.dropWhile isDig
    let f := fracPart r1
    let e := expPart f.2
    if f.1.isEmpty && e.1.isEmpty then
      some (.int (if neg then -(decVal ip : Int) else (decVal ip : Int)), e.2)
    else some (.flt ((if neg then [45] else []) ++ ip ++ f.1 ++ e.1), e.2)

/-- number at the start of the text: `(-?(?:0|[1-9]\d*))(\.\d+)?([eE][-+]?\d+)?`; an int if neither
    fraction nor exponent is present.  `none`: no number here (NaN/Infinity are not produced by the
    writer and not modelled). -/
def scanNumber (l : List Nat) : Option (Num × List Nat) :=
  match l with
  | [] => none
  | c :: r => if c = 45 then scanCore true r else scanCore false (c :: r)

/-- the text is, as a whole, one JSON number token that `json.loads` reads as a float -/
def isFloatLit (t : List Nat) : Bool := scanNumber t == some (.flt t, [])

/-! ### `json.loads`: the document -/

def isWs (c : Nat) : Bool := c == 32 || c == 9 || c == 10 || c == 13
def skipWs (l : List Nat) : List Nat := l.dropWhile isWs

inductive JVal where
  | str (s : List Nat)
  | num (n : Num)
  | nums (xs : List Num)
  deriving Repr, DecidableEq

/-- the elements of an array of numbers after `[` and white space -/
def parseNums : Nat → List Nat → Option (List Num × List Nat)
  | 0, _ => none
  | fuel + 1, l =>
    match scanNumber l with
    | none => none
    | some (n, r) =>
      match skipWs r with
      | c :: r2 =>
        if c = 93 then some ([n], r2)
        else if c = 44 then (parseNums fuel (skipWs r2)).map fun p => (n :: p.1, p.2)
        else none
      | [] => none

/-- a value: string, number or array of numbers (anything else: outside the modelled subset) -/
def parseValue (l : List Nat) : Option (JVal × List Nat) :=
  match l with
  | [] => none
  | c :: r =>
    if c = 34 then (scanStr r).map fun p => (.str p.1, p.2)
    else if c = 91 then
      match skipWs r with
      | c2 :: r2 => if c2 = 93 then some (.nums [], r2)
                    else (parseNums (r.length + 1) (c2 :: r2)).map fun p => (.nums p.1, p.2)
      | [] => none
    else (scanNumber l).map fun p => (.num p.1, p.2)

/-- `[code, value]` after its `[` : exactly two elements, the first a number -/
def parsePair (l : List Nat) : Option ((Num × JVal) × List Nat) :=
  match scanNumber (skipWs l) with
  | none => none
  | some (code, r) =>
    match skipWs r with
    | c :: r2 =>
      if c = 44 then
        match parseValue (skipWs r2) with
        | none => none
        | some (v, r3) =>
          match skipWs r3 with
          | c3 :: r4 => if c3 = 93 then some ((code, v), r4) else none
          | [] => none
      else none
    | [] => none

/-- the elements of the outer array after `[` and white space (first element present) -/
def parsePairs : Nat → List Nat → Option (List (Num × JVal) × List Nat)
  | 0, _ => none
  | fuel + 1, l =>
    match l with
    | c :: r =>
      if c = 91 then
        match parsePair r with
        | none => none
        | some (p, r2) =>
          match skipWs r2 with
          | c2 :: r3 =>
            if c2 = 93 then some ([p], r3)
            else if c2 = 44 then (parsePairs fuel (skipWs r3)).map fun q => (p :: q.1, q.2)
            else none
          | [] => none
      else none
    | [] => none

/-- `json.loads(text)` for a document that is an array of pairs -/
def parseDoc (txt : List Nat) : Option (List (Num × JVal)) :=
  match skipWs txt with
  | c :: r =>
    if c = 91 then
      match skipWs r with
      | c2 :: r2 =>
        if c2 = 93 then (if skipWs r2 = [] then some [] else none)
        else match parsePairs (txt.length + 1) (c2 :: r2) with
          | some (ps, rest) => if skipWs rest = [] then some ps else none
          | none => none
      | [] => none
    else none
  | [] => none

/-! ### `json_tag_loader` -/

def numRaw : Num → Raw
  | .int v => .int v
  | .flt t => .flt t

def coords (code : Nat) : List Num → Nat → List (Nat × Raw)
  | [], _ => []
  | x :: xs, i => (code + i * 10, numRaw x) :: coords code xs (i + 1)

def isEofPair (c : Nat) (v : JVal) : Bool := c == 0 && v == .str sEOF

def jvalRaw : JVal → Raw
  | .str s => .str s
  | .num n => numRaw n
  | .nums xs => .nums (xs.map numRaw)

/-- `json_tag_loader(data, skip_comments=True)` -/
def jsonTagLoader : List (Num × JVal) → Except TErr (List (Nat × Raw))
  | [] => .ok []
  | (code, v) :: r =>
    match code with
    | .flt _ => .error .structure                 -- `not isinstance(code, int)`
    | .int ci =>
      if ci < 0 then .error .unsupported else
      let c := ci.toNat
      match v with
      | .nums xs =>
        if isPoint c then (fun ts => coords c xs 0 ++ ts) <$> jsonTagLoader r
        else if c = 999 then jsonTagLoader r
        else (fun ts => (c, jvalRaw v) :: ts) <$> jsonTagLoader r
      | _ =>
        if isEofPair c v then .ok [(c, jvalRaw v)]
        else if c = 999 then jsonTagLoader r
        else (fun ts => (c, jvalRaw v) :: ts) <$> jsonTagLoader r

/-- `tag_compiler(json_tag_loader(json.loads(text)))` -/
def jsonLoad (parse : List Nat → Option Nat) (txt : List Nat) : Except TErr (List (CTag Val)) :=
  match parseDoc txt with
  | none => .error .decode
  | some ps => do
    let raws ← jsonTagLoader ps
    tagCompile parse raws

/-! ### `JSONTagWriter` -/

def showNat (n : Nat) : List Nat := showInt (n : Int)

/-- `'[{0}, {1}],\n'.format(code, text)` -/
def jsonLine (c : Nat) (valTxt : List Nat) : List Nat :=
  [91] ++ showNat c ++ [44, 32] ++ valTxt ++ [93, 44, 10]

/-- `math.isfinite(x)` on the bit pattern: the exponent field is not all ones -/
def isFiniteBits (b : Nat) : Bool := (b / 2 ^ 52) % 2048 != 2047

def finiteVal : Val → Bool
  | .dbl b => isFiniteBits b
  | _ => true

/-- `write_tag2(code, value)` for a value that is not the EOF marker; `inf`/`nan` are no JSON numbers and
    are written as strings also in the compact format (fix of F28) -/
def jsonVal (fmt : Nat → List Nat) (compact : Bool) : Val → List Nat
  | .str s => jsonDumps s
  | .int v => if compact then showInt v else jsonDumps (showInt v)
  | .dbl b => if compact && isFiniteBits b then fmt b else jsonDumps (fmt b)
  | .bin d => jsonDumps (hexlify d)                     -- `tag.tostring()`

def joinComma : List (List Nat) → List Nat
  | [] => []
  | [x] => x
  | x :: r => x ++ 44 :: joinComma r

def jsonHeader : List Nat := [91, 10]
/-- `'[0, "EOF"]\n]\n'` -/
def jsonEof : List Nat := [91, 48, 44, 32, 34, 69, 79, 70, 34, 93, 10, 93, 10]

/-- `write_tag(tag)` -/
def jsonTag (fmt : Nat → List Nat) (compact : Bool) : CTag Val → List Nat
  | .single c v =>
    if c = 0 ∧ v = .str sEOF then jsonEof        -- `write_tag2(0, "EOF")` closes the document
    else jsonLine c (jsonVal fmt compact v)
  | .point c xs =>
    -- a vertex with a non-finite coordinate is written as single tags (fix of F28)
    if compact && (xs.take 3).all finiteVal then jsonLine c ([91] ++ joinComma ((xs.take 3).map (valText fmt)) ++ [93])
    else (flattenPt c (xs.take 3) 0).flatMap fun p => jsonLine p.1 (jsonVal fmt compact p.2)

/-- the whole document: header, `write_tag` for every tag, `write_tag2(0, "EOF")` -/
def jsonWrite (fmt : Nat → List Nat) (compact : Bool) (ts : List (CTag Val)) : List Nat :=
  jsonHeader ++ ts.flatMap (jsonTag fmt compact) ++ jsonEof

end EzdxfVerif.JsonTags

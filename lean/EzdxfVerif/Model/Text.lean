/-
Model of `src/ezdxf/tools/text.py` (content tools): `caret_decode`, `split_mtext_string`,
`fast_plain_mtext`, `plain_text`, `TextScanner`, `MTextParser` (token stream: type + data),
`plain_mtext`.  Core Lean only.  Strings are `List Char`.

The model copies the code, not the intention (DESIGN.md section 8, pitfalls):
  * `"" in "\\{}"` is True, `"" < " "` is True: a trailing backslash becomes a SPACE token;
  * `re` `.` does not match LF (`caret_decode`);
  * Python operations that can raise return `Except PyErr`.
The MTEXT context (fonts, heights, colours) is not part of the observable modelled here, only
whether evaluating it can raise (`float()`, `int()`).
-/
namespace EzdxfVerif.Text

abbrev Str := List Char

inductive PyErr where
  | typeError | valueError | indexError
  deriving Repr, DecidableEq

/-- SPECIAL_CHAR_ENCODING.get(code.lower()) as a table on the *un-lowered* character;
    the table itself is regenerated from `lldxf/const.py` (Gen/TextTables.lean) and passed in. -/
abbrev Special := Char → Option Char

/-! ### caret_decode -/

def caretChar (c : Char) : Char := Char.ofNat ((((c.toNat : Int) - 64) % 126).toNat)

/-- `re.sub(r"\^(.)", lambda m: chr((ord(m.group(1)) - 64) % 126), text)` -/
def caretDecode : Str → Str
  | [] => []
  | [c] => [c]
  | c :: d :: rest =>
    if c = '^' ∧ d ≠ '\n' then caretChar d :: caretDecode rest
    else c :: caretDecode (d :: rest)

/-! ### split_mtext_string -/

/-- One step of the `while True` loop on the not yet consumed rest `r = s[pos:]`.
    `2 ≤ size` is needed for termination: with `size = 1` the real loop never ends on "^". -/
def splitMText (size : Nat) (h : 2 ≤ size) (r : Str) : List Str :=
  if hr : r.length = 0 then []
  else if r.length < size then [r]
  else if (r.take size).getLast? = some '^' then
    (r.take size).dropLast :: splitMText size h (r.drop (size - 1))
  else r.take size :: splitMText size h (r.drop size)
termination_by r.length
decreasing_by
  all_goals simp only [List.length_drop]
  all_goals omega

/-! ### fast_plain_mtext -/

def oneCharCommands : Str := "PNLlOoKkX".toList

/-- index of the first `c` in `s` -/
def findIdx (c : Char) : Str → Option Nat
  | [] => none
  | x :: xs => if x = c then some 0 else (findIdx c xs).map (· + 1)

theorem findIdx_lt {c : Char} {s : Str} {i : Nat} (h : findIdx c s = some i) : i < s.length := by
  induction s generalizing i with
  | nil => simp [findIdx] at h
  | cons x xs ih =>
    simp only [findIdx] at h
    split at h
    · cases h; simp
    · cases hx : findIdx c xs with
      | none => simp [hx] at h
      | some j => simp [hx] at h; subst h; have := ih hx; simp; omega

/-- the body of `fast_plain_mtext` after `caret_decode`; `raw` is the not yet consumed text,
    result is `chars` -/
def fastLoop (sp : Special) (raw : Str) : Str :=
  match raw with
  | [] => []
  | c :: r =>
    if c = '\\' then
      match r with
      | [] => []                                   -- premature end of text: break
      | d :: r2 =>
        if d = '\\' ∨ d = '{' ∨ d = '}' then d :: fastLoop sp r2
        else if d ∈ oneCharCommands then
          if d = 'P' then '\n' :: fastLoop sp r2
          else if d = 'N' then ' ' :: fastLoop sp r2
          else fastLoop sp r2
        else if d = ';' then fastLoop sp r2        -- `while char != ";"` does not run
        else
          let stacking := d = 'S'
          match hf : findIdx ';' r2 with
          | some i =>
            (if stacking then r2.take i else []) ++ fastLoop sp (r2.drop (i + 1))
          | none =>
            -- IndexError: user data of a stacking command was already appended,
            -- then "\\" + first_char, and raw_chars is *not* advanced
            (if stacking then r2 else []) ++ ('\\' :: d :: fastLoop sp r2)
    else if c = '{' ∨ c = '}' then fastLoop sp r
    else if c = '%' then
      match r with
      | [] => ['%']
      | p :: r2 =>
        if p = '%' then
          match r2 with
          | [] => []                               -- "%%" at the very end is dropped
          | code :: r3 =>
            match sp code with
            | some letter => letter :: fastLoop sp r3
            | none => '%' :: '%' :: code :: fastLoop sp r3
        else '%' :: fastLoop sp (p :: r2)
    else c :: fastLoop sp r
termination_by raw.length
decreasing_by
  all_goals simp_wf
  all_goals try simp only [List.length_drop]
  all_goals try omega

def fastPlainMText (sp : Special) (text : Str) : Str := fastLoop sp (caretDecode text)

/-! ### plain_text (TEXT, ATTRIB, ATTDEF) -/

/-- `str.rstrip("^")` -/
def rstripCaret (s : Str) : Str := (s.reverse.dropWhile (· = '^')).reverse

/-- `validator.fix_one_line_text` -/
def fixOneLine (s : Str) : Str := rstripCaret ((s.filter (· ≠ '\n')).filter (· ≠ '\r'))

/-- loop of `plain_text`; `peek(2).lower()` lookup is `sp`; `code in "kou"` uses the lowered
    code, `kou` tells whether `code.lower()` is a substring of "kou" ("" included: end of text) -/
def plainTextLoop (sp : Special) (kou : Char → Bool) (s : Str) : Str :=
  match s with
  | [] => []
  | c :: r =>
    if c = '%' then
      match r with
      | [] => ['%']
      | p :: r2 =>
        if p = '%' then
          match r2 with
          | [] => []    -- code = "" and `"" in "kou"` is True: consume(3), nothing appended
          | code :: r3 =>
            match sp code with
            | some letter => letter :: plainTextLoop sp kou r3
            | none =>
              if kou code then plainTextLoop sp kou r3
              else '%' :: plainTextLoop sp kou (p :: code :: r3)
        else '%' :: plainTextLoop sp kou (p :: r2)
    else c :: plainTextLoop sp kou r
termination_by s.length
decreasing_by
  all_goals simp_wf
  all_goals omega

def plainText (sp : Special) (kou : Char → Bool) (text : Str) : Str :=
  plainTextLoop sp kou (fixOneLine (caretDecode text))

/-! ### Python `float()` / `int()` on the strings the parser hands to them -/

def isDigit (c : Char) : Bool := '0' ≤ c ∧ c ≤ '9'

/-- Python `float()` on the strings the parser hands to it, as the DFA of the grammar
    `[+-]? digit+ ( '.' digit* )? ( [eE] [+-]? digit+ )?` ; anything else is a ValueError.
    (float() accepts more - blanks, "inf", "_" - but no such string is a prefix matched by
    RE_FLOAT, before or after the regex fix.)  States: 0 start, 1 sign, 2 int digits,
    3 fraction, 4 'e', 5 exponent sign, 6 exponent digits; accepting 2 3 6; 7 = dead. -/
def fstep (q : Nat) (c : Char) : Nat :=
  if isDigit c then
    (if q = 0 ∨ q = 1 ∨ q = 2 then 2 else if q = 3 then 3 else if q = 4 ∨ q = 5 ∨ q = 6 then 6 else 7)
  else if c = '+' ∨ c = '-' then (if q = 0 then 1 else if q = 4 then 5 else 7)
  else if c = '.' then (if q = 2 then 3 else 7)
  else if c = 'e' ∨ c = 'E' then (if q = 2 ∨ q = 3 then 4 else 7)
  else 7

def frun (q : Nat) (s : Str) : Nat := s.foldl fstep q

def pyFloatOk (s : Str) : Bool := let q := frun 0 s; q = 2 ∨ q = 3 ∨ q = 6

def pyFloat (s : Str) : Except PyErr Unit := if pyFloatOk s then .ok () else .error .valueError

/-- `sys.get_int_max_str_digits()` default -/
def intMaxStrDigits : Nat := 4300

/-! `re.match(RE_FLOAT, tail)` with RE_FLOAT = `[+-]?\d+(?:\.\d*)?(?:[eE][+-]?\d+)?` (the pattern
    text is tied to the source by Gen/TextTables and Props/C20 `re_float_pattern`), built from
    four pieces, each returning (matched, rest). -/

def optSign (s : Str) : Str × Str :=
  match s with
  | c :: t => if c = '+' ∨ c = '-' then ([c], t) else ([], s)
  | [] => ([], [])

def spanDigits (s : Str) : Str × Str := (s.takeWhile isDigit, s.dropWhile isDigit)

/-- `(?:\.\d*)?` -/
def optFrac (s : Str) : Str × Str :=
  match s with
  | c :: t => if c = '.' then ('.' :: (spanDigits t).1, (spanDigits t).2) else ([], s)
  | [] => ([], [])

/-- `(?:[eE][+-]?\d+)?` : all or nothing -/
def optExp (s : Str) : Str × Str :=
  match s with
  | e :: t =>
    if e = 'e' ∨ e = 'E' then
      if (spanDigits (optSign t).2).1 = [] then ([], s)
      else (e :: ((optSign t).1 ++ (spanDigits (optSign t).2).1), (spanDigits (optSign t).2).2)
    else ([], s)
  | [] => ([], [])

/-- (matched text, rest); matched = [] iff the regex does not match -/
def matchFloat (s : Str) : Str × Str :=
  let a := optSign s
  let b := spanDigits a.2
  if b.1 = [] then ([], s) else
  let c := optFrac b.2
  let d := optExp c.2
  (a.1 ++ b.1 ++ c.1 ++ d.1, d.2)

theorem optSign_append (s : Str) : (optSign s).1 ++ (optSign s).2 = s := by
  unfold optSign; split
  · split <;> simp
  · simp

theorem spanDigits_append (s : Str) : (spanDigits s).1 ++ (spanDigits s).2 = s := by
  simp [spanDigits]

theorem optFrac_append (s : Str) : (optFrac s).1 ++ (optFrac s).2 = s := by
  unfold optFrac; split
  · split
    · rename_i c t h; subst h; simp [spanDigits]
    · simp
  · simp

theorem optExp_append (s : Str) : (optExp s).1 ++ (optExp s).2 = s := by
  unfold optExp; split
  · split
    · split
      · simp
      · rename_i e t _ _
        have h1 := optSign_append t
        have h2 := spanDigits_append (optSign t).2
        simp only [List.cons_append, List.append_assoc, h2, h1]
    · simp
  · simp

theorem matchFloat_append (s : Str) : (matchFloat s).1 ++ (matchFloat s).2 = s := by
  unfold matchFloat
  simp only
  split
  · simp
  · have h1 := optSign_append s
    have h2 := spanDigits_append (optSign s).2
    have h3 := optFrac_append (spanDigits (optSign s).2).2
    have h4 := optExp_append (optFrac (spanDigits (optSign s).2).2).2
    simp only [List.append_assoc, h4, h3, h2, h1]

theorem matchFloat_len (s : Str) : (matchFloat s).1.length + (matchFloat s).2.length = s.length := by
  have := congrArg List.length (matchFloat_append s)
  simpa using this

/-- RE_FLOAT_X: RE_FLOAT followed by `([x]?)` : rest after the optional "x" -/
def dropX (s : Str) : Str := match s with | c :: r => if c = 'x' then r else s | [] => []

theorem dropX_len (s : Str) : (dropX s).length ≤ s.length := by
  unfold dropX; split
  · split <;> simp
  · simp

/-! ### TextScanner.find / extract_expression -/

/-- `TextScanner.find(char, escape)` relative to the current index -/
def scanFind (ch : Char) (escape : Bool) : Str → Option Nat
  | [] => none
  | [c] => if c = ch then some 0 else none
  | c :: d :: rest =>
    if escape ∧ c = '\\' ∧ d = ch then (scanFind ch escape rest).map (· + 2)
    else if c = ch then some 0
    else (scanFind ch escape (d :: rest)).map (· + 1)

/-- `extract_expression`: (expr, rest after expr and the terminating ";") -/
def extractExpr (escape : Bool) (tail : Str) : Str × Str :=
  match scanFind ';' escape tail with
  | none => (tail, [])
  | some i => (tail.take i, tail.drop (i + 1))

theorem extractExpr_len (escape : Bool) (tail : Str) :
    (extractExpr escape tail).2.length ≤ tail.length := by
  unfold extractExpr; split <;> simp

/-! ### tokens -/

inductive Token where
  | word (s : Str)
  | stack (upr lwr : Str) (t : Str)
  | space | nbsp | tab | newParagraph | newColumn | wrapAtDimline
  | props (cmd : Str)     -- PROPERTIES_CHANGED (only with `yield_property_commands=True`): the command text
  deriving Repr, DecidableEq

/-! ### parse_stacking -/

/-- `peek_char` after the fix: "" stays "", control chars become blank.  `none` = "" -/
def ctl (c : Char) : Char := if c.toNat < 32 then ' ' else c

/-- `get_next_char` on the stacking scanner: (char as string ("" possible), escape, rest) -/
def stackNext : Str → (Str × Bool × Str)
  | [] => ([], false, [])                       -- not reachable under `has_data`
  | c :: r =>
    let c' := ctl c
    if c' = '\\' then
      match r with
      | [] => ([], true, [])                    -- peek() = "" at the end; consume(1) moves on
      | d :: r2 => ([ctl d], true, r2)
    else ([c'], false, r)

theorem stackNext_len (s : Str) (h : s ≠ []) : (stackNext s).2.2.length < s.length := by
  match s with
  | [] => exact absurd rfl h
  | c :: r =>
    unfold stackNext
    simp only
    split
    · split <;> simp
      omega
    · simp

def parseNumerator (s : Str) (word : Str) : Str × Str × Str :=
  match hs : s with
  | [] => (word, [], [])
  | _ :: _ =>
    let n := stackNext s
    if !n.2.1 ∧ (n.1 = ['^'] ∨ n.1 = ['/'] ∨ n.1 = ['#']) then (word, n.1, n.2.2)
    else parseNumerator n.2.2 (word ++ n.1)
termination_by s.length
decreasing_by
  have := stackNext_len s (by simp [hs])
  simp_all

def parseDenominator (s : Str) (word : Str) : Str :=
  match hs : s with
  | [] => word
  | _ :: _ =>
    let n := stackNext s
    parseDenominator n.2.2 (word ++ n.1)
termination_by s.length
decreasing_by
  have := stackNext_len s (by simp [hs])
  simp_all

def parseStacking (expr : Str) : Token :=
  let (num, ty, rest) := parseNumerator expr []
  let den := if ty.isEmpty then [] else parseDenominator rest []
  .stack num den ty

/-! ### parse_properties: returns the rest of the main scanner, or the Python error -/

def optTerminator (s : Str) : Str := match s with | ';' :: r => r | _ => s

theorem optTerminator_len (s : Str) : (optTerminator s).length ≤ s.length := by
  unfold optTerminator; split <;> simp

/-- `parse_float_value_or_factor` + `consume_optional_terminator`: `float(expr)` (without the
    "x") is evaluated when the expression is non-empty -/
def parseFloatOrFactor (tail : Str) : Except PyErr Str :=
  let m := matchFloat tail
  if m.1 = [] then .ok (optTerminator tail) else do
    pyFloat m.1
    .ok (optTerminator (dropX m.2))

def parseOblique (tail : Str) : Except PyErr Str :=
  let m := matchFloat tail
  if m.1 = [] then .ok (optTerminator tail) else do
    pyFloat m.1
    .ok (optTerminator m.2)

/-- `extract_int_expression` (`\d+`, ASCII digits modelled) then `int()`; after the fix a
    ValueError of `int()` (more than 4300 digits) is caught, so no error escapes -/
def parseIntCmd (tail : Str) : Except PyErr Str :=
  let ds := tail.takeWhile isDigit
  .ok (optTerminator (tail.drop ds.length))

/-- `parse_align`: get() (may be "") ; after the fix `char and char in "012"` -/
def parseAlign (tail : Str) : Except PyErr Str :=
  match tail with
  | [] => .ok []
  | _ :: r => .ok (optTerminator r)

/-- paragraph scanner: every `float(expr)` call that the loop performs, in order -/
def skipCommas (s : Str) : Str := s.dropWhile (· = ',')

/-- `parse_float_expr`: (expr, rest) ; commas are skipped only after a match -/
def paraFloatExpr (s : Str) : Str × Str :=
  let m := matchFloat s
  if m.1 = [] then ([], s) else (m.1, skipCommas m.2)

theorem skipCommas_len (s : Str) : (skipCommas s).length ≤ s.length := by
  unfold skipCommas
  induction s with
  | nil => simp
  | cons a t ih => simp only [List.dropWhile]; split <;> simp <;> omega

theorem paraFloatExpr_len (s : Str) : (paraFloatExpr s).2.length ≤ s.length := by
  unfold paraFloatExpr
  simp only
  split
  · simp
  · have := skipCommas_len (matchFloat s).2
    have := matchFloat_len s
    simp only
    omega

theorem paraFloatExpr_lt (s : Str) (h : (paraFloatExpr s).1.isEmpty = false) :
    (paraFloatExpr s).2.length < s.length := by
  unfold paraFloatExpr at *
  simp only at *
  by_cases hn : (matchFloat s).1 = []
  · simp [hn] at h
  · have h1 := skipCommas_len (matchFloat s).2
    have h2 := matchFloat_len s
    have h3 : 0 < (matchFloat s).1.length := List.length_pos_iff.mpr hn
    simp only [hn, if_false]
    omega

/-- the `t` sub-loop of paragraph properties (parse to end) -/
def paraTabs (s : Str) : Except PyErr Unit :=
  match hs : s with
  | [] => .ok ()
  | c :: r =>
    if c = 'r' ∨ c = 'c' then
      paraTabs (paraFloatExpr r).2               -- type_ + parse_float_expr(): no float() call
    else
      if he : (paraFloatExpr s).1.isEmpty then paraTabs r     -- consume the invalid letter
      else do
        pyFloat (paraFloatExpr s).1
        paraTabs (paraFloatExpr s).2
termination_by s.length
decreasing_by
  · have := paraFloatExpr_len r; simp_all; omega
  · simp_all
  · have := paraFloatExpr_lt s (by simpa using he); simp_all

def paraLoop (s : Str) : Except PyErr Unit :=
  match hs : s with
  | [] => .ok ()
  | c :: r =>
    if c = 'i' ∨ c = 'l' ∨ c = 'r' then
      let e := paraFloatExpr r
      if e.1.isEmpty then paraLoop e.2
      else do
        pyFloat e.1
        paraLoop e.2
    else if c = 'q' then
      paraLoop (skipCommas (r.drop 1))
    else if c = 't' then paraTabs r
    else paraLoop r
termination_by s.length
decreasing_by
  · have := paraFloatExpr_len r; simp_all; omega
  · have := paraFloatExpr_len r; simp_all; omega
  · have := skipCommas_len (r.drop 1); simp_all; omega
  · simp_all

/-- `parse_properties(cmd)`: `none` = UnknownCommand, `some (ok rest)`, `some (error e)` -/
def parseProperties (cmd : Char) (tail : Str) : Option (Except PyErr Str) :=
  if cmd ∈ "LlOoKk".toList then some (.ok tail)
  else if cmd = 'A' then some (parseAlign tail)
  else if cmd = 'C' ∨ cmd = 'c' then some (parseIntCmd tail)
  else if cmd = 'H' ∨ cmd = 'W' ∨ cmd = 'T' then some (parseFloatOrFactor tail)
  else if cmd = 'Q' then some (parseOblique tail)
  else if cmd = 'p' then
    let (expr, rest) := extractExpr false tail
    some (do paraLoop expr; .ok rest)
  else if cmd = 'f' ∨ cmd = 'F' then some (.ok (extractExpr false tail).2)
  else none

theorem parseProperties_len {cmd : Char} {tail r : Str}
    (h : parseProperties cmd tail = some (.ok r)) : r.length ≤ tail.length := by
  unfold parseProperties at h
  have hopt := optTerminator_len
  split at h
  · cases h; exact Nat.le_refl _
  split at h
  · unfold parseAlign at h
    split at h
    · cases h; simp
    · rename_i x r'
      cases h
      have := hopt r'; simp; omega
  split at h
  · unfold parseIntCmd at h
    cases h
    have := hopt (tail.drop (tail.takeWhile isDigit).length)
    simp only [List.length_drop] at this; omega
  split at h
  · unfold parseFloatOrFactor at h
    simp only at h
    split at h
    · cases h; exact hopt _
    · cases hp : pyFloat (matchFloat tail).1 with
      | error e => simp [hp, bind, Except.bind] at h
      | ok u =>
        simp [hp, bind, Except.bind] at h
        subst h
        have h1 := hopt (dropX (matchFloat tail).2)
        have h2 := dropX_len (matchFloat tail).2
        have h3 := matchFloat_len tail
        omega
  split at h
  · unfold parseOblique at h
    simp only at h
    split at h
    · cases h; exact hopt _
    · cases hp : pyFloat (matchFloat tail).1 with
      | error e => simp [hp, bind, Except.bind] at h
      | ok u =>
        simp [hp, bind, Except.bind] at h
        subst h
        have h1 := hopt (matchFloat tail).2
        have h3 := matchFloat_len tail
        omega
  split at h
  · simp only at h
    cases hp : paraLoop (extractExpr false tail).1 with
    | error e => simp [hp, bind, Except.bind] at h
    | ok u =>
      simp [hp, bind, Except.bind] at h
      subst h; exact extractExpr_len _ _
  split at h
  · cases h; exact extractExpr_len _ _
  · cases h

/-! ### MTextParser.parse : the token stream -/

/-- `word_and_token(word, token)` after `consume()` -/
def wordAnd (word : Str) (t : Token) : List Token :=
  if word.isEmpty then [t] else [.word word, t]

/-- `letter == "%" and peek(1) == "%"` and the lookup succeeds: (special letter, rest) -/
def specialAt (sp : Special) (letter : Char) (r1 : Str) : Option (Char × Str) :=
  if letter = '%' then
    match r1 with
    | p :: code :: r3 => if p = '%' then (sp code).map (fun l => (l, r3)) else none
    | _ => none
  else none

theorem specialAt_len {sp : Special} {letter l : Char} {r1 r3 : Str}
    (h : specialAt sp letter r1 = some (l, r3)) : r3.length < r1.length := by
  unfold specialAt at h
  split at h
  · split at h
    · split at h
      · cases hs : sp ‹Char› <;> simp_all
        omega
      · cases h
    · cases h
  · cases h

theorem extractExpr_len' (escape : Bool) (tail : Str) {e : Str × Str}
    (h : extractExpr escape tail = e) : e.2.length ≤ tail.length := by
  subst h; exact extractExpr_len _ _

/-- `next_token` + the generator loop merged: `rest` is the scanner tail, `word` the word being
    collected.  The lexicographic measure (rest, word) reflects the real control flow: a WORD is
    returned *without consuming* in front of a backslash or brace, and the next call, now with an
    empty word, consumes.  Special characters of the "%%c" kind are appended to the word; that
    they are neither blank nor brace nor control is a checked fact about the generated table
    (Props/C20 `special_letters_plain`). -/
def scan (sp : Special) (rest word : Str) : Except PyErr (List Token) :=
  match hr : rest with
  | [] => .ok (if word.isEmpty then [] else [.word word])
  | letter :: r1 =>
    if letter = '\\' then
      match hr1 : r1 with
      | [] =>
        -- peek(1) = "" and `"" in "\\{}"`: escape; letter = "" < " " becomes a blank
        .ok (wordAnd word .space)
      | d :: r2 =>
        if d = '\\' ∨ d = '{' ∨ d = '}' then
          scan sp r2 (word ++ [d])               -- escaped letter
        else if hw : word ≠ [] then
          have : 0 < word.length := List.length_pos_iff.mpr hw
          (fun ts => Token.word word :: ts) <$> scan sp (letter :: d :: r2) []
        else if d = '~' then (fun ts => Token.nbsp :: ts) <$> scan sp r2 []
        else if d = 'P' then (fun ts => Token.newParagraph :: ts) <$> scan sp r2 []
        else if d = 'N' then (fun ts => Token.newColumn :: ts) <$> scan sp r2 []
        else if d = 'X' then (fun ts => Token.wrapAtDimline :: ts) <$> scan sp r2 []
        else if d = 'S' then
          match he : extractExpr true r2 with
          | (expr, r3) =>
            have : r3.length ≤ r2.length := extractExpr_len' _ _ he
            (fun ts => parseStacking expr :: ts) <$> scan sp r3 []
        else
          match hp : parseProperties d r2 with
          | none => scan sp r2 (word ++ ['\\', d])   -- UnknownCommand: verbatim
          | some (.error e) => .error e
          | some (.ok r3) =>
            have : r3.length ≤ r2.length := parseProperties_len hp
            scan sp r3 word
    else
      -- control chars (caret decoding already done)
      if letter = '\t' then (fun ts => wordAnd word .tab ++ ts) <$> scan sp r1 []
      else if letter = '\n' then (fun ts => wordAnd word .newParagraph ++ ts) <$> scan sp r1 []
      else if letter.toNat < 32 then (fun ts => wordAnd word .space ++ ts) <$> scan sp r1 []
      else
        match hs : specialAt sp letter r1 with
        | some (l, r3) =>
          have : r3.length < r1.length := specialAt_len hs
          scan sp r3 (word ++ [l])
        | none =>
          if letter = ' ' then (fun ts => wordAnd word .space ++ ts) <$> scan sp r1 []
          else if letter = '{' ∨ letter = '}' then
            if hw : word ≠ [] then
              have : 0 < word.length := List.length_pos_iff.mpr hw
              (fun ts => Token.word word :: ts) <$> scan sp (letter :: r1) []
            else scan sp r1 []
          else scan sp r1 (word ++ [letter])
termination_by (rest.length, word.length)
decreasing_by
  all_goals simp_wf
  all_goals subst_vars
  all_goals first
    | (apply Prod.Lex.left; show _ < _; (try simp only [List.length_cons]); omega)
    | (apply Prod.Lex.right; show _ < _; (try simp only [List.length_cons, List.length_nil]); omega)

/-- the same with `yield_property_commands=True`: a PROPERTIES_CHANGED token carries the text of every
    accepted command (`scan` is this function with those tokens removed: `Lemmas/TextTokens.scanY_erase`).
    Original description: `next_token` + the generator loop merged: `rest` is the scanner tail, `word` the word being
    collected.  The lexicographic measure (rest, word) reflects the real control flow: a WORD is
    returned *without consuming* in front of a backslash or brace, and the next call, now with an
    empty word, consumes.  Special characters of the "%%c" kind are appended to the word; that
    they are neither blank nor brace nor control is a checked fact about the generated table
    (Props/C20 `special_letters_plain`). -/
def scanY (sp : Special) (rest word : Str) : Except PyErr (List Token) :=
  match hr : rest with
  | [] => .ok (if word.isEmpty then [] else [.word word])
  | letter :: r1 =>
    if letter = '\\' then
      match hr1 : r1 with
      | [] =>
        -- peek(1) = "" and `"" in "\\{}"`: escape; letter = "" < " " becomes a blank
        .ok (wordAnd word .space)
      | d :: r2 =>
        if d = '\\' ∨ d = '{' ∨ d = '}' then
          scanY sp r2 (word ++ [d])               -- escaped letter
        else if hw : word ≠ [] then
          have : 0 < word.length := List.length_pos_iff.mpr hw
          (fun ts => Token.word word :: ts) <$> scanY sp (letter :: d :: r2) []
        else if d = '~' then (fun ts => Token.nbsp :: ts) <$> scanY sp r2 []
        else if d = 'P' then (fun ts => Token.newParagraph :: ts) <$> scanY sp r2 []
        else if d = 'N' then (fun ts => Token.newColumn :: ts) <$> scanY sp r2 []
        else if d = 'X' then (fun ts => Token.wrapAtDimline :: ts) <$> scanY sp r2 []
        else if d = 'S' then
          match he : extractExpr true r2 with
          | (expr, r3) =>
            have : r3.length ≤ r2.length := extractExpr_len' _ _ he
            (fun ts => parseStacking expr :: ts) <$> scanY sp r3 []
        else
          match hp : parseProperties d r2 with
          | none => scanY sp r2 (word ++ ['\\', d])   -- UnknownCommand: verbatim
          | some (.error e) => .error e
          | some (.ok r3) =>
            have : r3.length ≤ r2.length := parseProperties_len hp
            -- `return PROPERTIES_CHANGED, scanner.substr2(cmd_start_index, scanner.index())` (word is empty here)
            (fun ts => Token.props ('\\' :: d :: r2.take (r2.length - r3.length)) :: ts) <$> scanY sp r3 []
    else
      -- control chars (caret decoding already done)
      if letter = '\t' then (fun ts => wordAnd word .tab ++ ts) <$> scanY sp r1 []
      else if letter = '\n' then (fun ts => wordAnd word .newParagraph ++ ts) <$> scanY sp r1 []
      else if letter.toNat < 32 then (fun ts => wordAnd word .space ++ ts) <$> scanY sp r1 []
      else
        match hs : specialAt sp letter r1 with
        | some (l, r3) =>
          have : r3.length < r1.length := specialAt_len hs
          scanY sp r3 (word ++ [l])
        | none =>
          if letter = ' ' then (fun ts => wordAnd word .space ++ ts) <$> scanY sp r1 []
          else if letter = '{' ∨ letter = '}' then
            if hw : word ≠ [] then
              have : 0 < word.length := List.length_pos_iff.mpr hw
              (fun ts => Token.word word :: ts) <$> scanY sp (letter :: r1) []
            else scanY sp r1 []
          else scanY sp r1 (word ++ [letter])
termination_by (rest.length, word.length)
decreasing_by
  all_goals simp_wf
  all_goals subst_vars
  all_goals first
    | (apply Prod.Lex.left; show _ < _; (try simp only [List.length_cons]); omega)
    | (apply Prod.Lex.right; show _ < _; (try simp only [List.length_cons, List.length_nil]); omega)

def parseY (sp : Special) (text : Str) : Except PyErr (List Token) := scanY sp (caretDecode text) []

def parse (sp : Special) (text : Str) : Except PyErr (List Token) := scan sp (caretDecode text) []

/-- `plain_mtext(text, split=True)` on a token list, `tabsize = 4`.  After the fix of F16 the last
    paragraph is always part of the result, also when it is empty (`content.append("".join(paragraph))`
    without the former `if paragraph:`), as in `fast_plain_mtext`. -/
def plainOfTokens : List Token → Str → List Str
  | [], para => [para]
  | t :: ts, para =>
    match t with
    | .word w => plainOfTokens ts (para ++ w)
    | .space | .nbsp => plainOfTokens ts (para ++ [' '])
    | .newParagraph | .newColumn => para :: plainOfTokens ts []
    | .tab => plainOfTokens ts (para ++ "    ".toList)
    | .stack u l d => plainOfTokens ts (para ++ u ++ d ++ l)
    | .wrapAtDimline | .props _ => plainOfTokens ts para

def plainMText (sp : Special) (text : Str) : Except PyErr (List Str) :=
  (fun ts => plainOfTokens ts []) <$> parse sp text

/-- `"\n".join(content)` -/
def joinNL : List Str → Str
  | [] => []
  | [p] => p
  | p :: q :: l => p ++ '\n' :: joinNL (q :: l)

/-- `plain_mtext(text)` (split=False) -/
def plainMTextStr (sp : Special) (text : Str) : Except PyErr Str :=
  joinNL <$> plainMText sp text

/-- `fast_plain_mtext(text, split=True)`: `result.split("\n")` -/
def splitNL : Str → List Str
  | [] => [[]]
  | c :: r =>
    if c = '\n' then [] :: splitNL r
    else match splitNL r with
      | [] => [[c]]            -- not reachable: `splitNL` never returns []
      | p :: l => (c :: p) :: l

/-! ### the class of contents on which `fast_plain_mtext` and `plain_mtext` agree

`agreeClass sp d` is a decidable recogniser on the caret-DECODED content `d` (both decoders start with
`caret_decode`, so every caret sequence is covered by stating the class on the decoded text):

  * every character `≥ U+0020` and LF, except the syntax characters `\ { } %` (blank and `^` included);
  * unbalanced or balanced group braces `{`, `}`;
  * the escapes `\\`, `\{`, `\}`;
  * the one letter commands `\P \L \l \O \o \K \k \X`;
  * stacking `\S…;` whose expression has no backslash and no control character;
  * every command with arguments `\A \C \c \H \W \T \Q \p \f \F` for which the parser consumes exactly
    the text up to and including the first semicolon (`cmdAgree`; `Lemmas/Text` shows that the
    well-formed shapes `\H<float>[x];`, `\C<digits>;`, `\A<c>;`, `\f<no ;>;`, `\p<no ;>;` … satisfy it);
  * `%` not followed by `%`; `%%c` with `c` in SPECIAL_CHAR_ENCODING; `%%c` with `c` an ordinary character;
  * an unknown command (`\z`, `\:`, `\1` …) when no ";" follows anywhere: both print it verbatim.

Excluded, because the decoders genuinely differ there (counterexample theorems in Props/C20):
`\~`, `\N`, TAB and the other control characters, a backslash at the end, unknown commands such as `\z` in front
of a later ";", `\;`, unterminated known commands, arguments that the parser does not accept in full (`\H1a;`), a backslash
inside a stacking expression, `%%` at the end and `%%%`. -/

def isCopy (c : Char) : Bool :=
  (decide (32 ≤ c.toNat) || c == '\n') && c != '\\' && c != '{' && c != '}' && c != '%'

def stackPlainChar (c : Char) : Bool := decide (32 ≤ c.toNat) && c != '\\'

/-- the parser (`parse_properties`) and `fast_plain_mtext` skip the same text: everything up to and
    including the first ";" -/
def cmdAgree (d : Char) (r2 : Str) : Option Str :=
  match parseProperties d r2, findIdx ';' r2 with
  | some (.ok r3), some i => if r2.drop (i + 1) = r3 then some r3 else none
  | _, _ => none

theorem cmdAgree_len {d : Char} {r2 r3 : Str} (h : cmdAgree d r2 = some r3) : r3.length ≤ r2.length := by
  unfold cmdAgree at h
  split at h
  · split at h
    · cases h; rename_i heq; rw [← heq]; simp
    · cases h
  · cases h

def agreeClass (sp : Special) (s : Str) : Bool :=
  match s with
  | [] => true
  | c :: r =>
    if c = '\\' then
      match r with
      | [] => false
      | d :: r2 =>
        if d = '\\' ∨ d = '{' ∨ d = '}' then agreeClass sp r2
        else if d = 'N' ∨ d = '~' then false
        else if d ∈ oneCharCommands then agreeClass sp r2
        else if d = 'S' then
          match findIdx ';' r2 with
          | some i => (r2.take i).all stackPlainChar && agreeClass sp (r2.drop (i + 1))
          | none => false
        else
          match hc : cmdAgree d r2 with
          | some r3 =>
            have : r3.length ≤ r2.length := cmdAgree_len hc
            agreeClass sp r3
          | none =>
            -- an unknown command (`\z`, `\:` …) without any later ";" is printed verbatim by both
            if (parseProperties d r2).isNone ∧ d ≠ ';' ∧ findIdx ';' r2 = none then agreeClass sp r2
            else false
    else if c = '{' ∨ c = '}' then agreeClass sp r
    else if c = '%' then
      match r with
      | [] => true
      | p :: r2 =>
        if p = '%' then
          match r2 with
          | [] => false
          | code :: r3 =>
            if (sp code).isSome then agreeClass sp r3
            else isCopy code && agreeClass sp r3
        else agreeClass sp (p :: r2)
    else (decide (32 ≤ c.toNat) || c == '\n') && agreeClass sp r
termination_by s.length
decreasing_by
  all_goals simp_wf
  all_goals try simp only [List.length_drop]
  all_goals try omega

/-- the tokens as one string: what `"\n".join(plain_mtext(.., split=True))` makes of them -/
def flat : List Token → Str
  | [] => []
  | t :: ts =>
    match t with
    | .word w => w ++ flat ts
    | .space | .nbsp => ' ' :: flat ts
    | .newParagraph | .newColumn => '\n' :: flat ts
    | .tab => "    ".toList ++ flat ts
    | .stack u l d => u ++ d ++ l ++ flat ts
    | .wrapAtDimline | .props _ => flat ts

/-- plain content: no control characters and none of the characters that start MTEXT syntax -/
def isPlain (c : Char) : Bool :=
  decide (32 ≤ c.toNat) && c != '\\' && c != '{' && c != '}' && c != '%' && c != '^'

/-! ### `plain_mtext` as one function on strings

`slowLoop` is the string-level meaning of `MTextParser` + `plain_mtext` for EVERY decoded content: no
tokens, no word under construction, no follow-up token; `Lemmas/TextSpec.lean` proves that the token
machinery (`scan`, `plainOfTokens`) computes exactly this function.  Differences to `fastLoop` are
visible line by line (`\~`, `\N`, TAB, control characters, trailing backslash, arguments, unknown
commands, `%%`). -/

def stackText : Token → Str
  | .stack u l d => u ++ d ++ l
  | _ => []

def slowLoop (sp : Special) (s : Str) : Str :=
  match s with
  | [] => []
  | c :: r =>
    if c = '\\' then
      match r with
      | [] => [' ']                                  -- backslash at the end: a blank
      | d :: r2 =>
        if d = '\\' ∨ d = '{' ∨ d = '}' then d :: slowLoop sp r2
        else if d = '~' then ' ' :: slowLoop sp r2
        else if d = 'P' ∨ d = 'N' then '\n' :: slowLoop sp r2
        else if d = 'X' then slowLoop sp r2
        else if d = 'S' then
          match he : extractExpr true r2 with
          | (expr, r3) =>
            have : r3.length ≤ r2.length := extractExpr_len' _ _ he
            stackText (parseStacking expr) ++ slowLoop sp r3
        else
          match hp : parseProperties d r2 with
          | some (.ok r3) =>
            have : r3.length ≤ r2.length := parseProperties_len hp
            slowLoop sp r3                           -- a command: removed with the argument it accepts
          | _ => '\\' :: d :: slowLoop sp r2         -- unknown command: verbatim
    else if c = '\t' then ' ' :: ' ' :: ' ' :: ' ' :: slowLoop sp r
    else if c = '\n' then '\n' :: slowLoop sp r
    else if c.toNat < 32 then ' ' :: slowLoop sp r
    else
      match hs : specialAt sp c r with
      | some (l, r3) =>
        have : r3.length < r.length := specialAt_len hs
        l :: slowLoop sp r3
      | none =>
        if c = '{' ∨ c = '}' then slowLoop sp r else c :: slowLoop sp r
termination_by s.length
decreasing_by
  all_goals simp_wf
  all_goals omega

/-! ### `plain_mtext(.., split=True)`: the same with paragraph breaks as `none`

A paragraph break (`\\P`, `\\N`, a LF character) is `none`, every character of a word is `some c` - also a
LF that is part of a word (the verbatim unknown command `\\<LF>`); the paragraphs are the pieces between
the `none`s.  `fast_plain_mtext(.., split=True)` splits at every LF of its result. -/

def slowItems (sp : Special) (s : Str) : List (Option Char) :=
  match s with
  | [] => []
  | c :: r =>
    if c = '\\' then
      match r with
      | [] => [some ' ']
      | d :: r2 =>
        if d = '\\' ∨ d = '{' ∨ d = '}' then some d :: slowItems sp r2
        else if d = '~' then some ' ' :: slowItems sp r2
        else if d = 'P' ∨ d = 'N' then none :: slowItems sp r2
        else if d = 'X' then slowItems sp r2
        else if d = 'S' then
          match he : extractExpr true r2 with
          | (expr, r3) =>
            have : r3.length ≤ r2.length := extractExpr_len' _ _ he
            (stackText (parseStacking expr)).map some ++ slowItems sp r3
        else
          match hp : parseProperties d r2 with
          | some (.ok r3) =>
            have : r3.length ≤ r2.length := parseProperties_len hp
            slowItems sp r3
          | _ => some '\\' :: some d :: slowItems sp r2   -- unknown command: verbatim (d may be LF: stays a character)
    else if c = '\t' then some ' ' :: some ' ' :: some ' ' :: some ' ' :: slowItems sp r
    else if c = '\n' then none :: slowItems sp r
    else if c.toNat < 32 then some ' ' :: slowItems sp r
    else
      match hs : specialAt sp c r with
      | some (l, r3) =>
        have : r3.length < r.length := specialAt_len hs
        some l :: slowItems sp r3
      | none =>
        if c = '{' ∨ c = '}' then slowItems sp r else some c :: slowItems sp r
termination_by s.length
decreasing_by
  all_goals simp_wf
  all_goals omega


/-- the pieces between the breaks -/
def splitNone : List (Option Char) → List Str
  | [] => [[]]
  | none :: r => [] :: splitNone r
  | some c :: r =>
    match splitNone r with
    | [] => [[c]]           -- not reachable
    | p :: l => (c :: p) :: l

def itemsOfTokens : List Token → List (Option Char)
  | [] => []
  | t :: ts =>
    match t with
    | .word w => w.map some ++ itemsOfTokens ts
    | .space | .nbsp => some ' ' :: itemsOfTokens ts
    | .newParagraph | .newColumn => none :: itemsOfTokens ts
    | .tab => some ' ' :: some ' ' :: some ' ' :: some ' ' :: itemsOfTokens ts
    | .stack u l d => (u ++ d ++ l).map some ++ itemsOfTokens ts
    | .wrapAtDimline | .props _ => itemsOfTokens ts

/-! ### MTextEditor: the content the builder methods write

Every method appends a fixed sequence of `Item`s; `Item.render` is the text written, `Item.expected` the
plain text a decoder must return for it.  Float arguments are modelled by their Python text
(`str(round(x, 3))`, `f"{x:g}"`): assumption "the text of a finite float matches RE_FLOAT completely"
(`isFloatText`; checked on the real code for every generated value by the correspondence stream X3). -/

inductive Item where
  | plain (w : Str)                      -- text without syntax characters
  | cmd (d : Char) (args : Str)          -- `\` d args `;`
  | one (d : Char)                       -- `\P \L \l \O \o \K \k \X`
  | openGroup | closeGroup
  | stack (upr lwr : Str) (t : Char)     -- `\S` upr t lwr `;`  ("^ " is written for t = '^')
  deriving Repr, DecidableEq

def Item.render : Item → Str
  | .plain w => w
  | .cmd d args => '\\' :: d :: (args ++ [';'])
  | .one d => ['\\', d]
  | .openGroup => ['{']
  | .closeGroup => ['}']
  | .stack u l t => '\\' :: 'S' :: (u ++ ((if t = '^' then ['^', ' '] else [t]) ++ (l ++ [';'])))

/-- the same after `caret_decode` ("^ " becomes "^") -/
def Item.renderD : Item → Str
  | .stack u l t => '\\' :: 'S' :: (u ++ (t :: (l ++ [';'])))
  | i => i.render

def Item.expected : Item → Str
  | .plain w => w
  | .cmd _ _ => []
  | .one d => if d = 'P' then ['\n'] else []
  | .openGroup | .closeGroup => []
  | .stack u l t => u ++ t :: l

/-- argument text: plain and without ";" -/
def isArgChar (c : Char) : Bool := isPlain c && c != ';'

/-- the complete text is one RE_FLOAT match -/
def isFloatText (f : Str) : Bool := !f.isEmpty && decide (matchFloat f = (f, []))

inductive EdOp where
  | append (w : Str)
  | font (name : Str) (bold italic : Bool)
  | scaleHeight (f : Str) | height (f : Str) | widthFactor (f : Str) | charTrackingFactor (f : Str)
  | oblique (f : Str)
  | aci (ds : Str) | rgb (ds : Str)                 -- `color(name)` is `aci(MTEXT_COLOR_INDEX[name])`
  | stack (upr lwr : Str) (t : Char)
  | group (w : Str) | underline (w : Str) | overline (w : Str) | strikeThrough (w : Str)
  | paragraph (args : Option Str)                   -- `props.tostring()`: "" or `\px` args `;`
  | newParagraph                                    -- NEW_PARAGRAPH, NEW_LINE
  | align (c : Char)                                -- ALIGN_BOTTOM / ALIGN_MIDDLE / ALIGN_TOP
  | const (d : Char)                                -- UNDERLINE_START … STRIKE_STOP: `\L \l \O \o \K \k`
  | groupStart | groupEnd
  deriving Repr, DecidableEq

def bit (b : Bool) : Char := if b then '1' else '0'

def EdOp.items : EdOp → List Item
  | .append w => [.plain w]
  | .font name b i => [.cmd 'f' (name ++ ['|', 'b', bit b, '|', 'i', bit i])]
  | .scaleHeight f => [.cmd 'H' (f ++ ['x'])]
  | .height f => [.cmd 'H' f]
  | .widthFactor f => [.cmd 'W' f]
  | .charTrackingFactor f => [.cmd 'T' f]
  | .oblique f => [.cmd 'Q' f]
  | .aci ds => [.cmd 'C' ds]
  | .rgb ds => [.cmd 'c' ds]
  | .stack u l t => [.stack u l t]
  | .group w => [.openGroup, .plain w, .closeGroup]
  | .underline w => [.one 'L', .plain w, .one 'l']
  | .overline w => [.one 'O', .plain w, .one 'o']
  | .strikeThrough w => [.one 'K', .plain w, .one 'k']
  | .paragraph none => []
  | .paragraph (some a) => [.cmd 'p' ('x' :: a)]
  | .newParagraph => [.one 'P']
  | .align c => [.cmd 'A' [c]]
  | .const d => [.one d]
  | .groupStart => [.openGroup]
  | .groupEnd => [.closeGroup]

/-- arguments in range: words are plain, numbers are number texts -/
def EdOp.wf : EdOp → Bool
  | .append w | .group w | .underline w | .overline w | .strikeThrough w => w.all isPlain
  | .font name _ _ => name.all isArgChar
  | .scaleHeight f | .height f | .widthFactor f | .charTrackingFactor f | .oblique f => isFloatText f
  | .aci ds | .rgb ds => ds.all isDigit
  | .stack u l t => u.all isArgChar && l.all isArgChar && (t == '^' || t == '/' || t == '#')
  | .paragraph none => true
  | .paragraph (some a) => a.all isArgChar
  | .newParagraph | .groupStart | .groupEnd => true
  | .align c => c == '0' || c == '1' || c == '2'
  | .const d => d == 'L' || d == 'l' || d == 'O' || d == 'o' || d == 'K' || d == 'k'

def renderItems (is : List Item) : Str := (is.map Item.render).flatten
def expectedItems (is : List Item) : Str := (is.map Item.expected).flatten

/-- `str(editor)` after the method calls `ops` -/
def editorText (ops : List EdOp) : Str := renderItems (ops.map EdOp.items).flatten
/-- the words the caller put in, in order, paragraph breaks as LF -/
def editorWords (ops : List EdOp) : Str := expectedItems (ops.map EdOp.items).flatten

/-! ### MTextEditor, part 2: the constants on which the two decoders differ (TAB, NBSP, NEW_COLUMN) and
    `bullet_list()`, which writes TABs -/

inductive XItem where
  | base (i : Item)
  | tab            -- TAB = "^I": four blanks for `plain_mtext` (tabsize 4), the TAB character for `fast_plain_mtext`
  | nbsp           -- NBSP = `\~`: a blank for `plain_mtext`
  | newColumn      -- NEW_COLUMN = `\N`: LF for `plain_mtext`
  deriving Repr, DecidableEq

def XItem.render : XItem → Str
  | .base i => i.render
  | .tab => ['^', 'I']
  | .nbsp => ['\\', '~']
  | .newColumn => ['\\', 'N']

def XItem.renderD : XItem → Str
  | .base i => i.renderD
  | .tab => ['\t']
  | x => x.render

def XItem.expectedSlow : XItem → Str
  | .base i => i.expected
  | .tab => [' ', ' ', ' ', ' ']
  | .nbsp => [' ']
  | .newColumn => ['\n']

/-- only for items without NBSP / NEW_COLUMN (`fastOk`) -/
def XItem.expectedFast : XItem → Str
  | .base i => i.expected
  | .tab => ['\t']
  | _ => []

def XItem.fastOk : XItem → Bool
  | .nbsp | .newColumn => false
  | _ => true

inductive XOp where
  | op (o : EdOp)
  | tab | nbsp | newColumn                                      -- `append(MTextEditor.TAB)` …
  | bulletList (args : Option Str) (rows : List (Str × Str))     -- `bullet_list(indent, bullets, content)`:
      -- args = the ParagraphProperties(indent=-indent*0.75, left=indent, tab_stops=(indent,)).tostring() arguments
  deriving Repr

def rowItems (row : Str × Str) : List XItem :=
  [.base (.plain row.1), .tab, .base (.plain row.2), .base (.one 'P')]

def XOp.items : XOp → List XItem
  | .op o => o.items.map .base
  | .tab => [.tab]
  | .nbsp => [.nbsp]
  | .newColumn => [.newColumn]
  | .bulletList a rows =>
    [.base .openGroup] ++ (EdOp.paragraph a).items.map .base ++ (rows.map rowItems).flatten ++ [.base .closeGroup]

def XOp.wf : XOp → Bool
  | .op o => o.wf
  | .bulletList a rows => (EdOp.paragraph a).wf && rows.all (fun r => r.1.all isPlain && r.2.all isPlain)
  | _ => true

def XOp.fastOk : XOp → Bool
  | .nbsp | .newColumn => false
  | _ => true

def xEditorText (ops : List XOp) : Str := (((ops.map XOp.items).flatten).map XItem.render).flatten
def xEditorWordsSlow (ops : List XOp) : Str := (((ops.map XOp.items).flatten).map XItem.expectedSlow).flatten
def xEditorWordsFast (ops : List XOp) : Str := (((ops.map XOp.items).flatten).map XItem.expectedFast).flatten

/-! ### the token stream the parser must return for editor output (`yield_property_commands=True`) -/

def flushWord (word : Str) : List Token := if word.isEmpty then [] else [.word word]

/-- plain text `w` with the word under construction `word`: (tokens emitted, new word under construction) -/
def plainTokens : Str → Str → List Token × Str
  | [], word => ([], word)
  | c :: r, word =>
    if c = ' ' then (wordAnd word .space ++ (plainTokens r []).1, (plainTokens r []).2)
    else plainTokens r (word ++ [c])

def Item.tokens (i : Item) (word : Str) : List Token × Str :=
  match i with
  | .plain w => plainTokens w word
  | .cmd d args => (flushWord word ++ [.props ('\\' :: d :: (args ++ [';']))], [])
  | .one d =>
    if d = 'P' then (flushWord word ++ [.newParagraph], [])
    else if d = 'X' then (flushWord word ++ [.wrapAtDimline], [])
    else (flushWord word ++ [.props ['\\', d]], [])
  | .openGroup | .closeGroup => (flushWord word, [])
  | .stack u l t => (flushWord word ++ [.stack u l [t]], [])

def XItem.tokens (x : XItem) (word : Str) : List Token × Str :=
  match x with
  | .base i => i.tokens word
  | .tab => (wordAnd word .tab, [])
  | .nbsp => (flushWord word ++ [.nbsp], [])
  | .newColumn => (flushWord word ++ [.newColumn], [])

def xitemsTokens : List XItem → Str → List Token
  | [], word => flushWord word
  | x :: xs, word => (x.tokens word).1 ++ xitemsTokens xs (x.tokens word).2

/-- the tokens `MTextParser(str(editor), yield_property_commands=True)` must yield -/
def xEditorTokens (ops : List XOp) : List Token := xitemsTokens (ops.map XOp.items).flatten []

/-- in range for the token level statement: additionally the numerator of `stack()` has none of `^ / #`
    (otherwise the parser splits the expression at the first of them: the words are the same, the parts differ) -/
def EdOp.wfT : EdOp → Bool
  | .stack u l t => (EdOp.stack u l t).wf && u.all (fun c => c != '^' && c != '/' && c != '#')
  | o => o.wf

def XOp.wfT : XOp → Bool
  | .op o => o.wfT
  | x => x.wf

/-! ### ParagraphProperties: `tostring()` and the values `parse_paragraph_properties` reads back

Values are modelled by their TEXT (`f"{x:g}"` on the way out, the matched RE_FLOAT expression on the way
in): float-text assumption "for a finite float x the text `f"{x:g}"` matches RE_FLOAT completely and
`float()` of it is x rounded to 6 significant digits" - the round trip below is exact on the texts.
`none` stands for the default (0 / DEFAULT alignment), which `tostring()` omits. -/

inductive Tab where
  | left (f : Str) | center (f : Str) | right (f : Str)
  deriving Repr, DecidableEq

structure ParaProps where
  indent : Option Str := none
  left : Option Str := none
  right : Option Str := none
  align : Option Char := none          -- l r c j d
  tabs : List Tab := []
  deriving Repr, DecidableEq

def Tab.text : Tab → Str
  | .left f => f
  | .center f => 'c' :: f
  | .right f => 'r' :: f

def commaJoin : List Str → Str
  | [] => []
  | [a] => a
  | a :: b :: l => a ++ ',' :: commaJoin (b :: l)

/-- the argument groups `tostring()` appends (each followed by COMMA, the last COMMA popped) -/
def ParaProps.pieces (p : ParaProps) : List Str :=
  (match p.indent with | some f => ['i' :: f] | none => []) ++
  (match p.left with | some f => ['l' :: f] | none => []) ++
  (match p.right with | some f => ['r' :: f] | none => []) ++
  (match p.align with | some c => [['q', c]] | none => []) ++
  (if p.tabs.isEmpty then [] else ['t' :: commaJoin (p.tabs.map Tab.text)])

/-- `ParagraphProperties.tostring()`: `none` = "", `some a` = `\px` a `;` -/
def ParaProps.toArgs (p : ParaProps) : Option Str :=
  if p.pieces.isEmpty then none else some (commaJoin p.pieces)

def alignOf (c : Char) : Option Char :=
  if c = 'l' ∨ c = 'r' ∨ c = 'c' ∨ c = 'j' ∨ c = 'd' then some c else none

/-- the `t` sub-loop with values (same recursion as `paraTabs`) -/
def paraTabVals (s : Str) (acc : List Tab) : List Tab :=
  match hs : s with
  | [] => acc
  | c :: r =>
    -- after the fix: "r" / "c" without a number is not a tab stop (it used to be stored as the bare
    -- letter, `make_tab_stops` of the layout engine then raised ValueError in `float("")`)
    if c = 'r' then
      paraTabVals (paraFloatExpr r).2 (if (paraFloatExpr r).1.isEmpty then acc else acc ++ [.right (paraFloatExpr r).1])
    else if c = 'c' then
      paraTabVals (paraFloatExpr r).2 (if (paraFloatExpr r).1.isEmpty then acc else acc ++ [.center (paraFloatExpr r).1])
    else
      if he : (paraFloatExpr s).1.isEmpty then paraTabVals r acc
      else paraTabVals (paraFloatExpr s).2 (acc ++ [.left (paraFloatExpr s).1])
termination_by s.length
decreasing_by
  · have := paraFloatExpr_len r; simp_all; omega
  · have := paraFloatExpr_len r; simp_all; omega
  · simp_all
  · have := paraFloatExpr_lt s (by simpa using he); simp_all

def optText (f : Str) : Option Str := if f.isEmpty then none else some f

/-- the loop of `parse_paragraph_properties` with values (same recursion as `paraLoop`); a command
    without number sets 0 (`none`) -/
def paraValsLoop (s : Str) (v : ParaProps) : ParaProps :=
  match hs : s with
  | [] => v
  | c :: r =>
    if c = 'i' then paraValsLoop (paraFloatExpr r).2 { v with indent := optText (paraFloatExpr r).1 }
    else if c = 'l' then paraValsLoop (paraFloatExpr r).2 { v with left := optText (paraFloatExpr r).1 }
    else if c = 'r' then paraValsLoop (paraFloatExpr r).2 { v with right := optText (paraFloatExpr r).1 }
    else if c = 'q' then
      paraValsLoop (skipCommas (r.drop 1)) { v with align := (r.head?).bind alignOf }
    else if c = 't' then { v with tabs := paraTabVals r [] }
    else paraValsLoop r v
termination_by s.length
decreasing_by
  · have := paraFloatExpr_len r; simp_all; omega
  · have := paraFloatExpr_len r; simp_all; omega
  · have := paraFloatExpr_len r; simp_all; omega
  · have := skipCommas_len (r.drop 1); simp_all; omega
  · simp_all

/-- `ctx.paragraph` after `\p` args `;` starting from the default context -/
def paraParse (args : Str) : ParaProps := paraValsLoop args {}

/-! ### line ending helpers: `escape_dxf_line_endings`, `safe_string`, `validator.is_valid_one_line_text` -/

/-- `text.replace("\r", "").replace("\n", "\\P")` -/
def escapeLineEndings : Str → Str
  | [] => []
  | c :: r =>
    if c = '\r' then escapeLineEndings r
    else if c = '\n' then '\\' :: 'P' :: escapeLineEndings r
    else c :: escapeLineEndings r

/-- `safe_string(s, max_len)` for a `str` argument -/
def safeString (s : Str) (maxLen : Nat) : Str := (escapeLineEndings s).take maxLen

/-- `validator.is_valid_one_line_text` -/
def isValidOneLine (s : Str) : Bool := s.all (fun c => c != '\n' && c != '\r') && s.getLast? != some '^'

/-! ### MTEXT content as DXF tags: `entities/mtext.py: export_mtext_content`, `tools/text.py: load_mtext_content` -/

/-- `export_mtext_content(text, tagwriter)`: the written (group code, value) tags: chunks of at most 250
    characters, group code 3 for all but the last, group code 1 for the last (an empty one if there is no chunk) -/
def exportMTextContent (text : Str) : List (Nat × Str) :=
  let chunks := splitMText 250 (by decide) (escapeLineEndings text)
  chunks.dropLast.map (fun c => (3, c)) ++ [(1, chunks.getLast?.getD [])]

/-- `load_mtext_content(tags)`: group code 3 values are concatenated, the last group code 1 value is the tail -/
def loadMTextContent (tags : List (Nat × Str)) : Str :=
  let content := ((tags.filter (fun t => t.1 = 3)).map (·.2)).flatten
  let tail := ((tags.filter (fun t => t.1 = 1)).getLast?.map (·.2)).getD []
  escapeLineEndings (content ++ tail)

/-! ### `scale_mtext_inline_commands(content, factor)`: the scaled numbers symbolic (final round) -/

def isHeightChar (c : Char) : Bool := isDigit c || c == '.'

/-- `float()` accepts a text over digits and "." iff it has a digit and at most one "." -/
def validNumber (n : Str) : Bool := decide ((n.filter (· == '.')).length ≤ 1) && n.any isDigit

inductive Seg where
  | text (s : Str)
  | scaled (n : Str)      -- replaced by `f"{float(n) * factor:.3g}"`
  deriving Repr, DecidableEq

/-- `content.split("\\H")` -/
def splitH (s : Str) : List Str :=
  match s with
  | [] => [[]]
  | [c] => [[c]]
  | c :: d :: r2 =>
    if c = '\\' ∧ d = 'H' then [] :: splitH r2
    else match splitH (d :: r2) with
      | [] => [[c]]
      | p :: l => (c :: p) :: l
termination_by s.length
decreasing_by
  all_goals simp_wf
  all_goals omega

/-- `_scale_leading_number(part, "\\H")` -/
def scalePart (part : Str) : List Seg :=
  let num := part.takeWhile isHeightChar
  let rest := part.drop num.length
  match rest with
  | c :: _ =>
    if c = 'x' then [.text ('\\' :: 'H' :: part)]
    else [.text ['\\', 'H'], (if validNumber num then .scaled num else .text []), .text rest]
  | [] => [.text ['\\', 'H'], (if validNumber num then .scaled num else .text []), .text rest]

/-- `scale_mtext_inline_commands(content, factor)` with the scaled numbers symbolic -/
def scaleSegs (s : Str) : List Seg :=
  match splitH s with
  | [] => []
  | first :: parts => .text first :: (parts.map scalePart).flatten

/-- the content with every scaled number put back: what the function leaves untouched -/
def unscale : List Seg → Str
  | [] => []
  | .text s :: r => s ++ unscale r
  | .scaled n :: r => n ++ unscale r


/-! ### `MText.plain_text(split, fast)` and `MText.all_columns_plain_text(split)` (entity without linked columns; final round) -/

/-- `MText.plain_text(split=False, fast)` -/
def mtextPlainText (sp : Special) (fast : Bool) (text : Str) : Except PyErr Str :=
  if fast then .ok (fastPlainMText sp text) else plainMTextStr sp text

/-- `MText.plain_text(split=True, fast)` -/
def mtextPlainLines (sp : Special) (fast : Bool) (text : Str) : Except PyErr (List Str) :=
  if fast then .ok (splitNL (fastPlainMText sp text)) else plainMText sp text

/-- `content.pop()` if the last line is empty -/
def popEmptyLast (l : List Str) : List Str :=
  match l.getLast? with
  | some [] => l.dropLast
  | _ => l

/-- `MText.all_columns_plain_text(split)` for an entity without linked column entities: `hasColumns` is
    `MText.has_columns` (embedded columns of DXF R2018); joined form, list form -/
def allColumnsPlainText (sp : Special) (text : Str) : Str := fastPlainMText sp text

def allColumnsPlainLines (sp : Special) (hasColumns : Bool) (text : Str) : List Str :=
  if hasColumns then popEmptyLast (splitNL (fastPlainMText sp text)) else splitNL (fastPlainMText sp text)

/-! ### caret pairs in `split_mtext_string` (final round) -/

/-- no two adjacent carets -/
def noDoubleCaret : Str → Bool
  | [] => true
  | [_] => true
  | a :: b :: r => !(a == '^' && b == '^') && noDoubleCaret (b :: r)

/-! ### the argument-free sub-grammar and its members on which the two decoders agree (final round) -/

/-- a command letter without argument: escapes, paragraph break, stroke switches, `\X`, new column -/
def isSimpleCmd (d : Char) : Bool :=
  d == '\\' || d == '{' || d == '}' || d == 'P' || d == 'L' || d == 'l' || d == 'O' || d == 'o' || d == 'K' || d == 'k' ||
  d == 'X' || d == 'N'

/-- the argument-free sub-grammar: characters (also control characters), braces, `\\ \{ \}`, `\P`, the stroke
    switches, `\X`, `\N`, a backslash at the end; no `%`, no command with arguments -/
def argFree : Str → Bool
  | [] => true
  | c :: r =>
    if c = '\\' then
      match r with
      | [] => true
      | d :: r2 => isSimpleCmd d && argFree r2
    else c != '%' && argFree r

/-- ... and exactly the members on which the decoders agree: no control character other than LF, no `\N`,
    no backslash at the end -/
def argFreeAgree : Str → Bool
  | [] => true
  | c :: r =>
    if c = '\\' then
      match r with
      | [] => false
      | d :: r2 => d != 'N' && argFreeAgree r2
    else (decide (32 ≤ c.toNat) || c == '\n') && argFreeAgree r

/-! ### split_mtext_string for every size (after the fix: `size < 2` raises ValueError; before the
    fix `size = 1` never returned for content with a caret and `size = 0` returned `[]`) -/

def splitMTextE (size : Nat) (s : Str) : Except PyErr (List Str) :=
  if h : 2 ≤ size then .ok (splitMText size h s) else .error .valueError

end EzdxfVerif.Text

/-
Model of `src/ezdxf/tools/text.py` (content tools): `caret_decode`, `split_mtext_string`,
`fast_plain_mtext`, `plain_text`, `TextScanner`, `MTextParser` (token stream: type + data),
`plain_mtext`.  Core Lean only.  Strings are `List Char`.

The model copies the code, not the intention (DESIGN.md section 8, pitfalls):
  * `"" in "\\{}"` is True, `"" < " "` is True: a trailing backslash becomes a SPACE token;
  * `re` `.` does not match LF (`caret_decode`);
  * Python operations that can raise return `Except PyErr`.
The MTEXT context (fonts, heights, colours) is not part of the observable modelled here, only
whether evaluating it can raise (`float()`, `int()`).
-/
namespace EzdxfVerif.Text

abbrev Str := List Char

inductive PyErr where
  | typeError | valueError | indexError
  deriving Repr, DecidableEq

/-- SPECIAL_CHAR_ENCODING.get(code.lower()) as a table on the *un-lowered* character;
    the table itself is regenerated from `lldxf/const.py` (Gen/TextTables.lean) and passed in. -/
abbrev Special := Char → Option Char

/-! ### caret_decode -/

def caretChar (c : Char) : Char := Char.ofNat ((((c.toNat : Int) - 64) % 126).toNat)

/-- `re.sub(r"\^(.)", lambda m: chr((ord(m.group(1)) - 64) % 126), text)` -/
def caretDecode : Str → Str
  | [] => []
  | [c] => [c]
  | c :: d :: rest =>
    if c = '^' ∧ d ≠ '\n' then caretChar d :: caretDecode rest
    else c :: caretDecode (d :: rest)

/-! ### split_mtext_string -/

/-- One step of the `while True` loop on the not yet consumed rest `r = s[pos:]`.
    `2 ≤ size` is needed for termination: with `size = 1` the real loop never ends on "^". -/
def splitMText (size : Nat) (h : 2 ≤ size) (r : Str) : List Str :=
  if hr : r.length = 0 then []
  else if r.length < size then [r]
  else if (r.take size).getLast? = some '^' then
    (r.take size).dropLast :: splitMText size h (r.drop (size - 1))
  else r.take size :: splitMText size h (r.drop size)
termination_by r.length
decreasing_by
  all_goals simp only [List.length_drop]
  all_goals omega

/-! ### fast_plain_mtext -/

def oneCharCommands : Str := "PNLlOoKkX".toList

/-- index of the first `c` in `s` -/
def findIdx (c : Char) : Str → Option Nat
  | [] => none
  | x :: xs => if x = c then some 0 else (findIdx c xs).map (· + 1)

theorem findIdx_lt {c : Char} {s : Str} {i : Nat} (h : findIdx c s = some i) : i < s.length := by
  induction s generalizing i with
  | nil => simp [findIdx] at h
  | cons x xs ih =>
    simp only [findIdx] at h
    split at h
    · cases h; simp
    · cases hx : findIdx c xs with
      | none => simp [hx] at h
      | some j => simp [hx] at h; subst h; have := ih hx; simp; omega

/-- the body of `fast_plain_mtext` after `caret_decode`; `raw` is the not yet consumed text,
    result is `chars` -/
def fastLoop (sp : Special) (raw : Str) : Str :=
  match raw with
  | [] => []
  | c :: r =>
    if c = '\\' then
      match r with
      | [] => []                                   -- premature end of text: break
      | d :: r2 =>
        if d = '\\' ∨ d = '{' ∨ d = '}' then d :: fastLoop sp r2
        else if d ∈ oneCharCommands then
          if d = 'P' then '\n' :: fastLoop sp r2
          else if d = 'N' then ' ' :: fastLoop sp r2
          else fastLoop sp r2
        else if d = ';' then fastLoop sp r2        -- `while char != ";"` does not run
        else
          let stacking := d = 'S'
          match hf : findIdx ';' r2 with
          | some i =>
            (if stacking then r2.take i else []) ++ fastLoop sp (r2.drop (i + 1))
          | none =>
            -- IndexError: user data of a stacking command was already appended,
            -- then "\\" + first_char, and raw_chars is *not* advanced
            (if stacking then r2 else []) ++ ('\\' :: d :: fastLoop sp r2)
    else if c = '{' ∨ c = '}' then fastLoop sp r
    else if c = '%' then
      match r with
      | [] => ['%']
      | p :: r2 =>
        if p = '%' then
          match r2 with
          | [] => []                               -- "%%" at the very end is dropped
          | code :: r3 =>
            match sp code with
            | some letter => letter :: fastLoop sp r3
            | none => '%' :: '%' :: code :: fastLoop sp r3
        else '%' :: fastLoop sp (p :: r2)
    else c :: fastLoop sp r
termination_by raw.length
decreasing_by
  all_goals simp_wf
  all_goals try simp only [List.length_drop]
  all_goals try omega

def fastPlainMText (sp : Special) (text : Str) : Str := fastLoop sp (caretDecode text)

/-! ### plain_text (TEXT, ATTRIB, ATTDEF) -/

/-- `str.rstrip("^")` -/
def rstripCaret (s : Str) : Str := (s.reverse.dropWhile (· = '^')).reverse

/-- `validator.fix_one_line_text` -/
def fixOneLine (s : Str) : Str := rstripCaret ((s.filter (· ≠ '\n')).filter (· ≠ '\r'))

/-- loop of `plain_text`; `peek(2).lower()` lookup is `sp`; `code in "kou"` uses the lowered
    code, `kou` tells whether `code.lower()` is a substring of "kou" ("" included: end of text) -/
def plainTextLoop (sp : Special) (kou : Char → Bool) (s : Str) : Str :=
  match s with
  | [] => []
  | c :: r =>
    if c = '%' then
      match r with
      | [] => ['%']
      | p :: r2 =>
        if p = '%' then
          match r2 with
          | [] => []    -- code = "" and `"" in "kou"` is True: consume(3), nothing appended
          | code :: r3 =>
            match sp code with
            | some letter => letter :: plainTextLoop sp kou r3
            | none =>
              if kou code then plainTextLoop sp kou r3
              else '%' :: plainTextLoop sp kou (p :: code :: r3)
        else '%' :: plainTextLoop sp kou (p :: r2)
    else c :: plainTextLoop sp kou r
termination_by s.length
decreasing_by
  all_goals simp_wf
  all_goals omega

def plainText (sp : Special) (kou : Char → Bool) (text : Str) : Str :=
  plainTextLoop sp kou (fixOneLine (caretDecode text))

/-! ### Python `float()` / `int()` on the strings the parser hands to them -/

def isDigit (c : Char) : Bool := '0' ≤ c ∧ c ≤ '9'

/-- Python `float()` on the strings the parser hands to it, as the DFA of the grammar
    `[+-]? digit+ ( '.' digit* )? ( [eE] [+-]? digit+ )?` ; anything else is a ValueError.
    (float() accepts more - blanks, "inf", "_" - but no such string is a prefix matched by
    RE_FLOAT, before or after the regex fix.)  States: 0 start, 1 sign, 2 int digits,
    3 fraction, 4 'e', 5 exponent sign, 6 exponent digits; accepting 2 3 6; 7 = dead. -/
def fstep (q : Nat) (c : Char) : Nat :=
  if isDigit c then
    (if q = 0 ∨ q = 1 ∨ q = 2 then 2 else if q = 3 then 3 else if q = 4 ∨ q = 5 ∨ q = 6 then 6 else 7)
  else if c = '+' ∨ c = '-' then (if q = 0 then 1 else if q = 4 then 5 else 7)
  else if c = '.' then (if q = 2 then 3 else 7)
  else if c = 'e' ∨ c = 'E' then (if q = 2 ∨ q = 3 then 4 else 7)
  else 7

def frun (q : Nat) (s : Str) : Nat := s.foldl fstep q

def pyFloatOk (s : Str) : Bool := let q := frun 0 s; q = 2 ∨ q = 3 ∨ q = 6

def pyFloat (s : Str) : Except PyErr Unit := if pyFloatOk s then .ok () else .error .valueError

/-- `sys.get_int_max_str_digits()` default -/
def intMaxStrDigits : Nat := 4300

/-! `re.match(RE_FLOAT, tail)` with RE_FLOAT = `[+-]?\d+(?:\.\d*)?(?:[eE][+-]?\d+)?` (the pattern
    text is tied to the source by Gen/TextTables and Props/C20 `re_float_pattern`), built from
    four pieces, each returning (matched, rest). -/

def optSign (s : Str) : Str × Str :=
  match s with
  | c :: t => if c = '+' ∨ c = '-' then ([c], t) else ([], s)
  | [] => ([], [])

def spanDigits (s : Str) : Str × Str := (s.takeWhile isDigit, s.dropWhile isDigit)

/-- `(?:\.\d*)?` -/
def optFrac (s : Str) : Str × Str :=
  match s with
  | c :: t => if c = '.' then ('.' :: (spanDigits t).1, (spanDigits t).2) else ([], s)
  | [] => ([], [])

/-- `(?:[eE][+-]?\d+)?` : all or nothing -/
def optExp (s : Str) : Str × Str :=
  match s with
  | e :: t =>
    if e = 'e' ∨ e = 'E' then
      if (spanDigits (optSign t).2).1 = [] then ([], s)
      else (e :: ((optSign t).1 ++ (spanDigits (optSign t).2).1), (spanDigits (optSign t).2).2)
    else ([], s)
  | [] => ([], [])

/-- (matched text, rest); matched = [] iff the regex does not match -/
def matchFloat (s : Str) : Str × Str :=
  let a := optSign s
  let b := spanDigits a.2
  if b.1 = [] then ([], s) else
  let c := optFrac b.2
  let d := optExp c.2
  (a.1 ++ b.1 ++ c.1 ++ d.1, d.2)

theorem optSign_append (s : Str) : (optSign s).1 ++ (optSign s).2 = s := by
  unfold optSign; split
  · split <;> simp
  · simp

theorem spanDigits_append (s : Str) : (spanDigits s).1 ++ (spanDigits s).2 = s := by
  simp [spanDigits]

theorem optFrac_append (s : Str) : (optFrac s).1 ++ (optFrac s).2 = s := by
  unfold optFrac; split
  · split
    · rename_i c t h; subst h; simp [spanDigits]
    · simp
  · simp

theorem optExp_append (s : Str) : (optExp s).1 ++ (optExp s).2 = s := by
  unfold optExp; split
  · split
    · split
      · simp
      · rename_i e t _ _
        have h1 := optSign_append t
        have h2 := spanDigits_append (optSign t).2
        simp only [List.cons_append, List.append_assoc, h2, h1]
    · simp
  · simp

theorem matchFloat_append (s : Str) : (matchFloat s).1 ++ (matchFloat s).2 = s := by
  unfold matchFloat
  simp only
  split
  · simp
  · have h1 := optSign_append s
    have h2 := spanDigits_append (optSign s).2
    have h3 := optFrac_append (spanDigits (optSign s).2).2
    have h4 := optExp_append (optFrac (spanDigits (optSign s).2).2).2
    simp only [List.append_assoc, h4, h3, h2, h1]

theorem matchFloat_len (s : Str) : (matchFloat s).1.length + (matchFloat s).2.length = s.length := by
  have := congrArg List.length (matchFloat_append s)
  simpa using this

/-- RE_FLOAT_X: RE_FLOAT followed by `([x]?)` : rest after the optional "x" -/
def dropX (s : Str) : Str := match s with | c :: r => if c = 'x' then r else s | [] => []

theorem dropX_len (s : Str) : (dropX s).length ≤ s.length := by
  unfold dropX; split
  · split <;> simp
  · simp

/-! ### TextScanner.find / extract_expression -/

/-- `TextScanner.find(char, escape)` relative to the current index -/
def scanFind (ch : Char) (escape : Bool) : Str → Option Nat
  | [] => none
  | [c] => if c = ch then some 0 else none
  | c :: d :: rest =>
    if escape ∧ c = '\\' ∧ d = ch then (scanFind ch escape rest).map (· + 2)
    else if c = ch then some 0
    else (scanFind ch escape (d :: rest)).map (· + 1)

/-- `extract_expression`: (expr, rest after expr and the terminating ";") -/
def extractExpr (escape : Bool) (tail : Str) : Str × Str :=
  match scanFind ';' escape tail with
  | none => (tail, [])
  | some i => (tail.take i, tail.drop (i + 1))

theorem extractExpr_len (escape : Bool) (tail : Str) :
    (extractExpr escape tail).2.length ≤ tail.length := by
  unfold extractExpr; split <;> simp

/-! ### tokens -/

inductive Token where
  | word (s : Str)
  | stack (upr lwr : Str) (t : Str)
  | space | nbsp | tab | newParagraph | newColumn | wrapAtDimline
  deriving Repr, DecidableEq

/-! ### parse_stacking -/

/-- `peek_char` after the fix: "" stays "", control chars become blank.  `none` = "" -/
def ctl (c : Char) : Char := if c.toNat < 32 then ' ' else c

/-- `get_next_char` on the stacking scanner: (char as string ("" possible), escape, rest) -/
def stackNext : Str → (Str × Bool × Str)
  | [] => ([], false, [])                       -- not reachable under `has_data`
  | c :: r =>
    let c' := ctl c
    if c' = '\\' then
      match r with
      | [] => ([], true, [])                    -- peek() = "" at the end; consume(1) moves on
      | d :: r2 => ([ctl d], true, r2)
    else ([c'], false, r)

theorem stackNext_len (s : Str) (h : s ≠ []) : (stackNext s).2.2.length < s.length := by
  match s with
  | [] => exact absurd rfl h
  | c :: r =>
    unfold stackNext
    simp only
    split
    · split <;> simp
      omega
    · simp

def parseNumerator (s : Str) (word : Str) : Str × Str × Str :=
  match hs : s with
  | [] => (word, [], [])
  | _ :: _ =>
    let n := stackNext s
    if !n.2.1 ∧ (n.1 = ['^'] ∨ n.1 = ['/'] ∨ n.1 = ['#']) then (word, n.1, n.2.2)
    else parseNumerator n.2.2 (word ++ n.1)
termination_by s.length
decreasing_by
  have := stackNext_len s (by simp [hs])
  simp_all

def parseDenominator (s : Str) (word : Str) : Str :=
  match hs : s with
  | [] => word
  | _ :: _ =>
    let n := stackNext s
    parseDenominator n.2.2 (word ++ n.1)
termination_by s.length
decreasing_by
  have := stackNext_len s (by simp [hs])
  simp_all

def parseStacking (expr : Str) : Token :=
  let (num, ty, rest) := parseNumerator expr []
  let den := if ty.isEmpty then [] else parseDenominator rest []
  .stack num den ty

/-! ### parse_properties: returns the rest of the main scanner, or the Python error -/

def optTerminator (s : Str) : Str := match s with | ';' :: r => r | _ => s

theorem optTerminator_len (s : Str) : (optTerminator s).length ≤ s.length := by
  unfold optTerminator; split <;> simp

/-- `parse_float_value_or_factor` + `consume_optional_terminator`: `float(expr)` (without the
    "x") is evaluated when the expression is non-empty -/
def parseFloatOrFactor (tail : Str) : Except PyErr Str :=
  let m := matchFloat tail
  if m.1 = [] then .ok (optTerminator tail) else do
    pyFloat m.1
    .ok (optTerminator (dropX m.2))

def parseOblique (tail : Str) : Except PyErr Str :=
  let m := matchFloat tail
  if m.1 = [] then .ok (optTerminator tail) else do
    pyFloat m.1
    .ok (optTerminator m.2)

/-- `extract_int_expression` (`\d+`, ASCII digits modelled) then `int()`; after the fix a
    ValueError of `int()` (more than 4300 digits) is caught, so no error escapes -/
def parseIntCmd (tail : Str) : Except PyErr Str :=
  let ds := tail.takeWhile isDigit
  .ok (optTerminator (tail.drop ds.length))

/-- `parse_align`: get() (may be "") ; after the fix `char and char in "012"` -/
def parseAlign (tail : Str) : Except PyErr Str :=
  match tail with
  | [] => .ok []
  | _ :: r => .ok (optTerminator r)

/-- paragraph scanner: every `float(expr)` call that the loop performs, in order -/
def skipCommas (s : Str) : Str := s.dropWhile (· = ',')

/-- `parse_float_expr`: (expr, rest) ; commas are skipped only after a match -/
def paraFloatExpr (s : Str) : Str × Str :=
  let m := matchFloat s
  if m.1 = [] then ([], s) else (m.1, skipCommas m.2)

theorem skipCommas_len (s : Str) : (skipCommas s).length ≤ s.length := by
  unfold skipCommas
  induction s with
  | nil => simp
  | cons a t ih => simp only [List.dropWhile]; split <;> simp <;> omega

theorem paraFloatExpr_len (s : Str) : (paraFloatExpr s).2.length ≤ s.length := by
  unfold paraFloatExpr
  simp only
  split
  · simp
  · have := skipCommas_len (matchFloat s).2
    have := matchFloat_len s
    simp only
    omega

theorem paraFloatExpr_lt (s : Str) (h : (paraFloatExpr s).1.isEmpty = false) :
    (paraFloatExpr s).2.length < s.length := by
  unfold paraFloatExpr at *
  simp only at *
  by_cases hn : (matchFloat s).1 = []
  · simp [hn] at h
  · have h1 := skipCommas_len (matchFloat s).2
    have h2 := matchFloat_len s
    have h3 : 0 < (matchFloat s).1.length := List.length_pos_iff.mpr hn
    simp only [hn, if_false]
    omega

/-- the `t` sub-loop of paragraph properties (parse to end) -/
def paraTabs (s : Str) : Except PyErr Unit :=
  match hs : s with
  | [] => .ok ()
  | c :: r =>
    if c = 'r' ∨ c = 'c' then
      paraTabs (paraFloatExpr r).2               -- type_ + parse_float_expr(): no float() call
    else
      if he : (paraFloatExpr s).1.isEmpty then paraTabs r     -- consume the invalid letter
      else do
        pyFloat (paraFloatExpr s).1
        paraTabs (paraFloatExpr s).2
termination_by s.length
decreasing_by
  · have := paraFloatExpr_len r; simp_all; omega
  · simp_all
  · have := paraFloatExpr_lt s (by simpa using he); simp_all

def paraLoop (s : Str) : Except PyErr Unit :=
  match hs : s with
  | [] => .ok ()
  | c :: r =>
    if c = 'i' ∨ c = 'l' ∨ c = 'r' then
      let e := paraFloatExpr r
      if e.1.isEmpty then paraLoop e.2
      else do
        pyFloat e.1
        paraLoop e.2
    else if c = 'q' then
      paraLoop (skipCommas (r.drop 1))
    else if c = 't' then paraTabs r
    else paraLoop r
termination_by s.length
decreasing_by
  · have := paraFloatExpr_len r; simp_all; omega
  · have := paraFloatExpr_len r; simp_all; omega
  · have := skipCommas_len (r.drop 1); simp_all; omega
  · simp_all

/-- `parse_properties(cmd)`: `none` = UnknownCommand, `some (ok rest)`, `some (error e)` -/
def parseProperties (cmd : Char) (tail : Str) : Option (Except PyErr Str) :=
  if cmd ∈ "LlOoKk".toList then some (.ok tail)
  else if cmd = 'A' then some (parseAlign tail)
  else if cmd = 'C' ∨ cmd = 'c' then some (parseIntCmd tail)
  else if cmd = 'H' ∨ cmd = 'W' ∨ cmd = 'T' then some (parseFloatOrFactor tail)
  else if cmd = 'Q' then some (parseOblique tail)
  else if cmd = 'p' then
    let (expr, rest) := extractExpr false tail
    some (do paraLoop expr; .ok rest)
  else if cmd = 'f' ∨ cmd = 'F' then some (.ok (extractExpr false tail).2)
  else none

theorem parseProperties_len {cmd : Char} {tail r : Str}
    (h : parseProperties cmd tail = some (.ok r)) : r.length ≤ tail.length := by
  unfold parseProperties at h
  have hopt := optTerminator_len
  split at h
  · cases h; exact Nat.le_refl _
  split at h
  · unfold parseAlign at h
    split at h
    · cases h; simp
    · rename_i x r'
      cases h
      have := hopt r'; simp; omega
  split at h
  · unfold parseIntCmd at h
    cases h
    have := hopt (tail.drop (tail.takeWhile isDigit).length)
    simp only [List.length_drop] at this; omega
  split at h
  · unfold parseFloatOrFactor at h
    simp only at h
    split at h
    · cases h; exact hopt _
    · cases hp : pyFloat (matchFloat tail).1 with
      | error e => simp [hp, bind, Except.bind] at h
      | ok u =>
        simp [hp, bind, Except.bind] at h
        subst h
        have h1 := hopt (dropX (matchFloat tail).2)
        have h2 := dropX_len (matchFloat tail).2
        have h3 := matchFloat_len tail
        omega
  split at h
  · unfold parseOblique at h
    simp only at h
    split at h
    · cases h; exact hopt _
    · cases hp : pyFloat (matchFloat tail).1 with
      | error e => simp [hp, bind, Except.bind] at h
      | ok u =>
        simp [hp, bind, Except.bind] at h
        subst h
        have h1 := hopt (matchFloat tail).2
        have h3 := matchFloat_len tail
        omega
  split at h
  · simp only at h
    cases hp : paraLoop (extractExpr false tail).1 with
    | error e => simp [hp, bind, Except.bind] at h
    | ok u =>
      simp [hp, bind, Except.bind] at h
      subst h; exact extractExpr_len _ _
  split at h
  · cases h; exact extractExpr_len _ _
  · cases h

/-! ### MTextParser.parse : the token stream -/

/-- `word_and_token(word, token)` after `consume()` -/
def wordAnd (word : Str) (t : Token) : List Token :=
  if word.isEmpty then [t] else [.word word, t]

/-- `letter == "%" and peek(1) == "%"` and the lookup succeeds: (special letter, rest) -/
def specialAt (sp : Special) (letter : Char) (r1 : Str) : Option (Char × Str) :=
  if letter = '%' then
    match r1 with
    | p :: code :: r3 => if p = '%' then (sp code).map (fun l => (l, r3)) else none
    | _ => none
  else none

theorem specialAt_len {sp : Special} {letter l : Char} {r1 r3 : Str}
    (h : specialAt sp letter r1 = some (l, r3)) : r3.length < r1.length := by
  unfold specialAt at h
  split at h
  · split at h
    · split at h
      · cases hs : sp ‹Char› <;> simp_all
        omega
      · cases h
    · cases h
  · cases h

theorem extractExpr_len' (escape : Bool) (tail : Str) {e : Str × Str}
    (h : extractExpr escape tail = e) : e.2.length ≤ tail.length := by
  subst h; exact extractExpr_len _ _

/-- `next_token` + the generator loop merged: `rest` is the scanner tail, `word` the word being
    collected.  The lexicographic measure (rest, word) reflects the real control flow: a WORD is
    returned *without consuming* in front of a backslash or brace, and the next call, now with an
    empty word, consumes.  Special characters of the "%%c" kind are appended to the word; that
    they are neither blank nor brace nor control is a checked fact about the generated table
    (Props/C20 `special_letters_plain`). -/
def scan (sp : Special) (rest word : Str) : Except PyErr (List Token) :=
  match hr : rest with
  | [] => .ok (if word.isEmpty then [] else [.word word])
  | letter :: r1 =>
    if letter = '\\' then
      match hr1 : r1 with
      | [] =>
        -- peek(1) = "" and `"" in "\\{}"`: escape; letter = "" < " " becomes a blank
        .ok (wordAnd word .space)
      | d :: r2 =>
        if d = '\\' ∨ d = '{' ∨ d = '}' then
          scan sp r2 (word ++ [d])               -- escaped letter
        else if hw : word ≠ [] then
          have : 0 < word.length := List.length_pos_iff.mpr hw
          (fun ts => Token.word word :: ts) <$> scan sp (letter :: d :: r2) []
        else if d = '~' then (fun ts => Token.nbsp :: ts) <$> scan sp r2 []
        else if d = 'P' then (fun ts => Token.newParagraph :: ts) <$> scan sp r2 []
        else if d = 'N' then (fun ts => Token.newColumn :: ts) <$> scan sp r2 []
        else if d = 'X' then (fun ts => Token.wrapAtDimline :: ts) <$> scan sp r2 []
        else if d = 'S' then
          match he : extractExpr true r2 with
          | (expr, r3) =>
            have : r3.length ≤ r2.length := extractExpr_len' _ _ he
            (fun ts => parseStacking expr :: ts) <$> scan sp r3 []
        else
          match hp : parseProperties d r2 with
          | none => scan sp r2 (word ++ ['\\', d])   -- UnknownCommand: verbatim
          | some (.error e) => .error e
          | some (.ok r3) =>
            have : r3.length ≤ r2.length := parseProperties_len hp
            scan sp r3 word
    else
      -- control chars (caret decoding already done)
      if letter = '\t' then (fun ts => wordAnd word .tab ++ ts) <$> scan sp r1 []
      else if letter = '\n' then (fun ts => wordAnd word .newParagraph ++ ts) <$> scan sp r1 []
      else if letter.toNat < 32 then (fun ts => wordAnd word .space ++ ts) <$> scan sp r1 []
      else
        match hs : specialAt sp letter r1 with
        | some (l, r3) =>
          have : r3.length < r1.length := specialAt_len hs
          scan sp r3 (word ++ [l])
        | none =>
          if letter = ' ' then (fun ts => wordAnd word .space ++ ts) <$> scan sp r1 []
          else if letter = '{' ∨ letter = '}' then
            if hw : word ≠ [] then
              have : 0 < word.length := List.length_pos_iff.mpr hw
              (fun ts => Token.word word :: ts) <$> scan sp (letter :: r1) []
            else scan sp r1 []
          else scan sp r1 (word ++ [letter])
termination_by (rest.length, word.length)
decreasing_by
  all_goals simp_wf
  all_goals subst_vars
  all_goals first
    | (apply Prod.Lex.left; show _ < _; (try simp only [List.length_cons]); omega)
    | (apply Prod.Lex.right; show _ < _; (try simp only [List.length_cons, List.length_nil]); omega)

def parse (sp : Special) (text : Str) : Except PyErr (List Token) := scan sp (caretDecode text) []

/-- `plain_mtext(text, split=True)` on a token list, `tabsize = 4` -/
def plainOfTokens : List Token → Str → List Str
  | [], para => if para.isEmpty then [] else [para]
  | t :: ts, para =>
    match t with
    | .word w => plainOfTokens ts (para ++ w)
    | .space | .nbsp => plainOfTokens ts (para ++ [' '])
    | .newParagraph | .newColumn => para :: plainOfTokens ts []
    | .tab => plainOfTokens ts (para ++ "    ".toList)
    | .stack u l d => plainOfTokens ts (para ++ u ++ d ++ l)
    | .wrapAtDimline => plainOfTokens ts para

def plainMText (sp : Special) (text : Str) : Except PyErr (List Str) :=
  (fun ts => plainOfTokens ts []) <$> parse sp text

end EzdxfVerif.Text

/-
C08  recover's own DXF version decision: recover.py `Recover.load_section_dict` (HEADER = the merged HEADER sections, or an
empty one, plus the header variables rescued from the tags outside of all sections) and `_detect_dxf_version`: the value
behind the FIRST `(9, $ACADVER)` tag, stripped, if it looks like `AC` + four digits - DXF R12 otherwise.
Core Lean only.
-/
import EzdxfVerif.Model.Readers
import EzdxfVerif.Model.ReadersDetect

namespace EzdxfVerif.Readers

/-- `re.fullmatch(r"AC[0-9]{4}", s)` -/
def isAcVersion (s : String) : Bool :=
  match s.toList with
  | [a, c, d1, d2, d3, d4] => a == 'A' && c == 'C' && [d1, d2, d3, d4].all (fun d => decide ('0' ≤ d) && decide (d ≤ '9'))
  | _ => false

/-- `_detect_dxf_version(header)`; `nxt` = `next_is_dxf_version`; `strip` = `str.strip()` -/
def recVersionLoop (strip : String → String) : List Tag → Bool → String
  | [], _ => "AC1009"
  | t :: r, nxt =>
    if nxt then (if isAcVersion (strip t.val) then strip t.val else "AC1009")
    else if t = ⟨9, "$ACADVER"⟩ then recVersionLoop strip r true
    else recVersionLoop strip r false

/-- `rescue_orphaned_header_vars`: a code-9 tag outside of all sections and the tag behind it -/
def rescueOrphans : List Tag → Option Tag → List Tag
  | [], _ => []
  | t :: r, vn =>
    if t.code = 9 then rescueOrphans r (some t)
    else match vn with
      | some n => n :: t :: rescueOrphans r none
      | none => rescueOrphans r none

/-- the HEADER section `load_section_dict` hands to `_detect_dxf_version` -/
def recoverHeader (cfg : Cfg) (f : List Tag) : List Tag :=
  let st := (compileB cfg (asciiLoad f)).foldl rStep ⟨[], [], false, []⟩
  let hdr := match dictGet (mergeSections [] st.sections.reverse) "HEADER" with
    | some h => h
    | none => [tSECTION, ⟨2, "HEADER"⟩]
  hdr ++ rescueOrphans st.orphans none

/-- `Recover.dxfversion` after `load_section_dict` -/
def recoverVersion (cfg : Cfg) (f : List Tag) : String := recVersionLoop cfg.strip (recoverHeader cfg f) false

end EzdxfVerif.Readers

/-
Geometry payload codecs of C01 (DESIGN.md section 7, C01, "Session 3"): the hand written parts of
`export_entity` / `load_dxf_attribs` that keep data outside the DXF namespace.

* `entities/spline.py`          Spline.export_entity / export_spline_data / load_spline_data
* `entities/mesh.py`            Mesh.export_mesh_data / load_mesh_data, FaceList / EdgeArray,
                                create_face_list, _fixed_crease_values
* `entities/mtext.py`           export_mtext_content / MText.load_mtext_content (chunks 3 … 3 1)
* `entities/dictionary.py`      Dictionary.export_dict / load_dict (3 / 350|360 pairs)
* `entities/boundary_paths.py`  BoundaryPaths / PolylinePath / EdgePath / Line-, Arc-, Ellipse-,
                                SplineEdge export_dxf / load_tags, source boundary objects (97/330)
* `entities/polygon.py`         DXFPolygon.load_paths / load_seeds / export_seeds, `entities/pattern.py`
* `entities/leader.py`, `entities/image.py`, `entities/mline.py` vertex lists

Core Lean only.  The tag level is the compiled tag level of `Model/Schema.lean` (a vertex is one tag),
doubles are opaque bit patterns, strings are lists of code points.  Every loader is written as the
loop of the source (a left fold over the tags with the branches of the `if code == …` chain); the
characterisation by group code (`…_eq_filters`) is proved in `Lemmas/Payload.lean`.
-/
import EzdxfVerif.Model.Schema
import EzdxfVerif.Model.Text

namespace EzdxfVerif.Payload
open EzdxfVerif.Schema

abbrev P3 := Nat × Nat × Nat
abbrev P2 := Nat × Nat

/-! ### value access as the Python code does it (`value[0]`, `Vec2(value)`, `Vec3(value)`, plain use) -/

def intOf : Val → Int
  | .int v => v
  | _ => 0

/-- `Vec3(value)`: a 2-component vertex gets z = 0.0 -/
def p3Of : Val → P3
  | .pt x y z => (x, y, z)
  | .pt2 x y => (x, y, 0)
  | _ => (0, 0, 0)

/-- `Vec2(value)` / `value[0], value[1]` -/
def p2Of : Val → P2
  | .pt x y _ => (x, y)
  | .pt2 x y => (x, y)
  | _ => (0, 0)

def tagD (c : Int) (b : Nat) : Tag := ⟨c, .dbl b⟩
def tagI (c : Int) (v : Int) : Tag := ⟨c, .int v⟩
def tagN (c : Int) (n : Nat) : Tag := ⟨c, .int (Int.ofNat n)⟩
def tagS (c : Int) (s : List Nat) : Tag := ⟨c, .str s⟩
def tagP3 (c : Int) (p : P3) : Tag := ⟨c, .pt p.1 p.2.1 p.2.2⟩
/-- `write_vertex(code, (x, y))` / `write_tag2(code, x); write_tag2(code + 10, y)`: one compiled 2D vertex -/
def tagP2 (c : Int) (p : P2) : Tag := ⟨c, .pt2 p.1 p.2⟩

/-! ### SPLINE -/

structure Spline where
  knots : List Nat
  weights : List Nat
  ctrl : List P3
  fit : List P3
  deriving DecidableEq, Repr

/-- bit pattern of the double 1e-12 (`abs_tol` of `Vec3.isclose`) -/
def tinyBits : Nat := 0x3D719799812DEA11

/-- `math.isclose(0.0, x, rel_tol=1e-9, abs_tol=1e-12)` on the bit pattern of `x`: |x| ≤ 1e-12
    (false for NaN and infinities, whose patterns are above every finite one) -/
def tiny (b : Nat) : Bool := decide (b % 2 ^ 63 ≤ tinyBits)

/-- `NULLVEC.isclose(value)` -/
def isNullVec : Val → Bool
  | .pt x y z => tiny x && tiny y && tiny z
  | .pt2 x y => tiny x && tiny y
  | _ => false

/-- one round of the loop in `Spline.load_spline_data`; the second component are the yielded tags -/
def splineStep (σ : Spline × List Tag) (t : Tag) : Spline × List Tag :=
  if t.code == 10 then ({ σ.1 with ctrl := σ.1.ctrl ++ [p3Of t.val] }, σ.2)
  else if t.code == 11 then ({ σ.1 with fit := σ.1.fit ++ [p3Of t.val] }, σ.2)
  else if t.code == 40 then ({ σ.1 with knots := σ.1.knots ++ [dblOf t.val] }, σ.2)
  else if t.code == 41 then ({ σ.1 with weights := σ.1.weights ++ [dblOf t.val] }, σ.2)
  else if (t.code == 12 || t.code == 13) && isNullVec t.val then σ
  else (σ.1, σ.2 ++ [t])

/-- `load_spline_data(tags)`: (payload, remaining tags handed to `fast_load_dxfattribs`) -/
def loadSpline (tags : List Tag) : Spline × List Tag :=
  tags.foldl splineStep (⟨[], [], [], []⟩, [])

/-- `write_tag2(72, knot_count()) …` -/
def splineCounts (d : Spline) : List Tag :=
  [tagN 72 d.knots.length, tagN 73 d.ctrl.length, tagN 74 d.fit.length]

/-- `export_spline_data` -/
def exportSplineData (d : Spline) : List Tag :=
  d.knots.map (tagD 40) ++ d.weights.map (tagD 41) ++ d.ctrl.map (tagP3 10) ++ d.fit.map (tagP3 11)

/-- the AcDbSpline subclass as `export_entity` writes it; `a1`, `a2` are the tags of the two
    `export_dxf_attribs` calls (with the subclass marker in front of `a1`) -/
def exportSpline (a1 a2 : List Tag) (d : Spline) : List Tag :=
  a1 ++ splineCounts d ++ a2 ++ exportSplineData d

/-- a tag that is not spline payload -/
def splineFree (t : Tag) : Bool := !(t.code == 10 || t.code == 11 || t.code == 40 || t.code == 41)

/-- not an invalid (null) tangent, which the loader throws away -/
def splineKeeps (t : Tag) : Bool := !((t.code == 12 || t.code == 13) && isNullVec t.val)

/-! ### MESH -/

structure Mesh where
  verts : List P3
  faces : List (List Int)     -- vertex indices of each face
  edges : List Int            -- `EdgeArray.values`: two vertex indices per edge, flat
  creases : List Nat          -- `array("f")`: float32 values, as the bit patterns of their double value
  deriving DecidableEq, Repr

/-- `Tags.tag_index(code)` + the split `del tags[idx:…]` works on: tags before the first tag with
    that code, tags after it; `none` = DXFValueError -/
def cutAt (c : Int) : List Tag → Option (List Tag × List Tag)
  | [] => none
  | t :: r =>
    if t.code == c then some ([], r)
    else match cutAt c r with
      | some (b, a) => some (t :: b, a)
      | none => none

/-- `collect_consecutive_tags(codes=(c,), start)` on the tags from `start` on -/
def run (c : Int) (tags : List Tag) : List Tag := tags.takeWhile (·.code == c)

structure FaceSt where
  counter : Int
  face : List Int
  acc : List (List Int)

/-- one round of the loop in `create_face_list` -/
def faceStep (σ : FaceSt) (t : Tag) : FaceSt :=
  if σ.counter == 0 then
    -- leading counter tag
    { counter := intOf t.val, face := [], acc := if σ.face = [] then σ.acc else σ.acc ++ [σ.face] }
  else
    { σ with counter := σ.counter - 1, face := σ.face ++ [intOf t.val] }

def FaceSt.finish (σ : FaceSt) : List (List Int) := if σ.face = [] then σ.acc else σ.acc ++ [σ.face]

def createFaceList (tags : List Tag) : List (List Int) := (tags.foldl faceStep ⟨0, [], []⟩).finish

/-- `FaceList.tag_count()` -/
def tagCount (faces : List (List Int)) : Nat := faces.length + (faces.map List.length).sum

/-- `Mesh.load_mesh_data`: payload and the tags that stay in the subclass; `none` = DXFStructureError
    ("MESH without … count").  `f32` is the rounding of `array.array("f", …)`. -/
def loadMesh (f32 : Nat → Nat) (tags : List Tag) : Option (Mesh × List Tag) :=
  match cutAt 92 tags with
  | none => none
  | some (b1, a1) =>
    let vs := run 10 a1
    let t1 := b1 ++ a1.drop vs.length
    match cutAt 93 t1 with
    | none => none
    | some (b2, a2) =>
      let faces := createFaceList (run 90 a2)
      let t2 := b2 ++ a2.drop (tagCount faces)
      match cutAt 94 t2 with
      | none => none
      | some (b3, a3) =>
        let es := (run 90 a3).map (fun t => intOf t.val)
        let t3 := b3 ++ a3.drop es.length
        match cutAt 95 t3 with
        | none => none
        | some (b4, a4) =>
          let cs := (run 140 a4).map (fun t => f32 (dblOf t.val))
          some (⟨vs.map (fun t => p3Of t.val), faces, es, cs⟩, b4 ++ a4.drop cs.length)

/-- `_fixed_crease_values`: as many crease values as edges -/
def fixCreases (nEdges : Nat) (cs : List Nat) : List Nat :=
  cs.take nEdges ++ List.replicate (nEdges - cs.length) 0

def faceTags (f : List Int) : List Tag := tagN 90 f.length :: f.map (tagI 90)

/-- `export_mesh_data` + `export_override_data` -/
def exportMesh (m : Mesh) : List Tag :=
  tagN 92 m.verts.length :: m.verts.map (tagP3 10) ++
  (tagN 93 (tagCount m.faces) :: m.faces.flatMap faceTags ++
  (tagN 94 (m.edges.length / 2) :: m.edges.map (tagI 90) ++
  (tagN 95 m.creases.length :: (fixCreases (m.edges.length / 2) m.creases).map (tagD 140) ++
  [tagN 90 0])))

def meshFree (t : Tag) : Bool := !(t.code == 92 || t.code == 93 || t.code == 94 || t.code == 95)

/-! ### MTEXT content -/

abbrev Str := Text.Str

/-- `escape_dxf_line_endings`: `text.replace("\r", "").replace("\n", "\\P")` -/
def escapeLE (s : Str) : Str :=
  (s.filter (· != '\r')).flatMap (fun c => if c = '\n' then ['\\', 'P'] else [c])

def strTag (c : Int) (s : Str) : Tag := ⟨c, .str (s.map Char.toNat)⟩
def charsOf (v : Val) : Str := (strOf v).map Char.ofNat

/-- the `while len(str_chunks) > 1` loop of `export_mtext_content` -/
def mtextTags : List Str → List Tag
  | [] => [strTag 1 []]
  | [c] => [strTag 1 c]
  | c :: d :: rest => strTag 3 c :: mtextTags (d :: rest)

def exportMText (text : Str) : List Tag :=
  mtextTags (Text.splitMText 250 (by decide) (escapeLE text))

structure MTextSt where
  tail : Str
  parts : List Str
  out : List Tag

def mtextStep (σ : MTextSt) (t : Tag) : MTextSt :=
  if t.code == 1 then { σ with tail := charsOf t.val }
  else if t.code == 3 then { σ with parts := σ.parts ++ [charsOf t.val] }
  else { σ with out := σ.out ++ [t] }

/-- `MText.load_mtext_content`: (text, yielded tags) -/
def loadMText (tags : List Tag) : Str × List Tag :=
  let σ := tags.foldl mtextStep ⟨[], [], []⟩
  (escapeLE (σ.parts ++ [σ.tail]).flatten, σ.out)

def mtextFree (t : Tag) : Bool := !(t.code == 1 || t.code == 3)

/-! ### DICTIONARY -/

abbrev DItems := List (List Nat × List Nat)     -- (key, handle) in insertion order

structure Dict where
  valueCode : Int           -- `_value_code`: 350 or 360
  items : DItems
  deriving DecidableEq, Repr

/-- `self._data[key] = handle` on an insertion ordered `dict` -/
def dictSet : DItems → List Nat → List Nat → DItems
  | [], k, h => [(k, h)]
  | (k', h') :: rest, k, h => if k' = k then (k', h) :: rest else (k', h') :: dictSet rest k h

structure DictSt where
  handle : Option (List Nat)
  key : Option (List Nat)
  vc : Int
  items : DItems

def dictStep (σ : DictSt) (t : Tag) : DictSt :=
  let σ1 : DictSt :=
    if t.code == 350 || t.code == 360 then { σ with vc := t.code, handle := some (strOf t.val) }
    else if t.code == 3 then { σ with key := some (strOf t.val) }
    else σ
  -- `if dict_key is not None and entry_handle is not None` (fix C01-F11; `if dict_key and entry_handle` dropped
  -- entries with an empty key and gave their handle to the next key)
  if σ1.key.isSome && σ1.handle.isSome then
    { σ1 with items := dictSet σ1.items (σ1.key.getD []) (σ1.handle.getD []), handle := none, key := none }
  else σ1

/-- `Dictionary.load_dict` -/
def loadDict (tags : List Tag) : Dict :=
  let σ := tags.foldl dictStep ⟨none, none, 350, []⟩
  ⟨σ.vc, σ.items⟩

def exportDict (d : Dict) : List Tag := d.items.flatMap (fun kv => [tagS 3 kv.1, tagS d.valueCode kv.2])

def dictFree (t : Tag) : Bool := !(t.code == 3 || t.code == 350 || t.code == 360)

/-! ### HATCH / MPOLYGON boundary paths -/

/-- bit patterns of 1.0 -/
def one : Nat := 0x3FF0000000000000

inductive Edge where
  | line (s e : P2)
  | arc (c : P2) (r sa ea : Nat) (ccw : Bool)
  | ellipse (c maj : P2) (ratio sa ea : Nat) (ccw : Bool)
  | spline (deg rat per : Int) (knots : List Nat) (ctrl : List P2) (weights : List Nat) (fit : List P2)
      (st et : Option P2)
  deriving DecidableEq, Repr

inductive BPath where
  /-- `PolylinePath`: path_type_flags, is_closed, vertices (x, y, bulge), source_boundary_objects -/
  | poly (flags : Int) (closed : Int) (verts : List (Nat × Nat × Nat)) (src : List (List Nat))
  /-- `EdgePath` -/
  | edges (flags : Int) (es : List Edge) (src : List (List Nat))
  deriving DecidableEq, Repr

/-- `group_tags(tags, splitcode)`: (tags in front of the first split tag, groups) -/
def groupAux (c : Int) : List Tag → List Tag × List (List Tag)
  | [] => ([], [])
  | t :: r =>
    let res := groupAux c r
    if t.code == c then ([], (t :: res.1) :: res.2) else (t :: res.1, res.2)

/-- the tags in front of the first split tag are skipped -/
def groupTags (c : Int) (tags : List Tag) : List (List Tag) := (groupAux c tags).2

/-- `pop_source_boundary_objects_tags` on the reversed tag list: (remaining reversed tags, handles).
    The popped 330 tags are gone even when no 97 tag is found. -/
def popRev : List Tag → List (List Nat) → List Tag × List (List Nat)
  | [], _ => ([], [])
  | t :: r, acc =>
    if t.code == 330 then popRev r (strOf t.val :: acc)
    else if t.code == 97 then (r, acc)
    else (t :: r, [])

def popSrc (tags : List Tag) : List Tag × List (List Nat) :=
  let res := popRev tags.reverse []
  (res.1.reverse, res.2)

/-- `export_source_boundary_objects` -/
def exportSrc (hs : List (List Nat)) : List Tag := tagN 97 hs.length :: hs.map (tagS 330)

/-! #### edges -/

structure LineSt where
  s : P2
  e : P2

def lineStep (σ : LineSt) (t : Tag) : LineSt :=
  if t.code == 10 then { σ with s := p2Of t.val }
  else if t.code == 11 then { σ with e := p2Of t.val }
  else σ

def loadLineEdge (tags : List Tag) : Edge :=
  let σ := tags.foldl lineStep ⟨(0, 0), (0, 0)⟩
  .line σ.s σ.e

/-- Python `bool(value)` of a tag value -/
def truthVal : Val → Bool
  | .int v => v != 0
  | .dbl b => !isZero b
  | .str s => !s.isEmpty
  | .bin d => !d.isEmpty
  | _ => true

structure ArcSt where
  c : P2
  maj : P2
  r : Nat
  s : Nat
  e : Nat
  ccw : Bool

def arcStep (σ : ArcSt) (t : Tag) : ArcSt :=
  if t.code == 10 then { σ with c := p2Of t.val }
  else if t.code == 40 then { σ with r := dblOf t.val }
  else if t.code == 50 then { σ with s := dblOf t.val }
  else if t.code == 51 then { σ with e := dblOf t.val }
  else if t.code == 73 then { σ with ccw := truthVal t.val }
  else σ

/-- `comp x` = the double `360.0 - x`.  Clockwise arcs are stored with complementary, swapped angles. -/
def loadArcEdge (comp : Nat → Nat) (tags : List Tag) : Edge :=
  let σ := tags.foldl arcStep ⟨(0, 0), (one, 0), one, 0, 0, true⟩
  if σ.ccw then .arc σ.c σ.r σ.s σ.e true else .arc σ.c σ.r (comp σ.e) (comp σ.s) false

def ellipseStep (σ : ArcSt) (t : Tag) : ArcSt :=
  if t.code == 10 then { σ with c := p2Of t.val }
  else if t.code == 11 then { σ with maj := p2Of t.val }
  else if t.code == 40 then { σ with r := dblOf t.val }
  else if t.code == 50 then { σ with s := dblOf t.val }
  else if t.code == 51 then { σ with e := dblOf t.val }
  else if t.code == 73 then { σ with ccw := truthVal t.val }
  else σ

def loadEllipseEdge (comp : Nat → Nat) (tags : List Tag) : Edge :=
  let σ := tags.foldl ellipseStep ⟨(0, 0), (one, 0), one, 0, 0, true⟩
  if σ.ccw then .ellipse σ.c σ.maj σ.r σ.s σ.e true
  else .ellipse σ.c σ.maj σ.r (comp σ.e) (comp σ.s) false

structure SplSt where
  deg : Int
  rat : Int
  per : Int
  knots : List Nat
  ctrl : List P2
  weights : List Nat
  fit : List P2
  st : Option P2
  et : Option P2

def splStep (σ : SplSt) (t : Tag) : SplSt :=
  if t.code == 94 then { σ with deg := intOf t.val }
  else if t.code == 73 then { σ with rat := intOf t.val }
  else if t.code == 74 then { σ with per := intOf t.val }
  else if t.code == 40 then { σ with knots := σ.knots ++ [dblOf t.val] }
  else if t.code == 42 then { σ with weights := σ.weights ++ [dblOf t.val] }
  else if t.code == 10 then { σ with ctrl := σ.ctrl ++ [p2Of t.val] }
  else if t.code == 11 then { σ with fit := σ.fit ++ [p2Of t.val] }
  else if t.code == 12 then { σ with st := some (p2Of t.val) }
  else if t.code == 13 then { σ with et := some (p2Of t.val) }
  else σ

def SplSt.edge (σ : SplSt) : Edge := .spline σ.deg σ.rat σ.per σ.knots σ.ctrl σ.weights σ.fit σ.st σ.et

def loadSplineEdge (tags : List Tag) : Edge :=
  (tags.foldl splStep ⟨3, 0, 0, [], [], [], [], none, none⟩).edge

/-- `EdgePath.load_tags` after the source boundary objects are popped: one edge per group that starts
    with a (72, edge type) tag, edge types outside 1..4 are skipped -/
def loadEdgeGroup (comp : Nat → Nat) (g : List Tag) : List Edge :=
  match g with
  | [] => []
  | t :: body =>
    let ty := intOf t.val
    if ty == 1 then [loadLineEdge body]
    else if ty == 2 then [loadArcEdge comp body]
    else if ty == 3 then [loadEllipseEdge comp body]
    else if ty == 4 then [loadSplineEdge body]
    else []

def loadEdges (comp : Nat → Nat) (tags : List Tag) : List Edge :=
  (groupTags 72 tags).flatMap (loadEdgeGroup comp)

/-- `points[1] - points[0]` etc. of `set_required_tangents` (`sub a b` = the Vec2 `a - b`) -/
def reqTangents (sub : P2 → P2 → P2) (ctrl : List P2) (st et : Option P2) : Option P2 × Option P2 :=
  match ctrl with
  | p0 :: p1 :: rest =>
    let last := (p1 :: rest).getLast?.getD p1
    let prev := (p0 :: p1 :: rest).dropLast.getLast?.getD p0
    (some (st.getD (sub p1 p0)), some (et.getD (sub last prev)))
  | _ => (st, et)

def boolInt (b : Bool) : Int := if b then 1 else 0

/-- the spline edge as it is after `export_dxf` touched it (`rational` recomputed, required tangents set) -/
def canonSpline (sub : P2 → P2 → P2) (deg per : Int) (knots : List Nat) (ctrl : List P2)
    (weights : List Nat) (fit : List P2) (st et : Option P2) : Edge :=
  let tg := if fit = [] then (st, et) else reqTangents sub ctrl st et
  .spline deg (boolInt (weights != [])) per knots ctrl weights fit tg.1 tg.2

def optTag (c : Int) : Option P2 → List Tag
  | some p => [tagP2 c p]
  | none => []

/-- the tags behind the (72, type) tag -/
def edgeBody (comp : Nat → Nat) (sub : P2 → P2 → P2) (r2010 : Bool) : Edge → List Tag
  | .line s e => [tagP2 10 s, tagP2 11 e]
  | .arc c r sa ea ccw =>
    [tagP2 10 c, tagD 40 r, tagD 50 (if ccw then sa else comp ea), tagD 51 (if ccw then ea else comp sa),
     tagI 73 (boolInt ccw)]
  | .ellipse c maj ratio sa ea ccw =>
    [tagP2 10 c, tagP2 11 maj, tagD 40 ratio, tagD 50 (if ccw then sa else comp ea),
     tagD 51 (if ccw then ea else comp sa), tagI 73 (boolInt ccw)]
  | .spline deg _ per knots ctrl weights fit st et =>
    let tg := if fit = [] then (st, et) else reqTangents sub ctrl st et
    [tagI 94 deg, tagI 73 (boolInt (weights != [])), tagI 74 per, tagN 95 knots.length, tagN 96 ctrl.length] ++
    knots.map (tagD 40) ++
    (if weights != [] then (ctrl.zip weights).flatMap (fun pw => [tagP2 10 pw.1, tagD 42 pw.2])
     else ctrl.map (tagP2 10)) ++
    (if fit != [] then tagN 97 fit.length :: fit.map (tagP2 11) else if r2010 then [tagN 97 0] else []) ++
    optTag 12 tg.1 ++ optTag 13 tg.2

def edgeType : Edge → Int
  | .line .. => 1 | .arc .. => 2 | .ellipse .. => 3 | .spline .. => 4

def exportEdge (comp : Nat → Nat) (sub : P2 → P2 → P2) (r2010 : Bool) (e : Edge) : List Tag :=
  tagI 72 (edgeType e) :: edgeBody comp sub r2010 e

/-- `SplineEdge.export_dxf` raises DXFValueError: weights / control points mismatch, no knot values -/
def edgeExportOK : Edge → Bool
  | .spline _ _ _ knots ctrl weights _ _ _ => (weights == [] || weights.length == ctrl.length) && knots != []
  | _ => true

/-- what comes back: clockwise angles are complemented twice, spline edges as `export_dxf` left them -/
def canonEdge (comp : Nat → Nat) (sub : P2 → P2 → P2) : Edge → Edge
  | .line s e => .line s e
  | .arc c r sa ea ccw => if ccw then .arc c r sa ea true else .arc c r (comp (comp sa)) (comp (comp ea)) false
  | .ellipse c maj ratio sa ea ccw =>
    if ccw then .ellipse c maj ratio sa ea true else .ellipse c maj ratio (comp (comp sa)) (comp (comp ea)) false
  | .spline deg _ per knots ctrl weights fit st et => canonSpline sub deg per knots ctrl weights fit st et

/-! #### paths -/

structure PolySt where
  flags : Int
  closed : Int
  verts : List (Nat × Nat × Nat)
  err : Bool                      -- IndexError: a bulge tag (42) in front of the first vertex

def polyStep (σ : PolySt) (t : Tag) : PolySt :=
  if t.code == 10 then { σ with verts := σ.verts ++ [((p2Of t.val).1, (p2Of t.val).2, 0)] }
  else if t.code == 42 then
    match σ.verts.getLast? with
    | some (x, y, _) => { σ with verts := σ.verts.dropLast ++ [(x, y, dblOf t.val)] }
    | none => { σ with err := true }
  else if t.code == 73 then { σ with closed := intOf t.val }
  else if t.code == 92 then { σ with flags := intOf t.val }
  else σ

/-- `bool(path_type_flags & 2)` (two's complement for negative values = Euclidean division) -/
def polyBit (flags : Int) : Bool := flags / 2 % 2 == 1

/-- one group of `BoundaryPaths.load_tags`; `none` = an exception escapes (IndexError) -/
def loadPath (comp : Nat → Nat) (g : List Tag) : Option BPath :=
  match g with
  | [] => none
  | t :: _ =>
    let flags := intOf t.val
    let ps := popSrc g
    if polyBit flags then
      -- `PolylinePath.__init__`: path_type_flags = BOUNDARY_PATH_DEFAULT (0), is_closed = False
      let σ := ps.1.foldl polyStep ⟨0, 0, [], false⟩
      if σ.err then none else some (.poly flags σ.closed σ.verts ps.2)
    else some (.edges flags (loadEdges comp ps.1) ps.2)

/-- `BoundaryPaths.load_tags` -/
def loadPaths (comp : Nat → Nat) (tags : List Tag) : Option (List BPath) :=
  (groupTags 92 tags).mapM (loadPath comp)

def hasBulge (verts : List (Nat × Nat × Nat)) : Bool := verts.any (fun v => !isZero v.2.2)

/-- `PolylinePath.export_dxf` / `EdgePath.export_dxf`; `hatch` = dxftype "HATCH", else "MPOLYGON" -/
def exportPath (comp : Nat → Nat) (sub : P2 → P2 → P2) (r2010 hatch : Bool) : BPath → List Tag
  | .poly flags closed verts src =>
    let hb := hasBulge verts
    tagI 92 flags ::
    (if hatch then [tagI 72 (boolInt hb), tagI 73 closed] else [tagI 73 closed, tagI 72 (boolInt hb)]) ++
    [tagN 93 verts.length] ++
    verts.flatMap (fun v => if hb then [tagP2 10 (v.1, v.2.1), tagD 42 v.2.2] else [tagP2 10 (v.1, v.2.1)]) ++
    (if hatch then exportSrc src else [])
  | .edges flags es src =>
    tagI 92 flags :: tagN 93 es.length :: es.flatMap (exportEdge comp sub r2010) ++ exportSrc src

def exportPaths (comp : Nat → Nat) (sub : P2 → P2 → P2) (r2010 hatch : Bool) (ps : List BPath) : List Tag :=
  ps.flatMap (exportPath comp sub r2010 hatch)

def canonPath (comp : Nat → Nat) (sub : P2 → P2 → P2) (hatch : Bool) : BPath → BPath
  | .poly flags closed verts src =>
    .poly flags closed (if hasBulge verts then verts else verts.map (fun v => (v.1, v.2.1, 0)))
      (if hatch then src else [])
  | .edges flags es src => .edges flags (es.map (canonEdge comp sub)) src

/-- the polyline bit of `path_type_flags` decides which loader reads the path -/
def pathOK : BPath → Bool
  | .poly flags _ _ _ => polyBit flags
  | .edges flags es _ => !polyBit flags && es.all edgeExportOK

/-- the group codes the path writers use (all of them must be in `PATH_CODES` of `entities/polygon.py`, which is
    regenerated from the source as `Gen.PayloadTables.pathCodes` and handed to `loadHatchPaths` as `codes`) -/
def pathCodes : List Int := [10, 11, 12, 13, 40, 42, 50, 51, 72, 73, 74, 92, 93, 94, 95, 96, 97, 330]

/-- `DXFPolygon.load_paths`: (paths, remaining tags); `none` = DXFStructureError (no 91 tag), an
    AssertionError (the path data does not start with a 92 tag) or an exception of a path loader.
    `old` are the paths the entity had before (kept when the file holds no path data); `codes` = `PATH_CODES`. -/
def loadHatchPaths (codes : List Int) (comp : Nat → Nat) (old : List BPath) (tags : List Tag) :
    Option (List BPath × List Tag) :=
  match cutAt 91 tags with
  | none => none
  | some (b, a) =>
    let pt := a.takeWhile (fun t => codes.contains t.code)
    let rest := b ++ a.drop pt.length
    match pt with
    | [] => some (old, rest)
    | t :: _ =>
      if t.code == 92 then (loadPaths comp pt).map (fun ps => (ps, rest)) else none

/-! #### seed points and pattern lines -/

/-- `DXFPolygon.export_seeds` -/
def exportSeeds (seeds : List P2) : List Tag := tagN 98 seeds.length :: seeds.map (tagP2 10)

/-- `Hatch.load_seeds`: `collect_consecutive_tags({98, 10, 20}, start_index)` includes the 98 tag, the
    `del` removes one tag more than collected (the tag behind the seed points goes as well) -/
def loadSeeds (old : List P2) (tags : List Tag) : List P2 × List Tag :=
  match cutAt 98 tags with
  | none => (old, tags)
  | some (b, a) =>
    let sd := a.takeWhile (fun t => t.code == 98 || t.code == 10 || t.code == 20)
    (((sd.filter (·.code == 10)).map (fun t => p2Of t.val)), b ++ a.drop (sd.length + 1))

structure PLine where
  angle : Nat
  base : P2
  offset : P2
  dashes : List Nat
  deriving DecidableEq, Repr

structure PLSt where
  a : Nat
  bx : Nat
  by_ : Nat
  ox : Nat
  oy : Nat
  dashes : List Nat

def plStep (σ : PLSt) (t : Tag) : PLSt :=
  if t.code == 49 then { σ with dashes := σ.dashes ++ [dblOf t.val] }
  else if t.code == 53 then { σ with a := dblOf t.val }
  else if t.code == 43 then { σ with bx := dblOf t.val }
  else if t.code == 44 then { σ with by_ := dblOf t.val }
  else if t.code == 45 then { σ with ox := dblOf t.val }
  else if t.code == 46 then { σ with oy := dblOf t.val }
  else σ

/-- `PatternLine.load_tags` -/
def loadPLine (tags : List Tag) : PLine :=
  let σ := tags.foldl plStep ⟨0, 0, 0, 0, 0, []⟩
  ⟨σ.a, (σ.bx, σ.by_), (σ.ox, σ.oy), σ.dashes⟩

/-- `Pattern.load_tags` -/
def loadPattern (tags : List Tag) : List PLine := (groupTags 53 tags).map loadPLine

/-- `DXFPolygon.load_pattern`: (pattern lines or `none` when there is no 78 tag, remaining tags);
    `codes` = `PATTERN_DEFINITION_LINE_CODES` -/
def loadHatchPattern (codes : List Int) (tags : List Tag) : Option (List PLine) × List Tag :=
  match cutAt 78 tags with
  | none => (none, tags)
  | some (b, a) =>
    let pt := a.takeWhile (fun t => codes.contains t.code)
    (some (loadPattern pt), b ++ a.drop pt.length)

/-- the group codes `PatternLine.export_dxf` uses -/
def plineCodes : List Int := [43, 44, 45, 46, 49, 53, 79]

def exportPLine (l : PLine) : List Tag :=
  [tagD 53 l.angle, tagD 43 l.base.1, tagD 44 l.base.2, tagD 45 l.offset.1, tagD 46 l.offset.2,
   tagN 79 l.dashes.length] ++ l.dashes.map (tagD 49)

/-- the pattern definition lines behind the (78, count) tag -/
def exportPattern (ls : List PLine) : List Tag := ls.flatMap exportPLine

/-! ### LEADER vertices, GROUP handles, IMAGE / WIPEOUT boundary path, MLINE vertices -/

/-- one round of the loop in `Leader.load_vertices`: (vertices, yielded tags) -/
def leaderStep (σ : List P3 × List Tag) (t : Tag) : List P3 × List Tag :=
  if t.code == 10 then (σ.1 ++ [p3Of t.val], σ.2)
  else if t.code == 76 then σ           -- number of vertices: ignored
  else (σ.1, σ.2 ++ [t])

def loadLeader (tags : List Tag) : List P3 × List Tag := tags.foldl leaderStep ([], [])

/-- `Leader.export_vertices` -/
def exportLeader (vs : List P3) : List Tag := tagN 76 vs.length :: vs.map (tagP3 10)

def leaderFree (t : Tag) : Bool := !(t.code == 10 || t.code == 76)

/-- `DXFGroup.load_group`: `self._handles[value] = None` for every 340 tag (a dict: first occurrence order, no duplicates) -/
def groupStep (hs : List (List Nat)) (t : Tag) : List (List Nat) :=
  if t.code == 340 then (if hs.contains (strOf t.val) then hs else hs ++ [strOf t.val]) else hs

def loadGroup (tags : List Tag) : List (List Nat) := tags.foldl groupStep []

/-- `DXFGroup.export_group` -/
def exportGroup (hs : List (List Nat)) : List Tag := hs.map (tagS 340)

/-- `Tags.pop_tags(codes=(14,))` + `Image.load_boundary_path`: (boundary path, tags that stay in the subclass) -/
def loadImageBoundary (tags : List Tag) : List P2 × List Tag :=
  ((tags.filter (·.code == 14)).map (fun t => p2Of t.val), tags.filter (fun t => !(t.code == 14)))

/-- `Image.export_boundary_path` -/
def exportImageBoundary (path : List P2) : List Tag := path.map (tagP2 14)

structure MVertex where
  loc : P3
  dir : P3
  miter : P3
  lps : List (List Nat)          -- line_params: one tuple per line element
  fps : List (List Nat)          -- fill_params
  deriving DecidableEq, Repr

structure MVSt where
  v : MVertex
  lp : List Nat
  lc : Int
  fp : List Nat
  fc : Int

/-- one round of the loop in `MLineVertex.load` -/
def mvStep (σ : MVSt) (t : Tag) : MVSt :=
  if t.code == 11 then { σ with v := { σ.v with loc := p3Of t.val } }
  else if t.code == 12 then { σ with v := { σ.v with dir := p3Of t.val } }
  else if t.code == 13 then { σ with v := { σ.v with miter := p3Of t.val } }
  else if t.code == 74 then
    if intOf t.val == 0 then { σ with lc := 0, v := { σ.v with lps := σ.v.lps ++ [[]] } }
    else { σ with lc := intOf t.val, lp := [] }
  else if t.code == 41 then
    if σ.lc - 1 == 0 then
      { σ with lc := 0, lp := [], v := { σ.v with lps := σ.v.lps ++ [σ.lp ++ [dblOf t.val]] } }
    else { σ with lc := σ.lc - 1, lp := σ.lp ++ [dblOf t.val] }
  else if t.code == 75 then
    if intOf t.val == 0 then { σ with fc := 0, v := { σ.v with fps := σ.v.fps ++ [[]] } }
    else { σ with fc := intOf t.val, fp := [] }
  else if t.code == 42 then
    if σ.fc - 1 == 0 then
      -- `fill_params` is not reset here in the source; it is reset by the next (75, n ≠ 0) tag before it is used again
      { σ with fc := 0, fp := σ.fp ++ [dblOf t.val], v := { σ.v with fps := σ.v.fps ++ [σ.fp ++ [dblOf t.val]] } }
    else { σ with fc := σ.fc - 1, fp := σ.fp ++ [dblOf t.val] }
  else σ

/-- `MLineVertex.load`; `MLineVertex()` starts with location (0, 0, 0), line direction X_AXIS, miter direction Y_AXIS -/
def loadMVertex (tags : List Tag) : MVertex :=
  (tags.foldl mvStep ⟨⟨(0, 0, 0), (one, 0, 0), (0, one, 0), [], []⟩, [], 0, [], 0⟩).v

def mvParams (lf : List Nat × List Nat) : List Tag :=
  tagN 74 lf.1.length :: lf.1.map (tagD 41) ++ (tagN 75 lf.2.length :: lf.2.map (tagD 42))

/-- `MLineVertex.export_dxf` -/
def exportMVertex (v : MVertex) : List Tag :=
  tagP3 11 v.loc :: tagP3 12 v.dir :: tagP3 13 v.miter :: (v.lps.zip v.fps).flatMap mvParams

/-- `MLine.load_vertices`: one vertex per group that starts with a (11, location) tag -/
def loadMLine (tags : List Tag) : List MVertex := (groupTags 11 tags).map loadMVertex

def exportMLine (vs : List MVertex) : List Tag := vs.flatMap exportMVertex

/-! ### the whole AcDbHatch subclass: `DXFPolygon.load_dxf_attribs` -/

structure HatchData where
  paths : List BPath
  gradient : List Tag              -- everything from the (450, …) tag on, read by `Gradient.load_tags` (not modelled)
  pattern : Option (List PLine)
  seeds : List P2
  deriving DecidableEq, Repr

/-- `load_paths`, `load_gradient` (cuts the tags off at the first 450 tag), `load_pattern`, `load_seeds` in this order;
    the second component is what `fast_load_dxfattribs` gets.  `pc` = PATH_CODES, `plc` = PATTERN_DEFINITION_LINE_CODES. -/
def loadHatchAll (pc plc : List Int) (comp : Nat → Nat) (tags : List Tag) : Option (HatchData × List Tag) :=
  match loadHatchPaths pc comp [] tags with
  | none => none
  | some (paths, t1) =>
    let t2 := t1.takeWhile (fun t => !(t.code == 450))
    let grad := t1.dropWhile (fun t => !(t.code == 450))
    let pat := loadHatchPattern plc t2
    let sd := loadSeeds [] pat.2
    some (⟨paths, grad, pat.1, sd.1⟩, sd.2)

/-- `if self.pattern:` pattern attributes `a3` (pattern_angle, pattern_scale, pattern_double), count tag 78, lines -/
def patPart (a3 : List Tag) : Option (Int × List PLine) → List Tag
  | some (m, ls) => a3 ++ (if ls = [] then [] else tagI 78 m :: exportPattern ls)   -- `if len(self.lines) or force`
  | none => []

def patAttrs (a3 : List Tag) : Option (Int × List PLine) → List Tag
  | some _ => a3
  | none => []

/-- `Hatch.export_entity` behind the subclass marker: `a1` … `a4` are the tags of the four `export_dxf_attribs` calls,
    `pat` = `(n, lines)` when `self.pattern` is set, `g` the gradient tags -/
def exportHatchAll (comp : Nat → Nat) (sub : P2 → P2 → P2) (r2010 : Bool) (a1 a2 a3 a4 g : List Tag) (n : Int)
    (paths : List BPath) (pat : Option (Int × List PLine)) (seeds : List P2) : List Tag :=
  a1 ++ tagI 91 n :: (exportPaths comp sub r2010 true paths ++
    (a2 ++ (patPart a3 pat ++ (a4 ++ (exportSeeds seeds ++ g)))))

/-- the attribute tags of a HATCH: none of the structure codes the payload loaders search for -/
def hatchFree (t : Tag) : Bool := !(t.code == 91 || t.code == 450 || t.code == 78 || t.code == 98)

/-! ### HATCH gradient data (`entities/gradient.py`) -/

structure Grad where
  kind : Int                -- 450
  rot : Nat                 -- rotation in degrees (the file holds radians)
  centered : Nat
  oneColor : Int
  tint : Nat
  name : List Nat
  ncolors : Int
  aci1 : Option Int
  c1 : Int                  -- `rgb2int(color1)`
  aci2 : Option Int
  c2 : Int
  deriving DecidableEq, Repr

/-- `rgb2int(int2rgb(value))`: the low 24 bits -/
def rgbMask (v : Int) : Int := v % 16777216

structure GradSt where
  g : Grad
  first : Bool              -- `first_color_value`

/-- one round of the loop in `Gradient.load_tags` (after fix C01-F12: an ACI value (63) belongs to the color whose true
    color value (421) follows it) -/
def gradStep (toDeg : Nat → Nat) (σ : GradSt) (t : Tag) : GradSt :=
  if t.code == 460 then { σ with g := { σ.g with rot := toDeg (dblOf t.val) } }
  else if t.code == 461 then { σ with g := { σ.g with centered := dblOf t.val } }
  else if t.code == 452 then { σ with g := { σ.g with oneColor := intOf t.val } }
  else if t.code == 462 then { σ with g := { σ.g with tint := dblOf t.val } }
  else if t.code == 470 then { σ with g := { σ.g with name := strOf t.val } }
  else if t.code == 453 then { σ with g := { σ.g with ncolors := intOf t.val } }
  else if t.code == 63 then
    if σ.first then { σ with g := { σ.g with aci1 := some (intOf t.val) } }
    else { σ with g := { σ.g with aci2 := some (intOf t.val) } }
  else if t.code == 421 then
    if σ.first then { g := { σ.g with c1 := rgbMask (intOf t.val) }, first := false }
    else { σ with g := { σ.g with c2 := rgbMask (intOf t.val) } }
  else σ

/-- "LINEAR" -/
def linearName : List Nat := [76, 73, 78, 69, 65, 82]

/-- `Gradient.load_tags`; `none` = AssertionError / IndexError (the tags do not start with a 450 tag) -/
def loadGrad (toDeg : Nat → Nat) (tags : List Tag) : Option Grad :=
  match tags with
  | [] => none
  | t :: _ =>
    if t.code == 450 then
      some (tags.foldl (gradStep toDeg)
        ⟨⟨intOf t.val, 0, 0, 0, 0, linearName, 2, none, 0, none, 16777215⟩, true⟩).g
    else none

def optI (c : Int) : Option Int → List Tag
  | some v => [tagI c v]
  | none => []

/-- `Gradient.export_dxf` (`toRad` = `math.radians`) -/
def exportGrad (toRad : Nat → Nat) (g : Grad) : List Tag :=
  [tagI 450 g.kind, tagI 451 0, tagD 460 (toRad g.rot), tagD 461 g.centered, tagI 452 g.oneColor, tagD 462 g.tint,
   tagI 453 g.ncolors] ++
  (if 0 < g.ncolors then tagI 463 0 :: (optI 63 g.aci1 ++ [tagI 421 g.c1]) else []) ++
  (if 1 < g.ncolors then tagI 463 1 :: (optI 63 g.aci2 ++ [tagI 421 g.c2]) else []) ++
  [tagS 470 g.name]

/-! ### names ↔ handles through a table of the document (VIEWPORT frozen layers 331; the scheme of DIMSTYLE line types and
    text style as well): the file holds handles, the entity holds names -/

structure ResEntry where
  key : List Nat          -- `validator.make_table_key(name)`
  name : List Nat         -- `entry.dxf.name`
  handle : List Nat
  deriving DecidableEq, Repr

/-- export: `layers.get(name).dxf.handle` for every name, unknown names are skipped (DXFTableEntryError) -/
def namesToHandles (keyOf : List Nat → List Nat) (tbl : List ResEntry) (names : List (List Nat)) : List (List Nat) :=
  names.filterMap (fun n => (tbl.find? (fun e => e.key == keyOf n)).map (·.handle))

/-- `post_load_hook`: `db[handle].dxf.name`, unknown handles are skipped (KeyError) -/
def handlesToNames (tbl : List ResEntry) (hs : List (List Nat)) : List (List Nat) :=
  hs.filterMap (fun h => (tbl.find? (fun e => e.handle == h)).map (·.name))

/-- `Viewport.load_frozen_layer_handles`: (handles, unprocessed tags) -/
def loadFrozen (tags : List Tag) : List (List Nat) × List Tag :=
  ((tags.filter (·.code == 331)).map (fun t => strOf t.val), tags.filter (fun t => !(t.code == 331)))

def exportFrozen (keyOf : List Nat → List Nat) (tbl : List ResEntry) (names : List (List Nat)) : List Tag :=
  (namesToHandles keyOf tbl names).map (tagS 331)

/-- `MPolygon.export_entity` behind the subclass marker: `a1` (version … solid_fill), the paths, `a2` (pattern_type),
    `a3` (pattern angle / scale / double, only when solid_fill = 0), `a4` (annotated_boundary, pixel_size), the pattern lines
    behind a (78, n) tag when solid_fill = 0 (`force=True`: also without lines), `a5` (fill_color, offset_vector,
    degenerated_loops), the gradient tags.  There are no seed points; polyline paths lose their source boundary objects. -/
def mpatPart : Option (Int × List PLine) → List Tag
  | some (m, ls) => tagI 78 m :: exportPattern ls
  | none => []

def exportMPolygonAll (comp : Nat → Nat) (sub : P2 → P2 → P2) (r2010 : Bool) (a1 a2 a3 a4 a5 g : List Tag) (n : Int)
    (paths : List BPath) (pat : Option (Int × List PLine)) : List Tag :=
  a1 ++ tagI 91 n :: (exportPaths comp sub r2010 false paths ++
    (a2 ++ (patAttrs a3 pat ++ (a4 ++ (mpatPart pat ++ (a5 ++ g))))))

/-! ### MTEXT columns in the embedded object of DXF R2018 (`MText.export_embedded_object` /
    `load_columns_from_embedded_object`) and the LTYPE pattern tags -/

structure MCols where
  ctype : Int                -- ColumnType: 0 NONE, 1 STATIC, 2 DYNAMIC
  count : Int
  autoH : Bool
  revFlow : Bool
  definedH : Nat
  width : Nat
  gutter : Nat
  totalW : Nat
  totalH : Nat
  heights : List Nat
  deriving DecidableEq, Repr

/-- `cols.has_dynamic_auto_height` -/
def MCols.dynAuto (c : MCols) : Bool := c.ctype == 2 && c.autoH

/-- the tags behind `(101, "Embedded Object")`; `dir`, `ins`, `w` = dxf.text_direction, dxf.insert, dxf.width -/
def exportCols (dir ins : P3) (w : Nat) (c : MCols) : List Tag :=
  [tagI 70 1, tagP3 10 dir, tagP3 11 ins, tagD 40 w, tagD 41 c.definedH, tagD 42 c.totalW, tagD 43 c.totalH,
   tagI 71 c.ctype, tagI 72 (if c.dynAuto then 0 else c.count), tagD 44 c.width, tagD 45 c.gutter,
   tagI 73 (boolInt c.autoH), tagI 74 (boolInt c.revFlow)] ++ c.heights.map (tagD 46)

structure ColSt where
  c : MCols
  dir : Option P3            -- `dxf.text_direction = Vec3(value)` (only when the MTEXT attribute is not set)
  ins : Option P3
  w : Option Nat

/-- one round of the loop of `load_columns_from_embedded_object`; `hasDir` … : the MTEXT attribute is set already -/
def colStep (hasDir hasIns hasW : Bool) (σ : ColSt) (t : Tag) : ColSt :=
  if t.code == 10 && !hasDir then { σ with dir := some (p3Of t.val) }
  else if t.code == 11 && !hasIns then { σ with ins := some (p3Of t.val) }
  else if t.code == 40 && !hasW then { σ with w := some (dblOf t.val) }
  else if t.code == 41 then { σ with c := { σ.c with definedH := dblOf t.val } }
  else if t.code == 42 then { σ with c := { σ.c with totalW := dblOf t.val } }
  else if t.code == 43 then { σ with c := { σ.c with totalH := dblOf t.val } }
  else if t.code == 44 then { σ with c := { σ.c with width := dblOf t.val } }
  else if t.code == 45 then { σ with c := { σ.c with gutter := dblOf t.val } }
  else if t.code == 71 then { σ with c := { σ.c with ctype := intOf t.val } }
  else if t.code == 72 then { σ with c := { σ.c with count := intOf t.val } }
  else if t.code == 73 then { σ with c := { σ.c with autoH := truthVal t.val } }
  else if t.code == 74 then { σ with c := { σ.c with revFlow := truthVal t.val } }
  else if t.code == 46 then { σ with c := { σ.c with heights := σ.c.heights ++ [dblOf t.val] } }
  else σ

/-- "The column count is not defined explicit": from the heights, else `recount total_width gutter width`
    (`int(round((total_width + g) / abs(width + g)))` when that is defined, else 0: a double computation, parameter) -/
def fixCount (recount : Nat → Nat → Nat → Int) (c : MCols) : MCols :=
  if c.count == 0 then
    (if c.heights = [] then { c with count := recount c.totalW c.gutter c.width }
     else { c with count := Int.ofNat c.heights.length })
  else c

/-- `load_columns_from_embedded_object`: `MTextColumns()` starts as STATIC, count 1, all lengths 0.0 -/
def loadCols (recount : Nat → Nat → Nat → Int) (hasDir hasIns hasW : Bool) (tags : List Tag) : ColSt :=
  let σ := tags.foldl (colStep hasDir hasIns hasW) ⟨⟨1, 1, false, false, 0, 0, 0, 0, 0, []⟩, none, none, none⟩
  { σ with c := fixCount recount σ.c }

/-- what comes back: the count of dynamic columns with automatic height is not written (72, 0) and recomputed -/
def canonCols (recount : Nat → Nat → Nat → Int) (c : MCols) : MCols :=
  fixCount recount { c with count := if c.dynAuto then 0 else c.count }

/-- `LinetypePattern.export_dxf` for DXF R2000+: the stored pattern tags as they are -/
def exportLtypePattern (pattern : List Tag) : List Tag := pattern

/-- `Linetype.load_dxf_attribs`: the pattern = the tags `fast_load_dxfattribs` leaves unprocessed -/
def loadLtype (m : Mapping) (sub : List Tag) (ns : NS) : NS × List Tag := fastLoad m sub ns

/-- the pattern length tag of `export_r12_dxf`: the first 40 tag, else the sum of the absolute element lengths
    (`sumAbs`, a double computation, is a parameter) -/
def lenTag (sumAbs : List Tag → Nat) (tags : List Tag) : Tag :=
  match tags.find? (·.code == 40) with
  | some t => t
  | none => tagD 40 (sumAbs (tags.filter (·.code == 49)))

/-- `LinetypePattern.export_r12_dxf`: alignment 65, the number of dash elements, the pattern length and the dash
    elements (49); the element type tags (74) and everything a complex line type holds are not written -/
def ltypeR12 (sumAbs : List Tag → Nat) (tags : List Tag) : List Tag :=
  tagI 72 65 :: tagN 73 (tags.filter (·.code == 49)).length :: lenTag sumAbs tags :: tags.filter (·.code == 49)

end EzdxfVerif.Payload

/-
The document state machine (DESIGN.md appendix A), serving C05 / C04 / C06:
entity database + handle generator + entity spaces + block and layout name maps + layer table,
as driven by the public API of ezdxf (`layouts/base.py`, `entities/blockrecord.py`, `entitydb.py`,
`sections/blocks.py`, `sections/table.py`, `layouts/layouts.py`, `entities/dxfgfx.py`).

Handles are natural numbers.  The model does not predict *which* fresh handle the implementation
picks: every creating operation carries the handle(s) observed on the real code and the model
*checks* freshness (`h ≥ next`), so all theorems hold for every admissible choice.
`ents` is a monotone history: an entity record is never removed, only flagged dead / not in db.
Core Lean only.
-/
namespace EzdxfVerif.Doc

abbrev Str := List Nat

def lowerC (c : Nat) : Nat := if 65 ≤ c ∧ c ≤ 90 then c + 32 else c
def upperC (c : Nat) : Nat := if 97 ≤ c ∧ c ≤ 122 then c - 32 else c
/-- `str.lower()` / `str.upper()` on ASCII names (the generators use ASCII names only) -/
def lower (s : Str) : Str := s.map lowerC
def upper (s : Str) : Str := s.map upperC

def ofString (s : String) : Str := s.toList.map Char.toNat

structure Ent where
  h : Nat
  alive : Bool
  owner : Option Nat          -- dxf.owner: handle of the owning BLOCK_RECORD (none = unlinked)
  indb : Bool                 -- still a key of EntityDB._database
  ref : Option Str            -- INSERT: referenced block name as given
  psp : Bool := false         -- dxf.paperspace flag (set by set_owner from is_any_paperspace)
  subs : List Nat := []       -- linked sub-entities (VERTEX… / ATTRIB… followed by SEQEND): their handles; they are
                              -- owned by the parent (`take_ownership`); alive, paperspace flag and database membership
                              -- follow the parent (LinkedEntities.set_owner / destroy)
  deriving Repr, DecidableEq

structure Lay where
  key : Str                   -- name.upper()
  name : Str
  br : Nat
  tab : Nat                   -- dxf.taborder
  deriving Repr, DecidableEq

structure State where
  ents : List Ent                      -- every entity ever created by the history, creation order
  spaces : List (Nat × List Nat)       -- per live BLOCK_RECORD in the table: EntitySpace.entities (handles)
  blocks : List (Str × Str × Nat)      -- (key = name.lower(), name, block record handle)
  layouts : List Lay                   -- Layouts._layouts in dict order
  layers : List Str                    -- layer keys
  next : Nat                           -- HandleGenerator._handle
  tabs : List (Nat × Str) := []        -- (table id, key): LTYPE 1, STYLE 2, DIMSTYLE 3, APPID 4, UCS 5, VIEW 6
  groups : List (Str × Nat × List Nat) := []   -- GroupCollection: (name, handle of the GROUP object, member handles)
  deriving Repr, DecidableEq

inductive Err where
  | valueError | keyError | dxfValueError | dxfKeyError | dxfTableEntryError | dxfBlockInUseError
  | dxfStructureError | notFresh | other
  deriving Repr, DecidableEq

inductive Out where
  | ok | err (e : Err)
  deriving Repr, DecidableEq

inductive Op where
  | add (k h seed : Nat)                         -- layout.add_line(...) -> new entity h
  | ins (k : Nat) (name : Str) (h seed : Nat)    -- layout.add_blockref(name, ...) -> new INSERT h
  | unlink (k e : Nat)                           -- layout.unlink_entity(e)
  | addex (k e : Nat)                            -- layout.add_entity(e)
  | move (k1 e k2 : Nat)                         -- layout.move_to_layout(e, target)
  | del (k e : Nat)                              -- layout.delete_entity(e)
  | destroy (e : Nat)                            -- entity.destroy()
  | copy (e k h : Nat) (subs : List Nat) (seed : Nat)   -- entity.copy_to_layout(target) -> h (+ fresh sub-entity handles)
  | purge                                        -- entitydb.purge(); layout.purge() for all blocks
  | newBlock (name : Str) (br seed : Nat)        -- doc.blocks.new(name)
  | delBlock (name : Str) (safe : Bool)          -- doc.blocks.delete_block(name, safe)
  | renBlock (a b : Str)                         -- doc.blocks.rename_block(a, b)
  | newLayout (name : Str) (br seed : Nat)       -- doc.layouts.new(name)
  | delLayout (name : Str)
  | renLayout (a b : Str)
  | activate (name : Str)
  | addLayer (name : Str) (seed : Nat)
  | delLayer (name : Str)
  | reload (seed : Nat)                          -- doc.write(); ezdxf.read()
  | foreign (kind e : Nat)                       -- move / add_entity / copy_to_layout into ANOTHER document
  | addL (k : Nat) (ref : Option Str) (h : Nat) (subs : List Nat) (seed : Nat)
      -- layout.add_polyline2d/3d (ref = none) / add_blockref + add_attrib… (ref = some name): parent h, sub-entities subs
  | explode (e : Nat) (news : List (Nat × List Nat)) (seed : Nat)   -- insert.explode() -> new entities (handle, sub handles)
  | audit (seed : Nat)                           -- doc.audit()
  | addEntry (t : Nat) (name : Str) (seed : Nat) -- doc.linetypes/styles/dimstyles/appids/ucs/views .add(name)
  | delEntry (t : Nat) (name : Str)              -- table.remove(name)
  | dupEntry (t : Nat) (a b : Str) (seed : Nat)  -- table.duplicate_entry(a, b)
  | newGroup (name : Str) (h seed : Nat)         -- doc.groups.new(name)
  | setGroup (name : Str) (ms : List Nat)        -- group.set_data(entities)
  | delGroup (name : Str)                        -- doc.groups.delete(name)
  deriving Repr, DecidableEq

/-! ### small list helpers -/

def findEnt (s : State) (h : Nat) : Option Ent := s.ents.find? (·.h = h)

def setEnt (ents : List Ent) (h : Nat) (f : Ent → Ent) : List Ent :=
  ents.map fun e => if e.h = h then f e else e

def spaceOf (s : State) (k : Nat) : Option (List Nat) := (s.spaces.find? (·.1 = k)).map (·.2)

def setSpace (sp : List (Nat × List Nat)) (k : Nat) (f : List Nat → List Nat) : List (Nat × List Nat) :=
  sp.map fun p => if p.1 = k then (p.1, f p.2) else p

def isAlive (s : State) (h : Nat) : Bool :=
  match findEnt s h with | some e => e.alive | none => false

def blockBr (s : State) (key : Str) : Option Nat := (s.blocks.find? (·.1 = key)).map (·.2.2)
def blockName (s : State) (br : Nat) : Option Str := (s.blocks.find? (·.2.2 = br)).map (·.2.1)
def layoutOf (s : State) (key : Str) : Option Lay := s.layouts.find? (·.key = key)

def modelKey : Str := upper (ofString "Model")
def paperSpaceName : Str := ofString "*Paper_Space"
def modelSpaceName : Str := ofString "*Model_Space"
def tmpPaperSpaceName : Str := ofString "*Paper_Space999999"

/-- fresh handles: the created handles and the new seed lie above the old seed -/
def freshOk (s : State) (hs : List Nat) (seed : Nat) : Bool :=
  hs.all (fun h => s.next ≤ h && h < seed) && decide (s.next ≤ seed) && hs.Nodup

/-- `INVALID_LAYER_NAME_CHARACTERS = <>/\":;?*|=` and backtick -/
def invalidNameChars : List Nat := [60, 62, 47, 92, 34, 58, 59, 63, 42, 124, 61, 96]
def validTableName (n : Str) : Bool := n.all (fun c => !invalidNameChars.contains c)

/-! ### entity operations -/

def paperPrefix : Str := lower paperSpaceName

/-- `br.dxf.name.lower().startswith("*paper_space")` -/
def isPaperName (name : Str) : Bool := (lower name).take paperPrefix.length == paperPrefix

/-- `BlockRecord.is_any_paperspace`: decided by the NAME of the block record (`*Paper_Space…`), not by the layouts -/
def isPaperBr (s : State) (k : Nat) : Bool :=
  match blockName s k with | some n => isPaperName n | none => false

def newEnt (s : State) (k h seed : Nat) (ref : Option Str) (subs : List Nat := []) : State × Out :=
  match spaceOf s k with
  | none => (s, .err .other)
  | some _ =>
    if freshOk s (h :: subs) seed then
      ({ s with ents := s.ents ++ [⟨h, true, some k, true, ref, isPaperBr s k, subs⟩],
                spaces := setSpace s.spaces k (· ++ [h]), next := seed }, .ok)
    else (s, .err .notFresh)

/-- `BlockRecord.unlink_entity`: no-op for dead entities, ValueError if not in this space -/
def unlinkCore (s : State) (k e : Nat) : Option State :=
  if !isAlive s e then some s
  else match spaceOf s k with
    | none => none
    | some sp =>
      if sp.contains e then
        some { s with spaces := setSpace s.spaces k (·.erase e),
                      ents := setEnt s.ents e (fun x => { x with owner := none, psp := false }) }
      else none

/-- `BaseLayout.add_entity` for a bound entity -/
def addExisting (s : State) (k e : Nat) : State × Out :=
  match findEnt s e, spaceOf s k with
  | some x, some _ =>
    if !x.alive then (s, .err .other)
    else if !x.indb then (s, .err .dxfStructureError)
    else ({ s with spaces := setSpace s.spaces k (· ++ [e]),
                   ents := setEnt s.ents e (fun x => { x with owner := some k, psp := isPaperBr s k }) }, .ok)
  | _, _ => (s, .err .other)

def destroyEnt (s : State) (e : Nat) : State :=
  { s with ents := setEnt s.ents e (fun x => { x with alive := false }) }

/-- `BlockRecord.destroy` part: every live entity of the space dies; the record leaves the table -/
def dropContainer (s : State) (br : Nat) : State :=
  let content := (spaceOf s br).getD []
  { s with ents := s.ents.map (fun x => if content.contains x.h then { x with alive := false } else x),
           spaces := s.spaces.filter (·.1 ≠ br),
           blocks := s.blocks.filter (·.2.2 ≠ br) }

/-! ### block / layout helpers -/

/-- `is_special_block`: anonymous blocks `*X…` (X ∈ ADT… any letter followed by digits), arrows `_…` -/
def isAnonymous (nameUp : Str) : Bool :=
  match nameUp with
  | 42 :: c :: d :: _ => (65 ≤ c && c ≤ 90) && (48 ≤ d && d ≤ 57)     -- generators never use such names
  | _ => false

/-- `doc.query('INSERT[name=="<name>"]i')` iterates layouts and blocks, not the entity database:
    only live block references that are listed in an entity space count -/
def blockInUse (s : State) (name : Str) : Bool :=
  s.ents.any fun e => e.alive && s.spaces.any (fun p => p.2.contains e.h) &&
    (match e.ref with | some r => lower r == lower name | none => false)

/-- `Layouts.unique_paperspace_name`: first `*Paper_Space<n>` that is not a block name -/
def natDigits (n : Nat) : Str :=
  if h : n < 10 then [48 + n] else natDigits (n / 10) ++ [48 + n % 10]
termination_by n
decreasing_by omega

def uniquePaperName (s : State) : Nat → Nat → Str
  | 0, n => paperSpaceName ++ natDigits n
  | fuel + 1, n =>
    let nm := paperSpaceName ++ natDigits n
    if (blockBr s (lower nm)).isSome then uniquePaperName s fuel (n + 1) else nm

/-- `rename_block(old, new)` after the fix (existing target names are rejected) -/
def renameBlock (s : State) (a b : Str) : State × Out :=
  match blockBr s (lower a) with
  | none => (s, .err .dxfTableEntryError)
  | some br =>
    if lower a ≠ lower b ∧ (blockBr s (lower b)).isSome then (s, .err .dxfTableEntryError)
    else ({ s with blocks := s.blocks.filter (·.2.2 ≠ br) ++ [(lower b, b, br)] }, .ok)

def activeBr (s : State) : Option Nat := blockBr s (lower paperSpaceName)

/-- `Layouts.set_active_layout(name)` -/
def setActive (s : State) (name : Str) : State × Out :=
  if upper name = modelKey then (s, .err .dxfValueError)
  else match layoutOf s (upper name) with
    | none => (s, .err .keyError)
    | some l =>
      match activeBr s, blockName s l.br with
      | some act, some newName =>
        if act = l.br then (s, .ok)
        else
          let (s1, _) := renameBlock s paperSpaceName tmpPaperSpaceName
          let (s2, _) := renameBlock s1 newName paperSpaceName
          let (s3, _) := renameBlock s2 tmpPaperSpaceName newName
          (s3, .ok)
      | _, _ => (s, .err .other)

/-! ### `Auditor.run`, structural part (used by `step (.audit _)`; the theorems are in Lemmas/Audit.lean) -/

def ownerOf (s : State) (h : Nat) : Option Nat :=
  match findEnt s h with | some e => e.owner | none => none

/-- step 1 on one space: keep dead entries (they are skipped), keep live entries owned by `k` -/
def keepInSpace (s : State) (k h : Nat) : Bool := !isAlive s h || ownerOf s h == some k

def auditSpaces (s : State) : State :=
  { s with spaces := s.spaces.map (fun p => (p.1, p.2.filter (keepInSpace s p.1))) }

def spaceFixes (s : State) : Nat :=
  (s.spaces.map (fun p => (p.2.filter (fun h => !keepInSpace s p.1 h)).length)).sum

/-- the block record `k` is in the entity database: it is a block record of the table -/
def ownerExists (s : State) (o : Option Nat) : Bool :=
  match o with | some k => (spaceOf s k).isSome | none => false

def blockDefined (s : State) (r : Option Str) : Bool :=
  match r with | some n => (blockBr s (lower n)).isSome | none => true

/-- step 2: which database entities are trashed -/
def trashed (s : State) (e : Ent) : Bool :=
  e.alive && e.indb && (!ownerExists s e.owner || !blockDefined s e.ref)

def auditEntities (s : State) : State :=
  { s with ents := s.ents.map (fun e => if trashed s e then { e with alive := false, indb := false } else e) }

/-- both checks report their own fix for the same entity (`check_owner_exist`, then `Insert.audit`) -/
def entityFixes (s : State) : Nat :=
  (s.ents.filter (fun e => e.alive && e.indb && !ownerExists s e.owner)).length +
  (s.ents.filter (fun e => e.alive && e.indb && !blockDefined s e.ref)).length

/-! ### groups (`entities/dxfgroups.py`) -/

def isLayoutBr (s : State) (br : Nat) : Bool := s.layouts.any (·.br = br)

/-- `filter_invalid_entities`: alive and owned by the block record of a (model/paper space) layout -/
def validMember (s : State) (h : Nat) : Bool :=
  match findEnt s h with
  | some e => e.alive && (match e.owner with | some k => isLayoutBr s k && (spaceOf s k).isSome | none => false)
  | none => false

/-- `all_entities_on_same_layout`: fewer than two distinct owners -/
def sameLayout (s : State) (ms : List Nat) : Bool :=
  match ms with
  | [] => true
  | m :: r => r.all (fun x => ownerOf s x == ownerOf s m)

/-- `ObjectCollection.get`: names are compared case-insensitively -/
def groupOf (s : State) (name : Str) : Option (Str × Nat × List Nat) := s.groups.find? (fun g => lower g.1 = lower name)

/-- `Group.audit` on one group: purge invalid members, clear the group if the rest lies on several layouts -/
def auditGroup (s : State) (g : Str × Nat × List Nat) : Str × Nat × List Nat :=
  let v := g.2.2.filter (validMember s)
  (g.1, g.2.1, if sameLayout s v then v else [])

def groupFixes (s : State) : Nat :=
  (s.groups.map (fun g =>
    let v := g.2.2.filter (validMember s)
    (if v.length < g.2.2.length then 1 else 0) + (if sameLayout s v then 0 else 1) +
    (if (auditGroup s g).2.2.isEmpty then 1 else 0))).sum

/-- `GroupCollection.audit`: every group audited, empty groups removed -/
def auditGroups (s : State) : State :=
  { s with groups := (s.groups.map (auditGroup s)).filter (fun g => !g.2.2.isEmpty) }

/-! `Layouts.audit`, second part: orphaned paperspace block records (`*Paper_Space…` without a layout) are deleted with
    their content (`delete_block(name, safe=False)`); runs before the entities are audited, so block references to a
    deleted block and entities owned by it are repaired by the same run -/

/-- block records of the paperspace layouts (`key(layout.name) != MODEL`) -/
def pspLayoutBrs (s : State) : List Nat := (s.layouts.filter (fun l => l.key != modelKey)).map (·.br)

def isOrphan (s : State) (b : Str × Str × Nat) : Bool := isPaperName b.2.1 && !(pspLayoutBrs s).contains b.2.2

def orphanBlocks (s : State) : List Nat := (s.blocks.filter (isOrphan s)).map (·.2.2)

def dropAll (s : State) (l : List Nat) : State := l.foldl dropContainer s

/-- `Layouts._restore_active_layout`: the first paperspace layout (dict order) whose block record is a `*Paper_Space…` block -/
def restoreCandidate (s : State) : Option Lay :=
  s.layouts.find? (fun l => l.key != modelKey && (match blockName s l.br with | some n => isPaperName n | none => false))

/-- no block `*Paper_Space` (no active paperspace layout) although a paperspace layout exists -/
def needRestore (s : State) : Bool := (blockBr s (lower paperSpaceName)).isNone && (restoreCandidate s).isSome

/-- the block record of the candidate is renamed to `*Paper_Space` (`rename_block` moves the entry to the end).  When no
    paperspace layout is left the code creates a new layout: outside the model (needs new handles), the state is kept -/
def restoreActive (s : State) : State :=
  if needRestore s then
    match restoreCandidate s with
    | some l => { s with blocks := s.blocks.filter (·.2.2 ≠ l.br) ++ [(lower paperSpaceName, paperSpaceName, l.br)] }
    | none => s
  else s

/-- `Layouts.audit`: orphaned paperspace block records are deleted with their content, then a missing active
    paperspace layout is restored -/
def auditLayouts (s : State) : State := restoreActive (dropAll s (orphanBlocks s))

def layoutFixes (s : State) : Nat :=
  (orphanBlocks s).length + (if needRestore (dropAll s (orphanBlocks s)) then 1 else 0)

/-- `DXFGroup.audit` is also reached through `ObjectsSection.audit` at the START of the run (a GROUP is an object of the
    OBJECTS section), i.e. on the state before anything was repaired: invalid members purged, a group whose members
    lie on several layouts cleared - empty groups are not removed at this stage -/
def groupFixes0 (s : State) : Nat :=
  (s.groups.map (fun g =>
    let v := g.2.2.filter (validMember s)
    (if v.length < g.2.2.length then 1 else 0) + (if sameLayout s v then 0 else 1))).sum

/-- the modelled part of `doc.audit()`: (new state, number of applied fixes).
    Order of the (fixed) `Auditor.run`: objects (groups, first pass), blocks, layouts, all database entities + trashcan,
    groups (final pass).  The first group pass only changes `groups`, which no later stage before the final pass reads:
    it is applied to the `groups` field right before the final pass. -/
def audit (s : State) : State × Nat :=
  let s1 := auditSpaces s
  let s2 := auditLayouts s1
  let s3 := auditEntities s2
  let s3' := { s3 with groups := s.groups.map (auditGroup s) }
  (auditGroups s3', spaceFixes s + layoutFixes s1 + entityFixes s2 + groupFixes0 s + groupFixes s3')

def liveContent (s : State) (k : Nat) : List Nat := ((spaceOf s k).getD []).filter (isAlive s)

/-! ### explode: the new entities created by `explode_block_reference` -/

/-- sub-entity handle lists must have the shape of the source: same number of sub-entities -/
def shapeOk (s : State) (src : List Nat) (news : List (Nat × List Nat)) : Bool :=
  decide (news.length = src.length) &&
  ((src.zip news).all fun (p : Nat × Nat × List Nat) =>
    match findEnt s p.1 with
    | some x => decide (p.2.2.length = x.subs.length)
    | none => false)

/-- `attrib_to_text`: "New TEXT entity has same handle as the replaced ATTRIB entity and replaces the ATTRIB entity
    in the database": the handles of the attached ATTRIBs must not be handles of other (top level) entities -/
def textsOk (s : State) (texts : List Nat) : Bool :=
  texts.all (fun h => s.ents.all (fun x => x.h != h) && decide (h < s.next)) && texts.Nodup

/-- the new entities: copies of the block content in order (reference of a nested INSERT kept), then one TEXT
    per attached ATTRIB (taking the handle of the ATTRIB) -/
def explodeEnts (s : State) (k : Nat) (src : List Nat) (news : List (Nat × List Nat)) (texts : List Nat) : List Ent :=
  (src.zip news).map (fun (p : Nat × Nat × List Nat) =>
    (⟨p.2.1, true, some k, true, (match findEnt s p.1 with | some x => x.ref | none => none), isPaperBr s k, p.2.2⟩ : Ent)) ++
  texts.map (fun h => (⟨h, true, some k, true, none, isPaperBr s k, []⟩ : Ent))

/-- new entities are appended to the layout of the INSERT ... -/
def explodeMid (s : State) (k : Nat) (src : List Nat) (news : List (Nat × List Nat)) (texts : List Nat) (seed : Nat) : State :=
  { s with ents := s.ents ++ explodeEnts s k src news texts,
           spaces := setSpace s.spaces k (· ++ (news.map (·.1) ++ texts)), next := seed }

/-- ... then `source_layout.delete_entity(block_ref)`; the ATTRIB handles now belong to the TEXT entities, the
    destroyed INSERT keeps only its SEQEND -/
def dropAttribs (s : State) (e : Nat) : State :=
  { s with ents := setEnt s.ents e (fun y => { y with subs := y.subs.drop (y.subs.length - 1) }) }

def explodeCore (s : State) (e k : Nat) (src : List Nat) (news : List (Nat × List Nat)) (texts : List Nat) (seed : Nat) :
    Option State :=
  match unlinkCore (explodeMid s k src news texts seed) k e with
  | some s2 => some (dropAttribs (destroyEnt s2 e) e)
  | none => none

/-- required table entries re-created by `_create_required_table_entries` and `_create_appids` (keys) -/
def requiredTabs : List (Nat × Str) :=
  [(1, ofString "byblock"), (1, ofString "bylayer"), (1, ofString "continuous"), (2, ofString "standard"),
   (3, ofString "standard"), (4, ofString "acad"), (4, ofString "hatchbackgroundcolor"), (4, ofString "ezdxf")]

def addMissing (tabs req : List (Nat × Str)) : List (Nat × Str) :=
  req.foldl (fun acc r => if acc.contains r then acc else acc ++ [r]) tabs

/-! ### the step function -/

def step (s : State) : Op → State × Out
  | .add k h seed => newEnt s k h seed none
  | .ins k name h seed => newEnt s k h seed (some name)
  | .unlink k e =>
    match unlinkCore s k e with
    | some s' => (s', .ok)
    | none => (s, .err .valueError)
  | .addex k e => addExisting s k e
  | .move k1 e k2 =>
    -- `entity.doc` of a destroyed entity: AttributeError; then unlink (ValueError -> DXFValueError), then add
    if !isAlive s e then (s, .err .other)
    else match unlinkCore s k1 e with
      | none => (s, .err .dxfValueError)
      | some s1 =>
        match addExisting s1 k2 e with
        | (s2, .ok) => (s2, .ok)
        | (_, o) => (s, o)                      -- target missing: generators never do this
  | .del k e =>
    match unlinkCore s k e with
    | none => (s, .err .valueError)
    | some s1 => (destroyEnt s1 e, .ok)
  | .destroy e => (destroyEnt s e, .ok)
  | .copy e k h subs seed =>
    -- the copy of a linked parent gets fresh sub-entity handles: as many as the source has
    match findEnt s e with
    | some x =>
      if x.alive then
        (if subs.length = x.subs.length then newEnt s k h seed x.ref subs else (s, .err .notFresh))
      else (s, .err .other)
    | none => (s, .err .other)
  | .purge =>
    ({ s with ents := s.ents.map (fun x => { x with indb := x.indb && x.alive }),
              spaces := s.spaces.map (fun p => (p.1, p.2.filter (isAlive s))) }, .ok)
  | .newBlock name br seed =>
    if (blockBr s (lower name)).isSome then (s, .err .dxfTableEntryError)
    else if freshOk s [br] seed then
      ({ s with blocks := s.blocks ++ [(lower name, name, br)], spaces := s.spaces ++ [(br, [])], next := seed }, .ok)
    else (s, .err .notFresh)
  | .delBlock name safe =>
    match blockBr s (lower name) with
    | none => (s, .err .dxfKeyError)
    | some br =>
      if safe && (isLayoutBr s br || isAnonymous (upper name) || blockInUse s name) then
        (s, .err .dxfBlockInUseError)
      else (dropContainer s br, .ok)
  | .renBlock a b => renameBlock s a b
  | .newLayout name br seed =>
    if !validTableName name then (s, .err .dxfValueError)
    else if (layoutOf s (upper name)).isSome then (s, .err .dxfValueError)
    else if freshOk s [br] seed then
      let bn := uniquePaperName s (s.blocks.length + 1) 0
      ({ s with layouts := s.layouts ++ [⟨upper name, name, br, s.layouts.length + 1⟩],
                blocks := s.blocks ++ [(lower bn, bn, br)], spaces := s.spaces ++ [(br, [])], next := seed }, .ok)
    else (s, .err .notFresh)
  | .delLayout name =>
    if upper name = modelKey then (s, .err .dxfValueError)
    else match layoutOf s (upper name) with
      | none => (s, .err .keyError)
      | some l =>
        if s.layouts.length < 3 then (s, .err .dxfValueError)
        else
          let s1 :=
            if activeBr s = some l.br then
              match s.layouts.find? (fun x => x.key ≠ upper name ∧ x.key ≠ modelKey) with
              | some other => (setActive s other.name).1
              | none => s
            else s
          let s2 := { s1 with layouts := s1.layouts.filter (·.key ≠ upper name) }
          (dropContainer s2 l.br, .ok)
  | .renLayout a b =>
    if upper a = modelKey then (s, .err .dxfValueError)
    else if (layoutOf s (upper b)).isSome then (s, .err .dxfValueError)
    else match layoutOf s (upper a) with
      | none => (s, .err .dxfValueError)
      | some l =>
        ({ s with layouts := s.layouts.filter (·.key ≠ upper a) ++ [{ l with key := upper b, name := b }] }, .ok)
  | .activate name => setActive s name
  | .addLayer name seed =>
    if s.layers.contains (lower name) then (s, .err .dxfTableEntryError)
    else if freshOk s [] seed then ({ s with layers := s.layers ++ [lower name], next := seed }, .ok)
    else (s, .err .notFresh)
  | .delLayer name =>
    if s.layers.contains (lower name) then ({ s with layers := s.layers.erase (lower name) }, .ok)
    else (s, .err .dxfTableEntryError)
  | .reload seed =>
    -- only linked live entities are written; dead and unlinked entities do not come back
    if decide (s.next ≤ seed) then
      let keep := fun (x : Ent) => x.alive && x.indb && x.owner.isSome
      ({ s with ents := s.ents.map (fun x => if keep x then x else { x with alive := false, indb := false }),
                spaces := s.spaces.map (fun p => (p.1, p.2.filter (isAlive s))),
                -- loading re-creates the required layer "0"
                layers := if s.layers.contains [48] then s.layers else s.layers ++ [[48]],
                -- `update_all` creates two appids before export, loading re-creates the required table entries
                tabs := addMissing s.tabs requiredTabs,
                -- `DXFGroup.preprocess_export` / `post_load_hook`: invalid members purged, a group whose members
                -- lie on several layouts is cleared
                groups := s.groups.map (auditGroup s),
                next := seed }, .ok)
    else (s, .err .notFresh)
  | .foreign _ e =>
    -- `entity.doc != layout.doc` / handle not in the other entity database: rejected, nothing changes
    if isAlive s e then (s, .err .dxfStructureError) else (s, .err .other)
  | .addL k ref h subs seed => newEnt s k h seed ref subs
  | .explode e news seed =>
    match findEnt s e with
    | none => (s, .err .other)
    | some x =>
      if !x.alive then (s, .err .other)                 -- `block_ref.doc` of a destroyed entity
      else match x.ref, x.owner with
        | some name, some k =>
          match spaceOf s k with
          | none => (s, .err .other)
          | some _ =>
            match blockBr s (lower name) with
            | none => (s, .err .dxfStructureError)     -- required block definition does not exist
            | some b =>
              let src := liveContent s b
              let texts := x.subs.take (x.subs.length - 1)
              if shapeOk s src news && freshOk s ((news.map (fun p => p.1 :: p.2)).flatten) seed && textsOk s texts then
                match explodeCore s e k src news texts seed with
                | some s' => (s', .ok)
                | none => (s, .err .other)
              else (s, .err .notFresh)
        | some _, none => (s, .err .dxfStructureError)  -- INSERT without layout assignment
        | none, _ => (s, .err .other)                   -- not an INSERT: the harness never asks
  | .audit seed =>
    if decide (s.next ≤ seed) then ({ (audit s).1 with next := seed }, .ok) else (s, .err .notFresh)
  | .addEntry t name seed =>
    if s.tabs.contains (t, lower name) then (s, .err .dxfTableEntryError)
    else if freshOk s [] seed then ({ s with tabs := s.tabs ++ [(t, lower name)], next := seed }, .ok)
    else (s, .err .notFresh)
  | .delEntry t name =>
    if s.tabs.contains (t, lower name) then ({ s with tabs := s.tabs.erase (t, lower name) }, .ok)
    else (s, .err .dxfTableEntryError)
  | .dupEntry t a b seed =>
    -- `Table.duplicate_entry`: replaces an existing entry `b`
    if !s.tabs.contains (t, lower a) then (s, .err .dxfTableEntryError)
    else if freshOk s [] seed then
      ({ s with tabs := if s.tabs.contains (t, lower b) then s.tabs else s.tabs ++ [(t, lower b)], next := seed }, .ok)
    else (s, .err .notFresh)
  | .newGroup name h seed =>
    if (groupOf s name).isSome then (s, .err .dxfValueError)
    else if freshOk s [h] seed then ({ s with groups := s.groups ++ [(name, h, [])], next := seed }, .ok)
    else (s, .err .notFresh)
  | .setGroup name ms =>
    match groupOf s name with
    | none => (s, .err .other)
    | some _ =>
      if ms.all (validMember s) && sameLayout s ms then
        ({ s with groups := s.groups.map (fun g => if lower g.1 = lower name then (g.1, g.2.1, ms) else g) }, .ok)
      else (s, .err .dxfStructureError)
  | .delGroup name =>
    if (groupOf s name).isSome then ({ s with groups := s.groups.filter (fun g => lower g.1 ≠ lower name) }, .ok)
    else (s, .err .dxfValueError)

/-! ### what `Drawing.write` exports (handles only): BLOCKS, ENTITIES, $HANDSEED -/

structure FileAbs where
  blocks : List (Nat × List Nat)     -- per BLOCK_RECORD in table order: entities between BLOCK and ENDBLK
  entities : List Nat                -- ENTITIES section: modelspace, then the active paperspace
  handseed : Nat
  groups : List (Nat × List Nat) := []   -- OBJECTS: per GROUP object its handle and the member handles (340 tags)
  deriving Repr, DecidableEq

/-- `BlocksSection.export_dxf` + `EntitySection.export_dxf` + `$HANDSEED = str(entitydb.handles)` -/
def writeFile (s : State) : FileAbs :=
  let ms := blockBr s (lower modelSpaceName)
  let ps := blockBr s (lower paperSpaceName)
  { blocks := s.blocks.map (fun b =>
      (b.2.2, if some b.2.2 = ms ∨ some b.2.2 = ps then [] else liveContent s b.2.2)),
    entities := (match ms with | some k => liveContent s k | none => []) ++
                (match ps with | some k => liveContent s k | none => []),
    handseed := s.next,
    groups := s.groups.map (fun g => ((auditGroup s g).2.1, (auditGroup s g).2.2)) }

def run (s : State) (ops : List Op) : State := ops.foldl (fun st op => (step st op).1) s

end EzdxfVerif.Doc

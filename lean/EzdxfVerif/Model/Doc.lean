/-
The document state machine (DESIGN.md appendix A), serving C05 / C04 / C06:
entity database + handle generator + entity spaces + block and layout name maps + layer table,
as driven by the public API of ezdxf (`layouts/base.py`, `entities/blockrecord.py`, `entitydb.py`,
`sections/blocks.py`, `sections/table.py`, `layouts/layouts.py`, `entities/dxfgfx.py`).

Handles are natural numbers.  The model does not predict *which* fresh handle the implementation
picks: every creating operation carries the handle(s) observed on the real code and the model
*checks* freshness (`h ≥ next`), so all theorems hold for every admissible choice.
`ents` is a monotone history: an entity record is never removed, only flagged dead / not in db.
Core Lean only.
-/
namespace EzdxfVerif.Doc

abbrev Str := List Nat

def lowerC (c : Nat) : Nat := if 65 ≤ c ∧ c ≤ 90 then c + 32 else c
def upperC (c : Nat) : Nat := if 97 ≤ c ∧ c ≤ 122 then c - 32 else c
/-- `str.lower()` / `str.upper()` on ASCII names (the generators use ASCII names only) -/
def lower (s : Str) : Str := s.map lowerC
def upper (s : Str) : Str := s.map upperC

def ofString (s : String) : Str := s.toList.map Char.toNat

structure Ent where
  h : Nat
  alive : Bool
  owner : Option Nat          -- dxf.owner: handle of the owning BLOCK_RECORD (none = unlinked)
  indb : Bool                 -- still a key of EntityDB._database
  ref : Option Str            -- INSERT: referenced block name as given
  psp : Bool := false         -- dxf.paperspace flag (set by set_owner from is_any_paperspace)
  deriving Repr, DecidableEq

structure Lay where
  key : Str                   -- name.upper()
  name : Str
  br : Nat
  tab : Nat                   -- dxf.taborder
  deriving Repr, DecidableEq

structure State where
  ents : List Ent                      -- every entity ever created by the history, creation order
  spaces : List (Nat × List Nat)       -- per live BLOCK_RECORD in the table: EntitySpace.entities (handles)
  blocks : List (Str × Str × Nat)      -- (key = name.lower(), name, block record handle)
  layouts : List Lay                   -- Layouts._layouts in dict order
  layers : List Str                    -- layer keys
  next : Nat                           -- HandleGenerator._handle
  deriving Repr, DecidableEq

inductive Err where
  | valueError | keyError | dxfValueError | dxfKeyError | dxfTableEntryError | dxfBlockInUseError
  | dxfStructureError | notFresh | other
  deriving Repr, DecidableEq

inductive Out where
  | ok | err (e : Err)
  deriving Repr, DecidableEq

inductive Op where
  | add (k h seed : Nat)                         -- layout.add_line(...) -> new entity h
  | ins (k : Nat) (name : Str) (h seed : Nat)    -- layout.add_blockref(name, ...) -> new INSERT h
  | unlink (k e : Nat)                           -- layout.unlink_entity(e)
  | addex (k e : Nat)                            -- layout.add_entity(e)
  | move (k1 e k2 : Nat)                         -- layout.move_to_layout(e, target)
  | del (k e : Nat)                              -- layout.delete_entity(e)
  | destroy (e : Nat)                            -- entity.destroy()
  | copy (e k h seed : Nat)                      -- entity.copy_to_layout(target) -> h
  | purge                                        -- entitydb.purge(); layout.purge() for all blocks
  | newBlock (name : Str) (br seed : Nat)        -- doc.blocks.new(name)
  | delBlock (name : Str) (safe : Bool)          -- doc.blocks.delete_block(name, safe)
  | renBlock (a b : Str)                         -- doc.blocks.rename_block(a, b)
  | newLayout (name : Str) (br seed : Nat)       -- doc.layouts.new(name)
  | delLayout (name : Str)
  | renLayout (a b : Str)
  | activate (name : Str)
  | addLayer (name : Str) (seed : Nat)
  | delLayer (name : Str)
  | reload (seed : Nat)                          -- doc.write(); ezdxf.read()
  | foreign (kind e : Nat)                       -- move / add_entity / copy_to_layout into ANOTHER document
  deriving Repr, DecidableEq

/-! ### small list helpers -/

def findEnt (s : State) (h : Nat) : Option Ent := s.ents.find? (·.h = h)

def setEnt (ents : List Ent) (h : Nat) (f : Ent → Ent) : List Ent :=
  ents.map fun e => if e.h = h then f e else e

def spaceOf (s : State) (k : Nat) : Option (List Nat) := (s.spaces.find? (·.1 = k)).map (·.2)

def setSpace (sp : List (Nat × List Nat)) (k : Nat) (f : List Nat → List Nat) : List (Nat × List Nat) :=
  sp.map fun p => if p.1 = k then (p.1, f p.2) else p

def isAlive (s : State) (h : Nat) : Bool :=
  match findEnt s h with | some e => e.alive | none => false

def blockBr (s : State) (key : Str) : Option Nat := (s.blocks.find? (·.1 = key)).map (·.2.2)
def blockName (s : State) (br : Nat) : Option Str := (s.blocks.find? (·.2.2 = br)).map (·.2.1)
def layoutOf (s : State) (key : Str) : Option Lay := s.layouts.find? (·.key = key)

def modelKey : Str := upper (ofString "Model")
def paperSpaceName : Str := ofString "*Paper_Space"
def modelSpaceName : Str := ofString "*Model_Space"
def tmpPaperSpaceName : Str := ofString "*Paper_Space999999"

/-- fresh handles: the created handles and the new seed lie above the old seed -/
def freshOk (s : State) (hs : List Nat) (seed : Nat) : Bool :=
  hs.all (fun h => s.next ≤ h && h < seed) && decide (s.next ≤ seed) && hs.Nodup

/-- `INVALID_LAYER_NAME_CHARACTERS = <>/\":;?*|=` and backtick -/
def invalidNameChars : List Nat := [60, 62, 47, 92, 34, 58, 59, 63, 42, 124, 61, 96]
def validTableName (n : Str) : Bool := n.all (fun c => !invalidNameChars.contains c)

/-! ### entity operations -/

/-- `BlockRecord.is_any_paperspace`: the block record of a layout other than "Model" -/
def isPaperBr (s : State) (k : Nat) : Bool := s.layouts.any (fun l => l.br == k && l.key != modelKey)

def newEnt (s : State) (k h seed : Nat) (ref : Option Str) : State × Out :=
  match spaceOf s k with
  | none => (s, .err .other)
  | some _ =>
    if freshOk s [h] seed then
      ({ s with ents := s.ents ++ [⟨h, true, some k, true, ref, isPaperBr s k⟩],
                spaces := setSpace s.spaces k (· ++ [h]), next := seed }, .ok)
    else (s, .err .notFresh)

/-- `BlockRecord.unlink_entity`: no-op for dead entities, ValueError if not in this space -/
def unlinkCore (s : State) (k e : Nat) : Option State :=
  if !isAlive s e then some s
  else match spaceOf s k with
    | none => none
    | some sp =>
      if sp.contains e then
        some { s with spaces := setSpace s.spaces k (·.erase e),
                      ents := setEnt s.ents e (fun x => { x with owner := none, psp := false }) }
      else none

/-- `BaseLayout.add_entity` for a bound entity -/
def addExisting (s : State) (k e : Nat) : State × Out :=
  match findEnt s e, spaceOf s k with
  | some x, some _ =>
    if !x.alive then (s, .err .other)
    else if !x.indb then (s, .err .dxfStructureError)
    else ({ s with spaces := setSpace s.spaces k (· ++ [e]),
                   ents := setEnt s.ents e (fun x => { x with owner := some k, psp := isPaperBr s k }) }, .ok)
  | _, _ => (s, .err .other)

def destroyEnt (s : State) (e : Nat) : State :=
  { s with ents := setEnt s.ents e (fun x => { x with alive := false }) }

/-- `BlockRecord.destroy` part: every live entity of the space dies; the record leaves the table -/
def dropContainer (s : State) (br : Nat) : State :=
  let content := (spaceOf s br).getD []
  { s with ents := s.ents.map (fun x => if content.contains x.h then { x with alive := false } else x),
           spaces := s.spaces.filter (·.1 ≠ br),
           blocks := s.blocks.filter (·.2.2 ≠ br) }

/-! ### block / layout helpers -/

def isLayoutBr (s : State) (br : Nat) : Bool := s.layouts.any (·.br = br)

/-- `is_special_block`: anonymous blocks `*X…` (X ∈ ADT… any letter followed by digits), arrows `_…` -/
def isAnonymous (nameUp : Str) : Bool :=
  match nameUp with
  | 42 :: c :: d :: _ => (65 ≤ c && c ≤ 90) && (48 ≤ d && d ≤ 57)     -- generators never use such names
  | _ => false

/-- `doc.query('INSERT[name=="<name>"]i')` iterates layouts and blocks, not the entity database:
    only live block references that are listed in an entity space count -/
def blockInUse (s : State) (name : Str) : Bool :=
  s.ents.any fun e => e.alive && s.spaces.any (fun p => p.2.contains e.h) &&
    (match e.ref with | some r => lower r == lower name | none => false)

/-- `Layouts.unique_paperspace_name`: first `*Paper_Space<n>` that is not a block name -/
def natDigits (n : Nat) : Str :=
  if h : n < 10 then [48 + n] else natDigits (n / 10) ++ [48 + n % 10]
termination_by n
decreasing_by omega

def uniquePaperName (s : State) : Nat → Nat → Str
  | 0, n => paperSpaceName ++ natDigits n
  | fuel + 1, n =>
    let nm := paperSpaceName ++ natDigits n
    if (blockBr s (lower nm)).isSome then uniquePaperName s fuel (n + 1) else nm

/-- `rename_block(old, new)` after the fix (existing target names are rejected) -/
def renameBlock (s : State) (a b : Str) : State × Out :=
  match blockBr s (lower a) with
  | none => (s, .err .dxfTableEntryError)
  | some br =>
    if lower a ≠ lower b ∧ (blockBr s (lower b)).isSome then (s, .err .dxfTableEntryError)
    else ({ s with blocks := s.blocks.filter (·.2.2 ≠ br) ++ [(lower b, b, br)] }, .ok)

def activeBr (s : State) : Option Nat := blockBr s (lower paperSpaceName)

/-- `Layouts.set_active_layout(name)` -/
def setActive (s : State) (name : Str) : State × Out :=
  if upper name = modelKey then (s, .err .dxfValueError)
  else match layoutOf s (upper name) with
    | none => (s, .err .keyError)
    | some l =>
      match activeBr s, blockName s l.br with
      | some act, some newName =>
        if act = l.br then (s, .ok)
        else
          let (s1, _) := renameBlock s paperSpaceName tmpPaperSpaceName
          let (s2, _) := renameBlock s1 newName paperSpaceName
          let (s3, _) := renameBlock s2 tmpPaperSpaceName newName
          (s3, .ok)
      | _, _ => (s, .err .other)

/-! ### the step function -/

def step (s : State) : Op → State × Out
  | .add k h seed => newEnt s k h seed none
  | .ins k name h seed => newEnt s k h seed (some name)
  | .unlink k e =>
    match unlinkCore s k e with
    | some s' => (s', .ok)
    | none => (s, .err .valueError)
  | .addex k e => addExisting s k e
  | .move k1 e k2 =>
    -- `entity.doc` of a destroyed entity: AttributeError; then unlink (ValueError -> DXFValueError), then add
    if !isAlive s e then (s, .err .other)
    else match unlinkCore s k1 e with
      | none => (s, .err .dxfValueError)
      | some s1 =>
        match addExisting s1 k2 e with
        | (s2, .ok) => (s2, .ok)
        | (_, o) => (s, o)                      -- target missing: generators never do this
  | .del k e =>
    match unlinkCore s k e with
    | none => (s, .err .valueError)
    | some s1 => (destroyEnt s1 e, .ok)
  | .destroy e => (destroyEnt s e, .ok)
  | .copy e k h seed =>
    match findEnt s e with
    | some x => if x.alive then newEnt s k h seed x.ref else (s, .err .other)
    | none => (s, .err .other)
  | .purge =>
    ({ s with ents := s.ents.map (fun x => { x with indb := x.indb && x.alive }),
              spaces := s.spaces.map (fun p => (p.1, p.2.filter (isAlive s))) }, .ok)
  | .newBlock name br seed =>
    if (blockBr s (lower name)).isSome then (s, .err .dxfTableEntryError)
    else if freshOk s [br] seed then
      ({ s with blocks := s.blocks ++ [(lower name, name, br)], spaces := s.spaces ++ [(br, [])], next := seed }, .ok)
    else (s, .err .notFresh)
  | .delBlock name safe =>
    match blockBr s (lower name) with
    | none => (s, .err .dxfKeyError)
    | some br =>
      if safe && (isLayoutBr s br || isAnonymous (upper name) || blockInUse s name) then
        (s, .err .dxfBlockInUseError)
      else (dropContainer s br, .ok)
  | .renBlock a b => renameBlock s a b
  | .newLayout name br seed =>
    if !validTableName name then (s, .err .dxfValueError)
    else if (layoutOf s (upper name)).isSome then (s, .err .dxfValueError)
    else if freshOk s [br] seed then
      let bn := uniquePaperName s (s.blocks.length + 1) 0
      ({ s with layouts := s.layouts ++ [⟨upper name, name, br, s.layouts.length + 1⟩],
                blocks := s.blocks ++ [(lower bn, bn, br)], spaces := s.spaces ++ [(br, [])], next := seed }, .ok)
    else (s, .err .notFresh)
  | .delLayout name =>
    if upper name = modelKey then (s, .err .dxfValueError)
    else match layoutOf s (upper name) with
      | none => (s, .err .keyError)
      | some l =>
        if s.layouts.length < 3 then (s, .err .dxfValueError)
        else
          let s1 :=
            if activeBr s = some l.br then
              match s.layouts.find? (fun x => x.key ≠ upper name ∧ x.key ≠ modelKey) with
              | some other => (setActive s other.name).1
              | none => s
            else s
          let s2 := { s1 with layouts := s1.layouts.filter (·.key ≠ upper name) }
          (dropContainer s2 l.br, .ok)
  | .renLayout a b =>
    if upper a = modelKey then (s, .err .dxfValueError)
    else if (layoutOf s (upper b)).isSome then (s, .err .dxfValueError)
    else match layoutOf s (upper a) with
      | none => (s, .err .dxfValueError)
      | some l =>
        ({ s with layouts := s.layouts.filter (·.key ≠ upper a) ++ [{ l with key := upper b, name := b }] }, .ok)
  | .activate name => setActive s name
  | .addLayer name seed =>
    if s.layers.contains (lower name) then (s, .err .dxfTableEntryError)
    else if freshOk s [] seed then ({ s with layers := s.layers ++ [lower name], next := seed }, .ok)
    else (s, .err .notFresh)
  | .delLayer name =>
    if s.layers.contains (lower name) then ({ s with layers := s.layers.erase (lower name) }, .ok)
    else (s, .err .dxfTableEntryError)
  | .reload seed =>
    -- only linked live entities are written; dead and unlinked entities do not come back
    if decide (s.next ≤ seed) then
      let keep := fun (x : Ent) => x.alive && x.indb && x.owner.isSome
      ({ s with ents := s.ents.map (fun x => if keep x then x else { x with alive := false, indb := false }),
                spaces := s.spaces.map (fun p => (p.1, p.2.filter (isAlive s))),
                -- loading re-creates the required layer "0"
                layers := if s.layers.contains [48] then s.layers else s.layers ++ [[48]],
                next := seed }, .ok)
    else (s, .err .notFresh)
  | .foreign _ e =>
    -- `entity.doc != layout.doc` / handle not in the other entity database: rejected, nothing changes
    if isAlive s e then (s, .err .dxfStructureError) else (s, .err .other)

/-! ### what `Drawing.write` exports (handles only): BLOCKS, ENTITIES, $HANDSEED -/

structure FileAbs where
  blocks : List (Nat × List Nat)     -- per BLOCK_RECORD in table order: entities between BLOCK and ENDBLK
  entities : List Nat                -- ENTITIES section: modelspace, then the active paperspace
  handseed : Nat
  deriving Repr, DecidableEq

def liveContent (s : State) (k : Nat) : List Nat := ((spaceOf s k).getD []).filter (isAlive s)

/-- `BlocksSection.export_dxf` + `EntitySection.export_dxf` + `$HANDSEED = str(entitydb.handles)` -/
def writeFile (s : State) : FileAbs :=
  let ms := blockBr s (lower modelSpaceName)
  let ps := blockBr s (lower paperSpaceName)
  { blocks := s.blocks.map (fun b =>
      (b.2.2, if some b.2.2 = ms ∨ some b.2.2 = ps then [] else liveContent s b.2.2)),
    entities := (match ms with | some k => liveContent s k | none => []) ++
                (match ps with | some k => liveContent s k | none => []),
    handseed := s.next }

def run (s : State) (ops : List Op) : State := ops.foldl (fun st op => (step st op).1) s

end EzdxfVerif.Doc

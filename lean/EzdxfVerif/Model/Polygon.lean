/-
Model/Polygon.lean — executable model (core Lean, exact rationals) of the polygon algorithms of ezdxf named by C19:

* `ezdxf.math._mapbox_earcut` / `ezdxf.acc.mapbox_earcut`: `earcut` for at most 80 exterior vertices (the path without
  z-order hashing): `linked_list`, `eliminate_holes` (`find_hole_bridge`, `split_polygon`), `filter_points`, `is_ear`,
  `earcut_linked` with its three passes, `cure_local_intersections`, `split_ear_cut`.
  The circular doubly linked list is a `List Node` whose head is the node the code holds a reference to
  (`p.next` = second element, `p.prev` = last element); `p = p.next` is `rotl`, `p = p.prev` is `rotr`.
  Identity tests against a remembered node (`ear is stop`, `p is not end`, `p is start`) are modelled by counting the steps
  that remain until the cursor is back at that node (the ring is not modified in between).
* `ezdxf.math.clipping`: `ConvexClippingPolygon2d` (`__init__`, `clip_polygon` = Sutherland-Hodgman, `clip_line`),
  `CohenSutherlandLineClipping2d` (`encode`, `clip_line`; the `while True` loop gets explicit fuel).
* `ezdxf.math.construct2d.convex_hull_2d` (Andrew's monotone chain as coded), `_construct.is_point_in_polygon_2d`,
  `has_clockwise_orientation`, `intersection_line_line_2d`.

All arithmetic kernels (every formula and every comparison) come from `Gen/PolygonKernels.lean`, which the harness
regenerates from the Python/Cython source on every run; this file only contributes the loops and the list surgery.
-/
import EzdxfVerif.Gen.PolygonKernels

namespace EzdxfVerif.Polygon
open EzdxfVerif.Gen

/-! ## points, nodes, rings -/

structure Pt where
  x : Rat
  y : Rat
deriving DecidableEq, Repr, Inhabited

/-- `_mapbox_earcut.Node`: `i` is the vertex index the code assigns, `pt` identifies the source point object
(`Node.point`): position in the concatenation exterior ++ holes. -/
structure Node where
  i : Nat
  pt : Nat
  x : Rat
  y : Rat
  steiner : Bool
deriving DecidableEq, Repr, Inhabited

abbrev Tri := Node × Node × Node

/-- summand of `signed_area`: `(point.x - prev.x) * (point.y + prev.y)` -/
def term (prev point : Node) : Rat := PolygonKernels.signedAreaTerm prev.x prev.y point.x point.y
/-- `area(p, q, r)`: negative for a counter-clockwise turn -/
def area (p q r : Node) : Rat := PolygonKernels.area p.x p.y q.x q.y r.x r.y
def nodeEq (p q : Node) : Bool := PolygonKernels.nodeEq p.x p.y q.x q.y

/-- last element of `p :: l` -/
def lastOr (p : Node) : List Node → Node
  | [] => p
  | q :: qs => lastOr q qs

def pathSum (prev : Node) : List Node → Rat
  | [] => 0
  | q :: qs => term prev q + pathSum q qs

/-- `signed_area(points)`: `prev = points[-1]; for point in points: s += term(prev, point); prev = point`
(clockwise positive, twice the enclosed area). -/
def signedArea : List Node → Rat
  | [] => 0
  | p :: ps => pathSum (lastOr p ps) (p :: ps)

def triArea (t : Tri) : Rat := area t.1 t.2.1 t.2.2

/-- `p = p.next` -/
def rotl : List Node → List Node
  | [] => []
  | p :: ps => ps ++ [p]

/-- `p = p.prev` -/
def rotr : List Node → List Node
  | [] => []
  | p :: ps => lastOr p ps :: (p :: ps).dropLast

/-- advance the cursor `k` steps (`k ≤ length`) -/
def rotBy (k : Nat) (l : List Node) : List Node := l.drop k ++ l.take k

def nth (l : List Node) (k : Nat) : Node := (l[k % l.length]?).getD default

/-- (p, p.next) for every node, starting at the cursor -/
def cyclicPairs (l : List Node) : List (Node × Node) := l.zip (rotl l)

def windows3 : List Node → List (Node × Node × Node)
  | a :: b :: c :: t => (a, b, c) :: windows3 (b :: c :: t)
  | _ => []

theorem rotr_length (l : List Node) : (rotr l).length = l.length := by
  cases l with
  | nil => rfl
  | cons p ps => simp [rotr]

theorem rotl_length (l : List Node) : (rotl l).length = l.length := by
  cases l with
  | nil => rfl
  | cons p ps => simp [rotl]

/-! ## is_ear -/

/-- `is_ear(ear)` for the cursor node; the ring has at least three nodes -/
def isEar (l : List Node) : Bool :=
  match l with
  | b :: c :: r =>
    let a := lastOr c r
    if PolygonKernels.isEarReflex a.x a.y b.x b.y c.x c.y then false
    else !(windows3 (c :: r)).any (fun w =>
      PolygonKernels.isEarBlocked a.x a.y b.x b.y c.x c.y w.1.x w.1.y w.2.1.x w.2.1.y w.2.2.x w.2.2.y)
  | _ => false

/-! ## filter_points -/

/-- the removal test of `filter_points` for the cursor node -/
def removable (l : List Node) : Bool :=
  match l with
  | [] => false
  | [p] => PolygonKernels.filterRemovable p.steiner p.x p.y p.x p.y p.x p.y
  | p :: q :: r =>
    let a := lastOr q r
    PolygonKernels.filterRemovable p.steiner a.x a.y p.x p.y q.x q.y

/-- Bookkeeping for one node the caller wants to find again after `filter_points` (the bridge node in `eliminate_hole`):
`pos` = its position while it is in the ring; once it was removed, `prv`/`nxt` = positions of the nodes its (now stale)
`prev`/`next` pointers refer to, as long as those are still in the ring. -/
structure Mark where
  pos : Option Nat := none
  prv : Option Nat := none
  nxt : Option Nat := none
deriving Repr, DecidableEq

/-- position of a marked node after `p = p.next` in a ring of `n` nodes -/
def posRotl (n : Nat) (m : Option Nat) : Option Nat := m.map (fun j => if j = 0 then n - 1 else j - 1)
/-- position of a marked node after the cursor node was removed and the cursor moved to its predecessor -/
def posRemove (n : Nat) (m : Option Nat) : Option Nat :=
  m.bind (fun j => if j = 0 then none else if j = n - 1 then some 0 else some j)

def Mark.rotl (n : Nat) (m : Mark) : Mark := ⟨posRotl n m.pos, posRotl n m.prv, posRotl n m.nxt⟩
def Mark.remove (n : Nat) (m : Mark) : Mark :=
  if m.pos = some 0 then ⟨none, some 0, some (1 % (n - 1))⟩
  else ⟨posRemove n m.pos, posRemove n m.prv, posRemove n m.nxt⟩

/-- `filter_points(start, end)`.  `l`: ring with the cursor at `p`; `r`: number of `p = p.next` steps after which `p is end`
(`len` for `end = start`, `1` for `end = start.next`); `m`: bookkeeping for a node the caller wants to find again.
Returns the ring with the cursor at the returned node `end`. -/
def filterPointsM (l : List Node) (r : Nat) (m : Mark) : List Node × Mark :=
  match l with
  | [] => ([], m)
  | [p] => ([p], m)
  | p :: q :: t =>
    if removable (p :: q :: t) then
      let l' := rotr (q :: t)
      let m' := m.remove (t.length + 2)
      if t.isEmpty then (l', m') else filterPointsM l' l'.length m'
    else
      let m' := m.rotl (t.length + 2)
      if r ≤ 1 then (rotl (p :: q :: t), m') else filterPointsM (rotl (p :: q :: t)) (r - 1) m'
termination_by (l.length, r)
decreasing_by
  · simp only [rotr_length, List.length_cons]
    exact Prod.Lex.left _ _ (by omega)
  · simp only [rotl_length, List.length_cons]
    exact Prod.Lex.right _ (by omega)

def filterPoints (l : List Node) (r : Nat) : List Node := (filterPointsM l r {}).1

/-! ## cure_local_intersections -/

/-- a cured quadruple a, p, q = p.next, b: the code emits the triangle (a, p, b) and removes p and q -/
abbrev Cure := Node × Node × Node × Node

def cureTestAt (l : List Node) : Bool :=
  match l with
  | p :: q :: b :: t =>
    let n := t.length + 3
    let a := nth l (n - 1)
    let ap := nth l (n - 2)
    let bn := nth l 3
    PolygonKernels.cureTest ap.x ap.y a.x a.y p.x p.y q.x q.y b.x b.y bn.x bn.y
  | _ => false

/-- the loop of `cure_local_intersections`; `r`: steps that remain until `p is start`.  For rings of fewer than four nodes the
test cannot succeed (`a` and `b` are the same node, or `locally_inside` fails on a two-node ring), the loop only walks. -/
def cureLoop (l : List Node) (r : Nat) : List Node × List Tri × List Cure :=
  match l with
  | p :: q :: b :: c :: t =>
    if cureTestAt (p :: q :: b :: c :: t) then
      let a := lastOr c t
      let rest := cureLoop (rotl (b :: c :: t)) (t.length + 1)
      (rest.1, (a, p, b) :: rest.2.1, (a, p, q, b) :: rest.2.2)
    else if r ≤ 1 then (rotl (p :: q :: b :: c :: t), [], []) else cureLoop (rotl (p :: q :: b :: c :: t)) (r - 1)
  | _ => (rotBy r l, [], [])
termination_by (l.length, r)
decreasing_by
  · simp only [rotl_length, List.length_cons]
    exact Prod.Lex.left _ _ (by omega)
  · simp only [rotl_length, List.length_cons]
    exact Prod.Lex.right _ (by omega)

/-! ## split_ear_cut -/

def intersectsPolygon (la : List Node) (a b : Node) : Bool :=
  (cyclicPairs la).any (fun e =>
    PolygonKernels.intersectsPolygonEdge a.i b.i e.1.i e.2.i a.x a.y b.x b.y e.1.x e.1.y e.2.x e.2.y)

def middleInside (la : List Node) (a b : Node) : Bool :=
  (cyclicPairs la).foldl (fun ins e =>
    if PolygonKernels.midToggle a.x a.y b.x b.y e.1.x e.1.y e.2.x e.2.y then !ins else ins) false

/-- `a.i != b.i and is_valid_diagonal(a, b)` for `a` = cursor, `b` = node `j` steps ahead (`2 ≤ j ≤ len - 2`) -/
def diagonalOk (la : List Node) (j : Nat) : Bool :=
  let n := la.length
  let a := nth la 0
  let b := nth la j
  let an := nth la 1
  let ap := nth la (n - 1)
  let bp := nth la (j - 1)
  let bn := nth la (j + 1)
  PolygonKernels.splitCandidate a.i b.i
    (PolygonKernels.validDiagonal an.i ap.i b.i (intersectsPolygon la a b) (middleInside la a b)
      ap.x ap.y a.x a.y an.x an.y bp.x bp.y b.x b.y bn.x bn.y)

/-- `split_polygon(a, b)` for `a` = cursor and `b` = node `j` steps ahead: (ring of `a`, ring of the returned copy `b2`) -/
def splitAt (la : List Node) (j : Nat) : List Node × List Node :=
  match la.take j, la.drop j with
  | a :: xs, b :: ys =>
    let a2 : Node := { a with steiner := false }
    let b2 : Node := { b with steiner := false }
    (a :: b :: ys, b2 :: a2 :: xs)
  | _, _ => (la, [])

/-- the double loop of `split_ear_cut`: first (rotation `s`, offset `j`) with a valid diagonal -/
def findSplit (l : List Node) : Option (List Node × List Node) :=
  let n := l.length
  (List.range n).findSome? (fun s =>
    let la := rotBy s l
    (List.range (n - 3)).findSome? (fun d =>
      let j := d + 2
      if diagonalOk la j then
        let sp := splitAt la j
        some (filterPoints sp.1 1, filterPoints sp.2 1)
      else none))

/-! ## earcut_linked -/

structure Out where
  tris : List Tri := []
  /-- rings the algorithm stopped on: finished ones (fewer than three nodes) and abandoned ones -/
  left : List (List Node) := []
  cured : List Cure := []
  fuelOut : Bool := false
deriving Repr

def Out.append (a b : Out) : Out :=
  { tris := a.tris ++ b.tris, left := a.left ++ b.left, cured := a.cured ++ b.cured, fuelOut := a.fuelOut || b.fuelOut }

/-- `earcut_linked(ear, triangles, 0, 0, 0, pass_)`; `k` = number of `ear = next` steps since `stop` was set. -/
def earcutLinked : Nat → List Node → Nat → Nat → Out
  | 0, l, _, _ => { left := [l], fuelOut := true }
  | fuel + 1, l, k, pass =>
    if l.length < 3 then { left := [l] }
    else if isEar l then
      match l with
      | b :: c :: r =>
        let o := earcutLinked fuel (rotl (c :: r)) 0 pass
        { o with tris := (lastOr c r, b, c) :: o.tris }
      | _ => { left := [l] }
    else
      let l' := rotl l
      if k + 1 < l.length then earcutLinked fuel l' (k + 1) pass
      else if pass = 0 then earcutLinked fuel (filterPoints l' l'.length) 0 1
      else if pass = 1 then
        let f := filterPoints l' l'.length
        let c := cureLoop f f.length
        let g := filterPoints c.1 c.1.length
        let o := earcutLinked fuel g 0 2
        { o with tris := c.2.1 ++ o.tris, cured := c.2.2 ++ o.cured }
      else
        match findSplit l' with
        | none => { left := [l'] }
        | some (r1, r2) => (earcutLinked fuel r1 0 0).append (earcutLinked fuel r2 0 0)

/-! ## linked_list, eliminate_holes -/

/-- nodes of a point list before `i` is assigned; `pt` = position in exterior ++ holes -/
def mkNodes : List Pt → Nat → List Node
  | [], _ => []
  | p :: ps, ptOff => { i := 0, pt := ptOff, x := p.x, y := p.y, steiner := false } :: mkNodes ps (ptOff + 1)

/-- `insert_node(start, point, last); start += 1` along the list -/
def setIndex : List Node → Nat → List Node
  | [], _ => []
  | n :: ns, start => { n with i := start } :: setIndex ns (start + 1)

/-- `if last and last == last.next: remove_node(last); last = last.next` -/
def dropDuplicateLast : List Node → List Node
  | last :: nxt :: t => if nodeEq last nxt then nxt :: t else last :: nxt :: t
  | ring => ring

/-- `linked_list(points, start, ccw)`: ring with the cursor at the returned node `last` -/
def linkedList (pts : List Pt) (start ptOff : Nat) (ccw : Bool) : List Node :=
  let ns := mkNodes pts ptOff
  dropDuplicateLast (rotr (
    if PolygonKernels.sameWinding ccw (signedArea ns) then setIndex ns start
    else (setIndex ns start).reverse))

/-- index (steps from the cursor) of `get_leftmost(start)` -/
def leftmostIdx (l : List Node) : Nat :=
  match l with
  | [] => 0
  | s :: _ =>
    ((List.range l.length).zip l).foldl (fun (acc : Nat × Node) e =>
      if PolygonKernels.leftmostLess e.2.x e.2.y acc.2.x acc.2.y then (e.1, e.2) else acc) (0, s) |>.1

/-- Python tuple comparison `(x1, y1) <= (x2, y2)` used by `queue.sort(key=lambda node: (node.x, node.y))` -/
def keyLe (a b : Node) : Bool := decide (a.x < b.x) || (decide (a.x = b.x) && decide (a.y ≤ b.y))

/-- stable insertion (the sort of `eliminate_holes` is stable) -/
def insertHole (h : List Node) : List (List Node) → List (List Node)
  | [] => [h]
  | g :: gs => if keyLe (nth g 0) (nth h 0) then g :: insertHole h gs else h :: g :: gs

def sortHoles (hs : List (List Node)) : List (List Node) := hs.foldl (fun acc h => insertHole h acc) []

/-- first loop of `find_hole_bridge`: ((qx, index of m, early return), touch).  The loop returns early when the hole point is the
vertex `p.next` of the outer ring (`if hole == p.next: return p.next`, fix 6e5a41fe8, as in earcut 3.0) or when the ray
touches a segment (`x == hx`).  `touch`: the leftmost end point of the first segment that contains the hole point without being
intersected by the ray (fix 13723478a and its generalisation 0f325b9d9); it is used after the loop when no early return happened. -/
def bridgeScan (hole : Node) (ring : List Node) : Option (Rat × Nat × Bool) × Option Nat :=
  let n := ring.length
  let hx := hole.x
  let hy := hole.y
  ((List.range n).zip (cyclicPairs ring)).foldl (fun (acc : Option (Rat × Nat × Bool) × Option Nat) e =>
    let st := acc.1
    match st with
    | some (_, _, true) => acc
    | _ =>
      let p := e.2.1
      let pn := e.2.2
      if nodeEq hole pn then (some (hx, (e.1 + 1) % n, true), acc.2)
      else if PolygonKernels.bridgeHit hy p.x p.y pn.x pn.y then
        let x := PolygonKernels.bridgeX hy p.x p.y pn.x pn.y
        let ok := match st with
          | none => PolygonKernels.bridgeAcceptFirst hx x
          | some (qx, _, _) => PolygonKernels.bridgeAccept hx x qx
        if ok then
          let m := if PolygonKernels.bridgePickP p.x p.y pn.x pn.y then e.1 else (e.1 + 1) % n
          (some (x, m, PolygonKernels.bridgeTouch x hx), acc.2)
        else acc
      else if acc.2.isNone && PolygonKernels.bridgeOnSegment hole.x hole.y p.x p.y pn.x pn.y then
        (st, some (if PolygonKernels.bridgePickPH p.x p.y pn.x pn.y then e.1 else (e.1 + 1) % n))
      else acc) (none, none)

/-- `find_hole_bridge(hole, outer_node)`: steps from the cursor of the outer ring to the bridge node -/
def findHoleBridge (hole : Node) (ring : List Node) : Option Nat :=
  let n := ring.length
  let hx := hole.x
  let hy := hole.y
  if n > 0 ∧ nodeEq hole (nth ring 0) then some 0   -- `if hole == p: return p` before the loop
  else
  match bridgeScan hole ring with
  | (some (_, m0, true), _) => some m0
  | (_, some t) => some t
  | (none, none) => none
  | (some (qx, m0, false), none) =>
    let stop := nth ring m0
    let mx := stop.x
    let my := stop.y
    let res := (List.range n).foldl (fun (st : Nat × Option Rat) d =>
      let j := (m0 + d) % n
      let p := nth ring j
      if PolygonKernels.bridgeCand hx hy qx mx my p.x p.y then
        let tan := PolygonKernels.bridgeTan hx hy p.x p.y
        let pp := nth ring (j + n - 1)
        let pn := nth ring (j + 1)
        let m := nth ring st.1
        let mp := nth ring (st.1 + n - 1)
        let mn := nth ring (st.1 + 1)
        let better := match st.2 with
          | none => PolygonKernels.bridgeBetterFirst tan pp.x pp.y p.x p.y pn.x pn.y hole.x hole.y mp.x mp.y m.x m.y mn.x mn.y
          | some tm => PolygonKernels.bridgeBetter tan tm pp.x pp.y p.x p.y pn.x pn.y hole.x hole.y mp.x mp.y m.x m.y mn.x mn.y
        if better then (j, some tan) else st
      else st) (m0, none)
    some res.1

/-- `split_polygon(bridge, hole)` for two different rings: merged ring with the cursor at the returned copy `b2`,
and the position of `bridge` in it -/
def mergeHole (outerAtBridge : List Node) (holeRing : List Node) : List Node × Nat :=
  match outerAtBridge, holeRing with
  | a :: as, b :: bs =>
    let a2 : Node := { a with steiner := false }
    let b2 : Node := { b with steiner := false }
    (b2 :: a2 :: as ++ a :: b :: bs, as.length + 2)
  | _, _ => (outerAtBridge, 0)

/-- `eliminate_hole(hole, outer_node)`.  The first `filter_points(bridge_reverse, bridge_reverse.next)` may remove the bridge
node itself; the second call `filter_points(bridge, bridge.next)` then starts on a detached node whose stale pointers
still name its former neighbours: it "removes" that node again (no effect when the two neighbours are still adjacent ring
nodes), moves to `bridge.prev` and filters the whole ring from there.  The Boolean reports the remaining situation that is
not modelled (a former neighbour was removed as well, the code then works on an inconsistent list). -/
def eliminateHole (holeRing : List Node) (outer : List Node) : List Node × Bool :=
  match holeRing with
  | [] => (outer, false)
  | h :: _ =>
    match findHoleBridge h outer with
    | none => (outer, false)
    | some idx =>
      let mg := mergeHole (rotBy idx outer) holeRing
      let f1 := filterPointsM mg.1 1 { pos := some mg.2 }
      let n := f1.1.length
      match f1.2.pos, f1.2.prv, f1.2.nxt with
      | some j, _, _ => (filterPoints (rotBy j f1.1) 1, false)
      | none, some i, some k =>
        if k = (i + 1) % n then
          (if n ≤ 1 then f1.1 else filterPoints (rotBy i f1.1) n, false)
        else (f1.1, true)
      | _, _, _ => (f1.1, true)

/-- the hole rings of `eliminate_holes`, each with the cursor at its leftmost node, in queue order before sorting -/
def holeRings : List (List Pt) → Nat → Nat → List (List Node)
  | [], _, _ => []
  | h :: hs, start, ptOff =>
    if h.length < 1 then holeRings hs start ptOff
    else
      let ring := linkedList h start ptOff false
      let ring := match ring with
        | [p] => [{ p with steiner := true }]
        | r => r
      rotBy (leftmostIdx ring) ring :: holeRings hs (start + h.length) (ptOff + h.length)

def eliminateHoles (holes : List (List Pt)) (start : Nat) (outer : List Node) : List Node × Bool :=
  (sortHoles (holeRings holes start start)).foldl (fun acc h =>
    let r := eliminateHole h acc.1
    (r.1, acc.2 || r.2)) (outer, false)

inductive EarcutResult where
  | ok (o : Out) (detached : Bool)
  /-- more than 80 exterior vertices: the z-order hashed path, not modelled -/
  | hashed

/-- `earcut(exterior, holes)` -/
def earcut (fuel : Nat) (exterior : List Pt) (holes : List (List Pt)) : EarcutResult :=
  if decide ((exterior.length : Rat) > PolygonKernels.hashThreshold) then .hashed
  else
    let outer := linkedList exterior 0 0 true
    if outer.length < 3 then .ok {} false
    else
      let e := if holes.length > 0 then eliminateHoles holes exterior.length outer else (outer, false)
      .ok (earcutLinked fuel e.1 0 0) e.2

/-! ## tolerances -/

/-- `math.isclose(a, b, rel_tol=rel, abs_tol=abs)` -/
def isclose (a b rel abs : Rat) : Bool :=
  decide (a = b) ||
  decide (PolygonKernels.rabs (a - b) ≤
    PolygonKernels.rmax (rel * PolygonKernels.rmax (PolygonKernels.rabs a) (PolygonKernels.rabs b)) abs)

/-- `Vec2.isclose(other, abs_tol=absTol)` (default `rel_tol`) -/
def ptClose (p q : Pt) (absTol : Rat) : Bool :=
  isclose p.x q.x PolygonKernels.iscloseRelTol absTol && isclose p.y q.y PolygonKernels.iscloseRelTol absTol

def lastPt (p : Pt) : List Pt → Pt
  | [] => p
  | q :: qs => lastPt q qs

/-- drop a closing vertex: `if len(v) > 1 and v[0].isclose(v[-1], abs_tol): v.pop()` -/
def popClosing (v : List Pt) (absTol : Rat) : List Pt :=
  match v with
  | p :: q :: t => if ptClose p (lastPt q t) absTol then (p :: q :: t).dropLast else v
  | _ => v

/-! ## predicates of _construct.py -/

def lineLine (virtual : Bool) (absTol : Rat) (s1 s2 c1 c2 : Pt) : Option Pt :=
  (PolygonKernels.lineLine virtual absTol s1.x s1.y s2.x s2.y c1.x c1.y c2.x c2.y).map (fun v => ⟨v.1, v.2⟩)

def cwSum (prev : Pt) : List Pt → Rat
  | [] => 0
  | q :: qs => PolygonKernels.cwTerm prev.x prev.y q.x q.y + cwSum q qs

/-- `has_clockwise_orientation(vertices)`; `none` = ValueError (fewer than three vertices) -/
def hasClockwiseOrientation (v : List Pt) : Option Bool :=
  match v with
  | p :: q :: r :: t =>
    let closed := if ptClose p (lastPt q (r :: t)) PolygonKernels.iscloseAbsTol then v else v ++ [p]
    match closed with
    | c :: cs => some (PolygonKernels.cwPositive (cwSum c cs))
    | [] => none
  | _ => none

def pipLoop (x y absTol : Rat) (p1 : Pt) : List Pt → Bool → Option Bool
  | [], inside => some inside
  | p2 :: rest, inside =>
    if PolygonKernels.pipOnEdge x y p1.x p1.y p2.x p2.y absTol then none
    else pipLoop x y absTol p2 rest (if PolygonKernels.pipToggle x y p1.x p1.y p2.x p2.y then !inside else inside)

/-- `if polygon[0].isclose(polygon[-1]): polygon = polygon[:-1]` -/
def pipRing (polygon : List Pt) : List Pt :=
  match polygon with
  | p :: q :: t => if ptClose p (lastPt q t) PolygonKernels.iscloseAbsTol then polygon.dropLast else polygon
  | _ => polygon

/-- `is_point_in_polygon_2d(point, polygon, abs_tol)`: +1 inside, 0 boundary, -1 outside -/
def pointInPolygon (pt : Pt) (polygon : List Pt) (absTol : Rat) : Int :=
  if polygon.length < 3 then -1
  else
    let poly := pipRing polygon
    match poly with
    | p :: q :: r :: t =>
      match pipLoop pt.x pt.y absTol (lastPt r t) poly false with
      | none => 0
      | some true => 1
      | some false => -1
    | _ => -1

/-! ## construct2d.is_convex_polygon_2d (after fix 4fe7d128a) -/

/-- `Vec2.isclose(other)` with its default tolerances -/
def closeDefault (p q : Pt) : Bool := ptClose p q PolygonKernels.iscloseAbsTol

/-- `index = len(polygon) - 2; while index > 0 and polygon[index].isclose(prev): index -= 1; prev_prev = polygon[index]`;
the list argument is `polygon[len-2], …, polygon[0]` -/
def convexSeed (prev : Pt) : List Pt → Pt
  | [] => prev
  | [q] => q
  | q :: r :: rest => if closeDefault q prev then convexSeed prev (r :: rest) else q

/-- the `for vertex in polygon` loop; `g` = `global_sign` -/
def convexLoop (strict : Bool) (eps : Rat) : Pt → Pt → Rat → List Pt → Bool
  | _, _, g, [] => decide (g ≠ 0)
  | pp, p, g, v :: rest =>
    if closeDefault v p then convexLoop strict eps pp p g rest
    else
      let det := PolygonKernels.convexDet p.x p.y v.x v.y pp.x pp.y
      if PolygonKernels.convexSignificant det eps then
        let cur := PolygonKernels.convexSign det
        let g' := if g = 0 then cur else g
        if g' ≠ cur then false else convexLoop strict eps p v g' rest
      else if strict then false else convexLoop strict eps p v g rest

/-- `is_convex_polygon_2d(polygon, strict=strict, epsilon=eps)` -/
def isConvexPolygon (strict : Bool) (eps : Rat) (polygon : List Pt) : Bool :=
  if polygon.length < 3 then false
  else match polygon.reverse with
    | last :: before => convexLoop strict eps (convexSeed last before) last 0 polygon
    | [] => false

/-- the corners `(prev_prev, prev, vertex)` the loop evaluates (coincident vertices are skipped) -/
def convexCorners : Pt → Pt → List Pt → List (Pt × Pt × Pt)
  | _, _, [] => []
  | pp, p, v :: rest => if closeDefault v p then convexCorners pp p rest else (pp, p, v) :: convexCorners p v rest

def cornerDet (c : Pt × Pt × Pt) : Rat := PolygonKernels.convexDet c.2.1.x c.2.1.y c.2.2.x c.2.2.y c.1.x c.1.y

/-! ## Sutherland-Hodgman: ConvexClippingPolygon2d -/

def shInside (cs ce p : Pt) : Bool := PolygonKernels.shInside cs.x cs.y ce.x ce.y p.x p.y
def shInsideLine (cs ce p : Pt) : Bool := PolygonKernels.shInsideLine cs.x cs.y ce.x ce.y p.x p.y

/-- `edge_intersection()` of `clip_polygon`: the point appended, if any -/
def shCut (cs ce : Pt) (absTol : Rat) (es ee : Pt) : List Pt :=
  match lineLine true absTol es ee cs ce with
  | some ip => [ip]
  | none => []

/-- the inner loop of `clip_polygon` for one clipping edge `cs -> ce`; `es` = `edge_start` -/
def clipEdgeGo (cs ce : Pt) (absTol : Rat) (es : Pt) : List Pt → List Pt
  | [] => []
  | ee :: rest =>
    (if shInside cs ce ee then
       (if !shInside cs ce es then shCut cs ce absTol es ee else []) ++ [ee]
     else if shInside cs ce es then shCut cs ce absTol es ee else [])
    ++ clipEdgeGo cs ce absTol ee rest

/-- one iteration of the outer loop of `clip_polygon` -/
def clipEdge (cs ce : Pt) (absTol : Rat) (clipped : List Pt) : List Pt :=
  match popClosing clipped absTol with
  | [] => []
  | v :: vs => clipEdgeGo cs ce absTol (lastPt v vs) (v :: vs)

def clipPolygonGo (absTol : Rat) (cs : Pt) : List Pt → List Pt → List Pt
  | [], clipped => clipped
  | ce :: rest, clipped => clipPolygonGo absTol ce rest (clipEdge cs ce absTol clipped)

/-- `ConvexClippingPolygon2d.clip_polygon(polygon)[0]` for the stored clipping polygon `clip` -/
def clipPolygon (clip : List Pt) (absTol : Rat) (polygon : List Pt) : List Pt :=
  match clip with
  | [] => polygon
  | c :: cs => clipPolygonGo absTol (lastPt c cs) (c :: cs) polygon

/-- `ConvexClippingPolygon2d.__init__`: the stored `_clipping_polygon`; `none` = ValueError -/
def mkConvexClip (vertices : List Pt) (ccwCheck : Bool) (absTol : Rat) : Option (List Pt) :=
  let clip := popClosing vertices absTol
  if clip.length < 3 then none
  else if ccwCheck && (hasClockwiseOrientation clip).getD false then some clip.reverse
  else some clip

/-- `ConvexClippingPolygon2d.clip_line`: `none` = empty tuple -/
def clipLineGo (absTol : Rat) (cs : Pt) : List Pt → Pt → Pt → Option (Pt × Pt)
  | [], es, ee => some (es, ee)
  | ce :: rest, es, ee =>
    if shInsideLine cs ce es then
      if !shInsideLine cs ce ee then
        clipLineGo absTol ce rest es ((lineLine true absTol es ee cs ce).getD ee)
      else clipLineGo absTol ce rest es ee
    else if shInsideLine cs ce ee then
      clipLineGo absTol ce rest ((lineLine true absTol es ee cs ce).getD es) ee
    else none

def clipLineConvex (clip : List Pt) (absTol : Rat) (s e : Pt) : Option (Pt × Pt) :=
  match clip with
  | [] => some (s, e)
  | c :: cs => clipLineGo absTol (lastPt c cs) (c :: cs) s e

/-! ## ConcaveClippingPolygon2d.clip_polygon: the branch for "Greiner-Hormann returned no part" -/

/-- `ConcaveClippingPolygon2d.__init__`: the stored `_clipping_polygon`; `none` = ValueError -/
def mkConcaveClip (vertices : List Pt) (absTol : Rat) : Option (List Pt) :=
  let clip := popClosing vertices absTol
  if clip.length < 3 then none else some clip

/-- mid points of the edges of the closed polygon `v`: `a.lerp(b) for a, b in zip(v, v[1:] + v[:1])` -/
def edgeMids (v : List Pt) : List Pt :=
  match v with
  | [] => []
  | p :: ps => (v.zip (ps ++ [p])).map (fun e => ⟨e.1.x + (e.2.x - e.1.x) * (1 / 2), e.1.y + (e.2.y - e.1.y) * (1 / 2)⟩)

/-- `clip_polygon(polygon)` when the bounding boxes overlap and `clip_arbitrary_polygons` returns no part (the boundaries do not
cross properly): `none` = nothing is returned, `some v` = the whole subject (without its closing vertex) is returned.
The decision is the regenerated kernel `concaveFallbackOutside` applied to the point-in-polygon codes of the subject vertices and
of the mid points of the subject edges (fix c773d3f04). -/
def concaveNoPart (clip : List Pt) (absTol : Rat) (subject : List Pt) : Option (List Pt) :=
  let vertices := popClosing subject absTol
  if vertices.length < 3 then none
  else if PolygonKernels.concaveFallbackOutside (vertices.map (fun v => pointInPolygon v clip absTol))
      ((edgeMids vertices).map (fun v => pointInPolygon v clip absTol)) then none
  else some vertices

/-! ## Greiner-Hormann (`GHPolygon.clip`), phase 2: entry/exit marks, and which boundary pieces phase 3 walks -/

/-- `for v in polygon: if v.intersect: v.entry = entry; entry = not entry`; the list holds `v.intersect` of the nodes in ring
order starting at `polygon.first`; `none` = ordinary vertex (its `entry` attribute is not used) -/
def ghMark (entry : Bool) : List Bool → List (Option Bool)
  | [] => []
  | true :: rest => some entry :: ghMark (!entry) rest
  | false :: rest => none :: ghMark entry rest

/-- `s_entry ^= is_inside_polygon(self.first.vtx, clip)` followed by the marking loop -/
def ghPhase2 (opEntry inside : Bool) (isect : List Bool) : List (Option Bool) := ghMark (opEntry != inside) isect

def ghLastSome : List (Option Bool) → Option Bool
  | [] => none
  | some e :: rest => (ghLastSome rest).orElse (fun _ => some e)
  | none :: rest => ghLastSome rest

/-- phase 3 leaves an intersection node forwards when its mark is `entry` (`if current.entry: current = current.next …`): an
ordinary vertex is part of the result when the piece it lies on is walked, i.e. when the mark of the closest intersection node
before it (cyclically; `cur` = the mark carried along) is `true`.  One Boolean per ordinary vertex, in ring order. -/
def ghUsedGo (cur : Option Bool) : List (Option Bool) → List Bool
  | [] => []
  | some e :: rest => ghUsedGo (some e) rest
  | none :: rest => (cur == some true) :: ghUsedGo cur rest

def ghUsed (marks : List (Option Bool)) : List Bool := ghUsedGo (ghLastSome marks) marks

/-! ## Cohen-Sutherland -/

structure Win where
  xmin : Rat
  xmax : Rat
  ymin : Rat
  ymax : Rat
deriving Repr

def Win.encode (w : Win) (x y : Rat) : Nat := PolygonKernels.csEncode x y w.xmin w.xmax w.ymin w.ymax

inductive CsResult where
  | accept (p0 p1 : Pt)
  | reject
  | fuel
deriving Repr, DecidableEq

/-- the `while True` loop of `CohenSutherlandLineClipping2d.clip_line` with explicit fuel.  `done0`/`done1`: outcode bits already
clipped for each end point.  The code keeps `code0`/`code1` in variables; they always equal `encode(end point) & ~done`
(initially `done = 0`, and an end point, its `done` set and its code only change together), so they are recomputed here. -/
def csLoop (w : Win) : Nat → Rat → Rat → Rat → Rat → Rat → Rat → Nat → Nat → CsResult
  | 0, _, _, _, _, _, _, _, _ => .fuel
  | fuel + 1, x0, y0, x1, y1, x, y, done0, done1 =>
    let code0 := PolygonKernels.csMask (w.encode x0 y0) done0
    let code1 := PolygonKernels.csMask (w.encode x1 y1) done1
    if PolygonKernels.csAccept code0 code1 then .accept ⟨x0, y0⟩ ⟨x1, y1⟩
    else if PolygonKernels.csReject code0 code1 then .reject
    else
      let code := PolygonKernels.csPick code0 code1
      let nx := PolygonKernels.csClipX code x y x0 y0 x1 y1 w.xmin w.xmax w.ymin w.ymax
      let ny := PolygonKernels.csClipY code x y x0 y0 x1 y1 w.xmin w.xmax w.ymin w.ymax
      let bit := PolygonKernels.csClipBit code
      if code = code0 then csLoop w fuel nx ny x1 y1 nx ny (PolygonKernels.csDone done0 bit) done1
      else csLoop w fuel x0 y0 nx ny nx ny done0 (PolygonKernels.csDone done1 bit)

def csClipLine (w : Win) (fuel : Nat) (p0 p1 : Pt) : CsResult := csLoop w fuel p0.x p0.y p1.x p1.y p0.x p0.y 0 0

/-! ## convex_hull_2d -/

def ptLt (a b : Pt) : Bool := PolygonKernels.vecLt a.x a.y b.x b.y

/-- insert into a sorted duplicate-free list (`set(points)` followed by `sort()`) -/
def insertPt (p : Pt) : List Pt → List Pt
  | [] => [p]
  | q :: qs => if p = q then q :: qs else if ptLt p q then p :: q :: qs else q :: insertPt p qs

def sortDedup (pts : List Pt) : List Pt := pts.foldl (fun acc p => insertPt p acc) []

def hullPopTest (o a b : Pt) : Bool := PolygonKernels.hullPop o.x o.y a.x a.y b.x b.y

/-- `while k >= floor and cross(hull[k-2], hull[k-1], v) <= 0: k -= 1` then `hull[k] = v; k += 1`;
the stack is kept top first -/
def hullPush (floor : Nat) (stack : List Pt) (v : Pt) : List Pt :=
  match stack with
  | a :: o :: rest =>
    if floor ≤ rest.length + 2 ∧ hullPopTest o a v then hullPush floor (o :: rest) v else v :: stack
  | _ => v :: stack
termination_by stack.length

def lowerHull (vs : List Pt) : List Pt := vs.foldl (hullPush 2) []

/-- `convex_hull_2d(points)`; `none` = ValueError (fewer than three distinct points) -/
def convexHull (pts : List Pt) : Option (List Pt) :=
  let vs := sortDedup pts
  if vs.length < 3 then none
  else
    let lower := lowerHull vs
    let t := lower.length + 1
    some ((vs.reverse.drop 1).foldl (hullPush t) lower).reverse

/-! ## vocabulary of the C19 statements (not part of the code model) -/

/-- cut the ear at the cursor after advancing the cursor `k` steps, for every `k` of the list: any sequence of ear removals -/
def cutEars : List Node → List Nat → List Tri × List Node
  | l, [] => ([], l)
  | l, k :: ks =>
    match rotBy (k % (l.length + 1)) l with
    | b :: c :: r =>
      let rest := cutEars (c :: r) ks
      ((lastOr c r, b, c) :: rest.1, rest.2)
    | short => ([], short)

def sumTri (ts : List Tri) : Rat := (ts.map triArea).sum
def sumRings (rs : List (List Node)) : Rat := (rs.map signedArea).sum
/-- what `cure_local_intersections` adds to the area balance for one quadruple a, p, q, b: the triangle p q b -/
def cureDefect (c : Cure) : Rat := area c.2.1 c.2.2.1 c.2.2.2
def sumCure (cs : List Cure) : Rat := (cs.map cureDefect).sum

/-- everything `earcut_linked` accounts for: emitted triangles, rings it stopped on, and the cured defects -/
def Out.area (o : Out) : Rat := sumTri o.tris + sumRings o.left + sumCure o.cured

/-- the run triangulated everything: no ring of three or more nodes was abandoned, nothing was "cured", fuel sufficed -/
def Out.complete (o : Out) : Prop := (∀ r ∈ o.left, r.length < 3) ∧ o.cured = [] ∧ o.fuelOut = false

/-- same source point and same coordinates (copies made by `split_polygon` differ in `steiner` only) -/
def Node.same (a b : Node) : Prop := a.pt = b.pt ∧ a.x = b.x ∧ a.y = b.y ∧ a.i = b.i

/-- left of / on / right of the directed line `cs -> ce`: the determinant tested by `is_inside` -/
def sideOf (cs ce p : Pt) : Rat := (ce.x - cs.x) * (p.y - cs.y) - (ce.y - cs.y) * (p.x - cs.x)

/-- the point `a + t (b - a)` -/
def lerp (a b : Pt) (t : Rat) : Pt := ⟨a.x + t * (b.x - a.x), a.y + t * (b.y - a.y)⟩

/-- the directed edges `clip_start -> clip_end` visited by the outer loop of `clip_polygon` / `clip_line` -/
def clipEdges (prev : Pt) : List Pt → List (Pt × Pt)
  | [] => []
  | ce :: rest => (prev, ce) :: clipEdges ce rest

/-- all directed edges of the stored clipping polygon (closed) -/
def polygonEdges : List Pt → List (Pt × Pt)
  | [] => []
  | c :: cs => clipEdges (lastPt c cs) (c :: cs)

def Win.contains (w : Win) (p : Pt) : Prop := w.xmin ≤ p.x ∧ p.x ≤ w.xmax ∧ w.ymin ≤ p.y ∧ p.y ≤ w.ymax

/-- `hull[k-2], hull[k-1], v` make a strict left turn -/
def leftTurn (o a b : Pt) : Prop := 0 < PolygonKernels.hullCross o.x o.y a.x a.y b.x b.y

/-- on the hull stack (top first): every three consecutive entries whose middle entry sits at height `floor - 1` or above
(counted from the bottom of the stack) make a strict left turn -/
def turnsOkFrom (floor : Nat) : List Pt → Prop
  | b :: a :: o :: t => (floor ≤ t.length + 2 → leftTurn o a b) ∧ turnsOkFrom floor (a :: o :: t)
  | _ => True

/-- the cross product of `convex_hull_2d`: positive when `o, a, b` make a left turn -/
def hcross (o a b : Pt) : Rat := PolygonKernels.hullCross o.x o.y a.x a.y b.x b.y

/-- consecutive pairs of a vertex list: the directed edges of the open path -/
def pairsOf : List Pt → List (Pt × Pt)
  | a :: b :: t => (a, b) :: pairsOf (b :: t)
  | _ => []

/-- consecutive triples of a vertex list: the corners of the open path -/
def triplesOf : List Pt → List (Pt × Pt × Pt)
  | a :: b :: c :: t => (a, b, c) :: triplesOf (b :: c :: t)
  | _ => []

/-- `a < b` in the order of `Vec2.__lt__` (by x, then by y) -/
def lexLt (a b : Pt) : Prop := a.x < b.x ∨ (a.x = b.x ∧ a.y < b.y)
def lexLe (a b : Pt) : Prop := lexLt a b ∨ a = b

/-- all points on one line (any three are collinear) -/
def allCollinear (pts : List Pt) : Prop := ∀ a ∈ pts, ∀ b ∈ pts, ∀ c ∈ pts, hcross a b c = 0

/-- exact winding number (crossing rule of the upward/downward edges of the horizontal ray to the right):
+1 for an edge that crosses the ray line upwards with the point strictly left of it, -1 downwards with the point right -/
def wnStep (p a b : Pt) : Int :=
  if a.y ≤ p.y then (if p.y < b.y ∧ 0 < sideOf a b p then 1 else 0)
  else (if b.y ≤ p.y ∧ sideOf a b p < 0 then -1 else 0)

def windingGo (p : Pt) (a : Pt) : List Pt → Int
  | [] => 0
  | b :: rest => wnStep p a b + windingGo p b rest

/-- winding number of the closed polygon `poly` around `p` (`p` not on the boundary) -/
def windingNumber (p : Pt) (poly : List Pt) : Int :=
  match poly with
  | [] => 0
  | v :: vs => windingGo p (lastPt v vs) (v :: vs)

/-- `p` lies on the closed segment `a b` -/
def onSegment (a b p : Pt) : Prop :=
  sideOf a b p = 0 ∧ min a.x b.x ≤ p.x ∧ p.x ≤ max a.x b.x ∧ min a.y b.y ≤ p.y ∧ p.y ≤ max a.y b.y

/-- shoelace sum of an open vertex path relative to the origin `o`: `Σ (p - o) × (q - o)` over consecutive vertices -/
def fanGo (o : Pt) (prev : Pt) : List Pt → Rat
  | [] => 0
  | q :: qs => sideOf o prev q + fanGo o q qs

/-- twice the signed area of the closed polygon `l` (counter-clockwise positive), computed as a fan around `o`;
independent of `o` (`Props.C19.fanArea_origin`) -/
def fanArea (o : Pt) (l : List Pt) : Rat :=
  match l with
  | [] => 0
  | v :: vs => fanGo o (lastPt v vs) (v :: vs)

end EzdxfVerif.Polygon

/-
C08  The line level under the tag level: how each family of readers cuts a DXF byte stream into lines and (group code,
value) pairs.  None of the readers reads in blocks - all go through `readline()` or `str.split("\n")` - so there is no
buffer boundary; what differs is the newline convention:

  tagsText    text-mode stream with universal newlines (`open(.., "rt")`): `\r\n` and a lone `\r` both end a line;
              lldxf/tagger.py `ascii_tags_loader`: `int(code_line)`, `value_line.rstrip("\n")`
              (ezdxf.readfile / read, iterdxf.modelspace)
  tagsBin     binary stream: only `\n` ends a line; `int(code_line)`, `value_line.rstrip(b"\r\n")`
              (lldxf/fileindex.py `load_tag`; `tagsBinTagger`: addons/iterdxf.py `binary_tagger`; `tagsBytesLoader`:
              recover.py `bytes_loader` with its `_search_int` fallback)
  tagsChunk   addons/iterdxf.py `IterDXF.load_entities`: the bytes of one entity, `.replace("\r\n", "\n")`, then
              lldxf/tagger.py `internal_tag_compiler`: `s.split("\n")`, no stripping of the value
  renderLines lldxf/tagwriter.py `TagWriter.write_tag2`: `"%3d\n%s\n"` per tag, with `\n` or `\r\n` line ends per tag
              (a Windows text stream, and the iterdxf exporter which mixes copied `\r\n` data with `\n` output)

Characters / bytes are natural numbers (10 = LF, 13 = CR).  Core Lean only.
-/
namespace EzdxfVerif.Readers

abbrev Bytes := List Nat

structure RawTag where
  code : Nat
  val : Bytes
  deriving DecidableEq, Repr

/-- `s.split("\n")`: the pieces between line feeds (always at least one piece) -/
def splitLF : Bytes → List Bytes
  | [] => [[]]
  | c :: r =>
    if c = 10 then [] :: splitLF r
    else match splitLF r with
      | [] => [[c]]                 -- unreachable: splitLF never returns []
      | p :: ps => (c :: p) :: ps

/-- the lines `readline()` returns until it returns the empty string: the pieces of `split("\n")`, without the empty
    piece behind a final line feed (`internal_tag_compiler`: `if s.endswith("\n"): lines.pop()`) -/
def readLines (s : Bytes) : List Bytes :=
  let p := splitLF s
  if p.getLast? = some [] then p.dropLast else p

/-- universal newlines of a text-mode stream: `\r\n` → `\n`, lone `\r` → `\n` -/
def uniNewlines : Bytes → Bytes
  | [] => []
  | [c] => [if c = 13 then 10 else c]
  | c :: d :: r =>
    if c = 13 then (if d = 10 then 10 :: uniNewlines r else 10 :: uniNewlines (d :: r))
    else c :: uniNewlines (d :: r)

/-- `data.replace("\r\n", "\n")` -/
def replaceCRLF : Bytes → Bytes
  | [] => []
  | [c] => [c]
  | c :: d :: r =>
    if c = 13 ∧ d = 10 then 10 :: replaceCRLF r
    else c :: replaceCRLF (d :: r)

/-- `line.rstrip(b"\r\n")`: every trailing CR / LF is removed -/
def rstripCRLF (l : Bytes) : Bytes := (l.reverse.dropWhile (fun c => c = 13 ∨ c = 10)).reverse

def isSpaceB (c : Nat) : Bool := c = 32 ∨ c = 9 ∨ c = 10 ∨ c = 13 ∨ c = 11 ∨ c = 12

def digitsVal : Bytes → Nat → Option Nat
  | [], acc => some acc
  | c :: r, acc => if 48 ≤ c ∧ c ≤ 57 then digitsVal r (acc * 10 + (c - 48)) else none

/-- `int(line)` for a non-negative group code: surrounding ASCII white space is ignored, then only digits
    (`none` = ValueError; signs, underscores and non-ASCII white space are not modelled: no writer emits them) -/
def pyInt (l : Bytes) : Option Nat :=
  let core := ((l.dropWhile isSpaceB).reverse.dropWhile isSpaceB).reverse
  if core = [] then none else digitsVal core 0

/-- recover.py `_search_int` (the fallback of bytes_loader for a line `int()` rejects): the first run of digits
    (`re.search(rb"[+-]?\d+", s)`; a sign is not modelled) -/
def searchInt (l : Bytes) : Option Nat :=
  let d := (l.dropWhile (fun c => !(decide (48 ≤ c) && decide (c ≤ 57)))).takeWhile (fun c => decide (48 ≤ c) && decide (c ≤ 57))
  if d = [] then none else digitsVal d 0

/-- the group code line as bytes_loader reads it: `int(code)`, else `_search_int(code)` -/
def pyIntLenient (l : Bytes) : Option Nat :=
  match pyInt l with
  | some n => some n
  | none => searchInt l

inductive LErr where
  | invalidGroupCode
  deriving DecidableEq, Repr

/-- lines → tags: a code line and a value line per tag.
    `tagger = false` (ascii_tags_loader, bytes_loader, fileindex load_tag): an invalid code line raises
    DXFStructureError, a code line without a value line at the end of the stream is dropped (`else: return`);
    `tagger = true` (iterdxf binary_tagger): the generator ends with DXFStructureError in any case (`int(b"")` at the
    end of the stream), so an invalid code line just ends it earlier; a code line without value line yields a tag with
    an empty value (`readline()` returns `b""`) -/
def pairLinesWith (parse : Bytes → Option Nat) (strip : Bytes → Bytes) (tagger : Bool) : List Bytes → Except LErr (List RawTag)
  | [] => .ok []
  | [c] =>
    match parse c with
    | none => if tagger then .ok [] else .error .invalidGroupCode
    | some n => .ok (if tagger then [⟨n, []⟩] else [])
  | c :: v :: r =>
    match parse c with
    | none => if tagger then .ok [] else .error .invalidGroupCode
    | some n =>
      match pairLinesWith parse strip tagger r with
      | .ok ts => .ok (⟨n, strip v⟩ :: ts)
      | .error e => .error e

/-- ascii_tags_loader on a text-mode stream with universal newlines (without its comment / EOF handling, which
    `asciiLoad` models at tag level) -/
def tagsText (s : Bytes) : Except LErr (List RawTag) := pairLinesWith pyInt id false (readLines (uniNewlines s))

/-- fileindex `load_tag` on a binary stream -/
def tagsBin (s : Bytes) : Except LErr (List RawTag) := pairLinesWith pyInt rstripCRLF false (readLines s)

/-- recover `bytes_loader` on a binary stream -/
def tagsBytesLoader (s : Bytes) : Except LErr (List RawTag) := pairLinesWith pyIntLenient rstripCRLF false (readLines s)

/-- iterdxf `binary_tagger` on a binary stream: the tags it yields before it ends with DXFStructureError -/
def tagsBinTagger (s : Bytes) : Except LErr (List RawTag) := pairLinesWith pyInt rstripCRLF true (readLines s)

/-- `IterDXF.load_entities` on the bytes of one entity: `to_str` + `internal_tag_compiler` (structure: lines in pairs;
    a trailing odd line is an IndexError in the code, dropped here) -/
def tagsChunk (s : Bytes) : Except LErr (List RawTag) := pairLinesWith pyInt id false (readLines (replaceCRLF s))

/-! ## writer -/

def digitChars : Nat → Nat → Bytes
  | 0, _ => []
  | fuel + 1, n => if n < 10 then [48 + n] else digitChars fuel (n / 10) ++ [48 + n % 10]

/-- `"%3d" % code` -/
def fmtCode (c : Nat) : Bytes :=
  let d := digitChars 8 c
  List.replicate (3 - d.length) 32 ++ d

def eolOf (crlf : Bool) : Bytes := if crlf then [13, 10] else [10]

/-- `TagWriter.write_tag2` for every tag; `crlf` per tag: the line ends of that tag -/
def renderLines : List (RawTag × Bool) → Bytes
  | [] => []
  | (t, crlf) :: r => fmtCode t.code ++ eolOf crlf ++ t.val ++ eolOf crlf ++ renderLines r

/-- lldxf/fileindex.py `load`: `location = file.tell()` in front of the k-th tag = the bytes of the tags before it -/
def locationOf (ts : List (RawTag × Bool)) (k : Nat) : Nat := (renderLines (ts.take k)).length

/-- `IterDXF.load_entities`: `file.seek(entry.location)`, `file.read(next_entry.location - entry.location)` -/
def readChunk (data : Bytes) (start stop : Nat) : Bytes := (data.drop start).take (stop - start)

/-- the iterdxf exporter at byte level (addons/iterdxf.py `IterDXF.export`, `IterDXFWriter.write`, `close`,
    `copy_objects_section`): the source bytes up to the location of the first structure tag behind the ENTITIES section
    head are copied, every written entity is appended as the `TagWriter` text (`\n` line ends), then
    `b"  0\r\nENDSEC\r\n"`, for a file newer than R12 the bytes of the OBJECTS section (from the location of its SECTION
    tag to the location of the tag behind its ENDSEC), and `b"  0\r\nEOF\r\n"`.
    `src` = the source file, `nPrefix` = number of tags in front of the first entity, `objects` = position and number of
    tags of the OBJECTS section in `src` -/
def exportBytes (src : List (RawTag × Bool)) (nPrefix : Nat) (written : List RawTag) (objects : Option (Nat × Nat)) : Bytes :=
  (renderLines src).take (locationOf src nPrefix)
    ++ renderLines (written.map (fun t => (t, false)))
    ++ renderLines [(⟨0, [69, 78, 68, 83, 69, 67]⟩, true)]                      -- "  0\r\nENDSEC\r\n"
    ++ (match objects with
        | some (start, n) => readChunk (renderLines src) (locationOf src start) (locationOf src (start + n))
        | none => [])
    ++ renderLines [(⟨0, [69, 79, 70]⟩, true)]                                  -- "  0\r\nEOF\r\n"

/-- a value a writer may emit: no line break characters -/
def valOK (v : Bytes) : Bool := v.all (fun c => c != 10 && c != 13)

end EzdxfVerif.Readers
